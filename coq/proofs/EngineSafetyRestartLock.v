(* EngineSafetyRestartLock.v -- the failed header attempt (run A) and the restarted attempt (run B)
   proceed in lock step as long as their bit readers are related (REL of EngineSafetyRestartBits.v):
   codeLenCodes, clc_decode, rl_loop / readLitDistLens.  Each lemma says: either the two runs return
   the same error (never EEndInput) with related readers, or run B has reached its goal (FINE).
   The code-length-code tables of the two runs are built on different old table contents; they are
   compared through their exact characterisation clc_tab_ok (EngineRefineSmallClc.gen_clc). *)
From Verif Require Import Engine EngineTables.
From Verif Require Import Base EngineSafetyBase EngineSafetyBits EngineSafetyInv.
From Verif Require Import EngineSafetySmall EngineSafetyRL.
From Verif Require Import EngineSafetyRestartBits EngineSafetyRestartMono.
From Verif Require Huffman Inflate EngineRefineSpec EngineRefineSmallCodes EngineRefineSmallClc
  EngineRefineHeaderClc.
From Coq Require Import List NArith ZArith Bool Lia ZifyBool ZifyNat ZifyN.
Import ListNotations.
Open Scope N_scope.

Notation clc_tab_ok := EngineRefineSpec.clc_tab_ok.
Notation cw_match := EngineRefineSpec.cw_match.

Lemma match_dec : forall v (l : list (nat * nat * N)),
  (exists d len c, In (d, len, c) l /\ cw_match v len c) \/
  (forall d len c, In (d, len, c) l -> ~ cw_match v len c).
Proof.
  intros v l. induction l as [|[[d len] c] l IH].
  - right. intros d len c H. destruct H.
  - destruct (N.eq_dec (N.land v (N.ones (N.of_nat len))) (EngineRefineSpec.rcode len c)) as [E|E].
    + left. exists d, len, c. split; [left; reflexivity|exact E].
    + destruct IH as [(d' & len' & c' & Hin & Hm)|Hno].
      * left. exists d', len', c'. split; [right; exact Hin|exact Hm].
      * right. intros d' len' c' [Heq|Hin].
        -- injection Heq as <- <- <-. exact E.
        -- exact (Hno d' len' c' Hin).
Qed.

Lemma canon_len7 : forall cl d len c, Forall (fun x => (x <= 7)%nat) cl ->
  In (d, len, c) (Huffman.canon cl) -> (len <= 7)%nat.
Proof.
  intros cl d len c HF Hin.
  assert (HF15 : Forall (fun y => (y <= 15)%nat) cl).
  { eapply Forall_impl; [|exact HF]. cbn beta. intros; lia. }
  apply (EngineRefineSmallCodes.canon_spec cl d len c HF15) in Hin.
  destruct Hin as (A & B & C & D). subst len.
  rewrite Forall_forall in HF. apply HF. apply nth_In. exact A.
Qed.

Section Lock.
Variable X : list N.
Notation REL := (REL X).
Notation FIN := (FIN X).
Notation FINE := (FINE X).

(* one code-length symbol *)
Lemma clc_lock : forall cl SA LA SB LB a b,
  Forall (fun x => (x <= 7)%nat) cl -> clc_tab_ok cl SA LA -> clc_tab_ok cl SB LB ->
  REL 16 a b ->
  exists symA a' symB b',
    clc_decode SA LA a = Some (symA, a') /\ clc_decode SB LB b = Some (symB, b') /\
    ((symA = symB /\ REL 9 a' b') \/ FIN b' \/
     (symB = 511 /\ b' = b /\ (Z.of_N (r_inlen b) <= lenX X)%Z)).
Proof.
  intros cl SA LA SB LB a b HF HA HB Hrel.
  destruct (HA a) as [HA1 HA2]. destruct (HB b) as [HB1 HB2].
  destruct (match_dec (r_bits b) (Huffman.canon cl)) as [(d & len & c & Hin & Hm)|Hno].
  - pose proof (canon_len7 cl d len c HF Hin) as H7.
    rewrite (HB1 d len c Hin Hm).
    destruct (REL_read X 16 a b (N.of_nat len) Hrel ltac:(lia)) as [[Hv Hr]|Hfin].
    + assert (Hma : cw_match (r_bits a) len c).
      { unfold EngineRefineSpec.cw_match in *. rewrite Hv. exact Hm. }
      rewrite (HA1 d len c Hin Hma).
      exists (N.of_nat d), (br_drop a (N.of_nat len)), (N.of_nat d), (br_drop b (N.of_nat len)).
      split; [reflexivity|]. split; [reflexivity|]. left. split; [reflexivity|].
      apply (REL_weaken X (16 - Z.of_N (N.of_nat len))); [lia|exact Hr].
    + destruct (match_dec (r_bits a) (Huffman.canon cl)) as [(d' & len' & c' & Hin' & Hm')|Hno'].
      * rewrite (HA1 d' len' c' Hin' Hm').
        eexists _, _, _, _. split; [reflexivity|]. split; [reflexivity|]. right. left. exact Hfin.
      * rewrite (HA2 Hno').
        eexists _, _, _, _. split; [reflexivity|]. split; [reflexivity|]. right. left. exact Hfin.
  - rewrite (HB2 Hno).
    destruct (match_dec (r_bits a) (Huffman.canon cl)) as [(d' & len' & c' & Hin' & Hm')|Hno'].
    + pose proof (canon_len7 cl d' len' c' HF Hin') as H7.
      rewrite (HA1 d' len' c' Hin' Hm').
      eexists _, _, _, _. split; [reflexivity|]. split; [reflexivity|].
      destruct (REL_read X 16 a b (N.of_nat len') Hrel ltac:(lia)) as [[Hv Hr]|Hfin].
      * exfalso. apply (Hno d' len' c' Hin'). unfold EngineRefineSpec.cw_match in *. rewrite <- Hv. exact Hm'.
      * right. right. split; [reflexivity|]. split; [reflexivity|]. exact (proj1 Hfin).
    + rewrite (HA2 Hno').
      eexists _, _, _, _. split; [reflexivity|]. split; [reflexivity|]. left. split; [reflexivity|].
      apply (REL_weaken X 16); [lia|exact Hrel].
Qed.

(* ---------------------------------------------------------------- codeLenCodes *)
Lemma clc_iter_lock : forall n i a b h c, REL (3 * Z.of_nat n) a b ->
  (snd (fst (iterN n i clc_read3 (a, h, c))) = snd (fst (iterN n i clc_read3 (b, h, c))) /\
   snd (iterN n i clc_read3 (a, h, c)) = snd (iterN n i clc_read3 (b, h, c)) /\
   REL 0 (fst (fst (iterN n i clc_read3 (a, h, c)))) (fst (fst (iterN n i clc_read3 (b, h, c))))) \/
  FIN (fst (fst (iterN n i clc_read3 (b, h, c)))).
Proof.
  induction n as [|n IH]; intros i a b h c Hrel.
  - cbn [iterN fst snd]. left. split; [reflexivity|]. split; [reflexivity|].
    apply (REL_weaken X (3 * Z.of_nat 0)); [lia|exact Hrel].
  - cbn [iterN]. rewrite !clc_read3_eq.
    destruct (REL_read X _ a b 3 Hrel ltac:(lia)) as [[Hv Hr]|Hfin].
    + rewrite Hv. apply IH. apply (REL_weaken X (3 * Z.of_nat (S n) - Z.of_N 3)); [lia|exact Hr].
    + right. eapply FIN_mono; [exact Hfin|apply mono_clc_iter].
Qed.

Notation clc_inv := EngineRefineHeaderClc.clc_inv.

Lemma clc_arr_iter : forall n i b h c vals, (i + n <= 19)%nat -> clc_inv i vals h c ->
  exists vs, clc_inv (i + n) (vals ++ vs)
               (snd (fst (iterN n (N.of_nat i) clc_read3 (b, h, c))))
               (snd (iterN n (N.of_nat i) clc_read3 (b, h, c))).
Proof.
  induction n as [|n IH]; intros i b h c vals Hi Hinv.
  - exists []. cbn [iterN fst snd]. rewrite app_nil_r, Nat.add_0_r. exact Hinv.
  - cbn [iterN]. rewrite clc_read3_eq.
    set (v := N.land (r_bits b) (N.ones 3)).
    assert (Hv : v < 8) by (apply (land_ones_lt (r_bits b) 3)).
    pose proof (EngineRefineHeaderClc.clc_inv_step i vals h c v Hinv ltac:(lia) Hv) as Hstep.
    replace (N.of_nat i + 1) with (N.of_nat (S i)) by lia.
    destruct (IH (S i) (br_drop b 3) _ _ _ ltac:(lia) Hstep) as (vs & Hvs).
    exists (N.to_nat v :: vs).
    replace (i + S n)%nat with (S i + n)%nat by lia.
    replace (vals ++ N.to_nat v :: vs) with ((vals ++ [N.to_nat v]) ++ vs) by (rewrite <- app_assoc; reflexivity).
    exact Hvs.
Qed.

(* the end of codeLenCodes: the canonical code and its decode table *)
Definition clc_fin (s : inflate) (b : bitrd) (codeHuff codeCount : arr) : inflate * ierr :=
  let s := set_rd s b in
  if (r_len b <? 0)%Z then (s, EEndInput)
  else
    let '(codeHuff, bad) := setCodes codeHuff 0 19 codeCount in
    if bad then (s, EInvalidBlock)
    else
      let d := dyn s in
      let '(sh, lg, _, e) := gen_small true (clcShort d) (clcLong d) codeHuff 19 codeCount 19 in
      let d := mkDyn (litAndDistHuff d) sh lg (codeList d) (litCount d) (distCount d)
                     (litExpandCount d) (nextCode d) (lenHuffCodes d) in
      (set_dyn s d, e).

Lemma codeLenCodes_eq : forall s hclen,
  codeLenCodes s hclen =
  let '(b, h, c) := iterN 4 0 clc_read3 (rd s, aempty, aempty) in
  match load_lt57 b with
  | None => (set_rd s b, EPanic)
  | Some b => let '(b, h, c) := iterN (N.to_nat (hclen + 4 - 4)) 4 clc_read3 (b, h, c) in clc_fin s b h c
  end.
Proof. reflexivity. Qed.

Lemma clc_fin_rd : forall s b h c, rd (fst (clc_fin s b h c)) = b.
Proof.
  intros s b h c. unfold clc_fin. cbv zeta.
  destruct (r_len b <? 0)%Z; [reflexivity|].
  destruct (setCodes h 0 19 c) as [h4 bad]. destruct bad; [reflexivity|].
  destruct (gen_small _ _ _ _ _ _ _) as [[[sh lg] cd] e]. reflexivity.
Qed.

Definition clc_same (cl : Huffman.lens) (sA sB : inflate) : Prop :=
  Forall (fun x => (x <= 7)%nat) cl /\
  clc_tab_ok cl (clcShort (dyn sA)) (clcLong (dyn sA)) /\
  clc_tab_ok cl (clcShort (dyn sB)) (clcLong (dyn sB)).

Lemma clc_fin_lock : forall sA sB a b k vals h c,
  REL 0 a b -> clc_inv k vals h c ->
  snd (clc_fin sA a h c) = snd (clc_fin sB b h c) /\
  snd (clc_fin sA a h c) <> EEndInput /\
  (snd (clc_fin sA a h c) = ENone ->
   exists cl, clc_same cl (fst (clc_fin sA a h c)) (fst (clc_fin sB b h c))).
Proof.
  intros sA sB a b k vals h c Hrel Hinv.
  destruct (REL_inv X _ _ _ Hrel) as (_ & _ & Ha0 & Hb0).
  destruct (EngineRefineHeaderClc.clc_inv_lens_in _ _ _ _ Hinv) as [Hli H7].
  set (cl := Inflate.scatter Inflate.clen_order vals (repeat 0%nat 19)) in *.
  unfold clc_fin. cbv zeta.
  replace (r_len a <? 0)%Z with false by lia. replace (r_len b <? 0)%Z with false by lia.
  pose proof (EngineRefineSmallClc.gen_clc cl h c (clcShort (dyn (set_rd sA a))) (clcLong (dyn (set_rd sA a))) Hli H7) as GA.
  pose proof (EngineRefineSmallClc.gen_clc cl h c (clcShort (dyn (set_rd sB b))) (clcLong (dyn (set_rd sB b))) Hli H7) as GB.
  destruct (setCodes h 0 19 c) as [h4 bad].
  destruct GA as [_ GA]. destruct GB as [_ GB].
  destruct bad.
  { cbn [snd]. split; [reflexivity|]. split; [discriminate|]. intros Hc; discriminate Hc. }
  specialize (GA eq_refl). specialize (GB eq_refl).
  destruct (gen_small true (clcShort (dyn (set_rd sA a))) (clcLong (dyn (set_rd sA a))) h4 19 c 19)
    as [[[shA lgA] cdA] eA].
  destruct (gen_small true (clcShort (dyn (set_rd sB b))) (clcLong (dyn (set_rd sB b))) h4 19 c 19)
    as [[[shB lgB] cdB] eB].
  destruct GA as [-> GA]. destruct GB as [-> GB].
  cbn [fst snd]. split; [reflexivity|]. split; [discriminate|].
  intros _. exists cl. unfold clc_same. cbn [dyn set_dyn clcShort clcLong].
  split; [exact H7|]. split; assumption.
Qed.

Lemma codeLenCodes_lock : forall sA sB hclen,
  hclen <= 15 -> REL 12 (rd sA) (rd sB) ->
  (snd (codeLenCodes sA hclen) = snd (codeLenCodes sB hclen) /\
   snd (codeLenCodes sA hclen) <> EEndInput /\
   REL 0 (rd (fst (codeLenCodes sA hclen))) (rd (fst (codeLenCodes sB hclen))) /\
   (snd (codeLenCodes sA hclen) = ENone ->
    exists cl, clc_same cl (fst (codeLenCodes sA hclen)) (fst (codeLenCodes sB hclen)))) \/
  FINE (rd (fst (codeLenCodes sB hclen))) (snd (codeLenCodes sB hclen)).
Proof.
  intros sA sB hclen Hh Hrel. rewrite !codeLenCodes_eq.
  replace (N.to_nat (hclen + 4 - 4)) with (N.to_nat hclen) by lia.
  pose proof (clc_iter_lock 4 0 (rd sA) (rd sB) aempty aempty
                (REL_weaken X 12 (3 * Z.of_nat 4) _ _ ltac:(lia) Hrel)) as L1.
  destruct (clc_arr_iter 4 0 (rd sA) aempty aempty [] ltac:(lia) EngineRefineHeaderClc.clc_inv_init)
    as (vs1 & Hinv1).
  change (N.of_nat 0) with 0 in Hinv1. cbn [app Nat.add] in Hinv1.
  pose proof (mono_clc_iter 4 0 (rd sB) aempty aempty) as MB1.
  destruct (iterN 4 0 clc_read3 (rd sA, aempty, aempty)) as [[a1 hA1] cA1].
  destruct (iterN 4 0 clc_read3 (rd sB, aempty, aempty)) as [[b1 hB1] cB1].
  cbn [fst snd] in L1, Hinv1, MB1.
  (* run B alone, from b1 *)
  assert (HB : FIN b1 ->
    FINE (rd (fst (match load_lt57 b1 with
                   | Some b0 => let '(b2, h, c) := iterN (N.to_nat hclen) 4 clc_read3 (b0, hB1, cB1) in clc_fin sB b2 h c
                   | None => (set_rd sB b1, EPanic) end)))
         (snd (match load_lt57 b1 with
               | Some b0 => let '(b2, h, c) := iterN (N.to_nat hclen) 4 clc_read3 (b0, hB1, cB1) in clc_fin sB b2 h c
               | None => (set_rd sB b1, EPanic) end))).
  { intros F1. destruct (load_lt57 b1) as [b2|] eqn:ELB.
    - pose proof (mono_clc_iter (N.to_nat hclen) 4 b2 hB1 cB1) as MB3.
      destruct (iterN (N.to_nat hclen) 4 clc_read3 (b2, hB1, cB1)) as [[b3 hB3] cB3]. cbn [fst] in MB3.
      rewrite clc_fin_rd. apply FIN_FINE.
      eapply FIN_mono; [exact F1|]. eapply mono_trans; [apply (mono_load_lt57 _ _ ELB)|exact MB3].
    - cbn [fst snd rd set_rd]. apply FIN_FINE. exact F1. }
  destruct L1 as [(Eh1 & Ec1 & R1)|F1]; [|right; exact (HB F1)].
  subst hB1 cB1. clear HB.
  destruct (REL_inv X _ _ _ R1) as (Ia1 & Ib1 & _ & _).
  destruct (load_lt57_spec a1 Ia1) as (a2 & LA & _). destruct (load_lt57_spec b1 Ib1) as (b2 & LB & _).
  rewrite LA, LB.
  pose proof (REL_load_lt57 X _ _ _ _ _ R1 LA LB) as R2.
  pose proof (clc_iter_lock (N.to_nat hclen) 4 a2 b2 hA1 cA1
                (REL_weaken X 57 (3 * Z.of_nat (N.to_nat hclen)) _ _ ltac:(lia) R2)) as L3.
  destruct (clc_arr_iter (N.to_nat hclen) 4 a2 hA1 cA1 vs1 ltac:(lia) Hinv1) as (vs3 & Hinv3).
  change (N.of_nat 4) with 4 in Hinv3.
  destruct (iterN (N.to_nat hclen) 4 clc_read3 (a2, hA1, cA1)) as [[a3 hA3] cA3].
  destruct (iterN (N.to_nat hclen) 4 clc_read3 (b2, hA1, cA1)) as [[b3 hB3] cB3].
  cbn [fst snd] in L3, Hinv3.
  destruct L3 as [(Eh3 & Ec3 & R3)|F3].
  - subst hB3 cB3. left.
    destruct (clc_fin_lock sA sB a3 b3 _ _ _ _ R3 Hinv3) as (E1 & E2 & E3).
    split; [exact E1|]. split; [exact E2|]. split; [rewrite !clc_fin_rd; exact R3|exact E3].
  - right. rewrite clc_fin_rd. apply FIN_FINE. exact F3.
Qed.

(* ---------------------------------------------------------------- rl_loop *)
Lemma rl_curr_set_b : forall st b, rl_curr (rl_set_b st b) = rl_curr st. Proof. reflexivity. Qed.
Lemma rl_prev_set_b : forall st b, rl_prev (rl_set_b st b) = rl_prev st. Proof. reflexivity. Qed.
Lemma rl_h_set_b : forall st b, rl_h (rl_set_b st b) = rl_h st. Proof. reflexivity. Qed.
Lemma rl_lc_set_b : forall st b, rl_lc (rl_set_b st b) = rl_lc st. Proof. reflexivity. Qed.
Lemma rl_dc_set_b : forall st b, rl_dc (rl_set_b st b) = rl_dc st. Proof. reflexivity. Qed.
Lemma rl_ex_set_b : forall st b, rl_ex (rl_set_b st b) = rl_ex st. Proof. reflexivity. Qed.
Lemma rl_inDist_set_b : forall st b, rl_inDist (rl_set_b st b) = rl_inDist st. Proof. reflexivity. Qed.
Hint Rewrite rl_curr_set_b rl_prev_set_b rl_h_set_b rl_lc_set_b rl_dc_set_b rl_ex_set_b rl_inDist_set_b
  rl_set_b_b rl_set_b_twice : rlp.

(* results of the two runs: in lock step, or run B is done *)
Definition rl_lockres (rA rB : rlst * ierr) : Prop :=
  (snd rA = snd rB /\ snd rA <> EEndInput /\ fst rB = rl_set_b (fst rA) (rl_b (fst rB)) /\
   REL 0 (rl_b (fst rA)) (rl_b (fst rB))) \/
  FINE (rl_b (fst rB)) (snd rB).

Definition klock (kA kB : rlst -> rlst * ierr) : Prop :=
  forall st a b, REL 0 a b -> rl_lockres (kA (rl_set_b st a)) (kB (rl_set_b st b)).

Lemma kmono_fine : forall k st, kmono k -> FIN (rl_b st) -> FINE (rl_b (fst (k st))) (snd (k st)).
Proof. intros k st Hk F. apply FIN_FINE. eapply FIN_mono; [exact F|apply Hk]. Qed.

Lemma lockres_stop : forall st a b e, REL 0 a b -> e <> EEndInput ->
  rl_lockres (rl_set_b st a, e) (rl_set_b st b, e).
Proof.
  intros st a b e Hrel He. left. cbn [fst snd]. split; [reflexivity|]. split; [exact He|].
  split; [reflexivity|]. exact Hrel.
Qed.

Lemma rl_after_lock : forall kA kB split endv st sym a b,
  klock kA kB -> kmono kB -> REL 9 a b ->
  rl_lockres (rl_after kA split endv st sym a) (rl_after kB split endv st sym b).
Proof.
  intros kA kB split endv st sym a b Hk HmB Hrel.
  destruct (REL_inv X _ _ _ Hrel) as (Ia & Ib & Ha0 & Hb0).
  assert (Hrel0 : REL 0 a b) by (apply (REL_weaken X 9); [lia|exact Hrel]).
  unfold rl_after. cbv zeta.
  replace (r_len a <? 0)%Z with false by lia. replace (r_len b <? 0)%Z with false by lia.
  destruct (sym <? 16).
  { rewrite !rl_put_set_b. destruct (rl_put st split endv (hc_set 0 sym)) as [st2|].
    - apply Hk. exact Hrel0.
    - apply lockres_stop; [exact Hrel0|discriminate]. }
  destruct (sym =? 16).
  { destruct (load_raw_spec a Ia) as (a3 & LA & _). destruct (load_raw_spec b Ib) as (b3 & LB & _).
    rewrite LA, LB.
    pose proof (REL_load_raw X _ _ _ _ _ Hrel LA LB) as R3.
    rewrite !next_bits_pair. cbv beta iota zeta. autorewrite with rlp.
    destruct (REL_read X 57 a3 b3 2 R3 ltac:(lia)) as [[Hv Hr]|Hfin].
    - rewrite Hv.
      assert (Hr0 : REL 0 (br_drop a3 2) (br_drop b3 2)) by (apply (REL_weaken X (57 - Z.of_N 2)); [lia|exact Hr]).
      match goal with |- context [if ?c then _ else _] => destruct c end.
      + apply lockres_stop; [exact Hr0|discriminate].
      + rewrite !rl_rep_set_b.
        match goal with |- context [rl_rep ?n st ?s ?e ?h] => destruct (rl_rep n st s e h) as [st5|] end.
        * apply Hk. exact Hr0.
        * apply lockres_stop; [exact Hr0|discriminate].
    - right.
      match goal with |- context [if ?c then _ else _] => destruct c end.
      + cbn [fst snd]. rewrite rl_set_b_b. apply FIN_FINE. exact Hfin.
      + rewrite rl_rep_set_b.
        match goal with |- context [rl_rep ?n st ?s ?e ?h] => destruct (rl_rep n st s e h) as [st5|] end.
        * apply kmono_fine; [exact HmB|]. rewrite rl_set_b_b. exact Hfin.
        * cbn [fst snd]. rewrite rl_set_b_b. apply FIN_FINE. exact Hfin. }
  destruct ((sym =? 17) || (sym =? 18)); [|apply lockres_stop; [exact Hrel0|discriminate]].
  destruct (load_raw_spec a Ia) as (a3 & LA & _). destruct (load_raw_spec b Ib) as (b3 & LB & _).
  rewrite LA, LB.
  pose proof (REL_load_raw X _ _ _ _ _ Hrel LA LB) as R3.
  assert (Hgen : forall k, (Z.of_N k <= 57)%Z ->
    rl_lockres
      (let '(ret, b0) := next_bits a3 k in
       let i := Z.of_N ((if sym =? 17 then 3 else 11) + ret) in
       let curr := (rl_curr (rl_set_b st a) + i)%Z in
       let prev := (curr - 1)%Z in
       let '(curr0, prev0, inDist) :=
         if negb (rl_inDist (rl_set_b st a)) && (split <? curr)%Z
         then let curr0 := (curr + (286 - split))%Z in
              (curr0, if (286 <? curr0)%Z then (curr0 - 1)%Z else prev, true)
         else (curr, prev, rl_inDist (rl_set_b st a)) in
       kA (mkRL b0 (rl_h (rl_set_b st a)) (rl_lc (rl_set_b st a)) (rl_dc (rl_set_b st a))
                (rl_ex (rl_set_b st a)) curr0 prev0 inDist))
      (let '(ret, b0) := next_bits b3 k in
       let i := Z.of_N ((if sym =? 17 then 3 else 11) + ret) in
       let curr := (rl_curr (rl_set_b st b) + i)%Z in
       let prev := (curr - 1)%Z in
       let '(curr0, prev0, inDist) :=
         if negb (rl_inDist (rl_set_b st b)) && (split <? curr)%Z
         then let curr0 := (curr + (286 - split))%Z in
              (curr0, if (286 <? curr0)%Z then (curr0 - 1)%Z else prev, true)
         else (curr, prev, rl_inDist (rl_set_b st b)) in
       kB (mkRL b0 (rl_h (rl_set_b st b)) (rl_lc (rl_set_b st b)) (rl_dc (rl_set_b st b))
                (rl_ex (rl_set_b st b)) curr0 prev0 inDist))).
  { intros k Hk57. rewrite !next_bits_pair. cbv beta iota zeta. autorewrite with rlp.
    destruct (REL_read X 57 a3 b3 k R3 Hk57) as [[Hv Hr]|Hfin].
    - rewrite Hv.
      assert (Hr0 : REL 0 (br_drop a3 k) (br_drop b3 k)) by (apply (REL_weaken X (57 - Z.of_N k)); [lia|exact Hr]).
      match goal with |- context [if ?c then _ else _] => destruct c end; cbv beta iota zeta;
        match goal with |- rl_lockres (kA (mkRL _ ?h ?lc ?dc ?ex ?c ?p ?i)) _ =>
          exact (Hk (mkRL (br_drop a3 k) h lc dc ex c p i) _ _ Hr0) end.
    - right.
      match goal with |- context [if ?c then _ else _] => destruct c end; cbv beta iota zeta;
        (apply kmono_fine; [exact HmB|exact Hfin]). }
  destruct (sym =? 17) eqn:E17.
  - exact (Hgen 3 ltac:(lia)).
  - exact (Hgen 7 ltac:(lia)).
Qed.

Lemma rl_after_set_b : forall k split endv st b0 sym b,
  rl_after k split endv (rl_set_b st b0) sym b = rl_after k split endv st sym b.
Proof. reflexivity. Qed.

Lemma rl_body_lock : forall cl SA LA SB LB kA kB split endv st a b,
  Forall (fun x => (x <= 7)%nat) cl -> clc_tab_ok cl SA LA -> clc_tab_ok cl SB LB ->
  klock kA kB -> kmono kB -> REL 0 a b ->
  rl_lockres (rl_body kA SA LA split endv (rl_set_b st a)) (rl_body kB SB LB split endv (rl_set_b st b)).
Proof.
  intros cl SA LA SB LB kA kB split endv st a b HF HA HB Hk HmB Hrel.
  destruct (REL_inv X _ _ _ Hrel) as (Ia & Ib & Ha0 & Hb0).
  unfold rl_body. autorewrite with rlp.
  destruct (rl_curr st <? endv)%Z.
  2:{ destruct ((endv <? rl_curr st)%Z || (hc_len (aget (rl_h st) 256) =? 0));
        apply lockres_stop; try exact Hrel; discriminate. }
  destruct (load_le15_spec a Ia) as (a1 & LA1 & _). destruct (load_le15_spec b Ib) as (b1 & LB1 & _).
  rewrite LA1, LB1.
  pose proof (REL_load_le15 X _ _ _ _ _ Hrel LA1 LB1) as R1.
  destruct (clc_lock cl SA LA SB LB a1 b1 HF HA HB R1) as (symA & a2 & symB & b2 & DA & DB & Hcase).
  rewrite DA, DB. rewrite !rl_after_set_b.
  destruct Hcase as [[Es R2]|[F2|(Es & Eb & Hin)]].
  - subst symB. apply rl_after_lock; assumption.
  - right. apply FIN_FINE. eapply FIN_mono; [exact F2|]. apply rl_after_mono. exact HmB.
  - subst symB b2. right.
    destruct (REL_inv X _ _ _ R1) as (_ & _ & _ & Hb10).
    unfold rl_after. cbv zeta. replace (r_len b1 <? 0)%Z with false by lia.
    change (511 <? 16) with false. change (511 =? 16) with false.
    change ((511 =? 17) || (511 =? 18)) with false. cbv iota.
    cbn [fst snd]. rewrite rl_set_b_b. apply FINE_err; [exact Hin|discriminate].
Qed.

Lemma rl_loop_lock : forall cl SA LA SB LB split endv,
  Forall (fun x => (x <= 7)%nat) cl -> clc_tab_ok cl SA LA -> clc_tab_ok cl SB LB ->
  forall fuel, klock (rl_loop fuel SA LA split endv) (rl_loop fuel SB LB split endv).
Proof.
  intros cl SA LA SB LB split endv HF HA HB. induction fuel as [|f IH]; intros st a b Hrel.
  - cbn [rl_loop]. apply lockres_stop; [exact Hrel|discriminate].
  - rewrite !rl_loop_S. apply (rl_body_lock cl); try assumption. apply rl_loop_mono.
Qed.

(* readLitDistLens, with its fuel as a parameter (rld_body of EngineSafetyRL.v) *)
Lemma rld_body_lock : forall cl fuel sA sB hdist hlit,
  clc_same cl sA sB -> REL 0 (rd sA) (rd sB) ->
  litAndDistHuff (dyn sA) = litAndDistHuff (dyn sB) -> litCount (dyn sA) = litCount (dyn sB) ->
  distCount (dyn sA) = distCount (dyn sB) -> litExpandCount (dyn sA) = litExpandCount (dyn sB) ->
  (snd (rld_body fuel sA hdist hlit) = snd (rld_body fuel sB hdist hlit) /\
   snd (rld_body fuel sA hdist hlit) <> EEndInput /\
   REL 0 (rd (fst (rld_body fuel sA hdist hlit))) (rd (fst (rld_body fuel sB hdist hlit)))) \/
  FINE (rd (fst (rld_body fuel sB hdist hlit))) (snd (rld_body fuel sB hdist hlit)).
Proof.
  intros cl fuel sA sB hdist hlit (HF & HA & HB) Hrel E1 E2 E3 E4.
  unfold rld_body. cbv zeta. rewrite E1, E2, E3, E4.
  set (st := mkRL (rd sA) (litAndDistHuff (dyn sB)) (litCount (dyn sB)) (distCount (dyn sB))
                  (litExpandCount (dyn sB)) 0%Z (-1)%Z false).
  pose proof (rl_loop_lock cl _ _ _ _ (Z.of_N (litTableSize + hlit)) (Z.of_N (litLen + hdist + 1))
                HF HA HB fuel st (rd sA) (rd sB) Hrel) as L.
  change (rl_set_b st (rd sA)) with st in L.
  change (rl_set_b st (rd sB)) with
    (mkRL (rd sB) (litAndDistHuff (dyn sB)) (litCount (dyn sB)) (distCount (dyn sB))
          (litExpandCount (dyn sB)) 0%Z (-1)%Z false) in L.
  destruct (rl_loop fuel (clcShort (dyn sA)) (clcLong (dyn sA)) _ _ st) as [stA eA].
  destruct (rl_loop fuel (clcShort (dyn sB)) (clcLong (dyn sB)) _ _ _) as [stB eB].
  cbn [fst snd rd set_rd]. unfold rl_lockres in L. cbn [fst snd] in L.
  destruct L as [(L1 & L2 & _ & L4)|L]; [left|right; exact L].
  split; [exact L1|]. split; [exact L2|exact L4].
Qed.

Lemma readLitDistLens_lock : forall cl sA sB hdist hlit rA rB,
  readLitDistLens sA hdist hlit = rA -> readLitDistLens sB hdist hlit = rB ->
  clc_same cl sA sB -> REL 0 (rd sA) (rd sB) ->
  litAndDistHuff (dyn sA) = litAndDistHuff (dyn sB) -> litCount (dyn sA) = litCount (dyn sB) ->
  distCount (dyn sA) = distCount (dyn sB) -> litExpandCount (dyn sA) = litExpandCount (dyn sB) ->
  (snd rA = snd rB /\ snd rA <> EEndInput /\ REL 0 (rd (fst rA)) (rd (fst rB))) \/
  FINE (rd (fst rB)) (snd rB).
Proof.
  intros cl sA sB hdist hlit rA rB HA HB. rewrite rld_body_eq in HA, HB. subst rA rB.
  apply rld_body_lock.
Qed.

End Lock.
