(* GzEngineTop3.v -- no panic / no stuck, and completeness, of the gzip / zlib reader model
   (statements: RModel/GzEngineSpec3.v, GzEngineSpec4.v), composed from
     GzEngineSafeEng      the engine's safety invariant across Reset (tables survive io.EOF)
     GzEngineSafeGz / GzEngineSafeZl        the container loops on top of it
     GzEngineCompleteEng  the engine's completeness invariant on a shared, partly consumed buffer
     GzEngineCompleteGz / GzEngineCompleteZl   the container loops
   and the earlier theorems (GzEngineTop.v). *)
From Coq Require Import List NArith ZArith Bool.
From Verif Require Import Bits Huffman Inflate InflateSpec.
From Verif Require Import Containers ContainersSpec.
From Verif Require Import Base Engine EngineReset EngineRefineSpecBuf GzEngine GzEngineSpec
     GzEngineSpec3 GzEngineSpec4.
From Verif Require Import GzEngineShift GzEngineStrm GzEngineBuf GzEngineTop
     GzEngineSafeEng GzEngineSafeGz GzEngineSafeZl
     GzEngineCompleteEng GzEngineCompleteGz GzEngineCompleteZl.
Import ListNotations.
Open Scope N_scope.

(* (1) no panic, no stuck *)
Theorem gz_safe : gz_safe_statement.
Proof. exact (gz_safe_from dRead_rs newReader_on_rs dReset_rs sbuf_of_strm). Qed.

Theorem zl_safe : zl_safe_statement.
Proof. exact (zl_safe_from dRead_rs newReader_on_rs sbuf_of_strm). Qed.

(* (2), (3) completeness *)
Theorem gz_dRead_ok3 : gz_dRead_ok3_statement.
Proof. exact (gz_dRead_ok3_from dRead_shift). Qed.

Theorem gz_complete : gz_complete_statement.
Proof.
  exact (gz_complete_from ioReadFull_spec crc32_update_app u32_add gzReadHeader_spec
           newReader_on_inv3 dReset_inv3 gz_dRead_ok3 dRead_strm gz_sticky).
Qed.

Theorem zl_complete : zl_complete_statement.
Proof.
  exact (zl_complete_from ioReadFull_spec adler_update_app adler_sum_ok newReader_on_inv3
           gz_dRead_ok3 dRead_strm zl_sticky).
Qed.

(* completeness + safety + soundness under the bounds of the safety theorem: an accepted,
   standard source is read to io.EOF and exactly its payload is handed out *)
Theorem gz_complete_bounded : gz_complete_bounded_statement.
Proof.
  intros data cs bufsize t multi reads Hb Hcs Hne Hbs Hlen R Herr Hctor Hstd Hterm Hpos Hn.
  pose proof (gz_safe data cs bufsize t multi reads Hb Hcs Hne Hbs Hlen) as HS.
  pose proof (gz_complete data cs bufsize t multi reads Hb Hcs Hne Herr Hctor Hstd Hterm Hpos Hn) as HC.
  pose proof (gz_sound data cs bufsize t multi reads Hb Hcs Hne) as HD.
  destruct (gzrun bufsize cs t multi reads) as [e0 l].
  destruct HS as (_ & HS). destruct (HC HS) as (C1 & C2).
  destruct HD as (_ & _ & _ & D4 & _). destruct (D4 C2) as (_ & D5).
  split; [exact C1|]. split; [exact C2|exact D5].
Qed.

Theorem zl_complete_bounded : zl_complete_bounded_statement.
Proof.
  intros data cs bufsize t reads Hb Hcs Hne Hbs Hlen Hfd R Herr Hstd Hpos Hn.
  pose proof (zl_safe data cs bufsize t reads Hb Hcs Hne Hbs Hlen Hfd) as HS.
  pose proof (zl_complete data cs bufsize t reads Hb Hcs Hne Hfd Herr Hstd Hpos Hn) as HC.
  pose proof (zl_sound data cs bufsize t reads Hb Hcs Hne Hfd) as HD.
  destruct (zlrun bufsize cs t [] reads) as [e0 l].
  destruct HS as (_ & HS). destruct (HC HS) as (C1 & C2).
  destruct HD as (_ & _ & D4 & _). destruct (D4 C2) as (_ & D5).
  split; [exact C1|]. split; [exact C2|exact D5].
Qed.

Print Assumptions gz_safe.
Print Assumptions zl_safe.
Print Assumptions gz_complete.
Print Assumptions zl_complete.
Print Assumptions gz_complete_bounded.
Print Assumptions zl_complete_bounded.
