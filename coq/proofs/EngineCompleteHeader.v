(* EngineCompleteHeader.v -- completeness side for the two header readers: codeLenCodes and
   readLitDistLens return EInvalidBlock only when the reference, on the engine's bits followed
   by ANY continuation e, fails too or ends up without an end-of-block code.

   readLitDistLens_reject_statement is FALSE as written: it does not bound `length clens`, and
   the reference's read_lens treats every code-length symbol other than <16, 16, 17 as 18,
   while rl_loop rejects a symbol >= 19.  Counterexample (checked by vm_compute, /tmp/ech/cex.v):
     clens = [2;2;0;0;0;0;0;0;0;0;0;0;0;0;0;0;0;0;0;1]   (length 20; canon = [(0,2,2);(1,2,3);(19,1,0)])
     clcShort: entry v = 2067 (sym 19, 1 bit) for even v, 4096 (sym 0, 2 bits) for v mod 4 = 1,
               4097 (sym 1, 2 bits) for v mod 4 = 3   (v < 1024);  clcLong empty
     hlit = hdist = 0, reader = mkBR 0 0 [254;214;15] 3
   readLitDistLens = EInvalidBlock, but read_lens 258 ct 258 [] on the same bits (e = []) is
   HOk all with nth 256 (firstn 257 all) = 1.
   The counterexample is replayed at the end of this file (cex_engine, cex_reference,
   cex_table_check, cex_side_conditions).
   Proved here: readLitDistLens_reject_partial = the statement with the extra hypothesis
   (length clens <= 19)%nat (true in setupDynamicHeader: clens = scatter _ _ (repeat 0 19)). *)
From Coq Require Import List NArith ZArith Bool Lia ZifyBool ZifyNat ZifyN.
From Verif Require Import Bits Huffman HuffmanSpec Inflate.
From Verif Require Import Base EngineTables Engine EngineRefineSpec EngineRefineBits EngineRefineBridge.
From Verif Require Import EngineCompleteSpecA EngineCompleteSpecB.
From Verif Require HuffmanProofs.
From Verif Require Import EngineRefineHeaderBase EngineRefineHeaderDec EngineRefineHeaderArr
     EngineRefineHeaderClc EngineRefineHeaderRL EngineRefineHeaderNeed.
Import ListNotations.
Open Scope N_scope.

(* ---------------------------------------------------------------- codeLenCodes *)
Lemma read_clens_det : forall n s a b, read_clens n s = a -> read_clens n s = b -> a = b.
Proof. intros; congruence. Qed.

Theorem codeLenCodes_reject : codeLenCodes_reject_statement.
Proof.
  intros Hgen s hclen e p Hwf H0 Hl12 Hh Herr cl s1 Hrd.
  revert Herr. unfold codeLenCodes, forN.
  change (N.to_nat (4 - 0)) with 4%nat.
  replace (N.to_nat (hclen + 4 - 4)) with (N.to_nat hclen) by lia.
  pose proof (clc_iter 4 0 (rd s) aempty aempty [] Hwf Hl12 ltac:(lia) clc_inv_init) as P1.
  change (N.of_nat 0) with 0 in P1.
  destruct (iterN 4 0 clc_read3 (rd s, aempty, aempty)) as [[b1 hf1] ct1].
  destruct P1 as (A1 & A2 & vs1 & A3 & A4 & A5). cbn [app Nat.add] in A4.
  destruct (load_lt57_bits b1 A1) as (b2 & L1 & L2 & L3 & L4 & L5).
  rewrite L1.
  assert (L4' : br_loaded (3 * Z.of_nat (N.to_nat hclen)) b2).
  { apply (br_loaded_mono 57 _ b2); [lia|exact L4]. }
  pose proof (clc_iter (N.to_nat hclen) 4 b2 hf1 ct1 vs1 L2 L4' ltac:(lia) A4) as P2.
  change (N.of_nat 4) with 4 in P2.
  destruct (iterN (N.to_nat hclen) 4 clc_read3 (b2, hf1, ct1)) as [[b3 hf3] ct3].
  destruct P2 as (B1 & B2 & vs2 & B3 & B4 & B5).
  destruct (Z.ltb_spec (r_len b3) 0) as [Hneg|Hpos]; [cbn [snd]; discriminate|].
  destruct (clc_inv_lens_in _ _ _ _ B4) as [Hli HF7].
  pose proof (Hgen _ hf3 ct3 (clcShort (dyn (set_rd s b3))) (clcLong (dyn (set_rd s b3))) Hli HF7) as G.
  destruct (setCodes hf3 0 19 ct3) as [hf4 bad].
  destruct G as [G1 G2].
  destruct bad.
  - intros _.
    assert (Hb1 : (0 <= r_len b1)%Z).
    { destruct (Z.ltb_spec (r_len b1) 0) as [Hn|Hn]; [|exact Hn].
      pose proof (load_lt57_neg b1 b2 Hn L1) as E. subst b2. lia. }
    assert (E : read_clens (N.to_nat hclen + 4) (mkbs (br_bits (rd s) ++ e) p)
                = HOk (vs1 ++ vs2)
                      (mkbs (br_bits b3 ++ e) (p + 3 * N.of_nat 4 + 3 * N.of_nat (N.to_nat hclen)))).
    { replace (N.to_nat hclen + 4)%nat with (4 + N.to_nat hclen)%nat by lia.
      apply (read_clens_app 4 (N.to_nat hclen) _ vs1 _ vs2 _ (A5 Hb1 e p)).
      rewrite <- L3. apply (B5 Hpos). }
    rewrite E in Hrd. injection Hrd as <- _. symmetry. exact G1.
  - specialize (G2 eq_refl).
    destruct (gen_small true _ _ hf4 19 ct3 19) as [[[sh lg] cd] err].
    destruct G2 as [G2 G3]. cbn [snd]. rewrite G2. discriminate.
Qed.

Print Assumptions codeLenCodes_reject.

(* ================================================================ readLitDistLens *)

(* ---------------------------------------------------------------- canonical codes *)
Lemma canon_len_le : forall m cl d len c, (m <= 16)%nat -> Forall (fun x => (x <= m)%nat) cl ->
  In (d, len, c) (canon cl) -> (len <= m)%nat.
Proof.
  intros m cl d len c Hm HF Hin.
  pose proof (HuffmanProofs.canon_good m cl Hm HF) as G.
  rewrite Forall_forall in G. specialize (G _ Hin). unfold HuffmanProofs.good in G. lia.
Qed.

Lemma assign_sym_lt : forall l sym nc s x c, In (s, x, c) (assign l sym nc) -> (s < sym + length l)%nat.
Proof.
  induction l as [|x0 r IH]; intros sym nc s x c H; [destruct H|].
  cbn [assign] in H. cbn [length]. destruct (Nat.eqb x0 0).
  - apply IH in H. lia.
  - destruct H as [E|H]; [injection E as <- <- <-; lia|]. apply IH in H. lia.
Qed.

Lemma canon_sym_lt : forall cl d len c, In (d, len, c) (canon cl) -> (d < length cl)%nat.
Proof. intros cl d len c H. unfold canon in H. apply assign_sym_lt in H. lia. Qed.

(* ---------------------------------------------------------------- phantom extra bits are the
   minimal value *)
Lemma N_of_bits_firstn_false : forall j k, N_of_bits (firstn j (repeat false k)) = 0.
Proof.
  induction j as [|j IH]; intros k; [reflexivity|].
  destruct k as [|k]; [reflexivity|]. cbn [repeat firstn N_of_bits]. rewrite IH. reflexivity.
Qed.

Lemma phantom_min : forall b k b1 v b2, br_wf b -> (0 <= r_len b)%Z -> k <= 57 ->
  load_raw b = Some b1 -> next_bits b1 k = (v, b2) -> (r_len b2 < 0)%Z ->
  forall e p v' s2, take (N.to_nat k) (mkbs (br_bits b ++ e) p) = Some (v', s2) -> v <= v'.
Proof.
  intros b k b1 v b2 Hwf H0 Hk Hld Hnb Hneg e p v' s2 Htk.
  destruct (load_raw_bits b Hwf) as (b1' & L1 & L2 & L3 & L4 & L5 & L6).
  rewrite Hld in L1. injection L1 as <-.
  unfold next_bits in Hnb. injection Hnb as <- <-. rewrite br_drop_len in Hneg.
  destruct L4 as [Hin|Hc]; [|lia].
  rewrite (peek_bits b1 k L2 (or_introl Hin)).
  rewrite <- L3 in Htk.
  pose proof (br_bits_length b1) as LB. rewrite Hin in LB. cbn [length] in LB.
  set (l := br_bits b1) in *.
  pose proof (take_some_length _ _ _ _ _ Htk) as Hlen.
  pose proof (take_firstn (N.to_nat k) (l ++ e) [] p Hlen) as T.
  rewrite app_nil_r in T. rewrite T in Htk.
  assert (Ev : v' = N_of_bits (firstn (N.to_nat k) (l ++ e))) by congruence. rewrite Ev. clear Ev Htk T.
  unfold padded. rewrite !firstn_app.
  rewrite (firstn_all2 l) by lia.
  rewrite !N_of_bits_app, N_of_bits_firstn_false. lia.
Qed.

(* ---------------------------------------------------------------- the reference: inversion *)
Lemma read_lens_rep_inv : forall rf ct total acc s d s1 ebits base what all s3,
  read_lens (S rf) ct total acc s = HOk all s3 -> (total <> 0)%nat ->
  decode_sym ct s = DOk d s1 -> (16 <= d)%nat ->
  (if (d =? 16)%nat then (2%nat, 3%nat, hd_error acc)
   else if (d =? 17)%nat then (3%nat, 3%nat, Some 0%nat)
   else (7%nat, 11%nat, Some 0%nat)) = (ebits, base, what) ->
  exists ev s2 v, take ebits s1 = Some (ev, s2) /\ what = Some v /\
    (base + N.to_nat ev <= total)%nat /\
    read_lens rf ct (total - (base + N.to_nat ev)) (repeat v (base + N.to_nat ev) ++ acc) s2
    = HOk all s3.
Proof.
  intros rf ct total acc s d s1 ebits base what all s3 H Ht Hd Hge Hsel.
  destruct total as [|t]; [contradiction|].
  cbn [read_lens] in H. rewrite Hd in H.
  destruct (Nat.ltb_spec d 16) as [Hc|_]; [lia|].
  rewrite Hsel in H.
  destruct (take ebits s1) as [[ev s2]|]; [|discriminate].
  destruct what as [v|]; [|discriminate].
  destruct (Nat.ltb_spec (S t) (base + N.to_nat ev)) as [Hc|Hc]; [discriminate|].
  exists ev, s2, v. repeat split; try reflexivity; [lia|exact H].
Qed.

(* the result extends what was read so far *)
Lemma read_lens_prefix : forall rf ct total acc s all s1,
  read_lens rf ct total acc s = HOk all s1 -> exists tl, all = rev acc ++ tl.
Proof.
  induction rf as [|rf IH]; intros ct total acc s all s1 H.
  - destruct total as [|t]; [|discriminate H].
    cbn [read_lens] in H. injection H as <- _. exists []. unfold frev. rewrite <- rev_alt, app_nil_r. reflexivity.
  - destruct total as [|t].
    + cbn [read_lens] in H. injection H as <- _. exists [].
      unfold frev. rewrite <- rev_alt, app_nil_r. reflexivity.
    + destruct (decode_sym ct s) as [d s1'| |] eqn:Hd;
        [|cbn [read_lens] in H; rewrite Hd in H; discriminate
         |cbn [read_lens] in H; rewrite Hd in H; discriminate].
      destruct (Nat.ltb_spec d 16) as [Hlt|Hge].
      * rewrite (read_lens_lt16 rf ct (S t) acc s d s1' Hd Hlt ltac:(lia)) in H.
        apply IH in H. destruct H as [tl ->]. cbn [rev]. exists (d :: tl).
        rewrite <- app_assoc. reflexivity.
      * destruct (if (d =? 16)%nat then (2%nat, 3%nat, hd_error acc)
                  else if (d =? 17)%nat then (3%nat, 3%nat, Some 0%nat)
                  else (7%nat, 11%nat, Some 0%nat)) as [[ebits base] what] eqn:Sel.
        destruct (read_lens_rep_inv rf ct (S t) acc s d s1' ebits base what all s1 H ltac:(lia) Hd Hge Sel)
          as (ev & s2 & v & _ & _ & _ & R).
        apply IH in R. destruct R as [tl ->].
        rewrite rev_app_distr, <- app_assoc. eexists. reflexivity.
Qed.

(* ---------------------------------------------------------------- one code-length symbol, with
   the unassigned-pattern case: the reference cannot decode a symbol there, whatever follows *)
Lemma firstn_app_exact : forall (A : Type) (l r : list A), firstn (length l) (l ++ r) = l.
Proof.
  intros A l r. rewrite firstn_app, Nat.sub_diag, firstn_all. cbn [firstn]. apply app_nil_r.
Qed.

Lemma clc_step2 : canon_pad_statement -> forall cl ct clcS clcL b0,
  Forall (fun x => (x <= 7)%nat) cl -> oversubscribed 7 cl = false ->
  mktrie 7 cl = Some ct -> clc_tab_ok cl clcS clcL -> br_wf b0 ->
  exists b1 sym b2,
    load_le15 b0 = Some b1 /\ clc_decode clcS clcL b1 = Some (sym, b2) /\ br_wf b2 /\
    ((r_len b0 < 0)%Z -> (r_len b2 < 0)%Z) /\
    ((0 <= r_len b2)%Z ->
       (exists d len, sym = N.of_nat d /\ (d < length cl)%nat /\
          forall e p, decode_sym ct (mkbs (br_bits b0 ++ e) p)
                      = DOk d (mkbs (br_bits b2 ++ e) (p + N.of_nat len))) \/
       (sym = 511 /\ forall e p x s', decode_sym ct (mkbs (br_bits b0 ++ e) p) <> DOk x s')).
Proof.
  intros Hpad cl ct clcS clcL b0 HF Hov Hmk Hok Hwf.
  destruct (load_le15_bits b0 Hwf) as (b1 & L1 & L2 & L3 & L4 & L5).
  assert (Hneg : (r_len b0 < 0)%Z -> b1 = b0).
  { intros Hn. apply (load_le15_neg b0 b1 Hn L1). }
  destruct (canon_match_dec (canon cl) (r_bits b1)) as [(d & len & c & Hin & Hm)|Hnone].
  - pose proof (clc_tab_len16 _ _ _ _ _ _ Hok Hin) as Hlen.
    pose proof (proj1 (Hok b1) d len c Hin Hm) as D.
    exists b1, (N.of_nat d), (br_drop b1 (N.of_nat len)).
    split; [exact L1|]. split; [exact D|].
    split; [apply br_drop_wf; [exact L2|apply (br_loaded_mono 16 _ b1); [lia|exact L4]]|].
    split.
    + intros Hn. rewrite (Hneg Hn). rewrite br_drop_len. lia.
    + intros H0. left. exists d, len. split; [reflexivity|].
      split; [apply (canon_sym_lt cl d len c Hin)|]. intros e p.
      rewrite br_drop_len in H0. rewrite <- L3.
      apply (cw_match_decode 7 cl ct d len c b1 e p Hmk Hin L2 ltac:(lia) Hm).
  - pose proof (proj2 (Hok b1) Hnone) as D.
    exists b1, 511, b1. split; [exact L1|]. split; [exact D|]. split; [exact L2|].
    split.
    + intros Hn. rewrite (Hneg Hn). exact Hn.
    + intros H0. right. split; [reflexivity|]. intros e p x s' Hds.
      rewrite <- L3 in Hds.
      destruct (decode_sym_canon 7 cl ct _ p x s' Hmk Hds) as (len & c & Hin & Hbits & _).
      pose proof (canon_len_le 7 cl x len c ltac:(lia) HF Hin) as Hlen.
      destruct (Nat.le_gt_cases len (length (br_bits b1))) as [Hle|Hgt].
      * apply (Hnone x len c Hin).
        apply (stream_cw_match b1 len c (bl s') e L2); [|exact Hbits|exact Hle].
        apply (br_loaded_mono 16 _ b1); [lia|exact L4].
      * pose proof (br_bits_length b1) as LB.
        destruct L4 as [Hin0|Hc]; [|lia].
        set (pb := br_bits b1) in *.
        assert (Hcb : code_bits len c = pb ++ firstn (len - length pb) e).
        { apply (f_equal (firstn len)) in Hbits.
          rewrite <- (code_bits_length len c) in Hbits at 2. rewrite firstn_app_exact in Hbits.
          rewrite <- Hbits. rewrite firstn_app. rewrite (firstn_all2 pb) by lia. reflexivity. }
        destruct (Hpad 7%nat cl pb _ x len c ltac:(lia) HF Hov Hin Hcb)
          as (s2 & len2 & c2 & z2 & Hin2 & Hp2 & Hl2).
        pose proof (canon_len_le 7 cl s2 len2 c2 ltac:(lia) HF Hin2) as Hlen2.
        apply (Hnone s2 len2 c2 Hin2).
        unfold cw_match, rcode.
        assert (Hld : br_loaded (Z.of_N (N.of_nat len2)) b1) by (left; exact Hin0).
        rewrite (peek_bits b1 (N.of_nat len2) L2 Hld). rewrite Nat2N.id. f_equal.
        fold pb. unfold padded.
        assert (E7 : repeat false 7 = repeat false len2 ++ repeat false (7 - len2)).
        { rewrite <- repeat_app. f_equal. lia. }
        rewrite E7, app_assoc in Hp2.
        apply (f_equal (firstn len2)) in Hp2.
        rewrite firstn_app_le in Hp2 by (rewrite app_length, repeat_length; lia).
        rewrite Hp2. rewrite <- (code_bits_length len2 c2) at 1. apply firstn_app_exact.
Qed.

(* ---------------------------------------------------------------- once the reader is negative
   the loop stops within one iteration; when it says EInvalidBlock ... *)
Lemma phantom_result : forall cl ct clcS clcL split endv,
  mktrie 7 cl = Some ct -> clc_tab_ok cl clcS clcL -> (256 < endv)%Z ->
  forall fuel st, br_wf (rl_b st) -> (r_len (rl_b st) < 0)%Z ->
  snd (rl_loop fuel clcS clcL split endv st) = EInvalidBlock ->
  (endv < rl_curr st)%Z \/ ((256 < rl_curr st)%Z /\ hc_len (aget (rl_h st) 256) = 0).
Proof.
  intros cl ct clcS clcL split endv Hmk Hok He fuel st Hwf Hneg.
  destruct fuel as [|f]; cbn [rl_loop]; [cbn [snd]; discriminate|].
  destruct (Z.ltb_spec (rl_curr st) endv) as [Hc|Hc].
  - destruct (clc_step cl ct clcS clcL (rl_b st) Hmk Hok Hwf)
      as (b1 & sym & b2 & L1 & D & W2 & Nneg & _).
    rewrite L1, D. specialize (Nneg Hneg).
    destruct (Z.ltb_spec (r_len b2) 0) as [_|Hc2]; [|lia].
    change (rl_curr (rl_set_b st b2)) with (rl_curr st).
    change (rl_h (rl_set_b st b2)) with (rl_h st).
    destruct (Z.ltb_spec 256 (rl_curr st)) as [H1|H1]; cbn [andb]; [|cbn [snd]; discriminate].
    destruct (N.eqb_spec (hc_len (aget (rl_h st) 256)) 0) as [H2|H2]; cbn [snd]; [|discriminate].
    intros _. right. split; assumption.
  - destruct (Z.ltb_spec endv (rl_curr st)) as [H1|H1]; cbn [orb].
    + intros _. left. exact H1.
    + destruct (N.eqb_spec (hc_len (aget (rl_h st) 256)) 0) as [H2|H2]; cbn [snd]; [|discriminate].
      intros _. right. split; [lia|exact H2].
Qed.

(* position 256 holds a zero *)
Lemma zero256 : forall nlit ndist st L, dims_ok nlit ndist -> rl_inv nlit ndist st L ->
  (256 < rl_curr st)%Z -> hc_len (aget (rl_h st) 256) = 0 ->
  (256 < length L)%nat /\ nth 256 L 0%nat = 0%nat.
Proof.
  intros nlit ndist st L [Hnl Hnd] (I1 & (P1 & P2) & (A1 & A2 & _)) Hc Hz.
  split; [destruct P2 as [(Q1 & Q2 & Q3)|(Q1 & Q2 & Q3)]; lia|].
  rewrite (A2 256 ltac:(lia)) in Hz. change (N.to_nat 256) with 256%nat in Hz.
  rewrite nth_firstn_lt in Hz by lia.
  rewrite hc_len_set0 in Hz by (pose proof (nth_le15 L 256 A1); lia). lia.
Qed.

Lemma concl_prefix : forall nlit (L tl : list nat), (257 <= nlit)%nat ->
  (256 < length L)%nat -> nth 256 L 0%nat = 0%nat ->
  nth 256 (firstn nlit (L ++ tl)) 0%nat = 0%nat.
Proof.
  intros nlit L tl Hn Hl Hz. rewrite nth_firstn_lt by lia. rewrite app_nth1 by lia. exact Hz.
Qed.

(* the engine's extra-bits value is at most the reference's (equal when the bits are real) *)
Lemma xbits_le : forall b k b1 v b2, br_wf b -> (0 <= r_len b)%Z -> k <= 57 ->
  load_raw b = Some b1 -> next_bits b1 k = (v, b2) ->
  forall e p v' s2, take (N.to_nat k) (mkbs (br_bits b ++ e) p) = Some (v', s2) -> v <= v'.
Proof.
  intros b k b1 v b2 Hwf H0 Hk Hld Hnb e p v' s2 Htk.
  destruct (Z.ltb_spec (r_len b2) 0) as [Hn|Hp].
  - apply (phantom_min b k b1 v b2 Hwf H0 Hk Hld Hnb Hn e p v' s2 Htk).
  - destruct (xbits_step b k Hwf H0 Hk) as (b1' & v1 & b2' & X1 & X2 & X3 & X4).
    rewrite Hld in X1. injection X1 as <-. rewrite Hnb in X2. injection X2 as <- <-.
    rewrite (X4 Hp e p) in Htk. injection Htk as <- _. lia.
Qed.

(* ---------------------------------------------------------------- the loop *)
Definition reject_concl (nlit ndist : nat) (ct : trie) (st : rlst) (L : list nat)
           (res : rlst * ierr) : Prop :=
  snd res = EInvalidBlock ->
  forall rf e p all s1, (nlit + ndist - length L <= rf)%nat ->
    read_lens rf ct (nlit + ndist - length L) (rev L) (mkbs (br_bits (rl_b st) ++ e) p)
    = HOk all s1 ->
    nth 256 (firstn nlit all) 0%nat = 0%nat.

Lemma rej_err : forall nlit ndist ct st L st' err,
  err <> EInvalidBlock -> reject_concl nlit ndist ct st L (st', err).
Proof. intros nlit ndist ct st L st' err H. unfold reject_concl. cbn [snd]. intros E. contradiction. Qed.

Lemma rej_direct : forall nlit ndist ct st L res,
  (length L < nlit + ndist)%nat ->
  (snd res = EInvalidBlock -> forall rf e p all s1,
     read_lens (S rf) ct (nlit + ndist - length L) (rev L) (mkbs (br_bits (rl_b st) ++ e) p)
     = HOk all s1 -> nth 256 (firstn nlit all) 0%nat = 0%nat) ->
  reject_concl nlit ndist ct st L res.
Proof.
  intros nlit ndist ct st L res Hroom H. unfold reject_concl.
  intros He rf e p all s1 Hrf. destruct rf as [|rf]; [lia|]. apply (H He).
Qed.

Lemma rej_chain : forall nlit ndist ct st L st1 L1 res,
  reject_concl nlit ndist ct st1 L1 res ->
  (length L < length L1)%nat ->
  (forall rf e p, exists pp,
     read_lens (S rf) ct (nlit + ndist - length L) (rev L) (mkbs (br_bits (rl_b st) ++ e) p)
     = read_lens rf ct (nlit + ndist - length L1) (rev L1) (mkbs (br_bits (rl_b st1) ++ e) pp)) ->
  (length L < nlit + ndist)%nat ->
  reject_concl nlit ndist ct st L res.
Proof.
  intros nlit ndist ct st L st1 L1 res R Hlen Hstep Hroom. unfold reject_concl in *.
  intros He rf e p all s1 Hrf. destruct rf as [|rf]; [lia|].
  destruct (Hstep rf e p) as [pp Hpp]. rewrite Hpp. apply (R He). lia.
Qed.

(* the engine ran ahead with the minimal run (phantom extra bits) and then said EInvalidBlock *)
Lemma phantom_run : forall nlit ndist cl ct clcS clcL,
  dims_ok nlit ndist -> mktrie 7 cl = Some ct -> clc_tab_ok cl clcS clcL ->
  forall f stx L v n n' rf tot s2 all s3,
    rl_inv nlit ndist stx (L ++ repeat v n) -> br_wf (rl_b stx) -> (r_len (rl_b stx) < 0)%Z ->
    snd (rl_loop f clcS clcL (Z.of_nat nlit) (286 + Z.of_nat ndist)%Z stx) = EInvalidBlock ->
    (n <= n')%nat ->
    read_lens rf ct tot (repeat v n' ++ rev L) s2 = HOk all s3 ->
    nth 256 (firstn nlit all) 0%nat = 0%nat.
Proof.
  intros nlit ndist cl ct clcS clcL Hd Hmk Hok f stx L v n n' rf tot s2 all s3 Hinv Hwf Hneg Herr Hn Hr.
  pose proof Hd as [Hnl Hnd].
  destruct (rl_inv_curr_lt _ _ _ _ Hd Hinv) as [_ Hle].
  destruct (phantom_result cl ct clcS clcL (Z.of_nat nlit) (286 + Z.of_nat ndist)%Z Hmk Hok ltac:(lia) f stx Hwf Hneg Herr) as [Hc|[Hc Hz]]; [lia|].
  destruct (zero256 _ _ _ _ Hd Hinv Hc Hz) as [Z1 Z2].
  destruct (read_lens_prefix _ _ _ _ _ _ _ Hr) as [tl ->].
  rewrite rev_app_distr, rev_involutive, rev_repeat.
  replace n' with (n + (n' - n))%nat by lia. rewrite repeat_app.
  replace ((L ++ repeat v n ++ repeat v (n' - n)) ++ tl)
    with ((L ++ repeat v n) ++ (repeat v (n' - n) ++ tl))
    by (rewrite <- !app_assoc; reflexivity).
  apply concl_prefix; [lia|exact Z1|exact Z2].
Qed.

Lemma rl_reject : canon_pad_statement -> forall nlit ndist cl ct clcS clcL,
  dims_ok nlit ndist -> Forall (fun x => (x <= 7)%nat) cl -> oversubscribed 7 cl = false ->
  (length cl <= 19)%nat -> mktrie 7 cl = Some ct -> clc_tab_ok cl clcS clcL ->
  forall fuel st L, br_wf (rl_b st) -> (0 <= r_len (rl_b st))%Z -> rl_inv nlit ndist st L ->
  reject_concl nlit ndist ct st L
    (rl_loop fuel clcS clcL (Z.of_nat nlit) (286 + Z.of_nat ndist)%Z st).
Proof.
  intros Hpad nlit ndist cl ct clcS clcL Hd HF Hov Hl19 Hmk Hok.
  induction fuel as [|f IH]; intros st L Hwf Hstart Hinv.
  { cbn [rl_loop]. apply rej_err; discriminate. }
  cbn [rl_loop].
  destruct (rl_inv_curr_lt _ _ _ _ Hd Hinv) as [Hlt Hle].
  pose proof Hd as [Hnl Hnd].
  destruct (Z.ltb_spec (rl_curr st) (286 + Z.of_nat ndist)) as [Hc|Hc].
  2: { (* all lengths read *)
    assert (Hfull : length L = (nlit + ndist)%nat).
    { destruct Hinv as (I1 & _). destruct (Nat.lt_ge_cases (length L) (nlit + ndist)) as [H|H]; [|lia].
      apply Hlt in H. lia. }
    destruct (Z.ltb_spec (286 + Z.of_nat ndist) (rl_curr st)) as [Hc'|_]; [lia|]. cbn [orb].
    destruct (N.eqb_spec (hc_len (aget (rl_h st) 256)) 0) as [E|E]; [|apply rej_err; discriminate].
    unfold reject_concl. intros _ rf e p all s1 _ H.
    replace (nlit + ndist - length L)%nat with 0%nat in H by lia. rewrite read_lens_done in H.
    injection H as <- _. unfold frev. rewrite <- rev_alt, rev_involutive.
    destruct (zero256 _ _ _ _ Hd Hinv ltac:(lia) E) as [Z1 Z2].
    rewrite nth_firstn_lt by lia. exact Z2. }
  assert (Hroom : (length L < nlit + ndist)%nat) by (apply Hlt; exact Hc).
  destruct (clc_step2 Hpad cl ct clcS clcL (rl_b st) HF Hov Hmk Hok Hwf)
    as (b1 & sym & b2 & L1 & D & W2 & Nneg & Hdec).
  rewrite L1, D.
  set (st0 := rl_set_b st b2).
  assert (Hinv0 : rl_inv nlit ndist st0 L) by exact Hinv.
  destruct (Z.ltb_spec (r_len b2) 0) as [Hneg|Hpos].
  { (* the symbol crosses the end of the input *)
    change (rl_curr st0) with (rl_curr st). change (rl_h st0) with (rl_h st).
    destruct (Z.ltb_spec 256 (rl_curr st)) as [H1|H1]; cbn [andb]; [|apply rej_err; discriminate].
    destruct (N.eqb_spec (hc_len (aget (rl_h st) 256)) 0) as [H2|H2]; [|apply rej_err; discriminate].
    apply rej_direct; [exact Hroom|]. intros _ rf e p all s1 H.
    destruct (read_lens_prefix _ _ _ _ _ _ _ H) as [tl ->]. rewrite rev_involutive.
    destruct (zero256 _ _ _ _ Hd Hinv H1 H2) as [Z1 Z2]. apply concl_prefix; [lia|exact Z1|exact Z2]. }
  destruct (Hdec Hpos) as [(d & len & Esym & Hd19 & Hds)|(E511 & Hnodec)].
  2: { (* unassigned pattern *)
    subst sym. cbn [N.ltb N.eqb N.compare Pos.compare Pos.compare_cont Pos.eqb orb].
    apply rej_direct; [exact Hroom|]. intros _ rf e p all s1 H. exfalso.
    exact (read_lens_nodec rf ct (nlit + ndist - length L)%nat (rev L) _ (Hnodec e p) ltac:(lia) all s1 H). }
  destruct (N.ltb_spec sym 16) as [T1|T1].
  { (* a length *)
    subst sym.
    destruct (rl_put_ok nlit ndist st0 L d Hd Hinv0 Hroom ltac:(lia)) as (st1 & E1 & I1 & B1).
    rewrite E1.
    apply (rej_chain nlit ndist ct st L st1 (L ++ [d])).
    - apply IH; [rewrite B1; exact W2|rewrite B1; exact Hpos|exact I1].
    - rewrite app_length. cbn [length]. lia.
    - intros rf e p. exists (p + N.of_nat len).
      rewrite (read_lens_lt16 rf ct (nlit + ndist - length L)%nat (rev L) _ d _ (Hds e p) ltac:(lia) ltac:(lia)).
      rewrite B1. change (rl_b st0) with b2. rewrite rev_unit, app_length. cbn [length].
      replace (nlit + ndist - length L - 1)%nat with (nlit + ndist - (length L + 1))%nat by lia.
      reflexivity.
    - exact Hroom. }
  destruct (N.eqb_spec sym 16) as [T2|T2].
  { (* repeat the previous length *)
    assert (Ed : d = 16%nat) by lia. subst d. clear Esym.
    destruct (xbits_step b2 2 W2 Hpos ltac:(lia)) as (b3 & ret & b4 & X1 & X2 & X3 & X4).
    rewrite X1, X2.
    pose proof (xbits_le b2 2 b3 ret b4 W2 Hpos ltac:(lia) X1 X2) as Hmin.
    set (st2 := rl_set_b st0 b4).
    destruct (snoc_case L) as [->|(L0 & v & ->)].
    { rewrite (rl_inv_prev_nil nlit ndist st2 Hinv). rewrite orb_true_r.
      apply rej_direct; [exact Hroom|]. intros _ rf e p all s1 H.
      destruct (read_lens_rep_inv rf ct _ _ _ 16%nat _ 2%nat 3%nat (hd_error (rev [])) all s1 H
                  ltac:(cbn [length]; lia) (Hds e p) ltac:(lia) eq_refl)
        as (ev & s2 & v & _ & Hw & _).
      cbn in Hw. discriminate. }
    destruct (rl_inv_prev nlit ndist st2 _ _ Hd Hinv) as [Hrep Hprev].
    destruct (Z.eqb_spec (rl_prev st2) (-1)) as [Hc'|_]; [contradiction|]. rewrite orb_false_r.
    rewrite Hrep.
    set (L := L0 ++ [v]) in *.
    assert (Hv : (v <= 15)%nat).
    { destruct Hinv as (_ & _ & (A1 & _)). rewrite Forall_forall in A1. apply A1.
      unfold L. apply in_or_app. right. left. reflexivity. }
    assert (Hhd : hd_error (rev L) = Some v) by (unfold L; rewrite rev_unit; reflexivity).
    assert (Hinv2 : rl_inv nlit ndist st2 L) by exact Hinv.
    replace (Z.to_nat (Z.of_N (3 + ret))) with (3 + N.to_nat ret)%nat by lia.
    destruct (Nat.le_gt_cases (length L + (3 + N.to_nat ret)) (nlit + ndist)) as [Hfit|Hover].
    2: { match goal with |- reject_concl _ _ _ _ _ (if ?c then _ else _) =>
           assert (Ec : c = true); [|rewrite Ec] end.
         { destruct Hinv2 as (_ & (P1 & P2) & _).
           destruct P2 as [(Q1 & Q2 & Q3)|(Q1 & Q2 & Q3)]; rewrite Q2;
             (match goal with |- context[(?a <=? ?b)%Z] => destruct (Z.leb_spec a b) end);
             (match goal with |- context[(Z.of_nat nlit <? ?b)%Z] => destruct (Z.ltb_spec (Z.of_nat nlit) b) end);
             cbn [andb];
             (match goal with |- context[(?a <? ?b)%Z] => destruct (Z.ltb_spec a b) end);
             try reflexivity; lia. }
         apply rej_direct; [exact Hroom|]. intros _ rf e p all s1 H.
         destruct (read_lens_rep_inv rf ct (nlit + ndist - length L)%nat (rev L) _ 16%nat _ 2%nat 3%nat
                     (hd_error (rev L)) all s1 H ltac:(lia) (Hds e p) ltac:(lia) eq_refl)
           as (ev & s2 & v' & Htk & Hw & Hle' & _).
         pose proof (Hmin e (p + N.of_nat len) ev s2 Htk) as Hm. lia. }
    match goal with |- reject_concl _ _ _ _ _ (if ?c then _ else _) =>
      assert (Ec : c = false); [|rewrite Ec] end.
    { destruct Hinv2 as (_ & (P1 & P2) & _).
      destruct P2 as [(Q1 & Q2 & Q3)|(Q1 & Q2 & Q3)]; rewrite Q2;
        (match goal with |- context[(?a <=? ?b)%Z] => destruct (Z.leb_spec a b) end);
        (match goal with |- context[(Z.of_nat nlit <? ?b)%Z] => destruct (Z.ltb_spec (Z.of_nat nlit) b) end);
        cbn [andb];
        (match goal with |- context[(?a <? ?b)%Z] => destruct (Z.ltb_spec a b) end);
        try reflexivity; lia. }
    destruct (rl_rep_ok (3 + N.to_nat ret) nlit ndist st2 L v Hd Hinv2 Hfit Hv) as (st3 & E3 & I3 & B3).
    rewrite E3.
    destruct (Z.ltb_spec (r_len b4) 0) as [Hn4|Hp4].
    { (* the engine ran ahead with the minimal count *)
      apply rej_direct; [exact Hroom|]. intros Herr rf e p all s1 H.
      destruct (read_lens_rep_inv rf ct (nlit + ndist - length L)%nat (rev L) _ 16%nat _ 2%nat 3%nat
                  (hd_error (rev L)) all s1 H ltac:(lia) (Hds e p) ltac:(lia) eq_refl)
        as (ev & s2 & v' & Htk & Hw & Hle' & Hrest).
      rewrite Hhd in Hw. injection Hw as <-.
      pose proof (Hmin e (p + N.of_nat len) ev s2 Htk) as Hm.
      apply (phantom_run nlit ndist cl ct clcS clcL Hd Hmk Hok f st3 L v (3 + N.to_nat ret)
               (3 + N.to_nat ev) rf (nlit + ndist - length L - (3 + N.to_nat ev))%nat s2 all s1 I3);
        [rewrite B3; exact X3|rewrite B3; exact Hn4|exact Herr|lia|exact Hrest]. }
    apply (rej_chain nlit ndist ct st L st3 (L ++ repeat v (3 + N.to_nat ret))).
    - apply IH; [rewrite B3; exact X3|rewrite B3; exact Hp4|exact I3].
    - rewrite app_length, repeat_length. lia.
    - rewrite B3. change (rl_b st2) with b4. intros rf e p. exists (p + N.of_nat len + 2).
      rewrite (read_lens_rep rf ct (nlit + ndist - length L)%nat (rev L) _ 16%nat _ 2%nat 3%nat
                 (hd_error (rev L)) ret _ v
                 (Hds e p) ltac:(lia) eq_refl (X4 Hp4 e (p + N.of_nat len)) Hhd ltac:(lia) ltac:(lia)).
      rewrite rev_app_distr, rev_repeat, app_length, repeat_length.
      replace (nlit + ndist - length L - (3 + N.to_nat ret))%nat
        with (nlit + ndist - (length L + (3 + N.to_nat ret)))%nat by lia.
      reflexivity.
    - exact Hroom. }
  destruct (N.eqb_spec sym 17) as [T3|T3]; [|destruct (N.eqb_spec sym 18) as [T4|T4]]; cbn [orb].
  3: { exfalso. lia. }
  { (* 3..10 zeros *)
    assert (Ed : d = 17%nat) by lia. subst d. clear Esym.
    destruct (xbits_step b2 3 W2 Hpos ltac:(lia)) as (b3 & ret & b4 & X1 & X2 & X3 & X4).
    rewrite X1, X2.
    pose proof (xbits_le b2 3 b3 ret b4 W2 Hpos ltac:(lia) X1 X2) as Hmin.
    pose proof (rl_zeros_state nlit ndist st0 L (Z.of_N (3 + ret)) b4 Hd Hinv0 ltac:(lia)) as Zs.
    cbv zeta in Zs. revert Zs.
    match goal with |- context[if ?c then _ else _] => destruct c end; intros [Zs1 Zs2].
    all: replace (Z.to_nat (Z.of_N (3 + ret))) with (3 + N.to_nat ret)%nat in Zs1, Zs2 by lia.
    all: destruct (Nat.le_gt_cases (length L + (3 + N.to_nat ret)) (nlit + ndist)) as [Hfit|Hover];
      [|apply rej_direct; [exact Hroom|]; intros _ rf e p all s1 H;
        destruct (read_lens_rep_inv rf ct (nlit + ndist - length L)%nat (rev L) _ 17%nat _ 3%nat 3%nat
                    (Some 0%nat) all s1 H ltac:(lia) (Hds e p) ltac:(lia) eq_refl)
          as (ev & s2 & v' & Htk & Hw & Hle' & _);
        pose proof (Hmin e (p + N.of_nat len) ev s2 Htk) as Hm; lia].
    all: destruct (Z.ltb_spec (r_len b4) 0) as [Hn4|Hp4];
      [apply rej_direct; [exact Hroom|]; intros Herr rf e p all s1 H;
       destruct (read_lens_rep_inv rf ct (nlit + ndist - length L)%nat (rev L) _ 17%nat _ 3%nat 3%nat
                   (Some 0%nat) all s1 H ltac:(lia) (Hds e p) ltac:(lia) eq_refl)
         as (ev & s2 & v' & Htk & Hw & Hle' & Hrest);
       injection Hw as <-;
       pose proof (Hmin e (p + N.of_nat len) ev s2 Htk) as Hm;
       match type of Herr with snd (rl_loop _ _ _ _ _ ?stx) = _ =>
         apply (phantom_run nlit ndist cl ct clcS clcL Hd Hmk Hok f stx L 0%nat (3 + N.to_nat ret)
                  (3 + N.to_nat ev) rf (nlit + ndist - length L - (3 + N.to_nat ev))%nat s2 all s1 (Zs1 Hfit));
         [exact X3|exact Hn4|exact Herr|lia|exact Hrest] end
      |].
    all: match goal with |- reject_concl _ _ _ _ _ (rl_loop _ _ _ _ _ ?stx) =>
           apply (rej_chain nlit ndist ct st L stx (L ++ repeat 0%nat (3 + N.to_nat ret)));
           [apply IH; [exact X3|exact Hp4|exact (Zs1 Hfit)]
           |rewrite app_length, repeat_length; lia
           |
           |exact Hroom] end.
    all: cbn [rl_b]; intros rf e p; exists (p + N.of_nat len + 3);
      rewrite (read_lens_rep rf ct (nlit + ndist - length L)%nat (rev L) _ 17%nat _ 3%nat 3%nat
                 (Some 0%nat) ret _ 0%nat
                 (Hds e p) ltac:(lia) eq_refl (X4 Hp4 e (p + N.of_nat len)) eq_refl ltac:(lia) ltac:(lia));
      rewrite rev_app_distr, rev_repeat, app_length, repeat_length;
      replace (nlit + ndist - length L - (3 + N.to_nat ret))%nat
          with (nlit + ndist - (length L + (3 + N.to_nat ret)))%nat by lia;
      reflexivity. }
  { (* 11..138 zeros *)
    assert (Ed : d = 18%nat) by lia. subst d. clear Esym.
    destruct (xbits_step b2 7 W2 Hpos ltac:(lia)) as (b3 & ret & b4 & X1 & X2 & X3 & X4).
    rewrite X1, X2.
    pose proof (xbits_le b2 7 b3 ret b4 W2 Hpos ltac:(lia) X1 X2) as Hmin.
    pose proof (rl_zeros_state nlit ndist st0 L (Z.of_N (11 + ret)) b4 Hd Hinv0 ltac:(lia)) as Zs.
    cbv zeta in Zs. revert Zs.
    match goal with |- context[if ?c then _ else _] => destruct c end; intros [Zs1 Zs2].
    all: replace (Z.to_nat (Z.of_N (11 + ret))) with (11 + N.to_nat ret)%nat in Zs1, Zs2 by lia.
    all: destruct (Nat.le_gt_cases (length L + (11 + N.to_nat ret)) (nlit + ndist)) as [Hfit|Hover];
      [|apply rej_direct; [exact Hroom|]; intros _ rf e p all s1 H;
        destruct (read_lens_rep_inv rf ct (nlit + ndist - length L)%nat (rev L) _ 18%nat _ 7%nat 11%nat
                    (Some 0%nat) all s1 H ltac:(lia) (Hds e p) ltac:(lia) eq_refl)
          as (ev & s2 & v' & Htk & Hw & Hle' & _);
        pose proof (Hmin e (p + N.of_nat len) ev s2 Htk) as Hm; lia].
    all: destruct (Z.ltb_spec (r_len b4) 0) as [Hn4|Hp4];
      [apply rej_direct; [exact Hroom|]; intros Herr rf e p all s1 H;
       destruct (read_lens_rep_inv rf ct (nlit + ndist - length L)%nat (rev L) _ 18%nat _ 7%nat 11%nat
                   (Some 0%nat) all s1 H ltac:(lia) (Hds e p) ltac:(lia) eq_refl)
         as (ev & s2 & v' & Htk & Hw & Hle' & Hrest);
       injection Hw as <-;
       pose proof (Hmin e (p + N.of_nat len) ev s2 Htk) as Hm;
       match type of Herr with snd (rl_loop _ _ _ _ _ ?stx) = _ =>
         apply (phantom_run nlit ndist cl ct clcS clcL Hd Hmk Hok f stx L 0%nat (11 + N.to_nat ret)
                  (11 + N.to_nat ev) rf (nlit + ndist - length L - (11 + N.to_nat ev))%nat s2 all s1 (Zs1 Hfit));
         [exact X3|exact Hn4|exact Herr|lia|exact Hrest] end
      |].
    all: match goal with |- reject_concl _ _ _ _ _ (rl_loop _ _ _ _ _ ?stx) =>
           apply (rej_chain nlit ndist ct st L stx (L ++ repeat 0%nat (11 + N.to_nat ret)));
           [apply IH; [exact X3|exact Hp4|exact (Zs1 Hfit)]
           |rewrite app_length, repeat_length; lia
           |
           |exact Hroom] end.
    all: cbn [rl_b]; intros rf e p; exists (p + N.of_nat len + 7);
      rewrite (read_lens_rep rf ct (nlit + ndist - length L)%nat (rev L) _ 18%nat _ 7%nat 11%nat
                 (Some 0%nat) ret _ 0%nat
                 (Hds e p) ltac:(lia) eq_refl (X4 Hp4 e (p + N.of_nat len)) eq_refl ltac:(lia) ltac:(lia));
      rewrite rev_app_distr, rev_repeat, app_length, repeat_length;
      replace (nlit + ndist - length L - (11 + N.to_nat ret))%nat
          with (nlit + ndist - (length L + (11 + N.to_nat ret)))%nat by lia;
      reflexivity. }
Qed.

(* ---------------------------------------------------------------- the theorem (with the bound
   on the alphabet of the code-length code; see the counterexample at the top of the file) *)
Definition readLitDistLens_reject_partial_statement : Prop :=
  canon_pad_statement ->
  forall s hlit hdist clens ct e p,
    br_wf (rd s) -> (0 <= r_len (rd s))%Z -> hlit <= 29 -> hdist <= 29 ->
    Forall (fun x => (x <= 7)%nat) clens -> oversubscribed 7 clens = false ->
    (length clens <= 19)%nat ->
    mktrie 7 clens = Some ct ->
    clc_tab_ok clens (clcShort (dyn s)) (clcLong (dyn s)) ->
    arr_zero (litAndDistHuff (dyn s)) -> arr_zero (litCount (dyn s)) ->
    arr_zero (distCount (dyn s)) -> arr_zero (litExpandCount (dyn s)) ->
    snd (readLitDistLens s hdist hlit) = EInvalidBlock ->
    let nlit := (N.to_nat hlit + 257)%nat in
    let n := (nlit + (N.to_nat hdist + 1))%nat in
    forall all s1,
      read_lens n ct n [] (mkbs (br_bits (rd s) ++ e) p) = HOk all s1 ->
      nth 256 (firstn nlit all) 0%nat = 0%nat.

Lemma rl_reject_top : canon_pad_statement ->
  forall (hlit hdist : N) clens ct (b : bitrd) (h lc dc ex clcS clcL : arr) e p,
    br_wf b -> (0 <= r_len b)%Z -> hlit <= 29 -> hdist <= 29 ->
    Forall (fun x => (x <= 7)%nat) clens -> oversubscribed 7 clens = false ->
    (length clens <= 19)%nat ->
    mktrie 7 clens = Some ct -> clc_tab_ok clens clcS clcL ->
    arr_zero h -> arr_zero lc -> arr_zero dc -> arr_zero ex ->
    forall res,
    rl_loop small_fuel clcS clcL (Z.of_N (litTableSize + hlit)) (Z.of_N (litLen + hdist + 1))
            (mkRL b h lc dc ex 0%Z (-1)%Z false) = res ->
    snd res = EInvalidBlock ->
    forall all s1,
      read_lens (N.to_nat hlit + 257 + (N.to_nat hdist + 1)) ct
                (N.to_nat hlit + 257 + (N.to_nat hdist + 1)) [] (mkbs (br_bits b ++ e) p) = HOk all s1 ->
      nth 256 (firstn (N.to_nat hlit + 257) all) 0%nat = 0%nat.
Proof.
  intros Hpad hlit hdist clens ct b h lc dc ex clcS clcL e p Hwf H0 Hhl Hhd HF Hov Hl19 Hmk Hok Zh Zl Zd Ze res Hres Herr all s1 Hr.
  assert (Hd : dims_ok (N.to_nat hlit + 257) (N.to_nat hdist + 1)) by (unfold dims_ok; lia).
  assert (Hinv0 : rl_inv (N.to_nat hlit + 257) (N.to_nat hdist + 1) (mkRL b h lc dc ex 0%Z (-1)%Z false) []).
  { unfold rl_inv. cbn [rl_curr rl_prev rl_inDist rl_h rl_lc rl_dc rl_ex length].
    split; [lia|]. split.
    - unfold rl_pos. split; [lia|]. left. split; [lia|]. split; reflexivity.
    - apply rl_arr_init; assumption. }
  pose proof (rl_reject Hpad _ _ clens ct clcS clcL Hd HF Hov Hl19
                Hmk Hok small_fuel (mkRL b h lc dc ex 0%Z (-1)%Z false) [] Hwf H0 Hinv0) as Rj.
  replace (Z.of_nat (N.to_nat hlit + 257)) with (Z.of_N (litTableSize + hlit)) in Rj by (unfold litTableSize; lia).
  replace (286 + Z.of_nat (N.to_nat hdist + 1))%Z with (Z.of_N (litLen + hdist + 1)) in Rj by (unfold litLen; lia).
  rewrite Hres in Rj. unfold reject_concl in Rj.
  apply (Rj Herr _ e p all s1 (le_n _)).
  cbn [length rev]. rewrite Nat.sub_0_r. exact Hr.
Qed.

Theorem readLitDistLens_reject_partial : readLitDistLens_reject_partial_statement.
Proof.
  intros Hpad s hlit hdist clens ct e p Hwf H0 Hhl Hhd HF Hov Hl19 Hmk Hok Zh Zl Zd Ze.
  unfold readLitDistLens.
  pose proof (rl_reject_top Hpad hlit hdist clens ct (rd s) _ _ _ _ _ _ e p Hwf H0 Hhl Hhd HF Hov Hl19 Hmk Hok
                Zh Zl Zd Ze _ eq_refl) as A.
  destruct (rl_loop small_fuel (clcShort (dyn s)) (clcLong (dyn s)) (Z.of_N (litTableSize + hlit))
                    (Z.of_N (litLen + hdist + 1)) _) as [st' err].
  exact A.
Qed.

Print Assumptions readLitDistLens_reject_partial.

(* ---------------------------------------------------------------- the counterexample to
   readLitDistLens_reject_statement (no bound on length clens), replayed by computation.
   cex_table_check: the table decodes `canon cex_clens` exactly on every 16-bit pattern (clc_decode
   looks at the low 16 bits only: EngineRefineHeaderDec.clc_look_low16), i.e. clc_tab_ok holds. *)
Definition cex_clens : list nat := [2;2;0;0;0;0;0;0;0;0;0;0;0;0;0;0;0;0;0;1]%nat.
Definition cex_entry (v : N) : N :=
  if v mod 2 =? 0 then 2067 else if v mod 4 =? 1 then 4096 else 4097.
Definition cex_clcS : arr := forN 0 1024 (fun v t => aset t v (cex_entry v)) aempty.
Definition cex_s0 : Engine.inflate :=
  mkInflate (mkBR 0 0%Z [254;214;15] 3) false ov0 (mkTB aempty aempty aempty aempty) 0 0 0 0 []
            (mkDyn aempty cex_clcS aempty aempty aempty aempty aempty aempty aempty) 0%Z.

Lemma cex_side_conditions :
  Forall (fun x => (x <= 7)%nat) cex_clens /\ oversubscribed 7 cex_clens = false /\
  length cex_clens = 20%nat /\ canon cex_clens = [(0%nat, 2%nat, 2); (1%nat, 2%nat, 3); (19%nat, 1%nat, 0)].
Proof.
  split; [unfold cex_clens; repeat constructor|]. split; [reflexivity|]. split; reflexivity.
Qed.

Definition cex_matchb (v : N) (e : nat * nat * N) : bool :=
  let '(_, len, c) := e in N.land v (N.ones (N.of_nat len)) =? rcode len c.

Lemma cex_table_check :
  forallb (fun v =>
    match find (cex_matchb v) (canon cex_clens), clc_look cex_clcS aempty v with
    | Some (d, len, _), Some (sym, cnt) => (sym =? N.of_nat d) && (cnt =? N.of_nat len)
    | _, _ => false
    end) (seqN 0 (N.to_nat 65536)) = true.
Proof. vm_compute. reflexivity. Qed.

Lemma cex_engine : snd (readLitDistLens cex_s0 0 0) = EInvalidBlock.
Proof. vm_compute. reflexivity. Qed.

Lemma cex_reference : exists ct all s1,
  mktrie 7 cex_clens = Some ct /\
  read_lens 258 ct 258 [] (mkbs (br_bits (rd cex_s0) ++ []) 0) = HOk all s1 /\
  nth 256 (firstn 257 all) 0%nat = 1%nat.
Proof.
  eexists. eexists. eexists. split; [vm_compute; reflexivity|].
  split; [vm_compute; reflexivity|]. vm_compute. reflexivity.
Qed.
