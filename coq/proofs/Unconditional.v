(* Unconditional.v — C01/C10 of WModel/FinalSpec.v without the premise
   `forallb event_ok_b (run_trace w) = true` (statements in WModel/OracleSpec.v):

     C01_unconditional : C01_unconditional_statement
     C10_unconditional : C10_unconditional_statement

   The premise is discharged with block_always_ok (GenerateProofs): every block of the trace of a
   history has tokens in range (trace_toks_ok, TraceContent) and byte literals / byte data. *)
From Verif Require Import OracleSpec RenderProofs TraceContent GenerateProofs WriterTheorems.
From Coq Require Import ZArith Lia ZifyBool ZifyNat ZifyN.
Open Scope N_scope.

(* RenderProofs also defines a constant named `writer` *)
Local Notation writer := WriterSM.writer.

(* ------------------------------------------------------------------ *)
(* completeness of the boolean checks                                   *)

Lemma combine_nz_complete : forall counts lens,
  length lens = length counts ->
  (forall n, nth n counts 0 <> 0 -> nth n lens 0 <> 0) ->
  forallb (fun '(c, l) => (c =? 0) || negb (l =? 0)) (combine counts lens) = true.
Proof.
  induction counts as [|c cs IH]; intros lens Hl Hn; [reflexivity|].
  destruct lens as [|l ls]; [discriminate Hl|].
  cbn [combine forallb]. apply andb_true_iff. split.
  - specialize (Hn 0%nat). cbn [nth] in Hn.
    destruct (c =? 0) eqn:Ec; [reflexivity|]. cbn [orb].
    apply N.eqb_neq in Ec. apply Hn in Ec. apply negb_true_iff. apply N.eqb_neq. exact Ec.
  - apply IH; [cbn [length] in Hl; lia|].
    intros n H. apply (Hn (S n)). exact H.
Qed.

Lemma lens_valid_b_complete : forall maxl counts lens,
  lens_valid maxl counts lens -> lens_valid_b maxl counts lens = true.
Proof.
  intros maxl counts lens (H1 & H2 & H3 & H4). unfold lens_valid_b.
  repeat (apply andb_true_iff; split).
  - apply Nat.eqb_eq. exact H1.
  - apply forallb_forall. intros x Hx. rewrite Forall_forall in H2.
    apply N.leb_le. apply H2. exact Hx.
  - rewrite H3. reflexivity.
  - apply combine_nz_complete; [exact H1|]. intros n Hn.
    specialize (H4 (N.of_nat n)). unfold nthN in H4. rewrite Nat2N.id in H4.
    apply H4. exact Hn.
Qed.

Lemma event_ok_b_complete : forall e, event_ok e -> event_ok_b e = true.
Proof.
  intros e H. destruct e as [ts last | d final | | ]; cbn [event_ok event_ok_b] in *.
  - unfold block_ok, block_ok_b in *.
    destruct (tok_counts ts) as [lc dc]. destruct (block_lens ts) as [ll dl].
    destruct H as (H1 & H2 & H3).
    rewrite (lens_valid_b_complete _ _ _ H1), (lens_valid_b_complete _ _ _ H2),
      (lens_valid_b_complete _ _ _ H3). reflexivity.
  - destruct H as (H & Hd). unfold hblock_ok, hblock_ok_b in *. cbv zeta in *.
    destruct H as (H1 & H2).
    rewrite (lens_valid_b_complete _ _ _ H1), (lens_valid_b_complete _ _ _ H2). cbn [andb].
    apply forallb_forall. intros x Hx. rewrite Forall_forall in Hd.
    apply N.ltb_lt. apply Hd. exact Hx.
  - reflexivity.
  - reflexivity.
Qed.

Lemma events_ok_b_complete : forall evs, Forall event_ok evs -> forallb event_ok_b evs = true.
Proof.
  intros evs H. apply forallb_forall. intros e He. rewrite Forall_forall in H.
  apply event_ok_b_complete. apply H. exact He.
Qed.

(* ------------------------------------------------------------------ *)
(* every block of a valid trace is encodable                            *)

Lemma toks_in_range : forall W ts b, W <= 32768 -> toks_ok W b ts ->
  Forall (fun t => match t with TLit x => x < 256 | _ => True end) ts ->
  Forall (fun t => match t with TLit x => x < 256
                              | TMatch len dist => 3 <= len <= 258 /\ 1 <= dist <= 32768 end) ts.
Proof.
  intros W. induction ts as [|t r IH]; intros b HW Hok Hl; [constructor|].
  cbn [toks_ok] in Hok. destruct Hok as (Ht & Hr).
  inversion Hl as [|t' r' Hlt Hlr]; subst. constructor.
  - destruct t as [x|len dist]; [exact Hlt|]. cbn [tok_ok] in Ht. lia.
  - eapply IH; eassumption.
Qed.

(* the data of a Huffman-only block is part of the data of the trace *)
Lemma tdr_acc_incl : forall evs acc x, In x acc -> In x (trace_data_rev evs acc).
Proof.
  induction evs as [|e r IH]; intros acc x H; [exact H|].
  destruct e as [ts l|d f| |]; cbn [trace_data_rev]; apply IH.
  - apply expand_incl. exact H.
  - rewrite rev_append_rev. apply in_or_app. right. exact H.
  - exact H.
  - exact H.
Qed.

Lemma tdr_hblock_incl : forall evs acc d f x, In (EHBlock d f) evs -> In x d ->
  In x (trace_data_rev evs acc).
Proof.
  induction evs as [|e r IH]; intros acc d f x He Hx; [destruct He|].
  destruct He as [He|He].
  - subst e. cbn [trace_data_rev]. apply tdr_acc_incl.
    rewrite rev_append_rev. apply in_or_app. left. apply in_rev in Hx. exact Hx.
  - destruct e as [ts l|d' f'| |]; cbn [trace_data_rev]; eapply IH; eassumption.
Qed.

Lemma trace_events_ok_gen : forall W evs b, W <= 32768 -> trace_toks_ok W evs b ->
  (forall d f, In (EHBlock d f) evs -> Forall (fun x => x < 256) d) ->
  Forall event_ok evs.
Proof.
  intros W. induction evs as [|e r IH]; intros b HW Hok Hh; [constructor|].
  assert (Hh' : forall d f, In (EHBlock d f) r -> Forall (fun x => x < 256) d).
  { intros d f H. apply (Hh d f). right. exact H. }
  destruct e as [ts l|d f| |]; cbn [trace_toks_ok] in Hok.
  - destruct Hok as (H1 & H2 & H3). constructor; [|eapply IH; eassumption].
    cbn [event_ok]. apply (proj1 block_always_ok). eapply toks_in_range; eassumption.
  - constructor; [|eapply IH; eassumption].
    assert (Hd : Forall (fun x => x < 256) d) by (apply (Hh d f); left; reflexivity).
    cbn [event_ok]. split; [|exact Hd]. apply (proj2 block_always_ok). exact Hd.
  - constructor; [exact I|eapply IH; eassumption].
  - constructor; [exact I|eapply IH; eassumption].
Qed.

Lemma trace_events_ok : forall W evs, W <= 32768 -> trace_toks_ok W evs 0 ->
  bytes_ok (trace_data evs) -> forallb event_ok_b evs = true.
Proof.
  intros W evs HW Hok Hb. apply events_ok_b_complete.
  eapply trace_events_ok_gen; [exact HW|exact Hok|].
  intros d f He. apply Forall_forall. intros x Hx.
  unfold bytes_ok in Hb. rewrite Forall_forall in Hb. apply Hb.
  unfold trace_data. apply in_rev. rewrite rev_involutive.
  eapply tdr_hblock_incl; eassumption.
Qed.

(* ------------------------------------------------------------------ *)
(* the theorems                                                         *)

Theorem C01_unconditional : C01_unconditional_statement.
Proof.
  unfold C01_unconditional_statement. intros sync level win4k h Hnc Hb.
  destruct (C01_roundtrip sync level win4k h Hnc Hb) as (w & flags & E & Hfl & _ & Hrt).
  destruct (trace_content sync level win4k h Hnc Hb)
    as (w' & flags' & E' & _ & _ & _ & _ & Hok & Hdata).
  rewrite E in E'. inversion E'; subst w' flags'.
  exists w, flags. split; [exact E|]. split; [exact Hfl|].
  apply Hrt. apply (trace_events_ok (window_of level win4k)).
  - apply window_le.
  - exact Hok.
  - rewrite Hdata. exact Hb.
Qed.

Theorem C10_unconditional : C10_unconditional_statement.
Proof.
  unfold C10_unconditional_statement. intros sync level win4k h Hnc Hb.
  destruct (C10_flush sync level win4k h Hnc Hb) as (w & flags & E & Hfl & _ & Hrt).
  destruct (trace_flush_content sync level win4k h Hnc Hb)
    as (w' & flags' & evs & E' & _ & _ & _ & _ & Hok & Hdata & _).
  rewrite E in E'. inversion E'; subst w' flags'.
  exists w, flags. split; [exact E|]. split; [exact Hfl|].
  apply Hrt. apply (trace_events_ok (window_of level win4k)).
  - apply window_le.
  - exact Hok.
  - rewrite Hdata. exact Hb.
Qed.

Print Assumptions C01_unconditional.
Print Assumptions C10_unconditional.
