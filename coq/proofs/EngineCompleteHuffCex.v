(* EngineCompleteHuffCex.v -- decodeHuffman_outcome_statement (RModel/EngineCompleteSpecA.v, the
   first version) is false: clause (2) fails for the fixed code.  The engine holds exactly the
   7 bits 1,1,0,0,0,1,1 (a proper prefix of the fixed-code words 11000110 / 11000111 of the
   unassigned symbols 286 / 287) and no more input: decodeHuffman reports EInvalidSymbol (the
   zero-padded lookup hits the invalid entry of 286; symCount = 0 is tested before bitsLen < 0)
   while the reference on exactly these bits (e = []) needs input.  Every completion of the
   stream is corrupt: decodeHuffman_outcome2 (EngineCompleteHuffMain.v) is the true variant. *)
From Coq Require Import List NArith ZArith Bool Lia ZifyBool ZifyNat ZifyN.
From Verif Require Import Bits Huffman HuffmanSpec Inflate InflateSpec InflateMono.
From Verif Require Import Base EngineTables Engine EngineRefineSpec EngineRefineSpecBlock
                          EngineRefineBits EngineRefineBridge.
From Verif Require EngineRefineStatic EngineCompletePad.
From Verif Require Import EngineCompleteSpecA.
Import ListNotations.
Open Scope N_scope.

Definition ocex_state : inflate :=
  mkInflate (mkBR 99 7 [] 0) true ov0 static_tabs phaseHeaderDecoded 0 0 0 [] dyn0 0%Z.
Definition ocex_ost : ostate := mkost [] 0 0 0 [].

Lemma ocex_run : decodeHuffman ocex_state aempty 0 = (ocex_state, aempty, 0, EInvalidSymbol).
Proof. vm_compute. reflexivity. Qed.

Lemma ocex_wf : br_wf (rd ocex_state).
Proof.
  unfold br_wf, ocex_state. cbn [rd r_inlen r_in r_len r_bits length].
  split; [reflexivity|]. split; [lia|]. split; [reflexivity|]. split; [constructor|].
  intros i Hi. destruct (N.ltb_spec i 7) as [Hlt|Hge].
  - unfold br_bits. cbn [r_len r_bits r_in bits_of_bytes flat_map]. rewrite app_nil_r.
    change (Z.to_nat 7) with 7%nat. rewrite nth_bits_of_N by lia. rewrite N2Nat.id. exact Hi.
  - rewrite (testbit_lt_pow2 99 7 i) in Hi by (cbn; lia). discriminate.
Qed.

Lemma ocex_sym1 : forall lt dt,
  mktrie 15 fixed_lit_lens = Some lt -> mktrie 15 fixed_dist_lens = Some dt ->
  sym1 lt dt ocex_ost (mkbs (br_bits (rd ocex_state) ++ []) 0)
  = SStop ocex_ost (mkbs (br_bits (rd ocex_state) ++ []) 0) NeedInput.
Proof.
  intros lt dt Hlt Hdt.
  apply (f_equal (fun o => match o with Some t => t | None => TEmpty end)) in Hlt.
  apply (f_equal (fun o => match o with Some t => t | None => TEmpty end)) in Hdt.
  cbv beta iota in Hlt, Hdt. subst lt dt. vm_compute. reflexivity.
Qed.

Lemma sym_run_stop : forall lt dt st bs0 st' bs' ended a b x,
  sym1 lt dt st bs0 = SStop a b x -> sym_run lt dt st bs0 st' bs' ended -> ended = false ->
  st' = st /\ bs' = bs0.
Proof.
  intros lt dt st bs0 st' bs' ended a b x Hs R He.
  destruct R as [st s|st s st1 s1 st2 s2 e Hstep Hrest|st s st1 s1 Hend].
  - auto.
  - rewrite Hs in Hstep. discriminate.
  - discriminate.
Qed.

Theorem decodeHuffman_outcome_statement_false : ~ decodeHuffman_outcome_statement.
Proof.
  intros H.
  destruct (mktrie 15 fixed_lit_lens) as [lt|] eqn:Hlt; [|vm_compute in Hlt; discriminate].
  destruct (mktrie 15 fixed_dist_lens) as [dt|] eqn:Hdt; [|vm_compute in Hdt; discriminate].
  assert (Htab : tabs_for (tb ocex_state) lt dt).
  { exists fixed_lit_lens, fixed_dist_lens. split; [exact Hlt|]. split; [exact Hdt|].
    split; [exact EngineRefineStatic.static_lit_tab_ok|exact EngineRefineStatic.static_dist_tab_ok]. }
  assert (Hwin : win_rel aempty 0 ocex_ost).
  { unfold win_rel, ocex_ost. cbn [oavail olen rout length]. split; [reflexivity|]. split; [reflexivity|].
    split; [lia|]. split; [left; reflexivity|]. intros i Hi. lia. }
  assert (H0 : (0 <= r_len (rd ocex_state))%Z) by (unfold ocex_state; cbn [rd r_len]; lia).
  assert (H8 : 0 <= outLen) by (unfold outLen; lia).
  specialize (H EngineCompletePad.canon_pad ocex_state aempty 0 lt dt ocex_ost 0 ocex_wf
                H0 eq_refl (or_introl eq_refl) eq_refl Htab Hwin H8).
  rewrite ocex_run in H. cbv beta iota zeta in H.
  destruct H as (_ & H2 & _). specialize (H2 eq_refl []).
  destruct H2 as (st' & bs' & ended & R & He & a & b & Hs).
  pose proof (ocex_sym1 lt dt Hlt Hdt) as Hn.
  destruct (sym_run_stop _ _ _ _ _ _ _ _ _ _ Hn R He) as [E1 E2]. subst st' bs'.
  rewrite Hn in Hs. congruence.
Qed.

Print Assumptions decodeHuffman_outcome_statement_false.
