(* EngineResetHdr3.v -- Reset-equivalence proof, dynamic header, part 3: the histogram invariant
   RLI of readLitDistLens (EngineResetDepRL.v) holds after rl_loop whatever the code-length table
   and the bit reader are (no safety hypotheses): single-run fact rl_post after readLitDistLens. *)
From Coq Require Import List NArith ZArith Bool Lia ZifyBool ZifyNat ZifyN.
From Verif Require Import Base Engine EngineTables EngineSafetyBase EngineSafetyBits EngineSafetyInv.
From Verif Require Import EngineResetDepRL.
Import ListNotations.
Open Scope N_scope.

Lemma rl_put_vpos : forall st split endv h st',
  (257 <= split <= 286)%Z -> (287 <= endv <= 316)%Z -> RLI split st ->
  rl_put st split endv h = Some st' -> (vpos split st < endv)%Z.
Proof.
  intros st split endv h st' Hs He (P1 & P2 & _) H. unfold rl_put in H. unfold vpos.
  destruct (rl_curr st =? split)%Z eqn:Ec.
  - destruct (rl_inDist st) eqn:Ed.
    + specialize (P2 eq_refl). lia.
    + lia.
  - destruct (endv <=? rl_curr st)%Z eqn:E1; [discriminate H|].
    destruct (rl_inDist st) eqn:Ed.
    + lia.
    + specialize (P1 eq_refl). lia.
Qed.

Lemma rl_put_RLI : forall st split endv h st',
  (257 <= split <= 286)%Z -> (287 <= endv <= 316)%Z -> RLI split st -> ent_ok h ->
  rl_put st split endv h = Some st' -> RLI split st'.
Proof.
  intros st split endv h st' Hs He HI Hh H.
  pose proof (rl_put_vpos st split endv h st' Hs He HI H) as Hv.
  destruct (rl_put_spec st split endv h Hs He HI Hh Hv) as (st2 & R1 & R2 & _).
  rewrite R1 in H. injection H as <-. exact R2.
Qed.

Lemma rl_rep_RLI : forall n st split endv h st',
  (257 <= split <= 286)%Z -> (287 <= endv <= 316)%Z -> RLI split st -> ent_ok h ->
  rl_rep n st split endv h = Some st' -> RLI split st'.
Proof.
  induction n as [|k IH]; intros st split endv h st' Hs He HI Hh H; cbn [rl_rep] in H.
  - injection H as <-. exact HI.
  - destruct (rl_put st split endv h) as [st1|] eqn:E1; [|discriminate H].
    apply (IH st1 split endv h st' Hs He); [|exact Hh|exact H].
    apply (rl_put_RLI st split endv h st1 Hs He HI Hh E1).
Qed.

Lemma RLI_skip : forall split st b curr prev inDist,
  RLI split st ->
  (rl_curr st <= curr)%Z ->
  (inDist = false -> (0 <= curr <= split)%Z) -> (inDist = true -> (286 <= curr)%Z) ->
  RLI split (mkRL b (rl_h st) (rl_lc st) (rl_dc st) (rl_ex st) curr prev inDist).
Proof.
  intros split st b curr prev inDist (P1 & P2 & P3 & P4 & P5 & P6 & P7 & P8) Hc H0 H1.
  unfold RLI. cbn [rl_inDist rl_curr rl_h rl_lc rl_dc rl_ex].
  split; [exact H0|]. split; [exact H1|]. split; [exact P3|].
  split; [intros p Hp; apply P4; lia|]. split; [exact P5|]. split; [exact P6|].
  split; [exact P7|exact P8].
Qed.

Lemma rl_loop_RLI : forall fuel S L split endv st st' e,
  (257 <= split <= 286)%Z -> (287 <= endv <= 316)%Z -> RLI split st ->
  rl_loop fuel S L split endv st = (st', e) -> RLI split st'.
Proof.
  induction fuel as [|f IH]; intros S L split endv st st' e Hs He HI H.
  - cbn [rl_loop] in H. injection H as <- _. exact HI.
  - cbn [rl_loop] in H.
    destruct (rl_curr st <? endv)%Z.
    2:{ destruct ((endv <? rl_curr st)%Z || (hc_len (aget (rl_h st) 256) =? 0));
        injection H as <- _; exact HI. }
    destruct (load_le15 (rl_b st)) as [b|]; [|injection H as <- _; exact HI].
    destruct (clc_decode S L b) as [[symbol b']|]; [|injection H as <- _; exact HI].
    pose proof (RLI_set_b split st b' HI) as HI1.
    set (st1 := rl_set_b st b') in *.
    destruct (r_len b' <? 0)%Z.
    { destruct ((256 <? rl_curr st1)%Z && (hc_len (aget (rl_h st1) 256) =? 0));
        injection H as <- _; exact HI1. }
    destruct (symbol <? 16) eqn:E16.
    { destruct (rl_put st1 split endv (hc_set 0 symbol)) as [st2|] eqn:Ep.
      - apply (IH S L split endv st2 st' e Hs He); [|exact H].
        apply (rl_put_RLI st1 split endv (hc_set 0 symbol) st2 Hs He HI1); [|exact Ep].
        apply ent_ok_set. lia.
      - injection H as <- _; exact HI1. }
    destruct (symbol =? 16).
    { destruct (load_raw b') as [b2|]; [|injection H as <- _; exact HI1].
      destruct (next_bits b2 2) as [ret b3].
      pose proof (RLI_set_b split st1 b3 HI1) as HI2.
      set (st2 := rl_set_b st1 b3) in *.
      match type of H with (if ?c then _ else _) = _ => destruct c end.
      { injection H as <- _; exact HI2. }
      match type of H with context [rl_rep ?a ?b ?c ?d ?x] =>
        destruct (rl_rep a b c d x) as [st3|] eqn:Er end.
      - apply (IH S L split endv st3 st' e Hs He); [|exact H].
        eapply (rl_rep_RLI _ st2 split endv _ st3 Hs He HI2); [|exact Er].
        destruct HI2 as (_ & _ & P3 & _). apply P3.
      - injection H as <- _; exact HI2. }
    destruct ((symbol =? 17) || (symbol =? 18)); [|injection H as <- _; exact HI1].
    destruct (load_raw b') as [b2|]; [|injection H as <- _; exact HI1].
    destruct (if symbol =? 17 then next_bits b2 3 else next_bits b2 7) as [ret b3].
    set (i := Z.of_N ((if symbol =? 17 then 3 else 11) + ret)) in H.
    assert (Hi : (3 <= i)%Z) by (unfold i; destruct (symbol =? 17); lia).
    clearbody i.
    pose proof HI1 as (P1 & P2 & _).
    destruct (negb (rl_inDist st1) && (split <? rl_curr st1 + i)%Z) eqn:Ej.
    + apply (IH S L split endv _ st' e Hs He) in H; [exact H|].
      apply RLI_skip; [exact HI1|lia|intros Hc; discriminate Hc|intros _; lia].
    + apply (IH S L split endv _ st' e Hs He) in H; [exact H|].
      apply RLI_skip; [exact HI1|lia| |].
      * intros Hd. rewrite Hd in Ej. specialize (P1 Hd). cbn [negb andb] in Ej. lia.
      * intros Hd. specialize (P2 Hd). lia.
Qed.

(* readLitDistLens started on empty histograms leaves rl_post *)
Lemma rl_loop_post : forall fuel S L hdist hlit b st e,
  hdist <= 29 -> hlit <= 29 ->
  rl_loop fuel S L (Z.of_N (litTableSize + hlit)) (Z.of_N (litLen + hdist + 1))
          (mkRL b aempty aempty aempty aempty 0%Z (-1)%Z false) = (st, e) ->
  rl_post (rl_h st) (rl_lc st) (rl_dc st) (rl_ex st).
Proof.
  intros fuel S L hdist hlit b st e Hd Hl H.
  assert (Hs : (257 <= Z.of_N (litTableSize + hlit) <= 286)%Z) by (unfold litTableSize; lia).
  assert (He : (287 <= Z.of_N (litLen + hdist + 1) <= 316)%Z) by (unfold litLen; lia).
  apply (RLI_post (Z.of_N (litTableSize + hlit))).
  apply (rl_loop_RLI fuel S L _ _ _ st e Hs He (RLI_init _ b Hs) H).
Qed.
