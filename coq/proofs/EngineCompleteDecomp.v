(* EngineCompleteDecomp.v -- decomp2 (statement in RModel/EngineCompleteSpecD.v): the
   multi-block loop decomp_loop over st_sim2 (the simulation with the stronger table predicate
   tabs_for2), together with what its two non-fatal bad outcomes mean for the reference:
   an error code on a strict stream, or EEndInput when there is no unseen input, only if the
   reference does not say Done.  Same induction on fuel as proofs/EngineRefineDecomp.v
   (whose configuration-independent lemmas are reused); at the iteration where the bad outcome
   occurs the current configuration is reachable, is not CDone and has no rstep successor. *)
From Coq Require Import List NArith ZArith Bool Relations Lia ZifyBool ZifyNat ZifyN.
From Verif Require Import Bits Huffman HuffmanSpec Inflate InflateSpec InflateMono.
From Verif Require Import Base EngineTables Engine EngineRefineSpec EngineRefineSpecBlock
     EngineRefineSpecBlock2 EngineRefineSpecBlock3 EngineRefineSpecHdr EngineRefineSpecNeed
     EngineRefineSpecReach EngineRefineSpecBuf EngineRefineSpecTop EngineRefineSpecFinal
     EngineCompleteSpecA EngineCompleteSpecB EngineCompleteSpecReach EngineCompleteSpecC
     EngineCompleteSpecD EngineRefineBits.
From Verif Require Import EngineRefineReach EngineRefineDecompErr EngineRefineDecomp EngineCompleteDecompErr.
Import ListNotations.
Open Scope N_scope.

(* ---------------------------------------------------------------- small facts *)
Lemma tabs_for2_1 t lt dt : tabs_for2 t lt dt -> tabs_for t lt dt.
Proof.
  intros [ll [dl [A [B [C [D _]]]]]]. exists ll, dl.
  split; [exact A|]. split; [exact B|]. split; [exact C | exact D].
Qed.

Lemma take8_nil B : bl B = [] -> take 8 B = None.
Proof. intros H. cbn [take]. unfold take1. rewrite H. reflexivity. Qed.

Lemma rstep_parses st S0 c' : rstep (CBlock st S0) c' -> hdr_parses S0.
Proof.
  intros X. inversion X as
    [st1 s bf s1 s2 lt dt E1 E2 EF
    |st1 s bf s1 s2 lt dt s3 E1 E2 ED
    |st1 s bf s1 s2 len s4 nlen s5 E1 E2 E3 E4 E5
    | | | | ]; subst.
  - exists bf, s1, 1, s2. split; [exact E1|]. split; [exact E2|]. left. reflexivity.
  - exists bf, s1, 2, s2. split; [exact E1|]. split; [exact E2|]. right. left.
    split; [reflexivity|]. exists (lt, dt), s3. exact ED.
  - exists bf, s1, 0, s2. split; [exact E1|]. split; [exact E2|]. right. right.
    split; [reflexivity|]. exists len, s4, nlen, s5. split; [exact E3 | exact E4].
Qed.

Section Decomp2.
Hypothesis HRH : readHeader_refine_body2.
Hypothesis HRN : readHeader_need_body.
Hypothesis HRJ : readHeader_reject_body.
Hypothesis HDH : decodeHuffman_refine3_statement.
Hypothesis HDO : decodeHuffman_outcome2_body.
Hypothesis HLB : decodeLiteralBlock_refine_statement.
Hypothesis HRI : reach_inv_statement.
Hypothesis HRC : reach_complete_statement.
Hypothesis HSR : reach_sym_run_statement.
Variable data : list N.
Variable u : list N.
Local Notation U := (bits_of_bytes u).

Definition bad : Prop := status (Inflate.inflate [] data) <> Done.

(* the two outcome facts *)
Definition oc (err : ierr) : Prop :=
  (isError err = true -> strict data -> bad) /\ (err = EEndInput -> u = [] -> bad).

Lemma oc_triv err : isError err = false -> err <> EEndInput -> oc err.
Proof.
  intros A B. split.
  - intros C. rewrite A in C. discriminate.
  - intros C. contradiction.
Qed.

(* a reachable configuration that is not final and has no successor *)
Lemma stuck c :
  reach data c -> (forall st s, c <> CDone st s) -> (forall c', ~ rstep c c') -> bad.
Proof.
  intros R ND NS D. destruct (HRC data D) as [_ H].
  destruct (H c R) as [[st [s E]]|[c' RS]].
  - exact (ND st s E).
  - exact (NS c' RS).
Qed.

Lemma huff_stuck bf lt dt st' bs' a b x :
  reach data (CHuff bf lt dt st' bs') -> sym1 lt dt st' bs' = SStop a b x -> bad.
Proof.
  intros R ST. apply (stuck _ R).
  - intros st s E. discriminate.
  - intros c' X. inversion X; subst; congruence.
Qed.

Definition loop_post2 (s : inflate) (w : N) (c : rcfg) (r : inflate * arr * N * ierr) : Prop :=
  let '(s', out', w', err) := r in
  (let '(s2, out2, w2) := flush_ov s' out' w' in
   exists c',
     rstar c c' /\ win_rel out2 w2 (cfg_st c') /\ w <= w2 /\ w2 <= outLen + 261 /\
     olen (cfg_st c') = olen (cfg_st c) + (w2 - w) /\
     inputNil s2 = inputNil s /\
     (err <> EPanic -> err <> EFuel -> isError err = false ->
        st_sim2 s2 c' U /\
        qbytes s2 <= qbytes s /\
        (err = ENone \/ err = EEndInput \/ err = EOutputOverflow) /\
        (err = ENone -> phase s2 = phaseStreamEnd) /\
        (phase s2 = phaseDecodingHeader ->
           err = EEndInput /\ r_in (rd s2) = [] /\ r_inlen (rd s2) = 0))) /\
  oc err.

Definition blk_post2 (s : inflate) (w : N) (c : rcfg) (r : inflate * arr * N * ierr) : Prop :=
  let '(s', out', w', err) := r in
  (let '(s2, out2, w2) := flush_ov s' out' w' in
   exists c',
     rstar c c' /\ win_rel out2 w2 (cfg_st c') /\
     olen (cfg_st c') = olen (cfg_st c) + (w2 - w) /\
     w <= w' /\ w' <= outLen /\ w' <= w2 /\ w2 <= outLen + 261 /\
     inputNil s2 = inputNil s /\
     (err = ENone -> s2 = s' /\ out2 = out' /\ w2 = w') /\
     (err <> EPanic -> err <> EFuel -> isError err = false ->
        st_sim2 s2 c' U /\
        qbytes s2 <= qbytes s /\
        (err = ENone \/ err = EEndInput \/ err = EOutputOverflow) /\
        phase s2 <> phaseDecodingHeader)) /\
  oc err.

Lemma loop_post2_trans s w c s1 w1 c1 r :
  rstar c c1 -> olen (cfg_st c1) = olen (cfg_st c) + (w1 - w) -> w <= w1 ->
  inputNil s1 = inputNil s -> qbytes s1 <= qbytes s ->
  loop_post2 s1 w1 c1 r -> loop_post2 s w c r.
Proof.
  destruct r as [[[s' out'] w'] err]. unfold loop_post2.
  destruct (flush_ov s' out' w') as [[s2 out2] w2].
  intros R L W I Q [[c' [R' [WR [W1 [W2 [L' [I' NF]]]]]]] OC]. split; [|exact OC].
  exists c'. split; [eapply rt_trans; eassumption|]. split; [exact WR|].
  split; [lia|]. split; [exact W2|]. split; [lia|]. split; [congruence|].
  intros A B C. destruct (NF A B C) as [S1 [Q1 [T [P1 P2]]]].
  split; [exact S1|]. split; [lia|]. split; [exact T|]. split; [exact P1 | exact P2].
Qed.

Lemma loop_post2_ret s s1 out w c err :
  ov s1 = ov0 -> inputNil s1 = inputNil s -> win_rel out w (cfg_st c) -> w <= outLen ->
  (err <> EPanic -> err <> EFuel -> isError err = false ->
     st_sim2 s1 c U /\ qbytes s1 <= qbytes s /\
     (err = ENone \/ err = EEndInput \/ err = EOutputOverflow) /\
     (err = ENone -> phase s1 = phaseStreamEnd) /\
     (phase s1 = phaseDecodingHeader ->
        err = EEndInput /\ r_in (rd s1) = [] /\ r_inlen (rd s1) = 0)) ->
  oc err ->
  loop_post2 s w c (s1, out, w, err).
Proof.
  intros OV I WR WL NF OC. unfold loop_post2. rewrite (flush_ov_id _ _ _ OV).
  split; [|exact OC].
  exists c. split; [apply rt_refl|]. split; [exact WR|]. split; [lia|].
  split; [unfold outLen in *; lia|]. split; [lia|]. split; [exact I | exact NF].
Qed.

(* ---------------------------------------------------------------- readHeader *)
Lemma hdr_step2 st S0 s :
  reach data (CBlock st S0) -> st_sim2 s (CBlock st S0) U ->
  let '(s1, e1) := readHeader s in
  inputNil s1 = inputNil s /\ ov s1 = ov0 /\ hdr_err e1 /\
  (e1 = ENone ->
     qbytes s1 <= qbytes s /\
     exists c1, rstep (CBlock st S0) c1 /\ cfg_st c1 = st /\ st_sim2 s1 c1 U /\ blockish c1) /\
  (e1 = EEndInput ->
     st_sim2 s1 (CBlock st S0) U /\ qbytes s1 <= qbytes s /\ phase s1 = phaseDecodingHeader /\
     r_in (rd s1) = [] /\ r_inlen (rd s1) = 0 /\ (u = [] -> bad)) /\
  (e1 = EInvalidBlock -> strict data -> bad).
Proof.
  intros R [OV [PH [OK [OKS [ND BL]]]]].
  assert (AL : ((Z.of_N (bp S0) + r_len (rd s)) mod 8 = 0)%Z).
  { destruct OK as [_ [NN _]]. eapply (hdr_align HRI EngineRefineDecompErr.readHeader_no_overflow data u); eassumption. }
  pose proof (HRH s U (bp S0) OK OKS AL) as X.
  pose proof (HRN s (bp S0) OK OKS AL ND) as Y.
  pose proof (readHeader_hdr_err s) as Z.
  pose proof (HRJ s U (bp S0) st OK OKS AL) as J. rewrite <- BL, mkbs_eta in J.
  destruct (readHeader s) as [s1 e1]. cbn [snd] in Z, J.
  destruct X as [[F1 [F2 F3]] [XN XE]]. destruct Y as [YE YN].
  split; [exact F1|]. split; [congruence|]. split; [exact Z|]. split; [|split].
  - intros ->. destruct (XN eq_refl) as [W1 [NN1 [HB1 [HBD1 HR]]]].
    split; [apply YN; reflexivity|].
    rewrite <- BL, mkbs_eta in HR.
    destruct HR as [bf [s1' [bt [s2 [T1 [T2 [BF D]]]]]]].
    pose proof (take1_bit _ _ _ T1) as BFB.
    assert (OV1 : ov s1 = ov0) by congruence.
    destruct D as [[-> [P [lt [dt [FT [TF B2]]]]]]
                  | [[-> [P [lt [dt [s3 [DH [TF B2]]]]]]]
                  | [-> [P [len [s4 [nlen [s5 [T3 [T4 [LN [LBL [B2 M8]]]]]]]]]]]]].
    + exists (CHuff bf lt dt st s2). split; [eapply rs_fixed; eassumption|].
      split; [reflexivity|]. split; [|exact I]. unfold st_sim2.
      repeat match goal with |- _ /\ _ => split end; assumption.
    + exists (CHuff bf lt dt st s3). split; [eapply rs_dyn; eassumption|].
      split; [reflexivity|]. split; [|exact I]. unfold st_sim2.
      repeat match goal with |- _ /\ _ => split end; assumption.
    + exists (CStored bf len len st s5). split; [eapply rs_stored; eassumption|].
      split; [reflexivity|]. split; [|exact I]. unfold st_sim2.
      repeat match goal with |- _ /\ _ => split end; assumption.
  - intros ->. destruct (XE eq_refl) as [OK1 [OKS1 [P1 [LB1 [RI [RL [RB RLEN]]]]]]].
    split.
    + unfold st_sim2. split; [congruence|]. split; [right; exact P1|]. split; [exact OK1|].
      split; [exact OKS1|]. split; [apply YE; reflexivity|]. rewrite LB1. exact BL.
    + split; [unfold qbytes; rewrite RLEN, RL; lia|].
      split; [exact P1|]. split; [exact RI|]. split; [exact RL|].
      (* no unseen input: the staged bits are all there is, and they do not parse *)
      intros Hu. pose proof (YE eq_refl P1) as NP.
      assert (E : hbits s1 = bl S0).
      { rewrite BL, <- LB1, Hu. change (bits_of_bytes []) with (@nil bool).
        rewrite app_nil_r. unfold lbits, br_bits, lrd, hbits. cbn [r_len r_bits r_in].
        rewrite RI, app_nil_r. reflexivity. }
      rewrite E, mkbs_eta in NP.
      apply (stuck _ R).
      * intros st' s' E'. discriminate.
      * intros c' RS. apply NP. exact (rstep_parses _ _ _ RS).
  - intros -> STR. apply (stuck _ R).
    + intros st' s' E'. discriminate.
    + apply J; [reflexivity|]. exact (STR st S0 R).
Qed.

(* ---------------------------------------------------------------- the state after a block *)
Lemma sim_next2 s bf st' bs' :
  ov s = ov0 -> bfinal s = bf ->
  phase s = (if bf =? 1 then phaseStreamEnd else phaseNewBlock) ->
  br_wf (rd s) -> (0 <= r_len (rd s))%Z -> headerBuffer s = [] -> headerBuffered s = 0 ->
  bl bs' = br_bits (rd s) ++ U ->
  st_sim2 s (next_block bf st' bs') U.
Proof.
  intros OV BF PH WF NN HB HBD BL. unfold next_block.
  destruct (bf =? 1) eqn:EB; unfold st_sim2.
  - split; [exact OV|]. split; [exact PH|]. split; [exact WF|]. split; [exact NN|].
    split; [exact HB | exact BL].
  - split; [exact OV|]. split; [left; exact PH|].
    split.
    { unfold hdr_ok. rewrite (lrd_rd s HB HBD). split; [exact WF|]. split; [exact NN|].
      rewrite HB, HBD. split; [reflexivity|]. split; [lia|]. split; [left; exact PH|].
      intros _. reflexivity. }
    split; [unfold hdr_ok_staged; rewrite PH; discriminate|].
    split; [unfold hdr_need; rewrite PH; discriminate|].
    rewrite (lbits_rd s HB HBD). exact BL.
Qed.

(* ---------------------------------------------------------------- decodeHuffman *)
Lemma huff_step2 bf lt dt st S0 s out w :
  reach data (CHuff bf lt dt st S0) ->
  st_sim2 s (CHuff bf lt dt st S0) U -> win_rel out w st -> w <= outLen ->
  blk_post2 s w (CHuff bf lt dt st S0) (decodeHuffman s out w).
Proof.
  intros R [OV [PH [BF [BFB [TF2 [WF [NN [HB [HBD BL]]]]]]]]] WR WL.
  assert (TF : tabs_for (tb s) lt dt) by (apply tabs_for2_1; exact TF2).
  assert (BFS : bfinal s = 0 \/ bfinal s = 1) by (rewrite BF; exact BFB).
  assert (WO0 : writeOverflowLen (ov s) = 0) by (rewrite OV; reflexivity).
  assert (WL0 : writeOverflowLits (ov s) = 0) by (rewrite OV; reflexivity).
  pose proof (HDH s out w lt dt st U (bp S0) WF NN PH BFS WO0 WL0 TF WR WL) as X.
  pose proof (HDO s out w lt dt st (bp S0) WF NN PH BFS OV TF2 WR WL) as O.
  unfold blk_post2. destruct (decodeHuffman s out w) as [[[s' out'] w'] err].
  split.
  { destruct (flush_ov s' out' w') as [[s2 out2] w2] eqn:FL.
    destruct X as [st' [bs' [ended [RUN [WR2 [OL [W1 [W2 [W3 [W4 [WO [SS1 [LB1 [SS2 [RD2 [PH2
                   [LB2 [OV2 NF]]]]]]]]]]]]]]]]]].
    rewrite <- BL, mkbs_eta in RUN. apply (sym_run_rstar bf) in RUN.
    set (c' := if ended then next_block bf st' bs' else CHuff bf lt dt st' bs') in *.
    assert (CS : cfg_st c' = st') by (unfold c'; destruct ended; [apply next_st | reflexivity]).
    assert (CB : cfg_bs c' = bs') by (unfold c'; destruct ended; [apply next_bs | reflexivity]).
    destruct SS1 as [I1 [TB1 [BF1 [HBD1 [HB1 _]]]]].
    destruct SS2 as [I2 [TB2 [BF2 [HBD2 [HB2 _]]]]].
    exists c'. split; [exact RUN|]. rewrite CS. split; [exact WR2|]. cbn [cfg_st].
    split; [exact OL|]. split; [exact W1|]. split; [exact W2|]. split; [exact W3|].
    split; [exact W4|]. split; [congruence|]. split.
    - intros ->. assert (E : w2 = w').
      { destruct (N.lt_ge_cases w' w2) as [Hlt|Hge]; [|lia].
        destruct (WO Hlt) as [Q|[Q|[Q|Q]]]; discriminate. }
      destruct (flush_ov_same _ _ _ _ _ _ FL E) as [E1 E2]. auto.
    - intros A B C. destruct (NF A B C) as [WF' [NN' [BL' [PH' [EN [EE [TRI EO]]]]]]].
      assert (WF2 : br_wf (rd s2)) by (rewrite RD2; exact WF').
      assert (NN2 : (0 <= r_len (rd s2))%Z) by (rewrite RD2; exact NN').
      assert (BL2 : bl bs' = br_bits (rd s2) ++ U) by (rewrite RD2; exact BL').
      assert (HB' : headerBuffer s2 = []) by congruence.
      assert (HBD' : headerBuffered s2 = 0) by congruence.
      assert (BF' : bfinal s2 = bf) by congruence.
      split; [|split; [|split; [exact TRI|]]].
      + unfold c'. destruct ended.
        * apply sim_next2; try assumption. rewrite PH2, PH', BF. reflexivity.
        * unfold st_sim2. split; [exact OV2|]. split; [rewrite PH2; exact PH'|].
          split; [exact BF'|]. split; [exact BFB|]. split; [rewrite TB2, TB1; exact TF2|].
          repeat match goal with |- _ /\ _ => split end; assumption.
      + apply qbytes_le; try assumption.
        pose proof (rstar_len _ _ RUN) as L. rewrite CB in L. cbn [cfg_bs] in L.
        rewrite BL2, BL, !app_length in L. lia.
      + rewrite PH2, PH'. destruct ended; [destruct (bfinal s =? 1)|]; discriminate. }
  (* the outcome facts *)
  destruct O as [OE [OI _]]. split.
  - intros IE _. destruct (OI IE U) as [st' [bs' [a [b [x [RUN [ST _]]]]]]].
    rewrite <- BL, mkbs_eta in RUN.
    exact (huff_stuck bf lt dt st' bs' a b x (HSR data bf lt dt st S0 st' bs' false R RUN) ST).
  - intros EE Hu. destruct (OE EE) as [_ [st2 [bs2 [RUN [a [b ST]]]]]].
    assert (E : br_bits (rd s) = bl S0).
    { rewrite BL, Hu. change (bits_of_bytes []) with (@nil bool). rewrite app_nil_r.
      reflexivity. }
    rewrite E, mkbs_eta in RUN.
    exact (huff_stuck bf lt dt st2 bs2 a b _ (HSR data bf lt dt st S0 st2 bs2 false R RUN) ST).
Qed.

(* ---------------------------------------------------------------- decodeLiteralBlock *)
Lemma stored_step2 bf len n st S0 s out w :
  reach data (CStored bf len n st S0) ->
  st_sim2 s (CStored bf len n st S0) U -> win_rel out w st -> w <= outLen ->
  blk_post2 s w (CStored bf len n st S0) (decodeLiteralBlock s out w).
Proof.
  intros R [OV [PH [BF [BFB [LBL [WF [NN [M8 [HB [HBD BL]]]]]]]]]] WR WL.
  destruct (HRI data _ R) as [_ [_ [_ [_ [NL [L64 _]]]]]].
  assert (BFS : bfinal s = 0 \/ bfinal s = 1) by (rewrite BF; exact BFB).
  assert (LT : litBlockLength s < 65536) by (rewrite LBL; lia).
  pose proof (HLB s out w st U (bp S0) WF NN M8 PH BFS WR WL LT) as X.
  unfold blk_post2.
  destruct (decodeLiteralBlock s out w) as [[[s' out'] w'] err] eqn:EDL.
  destruct X as [k [st' [bs' [KL [LB' [W' [WL' [ST [WR' [SS [OV' [E5 NF]]]]]]]]]]]].
  assert (OV1 : ov s' = ov0) by congruence.
  rewrite (flush_ov_id _ _ _ OV1).
  rewrite <- BL, mkbs_eta in ST. rewrite LBL in KL, LB'.
  destruct (stored_rstar bf len (N.to_nat k) n st S0 st' bs' ltac:(lia) ST) as [RS OL].
  rewrite N2Nat.id in RS, OL.
  destruct SS as [I1 [TB1 [BF1 [HBD1 [HB1 _]]]]].
  assert (HB' : headerBuffer s' = []) by congruence.
  assert (HBD' : headerBuffered s' = 0) by congruence.
  assert (BF' : bfinal s' = bf) by congruence.
  assert (QB : br_wf (rd s') -> (0 <= r_len (rd s'))%Z -> bl bs' = br_bits (rd s') ++ U ->
               qbytes s' <= qbytes s).
  { intros WF' NN' BL'. apply qbytes_le; try assumption.
    pose proof (rstar_len _ _ RS) as L. cbn [cfg_bs] in L.
    rewrite BL', BL, !app_length in L. lia. }
  (* the outcome facts *)
  assert (OC : oc err).
  { split.
    - intros IE _. destruct E5 as [Q|[Q|[Q|[Q|Q]]]]; rewrite Q in IE; discriminate.
    - intros EE Hu. rewrite EE in *.
      destruct (NF ltac:(discriminate) ltac:(discriminate))
        as [WF' [NN' [M8' [BL' [_ [_ [EI _]]]]]]].
      destruct (EI eq_refl) as [RI RL0].
      pose proof (lit_end_pos _ _ _ _ _ _ EDL) as POS. rewrite LB' in POS.
      assert (BE : bl bs' = []).
      { rewrite BL', Hu. unfold br_bits. rewrite RI, RL0. reflexivity. }
      remember (n - k) as m eqn:Em.
      assert (R' : reach data (CStored bf len m st' bs'))
        by (eapply rt_trans; [exact R | exact RS]).
      apply (stuck _ R').
      + intros st2 s2 E. discriminate.
      + intros c' X. inversion X as [ | | | | |bf0 len0 n0 st0 s0 b0 s1 Hn E8 | bf0 len0 st0 s0];
          subst.
        * rewrite (take8_nil _ BE) in E8. discriminate.
        * lia. }
  split; [|exact OC].
  (* the block is not complete *)
  assert (NE : err <> ENone ->
    exists c',
      rstar (CStored bf len n st S0) c' /\ win_rel out' w' (cfg_st c') /\
      olen (cfg_st c') = olen (cfg_st (CStored bf len n st S0)) + (w' - w) /\
      w <= w' /\ w' <= outLen /\ w' <= w' /\ w' <= outLen + 261 /\
      inputNil s' = inputNil s /\
      (err = ENone -> s' = s' /\ out' = out' /\ w' = w') /\
      (err <> EPanic -> err <> EFuel -> isError err = false ->
         st_sim2 s' c' U /\ qbytes s' <= qbytes s /\
         (err = ENone \/ err = EEndInput \/ err = EOutputOverflow) /\
         phase s' <> phaseDecodingHeader)).
  { intros N0. exists (CStored bf len (n - k) st' bs'). cbn [cfg_st].
    split; [exact RS|]. split; [exact WR'|]. split; [lia|]. split; [lia|].
    split; [exact WL'|]. split; [lia|]. split; [unfold outLen in *; lia|].
    split; [exact I1|]. split; [intros; contradiction|].
    intros A B C. destruct (NF A B) as [WF' [NN' [M8' [BL' [EN [ENN [EE EO]]]]]]].
    split.
    { unfold st_sim2. split; [exact OV1|]. split; [apply ENN; exact N0|].
      repeat match goal with |- _ /\ _ => split end; assumption. }
    split; [apply QB; assumption|].
    split.
    { destruct E5 as [Q|[Q|[Q|[Q|Q]]]]; try contradiction; auto. }
    rewrite (ENN N0). discriminate. }
  destruct err; try (apply NE; discriminate).
  (* ENone: the block is complete *)
  destruct (NF ltac:(discriminate) ltac:(discriminate)) as [WF' [NN' [M8' [BL' [EN _]]]]].
  destruct (EN eq_refl) as [KN PH'].
  replace (n - k) with 0 in RS by lia.
  exists (next_block bf (sync_upd bf len st' bs') bs'). rewrite next_st, sync_upd_olen.
  cbn [cfg_st].
  split; [eapply rt_trans; [exact RS | apply rt_step, rs_stored_end]|].
  split; [apply win_rel_sync; exact WR'|]. split; [lia|]. split; [lia|].
  split; [exact WL'|]. split; [lia|]. split; [unfold outLen in *; lia|].
  split; [exact I1|]. split; [auto|].
  intros _ _ _. split; [|split; [apply QB; assumption|split; [auto|]]].
  - apply sim_next2; try assumption. rewrite PH', BF. reflexivity.
  - rewrite PH'. destruct (bfinal s =? 1); discriminate.
Qed.

(* ---------------------------------------------------------------- the loop *)
Definition P2 (f : nat) : Prop :=
  forall s out w c,
    reach data c -> st_sim2 s c U -> win_rel out w (cfg_st c) -> w <= outLen ->
    loop_post2 s w c (decomp_loop f s out w).

Lemma blk_loop2 f s w c r :
  P2 f -> reach data c -> blk_post2 s w c r ->
  loop_post2 s w c
    (let '(s', out', w', err) := r in
     match err with
     | ENone => decomp_loop f s' out' w'
     | _ => (s', out', w', err)
     end).
Proof.
  intros IH R B. destruct r as [[[s' out'] w'] err]. unfold blk_post2 in B.
  destruct B as [B OC].
  destruct (flush_ov s' out' w') as [[s2 out2] w2] eqn:FL.
  destruct B as [c' [RS [WR [OL [W1 [W2 [W3 [W4 [IN [EN NF]]]]]]]]]].
  assert (NE : err <> ENone -> loop_post2 s w c (s', out', w', err)).
  { intros N0. unfold loop_post2. rewrite FL. split; [|exact OC]. exists c'.
    split; [exact RS|]. split; [exact WR|]. split; [lia|]. split; [exact W4|].
    split; [exact OL|]. split; [exact IN|].
    intros A B C. destruct (NF A B C) as [SIM [Q [T PD]]].
    split; [exact SIM|]. split; [exact Q|]. split; [exact T|].
    split; intros; contradiction. }
  destruct err; try (apply NE; discriminate).
  destruct (EN eq_refl) as [E1 [E2 E3]]. subst s2 out2 w2.
  destruct (NF ltac:(discriminate) ltac:(discriminate) eq_refl) as [SIM [Q _]].
  apply (loop_post2_trans s w c s' w' c'); try assumption.
  apply IH; try assumption.
  eapply rt_trans; [exact R | exact RS].
Qed.

Lemma body_ok2 f s out w c :
  P2 f -> reach data c -> st_sim2 s c U -> win_rel out w (cfg_st c) -> w <= outLen ->
  blockish c -> loop_post2 s w c (loop_body f s out w).
Proof.
  intros IH R SIM WR WL B. unfold loop_body.
  destruct c as [st S0 | bf lt dt st S0 | bf len n st S0 | st S0]; try contradiction;
    cbn [cfg_st] in WR.
  - assert (PH : phase s = phaseHeaderDecoded) by (destruct SIM as [_ [PH _]]; exact PH).
    rewrite PH. change (phaseHeaderDecoded =? phaseLitBlock) with false. cbv iota.
    apply (blk_loop2 f s w _ (decodeHuffman s out w)); [exact IH | exact R|].
    apply huff_step2; assumption.
  - assert (PH : phase s = phaseLitBlock) by (destruct SIM as [_ [PH _]]; exact PH).
    rewrite PH. change (phaseLitBlock =? phaseLitBlock) with true. cbv iota.
    apply (blk_loop2 f s w _ (decodeLiteralBlock s out w)); [exact IH | exact R|].
    apply stored_step2; assumption.
Qed.

Lemma loop_ok2 : forall f, P2 f.
Proof.
  induction f as [|f IH]; intros s out w c R SIM WR WL.
  - cbn [decomp_loop]. apply loop_post2_ret; try assumption; try reflexivity.
    + destruct SIM as [OV _]; exact OV.
    + intros _ A. contradiction.
    + apply oc_triv; [reflexivity | discriminate].
  - destruct c as [st S0 | bf lt dt st S0 | bf len n st S0 | st S0].
    + (* block boundary: readHeader *)
      assert (PH : phase s = phaseNewBlock \/ phase s = phaseDecodingHeader)
        by (destruct SIM as [_ [PH _]]; exact PH).
      rewrite (dl_block f s out w PH).
      pose proof (hdr_step2 st S0 s R SIM) as X.
      destruct (readHeader s) as [s1 e1].
      destruct X as [I1 [OV1 [HE [XN [XE XI]]]]].
      destruct e1; try (exfalso; exact HE).
      * destruct (XN eq_refl) as [Q [c1 [RS [CS [SIM1 B1]]]]].
        apply (loop_post2_trans s w _ s1 w c1); try assumption.
        -- apply rt_step; exact RS.
        -- rewrite CS. cbn [cfg_st]. lia.
        -- lia.
        -- apply body_ok2; try assumption.
           ++ eapply rt_trans; [exact R | apply rt_step; exact RS].
           ++ rewrite CS. exact WR.
      * destruct (XE eq_refl) as [SIM1 [Q [P1 [RI [RL BU]]]]].
        apply loop_post2_ret; try assumption.
        -- intros _ _ _. split; [exact SIM1|]. split; [exact Q|]. split; [auto|].
           split; [discriminate|]. intros _. auto.
        -- split; [intros A; discriminate | intros _; exact BU].
      * apply loop_post2_ret; try assumption.
        -- intros _ _ A. discriminate.
        -- split; [intros _; exact (XI eq_refl) | intros A; discriminate].
      * apply loop_post2_ret; try assumption.
        -- intros A. contradiction.
        -- apply oc_triv; [reflexivity | discriminate].
      * apply loop_post2_ret; try assumption.
        -- intros _ A. contradiction.
        -- apply oc_triv; [reflexivity | discriminate].
    + assert (PH : phase s = phaseHeaderDecoded) by (destruct SIM as [_ [PH _]]; exact PH).
      rewrite (dl_body f s out w (or_introl PH)).
      apply body_ok2; try assumption. exact I.
    + assert (PH : phase s = phaseLitBlock) by (destruct SIM as [_ [PH _]]; exact PH).
      rewrite (dl_body f s out w (or_intror PH)).
      apply body_ok2; try assumption. exact I.
    + assert (PH : phase s = phaseStreamEnd) by (destruct SIM as [_ [PH _]]; exact PH).
      rewrite (dl_end f s out w PH).
      apply loop_post2_ret; try assumption; try reflexivity.
      * destruct SIM as [OV _]; exact OV.
      * intros _ _ _. split; [exact SIM|]. split; [lia|]. split; [auto|].
        split; [intros _; exact PH|]. rewrite PH. discriminate.
      * apply oc_triv; [reflexivity | discriminate].
Qed.

End Decomp2.

(* ---------------------------------------------------------------- the theorem *)
Theorem decomp2 : decomp2_statement.
Proof.
  intros HRH HRN HRJ HDH HDO HLB HRI HRC HSR data fuel s out w c u FA R SIM WR WL.
  pose proof (loop_ok2 HRH HRN HRJ HDH HDO HLB HRI HRC HSR data u fuel s out w c R SIM WR WL)
    as X.
  unfold loop_post2 in X.
  destruct (decomp_loop fuel s out w) as [[[s' out'] w'] err].
  destruct (flush_ov s' out' w') as [[s2 out2] w2].
  destruct X as [[c' [RS [WR' [W1 [W2 [OL [IN NF]]]]]]] [OC1 OC2]].
  split; [|split; [exact OC1 | exact OC2]].
  assert (R' : reach data c') by (eapply rt_trans; [exact R | exact RS]).
  exists c'. split; [exact R'|]. split; [exact WR'|]. split; [exact W1|]. split; [exact W2|].
  split; [|split; [exact IN | exact NF]].
  destruct (rstar_rout _ _ RS) as [v E]. exists v. split; [exact E|].
  destruct (HRI data c R) as [_ [L1 _]]. destruct (HRI data c' R') as [_ [L2 _]].
  cbv zeta in L1, L2. rewrite E, app_length in L2. lia.
Qed.

Print Assumptions decomp2.
