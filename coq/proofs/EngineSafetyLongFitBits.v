(* EngineSafetyLongFitBits.v -- bit-level facts about the group key (low 12 bits of the stored,
   bit-reversed and expanded code) used by EngineSafetyLongFit.v.  The facts about bitReverse2 are
   checked exhaustively by computation (at most 2^15 code values per length). *)
From Verif Require Import Engine EngineTables.
From Verif Require Import Base EngineSafetyBase EngineSafetyBits EngineSafetyInv.
From Coq Require Import List NArith ZArith Bool Lia ZifyBool ZifyNat ZifyN.
Import ListNotations.
Open Scope N_scope.

Definition Nrange (n : nat) : list N := map N.of_nat (seq 0 n).

Lemma In_Nrange : forall n x, x < N.of_nat n -> In x (Nrange n).
Proof.
  intros n x H. unfold Nrange. apply in_map_iff. exists (N.to_nat x). split; [lia|].
  apply in_seq. lia.
Qed.

Lemma forallb_Nrange : forall (f : N -> bool) n x,
  forallb f (Nrange n) = true -> x < N.of_nat n -> f x = true.
Proof.
  intros f n x H Hx. rewrite forallb_forall in H. apply H. apply In_Nrange. exact Hx.
Qed.

(* ---------------------------------------------------------------- lengths 13..15 *)
(* key of the block b (b < 4096) of the codes of length l: the low 12 bits of the reversed code
   depend only on the 12 leading bits c / 2^(l-12) of the code c *)
Definition Fkey (l b : N) : N := N.land (bitReverse2 (b * 2 ^ (l - 12)) l) 4095.

Definition check_high (l : N) : bool :=
  forallb (fun c => N.land (bitReverse2 c l) 4095 =? Fkey l (c / 2 ^ (l - 12)))
          (Nrange (N.to_nat (2 ^ l))) &&
  forallb (fun b => Bool.eqb (Fkey l b =? 4095) (b =? 4095)) (Nrange 4096).

Lemma check_high_13 : check_high 13 = true. Proof. vm_compute. reflexivity. Qed.
Lemma check_high_14 : check_high 14 = true. Proof. vm_compute. reflexivity. Qed.
Lemma check_high_15 : check_high 15 = true. Proof. vm_compute. reflexivity. Qed.

Lemma check_high_all : forall l, 13 <= l <= 15 -> check_high l = true.
Proof.
  intros l Hl.
  assert (H : l = 13 \/ l = 14 \/ l = 15) by lia.
  destruct H as [->|[->| ->]]; [exact check_high_13|exact check_high_14|exact check_high_15].
Qed.

Lemma key_high : forall l c, 13 <= l <= 15 -> c < 2 ^ l ->
  N.land (bitReverse2 c l) 4095 = Fkey l (c / 2 ^ (l - 12)).
Proof.
  intros l c Hl Hc. pose proof (check_high_all l Hl) as H. unfold check_high in H.
  apply andb_prop in H. destruct H as [H _].
  pose proof (forallb_Nrange _ _ c H) as H1. cbv beta in H1.
  rewrite N2Nat.id in H1. specialize (H1 Hc). lia.
Qed.

Lemma Fkey_4095 : forall l b, 13 <= l <= 15 -> b < 4096 -> (Fkey l b = 4095 <-> b = 4095).
Proof.
  intros l b Hl Hb. pose proof (check_high_all l Hl) as H. unfold check_high in H.
  apply andb_prop in H. destruct H as [_ H].
  pose proof (forallb_Nrange _ _ b H) as H1. cbv beta in H1.
  change (N.of_nat 4096) with 4096 in H1. specialize (H1 Hb).
  apply Bool.eqb_prop in H1.
  split; intro Hx.
  - assert (Hy : (Fkey l b =? 4095) = true) by (apply N.eqb_eq; exact Hx).
    rewrite H1 in Hy. apply N.eqb_eq. exact Hy.
  - assert (Hy : (b =? 4095) = true) by (apply N.eqb_eq; exact Hx).
    rewrite <- H1 in Hy. apply N.eqb_eq. exact Hy.
Qed.

(* ---------------------------------------------------------------- lengths 1..12 *)
Definition check_low (l : N) : bool :=
  forallb (fun c => (bitReverse2 c l <? 2 ^ l) &&
                    (negb (bitReverse2 c l =? 2 ^ l - 1) || (c =? 2 ^ l - 1)))
          (Nrange (N.to_nat (2 ^ l))).

Lemma check_low_all : forallb check_low (map N.of_nat (seq 1 12)) = true.
Proof. vm_compute. reflexivity. Qed.

Lemma key_low : forall l c, 1 <= l <= 12 -> c < 2 ^ l ->
  bitReverse2 c l < 2 ^ l /\ (bitReverse2 c l = 2 ^ l - 1 -> c = 2 ^ l - 1).
Proof.
  intros l c Hl Hc. pose proof check_low_all as H. rewrite forallb_forall in H.
  specialize (H l). assert (Hin : In l (map N.of_nat (seq 1 12))).
  { apply in_map_iff. exists (N.to_nat l). split; [lia|]. apply in_seq. lia. }
  specialize (H Hin). unfold check_low in H.
  pose proof (forallb_Nrange _ _ c H) as H1. cbv beta in H1.
  rewrite N2Nat.id in H1. specialize (H1 Hc).
  apply andb_prop in H1. destruct H1 as [H1 H2].
  split; [lia|]. intro Heq.
  apply orb_prop in H2. destruct H2 as [H2|H2].
  - apply negb_true_iff in H2. apply N.eqb_neq in H2. contradiction.
  - apply N.eqb_eq. exact H2.
Qed.

(* ---------------------------------------------------------------- a | (x << l) *)
Lemma land_lor_shiftl_high : forall a x l, 12 <= l ->
  N.land (N.lor a (N.shiftl x l)) 4095 = N.land a 4095.
Proof.
  intros a x l Hl. apply N.bits_inj. intro n.
  rewrite !N.land_spec, N.lor_spec. change 4095 with (N.ones 12).
  destruct (N.lt_ge_cases n 12) as [Hlt|Hge].
  - rewrite N.shiftl_spec_low by lia. rewrite orb_false_r. reflexivity.
  - rewrite N.ones_spec_high by exact Hge. rewrite !andb_false_r. reflexivity.
Qed.

(* for l <= 12 only the low 12 - l bits of x matter *)
Lemma land_lor_shiftl_low : forall a x l, l <= 12 ->
  N.land (N.lor a (N.shiftl x l)) 4095 =
  N.land (N.lor a (N.shiftl (x mod 2 ^ (12 - l)) l)) 4095.
Proof.
  intros a x l Hl. apply N.bits_inj. intro n.
  rewrite !N.land_spec, !N.lor_spec. change 4095 with (N.ones 12).
  destruct (N.lt_ge_cases n 12) as [Hlt|Hge].
  - rewrite N.ones_spec_low by exact Hlt. rewrite !andb_true_r. f_equal.
    destruct (N.lt_ge_cases n l) as [Hnl|Hnl].
    + rewrite !N.shiftl_spec_low by exact Hnl. reflexivity.
    + rewrite !N.shiftl_spec_high by lia.
      rewrite <- N.land_ones. rewrite N.land_spec.
      rewrite N.ones_spec_low by lia. rewrite andb_true_r. reflexivity.
  - rewrite N.ones_spec_high by exact Hge. rewrite !andb_false_r. reflexivity.
Qed.

(* the low l bits of a | (x << l) are a *)
Lemma key_low_ones : forall a x l, l <= 12 -> a < 2 ^ l ->
  N.land (N.lor a (N.shiftl x l)) 4095 = 4095 -> a = 2 ^ l - 1.
Proof.
  intros a x l Hl Ha H.
  assert (H1 : N.land (N.land (N.lor a (N.shiftl x l)) 4095) (N.ones l) = N.land 4095 (N.ones l))
    by (rewrite H; reflexivity).
  rewrite <- N.land_assoc in H1.
  assert (H2 : N.land 4095 (N.ones l) = N.ones l).
  { apply N.bits_inj. intro n. rewrite N.land_spec. change 4095 with (N.ones 12).
    destruct (N.lt_ge_cases n l) as [Hlt|Hge].
    - rewrite !N.ones_spec_low by lia. reflexivity.
    - rewrite (N.ones_spec_high l n) by exact Hge. apply andb_false_r. }
  rewrite H2 in H1. rewrite land_ones_lor_shiftl in H1 by exact Ha.
  rewrite H1. rewrite N.ones_equiv. lia.
Qed.
