(* GzEngineExamples.v -- the gzip / zlib reader model on concrete inputs (vm_compute); the same
   vectors are in /verif/harness-gz/regress.txt, where the real code is run on them.
   Result codes: 0 nil, 1 io.EOF, 2 io.ErrUnexpectedEOF, 3 flate.CorruptInputError, 4 source error,
   9 gzip.ErrHeader, 10 gzip.ErrChecksum, 11 zlib.ErrHeader, 12 zlib.ErrChecksum, 13 zlib.ErrDictionary. *)
From Coq Require Import List NArith ZArith Bool.
From Verif Require Import Containers.
From Verif Require Import Base Engine EngineReset GzEngine.
Import ListNotations.
Open Scope N_scope.

Definition gzA : list N := [31; 139; 8; 0; 5; 0; 0; 0; 0; 3; 203; 72; 205; 201; 201; 87; 200; 64; 144; 0; 128; 136; 249; 229; 17; 0; 0; 0].   (* gzip of "hello hello hello", MTIME 5 *)
Definition gzB : list N := [31; 139; 8; 30; 0; 0; 0; 0; 0; 3; 0; 0; 110; 233; 0; 99; 0; 46; 192; 43; 78; 77; 206; 207; 75; 1; 0; 105; 17; 31; 182; 6; 0; 0; 0].   (* FEXTRA (XLEN 0) FNAME "n\xe9" FCOMMENT "c" FHCRC; payload "second" *)
Definition gzBbad : list N := [31; 139; 8; 30; 0; 0; 0; 0; 0; 3; 0; 0; 110; 233; 0; 99; 0; 47; 192; 43; 78; 77; 206; 207; 75; 1; 0; 105; 17; 31; 182; 6; 0; 0; 0].   (* one bit of the header CRC flipped *)
Definition helloP : list N := [104; 101; 108; 108; 111; 32; 104; 101; 108; 108; 111; 32; 104; 101; 108; 108; 111].
Definition secondP : list N := [115; 101; 99; 111; 110; 100].
Definition zlA : list N := [120; 156; 43; 44; 205; 76; 206; 86; 72; 203; 175; 80; 40; 132; 177; 0; 72; 153; 7; 53].   (* zlib of "quick fox quick fox" *)
Definition zlAbad : list N := [120; 156; 43; 44; 205; 76; 206; 86; 72; 203; 175; 80; 40; 132; 177; 0; 72; 153; 7; 52].   (* last Adler-32 byte damaged *)
Definition zdict : list N := [116; 104; 101; 32; 113; 117; 105; 99; 107; 32; 98; 114; 111; 119; 110; 32; 102; 111; 120].
Definition zlD : list N := [120; 187; 71; 142; 7; 52; 131; 112; 129; 12; 5; 4; 43; 171; 52; 183; 160; 24; 0; 123; 23; 9; 132].   (* FDICT, dictionary zdict *)
Definition quickP : list N := [113; 117; 105; 99; 107; 32; 102; 111; 120; 32; 113; 117; 105; 99; 107; 32; 102; 111; 120].
Definition quickD : list N := [113; 117; 105; 99; 107; 32; 102; 111; 120; 32; 113; 117; 105; 99; 107; 32; 102; 111; 120; 32; 106; 117; 109; 112; 115].

(* one member, all at once: payload, then io.EOF; 28 bytes consumed; Header.ModTime 5, OS 3 *)
Example gz_one : gzrun_obs 4096 [gzA] false true [100; 100] =
  (0, mkHdr [] None 5 [] 3, [(helloP, 1); ([], 1)], 28).
Proof. vm_compute. reflexivity. Qed.

(* two members through a 16-byte bufio.Reader, 5-byte source reads: concatenated payloads *)
Example gz_two : let '(c, _, l, n) := gzrun_obs 16 [firstn 5 (gzA ++ gzB); skipn 5 (gzA ++ gzB)] false true [1000; 1000; 1000] in
  (c, concat (map fst l), map snd l, n) = (0, helloP ++ secondP, [0; 0; 1], 63).
Proof. vm_compute. reflexivity. Qed.

(* Multistream(false): io.EOF after the first member, the source is left just behind its trailer *)
Example gz_single : gzrun_obs 4096 [gzA ++ gzB] false false [100; 100] =
  (0, mkHdr [] None 5 [] 3, [(helloP, 1); ([], 1)], 28).
Proof. vm_compute. reflexivity. Qed.

(* every optional header field: Extra is the empty non-nil slice, Name is UTF-8 of Latin-1 *)
Example gz_fields : gzrun_obs 4096 [gzB] false true [100] =
  (0, mkHdr [99] (Some []) 0 [110; 195; 169] 3, [(secondP, 1)], 35).
Proof. vm_compute. reflexivity. Qed.

(* header CRC mismatch: gzip.ErrHeader from NewReader *)
Example gz_hcrc_bad : let '(c, _, l, _) := gzrun_obs 17 [gzBbad] false true [100] in (c, l) = (9, []).
Proof. vm_compute. reflexivity. Qed.

(* trailer cut short: the payload, then io.ErrUnexpectedEOF (sticky); a failing source: its error *)
Example gz_trunc_trailer : let '(c, _, l, _) := gzrun_obs 4096 [removelast gzA] false true [100; 100] in
  (c, l) = (0, [(helloP, 2); ([], 2)]).
Proof. vm_compute. reflexivity. Qed.
Example gz_src_err : let '(c, _, l, _) := gzrun_obs 4096 [removelast gzA] true true [100; 100] in
  (c, l) = (0, [(helloP, 4); ([], 4)]).
Proof. vm_compute. reflexivity. Qed.

(* a damaged CRC-32 in the trailer: gzip.ErrChecksum *)
Example gz_bad_crc : let '(c, _, l, _) := gzrun_obs 4096 [firstn 20 gzA ++ [0] ++ skipn 21 gzA] false true [100; 100] in
  (c, map snd l) = (0, [10; 10]).
Proof. vm_compute. reflexivity. Qed.

(* empty input: io.EOF from NewReader *)
Example gz_empty : let '(c, _, l, n) := gzrun_obs 4096 [] false true [100] in (c, l, n) = (1, [], 0).
Proof. vm_compute. reflexivity. Qed.

(* zlib *)
Example zl_one : zlrun_obs 4096 [zlA] false None [5; 100; 100] =
  (0, [(firstn 5 quickP, 0); (skipn 5 quickP, 1); ([], 1)], 20).
Proof. vm_compute. reflexivity. Qed.
Example zl_bad_sum : let '(c, l, _) := zlrun_obs 16 [zlAbad] false None [100; 100] in
  (c, map snd l) = (0, [12; 12]).
Proof. vm_compute. reflexivity. Qed.
(* FDICT: right dictionary (standard library's inflater, modelled by the reference inflater),
   wrong dictionary, none *)
Example zl_dict : zlrun_obs 16 [zlD] false (Some zdict) [100; 100] = (0, [(quickD, 1); ([], 1)], 23).
Proof. vm_compute. reflexivity. Qed.
Example zl_dict_wrong : zlrun_obs 16 [zlD] false (Some (zdict ++ [33])) [100] = (13, [], 6).
Proof. vm_compute. reflexivity. Qed.
Example zl_dict_none : zlrun_obs 16 [zlD] false None [100] = (13, [], 6).
Proof. vm_compute. reflexivity. Qed.

