(* InflateMono.v — proofs of the statements of Spec/InflateSpec.v about the reference inflater. *)
From Verif Require Import InflateSpec.
From Coq Require Import Lia ZifyBool ZifyNat ZifyN.
Open Scope N_scope.

(* ------------------------------------------------------------------ *)
(* Streams: extension by more bits, and "r is a later point of s"      *)
(* ------------------------------------------------------------------ *)

Definition ext (e : list bool) (s : bs) : bs := mkbs (bl s ++ e) (bp s).

Definition blen (s : bs) : nat := length (bl s).

(* r is reached from s by consuming bits of s *)
Definition after (s r : bs) : Prop :=
  (blen r <= blen s)%nat /\ bp r + N.of_nat (blen r) = bp s + N.of_nat (blen s).

Lemma after_refl s : after s s.
Proof. unfold after; lia. Qed.

Lemma after_trans a b c : after a b -> after b c -> after a c.
Proof. unfold after; lia. Qed.

Lemma blen_ext e s : blen (ext e s) = (blen s + length e)%nat.
Proof. unfold blen, ext; cbn [bl]. apply app_length. Qed.

Lemma bp_ext e s : bp (ext e s) = bp s.
Proof. reflexivity. Qed.

(* ------------------------------------------------------------------ *)
(* take1 / take                                                        *)
(* ------------------------------------------------------------------ *)

Lemma take1_len s :
  match take1 s with
  | Some (_, r) => blen s = S (blen r) /\ bp r = bp s + 1
  | None => True
  end.
Proof.
  destruct s as [l p]; unfold take1, blen; cbn [bl bp].
  destruct l as [|b l]; cbn [bl bp length]; auto.
Qed.

Lemma take1_ext e s :
  match take1 s with
  | Some (b, r) => take1 (ext e s) = Some (b, ext e r)
  | None => match take1 (ext e s) with
            | Some (_, r') => (blen r' < length e)%nat
            | None => True
            end
  end.
Proof.
  destruct s as [l p]; unfold take1, ext, blen; cbn [bl bp].
  destruct l as [|b l]; cbn [app bl bp].
  - destruct e as [|b e]; cbn [bl length]; auto.
  - reflexivity.
Qed.

Lemma take_len n s :
  match take n s with
  | Some (_, r) => blen s = (n + blen r)%nat /\ bp r = bp s + N.of_nat n
  | None => True
  end.
Proof.
  revert s; induction n as [|n IH]; intros s; cbn [take].
  - split; [reflexivity | lia].
  - pose proof (take1_len s) as H1.
    destruct (take1 s) as [[b s1]|]; [|exact I].
    specialize (IH s1).
    destruct (take n s1) as [[v s2]|]; [|exact I].
    lia.
Qed.

Lemma take_ext e n s :
  match take n s with
  | Some (v, r) => take n (ext e s) = Some (v, ext e r)
  | None => match take n (ext e s) with
            | Some (_, r') => (blen r' < length e)%nat
            | None => True
            end
  end.
Proof.
  revert s; induction n as [|n IH]; intros s; cbn [take].
  - reflexivity.
  - pose proof (take1_ext e s) as H1.
    destruct (take1 s) as [[b s1]|].
    + rewrite H1. specialize (IH s1).
      destruct (take n s1) as [[v s2]|].
      * rewrite IH. reflexivity.
      * destruct (take n (ext e s1)) as [[v' r']|]; auto.
    + destruct (take1 (ext e s)) as [[b' r1]|]; [|exact I].
      pose proof (take_len n r1) as H2.
      destruct (take n r1) as [[v' r']|]; [|exact I].
      lia.
Qed.

(* ------------------------------------------------------------------ *)
(* decode_sym                                                          *)
(* ------------------------------------------------------------------ *)

Definition nonleaf (t : trie) : Prop :=
  match t with TLeaf _ => False | _ => True end.

Lemma decode_len t s :
  match decode_sym t s with
  | DOk _ r => after s r /\ (nonleaf t -> (blen r < blen s)%nat)
  | _ => True
  end.
Proof.
  revert s; induction t as [|x|t0 IH0 t1 IH1]; intros s; cbn [decode_sym].
  - exact I.
  - split; [apply after_refl | intros []].
  - pose proof (take1_len s) as H1.
    destruct (take1 s) as [[b s1]|]; [|exact I].
    assert (H : match decode_sym (if b then t1 else t0) s1 with
                | DOk _ r => after s1 r /\ (nonleaf (if b then t1 else t0) -> (blen r < blen s1)%nat)
                | _ => True end) by (destruct b; [apply IH1 | apply IH0]).
    destruct (decode_sym (if b then t1 else t0) s1) as [v r| |]; auto.
    unfold after in *. split; [lia|intros _; lia].
Qed.

Lemma decode_ext e t s :
  match decode_sym t s with
  | DOk v r => decode_sym t (ext e s) = DOk v (ext e r)
  | DBad => decode_sym t (ext e s) = DBad
  | DNeed => match decode_sym t (ext e s) with
             | DOk _ r' => (blen r' < length e)%nat
             | _ => True
             end
  end.
Proof.
  revert s; induction t as [|x|t0 IH0 t1 IH1]; intros s; cbn [decode_sym].
  - reflexivity.
  - reflexivity.
  - pose proof (take1_ext e s) as H1.
    destruct (take1 s) as [[b s1]|].
    + rewrite H1. destruct b; [apply IH1 | apply IH0].
    + destruct (take1 (ext e s)) as [[b' r1]|]; [|exact I].
      pose proof (decode_len (if b' then t1 else t0) r1) as H2.
      destruct (decode_sym (if b' then t1 else t0) r1) as [v r| |]; auto.
      unfold after in H2. lia.
Qed.

(* ------------------------------------------------------------------ *)
(* tries built by mktrie are never a single leaf                       *)
(* ------------------------------------------------------------------ *)

Lemma tinsert_nonleaf t code x t' :
  code <> [] -> nonleaf t -> tinsert t code x = Some t' -> nonleaf t'.
Proof.
  intros Hc Ht H. destruct code as [|b r]; [congruence|].
  cbn [tinsert] in H. destruct t as [|y|t0 t1]; [| destruct Ht |].
  - destruct (tinsert TEmpty r x) as [t2|]; [|discriminate].
    inversion H; subst. destruct b; exact I.
  - destruct b.
    + destruct (tinsert t1 r x) as [t2|]; [|discriminate]. inversion H; subst; exact I.
    + destruct (tinsert t0 r x) as [t2|]; [|discriminate]. inversion H; subst; exact I.
Qed.

Lemma code_bits_nonempty len c : len <> 0%nat -> code_bits len c <> [].
Proof.
  intros Hl H. apply (f_equal (@length bool)) in H.
  unfold code_bits, frev in H. rewrite rev_append_rev, app_nil_r, rev_length in H.
  destruct len as [|n]; [congruence|]. cbn in H. discriminate.
Qed.

Lemma build_nonleaf cs : forall t t',
  Forall (fun e : nat * nat * N => snd (fst e) <> 0%nat) cs ->
  nonleaf t -> build cs t = Some t' -> nonleaf t'.
Proof.
  induction cs as [|[[x len] c] cs IH]; intros t t' Hall Ht H; cbn [build] in H.
  - inversion H; subst; exact Ht.
  - inversion Hall as [|e l Hhd Htl]; subst. cbn [fst snd] in Hhd.
    destruct (tinsert t (code_bits len c) x) as [t1|] eqn:E; [|discriminate].
    apply (IH t1 t' Htl); [|exact H].
    eapply tinsert_nonleaf; [apply code_bits_nonempty; exact Hhd | exact Ht | exact E].
Qed.

Lemma assign_pos l : forall sym nc,
  Forall (fun e : nat * nat * N => snd (fst e) <> 0%nat) (assign l sym nc).
Proof.
  induction l as [|x r IH]; intros sym nc; cbn [assign].
  - constructor.
  - destruct (Nat.eqb x 0) eqn:E.
    + apply IH.
    + constructor; [|apply IH]. cbn [fst snd]. apply Nat.eqb_neq; exact E.
Qed.

Lemma mktrie_nonleaf maxl l t : mktrie maxl l = Some t -> nonleaf t.
Proof.
  unfold mktrie. destruct (oversubscribed maxl l); [discriminate|].
  intros H. apply (build_nonleaf (canon l) TEmpty t); [unfold canon; apply assign_pos | exact I | exact H].
Qed.

(* ------------------------------------------------------------------ *)
(* header parsers                                                      *)
(* ------------------------------------------------------------------ *)

Definition hlen {A} (s : bs) (r : hres A) : Prop :=
  match r with HOk _ r' => after s r' | HStop _ => True end.

Definition hext {A} (e : list bool) (r1 r2 : hres A) : Prop :=
  match r1 with
  | HOk v r => r2 = HOk v (ext e r)
  | HStop NeedInput => match r2 with HOk _ r' => (blen r' < length e)%nat | HStop _ => True end
  | HStop x => r2 = HStop x
  end.

Lemma read_clens_len n : forall s, hlen s (read_clens n s).
Proof.
  induction n as [|n IH]; intros s; cbn [read_clens hlen].
  - apply after_refl.
  - pose proof (take_len 3 s) as H1.
    destruct (take 3 s) as [[v s1]|]; [|exact I].
    specialize (IH s1). destruct (read_clens n s1) as [l s2|x]; [|exact I].
    cbn [hlen] in *. unfold after in *. lia.
Qed.

Lemma read_clens_ext e n : forall s, hext e (read_clens n s) (read_clens n (ext e s)).
Proof.
  induction n as [|n IH]; intros s; cbn [read_clens].
  - reflexivity.
  - pose proof (take_ext e 3 s) as H1.
    destruct (take 3 s) as [[v s1]|].
    + rewrite H1. specialize (IH s1).
      destruct (read_clens n s1) as [l s2|x]; cbn [hext] in *.
      * rewrite IH. reflexivity.
      * destruct x; try (rewrite IH; reflexivity).
        destruct (read_clens n (ext e s1)) as [l' r'|y]; auto.
    + cbn [hext].
      destruct (take 3 (ext e s)) as [[v' r1]|]; [|exact I].
      pose proof (read_clens_len n r1) as H2.
      destruct (read_clens n r1) as [l' r'|y]; [|exact I].
      cbn [hlen] in H2. unfold after in H2. lia.
Qed.

Ltac d_what K :=
  try match goal with |- context[match ?w with Some _ => _ | None => HStop Corrupt end] =>
        destruct w as [?v|]; [|K] end.
Ltac d_lt t K :=
  try match goal with |- context[(S t <? ?n)%nat] => destruct (S t <? n)%nat eqn:?E; [K|] end.

Lemma read_lens_len f ct : forall total acc s, hlen s (read_lens f ct total acc s).
Proof.
  induction f as [|f IH]; intros total acc s; destruct total as [|t]; cbn [read_lens hlen];
    try apply after_refl; try exact I.
  pose proof (decode_len ct s) as H1.
  destruct (decode_sym ct s) as [sym s1| |]; try exact I.
  destruct H1 as [H1 _].
  destruct (sym <? 16)%nat.
  { specialize (IH (S t - 1)%nat (sym :: acc) s1).
    destruct (read_lens f ct (S t - 1) (sym :: acc) s1); [|exact I].
    cbn [hlen] in *. eapply after_trans; eauto. }
  destruct (sym =? 16)%nat; [|destruct (sym =? 17)%nat];
  (match goal with |- context[take ?n s1] =>
     pose proof (take_len n s1) as H2; destruct (take n s1) as [[ev s2]|]; [|exact I] end);
  d_what ltac:(exact I); d_lt t ltac:(exact I);
  (match goal with |- context[read_lens f ct ?a ?b ?x] =>
     specialize (IH a b x); destruct (read_lens f ct a b x); [|exact I] end);
  cbn [hlen] in *; unfold after in *; lia.
Qed.

Lemma read_lens_nf f ct : forall total acc s,
  (total <= f)%nat -> read_lens f ct total acc s <> HStop Fuel.
Proof.
  induction f as [|f IH]; intros total acc s Hle; destruct total as [|t]; cbn [read_lens];
    try discriminate; try lia.
  destruct (decode_sym ct s) as [sym s1| |]; try discriminate.
  destruct (sym <? 16)%nat.
  { apply IH; lia. }
  destruct (sym =? 16)%nat; [|destruct (sym =? 17)%nat];
  (match goal with |- context[take ?n s1] =>
     destruct (take n s1) as [[ev s2]|]; [|discriminate] end);
  d_what ltac:(discriminate); d_lt t ltac:(discriminate);
  apply IH; lia.
Qed.

Lemma read_lens_ext e f ct : forall total acc s,
  hext e (read_lens f ct total acc s) (read_lens f ct total acc (ext e s)).
Proof.
  induction f as [|f IH]; intros total acc s; destruct total as [|t]; cbn [read_lens hext];
    try reflexivity.
  pose proof (decode_ext e ct s) as H1.
  destruct (decode_sym ct s) as [sym s1| |].
  - rewrite H1.
    destruct (sym <? 16)%nat; [apply IH|].
    destruct (sym =? 16)%nat; [|destruct (sym =? 17)%nat];
    ((match goal with |- context[take ?n s1] =>
       pose proof (take_ext e n s1) as H2; destruct (take n s1) as [[ev s2]|] end);
    [ rewrite H2; d_what ltac:(reflexivity); d_lt t ltac:(reflexivity); apply IH
    | cbn [hext];
      (match goal with |- context[take ?n (ext e s1)] =>
         destruct (take n (ext e s1)) as [[ev' r1]|]; [|exact I] end);
      d_what ltac:(exact I); d_lt t ltac:(exact I);
      (match goal with |- context[read_lens f ct ?a ?b ?x] =>
         pose proof (read_lens_len f ct a b x) as H3; destruct (read_lens f ct a b x); [|exact I] end);
      cbn [hlen] in H3; unfold after in H3; lia ]).
  - cbn [hext].
    pose proof (decode_len ct (ext e s)) as H0.
    destruct (decode_sym ct (ext e s)) as [sym r0| |]; try exact I.
    destruct H0 as [H0 _].
    destruct (sym <? 16)%nat.
    { match goal with |- context[read_lens f ct ?a ?b r0] =>
           pose proof (read_lens_len f ct a b r0) as H3; destruct (read_lens f ct a b r0); [|exact I] end.
      cbn [hlen] in H3; unfold after in H3; lia. }
    destruct (sym =? 16)%nat; [|destruct (sym =? 17)%nat];
    (match goal with |- context[take ?n r0] =>
       pose proof (take_len n r0) as H2; destruct (take n r0) as [[ev' r1]|]; [|exact I] end);
    d_what ltac:(exact I); d_lt t ltac:(exact I);
    (match goal with |- context[read_lens f ct ?a ?b ?x] =>
       pose proof (read_lens_len f ct a b x) as H3; destruct (read_lens f ct a b x); [|exact I] end);
    cbn [hlen] in H3; unfold after in H3; lia.
  - rewrite H1. reflexivity.
Qed.

Lemma read_clens_nf n : forall s, read_clens n s <> HStop Fuel.
Proof.
  induction n as [|n IH]; intros s; cbn [read_clens]; [discriminate|].
  destruct (take 3 s) as [[v s1]|]; [|discriminate].
  specialize (IH s1). destruct (read_clens n s1) as [l s2|x]; [discriminate|].
  congruence.
Qed.

(* destruct the next parser call met in the goal, recording how far it moved *)
Ltac need_step :=
  match goal with
  | |- context[match take ?n ?s with _ => _ end] =>
      let H := fresh "HL" in pose proof (take_len n s) as H; destruct (take n s) as [[? ?]|]
  | |- context[match decode_sym ?t ?s with _ => _ end] =>
      let H := fresh "HL" in pose proof (decode_len t s) as H; destruct (decode_sym t s) as [? ?| |]
  | |- context[match read_clens ?n ?s with _ => _ end] =>
      let H := fresh "HL" in pose proof (read_clens_len n s) as H; destruct (read_clens n s) as [? ?|?]
  | |- context[match read_lens ?f ?ct ?t ?a ?s with _ => _ end] =>
      let H := fresh "HL" in pose proof (read_lens_len f ct t a s) as H;
      destruct (read_lens f ct t a s) as [? ?|?]
  | |- context[match mktrie ?m ?l with _ => _ end] => destruct (mktrie m l)
  | |- context[match nth_error ?l ?n with _ => _ end] => destruct (nth_error l n) as [[? ?]|]
  | |- context[if ?b then _ else _] => destruct b
  end.

Ltac need_fin :=
  repeat need_step; cbn [hlen] in *; unfold after in *; try exact I; try lia.

Lemma dyn_header_len s : hlen s (dyn_header s).
Proof. unfold dyn_header. need_fin. Qed.

Lemma dyn_header_nf s : dyn_header s <> HStop Fuel.
Proof.
  unfold dyn_header.
  destruct (take 5 s) as [[hlit s1]|]; [|discriminate].
  destruct (take 5 s1) as [[hdist s2]|]; [|discriminate].
  destruct (take 4 s2) as [[hclen s3]|]; [|discriminate].
  destruct ((29 <? hlit) || (29 <? hdist)); [discriminate|].
  pose proof (read_clens_nf (N.to_nat hclen + 4) s3) as H1.
  destruct (read_clens (N.to_nat hclen + 4) s3) as [cl s4|x]; [|congruence].
  destruct (mktrie 7 _) as [ct|]; [|discriminate].
  match goal with |- context[read_lens ?f ct ?t ?a s4] =>
    pose proof (read_lens_nf f ct t a s4 (le_n _)) as H2; destruct (read_lens f ct t a s4) as [al s5|x] end;
    [|congruence].
  destruct (_ =? 0)%nat; [discriminate|].
  destruct (mktrie 15 _); [|discriminate]. destruct (mktrie 15 _); discriminate.
Qed.

Lemma dyn_header_nonleaf s lt dt r : dyn_header s = HOk (lt, dt) r -> nonleaf lt.
Proof.
  unfold dyn_header.
  destruct (take 5 s) as [[hlit s1]|]; [|discriminate].
  destruct (take 5 s1) as [[hdist s2]|]; [|discriminate].
  destruct (take 4 s2) as [[hclen s3]|]; [|discriminate].
  destruct ((29 <? hlit) || (29 <? hdist)); [discriminate|].
  destruct (read_clens (N.to_nat hclen + 4) s3) as [cl s4|x]; [|discriminate].
  destruct (mktrie 7 _) as [ct|]; [|discriminate].
  destruct (read_lens _ ct _ _ s4) as [al s5|x]; [|discriminate].
  destruct (_ =? 0)%nat; [discriminate|].
  destruct (mktrie 15 (firstn (N.to_nat hlit + 257) al)) as [lt'|] eqn:E1; [|discriminate].
  destruct (mktrie 15 (skipn (N.to_nat hlit + 257) al)) as [dt'|]; [|discriminate].
  intros H; inversion H; subst. eapply mktrie_nonleaf; exact E1.
Qed.

(* one step of an extension proof: the parser at the head of the run on s *)
Ltac ext_step e :=
  match goal with
  | |- ?R e (match take ?n ?s with _ => _ end) _ =>
      let H := fresh "HE" in let H' := fresh "HL" in
      pose proof (take_ext e n s) as H; pose proof (take_len n s) as H';
      destruct (take n s) as [[? ?]|]; [rewrite H; clear H|]
  | |- ?R e (match decode_sym ?t ?s with _ => _ end) _ =>
      let H := fresh "HE" in let H' := fresh "HL" in
      pose proof (decode_ext e t s) as H; pose proof (decode_len t s) as H';
      destruct (decode_sym t s) as [? ?| |]; [rewrite H; clear H| |rewrite H; clear H]
  | |- ?R e (match read_clens ?n ?s with _ => _ end) _ =>
      let H := fresh "HE" in let H' := fresh "HL" in
      pose proof (read_clens_ext e n s) as H; pose proof (read_clens_len n s) as H';
      destruct (read_clens n s) as [? ?|[| | |]]; cbn [hext] in H;
      [rewrite H; clear H| rewrite H; clear H| |rewrite H; clear H|rewrite H; clear H]
  | |- ?R e (match read_lens ?f ?ct ?t ?a ?s with _ => _ end) _ =>
      let H := fresh "HE" in let H' := fresh "HL" in
      pose proof (read_lens_ext e f ct t a s) as H; pose proof (read_lens_len f ct t a s) as H';
      destruct (read_lens f ct t a s) as [? ?|[| | |]]; cbn [hext] in H;
      [rewrite H; clear H| rewrite H; clear H| |rewrite H; clear H|rewrite H; clear H]
  | |- ?R e (match mktrie ?m ?l with _ => _ end) _ => destruct (mktrie m l)
  | |- ?R e (match nth_error ?l ?n with _ => _ end) _ => destruct (nth_error l n) as [[? ?]|]
  | |- ?R e (if ?b then _ else _) _ => destruct b
  end.

Lemma dyn_header_ext e s : hext e (dyn_header s) (dyn_header (ext e s)).
Proof.
  unfold dyn_header.
  repeat ext_step e; try reflexivity; cbn [hext]; need_fin.
Qed.

(* ------------------------------------------------------------------ *)
(* output state                                                        *)
(* ------------------------------------------------------------------ *)

Definition grows (a b : ostate) : Prop :=
  (exists u, rout b = u ++ rout a) /\ oavail b - olen b = oavail a - olen a /\ omax a <= omax b.

Lemma grows_refl a : grows a a.
Proof. split; [exists []; reflexivity | split; lia]. Qed.

Lemma grows_trans a b c : grows a b -> grows b c -> grows a c.
Proof.
  intros [[u Hu] [H1 H2]] [[v Hv] [H3 H4]]. split; [|split; lia].
  exists (v ++ u). rewrite Hv, Hu, app_assoc. reflexivity.
Qed.

Lemma grows_push b st : grows st (push b st).
Proof.
  unfold push, grows; cbn [rout olen oavail omax]. split; [exists [b]; reflexivity | split; lia].
Qed.

Lemma grows_copy_cyc seg : forall len cur st, grows st (copy_cyc seg cur len st).
Proof.
  induction len as [|l IH]; intros cur st; cbn [copy_cyc]; [apply grows_refl|].
  destruct cur as [|b cur'].
  - destruct seg as [|b s']; [apply grows_refl|].
    eapply grows_trans; [apply grows_push | apply IH].
  - eapply grows_trans; [apply grows_push | apply IH].
Qed.

Lemma grows_copy_match len d st : grows st (copy_match len d st).
Proof.
  unfold copy_match.
  match goal with |- context[copy_cyc ?seg ?cur ?n st] =>
    pose proof (grows_copy_cyc seg n cur st) as H; set (st' := copy_cyc seg cur n st) in * end.
  destruct H as [Hu [H1 H2]]. unfold grows; cbn [rout olen oavail omax].
  split; [exact Hu | split; lia].
Qed.

Lemma stored_len n : forall st s,
  let '(st', s', _) := stored n st s in grows st st' /\ after s s'.
Proof.
  induction n as [|n IH]; intros st s; cbn [stored].
  - split; [apply grows_refl | apply after_refl].
  - pose proof (take_len 8 s) as H1.
    destruct (take 8 s) as [[b s1]|].
    + specialize (IH (push b st) s1).
      destruct (stored n (push b st) s1) as [[st' s'] full].
      destruct IH as [IH1 IH2]. split.
      * eapply grows_trans; [apply grows_push | exact IH1].
      * unfold after in *. lia.
    + split; [apply grows_refl | apply after_refl].
Qed.

Lemma stored_ext e n : forall st s,
  match stored n st s with
  | (st', s', true) => stored n st (ext e s) = (st', ext e s', true)
  | (st', s', false) =>
      let '(st2, s2, full2) := stored n st (ext e s) in
      grows st' st2 /\ bp s' <= bp s2 /\ (full2 = true -> (blen s2 < length e)%nat)
  end.
Proof.
  induction n as [|n IH]; intros st s; cbn [stored].
  - reflexivity.
  - pose proof (take_ext e 8 s) as H1.
    destruct (take 8 s) as [[b s1]|].
    + rewrite H1. apply IH.
    + pose proof (take_len 8 (ext e s)) as H2.
      destruct (take 8 (ext e s)) as [[b' r1]|].
      * pose proof (stored_len n (push b' st) r1) as H3.
        destruct (stored n (push b' st) r1) as [[st2 s2] full2].
        destruct H3 as [H3 H4]. split; [|split].
        -- eapply grows_trans; [apply grows_push | exact H3].
        -- unfold after in H4. rewrite bp_ext in H2. lia.
        -- intros _. unfold after in H4. lia.
      * split; [apply grows_refl | split; [rewrite bp_ext; lia | discriminate]].
Qed.

(* ------------------------------------------------------------------ *)
(* generic loop with fuel                                              *)
(* ------------------------------------------------------------------ *)

Inductive sres :=
| SCont (st : ostate) (s : bs)
| SEnd (st : ostate) (s : bs)
| SStop (st : ostate) (s : bs) (e : istatus).

Definition st_of (r : sres) : ostate :=
  match r with SCont a _ | SEnd a _ | SStop a _ _ => a end.
Definition bs_of (r : sres) : bs :=
  match r with SCont _ b | SEnd _ b | SStop _ b _ => b end.
Definition is_succ (r : sres) : Prop :=
  match r with SStop _ _ _ => False | _ => True end.

Fixpoint loop (step : ostate -> bs -> sres) (fuel : nat) (st : ostate) (s : bs) : sres :=
  match fuel with
  | O => SStop st s Fuel
  | S f =>
    match step st s with
    | SCont st' s' => loop step f st' s'
    | r => r
    end
  end.

Definition ext_rel (e : list bool) (r1 r2 : sres) : Prop :=
  match r1 with
  | SCont a b => r2 = SCont a (ext e b)
  | SEnd a b => r2 = SEnd a (ext e b)
  | SStop a b NeedInput =>
      grows a (st_of r2) /\ bp b <= bp (bs_of r2) /\ (is_succ r2 -> (blen (bs_of r2) < length e)%nat)
  | SStop a b x => r2 = SStop a (ext e b) x
  end.

Section LoopLemmas.
  Variable step : ostate -> bs -> sres.
  Hypothesis step_len : forall st s, grows st (st_of (step st s)) /\ after s (bs_of (step st s)).
  Hypothesis step_prog : forall st s a b, step st s = SCont a b -> (blen b < blen s)%nat.
  Hypothesis step_nf : forall st s a b, step st s <> SStop a b Fuel.
  Hypothesis step_ext : forall e st s, ext_rel e (step st s) (step st (ext e s)).

  Lemma loop_len f : forall st s,
    grows st (st_of (loop step f st s)) /\ after s (bs_of (loop step f st s)).
  Proof.
    induction f as [|f IH]; intros st s; cbn [loop].
    - split; [apply grows_refl | apply after_refl].
    - pose proof (step_len st s) as H.
      destruct (step st s) as [a b|a b|a b x]; cbn [st_of bs_of] in *; auto.
      destruct H as [H1 H2]. destruct (IH a b) as [H3 H4].
      split; [eapply grows_trans; eauto | eapply after_trans; eauto].
  Qed.

  Lemma loop_not_cont f : forall st s a b, loop step f st s <> SCont a b.
  Proof.
    induction f as [|f IH]; intros st s a b; cbn [loop]; [discriminate|].
    destruct (step st s) as [a' b'|a' b'|a' b' x]; [apply IH | discriminate | discriminate].
  Qed.

  Lemma loop_fuel f : forall f' st s,
    (blen s < f)%nat -> (blen s < f')%nat -> loop step f st s = loop step f' st s.
  Proof.
    induction f as [|f IH]; intros f' st s H1 H2; [lia|].
    destruct f' as [|f']; [lia|]. cbn [loop].
    destruct (step st s) as [a b|a b|a b x] eqn:E; try reflexivity.
    apply step_prog in E. apply IH; lia.
  Qed.

  Lemma loop_nf f : forall st s a b, (blen s < f)%nat -> loop step f st s <> SStop a b Fuel.
  Proof.
    induction f as [|f IH]; intros st s a b H1; [lia|]. cbn [loop].
    destruct (step st s) as [a' b'|a' b'|a' b' x] eqn:E.
    - apply step_prog in E. apply IH; lia.
    - discriminate.
    - rewrite <- E. apply step_nf.
  Qed.

  Lemma loop_ext e f : forall st s, ext_rel e (loop step f st s) (loop step f st (ext e s)).
  Proof.
    induction f as [|f IH]; intros st s; cbn [loop].
    - reflexivity.
    - pose proof (step_ext e st s) as H.
      destruct (step st s) as [a b|a b|a b x]; cbn [ext_rel] in H.
      + rewrite H. apply IH.
      + rewrite H. reflexivity.
      + destruct x; try (rewrite H; reflexivity).
        cbn [ext_rel].
        destruct (step st (ext e s)) as [a2 b2|a2 b2|a2 b2 y]; cbn [st_of bs_of is_succ] in *; auto.
        destruct H as [H1 [H2 H3]].
        destruct (loop_len f a2 b2) as [H4 H5]. unfold after in H5.
        split; [eapply grows_trans; eauto | split; [lia|]].
        intros _. specialize (H3 I). lia.
  Qed.
End LoopLemmas.

(* ------------------------------------------------------------------ *)
(* symbols as a loop                                                   *)
(* ------------------------------------------------------------------ *)

Definition sym1 (lt dt : trie) (st : ostate) (s : bs) : sres :=
  match decode_sym lt s with
  | DNeed => SStop st s NeedInput
  | DBad => SStop st s Corrupt
  | DOk sym s1 =>
    if (sym <? 256)%nat then SCont (push (N.of_nat sym) st) s1
    else if (sym =? 256)%nat then SEnd st s1
    else
      match nth_error len_table (sym - 257) with
      | None => SStop st s Corrupt
      | Some (lbase, lextra) =>
        match take (N.to_nat lextra) s1 with
        | None => SStop st s NeedInput
        | Some (le, s2) =>
          match decode_sym dt s2 with
          | DNeed => SStop st s NeedInput
          | DBad => SStop st s Corrupt
          | DOk dsym s3 =>
            match nth_error dist_table dsym with
            | None => SStop st s Corrupt
            | Some (dbase, dextra) =>
              match take (N.to_nat dextra) s3 with
              | None => SStop st s NeedInput
              | Some (de, s4) =>
                if oavail st <? dbase + de then SStop st s Corrupt
                else SCont (copy_match (lbase + le) (dbase + de) st) s4
              end
            end
          end
        end
      end
  end.

Definition bres_of (r : sres) : bres :=
  match r with
  | SEnd a b => BEnd a b
  | SStop a b e => BStop a b e
  | SCont a b => BStop a b Fuel
  end.

Lemma symbols_loop lt dt f : forall st s,
  symbols f lt dt st s = bres_of (loop (sym1 lt dt) f st s).
Proof.
  induction f as [|f IH]; intros st s; cbn [symbols loop]; [reflexivity|].
  unfold sym1.
  destruct (decode_sym lt s) as [sym s1| |]; try reflexivity.
  destruct (sym <? 256)%nat; [apply IH|].
  destruct (sym =? 256)%nat; [reflexivity|].
  destruct (nth_error len_table (sym - 257)) as [[lbase lextra]|]; [|reflexivity].
  destruct (take (N.to_nat lextra) s1) as [[le s2]|]; [|reflexivity].
  destruct (decode_sym dt s2) as [dsym s3| |]; try reflexivity.
  destruct (nth_error dist_table dsym) as [[dbase dextra]|]; [|reflexivity].
  destruct (take (N.to_nat dextra) s3) as [[de s4]|]; [|reflexivity].
  destruct (oavail st <? dbase + de); [reflexivity|]. apply IH.
Qed.

Lemma sym1_len lt dt st s :
  let r := sym1 lt dt st s in
  grows st (st_of r) /\ after s (bs_of r) /\ (nonleaf lt -> is_succ r -> (blen (bs_of r) < blen s)%nat)
  /\ (forall a b x, r = SStop a b x -> a = st /\ b = s /\ x <> Fuel /\ x <> Done).
Proof.
  unfold sym1.
  repeat need_step; cbn [st_of bs_of is_succ];
    (split; [first [apply grows_refl | apply grows_push | apply grows_copy_match]
            | split; [unfold after in *; lia
                     | split; [intros Hn Hs; try contradiction; unfold after in *; intuition lia
                              | intros ? ? ? Hx; inversion Hx; subst; repeat split; discriminate]]]).
Qed.

Ltac norm_ext :=
  repeat match goal with
  | H : context[bp (ext ?e ?s)] |- _ => change (bp (ext e s)) with (bp s) in H
  | H : context[blen (ext ?e ?s)] |- _ => rewrite (blen_ext e s) in H
  | |- context[bp (ext ?e ?s)] => change (bp (ext e s)) with (bp s)
  | |- context[blen (ext ?e ?s)] => rewrite (blen_ext e s)
  end.
Ltac arith := cbn [hlen] in *; unfold after in *; norm_ext; lia.

Ltac grow_tac :=
  first [apply grows_refl | apply grows_push | apply grows_copy_match].

Lemma sym1_ext lt dt e st s : ext_rel e (sym1 lt dt st s) (sym1 lt dt st (ext e s)).
Proof.
  unfold sym1.
  repeat ext_step e; try reflexivity; cbn [ext_rel];
    repeat need_step; cbn [st_of bs_of is_succ];
    (split; [grow_tac | split; [arith | intros Hs; try contradiction; arith]]).
Qed.

Lemma sym1_len' lt dt st s :
  grows st (st_of (sym1 lt dt st s)) /\ after s (bs_of (sym1 lt dt st s)).
Proof. destruct (sym1_len lt dt st s) as [H1 [H2 _]]. split; assumption. Qed.

Lemma sym1_prog lt dt : nonleaf lt ->
  forall st s a b, sym1 lt dt st s = SCont a b -> (blen b < blen s)%nat.
Proof.
  intros Hn st s a b E. destruct (sym1_len lt dt st s) as [_ [_ [H3 _]]].
  rewrite E in H3. apply H3; [exact Hn | exact I].
Qed.

Lemma sym1_nf lt dt st s a b : sym1 lt dt st s <> SStop a b Fuel.
Proof.
  intros E. destruct (sym1_len lt dt st s) as [_ [_ [_ H4]]].
  destruct (H4 a b Fuel E) as [_ [_ [H _]]]. congruence.
Qed.

(* ------------------------------------------------------------------ *)
(* blocks as a loop                                                    *)
(* ------------------------------------------------------------------ *)

Definition close (bfinal : N) (st : ostate) (s : bs) : sres :=
  if bfinal =? 1 then SEnd st s else SCont st s.

Definition aft (bfinal : N) (r : sres) : sres :=
  match r with SEnd st' s' => close bfinal st' s' | _ => r end.

Definition huff_block (bfinal : N) (lt dt : trie) (st : ostate) (s : bs) : sres :=
  aft bfinal (loop (sym1 lt dt) (S (length (bl s))) st s).

Definition stored_block (bfinal : N) (st : ostate) (s0 s2 : bs) : sres :=
  let s3 := align s2 in
  match take 16 s3 with None => SStop st s0 NeedInput | Some (len, s4) =>
  match take 16 s4 with None => SStop st s0 NeedInput | Some (nlen, s5) =>
    if negb (len + nlen =? 65535) then SStop st s0 Corrupt
    else
      let '(st', s6, full) := stored (N.to_nat len) st s5 in
      if negb full then SStop st' s6 NeedInput
      else
        let st'' := if (len =? 0) && (bfinal =? 0)
                    then mkost (rout st') (olen st') (oavail st') (omax st')
                               ((olen st', bp s6 / 8) :: osyncs st')
                    else st' in
        close bfinal st'' s6
  end end.

Definition block_body (bfinal btype : N) (st : ostate) (s s2 : bs) : sres :=
  if btype =? 0 then stored_block bfinal st s s2
  else if btype =? 1 then
    match fixed_tries with
    | None => SStop st s Corrupt
    | Some (lt, dt) => huff_block bfinal lt dt st s2
    end
  else if btype =? 2 then
    match dyn_header s2 with
    | HStop e => SStop st s e
    | HOk (lt, dt) s3 => huff_block bfinal lt dt st s3
    end
  else SStop st s Corrupt.

Definition block1 (st : ostate) (s : bs) : sres :=
  match take 1 s with None => SStop st s NeedInput | Some (bfinal, s1) =>
  match take 2 s1 with None => SStop st s NeedInput | Some (btype, s2) =>
    block_body bfinal btype st s s2
  end end.

Definition fin (r : sres) : ires :=
  match r with
  | SEnd a b => finish a b Done
  | SStop a b e => finish a b e
  | SCont a b => finish a b Fuel
  end.

Lemma blocks_loop f : forall st s, blocks f st s = fin (loop block1 f st s).
Proof.
  induction f as [|f IH]; intros st s; cbn [blocks loop]; [reflexivity|].
  set (L := loop block1 f) in *.
  unfold block1.
  destruct (take 1 s) as [[bfinal s1]|]; [|reflexivity].
  destruct (take 2 s1) as [[btype s2]|]; [|reflexivity].
  unfold block_body.
  destruct (btype =? 0).
  { unfold stored_block.
    destruct (take 16 (align s2)) as [[len s4]|]; [|reflexivity].
    destruct (take 16 s4) as [[nlen s5]|]; [|reflexivity].
    destruct (negb (len + nlen =? 65535)); [reflexivity|].
    destruct (stored (N.to_nat len) st s5) as [[st' s6] full].
    destruct full; cbn [negb]; [|reflexivity].
    unfold close. destruct (bfinal =? 1); [reflexivity | apply IH]. }
  destruct (btype =? 1).
  { destruct fixed_tries as [[lt dt]|]; [|reflexivity].
    rewrite symbols_loop. unfold huff_block.
    destruct (loop (sym1 lt dt) (S (length (bl s2))) st s2) as [a b|a b|a b x] eqn:EL;
      cbn [bres_of aft]; try reflexivity; [exfalso; eapply loop_not_cont; exact EL|].
    unfold close. destruct (bfinal =? 1); [reflexivity | apply IH]. }
  destruct (btype =? 2); [|reflexivity].
  destruct (dyn_header s2) as [[lt dt] s3|x].
  - rewrite symbols_loop. unfold huff_block.
    destruct (loop (sym1 lt dt) (S (length (bl s3))) st s3) as [a b|a b|a b x] eqn:EL;
      cbn [bres_of aft]; try reflexivity; [exfalso; eapply loop_not_cont; exact EL|].
    unfold close. destruct (bfinal =? 1); [reflexivity | apply IH].
  - destruct x; reflexivity.
Qed.

Lemma aft_st bf r : st_of (aft bf r) = st_of r /\ bs_of (aft bf r) = bs_of r /\ (is_succ (aft bf r) <-> is_succ r).
Proof.
  destruct r as [a b|a b|a b x]; cbn [aft st_of bs_of is_succ]; try tauto.
  unfold close. destruct (bf =? 1); cbn [st_of bs_of is_succ]; tauto.
Qed.

Lemma huff_len bf lt dt st s :
  grows st (st_of (huff_block bf lt dt st s)) /\ after s (bs_of (huff_block bf lt dt st s)).
Proof.
  unfold huff_block.
  destruct (aft_st bf (loop (sym1 lt dt) (S (length (bl s))) st s)) as [H1 [H2 _]].
  rewrite H1, H2. apply loop_len. apply sym1_len'.
Qed.

Lemma huff_nf bf lt dt st s a b : nonleaf lt -> huff_block bf lt dt st s <> SStop a b Fuel.
Proof.
  intros Hn. unfold huff_block.
  pose proof (loop_nf (sym1 lt dt) (sym1_len' lt dt) (sym1_prog lt dt Hn) (sym1_nf lt dt)
                (sym1_ext lt dt) (S (length (bl s))) st s a b) as H.
  destruct (loop (sym1 lt dt) (S (length (bl s))) st s) as [a' b'|a' b'|a' b' x]; cbn [aft].
  - discriminate.
  - unfold close. destruct (bf =? 1); discriminate.
  - apply H. unfold blen. lia.
Qed.

Lemma aft_ext e bf r1 r2 : ext_rel e r1 r2 -> ext_rel e (aft bf r1) (aft bf r2).
Proof.
  intros H. destruct r1 as [a b|a b|a b x]; cbn [ext_rel aft] in *.
  - subst r2. reflexivity.
  - subst r2. cbn [aft]. unfold close. destruct (bf =? 1); reflexivity.
  - destruct x; try (subst r2; reflexivity).
    destruct (aft_st bf r2) as [H1 [H2 H3]]. rewrite H1, H2, H3. exact H.
Qed.

Lemma huff_ext e bf lt dt st s : nonleaf lt ->
  ext_rel e (huff_block bf lt dt st s) (huff_block bf lt dt st (ext e s)).
Proof.
  intros Hn. unfold huff_block. apply aft_ext.
  rewrite (loop_fuel (sym1 lt dt) (sym1_len' lt dt) (sym1_prog lt dt Hn) (sym1_nf lt dt)
             (sym1_ext lt dt) (S (length (bl s))) (S (length (bl (ext e s)))) st s).
  - apply loop_ext; [apply sym1_len' | apply sym1_prog; exact Hn | apply sym1_nf | apply sym1_ext].
  - unfold blen; lia.
  - unfold ext, blen; cbn [bl]. rewrite app_length. lia.
Qed.

(* ------------------------------------------------------------------ *)
(* stored blocks                                                       *)
(* ------------------------------------------------------------------ *)

Definition align_k (s : bs) : nat := N.to_nat ((8 - bp s mod 8) mod 8).

Lemma align_ok s : (align_k s <= blen s)%nat ->
  after s (align s) /\ forall e, align (ext e s) = ext e (align s).
Proof.
  unfold align_k, align, ext, after, blen; cbn [bl bp].
  set (k := (8 - bp s mod 8) mod 8). intros Hk. split.
  - rewrite skipn_length. lia.
  - intros e. f_equal. rewrite skipn_app.
    replace (N.to_nat k - length (bl s))%nat with 0%nat by lia. reflexivity.
Qed.

Lemma align_short s : (blen s < align_k s)%nat ->
  bl (align s) = [] /\ forall e, (blen (align (ext e s)) <= length e)%nat /\ bp s <= bp (align (ext e s)).
Proof.
  unfold align_k, align, ext, blen; cbn [bl bp].
  set (k := (8 - bp s mod 8) mod 8). intros Hk. split.
  - apply skipn_all2. lia.
  - intros e. rewrite skipn_length, app_length. lia.
Qed.

Definition stored_body (bfinal : N) (st : ostate) (s0 s3 : bs) : sres :=
  match take 16 s3 with None => SStop st s0 NeedInput | Some (len, s4) =>
  match take 16 s4 with None => SStop st s0 NeedInput | Some (nlen, s5) =>
    if negb (len + nlen =? 65535) then SStop st s0 Corrupt
    else
      let '(st', s6, full) := stored (N.to_nat len) st s5 in
      if negb full then SStop st' s6 NeedInput
      else
        let st'' := if (len =? 0) && (bfinal =? 0)
                    then mkost (rout st') (olen st') (oavail st') (omax st')
                               ((olen st', bp s6 / 8) :: osyncs st')
                    else st' in
        close bfinal st'' s6
  end end.

Lemma grows_sync st x : grows st (mkost (rout st) (olen st) (oavail st) (omax st) x).
Proof. unfold grows; cbn [rout olen oavail omax]. split; [exists []; reflexivity | split; lia]. Qed.

Ltac grow2 :=
  first [ apply grows_refl | assumption
        | eapply grows_trans; [eassumption | apply grows_sync] ].

Ltac stored_step :=
  match goal with
  | |- context[match stored ?n ?st ?s with _ => _ end] =>
      let H := fresh "HS" in pose proof (stored_len n st s) as H;
      destruct (stored n st s) as [[? ?] [|]]; destruct H as [? ?]; cbn [negb]
  end.

Lemma stored_body_len bf st s0 s3 :
  let r := stored_body bf st s0 s3 in
  grows st (st_of r) /\ (after s3 (bs_of r) \/ (bs_of r = s0 /\ ~ is_succ r))
  /\ (forall a b, r <> SStop a b Fuel).
Proof.
  unfold stored_body, close.
  repeat first [stored_step | need_step]; cbn [st_of bs_of is_succ];
    (split; [grow2 | split; [first [right; split; [reflexivity | tauto] | left; arith]
                            | intros; discriminate]]).
Qed.

Lemma stored_body_need e bf st s0 s3' :
  (blen s3' <= length e)%nat -> bp s0 <= bp s3' ->
  let r2 := stored_body bf st (ext e s0) s3' in
  grows st (st_of r2) /\ bp s0 <= bp (bs_of r2) /\ (is_succ r2 -> (blen (bs_of r2) < length e)%nat).
Proof.
  intros H1 H2. unfold stored_body, close.
  repeat first [stored_step | need_step]; cbn [st_of bs_of is_succ];
    (split; [grow2 | split; [arith | intros Hs; try contradiction; arith]]).
Qed.

Lemma stored_body_ext e bf st s0 s3 : bp s0 <= bp s3 ->
  ext_rel e (stored_body bf st s0 s3) (stored_body bf st (ext e s0) (ext e s3)).
Proof.
  intros H0. unfold stored_body.
  repeat ext_step e; try reflexivity.
  1: { (* both length words read *)
    match goal with |- ext_rel e (match stored ?n ?st ?s with _ => _ end) _ =>
      pose proof (stored_ext e n st s) as HE; pose proof (stored_len n st s) as HS;
      destruct (stored n st s) as [[st' s6] [|]] end.
    - rewrite HE. cbn [negb]. unfold close.
      destruct (bf =? 1); destruct ((_ =? 0) && (bf =? 0)); reflexivity.
    - cbn [negb ext_rel].
      match goal with |- context[match stored ?n ?st ?s with _ => _ end] =>
        destruct (stored n st s) as [[st2 s2'] [|]] end;
      destruct HE as [HE1 [HE2 HE3]]; cbn [negb]; unfold close.
      + destruct (bf =? 1); destruct ((_ =? 0) && (bf =? 0)); cbn [st_of bs_of is_succ];
          (split; [grow2 | split; [arith | intros _; specialize (HE3 eq_refl); arith]]).
      + cbn [st_of bs_of is_succ]. split; [grow2 | split; [arith | intros []]]. }
  all: cbn [ext_rel]; unfold close;
    repeat first [stored_step | need_step]; cbn [st_of bs_of is_succ];
    (split; [grow2 | split; [arith | intros Hs; try contradiction; arith]]).
Qed.

Lemma stored_body_empty bf st s0 s3 : bl s3 = [] -> stored_body bf st s0 s3 = SStop st s0 NeedInput.
Proof.
  intros H. unfold stored_body.
  replace (take 16 s3) with (@None (N * bs)); [reflexivity|].
  change (take 16 s3) with
    (match take1 s3 with None => None | Some (b, s1) =>
       match take 15 s1 with None => None | Some (v, s2) => Some ((if b then 1 else 0) + 2 * v, s2) end end).
  unfold take1. rewrite H. reflexivity.
Qed.

(* common shape of the facts about one piece of a block: s0 is the block start, s2 the current point *)
Definition piece_len (st : ostate) (s0 s2 : bs) (r : sres) : Prop :=
  grows st (st_of r) /\ after s0 (bs_of r) /\ (is_succ r -> (blen (bs_of r) <= blen s2)%nat)
  /\ (forall a b, r <> SStop a b Fuel).

Lemma stored_block_len bf st s0 s2 : after s0 s2 -> piece_len st s0 s2 (stored_block bf st s0 s2).
Proof.
  intros H0. change (stored_block bf st s0 s2) with (stored_body bf st s0 (align s2)).
  destruct (Nat.le_gt_cases (align_k s2) (blen s2)) as [Hk|Hk].
  - destruct (align_ok s2 Hk) as [Ha _].
    destruct (stored_body_len bf st s0 (align s2)) as [H1 [H2 H3]].
    split; [exact H1 | split; [|split; [|exact H3]]].
    + destruct H2 as [H2|[H2 _]]; [arith | rewrite H2; apply after_refl].
    + intros Hs. destruct H2 as [H2|[_ H2]]; [arith | contradiction].
  - destruct (align_short s2 Hk) as [Ha _]. rewrite (stored_body_empty _ _ _ _ Ha).
    cbn [st_of bs_of is_succ]. split; [apply grows_refl | split; [apply after_refl | split; [intros [] | discriminate]]].
Qed.

Lemma stored_block_ext e bf st s0 s2 : after s0 s2 ->
  ext_rel e (stored_block bf st s0 s2) (stored_block bf st (ext e s0) (ext e s2)).
Proof.
  intros H0.
  change (stored_block bf st s0 s2) with (stored_body bf st s0 (align s2)).
  change (stored_block bf st (ext e s0) (ext e s2)) with (stored_body bf st (ext e s0) (align (ext e s2))).
  destruct (Nat.le_gt_cases (align_k s2) (blen s2)) as [Hk|Hk].
  - destruct (align_ok s2 Hk) as [Ha Hb]. rewrite Hb. apply stored_body_ext. arith.
  - destruct (align_short s2 Hk) as [Ha Hb]. rewrite (stored_body_empty _ _ _ _ Ha).
    cbn [ext_rel]. destruct (Hb e) as [Hc Hd]. apply stored_body_need; [exact Hc | arith].
Qed.

Lemma fixed_tries_nonleaf lt dt : fixed_tries = Some (lt, dt) -> nonleaf lt.
Proof.
  unfold fixed_tries.
  destruct (mktrie 15 fixed_lit_lens) as [a|] eqn:E1; [|discriminate].
  destruct (mktrie 15 fixed_dist_lens) as [b|]; [|discriminate].
  intros H; inversion H; subst. eapply mktrie_nonleaf; exact E1.
Qed.

Lemma huff_piece bf lt dt st s0 s2 : nonleaf lt -> after s0 s2 ->
  piece_len st s0 s2 (huff_block bf lt dt st s2).
Proof.
  intros Hn H0. destruct (huff_len bf lt dt st s2) as [H1 H2].
  split; [exact H1 | split; [eapply after_trans; eauto | split; [intros _; arith | intros a b; apply huff_nf; exact Hn]]].
Qed.

Lemma body_len bf bt st s0 s2 : after s0 s2 -> piece_len st s0 s2 (block_body bf bt st s0 s2).
Proof.
  intros H0. unfold block_body.
  assert (Hstop : forall x, x <> Fuel -> piece_len st s0 s2 (SStop st s0 x)).
  { intros x Hx. cbn. split; [apply grows_refl | split; [apply after_refl | split; [intros [] | congruence]]]. }
  destruct (bt =? 0); [apply stored_block_len; exact H0|].
  destruct (bt =? 1).
  { destruct fixed_tries as [[lt dt]|] eqn:EF; [|apply Hstop; discriminate].
    apply huff_piece; [eapply fixed_tries_nonleaf; exact EF | exact H0]. }
  destruct (bt =? 2); [|apply Hstop; discriminate].
  pose proof (dyn_header_len s2) as HL. pose proof (dyn_header_nf s2) as HF.
  destruct (dyn_header s2) as [[lt dt] s3|x] eqn:ED; [|apply Hstop; congruence].
  cbn [hlen] in HL.
  destruct (huff_piece bf lt dt st s0 s3 (dyn_header_nonleaf _ _ _ _ ED) (after_trans _ _ _ H0 HL))
    as [H1 [H2 [H3 H4]]].
  split; [exact H1 | split; [exact H2 | split; [intros Hs; specialize (H3 Hs); arith | exact H4]]].
Qed.

Lemma body_ext e bf bt st s0 s2 : after s0 s2 ->
  ext_rel e (block_body bf bt st s0 s2) (block_body bf bt st (ext e s0) (ext e s2)).
Proof.
  intros H0. unfold block_body.
  destruct (bt =? 0); [apply stored_block_ext; exact H0|].
  destruct (bt =? 1).
  { destruct fixed_tries as [[lt dt]|] eqn:EF; [|reflexivity].
    apply huff_ext. eapply fixed_tries_nonleaf; exact EF. }
  destruct (bt =? 2); [|reflexivity].
  pose proof (dyn_header_ext e s2) as HE.
  destruct (dyn_header s2) as [[lt dt] s3|x] eqn:ED; cbn [hext] in HE.
  - rewrite HE. apply huff_ext. eapply dyn_header_nonleaf; exact ED.
  - destruct x; try (rewrite HE; reflexivity).
    cbn [ext_rel].
    pose proof (dyn_header_len (ext e s2)) as HL.
    destruct (dyn_header (ext e s2)) as [[lt' dt'] s3'|y]; cbn [hlen] in HL.
    + destruct (huff_len bf lt' dt' st s3') as [H1 H2].
      split; [exact H1 | split; [arith | intros _; arith]].
    + cbn [st_of bs_of is_succ]. split; [apply grows_refl | split; [arith | intros []]].
Qed.

Lemma block1_piece st s : piece_len st s s (block1 st s) /\
  (forall a b, block1 st s = SCont a b -> (blen b < blen s)%nat).
Proof.
  unfold block1.
  assert (Hstop : forall x, x <> Fuel -> piece_len st s s (SStop st s x) /\
     (forall a b, SStop st s x = SCont a b -> (blen b < blen s)%nat)).
  { intros x Hx. split; [|discriminate].
    cbn. split; [apply grows_refl | split; [apply after_refl | split; [intros [] | congruence]]]. }
  pose proof (take_len 1 s) as HL1.
  destruct (take 1 s) as [[bf s1]|]; [|apply Hstop; discriminate].
  pose proof (take_len 2 s1) as HL2.
  destruct (take 2 s1) as [[bt s2]|]; [|apply Hstop; discriminate].
  assert (H0 : after s s2) by arith.
  destruct (body_len bf bt st s s2 H0) as [H1 [H2 [H3 H4]]].
  split; [split; [exact H1 | split; [exact H2 | split; [intros Hs; specialize (H3 Hs); arith | exact H4]]]|].
  intros a b E. rewrite E in H3. specialize (H3 I). cbn [bs_of] in H3. lia.
Qed.

Lemma block1_len st s : grows st (st_of (block1 st s)) /\ after s (bs_of (block1 st s)).
Proof. destruct (block1_piece st s) as [[H1 [H2 _]] _]. split; assumption. Qed.

Lemma block1_prog st s a b : block1 st s = SCont a b -> (blen b < blen s)%nat.
Proof. destruct (block1_piece st s) as [_ H]. apply H. Qed.

Lemma block1_nf st s a b : block1 st s <> SStop a b Fuel.
Proof. destruct (block1_piece st s) as [[_ [_ [_ H]]] _]. apply H. Qed.

Lemma block1_ext e st s : ext_rel e (block1 st s) (block1 st (ext e s)).
Proof.
  unfold block1.
  assert (Hrest : forall bf r1, (blen r1 < length e)%nat -> after (ext e s) r1 ->
     let r2 := match take 2 r1 with
               | None => SStop st (ext e s) NeedInput
               | Some (bt, s2) => block_body bf bt st (ext e s) s2 end in
     grows st (st_of r2) /\ bp s <= bp (bs_of r2) /\ (is_succ r2 -> (blen (bs_of r2) < length e)%nat)).
  { intros bf r1 Hr1 Ha1.
    pose proof (take_len 2 r1) as HL2.
    destruct (take 2 r1) as [[bt r2]|]; cbn [st_of bs_of is_succ].
    - assert (Ha2 : after (ext e s) r2) by arith.
      destruct (body_len bf bt st (ext e s) r2 Ha2) as [H1 [H2 [H3 _]]].
      split; [exact H1 | split; [arith | intros Hs; specialize (H3 Hs); arith]].
    - split; [apply grows_refl | split; [arith | intros []]]. }
  pose proof (take_ext e 1 s) as HE1. pose proof (take_len 1 s) as HL1.
  destruct (take 1 s) as [[bf s1]|].
  - rewrite HE1.
    pose proof (take_ext e 2 s1) as HE2. pose proof (take_len 2 s1) as HL2.
    destruct (take 2 s1) as [[bt s2]|].
    + rewrite HE2. apply body_ext. arith.
    + cbn [ext_rel].
      pose proof (take_len 2 (ext e s1)) as HL2'.
      destruct (take 2 (ext e s1)) as [[bt r2]|]; cbn [st_of bs_of is_succ].
      * assert (Ha2 : after (ext e s) r2) by arith.
        destruct (body_len bf bt st (ext e s) r2 Ha2) as [H1 [H2 [H3 _]]].
        split; [exact H1 | split; [arith | intros Hs; specialize (H3 Hs); arith]].
      * split; [apply grows_refl | split; [arith | intros []]].
  - cbn [ext_rel].
    pose proof (take_len 1 (ext e s)) as HL1'.
    destruct (take 1 (ext e s)) as [[bf r1]|].
    + apply Hrest; arith.
    + cbn [st_of bs_of is_succ]. split; [apply grows_refl | split; [arith | intros []]].
Qed.

(* ------------------------------------------------------------------ *)
(* a stop never carries status Done                                    *)
(* ------------------------------------------------------------------ *)

Lemma read_clens_nd n : forall s, read_clens n s <> HStop Done.
Proof.
  induction n as [|n IH]; intros s; cbn [read_clens]; [discriminate|].
  destruct (take 3 s) as [[v s1]|]; [|discriminate].
  specialize (IH s1). destruct (read_clens n s1) as [l s2|x]; [discriminate|].
  congruence.
Qed.

Lemma read_lens_nd f ct : forall total acc s, read_lens f ct total acc s <> HStop Done.
Proof.
  induction f as [|f IH]; intros total acc s; destruct total as [|t]; cbn [read_lens];
    try discriminate.
  destruct (decode_sym ct s) as [sym s1| |]; try discriminate.
  destruct (sym <? 16)%nat.
  { apply IH. }
  destruct (sym =? 16)%nat; [|destruct (sym =? 17)%nat];
  (match goal with |- context[take ?n s1] =>
     destruct (take n s1) as [[ev s2]|]; [|discriminate] end);
  d_what ltac:(discriminate); d_lt t ltac:(discriminate);
  apply IH.
Qed.

Lemma dyn_header_nd s : dyn_header s <> HStop Done.
Proof.
  unfold dyn_header.
  destruct (take 5 s) as [[hlit s1]|]; [|discriminate].
  destruct (take 5 s1) as [[hdist s2]|]; [|discriminate].
  destruct (take 4 s2) as [[hclen s3]|]; [|discriminate].
  destruct ((29 <? hlit) || (29 <? hdist)); [discriminate|].
  pose proof (read_clens_nd (N.to_nat hclen + 4) s3) as H1.
  destruct (read_clens (N.to_nat hclen + 4) s3) as [cl s4|x]; [|congruence].
  destruct (mktrie 7 _) as [ct|]; [|discriminate].
  match goal with |- context[read_lens ?f ct ?t ?a s4] =>
    pose proof (read_lens_nd f ct t a s4) as H2; destruct (read_lens f ct t a s4) as [al s5|x] end;
    [|congruence].
  destruct (_ =? 0)%nat; [discriminate|].
  destruct (mktrie 15 _); [|discriminate]. destruct (mktrie 15 _); discriminate.
Qed.

Lemma loop_nd step :
  (forall st s a b, step st s <> SStop a b Done) ->
  forall f st s a b, loop step f st s <> SStop a b Done.
Proof.
  intros Hs. induction f as [|f IH]; intros st s a b; cbn [loop]; [discriminate|].
  destruct (step st s) as [a' b'|a' b'|a' b' x] eqn:E; [apply IH | discriminate |].
  rewrite <- E. apply Hs.
Qed.

Lemma sym1_nd lt dt st s a b : sym1 lt dt st s <> SStop a b Done.
Proof.
  intros E. destruct (sym1_len lt dt st s) as [_ [_ [_ H4]]].
  destruct (H4 a b Done E) as [_ [_ [_ H]]]. congruence.
Qed.

Lemma huff_nd bf lt dt st s a b : huff_block bf lt dt st s <> SStop a b Done.
Proof.
  unfold huff_block.
  pose proof (loop_nd (sym1 lt dt) (sym1_nd lt dt) (S (length (bl s))) st s a b) as H.
  destruct (loop (sym1 lt dt) (S (length (bl s))) st s) as [a' b'|a' b'|a' b' x]; cbn [aft].
  - discriminate.
  - unfold close. destruct (bf =? 1); discriminate.
  - exact H.
Qed.

Lemma stored_body_nd bf st s0 s3 a b : stored_body bf st s0 s3 <> SStop a b Done.
Proof.
  unfold stored_body, close.
  repeat first [stored_step | need_step]; discriminate.
Qed.

Lemma block1_nd st s a b : block1 st s <> SStop a b Done.
Proof.
  unfold block1.
  destruct (take 1 s) as [[bf s1]|]; [|discriminate].
  destruct (take 2 s1) as [[bt s2]|]; [|discriminate].
  unfold block_body.
  destruct (bt =? 0); [apply stored_body_nd|].
  destruct (bt =? 1).
  { destruct fixed_tries as [[lt dt]|]; [apply huff_nd | discriminate]. }
  destruct (bt =? 2); [|discriminate].
  pose proof (dyn_header_nd s2) as H.
  destruct (dyn_header s2) as [[lt dt] s3|x]; [apply huff_nd | congruence].
Qed.

(* ------------------------------------------------------------------ *)
(* the whole inflater                                                  *)
(* ------------------------------------------------------------------ *)

Lemma frev_rev {A} (l : list A) : frev l = rev l.
Proof. unfold frev. rewrite rev_append_rev, app_nil_r. reflexivity. Qed.

Lemma bits_of_N_len n : forall v, length (bits_of_N n v) = n.
Proof. induction n as [|n IH]; intros v; cbn [bits_of_N length]; [reflexivity | rewrite IH; reflexivity]. Qed.

Lemma bits_len s : length (bits_of_bytes s) = (8 * length s)%nat.
Proof.
  unfold bits_of_bytes. induction s as [|a s IH]; cbn [flat_map length]; [reflexivity|].
  rewrite app_length, bits_of_N_len, IH. lia.
Qed.

Lemma bs_app s t : bs_of_bytes (s ++ t) = ext (bits_of_bytes t) (bs_of_bytes s).
Proof. unfold bs_of_bytes, ext, bits_of_bytes; cbn [bl bp]. rewrite flat_map_app. reflexivity. Qed.

Lemma blen_bytes s : blen (bs_of_bytes s) = (8 * length s)%nat.
Proof. unfold blen, bs_of_bytes; cbn [bl]. apply bits_len. Qed.

Definition st0 (dict : list byte) : ostate := mkost (frev dict) 0 (N.of_nat (length dict)) 0 [].

Definition run (F : nat) (dict s : list byte) : sres := loop block1 F (st0 dict) (bs_of_bytes s).

Lemma inflate_form dict s F : (8 * length s < F)%nat -> inflate dict s = fin (run F dict s).
Proof.
  intros HF. unfold inflate, run. cbv zeta. fold (st0 dict). rewrite blocks_loop. f_equal.
  apply (loop_fuel block1 block1_len block1_prog block1_nf (fun e => block1_ext e)).
  - fold (blen (bs_of_bytes s)). lia.
  - rewrite blen_bytes. exact HF.
Qed.

Lemma run_len F dict s :
  grows (st0 dict) (st_of (run F dict s)) /\ after (bs_of_bytes s) (bs_of (run F dict s)).
Proof. apply loop_len. apply block1_len. Qed.

Lemma run_shape F dict s : (8 * length s < F)%nat ->
  match run F dict s with
  | SCont _ _ => False
  | SEnd _ _ => True
  | SStop _ _ x => x = NeedInput \/ x = Corrupt
  end.
Proof.
  intros HF. unfold run.
  pose proof (loop_not_cont block1 F (st0 dict) (bs_of_bytes s)) as H1.
  pose proof (loop_nf block1 block1_len block1_prog block1_nf (fun e => block1_ext e) F (st0 dict) (bs_of_bytes s)) as H2.
  pose proof (loop_nd block1 block1_nd F (st0 dict) (bs_of_bytes s)) as H3.
  destruct (loop block1 F (st0 dict) (bs_of_bytes s)) as [a b|a b|a b x].
  - eapply H1; reflexivity.
  - exact I.
  - destruct x; auto.
    + exfalso. eapply H3; reflexivity.
    + exfalso. eapply H2; [rewrite blen_bytes; exact HF | reflexivity].
Qed.

Lemma run_ext F dict s t :
  ext_rel (bits_of_bytes t) (run F dict s) (run F dict (s ++ t)).
Proof.
  unfold run. rewrite bs_app.
  apply (loop_ext block1 block1_len block1_prog block1_nf (fun e => block1_ext e)).
Qed.

Theorem inflate_never_fuel : inflate_never_fuel_statement.
Proof.
  intros dict s.
  rewrite (inflate_form dict s (S (8 * length s))) by lia.
  pose proof (run_shape (S (8 * length s)) dict s ltac:(lia)) as H.
  destruct (run (S (8 * length s)) dict s) as [a b|a b|a b x]; cbn [fin finish status].
  - destruct H.
  - discriminate.
  - destruct H; subst; discriminate.
Qed.

Lemma finish_grows a a2 b b2 x y : grows a a2 ->
  is_prefix (out (finish a b x)) (out (finish a2 b2 y)) /\
  maxdist (finish a b x) <= maxdist (finish a2 b2 y).
Proof.
  intros [[u Hu] [H1 H2]]. unfold finish; cbn [out maxdist]. split; [|exact H2].
  rewrite H1, !frev_rev, Hu, rev_app_distr, skipn_app.
  eexists. reflexivity.
Qed.

Lemma fin_st r : exists x, fin r = finish (st_of r) (bs_of r) x.
Proof. destruct r as [a b|a b|a b x]; cbn [fin st_of bs_of]; eexists; reflexivity. Qed.

Theorem inflate_mono : inflate_mono_statement.
Proof.
  intros dict s t. cbv zeta.
  set (F := S (8 * length (s ++ t))).
  assert (HF1 : (8 * length s < F)%nat) by (unfold F; rewrite app_length; lia).
  assert (HF2 : (8 * length (s ++ t) < F)%nat) by (unfold F; lia).
  rewrite (inflate_form dict s F HF1), (inflate_form dict (s ++ t) F HF2).
  pose proof (run_shape F dict s HF1) as Hs.
  pose proof (run_ext F dict s t) as He.
  destruct (run F dict s) as [a b|a b|a b x]; cbn [ext_rel] in He.
  - destruct Hs.
  - rewrite He. cbn [fin finish status]. reflexivity.
  - destruct Hs as [Hs|Hs]; subst x.
    + cbn [fin finish status].
      destruct He as [H1 [H2 H3]].
      destruct (fin_st (run F dict (s ++ t))) as [y Hy]. rewrite Hy.
      destruct (finish_grows a (st_of (run F dict (s ++ t))) b (bs_of (run F dict (s ++ t))) NeedInput y H1)
        as [H4 H5].
      split; [exact H4 | split; [exact H2 | exact H5]].
    + rewrite He. cbn [fin finish status out bitpos]. auto.
Qed.

Theorem inflate_done_length : inflate_done_length_statement.
Proof.
  intros dict s.
  rewrite (inflate_form dict s (S (8 * length s))) by lia.
  pose proof (run_shape (S (8 * length s)) dict s ltac:(lia)) as Hs.
  destruct (run_len (S (8 * length s)) dict s) as [_ Ha].
  pose proof (blen_bytes s) as Hb.
  destruct (run (S (8 * length s)) dict s) as [a b|a b|a b x]; cbn [fin finish status bitpos bs_of] in *.
  - destruct Hs.
  - intros _. unfold after in Ha. change (bp (bs_of_bytes s)) with 0 in Ha. lia.
  - intros Hx; subst x. destruct Hs; discriminate.
Qed.

Theorem inflate_need : inflate_need_statement.
Proof.
  intros dict s t.
  set (F := S (8 * length (s ++ t))).
  assert (HF1 : (8 * length s < F)%nat) by (unfold F; rewrite app_length; lia).
  assert (HF2 : (8 * length (s ++ t) < F)%nat) by (unfold F; lia).
  rewrite (inflate_form dict s F HF1), (inflate_form dict (s ++ t) F HF2).
  pose proof (run_shape F dict s HF1) as Hs.
  pose proof (run_shape F dict (s ++ t) HF2) as Hs2.
  pose proof (run_ext F dict s t) as He.
  destruct (run_len F dict (s ++ t)) as [_ Ha].
  pose proof (blen_bytes (s ++ t)) as Hb.
  destruct (run F dict s) as [a b|a b|a b x]; cbn [fin finish status]; try discriminate.
  intros Hx; subst x. cbn [ext_rel] in He. destruct He as [_ [_ H3]].
  destruct (run F dict (s ++ t)) as [a2 b2|a2 b2|a2 b2 y]; cbn [fin finish status bitpos bs_of is_succ] in *.
  - destruct Hs2.
  - intros _. specialize (H3 I). unfold after in Ha.
    change (bp (bs_of_bytes (s ++ t))) with 0 in Ha.
    rewrite app_length in Hb. rewrite bits_len in H3. lia.
  - intros Hy; subst y. destruct Hs2; discriminate.
Qed.

Theorem inflate_done_exact : inflate_done_exact_statement.
Proof.
  intros dict s Hd. cbv zeta.
  set (p := bitpos (inflate dict s)).
  set (n := N.to_nat ((p + 7) / 8)).
  pose proof (inflate_done_length dict s Hd) as Hlen. fold p in Hlen.
  pose proof (inflate_mono dict (firstn n s) (skipn n s)) as Hm. cbv zeta in Hm.
  pose proof (inflate_need dict (firstn n s) (skipn n s)) as Hn.
  rewrite (firstn_skipn n s) in Hm, Hn.
  destruct (status (inflate dict (firstn n s))) eqn:E.
  - symmetry. exact Hm.
  - specialize (Hn eq_refl Hd). fold p in Hn.
    rewrite firstn_length in Hn.
    pose proof (N.div_mod' (p + 7) 8) as Hdm.
    pose proof (N.mod_lt (p + 7) 8 ltac:(lia)) as Hml.
    exfalso. unfold n in Hn. lia.
  - destruct Hm as [Hm _]. congruence.
  - destruct Hm.
Qed.

Print Assumptions inflate_never_fuel.
Print Assumptions inflate_mono.
Print Assumptions inflate_need.
Print Assumptions inflate_done_length.
Print Assumptions inflate_done_exact.
