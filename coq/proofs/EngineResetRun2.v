(* EngineResetRun2.v -- Reset simulation, decode level: decodeHuffman, decodeLiteralBlock,
   decomp_loop and decomperss on a "reused" state (stale tables / scratch / history) and a "new"
   one with the same live fields. *)
From Verif Require Import Base Engine EngineReset EngineResetSpec EngineSafetyBase EngineResetDefs.
From Verif Require Import EngineResetRun1.
From Coq Require Import List NArith ZArith Bool Lia ZifyBool ZifyNat ZifyN.
Import ListNotations.
Open Scope N_scope.

(* ---------------------------------------------------------------- byteCopy *)
Lemma byteCopy_nat_agree : forall n h1 h2 curr dist,
  agree curr h1 h2 -> 1 <= dist -> dist <= curr ->
  agree (curr + N.of_nat n) (byteCopy_nat n h1 curr dist) (byteCopy_nat n h2 curr dist).
Proof.
  induction n as [|n IH]; intros h1 h2 curr dist Ha H1 H2; cbn [byteCopy_nat].
  - replace (curr + N.of_nat 0) with curr by lia. exact Ha.
  - replace (curr + N.of_nat (S n)) with ((curr + 1) + N.of_nat n) by lia.
    apply IH; [|lia|lia]. rewrite (Ha (curr - dist)) by lia. apply agree_aset_next. exact Ha.
Qed.

Lemma byteCopy_agree : forall h1 h2 curr dist len,
  agree curr h1 h2 -> 1 <= dist -> dist <= curr ->
  agree (curr + len) (byteCopy h1 curr dist len) (byteCopy h2 curr dist len).
Proof.
  intros h1 h2 curr dist len Ha H1 H2. unfold byteCopy.
  replace (curr + len) with (curr + N.of_nat (N.to_nat len)) by lia.
  apply byteCopy_nat_agree; assumption.
Qed.

(* ---------------------------------------------------------------- core and the setters *)
Lemma core_set_wov : forall s1 s2 a b, core s1 = core s2 -> core (set_wov s1 a b) = core (set_wov s2 a b).
Proof. intros s1 s2 a b H. rewrite (core_eq_ex _ _ H). reflexivity. Qed.
Lemma core_set_cov : forall s1 s2 a b, core s1 = core s2 -> core (set_cov s1 a b) = core (set_cov s2 a b).
Proof. intros s1 s2 a b H. rewrite (core_eq_ex _ _ H). reflexivity. Qed.
Lemma core_end_of_block : forall s1 s2, core s1 = core s2 -> core (end_of_block s1) = core (end_of_block s2).
Proof. intros s1 s2 H. rewrite (core_eq_ex _ _ H). reflexivity. Qed.
Lemma core_set_rd : forall s1 s2 b, core s1 = core s2 -> core (set_rd s1 b) = core (set_rd s2 b).
Proof. intros s1 s2 b H. rewrite (core_eq_ex _ _ H). reflexivity. Qed.
Lemma core_set_phase : forall s1 s2 p, core s1 = core s2 -> core (set_phase s1 p) = core (set_phase s2 p).
Proof. intros s1 s2 p H. rewrite (core_eq_ex _ _ H). reflexivity. Qed.
Lemma core_set_roffset : forall s1 s2 p, core s1 = core s2 -> core (set_roffset s1 p) = core (set_roffset s2 p).
Proof. intros s1 s2 p H. rewrite (core_eq_ex _ _ H). reflexivity. Qed.
Lemma core_set_inputNil : forall s1 s2 p, core s1 = core s2 -> core (set_inputNil s1 p) = core (set_inputNil s2 p).
Proof. intros s1 s2 p H. rewrite (core_eq_ex _ _ H). reflexivity. Qed.

Lemma core_ov : forall s1 s2, core s1 = core s2 -> ov s1 = ov s2.
Proof. intros s1 s2 H. apply core_fields in H. tauto. Qed.
Lemma core_phase : forall s1 s2, core s1 = core s2 -> phase s1 = phase s2.
Proof. intros s1 s2 H. apply core_fields in H. tauto. Qed.
Lemma core_rd : forall s1 s2, core s1 = core s2 -> rd s1 = rd s2.
Proof. intros s1 s2 H. apply core_fields in H. tauto. Qed.

(* ---------------------------------------------------------------- huff_inner *)
Definition cov_ok (s : inflate) (w : N) : Prop :=
  copyOverflowLength (ov s) = 0 \/
  (1 <= copyOverflowDistance (ov s) /\ copyOverflowDistance (ov s) <= w).

Definition st_ok (s1 s2 : inflate) : Prop :=
  core s1 = core s2 /\ lookups_eq (tb s1) (tb s2) /\ writeOverflowLen (ov s1) <= 3.

Definition hres_rel (r1 r2 : hres) : Prop :=
  match r1, r2 with
  | HCont s1 b1 o1 w1, HCont s2 b2 o2 w2 =>
    st_ok s1 s2 /\ b1 = b2 /\ w1 = w2 /\ agree w1 o1 o2 /\ copyOverflowLength (ov s1) = 0
  | HFin s1 b1 o1 w1 e1, HFin s2 b2 o2 w2 e2 =>
    st_ok s1 s2 /\ b1 = b2 /\ w1 = w2 /\ e1 = e2 /\ agree w1 o1 o2 /\ cov_ok s1 w1
  | _, _ => False
  end.

Lemma hfin_rel : forall s1 s2 b o1 o2 w e,
  st_ok s1 s2 -> agree w o1 o2 -> copyOverflowLength (ov s1) = 0 ->
  hres_rel (HFin s1 b o1 w e) (HFin s2 b o2 w e).
Proof.
  intros s1 s2 b o1 o2 w e Hs Ha Hc. cbn [hres_rel].
  split; [exact Hs|]. split; [reflexivity|]. split; [reflexivity|]. split; [reflexivity|].
  split; [exact Ha|]. left. exact Hc.
Qed.

Lemma rfc_dist_start_ge1 : forall nd, nd < 30 -> 1 <= aget rfc_dist_start nd.
Proof.
  intros nd H. assert (Hk : nd = N.of_nat (N.to_nat nd)) by lia.
  rewrite Hk. assert (Hlt : (N.to_nat nd < 30)%nat) by lia.
  generalize dependent (N.to_nat nd). intros k _ Hlt.
  do 30 (destruct k as [|k]; [vm_compute; discriminate|]). lia.
Qed.

Definition K_ok (wT : N) (K : inflate -> bitrd -> arr -> N -> hres) : Prop :=
  forall s1 s2 b o1 o2 w,
    st_ok s1 s2 -> copyOverflowLength (ov s1) = 0 -> agree w o1 o2 -> wT <= w ->
    hres_rel (K s1 b o1 w) (K s2 b o2 w).

Lemma step2_body_rel : forall K s1 s2 bT wT o1 o2 w rl b dist,
  K_ok wT K ->
  st_ok s1 s2 -> copyOverflowLength (ov s1) = 0 -> agree w o1 o2 -> wT <= w ->
  ((r_len b <? 0)%Z = false -> 1 <= dist) ->
  hres_rel (step2_body K s1 bT wT o1 w rl b dist) (step2_body K s2 bT wT o2 w rl b dist).
Proof.
  intros K s1 s2 bT wT o1 o2 w rl b dist HK Hs Hc Ha Hw Hd. unfold step2_body.
  destruct Hs as (Hcore & Hlk & Hwov).
  destruct (r_len b <? 0)%Z eqn:E1.
  { apply hfin_rel.
    - split; [apply core_set_wov; exact Hcore|]. split; [exact Hlk|]. cbn. lia.
    - eapply agree_le; eauto.
    - exact Hc. }
  specialize (Hd eq_refl).
  destruct (w <? dist) eqn:E2.
  { apply hfin_rel; [split; [exact Hcore|split; [exact Hlk|exact Hwov]]|exact Ha|exact Hc]. }
  destruct (outLen - w <? rl) eqn:E3.
  - change (copyOverflowLength (ov (set_cov s1 (rl - (outLen - w)) dist))) with (rl - (outLen - w)).
    change (copyOverflowLength (ov (set_cov s2 (rl - (outLen - w)) dist))) with (rl - (outLen - w)).
    assert (Hs' : st_ok (set_cov s1 (rl - (outLen - w)) dist) (set_cov s2 (rl - (outLen - w)) dist)).
    { split; [apply core_set_cov; exact Hcore|]. split; [exact Hlk|exact Hwov]. }
    assert (Ha' : agree (w + (outLen - w)) (byteCopy o1 w dist (outLen - w)) (byteCopy o2 w dist (outLen - w))).
    { apply byteCopy_agree; [exact Ha|exact Hd|lia]. }
    destruct (0 <? rl - (outLen - w)) eqn:E4.
    + cbn [hres_rel]. split; [exact Hs'|]. split; [reflexivity|]. split; [reflexivity|].
      split; [reflexivity|]. split; [exact Ha'|]. right. cbn. lia.
    + apply HK; [exact Hs'| |exact Ha'|lia]. cbn. lia.
  - pose proof (core_ov _ _ Hcore) as Hov. rewrite <- Hov. rewrite Hc.
    change (0 <? 0) with false. cbv iota.
    apply HK; [split; [exact Hcore|split; [exact Hlk|exact Hwov]]|exact Hc| |lia].
    apply byteCopy_agree; [exact Ha|exact Hd|lia].
Qed.

Lemma len_branch_rel : forall K s1 s2 bT wT o1 o2 w rl b,
  K_ok wT K ->
  st_ok s1 s2 -> copyOverflowLength (ov s1) = 0 -> agree w o1 o2 -> wT <= w ->
  hres_rel (len_branch K s1 bT wT o1 w rl b) (len_branch K s2 bT wT o2 w rl b).
Proof.
  intros K s1 s2 bT wT o1 o2 w rl b HK Hs Hc Ha Hw. unfold len_branch.
  destruct (load_le15 b) as [b1|]; [|apply hfin_rel; assumption].
  pose proof Hs as (Hcore & (Hlit & Hdist) & Hwov).
  rewrite (Hdist b1).
  destruct (dist_decode (tb s2) b1) as [[nd b2]|]; [|apply hfin_rel; assumption].
  destruct (0 <=? r_len b2)%Z eqn:E0.
  - destruct (distLen <=? nd) eqn:E1; [apply hfin_rel; assumption|].
    destruct (load_lt57 b2) as [b3|]; [|apply hfin_rel; assumption].
    unfold next_bits. apply step2_body_rel; try assumption.
    intros _. pose proof (rfc_dist_start_ge1 nd) as Hge. unfold distLen in E1. lia.
  - apply step2_body_rel; try assumption. intros Hn. lia.
Qed.

Lemma huff_inner_rel : forall fuel s1 s2 b o1 o2 w sc nl bT wT,
  st_ok s1 s2 -> copyOverflowLength (ov s1) = 0 -> agree w o1 o2 -> wT <= w -> sc <= 3 ->
  hres_rel (huff_inner fuel s1 b o1 w sc nl bT wT) (huff_inner fuel s2 b o2 w sc nl bT wT).
Proof.
  induction fuel as [|f IH]; intros s1 s2 b o1 o2 w sc nl bT wT Hs Hc Ha Hw Hsc.
  - cbn [huff_inner]. apply hfin_rel; assumption.
  - rewrite !huff_inner_S. cbv zeta.
    pose proof Hs as (Hcore & Hlk & Hwov).
    destruct (sc =? 0) eqn:E0.
    { cbn [hres_rel]. split; [exact Hs|]. split; [reflexivity|]. split; [reflexivity|].
      split; [exact Ha|exact Hc]. }
    destruct ((N.land nl 65535 <? 256) || (1 <? sc)).
    + destruct (w =? outLen).
      * assert (Hs1 : st_ok (set_wov s1 nl sc) (set_wov s2 nl sc)).
        { split; [apply core_set_wov; exact Hcore|]. split; [exact Hlk|]. cbn. exact Hsc. }
        destruct (N.shiftr nl (8 * (sc - 1)) <? 256); [apply hfin_rel; assumption|].
        assert (Hs2 : st_ok
          (set_wov (set_wov s1 nl sc) (writeOverflowLits (ov (set_wov s1 nl sc)))
                   (writeOverflowLen (ov (set_wov s1 nl sc)) - 1))
          (set_wov (set_wov s2 nl sc) (writeOverflowLits (ov (set_wov s2 nl sc)))
                   (writeOverflowLen (ov (set_wov s2 nl sc)) - 1))).
        { split; [|split; [exact Hlk|cbn; lia]].
          change (writeOverflowLits (ov (set_wov s1 nl sc))) with nl.
          change (writeOverflowLits (ov (set_wov s2 nl sc))) with nl.
          change (writeOverflowLen (ov (set_wov s1 nl sc))) with sc.
          change (writeOverflowLen (ov (set_wov s2 nl sc))) with sc.
          apply core_set_wov, core_set_wov. exact Hcore. }
        destruct (N.shiftr nl (8 * (sc - 1)) =? 256).
        -- apply hfin_rel; [|exact Ha|exact Hc].
           destruct Hs2 as (A & B & C). split; [apply core_end_of_block; exact A|]. split; [exact B|exact C].
        -- apply IH; try assumption. lia.
      * apply IH; try assumption; [|lia|lia]. apply agree_aset_next. exact Ha.
    + destruct (N.land nl 65535 =? 256).
      * apply IH; try assumption; [|lia].
        split; [apply core_end_of_block; exact Hcore|]. split; [exact Hlk|exact Hwov].
      * destruct (N.land nl 65535 <=? maxLitLenSym); [|apply hfin_rel; assumption].
        apply len_branch_rel; try assumption.
        intros s1' s2' b' o1' o2' w' Hs' Hc' Ha' Hw'. apply IH; try assumption. lia.
Qed.

(* ---------------------------------------------------------------- huff_outer / decodeHuffman *)
Lemma litlen_sc_le3 : forall t b b' sc nl, litlen_decode t b = Some (b', sc, nl) -> sc <= 3.
Proof.
  intros t b b' sc nl H. unfold litlen_decode in H.
  destruct (N.land (aget (litShort t) (N.land (r_bits b) 4095)) largeFlagBit =? 0).
  - apply Some3_inj in H. destruct H as (_ & H & _). subst sc. apply land_le_r.
  - match type of H with (if ?c then _ else _) = _ => destruct c; [discriminate|] end.
    apply Some3_inj in H. destruct H as (_ & H & _). subst sc. lia.
Qed.

(* the conditional table relation of the outer levels *)
Definition tb_ok (s1 s2 : inflate) : Prop :=
  phase s1 = phaseHeaderDecoded -> lookups_eq (tb s1) (tb s2).

Definition out_rel (r1 r2 : inflate * bitrd * arr * N * ierr) : Prop :=
  let '(s1, b1, o1, w1, e1) := r1 in
  let '(s2, b2, o2, w2, e2) := r2 in
  core s1 = core s2 /\ tb_ok s1 s2 /\ writeOverflowLen (ov s1) <= 3 /\
  b1 = b2 /\ w1 = w2 /\ e1 = e2 /\ agree w1 o1 o2 /\ cov_ok s1 w1.

Lemma out_rel_intro : forall s1 s2 b o1 o2 w e,
  core s1 = core s2 -> tb_ok s1 s2 -> writeOverflowLen (ov s1) <= 3 -> agree w o1 o2 -> cov_ok s1 w ->
  out_rel (s1, b, o1, w, e) (s2, b, o2, w, e).
Proof.
  intros s1 s2 b o1 o2 w e H1 H2 H3 H4 H5. unfold out_rel.
  split; [exact H1|]. split; [exact H2|]. split; [exact H3|]. split; [reflexivity|].
  split; [reflexivity|]. split; [reflexivity|]. split; [exact H4|exact H5].
Qed.

Lemma huff_outer_rel : forall fuel s1 s2 b o1 o2 w,
  core s1 = core s2 -> tb_ok s1 s2 -> writeOverflowLen (ov s1) <= 3 ->
  copyOverflowLength (ov s1) = 0 -> agree w o1 o2 ->
  out_rel (huff_outer fuel s1 b o1 w) (huff_outer fuel s2 b o2 w).
Proof.
  induction fuel as [|f IH]; intros s1 s2 b o1 o2 w Hcore Htb Hwov Hc Ha.
  - cbn [huff_outer]. apply out_rel_intro; try assumption. left; exact Hc.
  - rewrite !huff_outer_S. rewrite <- (core_phase _ _ Hcore).
    assert (Hcov : cov_ok s1 w) by (left; exact Hc).
    destruct (phase s1 =? phaseHeaderDecoded) eqn:Eph; [|apply out_rel_intro; assumption].
    apply N.eqb_eq in Eph. pose proof (Htb Eph) as Hlk.
    destruct (load_lt57 b) as [b0|]; [|apply out_rel_intro; assumption].
    destruct (load_le15 b0) as [b1|]; [|apply out_rel_intro; assumption].
    rewrite (proj1 Hlk b1).
    destruct (litlen_decode (tb s2) b1) as [[[b2 sc] nl]|] eqn:El; [|apply out_rel_intro; assumption].
    apply litlen_sc_le3 in El.
    destruct (sc =? 0); [apply out_rel_intro; assumption|].
    destruct (r_len b2 <? 0)%Z; [apply out_rel_intro; assumption|].
    assert (Hs : st_ok s1 s2) by (split; [exact Hcore|split; [exact Hlk|exact Hwov]]).
    pose proof (huff_inner_rel 8 s1 s2 b2 o1 o2 w sc nl b0 w Hs Hc Ha (N.le_refl w) El) as Hi.
    destruct (huff_inner 8 s1 b2 o1 w sc nl b0 w) as [s1' b1' o1' w1'|s1' b1' o1' w1' e1'];
      destruct (huff_inner 8 s2 b2 o2 w sc nl b0 w) as [s2' b2' o2' w2'|s2' b2' o2' w2' e2'];
      cbn [hres_rel] in Hi; try contradiction.
    + destruct Hi as ((A & B & C) & <- & <- & D & E).
      apply IH; try assumption. intros _. exact B.
    + destruct Hi as ((A & B & C) & <- & <- & <- & D & E).
      apply out_rel_intro; try assumption. intros _. exact B.
Qed.

Definition res_rel (r1 r2 : inflate * arr * N * ierr) : Prop :=
  let '(s1, o1, w1, e1) := r1 in
  let '(s2, o2, w2, e2) := r2 in
  core s1 = core s2 /\ tb_ok s1 s2 /\ writeOverflowLen (ov s1) <= 3 /\
  w1 = w2 /\ e1 = e2 /\ agree w1 o1 o2 /\ cov_ok s1 w1.

Lemma decodeHuffman_F_rel : forall F s1 s2 o1 o2 w,
  core s1 = core s2 -> tb_ok s1 s2 -> writeOverflowLen (ov s1) <= 3 -> agree w o1 o2 ->
  res_rel (decodeHuffman_F F s1 o1 w) (decodeHuffman_F F s2 o2 w).
Proof.
  intros F s1 s2 o1 o2 w Hcore Htb Hwov Ha. unfold decodeHuffman_F. cbv zeta.
  assert (Hrd : rd (set_cov s1 0 0) = rd (set_cov s2 0 0)).
  { change (rd s1 = rd s2). apply core_rd. exact Hcore. }
  rewrite Hrd.
  pose proof (huff_outer_rel F (set_cov s1 0 0) (set_cov s2 0 0) (rd (set_cov s2 0 0)) o1 o2 w
                (core_set_cov _ _ 0 0 Hcore) Htb Hwov eq_refl Ha) as H.
  destruct (huff_outer F (set_cov s1 0 0) (rd (set_cov s2 0 0)) o1 w) as [[[[s1' b1] o1'] w1] e1].
  destruct (huff_outer F (set_cov s2 0 0) (rd (set_cov s2 0 0)) o2 w) as [[[[s2' b2] o2'] w2] e2].
  unfold out_rel in H. destruct H as (A & B & C & <- & <- & <- & D & E).
  destruct (r_len b1 <? 0)%Z.
  - unfold res_rel. split; [apply core_set_rd; exact A|]. split; [exact B|]. split; [exact C|].
    split; [reflexivity|]. split; [reflexivity|]. split; [exact D|exact E].
  - unfold res_rel. split; [apply core_set_rd; exact A|]. split; [exact B|]. split; [exact C|].
    split; [reflexivity|]. split; [reflexivity|]. split; [exact D|exact E].
Qed.

Lemma decodeHuffman_rel : forall s1 s2 o1 o2 w,
  core s1 = core s2 -> tb_ok s1 s2 -> writeOverflowLen (ov s1) <= 3 -> agree w o1 o2 ->
  res_rel (decodeHuffman s1 o1 w) (decodeHuffman s2 o2 w).
Proof.
  intros s1 s2 o1 o2 w H1 H2 H3 H4.
  rewrite (decodeHuffman_eq s1 o1 w), (decodeHuffman_eq s2 o2 w).
  apply decodeHuffman_F_rel; assumption.
Qed.

(* ---------------------------------------------------------------- decodeLiteralBlock *)
Definition ld_rel (w : N) (r1 r2 : option (bitrd * arr * N * N * bool)) : Prop :=
  match r1, r2 with
  | None, None => True
  | Some (b1, o1, w1, c1, f1), Some (b2, o2, w2, c2, f2) =>
    b1 = b2 /\ w1 = w2 /\ c1 = c2 /\ f1 = f2 /\ agree w1 o1 o2 /\ w <= w1
  | _, _ => False
  end.

Lemma ld_rel_weaken : forall w w' r1 r2, w <= w' -> ld_rel w' r1 r2 -> ld_rel w r1 r2.
Proof.
  intros w w' r1 r2 Hw H. destruct r1 as [[[[[b1 o1] w1] c1] f1]|]; destruct r2 as [[[[[b2 o2] w2] c2] f2]|];
    cbn [ld_rel] in *; try exact H.
  destruct H as (A & B & C & D & E & F). repeat split; try assumption. lia.
Qed.

Lemma lit_drain_rel : forall fuel b o1 o2 w c len,
  agree w o1 o2 -> ld_rel w (lit_drain fuel b o1 w c len) (lit_drain fuel b o2 w c len).
Proof.
  induction fuel as [|f IH]; intros b o1 o2 w c len Ha; cbn [lit_drain].
  - exact I.
  - destruct (r_len b =? 0)%Z.
    + cbn [ld_rel]. repeat split; try assumption. lia.
    + destruct (c + 1 =? len).
      * cbn [ld_rel]. repeat split; [apply agree_aset_next; exact Ha|lia].
      * apply (ld_rel_weaken w (w + 1)); [lia|]. apply IH. apply agree_aset_next. exact Ha.
Qed.

Lemma copy_list_rel : forall n l o1 o2 pos,
  agree pos o1 o2 ->
  snd (copy_list l n o1 pos) = snd (copy_list l n o2 pos) /\
  agree (pos + N.min (N.of_nat n) (N.of_nat (length l)))
        (fst (copy_list l n o1 pos)) (fst (copy_list l n o2 pos)).
Proof.
  induction n as [|n IH]; intros l o1 o2 pos Ha.
  - destruct l as [|x r]; cbn [copy_list fst snd]; (split; [reflexivity|]);
      (replace (pos + _) with pos by (cbn [length]; lia)); exact Ha.
  - destruct l as [|x r]; cbn [copy_list].
    + cbn [fst snd]. split; [reflexivity|]. replace (pos + _) with pos by (cbn [length]; lia). exact Ha.
    + destruct (IH r (aset o1 pos x) (aset o2 pos x) (pos + 1) (agree_aset_next _ _ _ _ Ha)) as (A & B).
      split; [exact A|]. replace (pos + _) with (pos + 1 + N.min (N.of_nat n) (N.of_nat (length r)))
        by (cbn [length]; lia). exact B.
Qed.

Definition lit_rel (s1 : inflate) (w : N) (r1 r2 : inflate * arr * N * ierr) : Prop :=
  let '(s1', o1', w1, e1) := r1 in
  let '(s2', o2', w2, e2) := r2 in
  core s1' = core s2' /\ ov s1' = ov s1 /\ phase s1' <> phaseHeaderDecoded /\
  w1 = w2 /\ e1 = e2 /\ w <= w1 /\ agree w1 o1' o2'.

Ltac both_if := match goal with |- context [if ?c then _ else _] => destruct c eqn:? end.

Lemma decodeLiteralBlock_rel : forall s1 s2 o1 o2 w,
  core s1 = core s2 -> agree w o1 o2 -> inlen_ok (rd s1) ->
  lit_rel s1 w (decodeLiteralBlock s1 o1 w) (decodeLiteralBlock s2 o2 w).
Proof.
  intros s1 s2 o1 o2 w Hcore Ha Hin.
  pose proof (core_eq_ex _ _ Hcore) as Hs1. clear Hcore.
  revert Hs1. generalize (tb s1) (dyn s1). intros t d Hs1. subst s1.
  destruct s2 as [rd0 nil0 ov0 tb0 ph bf lbl hb hbuf dyn0 ro].
  unfold decodeLiteralBlock.
  cbn [set_dyn set_tb set_phase set_rd set_litBlockLength rd inputNil ov tb phase bfinal litBlockLength
       headerBuffered headerBuffer dyn roffset] in *.
  repeat (both_if; cbv beta iota zeta;
    cbn [set_dyn set_tb set_phase set_rd set_litBlockLength rd inputNil ov tb phase bfinal litBlockLength
       headerBuffered headerBuffer dyn roffset]).
  all: try (match goal with Ha' : agree _ ?x1 ?x2 |- context [lit_drain 16 ?b ?x1 ?ww ?c ?L] =>
         pose proof (lit_drain_rel 16 b x1 x2 ww c L Ha') as Hd;
         destruct (lit_drain 16 b x1 ww c L) as [[[[[b1 oa] wa] ca] fa]|] eqn:E1;
         destruct (lit_drain 16 b x2 ww c L) as [[[[[b2 ob] wb] cb] fb]|];
         cbn [ld_rel] in Hd; try contradiction end).
  all: try (match goal with Hd' : _ /\ _ |- _ => destruct Hd' as (<- & <- & <- & <- & Hag & Hle) end;
            match goal with E1' : lit_drain _ _ _ _ _ _ = Some _, Hin' : inlen_ok _ |- _ =>
              apply lit_drain_same in E1'; pose proof (same_in_ok _ _ E1' Hin') as Hb1 end;
            match goal with |- context [match ?fa with true => _ | false => _ end] => destruct fa end).
  all: try (match goal with Hag' : agree ?p ?xa ?xb |- context [copy_list ?l ?n ?xa ?p] =>
         pose proof (copy_list_rel n l xa xb p Hag') as (Hc1 & Hc2);
         destruct (copy_list l n xa p) as [oa' ra];
         destruct (copy_list l n xb p) as [ob' rb]; cbn [fst snd] in Hc1, Hc2; subst rb end).
  all: unfold lit_rel; cbv beta iota; (split; [reflexivity|]); (split; [reflexivity|]);
       (split; [cbn [set_dyn set_tb set_phase set_rd set_litBlockLength phase];
                unfold phaseLitBlock, phaseStreamEnd, phaseNewBlock, phaseHeaderDecoded; lia|]);
       (split; [reflexivity|]); (split; [reflexivity|]); (split; [try lia|try assumption]).
  all: eapply agree_le; [|exact Hc2]; unfold inlen_ok in Hb1; lia.
Qed.

(* ---------------------------------------------------------------- decomp_loop *)
Lemma res_rel_intro : forall s1 s2 o1 o2 w e,
  core s1 = core s2 -> tb_ok s1 s2 -> writeOverflowLen (ov s1) <= 3 -> agree w o1 o2 -> cov_ok s1 w ->
  res_rel (s1, o1, w, e) (s2, o2, w, e).
Proof.
  intros s1 s2 o1 o2 w e H1 H2 H3 H4 H5. unfold res_rel.
  split; [exact H1|]. split; [exact H2|]. split; [exact H3|]. split; [reflexivity|].
  split; [reflexivity|]. split; [exact H4|exact H5].
Qed.

Lemma decomp_loop_rel : readHeader_sim_statement ->
  forall fuel s1 s2 o1 o2 idx,
  core s1 = core s2 -> tb_ok s1 s2 -> writeOverflowLen (ov s1) <= 3 -> cov_ok s1 idx ->
  agree idx o1 o2 -> sinv s1 ->
  res_rel (decomp_loop fuel s1 o1 idx) (decomp_loop fuel s2 o2 idx).
Proof.
  intros HRH. induction fuel as [|f IH]; intros s1 s2 o1 o2 idx Hcore Htb Hwov Hcov Ha Hinv.
  - cbn [decomp_loop]. apply res_rel_intro; assumption.
  - cbn [decomp_loop]. rewrite <- (core_phase _ _ Hcore).
    destruct (phase s1 =? phaseStreamEnd); [apply res_rel_intro; assumption|].
    assert (Htail : forall s1' s2',
      core s1' = core s2' -> tb_ok s1' s2' -> writeOverflowLen (ov s1') <= 3 -> cov_ok s1' idx ->
      sinv s1' ->
      res_rel
        (let '(s, out, idx0, err) :=
           if phase s1' =? phaseLitBlock then decodeLiteralBlock s1' o1 idx else decodeHuffman s1' o1 idx in
         match err with ENone => decomp_loop f s out idx0 | _ => (s, out, idx0, err) end)
        (let '(s, out, idx0, err) :=
           if phase s2' =? phaseLitBlock then decodeLiteralBlock s2' o2 idx else decodeHuffman s2' o2 idx in
         match err with ENone => decomp_loop f s out idx0 | _ => (s, out, idx0, err) end)).
    { intros s1' s2' Hc' Htb' Hwov' Hcov' Hinv'. rewrite <- (core_phase _ _ Hc').
      destruct (phase s1' =? phaseLitBlock).
      - pose proof (decodeLiteralBlock_rel s1' s2' o1 o2 idx Hc' Ha (proj1 Hinv')) as H.
        pose proof (decodeLiteralBlock_inv s1' o1 idx Hinv') as Hi.
        destruct (decodeLiteralBlock s1' o1 idx) as [[[a1 b1] c1] e1].
        destruct (decodeLiteralBlock s2' o2 idx) as [[[a2 b2] c2] e2].
        unfold res_s in Hi. cbn [fst] in Hi.
        unfold lit_rel in H. destruct H as (A & B & C & <- & <- & D & E).
        assert (Htb2 : tb_ok a1 a2) by (intros Hph; contradiction).
        assert (Hwov2 : writeOverflowLen (ov a1) <= 3) by (rewrite B; exact Hwov').
        assert (Hcov2 : cov_ok a1 c1).
        { unfold cov_ok in *. rewrite B. destruct Hcov' as [Hq|Hq]; [left; exact Hq|right; lia]. }
        destruct e1; try (apply res_rel_intro; assumption).
        apply IH; assumption.
      - pose proof (decodeHuffman_rel s1' s2' o1 o2 idx Hc' Htb' Hwov' Ha) as H.
        destruct (decodeHuffman s1' o1 idx) as [[[a1 b1] c1] e1] eqn:E1.
        destruct (decodeHuffman s2' o2 idx) as [[[a2 b2] c2] e2].
        apply decodeHuffman_inv in E1; [|exact Hinv'].
        unfold res_rel in H. destruct H as (A & B & C & <- & <- & D & E).
        destruct e1; try (apply res_rel_intro; assumption).
        apply IH; assumption. }
    destruct ((phase s1 =? phaseNewBlock) || (phase s1 =? phaseDecodingHeader)) eqn:Eh.
    + destruct (readHeader s1) as [s1' e1] eqn:R1. destruct (readHeader s2) as [s2' e2] eqn:R2.
      assert (Hph : phase s1 = phaseNewBlock \/ phase s1 = phaseDecodingHeader).
      { apply orb_true_iff in Eh. destruct Eh as [Eh|Eh]; apply N.eqb_eq in Eh; [left|right]; exact Eh. }
      destruct (HRH s1 s2 s1' e1 s2' e2 Hcore Hph R1 R2) as (<- & Hc' & Hov' & Htb').
      assert (Hwov' : writeOverflowLen (ov s1') <= 3) by (rewrite Hov'; exact Hwov).
      assert (Hcov' : cov_ok s1' idx) by (unfold cov_ok in *; rewrite Hov'; exact Hcov).
      destruct e1; try (apply res_rel_intro; assumption).
      apply Htail; try assumption.
      eapply readHeader_inv; [exact Hinv|exact R1| |]; discriminate.
    + apply Htail; assumption.
Qed.

(* ---------------------------------------------------------------- decomperss *)
Definition ssim (s1 s2 : inflate) : Prop :=
  core s1 = core s2 /\ tb_ok s1 s2 /\
  writeOverflowLen (ov s1) = 0 /\ copyOverflowLength (ov s1) = 0.

Definition dsim (f1 f2 : decompressor) : Prop :=
  ssim (state f1) (state f2) /\ writePos f1 = writePos f2 /\ readPos f1 = readPos f2 /\
  agree (writePos f1) (hist f1) (hist f2) /\ rBuf f1 = rBuf f2 /\ derr f1 = derr f2 /\
  peekSize f1 = peekSize f2 /\ eof f1 = eof f2 /\ haveBits f1 = haveBits f2.

Definition ovf_flush (s : inflate) (h : arr) (idx : N) : inflate * arr * N :=
  let '(s, h, idx) :=
    if negb (writeOverflowLen (ov s) =? 0) then
      let v := u32 (writeOverflowLits (ov s)) in
      let h := aset (aset (aset (aset h idx (N.land v 255)) (idx + 1) (N.land (N.shiftr v 8) 255))
                          (idx + 2) (N.land (N.shiftr v 16) 255)) (idx + 3) (N.shiftr v 24) in
      (set_wov s 0 0, h, idx + writeOverflowLen (ov s))
    else (s, h, idx) in
  if negb (copyOverflowLength (ov s) =? 0) then
    (set_cov s 0 0, byteCopy h idx (copyOverflowDistance (ov s)) (copyOverflowLength (ov s)),
     idx + copyOverflowLength (ov s))
  else (s, h, idx).

Lemma decomperss_F_flush : forall F f,
  decomperss_F F f =
  let '(s, h, idx, err) := decomp_loop F (state f) (hist f) (writePos f) in
  let '(s, h, idx) := ovf_flush s h idx in
  (mkD s idx (readPos f) h (rBuf f) (derr f) (peekSize f) (eof f) (haveBits f), err).
Proof.
  intros F f. unfold decomperss_F, ovf_flush.
  destruct (decomp_loop F (state f) (hist f) (writePos f)) as [[[s h] idx] err].
  destruct (negb (writeOverflowLen (ov s) =? 0)); cbv zeta;
    match goal with |- context [if ?c then _ else _] => destruct c end; reflexivity.
Qed.

Lemma agree_aset4 : forall idx n h1 h2 v0 v1 v2 v3,
  agree idx h1 h2 -> n <= 4 ->
  agree (idx + n) (aset (aset (aset (aset h1 idx v0) (idx + 1) v1) (idx + 2) v2) (idx + 3) v3)
                  (aset (aset (aset (aset h2 idx v0) (idx + 1) v1) (idx + 2) v2) (idx + 3) v3).
Proof.
  intros idx n h1 h2 v0 v1 v2 v3 Ha Hn j Hj. rewrite !aget_aset.
  destruct (N.eqb_spec j (idx + 3)); [reflexivity|].
  destruct (N.eqb_spec j (idx + 2)); [reflexivity|].
  destruct (N.eqb_spec j (idx + 1)); [reflexivity|].
  destruct (N.eqb_spec j idx); [reflexivity|].
  apply Ha. lia.
Qed.

Lemma ovf_flush_rel : forall s1 s2 h1 h2 idx,
  core s1 = core s2 -> tb_ok s1 s2 -> writeOverflowLen (ov s1) <= 3 -> cov_ok s1 idx ->
  agree idx h1 h2 ->
  let '(s1', h1', i1) := ovf_flush s1 h1 idx in
  let '(s2', h2', i2) := ovf_flush s2 h2 idx in
  ssim s1' s2' /\ i1 = i2 /\ agree i1 h1' h2'.
Proof.
  intros s1 s2 h1 h2 idx Hcore Htb Hwov Hcov Ha.
  pose proof (core_eq_ex _ _ Hcore) as Hs1. clear Hcore.
  revert Hs1. generalize (tb s1) (dyn s1). intros t d Hs1. subst s1.
  destruct s2 as [rd0 nil0 ov0 tb0 ph bf lbl hb hbuf dyn0 ro]. destruct ov0 as [wl wn cl cd].
  unfold tb_ok, cov_ok in *.
  cbn [set_dyn set_tb ov tb phase writeOverflowLen writeOverflowLits copyOverflowLength
       copyOverflowDistance] in Htb, Hwov, Hcov.
  unfold ovf_flush.
  cbn [set_dyn set_tb set_wov set_cov set_ov ov tb phase writeOverflowLen writeOverflowLits
       copyOverflowLength copyOverflowDistance].
  destruct (negb (wn =? 0)) eqn:E1; cbv zeta beta iota;
    cbn [set_dyn set_tb set_wov set_cov set_ov ov tb phase writeOverflowLen writeOverflowLits
         copyOverflowLength copyOverflowDistance];
    destruct (negb (cl =? 0)) eqn:E2.
  all: (split; [split; [reflexivity|split;
          [unfold tb_ok; cbn [phase tb set_cov set_wov set_ov set_dyn set_tb]; exact Htb|
           split; cbn [set_dyn set_tb set_wov set_cov set_ov ov writeOverflowLen copyOverflowLength]; lia]]|
         split; [reflexivity|]]).
  - apply byteCopy_agree; [apply agree_aset4; [exact Ha|lia]|lia|lia].
  - apply agree_aset4; [exact Ha|lia].
  - apply byteCopy_agree; [exact Ha|lia|lia].
  - exact Ha.
Qed.

Lemma decomperss_F_rel : readHeader_sim_statement -> forall F f1 f2,
  dsim f1 f2 -> sinv (state f1) ->
  dsim (fst (decomperss_F F f1)) (fst (decomperss_F F f2)) /\
  snd (decomperss_F F f1) = snd (decomperss_F F f2).
Proof.
  intros HRH F f1 f2 Hd Hinv. rewrite !decomperss_F_flush.
  destruct Hd as ((Hcore & Htb & Hwov & Hcov) & Hw & Hr & Ha & Hb & He & Hp & Heof & Hhb).
  rewrite <- Hw, <- Hr, <- Hb, <- He, <- Hp, <- Heof, <- Hhb.
  assert (Hwov' : writeOverflowLen (ov (state f1)) <= 3) by lia.
  assert (Hcov' : cov_ok (state f1) (writePos f1)) by (left; exact Hcov).
  pose proof (decomp_loop_rel HRH F (state f1) (state f2) (hist f1) (hist f2) (writePos f1)
                Hcore Htb Hwov' Hcov' Ha Hinv) as H.
  destruct (decomp_loop F (state f1) (hist f1) (writePos f1)) as [[[s1 h1] i1] e1].
  destruct (decomp_loop F (state f2) (hist f2) (writePos f1)) as [[[s2 h2] i2] e2].
  unfold res_rel in H. destruct H as (A & B & C & <- & <- & D & E).
  pose proof (ovf_flush_rel s1 s2 h1 h2 i1 A B C E D) as H.
  destruct (ovf_flush s1 h1 i1) as [[s1' h1'] i1'].
  destruct (ovf_flush s2 h2 i1) as [[s2' h2'] i2'].
  destruct H as (H1 & <- & H3). cbn [fst snd]. split; [|reflexivity].
  unfold dsim. cbn [state writePos readPos hist rBuf derr peekSize eof haveBits].
  repeat (split; [first [assumption|reflexivity]|]). reflexivity.
Qed.
