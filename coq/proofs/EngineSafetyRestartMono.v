(* EngineSafetyRestartMono.v -- unary facts about the header functions of RModel/Engine.v used by
   the restart proof (EngineSafetyRestart.v): every function only consumes input (mono: r_inlen and
   avail never grow; no precondition), the decomposition of rl_loop / setupDynamicHeader /
   tryDecodeHeader into named pieces, and "the table builders never report EEndInput". *)
From Verif Require Import Engine EngineTables.
From Verif Require Import Base EngineSafetyBase EngineSafetyBits EngineSafetyInv.
From Verif Require Import EngineSafetySmall EngineSafetyRL EngineSafetyExpand EngineSafetyLitLen.
From Verif Require Import EngineSafetyRestartBits.
From Coq Require Import List NArith ZArith Bool Lia ZifyBool ZifyNat ZifyN.
Import ListNotations.
Open Scope N_scope.

(* ---------------------------------------------------------------- codeLenCodes *)
Lemma clc_read3_eq : forall i b h c,
  clc_read3 i (b, h, c) =
  (br_drop b 3, aset h (aget codeLengthOrder i) (hc_set 0 (N.land (r_bits b) (N.ones 3))),
   ainc c (N.land (r_bits b) (N.ones 3))).
Proof. reflexivity. Qed.

Lemma mono_clc_iter : forall n i b h c, mono b (fst (fst (iterN n i clc_read3 (b, h, c)))).
Proof.
  induction n as [|n IH]; intros i b h c; cbn [iterN]; [apply mono_refl|].
  rewrite clc_read3_eq. eapply mono_trans; [apply mono_drop|apply IH].
Qed.

(* the fields codeLenCodes does not touch, and monotonicity *)
Lemma codeLenCodes_unary : forall s hclen s' e,
  codeLenCodes s hclen = (s', e) ->
  mono (rd s) (rd s') /\
  litAndDistHuff (dyn s') = litAndDistHuff (dyn s) /\ litCount (dyn s') = litCount (dyn s) /\
  distCount (dyn s') = distCount (dyn s) /\ litExpandCount (dyn s') = litExpandCount (dyn s).
Proof.
  intros s hclen s' e H. unfold codeLenCodes, forN in H.
  pose proof (mono_clc_iter (N.to_nat (4 - 0)) 0 (rd s) aempty aempty) as M1.
  destruct (iterN (N.to_nat (4 - 0)) 0 clc_read3 (rd s, aempty, aempty)) as [[b1 h1] c1]. cbn [fst] in M1.
  destruct (load_lt57 b1) as [b2|] eqn:EL.
  2:{ apply pair_equal_spec in H. destruct H as [<- <-]. cbn [rd set_rd dyn]. repeat split; try reflexivity; apply M1. }
  pose proof (mono_load_lt57 b1 b2 EL) as M2.
  pose proof (mono_clc_iter (N.to_nat (hclen + 4 - 4)) 4 b2 h1 c1) as M3.
  destruct (iterN (N.to_nat (hclen + 4 - 4)) 4 clc_read3 (b2, h1, c1)) as [[b3 h3] c3]. cbn [fst] in M3.
  assert (M : mono (rd s) b3) by (eapply mono_trans; [exact M1|eapply mono_trans; [exact M2|exact M3]]).
  destruct (r_len b3 <? 0)%Z.
  { apply pair_equal_spec in H. destruct H as [<- <-]. cbn [rd set_rd dyn]. repeat split; try reflexivity; apply M. }
  destruct (setCodes h3 0 19 c3) as [h4 bad].
  destruct bad.
  { apply pair_equal_spec in H. destruct H as [<- <-]. cbn [rd set_rd dyn]. repeat split; try reflexivity; apply M. }
  destruct (gen_small true (clcShort (dyn (set_rd s b3))) (clcLong (dyn (set_rd s b3))) h4 19 c3 19)
    as [[[sh lg] cd] ge].
  apply pair_equal_spec in H. destruct H as [<- <-].
  cbn [rd set_rd set_dyn dyn litAndDistHuff litCount distCount litExpandCount].
  repeat split; try reflexivity; apply M.
Qed.

(* ---------------------------------------------------------------- clc_decode *)
Lemma mono_clc_decode : forall clcS clcL b sym b', clc_decode clcS clcL b = Some (sym, b') -> mono b b'.
Proof.
  intros clcS clcL b sym b' H. unfold clc_decode in H.
  destruct (N.land (aget clcS (N.land (r_bits b) 1023)) smallFlagBit =? 0).
  - apply some_inj in H. apply pair_equal_spec in H. destruct H as [_ <-]. apply mono_drop.
  - match type of H with (if ?c then _ else _) = _ => destruct c end; [discriminate H|].
    apply some_inj in H. apply pair_equal_spec in H. destruct H as [_ <-]. apply mono_drop.
Qed.

(* ---------------------------------------------------------------- rl_loop, decomposed *)
(* the part of one iteration after the code-length symbol was decoded; k = the rest of the loop *)
Definition rl_after (k : rlst -> rlst * ierr) (split endv : Z) (st0 : rlst) (symbol : N) (b : bitrd)
  : rlst * ierr :=
  let st := rl_set_b st0 b in
  if (r_len b <? 0)%Z then
    if (256 <? rl_curr st)%Z && (hc_len (aget (rl_h st) 256) =? 0)
    then (st, EInvalidBlock) else (st, EEndInput)
  else if symbol <? 16 then
    match rl_put st split endv (hc_set 0 symbol) with
    | None => (st, EPanic)
    | Some st => k st
    end
  else if symbol =? 16 then
    match load_raw b with
    | None => (st, EPanic)
    | Some b =>
      let '(ret, b) := next_bits b 2 in
      let st := rl_set_b st b in
      let i := Z.of_N (3 + ret) in
      let curr := rl_curr st in
      let last := (curr + i)%Z in
      let last := if (curr <=? split)%Z && (split <? last)%Z
                  then (last + (286 - split))%Z else last in
      if (endv <? last)%Z || (rl_prev st =? -1)%Z then (st, EInvalidBlock)
      else
        let repCode := aget (rl_h st) (Z.to_N (rl_prev st)) in
        match rl_rep (Z.to_nat i) st split endv repCode with
        | None => (st, EPanic)
        | Some st => k st
        end
    end
  else if (symbol =? 17) || (symbol =? 18) then
    match load_raw b with
    | None => (st, EPanic)
    | Some b =>
      let '(ret, b) := if symbol =? 17 then next_bits b 3 else next_bits b 7 in
      let i := Z.of_N ((if symbol =? 17 then 3 else 11) + ret) in
      let curr := (rl_curr st + i)%Z in
      let prev := (curr - 1)%Z in
      let '(curr, prev, inDist) :=
        if negb (rl_inDist st) && (split <? curr)%Z then
          let curr := (curr + (286 - split))%Z in
          (curr, (if (286 <? curr)%Z then (curr - 1)%Z else prev), true)
        else (curr, prev, rl_inDist st) in
      k (mkRL b (rl_h st) (rl_lc st) (rl_dc st) (rl_ex st) curr prev inDist)
    end
  else (st, EInvalidBlock).

Definition rl_body (k : rlst -> rlst * ierr) (clcS clcL : arr) (split endv : Z) (st : rlst)
  : rlst * ierr :=
  if (rl_curr st <? endv)%Z then
    match load_le15 (rl_b st) with
    | None => (st, EPanic)
    | Some b =>
      match clc_decode clcS clcL b with
      | None => (st, EPanic)
      | Some (symbol, b) => rl_after k split endv st symbol b
      end
    end
  else
    if (endv <? rl_curr st)%Z || (hc_len (aget (rl_h st) 256) =? 0)
    then (st, EInvalidBlock) else (st, ENone).

Lemma rl_loop_S : forall f clcS clcL split endv st,
  rl_loop (S f) clcS clcL split endv st = rl_body (rl_loop f clcS clcL split endv) clcS clcL split endv st.
Proof. reflexivity. Qed.

Lemma rl_set_b_b : forall st b, rl_b (rl_set_b st b) = b.
Proof. reflexivity. Qed.
Lemma rl_set_b_twice : forall st b b', rl_set_b (rl_set_b st b) b' = rl_set_b st b'.
Proof. reflexivity. Qed.
Lemma rl_set_b_self : forall st, rl_set_b st (rl_b st) = st.
Proof. intros []. reflexivity. Qed.

(* rl_put / rl_rep do not look at the reader *)
Lemma rl_put_set_b : forall st b split endv h,
  rl_put (rl_set_b st b) split endv h =
  match rl_put st split endv h with None => None | Some st' => Some (rl_set_b st' b) end.
Proof.
  intros st b split endv h. unfold rl_put, rl_count_inc.
  cbn [rl_set_b rl_curr rl_inDist rl_h rl_lc rl_dc rl_ex rl_b].
  destruct (rl_curr st =? split)%Z.
  - destruct (endv <=? 286)%Z; [reflexivity|]. reflexivity.
  - destruct (endv <=? rl_curr st)%Z; [reflexivity|].
    destruct (rl_inDist st); reflexivity.
Qed.

Lemma rl_rep_set_b : forall n st b split endv h,
  rl_rep n (rl_set_b st b) split endv h =
  match rl_rep n st split endv h with None => None | Some st' => Some (rl_set_b st' b) end.
Proof.
  induction n as [|n IH]; intros st b split endv h; cbn [rl_rep]; [reflexivity|].
  rewrite rl_put_set_b. destruct (rl_put st split endv h) as [st1|]; [|reflexivity]. apply IH.
Qed.

Lemma rl_put_b : forall st split endv h st', rl_put st split endv h = Some st' -> rl_b st' = rl_b st.
Proof.
  intros st split endv h st' H. pose proof (rl_put_set_b st (rl_b st) split endv h) as E.
  rewrite rl_set_b_self, H in E. apply some_inj in E. rewrite E. reflexivity.
Qed.

Lemma rl_rep_b : forall n st split endv h st', rl_rep n st split endv h = Some st' -> rl_b st' = rl_b st.
Proof.
  intros n st split endv h st' H. pose proof (rl_rep_set_b n st (rl_b st) split endv h) as E.
  rewrite rl_set_b_self, H in E. apply some_inj in E. rewrite E. reflexivity.
Qed.

Definition kmono (k : rlst -> rlst * ierr) : Prop := forall st, mono (rl_b st) (rl_b (fst (k st))).

Lemma rl_after_mono : forall k split endv st symbol b,
  kmono k -> mono b (rl_b (fst (rl_after k split endv st symbol b))).
Proof.
  intros k split endv st symbol b Hk. unfold rl_after.
  set (st1 := rl_set_b st b).
  assert (Hb1 : rl_b st1 = b) by reflexivity.
  cbv zeta.
  destruct (r_len b <? 0)%Z.
  { destruct ((256 <? rl_curr st1)%Z && (hc_len (aget (rl_h st1) 256) =? 0)); cbn [fst]; rewrite Hb1; apply mono_refl. }
  destruct (symbol <? 16).
  { destruct (rl_put st1 split endv (hc_set 0 symbol)) as [st2|] eqn:EP.
    - rewrite <- Hb1, <- (rl_put_b _ _ _ _ _ EP). apply Hk.
    - cbn [fst]. rewrite Hb1. apply mono_refl. }
  destruct (symbol =? 16).
  { destruct (load_raw b) as [b3|] eqn:EL; [|cbn [fst]; rewrite Hb1; apply mono_refl].
    pose proof (mono_load_raw b b3 EL) as M3.
    rewrite next_bits_pair. cbv beta iota zeta.
    set (st4 := rl_set_b st1 (br_drop b3 2)).
    assert (M4 : mono b (rl_b st4)).
    { eapply mono_trans; [exact M3|apply mono_drop]. }
    match goal with |- context [if ?c then _ else _] => destruct c end.
    { cbn [fst]. exact M4. }
    match goal with |- context [rl_rep ?n ?s ?a ?bb ?h] => destruct (rl_rep n s a bb h) as [st5|] eqn:ER end.
    - eapply mono_trans; [exact M4|]. rewrite <- (rl_rep_b _ _ _ _ _ _ ER). apply Hk.
    - cbn [fst]. exact M4. }
  destruct ((symbol =? 17) || (symbol =? 18)); [|cbn [fst]; rewrite Hb1; apply mono_refl].
  destruct (load_raw b) as [b3|] eqn:EL; [|cbn [fst]; rewrite Hb1; apply mono_refl].
  pose proof (mono_load_raw b b3 EL) as M3.
  destruct (symbol =? 17); rewrite next_bits_pair; cbv beta iota zeta.
  - match goal with |- context [if ?c then _ else _] => destruct c end; cbv beta iota zeta;
      (eapply mono_trans; [eapply mono_trans; [exact M3|apply (mono_drop b3 3)]|]);
      match goal with |- mono _ (rl_b (fst (k ?s))) => apply (Hk s) end.
  - match goal with |- context [if ?c then _ else _] => destruct c end; cbv beta iota zeta;
      (eapply mono_trans; [eapply mono_trans; [exact M3|apply (mono_drop b3 7)]|]);
      match goal with |- mono _ (rl_b (fst (k ?s))) => apply (Hk s) end.
Qed.

Lemma rl_body_mono : forall k clcS clcL split endv st,
  kmono k -> mono (rl_b st) (rl_b (fst (rl_body k clcS clcL split endv st))).
Proof.
  intros k clcS clcL split endv st Hk. unfold rl_body.
  destruct (rl_curr st <? endv)%Z.
  - destruct (load_le15 (rl_b st)) as [b1|] eqn:EL; [|cbn [fst]; apply mono_refl].
    destruct (clc_decode clcS clcL b1) as [[sym b2]|] eqn:ED; [|cbn [fst]; apply mono_refl].
    eapply mono_trans; [apply (mono_load_le15 _ _ EL)|].
    eapply mono_trans; [apply (mono_clc_decode _ _ _ _ _ ED)|].
    apply rl_after_mono. exact Hk.
  - destruct ((endv <? rl_curr st)%Z || (hc_len (aget (rl_h st) 256) =? 0)); cbn [fst]; apply mono_refl.
Qed.

Lemma rl_loop_mono : forall fuel clcS clcL split endv, kmono (rl_loop fuel clcS clcL split endv).
Proof.
  induction fuel as [|f IH]; intros clcS clcL split endv st.
  - cbn [rl_loop fst]. apply mono_refl.
  - rewrite rl_loop_S. apply rl_body_mono. apply IH.
Qed.

Lemma rld_body_unary : forall fuel s hdist hlit s' e,
  rld_body fuel s hdist hlit = (s', e) -> mono (rd s) (rd s').
Proof.
  intros fuel s hdist hlit s' e H. unfold rld_body in H. cbv zeta in H.
  match type of H with (let '(_, _) := rl_loop ?f ?a ?b ?c ?d ?st0 in _) = _ =>
    pose proof (rl_loop_mono f a b c d st0) as M; destruct (rl_loop f a b c d st0) as [st err] end.
  apply pair_equal_spec in H. destruct H as [<- <-]. cbn [rd set_rd]. exact M.
Qed.

Lemma readLitDistLens_unary : forall s hdist hlit s' e,
  readLitDistLens s hdist hlit = (s', e) -> mono (rd s) (rd s').
Proof.
  intros s hdist hlit s' e H. rewrite rld_body_eq in H. exact (rld_body_unary _ _ _ _ _ _ H).
Qed.

(* ---------------------------------------------------------------- the table builders never say EEndInput *)
Lemma gs_long_step_err : forall fuel hdr cl mx lcs lcl i st,
  snd st <> EEndInput -> snd (gs_long_step fuel hdr cl mx lcs lcl i st) <> EEndInput.
Proof.
  intros fuel hdr cl mx lcs lcl i [[[[short long] codes] lcl0] pan] H. cbn [snd] in H.
  unfold gs_long_step.
  destruct (negb (ierr_eqb pan ENone)); [exact H|].
  destruct (32 <=? lcs + i); [cbn [snd]; discriminate|].
  destruct (hc_code (aget codes (aget cl (lcs + i))) =? 65535); [exact H|].
  cbv zeta.
  destruct (gs_group hdr cl codes lcs lcl i _ _) as [ml tr].
  match goal with |- context [if ?c then _ else _] => destruct c end; [cbn [snd]; discriminate|].
  match goal with |- context [if ?c then _ else _] => destruct c end; [cbn [snd]; discriminate|].
  match goal with |- context [fold_left ?f ?l ?a] => destruct (fold_left f l a) as [[lg cd] pb] end.
  cbn [snd]. destruct pb; discriminate.
Qed.

Lemma gs_long_err : forall fuel hdr short long codes cl mx lcs lcl,
  snd (gs_long fuel hdr short long codes cl mx lcs lcl) <> EEndInput.
Proof.
  intros. unfold gs_long. apply forN_inv.
  - cbn [snd]. discriminate.
  - intros j x _ Hx. apply gs_long_step_err. exact Hx.
Qed.

Lemma gen_small_err : forall hdr short long codes ncodes count mx,
  snd (gen_small hdr short long codes ncodes count mx) <> EEndInput.
Proof.
  intros. rewrite gen_small_eq. cbv zeta.
  destruct (aget (gs_ct count) 16 =? 0); [cbn [snd]; discriminate|].
  destruct (gs_sort codes ncodes (gs_ct count)) as [[cl ctt] pan0].
  destruct pan0; [cbn [snd]; discriminate|].
  match goal with |- context [gs_short ?a ?b ?c ?d ?e ?f ?g ?h] => destruct (gs_short a b c d e f g h) as [sh cs] end.
  match goal with |- context [gs_long ?a ?b ?c ?d ?e ?f ?g ?h ?i] =>
    pose proof (gs_long_err a b c d e f g h i) as HE; destruct (gs_long a b c d e f g h i) as [[[[s1 l1] c1] n1] pan] end.
  cbn [snd] in *. exact HE.
Qed.

Lemma setAndExpand_err : forall d, snd (setAndExpandLitLenHuffCode d) <> EEndInput.
Proof.
  intros d. rewrite setAndExpand_eq.
  destruct (ps_loop1 _ _ _ _) as [[[ex nc] ct] ctmp].
  destruct (ps_loop2 _ _ _) as [[ex2 ct2] ctmp2].
  match goal with |- context [if ?c then _ else _] => destruct c end; [cbn [snd]; discriminate|].
  cbv zeta.
  destruct (calcCodeForLit _ _ _ _) as [[[[h1 cl1] ex1] nc1] p1].
  destruct (expandLenCodes _ _ _ _ _) as [[[[h2 cl2] ex3] nc2] p2].
  cbn [snd]. destruct (p1 || p2); discriminate.
Qed.

Lemma pairs_loop_err : forall fuel short d len i1 iend,
  snd (pairs_loop fuel short d len i1 iend) <> EEndInput.
Proof.
  induction fuel as [|f IH]; intros short d len i1 iend; cbn [pairs_loop]; [cbn [snd]; discriminate|].
  destruct (i1 <? iend); [|cbn [snd]; discriminate].
  cbv zeta.
  match goal with |- context [if ?c then _ else _] => destruct c end; [apply IH|].
  match goal with |- context [if ?c then _ else _] => destruct c end; [cbn [snd]; discriminate|].
  match goal with |- context [if ?c then _ else _] => destruct c end; [cbn [snd]; discriminate|].
  match goal with |- context [forN ?a ?b ?f0 ?s0] => destruct (forN a b f0 s0) as [sh st] end.
  apply IH.
Qed.

Lemma triples_loop2_err : forall fuel short d len s1 l1 c1 i2 iend,
  snd (triples_loop2 fuel short d len s1 l1 c1 i2 iend) <> EEndInput.
Proof.
  induction fuel as [|f IH]; intros short d len s1 l1 c1 i2 iend; cbn [triples_loop2]; [cbn [snd]; discriminate|].
  destruct (i2 <? iend); [|cbn [snd]; discriminate].
  cbv zeta.
  match goal with |- context [if ?c then _ else _] => destruct c end; [apply IH|].
  match goal with |- context [if ?c then _ else _] => destruct c end; [cbn [snd]; discriminate|].
  match goal with |- context [forN ?a ?b ?f0 ?s0] => destruct (forN a b f0 s0) as [sh st] end.
  apply IH.
Qed.

Lemma triples_loop1_err : forall fuel short d len minLen i1 iend,
  snd (triples_loop1 fuel short d len minLen i1 iend) <> EEndInput.
Proof.
  induction fuel as [|f IH]; intros short d len minLen i1 iend; cbn [triples_loop1]; [cbn [snd]; discriminate|].
  destruct (i1 <? iend); [|cbn [snd]; discriminate].
  cbv zeta.
  match goal with |- context [if ?c then _ else _] => destruct c end; [apply IH|].
  match goal with |- context [if ?c then _ else _] => destruct c end; [cbn [snd]; discriminate|].
  match goal with |- context [if ?c then _ else _] => destruct c end; [cbn [snd]; discriminate|].
  match goal with |- context [triples_loop2 ?a ?b ?c ?dd ?e ?f0 ?g ?h ?i] =>
    pose proof (triples_loop2_err a b c dd e f0 g h i) as HE;
    destruct (triples_loop2 a b c dd e f0 g h i) as [sh e2] end.
  cbn [snd] in HE. destruct e2; try (cbn [snd]; exact HE); try apply IH.
Qed.

Lemma gfl_step_err : forall d multisym minLen ll st,
  snd st <> EEndInput -> snd (gfl_step d multisym minLen ll st) <> EEndInput.
Proof.
  intros d multisym minLen ll [[t cs] err] H. cbn [snd] in H. unfold gfl_step.
  destruct err; try (cbn [snd]; exact H).
  cbv zeta.
  destruct (encodeSingles _ d ll) as [t1 pan].
  destruct pan; [cbn [snd]; discriminate|].
  match goal with |- context [if ?c then _ else _] => destruct c end; [cbn [snd]; discriminate|].
  pose proof (pairs_loop_err small_fuel t1 d ll (aget (litCount d) minLen)
                (aget (litCount d) (sub32 ll minLen + 1))) as HP.
  rewrite <- encodePairs_unfold in HP.
  destruct (encodePairs t1 d ll minLen) as [t2 e2]. cbn [snd] in HP.
  destruct e2; try (cbn [snd]; exact HP).
  match goal with |- context [if ?c then _ else _] => destruct c end; [cbn [snd]; discriminate|].
  pose proof (triples_loop1_err small_fuel t2 d ll minLen (aget (litCount d) minLen)
                (aget (litCount d) (sub32 ll (2 * minLen) + 1))) as HT.
  rewrite <- encodeTriples_unfold in HT.
  destruct (encodeTriples t2 d ll minLen) as [t3 e3]. cbn [snd] in *. exact HT.
Qed.

Lemma genForLitLen_err : forall short long d multisym,
  snd (genForLitLen short long d multisym) <> EEndInput.
Proof.
  intros. rewrite genForLitLen_fn. cbv beta zeta.
  destruct (aget (litCount d) 22 =? 0); [cbn [snd]; discriminate|].
  match goal with |- context [forN ?a ?b ?f0 ?s0] =>
    assert (HL : snd (forN a b f0 s0) <> EEndInput);
    [apply forN_inv; [cbn [snd]; discriminate|intros j x _ Hx; apply gfl_step_err; exact Hx]|];
    destruct (forN a b f0 s0) as [[t1 cs1] err1] end.
  cbn [snd] in HL.
  destruct err1; try (cbn [snd]; exact HL).
  destruct (encodeLongCodes t1 long d (aget (litCount d) 22)) as [[[s2 l2] h2] p2].
  cbn [snd]. destruct p2; discriminate.
Qed.

(* ---------------------------------------------------------------- setupDynamicHeader, decomposed *)
(* after the code lengths were read: builds the tables, never touches the bit reader *)
Definition sdh_tail (s : inflate) (multisym : N) : inflate * ierr :=
  let d := dyn s in
  let '(huff, bad) := setCodes (litAndDistHuff d) litLen distLen (distCount d) in
  let d := set_dyn_huff d huff in
  let s := set_dyn s d in
  if bad then (s, EInvalidBlock)
  else
    let codes := forN 0 distLen (fun i t => aset t i (aget huff (litLen + i))) aempty in
    let '(dsh, dlg, codes, gerr) :=
      gen_small false (distShort (tb s)) (distLong (tb s)) codes distLen (distCount d) distLen in
    let huff := forN 0 distLen (fun i t => aset t (litLen + i) (aget codes i)) huff in
    let d := set_dyn_huff d huff in
    let s := set_dyn (set_tb s (mkTB (litShort (tb s)) (litLong (tb s)) dsh dlg)) d in
    if negb (ierr_eqb gerr ENone) then (s, gerr)
    else
      let '(d, err) := setAndExpandLitLenHuffCode d in
      let s := set_dyn s d in
      match err with
      | ENone =>
        let '(lsh, llg, d, err) := genForLitLen (litShort (tb s)) (litLong (tb s)) d multisym in
        let s := set_dyn (set_tb s (mkTB lsh llg (distShort (tb s)) (distLong (tb s)))) d in
        match err with
        | ENone => (set_phase s phaseHeaderDecoded, ENone)
        | _ => (s, err)
        end
      | _ => (s, err)
      end.

(* after HLIT, HDIST, HCLEN were read *)
Definition sdh_rest (s : inflate) (multisym hlit hdist hclen : N) : inflate * ierr :=
  if (29 <? hlit) || (29 <? hdist) || (15 <? hclen) then (s, EInvalidBlock)
  else
    let '(s, err) := codeLenCodes s hclen in
    match err with
    | ENone =>
      let '(s, err) := readLitDistLens s hdist hlit in
      match err with
      | ENone => if (r_len (rd s) <? 0)%Z then (s, EEndInput) else sdh_tail s multisym
      | _ => (s, err)
      end
    | _ => (s, err)
    end.

Definition sdh_reset (s : inflate) : inflate :=
  set_dyn s (mkDyn aempty (clcShort (dyn s)) (clcLong (dyn s)) (codeList (dyn s)) aempty aempty aempty
                   (nextCode (dyn s)) (lenHuffCodes (dyn s))).

Definition sdh_multisym (s : inflate) : N :=
  if negb (bfinal s =? 0) && (r_inlen (rd s) <=? 2048) then singleSymFlag
  else if negb (bfinal s =? 0) && (r_inlen (rd s) <=? 4096) then doubleSymFlag
  else defaultSymFlag.

Lemma setupDynamicHeader_eq : forall s,
  setupDynamicHeader s =
  match loadBits (sdh_reset s) with
  | None => (sdh_reset s, EPanic)
  | Some s1 =>
    if (r_len (rd s1) <? 14)%Z then (s1, EEndInput)
    else
      sdh_rest (set_rd s1 (br_drop (br_drop (br_drop (rd s1) 5) 5) 4)) (sdh_multisym (sdh_reset s))
               (N.land (r_bits (rd s1)) (N.ones 5))
               (N.land (r_bits (br_drop (rd s1) 5)) (N.ones 5))
               (N.land (r_bits (br_drop (br_drop (rd s1) 5) 5)) (N.ones 4))
  end.
Proof. reflexivity. Qed.

Lemma sdh_tail_rd : forall s m, rd (fst (sdh_tail s m)) = rd s.
Proof.
  intros s m. unfold sdh_tail. cbv zeta.
  destruct (setCodes _ _ _ _) as [huff bad].
  destruct bad; [reflexivity|].
  destruct (gen_small _ _ _ _ _ _ _) as [[[dsh dlg] codes] gerr].
  destruct (negb (ierr_eqb gerr ENone)); [reflexivity|].
  destruct (setAndExpandLitLenHuffCode _) as [d6 e6].
  destruct e6; try reflexivity.
  destruct (genForLitLen _ _ _ _) as [[[lsh llg] d7] e7].
  destruct e7; reflexivity.
Qed.

Lemma sdh_tail_err : forall s m, snd (sdh_tail s m) <> EEndInput.
Proof.
  intros s m. unfold sdh_tail. cbv zeta.
  destruct (setCodes _ _ _ _) as [huff bad].
  destruct bad; [cbn [snd]; discriminate|].
  match goal with |- context [gen_small ?a ?b ?c ?d ?e ?f ?g] =>
    pose proof (gen_small_err a b c d e f g) as HG; destruct (gen_small a b c d e f g) as [[[dsh dlg] codes] gerr] end.
  cbn [snd] in HG.
  destruct (negb (ierr_eqb gerr ENone)); [cbn [snd]; exact HG|].
  match goal with |- context [setAndExpandLitLenHuffCode ?a] =>
    pose proof (setAndExpand_err a) as HS; destruct (setAndExpandLitLenHuffCode a) as [d6 e6] end.
  cbn [snd] in HS.
  destruct e6; try (cbn [snd]; exact HS).
  match goal with |- context [genForLitLen ?a ?b ?c ?d] =>
    pose proof (genForLitLen_err a b c d) as HL; destruct (genForLitLen a b c d) as [[[lsh llg] d7] e7] end.
  cbn [snd] in HL.
  destruct e7; cbn [snd]; exact HL.
Qed.

Lemma sdh_rest_mono : forall s m hlit hdist hclen, mono (rd s) (rd (fst (sdh_rest s m hlit hdist hclen))).
Proof.
  intros s m hlit hdist hclen. unfold sdh_rest.
  destruct ((29 <? hlit) || (29 <? hdist) || (15 <? hclen)); [apply mono_refl|].
  destruct (codeLenCodes s hclen) as [s3 e3] eqn:EC.
  destruct (codeLenCodes_unary _ _ _ _ EC) as (M3 & _).
  destruct e3; try exact M3.
  destruct (readLitDistLens s3 hdist hlit) as [s4 e4] eqn:ER.
  pose proof (readLitDistLens_unary _ _ _ _ _ ER) as M4.
  assert (M : mono (rd s) (rd s4)) by (eapply mono_trans; eassumption).
  destruct e4; try exact M.
  destruct (r_len (rd s4) <? 0)%Z; [exact M|].
  rewrite sdh_tail_rd. exact M.
Qed.

Lemma mono_loadBits : forall s s', loadBits s = Some s' -> mono (rd s) (rd s') /\ s' = set_rd s (rd s').
Proof.
  intros s s' H. unfold loadBits in H. destruct (load_lt57 (rd s)) as [b|] eqn:E; [|discriminate H].
  apply some_inj in H. subst s'. split; [exact (mono_load_lt57 _ _ E)|reflexivity].
Qed.

Lemma setupDynamicHeader_mono : forall s, mono (rd s) (rd (fst (setupDynamicHeader s))).
Proof.
  intros s. rewrite setupDynamicHeader_eq.
  destruct (loadBits (sdh_reset s)) as [s1|] eqn:EL; [|apply mono_refl].
  destruct (mono_loadBits _ _ EL) as (M1 & _).
  change (rd (sdh_reset s)) with (rd s) in M1.
  destruct (r_len (rd s1) <? 14)%Z; [exact M1|].
  eapply mono_trans; [exact M1|].
  eapply mono_trans; [|apply sdh_rest_mono].
  cbn [rd set_rd].
  eapply mono_trans; [apply mono_drop|]. eapply mono_trans; apply mono_drop.
Qed.

(* ---------------------------------------------------------------- prepareForLitBlock / tryDecodeHeader *)
Lemma u8_le : forall x, u8 x <= x.
Proof. intros x. unfold u8. apply land_le_l. Qed.

Lemma prepareForLitBlock_mono : forall s, mono (rd s) (rd (fst (prepareForLitBlock s))).
Proof.
  intros s. unfold prepareForLitBlock.
  destruct (loadBits s) as [s1|] eqn:EL; [|apply mono_refl].
  destruct (mono_loadBits _ _ EL) as (M1 & _).
  destruct (r_len (rd s1) <? 0)%Z eqn:E0; [exact M1|].
  cbv zeta.
  set (bl := Z.to_N (r_len (rd s1))).
  pose proof (u8_le (bl / 8)) as Hu.
  assert (Hd : 8 * (bl / 8) <= bl) by (apply N.mul_div_le; lia).
  destruct (u8 (bl / 8) <? 4) eqn:E4; [exact M1|].
  assert (M2 : forall bits, mono (rd s) (mkBR bits (Z.of_N (u8 (bl / 8) * 8 - 32)) (r_in (rd s1)) (r_inlen (rd s1)))).
  { intros bits. eapply mono_trans; [exact M1|]. unfold mono, avail. cbn [r_inlen r_len]. unfold bl in *. split; lia. }
  match goal with |- context [if negb ?c then _ else _] => destruct (negb c) end.
  { cbn [fst rd set_rd]. apply M2. }
  destruct ((u8 (bl / 8) * 8 - 32) mod 8 =? 0) eqn:Er.
  - cbn [fst rd set_rd set_phase set_litBlockLength]. apply M2.
  - cbn [fst rd set_rd set_phase set_litBlockLength].
    eapply mono_trans; [exact M1|]. unfold mono, avail. cbn [r_inlen r_len]. unfold bl in *. split; lia.
Qed.

(* the dispatch on BTYPE *)
Definition td_rest (s : inflate) (btype : N) : inflate * ierr :=
  if (r_len (rd s) <? 0)%Z then (s, EEndInput)
  else if btype =? 0 then prepareForLitBlock s
  else if btype =? 1 then (setupStaticHeader s, ENone)
  else if btype =? 2 then setupDynamicHeader s
  else (s, EInvalidBlock).

Lemma td_rest_mono : forall s btype, mono (rd s) (rd (fst (td_rest s btype))).
Proof.
  intros s btype. unfold td_rest.
  destruct (r_len (rd s) <? 0)%Z; [apply mono_refl|].
  destruct (btype =? 0); [apply prepareForLitBlock_mono|].
  destruct (btype =? 1); [apply mono_refl|].
  destruct (btype =? 2); [apply setupDynamicHeader_mono|apply mono_refl].
Qed.

Lemma tryDecodeHeader_eq : forall s,
  tryDecodeHeader s =
  match load_lt57 (rd s) with
  | None => (s, EPanic)
  | Some b1 =>
    let s2 := set_bfinal (set_rd (set_rd s b1) (br_drop b1 1)) (N.land (r_bits b1) (N.ones 1)) in
    match load_lt57 (br_drop b1 1) with
    | None => (s2, EPanic)
    | Some b3 => td_rest (set_rd (set_rd s2 b3) (br_drop b3 2)) (N.land (r_bits b3) (N.ones 2))
    end
  end.
Proof.
  intros s. unfold tryDecodeHeader, readBits, loadBits, td_rest.
  destruct (load_lt57 (rd s)) as [b1|]; [|reflexivity].
  cbn [rd set_rd set_bfinal]. rewrite next_bits_pair. cbv beta iota zeta. cbn [rd set_rd set_bfinal].
  destruct (load_lt57 (br_drop b1 1)) as [b3|]; [|reflexivity].
  cbn [rd set_rd set_bfinal]. rewrite next_bits_pair. cbv beta iota zeta. reflexivity.
Qed.
