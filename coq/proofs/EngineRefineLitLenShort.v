(* EngineRefineLitLenShort.v -- the 12-bit short table built by genForLitLen before
   encodeLongCodes (gll_phase1): clearing, doubling copies, encodeSingles, encodePairs,
   encodeTriples.  Main theorem: gll_phase1_ok.

   Structure: `sok xc n m t` is short_ok with the completeness clause restricted to code words
   of at most m bits (short_ok xc n = sok xc n n).  Every write of the three encoders stores a
   valid decode (`good`) of the index it writes to, which preserves sok (sok_aset); whatever
   indices the pair/triple loops visit, whether they stop early, run out of fuel or return an
   error is irrelevant. *)
From Coq Require Import List NArith ZArith Bool Lia ZifyBool ZifyNat ZifyN.
From Verif Require Import Bits Huffman Inflate.
From Verif Require Import Base EngineTables Engine EngineRefineSpec.
From Verif Require Import EngineRefineLitLenBase EngineRefineLitLenDefs.
Import ListNotations.
Open Scope N_scope.

(* ---------------------------------------------------------------- arithmetic helpers *)
Lemma sub32_inv : forall a b, b <= 2147483648 -> sub32 a b < 2147483648 ->
  b <= a /\ sub32 a b = a - b.
Proof.
  intros a b Hb H. unfold sub32, subw in *. change (N.shiftl 1 32) with 4294967296 in *.
  destruct (b <=? a) eqn:E; lia.
Qed.

Lemma land_ones_agree : forall x x' k,
  (forall i, i < k -> N.testbit x i = N.testbit x' i) ->
  N.land x (N.ones k) = N.land x' (N.ones k).
Proof.
  intros x x' k H. apply N.bits_inj. intro i. rewrite !N.land_spec.
  destruct (N.lt_ge_cases i k) as [Hlt|Hge].
  - rewrite H by exact Hlt. reflexivity.
  - rewrite N.ones_spec_high by exact Hge. rewrite !andb_false_r. reflexivity.
Qed.

Lemma land_ones_small : forall v k, v < 2 ^ k -> N.land v (N.ones k) = v.
Proof. intros v k H. rewrite N.land_ones. apply N.mod_small. exact H. Qed.

Lemma pow2_le_mono : forall a b, a <= b -> 2 ^ a <= 2 ^ b.
Proof. intros a b H. apply N.pow_le_mono_r; lia. Qed.

Lemma pow2_pos : forall a, 0 < 2 ^ a.
Proof. intros a. apply N.neq_0_lt_0. apply N.pow_nonzero. lia. Qed.

(* count at bit 26, length at bit 28 *)
Lemma entry_bits : forall p c m, p < 2 ^ 26 -> m < 4 -> c < 16 ->
  u32 (N.lor (N.lor p (N.shiftl c 28)) (N.shiftl m 26)) = p + 2 ^ 26 * m + 2 ^ 28 * c.
Proof.
  intros p c m Hp Hm Hc.
  rewrite <- N.lor_assoc, (N.lor_comm (N.shiftl c 28)), N.lor_assoc.
  rewrite (lor_shiftl_add p m 26) by exact Hp.
  change (2 ^ 26) with 67108864 in *. change (2 ^ 28) with 268435456.
  rewrite (lor_shiftl_add _ c 28) by (change (2 ^ 28) with 268435456; lia).
  change (2 ^ 28) with 268435456.
  rewrite u32_small by lia. lia.
Qed.

(* ---------------------------------------------------------------- xseq on agreeing low bits *)
Lemma xseq_agree : forall xc syms x x',
  (forall i, i < N.of_nat (syms_bits syms) -> N.testbit x i = N.testbit x' i) ->
  xseq xc x syms -> xseq xc x' syms.
Proof.
  intros xc syms. induction syms as [|[s len] r IH]; intros x x' Hag H.
  - exact I.
  - cbn [xseq] in *. unfold syms_bits in *. cbn [fold_right snd] in *.
    destruct H as [(val & Hin & Hm) Hr]. split.
    + exists val. split; [exact Hin|]. unfold xmatch in *. rewrite <- Hm. symmetry.
      apply land_ones_agree. intros i Hi. apply Hag. lia.
    + apply (IH (N.shiftr x (N.of_nat len))); [|exact Hr].
      intros i Hi. rewrite !N.shiftr_spec by lia. apply Hag. lia.
Qed.

Lemma xmatch_agree : forall x x' len val,
  (forall i, i < N.of_nat len -> N.testbit x i = N.testbit x' i) ->
  xmatch x len val -> xmatch x' len val.
Proof.
  intros x x' len val Hag H. unfold xmatch in *. rewrite <- H. symmetry.
  apply land_ones_agree. exact Hag.
Qed.

(* ---------------------------------------------------------------- partial short_ok *)
Definition sok (xc : xlist) (n m : nat) (t : arr) : Prop :=
  forall x, x < 2 ^ N.of_nat n ->
    entry_ok xc n x (aget t x) /\
    (forall s len val, In (s, len, val) xc -> (len <= m)%nat -> xmatch x len val -> aget t x <> 0).

(* e is a valid decode of x of at most n bits *)
Definition good (xc : xlist) (n : nat) (x e : N) : Prop :=
  exists syms, (1 <= length syms <= 3)%nat /\ lits_then_any syms /\ xseq xc x syms /\
    (syms_bits syms <= n)%nat /\ pack_syms syms < 2 ^ 25 /\ e = short_entry syms.

Lemma good_nz : forall xc n x e, good xc n x e -> e <> 0.
Proof.
  intros xc n x e (syms & Hl & _ & _ & _ & _ & He). subst e. unfold short_entry.
  change (2 ^ 26) with 67108864. lia.
Qed.

Lemma sok_aset : forall xc n m t x0 e,
  sok xc n m t -> good xc n x0 e -> sok xc n m (aset t x0 e).
Proof.
  intros xc n m t x0 e Ht Hg x Hx. rewrite aget_aset.
  destruct (N.eqb_spec x x0) as [->|Hne].
  - split; [right; exact Hg|]. intros s len val _ _ _. apply (good_nz _ _ _ _ Hg).
  - apply Ht. exact Hx.
Qed.

Lemma xseq_single : forall xc s L v, In (s, N.to_nat L, v) xc -> v < 2 ^ L ->
  xseq xc v [(s, N.to_nat L)].
Proof.
  intros xc s L v Hin Hv. cbn [xseq]. split; [|exact I].
  exists v. split; [exact Hin|]. unfold xmatch. rewrite N2Nat.id. apply land_ones_small. exact Hv.
Qed.

Lemma xseq_cons_code : forall xc s L v w r, In (s, N.to_nat L, v) xc -> v < 2 ^ L ->
  xseq xc w r -> xseq xc (N.lor v (N.shiftl w L)) ((s, N.to_nat L) :: r).
Proof.
  intros xc s L v w r Hin Hv Hr. cbn [xseq]. unfold xmatch. rewrite !N2Nat.id. split.
  - exists v. split; [exact Hin|]. apply land_ones_lor_shiftl. exact Hv.
  - rewrite shiftr_lor_shiftl by exact Hv. exact Hr.
Qed.

(* the index computed for a pair *)
Lemma code2_eq : forall v1 v2 L1 L2, v1 < 2 ^ L1 -> v2 < 2 ^ L2 -> L1 + L2 <= 32 -> L1 < 32 ->
  u32 (N.lor v1 (shl32 v2 L1)) = N.lor v1 (N.shiftl v2 L1).
Proof.
  intros v1 v2 L1 L2 H1 H2 HL HL1.
  rewrite (shl32_small v2 L1 L2) by (auto; lia).
  apply u32_small. change 4294967296 with (2 ^ 32).
  apply lt_pow2_mono with (L2 + L1); [|lia].
  apply lor_lt_pow2.
  - apply lt_pow2_mono with L1; [exact H1|lia].
  - apply shiftl_lt_pow2. exact H2.
Qed.

Lemma good_single : forall xc n s L v,
  In (s, N.to_nat L, v) xc -> s <= 512 -> v < 2 ^ L -> L <= 12 -> (N.to_nat L <= n)%nat ->
  good xc n v (u32 (N.lor (N.lor s (N.shiftl L 28)) (N.shiftl 1 26))).
Proof.
  intros xc n s L v Hin Hs Hv HL Hn. exists [(s, N.to_nat L)].
  split; [cbn [length]; lia|]. split; [exact I|].
  split; [apply xseq_single; assumption|].
  split; [unfold syms_bits; cbn [fold_right snd]; lia|].
  split; [cbn [pack_syms]; change (2 ^ 25) with 33554432; lia|].
  rewrite entry_bits by (try change (2 ^ 26) with 67108864; lia).
  unfold short_entry, syms_bits. cbn [pack_syms fold_right snd length].
  change (2 ^ 26) with 67108864. change (2 ^ 28) with 268435456. lia.
Qed.

Lemma good_pair : forall xc n s1 L1 v1 s2 L2 v2,
  In (s1, N.to_nat L1, v1) xc -> In (s2, N.to_nat L2, v2) xc ->
  s1 < 256 -> s2 <= 512 -> v1 < 2 ^ L1 -> v2 < 2 ^ L2 -> L1 + L2 <= 12 ->
  (N.to_nat (L1 + L2) <= n)%nat ->
  good xc n (u32 (N.lor v1 (shl32 v2 L1)))
    (u32 (N.lor (N.lor (N.lor s1 (N.shiftl s2 8)) (N.shiftl (L1 + L2) 28)) (N.shiftl 2 26))).
Proof.
  intros xc n s1 L1 v1 s2 L2 v2 Hin1 Hin2 Hs1 Hs2 Hv1 Hv2 HL Hn.
  rewrite (code2_eq v1 v2 L1 L2) by (auto; lia).
  exists [(s1, N.to_nat L1); (s2, N.to_nat L2)].
  split; [cbn [length]; lia|]. split; [cbn [lits_then_any]; split; [exact Hs1|exact I]|].
  split; [apply xseq_cons_code; try assumption; apply xseq_single; assumption|].
  split; [unfold syms_bits; cbn [fold_right snd]; lia|].
  split; [cbn [pack_syms]; change (2 ^ 25) with 33554432; lia|].
  rewrite (lor_shiftl_add s1 s2 8) by (change (2 ^ 8) with 256; lia).
  change (2 ^ 8) with 256.
  rewrite entry_bits by (try change (2 ^ 26) with 67108864; lia).
  unfold short_entry, syms_bits. cbn [pack_syms fold_right snd length].
  change (2 ^ 26) with 67108864. change (2 ^ 28) with 268435456. lia.
Qed.

Lemma good_triple : forall xc n s1 L1 v1 s2 L2 v2 s3 L3 v3,
  In (s1, N.to_nat L1, v1) xc -> In (s2, N.to_nat L2, v2) xc -> In (s3, N.to_nat L3, v3) xc ->
  s1 < 256 -> s2 < 256 -> s3 <= 511 -> v1 < 2 ^ L1 -> v2 < 2 ^ L2 -> v3 < 2 ^ L3 ->
  L1 + L2 + L3 <= 12 -> (N.to_nat (L1 + L2 + L3) <= n)%nat ->
  good xc n (u32 (N.lor (N.lor v1 (shl32 v2 L1)) (shl32 v3 (L2 + L1))))
    (u32 (N.lor (N.lor (N.lor (N.lor s1 (N.shiftl s2 8)) (N.shiftl s3 16))
                       (N.shiftl (L1 + L2 + L3) 28)) (N.shiftl 3 26))).
Proof.
  intros xc n s1 L1 v1 s2 L2 v2 s3 L3 v3 Hin1 Hin2 Hin3 Hs1 Hs2 Hs3 Hv1 Hv2 Hv3 HL Hn.
  assert (Hw : N.lor v2 (N.shiftl v3 L2) < 2 ^ (L3 + L2)).
  { apply lor_lt_pow2.
    - apply lt_pow2_mono with L2; [exact Hv2|lia].
    - apply shiftl_lt_pow2. exact Hv3. }
  assert (Hcode : u32 (N.lor (N.lor v1 (shl32 v2 L1)) (shl32 v3 (L2 + L1))) =
                  N.lor v1 (N.shiftl (N.lor v2 (N.shiftl v3 L2)) L1)).
  { rewrite (shl32_small v2 L1 L2) by (auto; lia).
    rewrite (shl32_small v3 (L2 + L1) L3) by (auto; lia).
    rewrite <- (N.shiftl_shiftl v3 L2 L1).
    rewrite <- N.lor_assoc, <- N.shiftl_lor.
    pose proof (code2_eq v1 (N.lor v2 (N.shiftl v3 L2)) L1 (L3 + L2) Hv1 Hw ltac:(lia) ltac:(lia))
      as E.
    rewrite (shl32_small _ L1 (L3 + L2)) in E by (auto; lia).
    exact E. }
  rewrite Hcode.
  exists [(s1, N.to_nat L1); (s2, N.to_nat L2); (s3, N.to_nat L3)].
  split; [cbn [length]; lia|].
  split; [cbn [lits_then_any]; split; [exact Hs1|split; [exact Hs2|exact I]]|].
  split.
  { apply xseq_cons_code; try assumption. apply xseq_cons_code; try assumption.
    apply xseq_single; assumption. }
  split; [unfold syms_bits; cbn [fold_right snd]; lia|].
  split; [cbn [pack_syms]; change (2 ^ 25) with 33554432; lia|].
  rewrite (lor_shiftl_add s1 s2 8) by (change (2 ^ 8) with 256; lia).
  change (2 ^ 8) with 256.
  rewrite (lor_shiftl_add _ s3 16) by (change (2 ^ 16) with 65536; lia).
  change (2 ^ 16) with 65536.
  rewrite entry_bits by (try change (2 ^ 26) with 67108864; lia).
  unfold short_entry, syms_bits. cbn [pack_syms fold_right snd length].
  change (2 ^ 26) with 67108864. change (2 ^ 28) with 268435456. lia.
Qed.

(* ---------------------------------------------------------------- facts from xsorted *)
Section Sorted.
Variable xc : xlist.
Variable d : dynHdr.
Hypothesis Hwf : xc_wf xc.
Hypothesis HS : xsorted xc d.

Lemma lc_zero : aget (litCount d) 0 = 0.
Proof. unfold xsorted in HS. cbv zeta in HS. destruct HS as (H & _). exact H. Qed.

Lemma lc_step : forall L, L < 22 -> aget (litCount d) L <= aget (litCount d) (L + 1).
Proof. unfold xsorted in HS. cbv zeta in HS. destruct HS as (_ & H & _). exact H. Qed.

Lemma lc_22 : aget (litCount d) 22 <= 514.
Proof. unfold xsorted in HS. cbv zeta in HS. destruct HS as (_ & _ & H & _). exact H. Qed.

Lemma lc_mono_nat : forall n a, a + N.of_nat n <= 22 ->
  aget (litCount d) a <= aget (litCount d) (a + N.of_nat n).
Proof.
  induction n as [|n IH]; intros a Ha.
  - replace (a + N.of_nat 0) with a by lia. lia.
  - replace (a + N.of_nat (S n)) with (a + N.of_nat n + 1) by lia.
    pose proof (IH a ltac:(lia)) as H1.
    pose proof (lc_step (a + N.of_nat n) ltac:(lia)) as H2. lia.
Qed.

Lemma lc_mono : forall a b, a <= b -> b <= 22 -> aget (litCount d) a <= aget (litCount d) b.
Proof.
  intros a b Hab Hb. replace b with (a + N.of_nat (N.to_nat (b - a))) by lia.
  apply lc_mono_nat. lia.
Qed.

Lemma lc_le_514 : forall a, a <= 22 -> aget (litCount d) a <= 514.
Proof.
  intros a Ha. pose proof (lc_mono a 22 Ha ltac:(lia)) as H1. pose proof lc_22. lia.
Qed.

(* every slot below litCount[22] lies in a class *)
Lemma any_slot_nat : forall n k, (n <= 22)%nat -> k < aget (litCount d) (N.of_nat n) ->
  exists L, L < N.of_nat n /\ aget (litCount d) L <= k < aget (litCount d) (L + 1).
Proof.
  induction n as [|n IH]; intros k Hn Hk.
  - change (N.of_nat 0) with 0 in Hk. rewrite lc_zero in Hk. lia.
  - destruct (N.lt_ge_cases k (aget (litCount d) (N.of_nat n))) as [Hlt|Hge].
    + destruct (IH k ltac:(lia) Hlt) as (L & HL & Hb). exists L. split; [lia|exact Hb].
    + exists (N.of_nat n). split; [lia|].
      replace (N.of_nat n + 1) with (N.of_nat (S n)) by lia. lia.
Qed.

Lemma any_slot : forall k, k < aget (litCount d) 22 ->
  exists L, L < 22 /\ aget (litCount d) L <= k < aget (litCount d) (L + 1).
Proof. intros k Hk. apply (any_slot_nat 22 k); [lia|exact Hk]. Qed.

(* what sits in a slot of class L *)
Lemma slot_facts : forall L k, L < 22 ->
  aget (litCount d) L <= k < aget (litCount d) (L + 1) ->
  exists val,
    In (indexToSym (aget (codeList d) k), N.to_nat L, val) xc /\
    1 <= L <= 20 /\ val < 2 ^ L /\ indexToSym (aget (codeList d) k) <= 512 /\
    hc_code (aget (litAndDistHuff d) (aget (codeList d) k)) = val /\
    hc_len (aget (litAndDistHuff d) (aget (codeList d) k)) = L.
Proof.
  intros L k HL Hk. unfold xsorted in HS. cbv zeta in HS.
  destruct HS as (_ & _ & _ & Hslot & _).
  destruct (Hslot L k HL Hk) as (Hidx & val & Hh & Hin).
  destruct (Hwf _ _ _ Hin) as (Hlen & Hval & Hs). rewrite N2Nat.id in Hval.
  assert (Hv24 : val < 16777216).
  { change 16777216 with (2 ^ 24). apply lt_pow2_mono with L; [exact Hval|lia]. }
  exists val. split; [exact Hin|]. split; [lia|]. split; [exact Hval|]. split; [exact Hs|].
  rewrite Hh. split; [apply hc_code_set|apply hc_len_set]; lia.
Qed.

(* every code word has a slot in its class *)
Lemma word_slot : forall s len val, In (s, len, val) xc ->
  exists k, aget (litCount d) (N.of_nat len) <= k < aget (litCount d) (N.of_nat len + 1) /\
    hc_code (aget (litAndDistHuff d) (aget (codeList d) k)) = val.
Proof.
  intros s len val Hin. unfold xsorted in HS. cbv zeta in HS.
  destruct HS as (_ & _ & _ & _ & Hall & _).
  destruct (Hall _ _ _ Hin) as (k & Hk & _ & Hh).
  destruct (Hwf _ _ _ Hin) as (Hlen & Hval & Hs).
  exists k. split; [exact Hk|]. rewrite Hh. apply hc_code_set; [|lia].
  change 16777216 with (2 ^ 24). apply lt_pow2_mono with (N.of_nat len); [exact Hval|lia].
Qed.

(* ---------------------------------------------------------------- encodeSingles *)
Lemma singles_ok : forall t ll t' pan, 1 <= ll <= 12 ->
  sok xc (N.to_nat ll) (N.to_nat (ll - 1)) t ->
  encodeSingles t d ll = (t', pan) ->
  sok xc (N.to_nat ll) (N.to_nat ll) t'.
Proof.
  intros t ll t' pan Hll Ht H. unfold encodeSingles in H.
  pose proof (lc_step ll ltac:(lia)) as H1.
  pose proof (lc_le_514 (ll + 1) ltac:(lia)) as H2.
  destruct ((aget (litCount d) (ll + 1) <? aget (litCount d) ll) ||
            (516 <? aget (litCount d) (ll + 1))) eqn:E; [lia|].
  apply pair_equal_spec in H. destruct H as [Ht' _]. subst t'.
  match goal with |- sok _ _ _ (forN ?s ?e ?f ?t0) =>
    assert (Hinv : sok xc (N.to_nat ll) (N.to_nat (ll - 1)) (forN s e f t0) /\
                   forall k', s <= k' < e ->
                     aget (forN s e f t0)
                          (hc_code (aget (litAndDistHuff d) (aget (codeList d) k'))) <> 0)
  end.
  { apply (forN_ind arr (fun k t1 =>
       sok xc (N.to_nat ll) (N.to_nat (ll - 1)) t1 /\
       forall k', aget (litCount d) ll <= k' < k ->
         aget t1 (hc_code (aget (litAndDistHuff d) (aget (codeList d) k'))) <> 0)).
    - exact H1.
    - split; [exact Ht|]. intros k' Hk'. lia.
    - intros k t1 Hk [IH1 IH2]. cbv beta zeta.
      destruct (slot_facts ll k ltac:(lia) Hk) as (val & Hin & HL & Hv & Hs & Hc & Hl).
      destruct (maxLitLenSym <? indexToSym (aget (codeList d) k)) eqn:E2;
        [unfold maxLitLenSym in E2; lia|].
      rewrite Hc, Hl.
      assert (Hg : good xc (N.to_nat ll) val
                (u32 (N.lor (N.lor (indexToSym (aget (codeList d) k)) (N.shiftl ll 28))
                            (N.shiftl 1 26)))).
      { apply good_single; try assumption; lia. }
      split; [apply sok_aset; assumption|].
      intros k' Hk'. rewrite aget_aset.
      destruct (N.eqb_spec (hc_code (aget (litAndDistHuff d) (aget (codeList d) k'))) val)
        as [_|Hne]; [apply (good_nz _ _ _ _ Hg)|].
      apply IH2. destruct (N.eq_dec k' k) as [->|Hnk]; [contradiction|lia]. }
  destruct Hinv as [Hs1 Hs2]. intros x Hx. destruct (Hs1 x Hx) as [He Hc].
  split; [exact He|]. intros s len val Hin Hlen Hm.
  destruct (Nat.le_gt_cases len (N.to_nat (ll - 1))) as [Hle|Hgt].
  - apply (Hc s len val Hin Hle Hm).
  - assert (Hlen' : N.of_nat len = ll) by lia.
    destruct (word_slot s len val Hin) as (k & Hk & Hcode). rewrite Hlen' in Hk.
    unfold xmatch in Hm. rewrite Hlen' in Hm. rewrite N2Nat.id in Hx.
    rewrite land_ones_small in Hm by exact Hx. subst x.
    rewrite <- Hcode. apply Hs2. exact Hk.
Qed.

(* ---------------------------------------------------------------- encodePairs *)
Lemma pairs_inner_ok : forall n m sym1 v1 L1 L2 t,
  In (sym1, N.to_nat L1, v1) xc -> sym1 < 256 -> v1 < 2 ^ L1 -> L2 < 22 -> L1 + L2 <= 12 ->
  (N.to_nat (L1 + L2) <= n)%nat ->
  sok xc n m t ->
  sok xc n m (fst (
    forN (aget (litCount d) L2) (aget (litCount d) (L2 + 1)) (fun k (a : arr * bool) =>
      let '(t, stop) := a in
      if stop then a
      else
        let sym2Index := aget (codeList d) k in
        let sym2 := indexToSym sym2Index in
        if maxLitLenSym <? sym2 then (t, true)
        else
          let sym2Code := hc_code (aget (litAndDistHuff d) sym2Index) in
          let code := u32 (N.lor v1 (shl32 sym2Code L1)) in
          let codeLen := L1 + L2 in
          (aset t code (u32 (N.lor (N.lor (N.lor sym1 (N.shiftl sym2 8))
                                          (N.shiftl codeLen 28)) (N.shiftl 2 26))),
           false))
      (t, false))).
Proof.
  intros n m sym1 v1 L1 L2 t Hin1 Hs1 Hv1 HL2 HL Hn Ht.
  apply (forN_inv _ (fun a : arr * bool => sok xc n m (fst a))); [exact Ht|].
  intros k [x stop] Hk Hx. cbn [fst] in Hx.
  destruct stop; [exact Hx|]. cbv zeta.
  destruct (maxLitLenSym <? indexToSym (aget (codeList d) k)) eqn:E2; [exact Hx|].
  cbn [fst].
  destruct (slot_facts L2 k HL2 Hk) as (v2 & Hin2 & HL2' & Hv2 & Hs2 & Hc2 & Hl2).
  rewrite Hc2. apply sok_aset; [exact Hx|].
  apply good_pair; assumption.
Qed.

Lemma pairs_loop_ok : forall fuel n m t ll index1 iend t' e,
  ll <= 12 -> n = N.to_nat ll -> iend <= aget (litCount d) 22 ->
  sok xc n m t ->
  pairs_loop fuel t d ll index1 iend = (t', e) ->
  sok xc n m t'.
Proof.
  induction fuel as [|f IH]; intros n m t ll index1 iend t' e Hll Hn Hie Ht H.
  - cbn [pairs_loop] in H. inversion H; subst. exact Ht.
  - cbn [pairs_loop] in H.
    destruct (index1 <? iend) eqn:E1.
    2:{ inversion H; subst. exact Ht. }
    assert (Hi : index1 < aget (litCount d) 22) by (clear H; lia).
    destruct (any_slot index1 Hi) as (L & HL & Hb).
    destruct (slot_facts L index1 HL Hb) as (v1 & Hin1 & HL1 & Hv1 & Hs1 & Hc1 & Hl1).
    rewrite Hl1, Hc1 in H.
    destruct (256 <=? indexToSym (aget (codeList d) index1)) eqn:E2.
    + apply (IH n m _ _ _ _ _ _ Hll Hn Hie Ht H).
    + destruct (22 <=? sub32 ll L) eqn:E3.
      { inversion H; subst. exact Ht. }
      assert (Hsub : L <= ll /\ sub32 ll L = ll - L) by (clear H; apply sub32_inv; lia).
      destruct Hsub as [HLl Hsub].
      remember (sub32 ll L) as L2 eqn:EL2.
      destruct ((aget (litCount d) (L2 + 1) <? aget (litCount d) L2) ||
                (516 <? aget (litCount d) (L2 + 1))) eqn:E4.
      { inversion H; subst. exact Ht. }
      assert (Ha : indexToSym (aget (codeList d) index1) < 256 /\ L2 < 22 /\ L + L2 <= 12 /\
                   (N.to_nat (L + L2) <= n)%nat) by (clear H; lia).
      destruct Ha as (Ha1 & Ha2 & Ha3 & Ha4).
      pose proof (pairs_inner_ok n m (indexToSym (aget (codeList d) index1)) v1 L L2 t
                     Hin1 Ha1 Hv1 Ha2 Ha3 Ha4 Ht) as Hin.
      match type of H with (let '(short, _) := ?X in _) = _ =>
        destruct X as [t1 st1] eqn:EX
      end.
      cbn [fst] in Hin.
      apply (IH n m _ _ _ _ _ _ Hll Hn Hie Hin H).
Qed.

(* (unfolding encodePairs by conversion inside a proof makes the kernel compare
   pairs_loop small_fuel with itself the hard way at Qed: go through an equation) *)
Lemma encodePairs_unfold : forall t d0 ll minLen, encodePairs t d0 ll minLen =
  pairs_loop small_fuel t d0 ll (aget (litCount d0) minLen)
             (aget (litCount d0) (sub32 ll minLen + 1)).
Proof. intros. reflexivity. Qed.

Lemma encodePairs_ok : forall n m t ll minLen t' e,
  ll <= 12 -> n = N.to_nat ll -> minLen <= ll ->
  sok xc n m t ->
  encodePairs t d ll minLen = (t', e) ->
  sok xc n m t'.
Proof.
  intros n m t ll minLen t' e Hll Hn Hm Ht H.
  assert (Hie : aget (litCount d) (sub32 ll minLen + 1) <= aget (litCount d) 22).
  { rewrite sub32_le by exact Hm. apply lc_mono; lia. }
  rewrite encodePairs_unfold in H.
  exact (pairs_loop_ok small_fuel n m _ _ _ _ _ _ Hll Hn Hie Ht H).
Qed.

(* ---------------------------------------------------------------- encodeTriples *)
Lemma triples_inner_ok : forall n m sym1 v1 L1 sym2 v2 L2 L3 t,
  In (sym1, N.to_nat L1, v1) xc -> In (sym2, N.to_nat L2, v2) xc ->
  sym1 < 256 -> sym2 < 256 -> v1 < 2 ^ L1 -> v2 < 2 ^ L2 -> L3 < 22 -> L1 + L2 + L3 <= 12 ->
  (N.to_nat (L1 + L2 + L3) <= n)%nat ->
  sok xc n m t ->
  sok xc n m (fst (
    forN (aget (litCount d) L3) (aget (litCount d) (L3 + 1)) (fun k (a : arr * bool) =>
      let '(t, stop) := a in
      if stop then a
      else
        let sym3Index := aget (codeList d) k in
        let sym3 := indexToSym sym3Index in
        let sym3Code := hc_code (aget (litAndDistHuff d) sym3Index) in
        if maxLitLenSym - 1 <? sym3 then (t, true)
        else
          let code := u32 (N.lor (N.lor v1 (shl32 v2 L1))
                                 (shl32 sym3Code (L2 + L1))) in
          let codeLen := L1 + L2 + L3 in
          (aset t code
                (u32 (N.lor (N.lor (N.lor (N.lor sym1 (N.shiftl sym2 8)) (N.shiftl sym3 16))
                                   (N.shiftl codeLen 28)) (N.shiftl 3 26))),
           false))
      (t, false))).
Proof.
  intros n m sym1 v1 L1 sym2 v2 L2 L3 t Hin1 Hin2 Hs1 Hs2 Hv1 Hv2 HL3 HL Hn Ht.
  apply (forN_inv _ (fun a : arr * bool => sok xc n m (fst a))); [exact Ht|].
  intros k [x stop] Hk Hx. cbn [fst] in Hx.
  destruct stop; [exact Hx|]. cbv zeta.
  destruct (maxLitLenSym - 1 <? indexToSym (aget (codeList d) k)) eqn:E2; [exact Hx|].
  cbn [fst].
  destruct (slot_facts L3 k HL3 Hk) as (v3 & Hin3 & HL3' & Hv3 & Hs3 & Hc3 & Hl3).
  rewrite Hc3. apply sok_aset; [exact Hx|].
  apply good_triple; try assumption. unfold maxLitLenSym in E2. lia.
Qed.

Lemma triples_loop2_ok : forall fuel n m t ll sym1 L1 v1 index2 iend2 t' e,
  ll <= 12 -> n = N.to_nat ll -> iend2 <= aget (litCount d) 22 ->
  In (sym1, N.to_nat L1, v1) xc -> sym1 < 256 -> v1 < 2 ^ L1 -> L1 <= 20 ->
  sok xc n m t ->
  triples_loop2 fuel t d ll sym1 L1 v1 index2 iend2 = (t', e) ->
  sok xc n m t'.
Proof.
  induction fuel as [|f IH];
    intros n m t ll sym1 L1 v1 index2 iend2 t' e Hll Hn Hie Hin1 Hs1 Hv1 HL1 Ht H.
  - cbn [triples_loop2] in H. inversion H; subst. exact Ht.
  - cbn [triples_loop2] in H.
    destruct (index2 <? iend2) eqn:E1.
    2:{ inversion H; subst. exact Ht. }
    assert (Hi : index2 < aget (litCount d) 22) by (clear H; lia).
    destruct (any_slot index2 Hi) as (L & HL & Hb).
    destruct (slot_facts L index2 HL Hb) as (v2 & Hin2 & HL2 & Hv2 & Hs2 & Hc2 & Hl2).
    rewrite Hl2, Hc2 in H.
    destruct (256 <=? indexToSym (aget (codeList d) index2)) eqn:E2.
    + apply (IH n m _ _ _ _ _ _ _ _ _ Hll Hn Hie Hin1 Hs1 Hv1 HL1 Ht H).
    + destruct (22 <=? sub32 (sub32 ll L1) L) eqn:E3.
      { inversion H; subst. exact Ht. }
      assert (Hsub : L1 + L + sub32 (sub32 ll L1) L = ll).
      { clear H.
        destruct (sub32_inv (sub32 ll L1) L ltac:(lia) ltac:(lia)) as [Ha Hb'].
        destruct (sub32_inv ll L1 ltac:(lia) ltac:(lia)) as [Hc Hd]. lia. }
      remember (sub32 (sub32 ll L1) L) as L3 eqn:EL3.
      assert (Ha : indexToSym (aget (codeList d) index2) < 256 /\ L3 < 22 /\ L1 + L + L3 <= 12 /\
                   (N.to_nat (L1 + L + L3) <= n)%nat) by (clear H; lia).
      destruct Ha as (Ha1 & Ha2 & Ha3 & Ha4).
      pose proof (triples_inner_ok n m sym1 v1 L1 (indexToSym (aget (codeList d) index2)) v2 L L3 t
                    Hin1 Hin2 Hs1 Ha1 Hv1 Hv2 Ha2 Ha3 Ha4 Ht) as Hin.
      match type of H with (let '(short, _) := ?X in _) = _ =>
        destruct X as [t1 st1] eqn:EX
      end.
      cbn [fst] in Hin.
      apply (IH n m _ _ _ _ _ _ _ _ _ Hll Hn Hie Hin1 Hs1 Hv1 HL1 Hin H).
Qed.

Lemma triples_loop1_ok : forall fuel n m t ll minLen index1 iend1 t' e,
  ll <= 12 -> n = N.to_nat ll -> iend1 <= aget (litCount d) 22 ->
  sok xc n m t ->
  triples_loop1 fuel t d ll minLen index1 iend1 = (t', e) ->
  sok xc n m t'.
Proof.
  induction fuel as [|f IH]; intros n m t ll minLen index1 iend1 t' e Hll Hn Hie Ht H.
  - cbn [triples_loop1] in H. inversion H; subst. exact Ht.
  - cbn [triples_loop1] in H.
    destruct (index1 <? iend1) eqn:E1.
    2:{ inversion H; subst. exact Ht. }
    assert (Hi : index1 < aget (litCount d) 22) by (clear H; lia).
    destruct (any_slot index1 Hi) as (L & HL & Hb).
    destruct (slot_facts L index1 HL Hb) as (v1 & Hin1 & HL1 & Hv1 & Hs1 & Hc1 & Hl1).
    rewrite Hl1, Hc1 in H.
    destruct (256 <=? indexToSym (aget (codeList d) index1)) eqn:E2.
    + apply (IH n m _ _ _ _ _ _ _ Hll Hn Hie Ht H).
    + destruct (sub32 ll L <? 2 * minLen) eqn:E3.
      { inversion H; subst. exact Ht. }
      destruct (23 <=? sub32 (sub32 ll L) minLen + 1) eqn:E4.
      { inversion H; subst. exact Ht. }
      assert (Hie2 : aget (litCount d) (sub32 (sub32 ll L) minLen + 1) <= aget (litCount d) 22).
      { clear H. apply lc_mono; lia. }
      assert (Hs256 : indexToSym (aget (codeList d) index1) < 256) by (clear H; lia).
      destruct (triples_loop2 small_fuel t d ll (indexToSym (aget (codeList d) index1)) L v1
                  (aget (litCount d) minLen) (aget (litCount d) (sub32 (sub32 ll L) minLen + 1)))
        as [t1 e1] eqn:EL2.
      assert (Ht1 : sok xc n m t1).
      { apply (triples_loop2_ok small_fuel n m _ _ _ _ _ _ _ _ _ Hll Hn Hie2 Hin1 Hs256 Hv1
                 ltac:(clear H; lia) Ht EL2). }
      destruct e1; try (inversion H; subst; exact Ht1).
      apply (IH n m _ _ _ _ _ _ _ Hll Hn Hie Ht1 H).
Qed.

Lemma encodeTriples_unfold : forall t d0 ll minLen, encodeTriples t d0 ll minLen =
  triples_loop1 small_fuel t d0 ll minLen (aget (litCount d0) minLen)
                (aget (litCount d0) (sub32 ll (2 * minLen) + 1)).
Proof. intros. reflexivity. Qed.

Lemma encodeTriples_ok : forall n m t ll minLen t' e,
  ll <= 12 -> n = N.to_nat ll -> 2 * minLen <= ll ->
  sok xc n m t ->
  encodeTriples t d ll minLen = (t', e) ->
  sok xc n m t'.
Proof.
  intros n m t ll minLen t' e Hll Hn Hm Ht H.
  assert (Hie : aget (litCount d) (sub32 ll (2 * minLen) + 1) <= aget (litCount d) 22).
  { rewrite sub32_le by exact Hm. apply lc_mono; lia. }
  rewrite encodeTriples_unfold in H.
  exact (triples_loop1_ok small_fuel n m _ _ _ _ _ _ _ Hll Hn Hie Ht H).
Qed.

(* ---------------------------------------------------------------- the doubling copy *)
Lemma copy_get : forall cs t x,
  aget (forN 0 cs (fun i t => aset t (cs + i) (aget t i)) t) x =
  if (cs <=? x) && (x <? cs + cs) then aget t (x - cs) else aget t x.
Proof.
  intros cs t.
  apply (forN_ind arr (fun k t1 => forall x,
           aget t1 x = if (cs <=? x) && (x <? cs + k) then aget t (x - cs) else aget t x)).
  - lia.
  - intros x. destruct ((cs <=? x) && (x <? cs + 0)) eqn:E; [lia|reflexivity].
  - intros k t1 Hk IH x. rewrite aget_aset. rewrite (IH k).
    destruct ((cs <=? k) && (k <? cs + k)) eqn:Ek; [lia|].
    destruct (N.eqb_spec x (cs + k)) as [->|Hne].
    + destruct ((cs <=? cs + k) && (cs + k <? cs + (k + 1))) eqn:E; [|lia].
      f_equal. lia.
    + rewrite IH.
      destruct ((cs <=? x) && (x <? cs + k)) eqn:E1;
        destruct ((cs <=? x) && (x <? cs + (k + 1))) eqn:E2; try reflexivity; lia.
Qed.

Lemma pow2_double : forall ll, 1 <= ll -> 2 ^ (ll - 1) * 2 = 2 ^ ll.
Proof.
  intros ll H. replace ll with (N.succ (ll - 1)) at 2 by lia. rewrite N.pow_succ_r'. lia.
Qed.

Lemma copy_ok : forall ll t, 1 <= ll ->
  short_ok xc (N.to_nat (ll - 1)) t ->
  sok xc (N.to_nat ll) (N.to_nat (ll - 1))
      (forN 0 (2 ^ (ll - 1)) (fun i t => aset t (2 ^ (ll - 1) + i) (aget t i)) t).
Proof.
  intros ll t Hll Ht x Hx. rewrite N2Nat.id in Hx. rewrite copy_get.
  pose proof (pow2_double ll Hll) as Hd. pose proof (pow2_pos (ll - 1)) as Hpos.
  set (x' := N.land x (N.ones (ll - 1))).
  assert (Hx' : x' < 2 ^ (ll - 1)) by apply land_ones_lt.
  assert (Hag : forall i, i < ll - 1 -> N.testbit x' i = N.testbit x i).
  { intros i Hi. unfold x'. rewrite N.land_spec, N.ones_spec_low by exact Hi. apply andb_true_r. }
  assert (Hget : (if (2 ^ (ll - 1) <=? x) && (x <? 2 ^ (ll - 1) + 2 ^ (ll - 1))
                  then aget t (x - 2 ^ (ll - 1)) else aget t x) = aget t x').
  { unfold x'. rewrite N.land_ones.
    destruct ((2 ^ (ll - 1) <=? x) && (x <? 2 ^ (ll - 1) + 2 ^ (ll - 1))) eqn:E.
    - f_equal. apply N.mod_unique with 1; lia.
    - f_equal. symmetry. apply N.mod_small. lia. }
  rewrite Hget.
  destruct (Ht x') as [He Hc]; [rewrite N2Nat.id; exact Hx'|].
  split.
  - destruct He as [He|(syms & Hl & Hlits & Hseq & Hbits & Hpack & He)]; [left; exact He|].
    right. exists syms. split; [exact Hl|]. split; [exact Hlits|].
    split; [|split; [lia|split; [exact Hpack|exact He]]].
    apply (xseq_agree xc syms x' x); [|exact Hseq].
    intros i Hi. apply Hag. lia.
  - intros s len val Hin Hlen Hm. apply (Hc s len val Hin Hlen).
    apply (xmatch_agree x x'); [|exact Hm].
    intros i Hi. symmetry. apply Hag. lia.
Qed.

(* ---------------------------------------------------------------- one iteration of the main loop *)
Lemma gll_step_ok : forall multisym minLen ll t t' cs',
  1 <= ll <= 12 -> short_ok xc (N.to_nat (ll - 1)) t ->
  gll_step d multisym minLen ll (t, 2 ^ (ll - 1), ENone) = (t', cs', ENone) ->
  cs' = 2 ^ ll /\ short_ok xc (N.to_nat ll) t'.
Proof.
  intros multisym minLen ll t t' cs' Hll Ht H.
  unfold gll_step in H. cbv beta iota zeta in H.
  assert (Hcs : 2 ^ (ll - 1) <= 2048).
  { change 2048 with (2 ^ 11). apply pow2_le_mono. lia. }
  rewrite N.min_l in H by (clear H; lia).
  pose proof (copy_ok ll t ltac:(lia) Ht) as Hcopy.
  rewrite (pow2_double ll ltac:(lia)) in H.
  match type of H with (let '(t0, pan) := encodeSingles ?T d ll in _) = _ =>
    destruct (encodeSingles T d ll) as [t2 pan] eqn:ES
  end.
  pose proof (singles_ok _ ll t2 pan Hll Hcopy ES) as H2.
  destruct pan; [discriminate H|].
  destruct ((singleSymFlag <=? multisym) || (ll <? 2 * minLen)) eqn:E1.
  { inversion H; subst. split; [reflexivity|exact H2]. }
  destruct (encodePairs t2 d ll minLen) as [t3 e3] eqn:EP.
  pose proof (encodePairs_ok _ _ t2 ll minLen t3 e3 ltac:(lia) eq_refl ltac:(lia) H2 EP) as H3.
  destruct e3; try discriminate H.
  destruct ((doubleSymFlag <=? multisym) || (ll <? 3 * minLen)) eqn:E2.
  { inversion H; subst. split; [reflexivity|exact H3]. }
  destruct (encodeTriples t3 d ll minLen) as [t4 e4] eqn:ET.
  pose proof (encodeTriples_ok _ _ t3 ll minLen t4 e4 ltac:(lia) eq_refl ltac:(lia) H3 ET) as H4.
  inversion H; subst. split; [reflexivity|exact H4].
Qed.

Lemma gll_step_err : forall multisym minLen ll t cs err, err <> ENone ->
  gll_step d multisym minLen ll (t, cs, err) = (t, cs, err).
Proof. intros multisym minLen ll t cs err H. destruct err; [contradiction|..]; reflexivity. Qed.

(* ---------------------------------------------------------------- gll_phase1 *)
Lemma gll_phase1_ok_sec : forall sh0 multisym t cs,
  aget (litCount d) 22 <> 0 ->
  gll_phase1 sh0 d multisym = (t, cs, ENone) ->
  short_ok xc 12 t.
Proof.
  intros sh0 multisym t cs Hne H. unfold gll_phase1 in H. cbv zeta in H.
  destruct (any_slot 0 ltac:(lia)) as (m0 & Hm & Hb).
  destruct (slot_facts m0 0 Hm Hb) as (v & Hin & Hm1 & _ & _ & _ & Hlen).
  rewrite Hlen in H.
  remember (if 12 <? m0 then 13 else m0) as lastLen eqn:ELL.
  assert (HLL : 1 <= lastLen <= 13 /\ lastLen <= m0).
  { subst lastLen. destruct (12 <? m0) eqn:E; lia. }
  destruct (lastLen =? 0) eqn:Ez; [lia|].
  rewrite N.shiftl_1_l in H.
  assert (Hinv : let '(t1, cs1, e1) :=
                   forN lastLen 13 (gll_step d multisym lastLen)
                     (forN 0 (2 ^ (lastLen - 1)) (fun i t => aset t i 0) sh0,
                      2 ^ (lastLen - 1), ENone) in
                 e1 = ENone -> cs1 = 2 ^ (13 - 1) /\ short_ok xc (N.to_nat (13 - 1)) t1).
  { clear H.
    apply (forN_ind _ (fun j (st : arr * N * ierr) => let '(t1, cs1, e1) := st in
             e1 = ENone -> cs1 = 2 ^ (j - 1) /\ short_ok xc (N.to_nat (j - 1)) t1)).
    - lia.
    - intros _. split; [reflexivity|].
      intros x Hx. rewrite N2Nat.id in Hx.
      pose proof (forN_aset_get (fun _ => 0) 0 (2 ^ (lastLen - 1)) sh0 x (N.le_0_l _)) as Hg.
      cbv beta in Hg. rewrite Hg.
      destruct ((0 <=? x) && (x <? 2 ^ (lastLen - 1))) eqn:E; [|lia].
      split; [left; reflexivity|].
      intros s len val Hin' Hlen' _. exfalso.
      destruct (word_slot s len val Hin') as (k & Hk & _).
      pose proof (lc_mono (N.of_nat len + 1) m0 ltac:(lia) ltac:(lia)). lia.
    - intros j [[t1 cs1] e1] Hj IH.
      destruct (ierr_eqb e1 ENone) eqn:Ee.
      + assert (e1 = ENone) by (destruct e1; try discriminate Ee; reflexivity). subst e1.
        destruct (IH eq_refl) as [Hcs1 Hsok]. subst cs1.
        destruct (gll_step d multisym lastLen j (t1, 2 ^ (j - 1), ENone)) as [[t2 cs2] e2] eqn:EG.
        intros He2. subst e2.
        replace (j + 1 - 1) with j by lia.
        apply (gll_step_ok multisym lastLen j t1 t2 cs2 ltac:(lia) Hsok EG).
      + assert (Hne1 : e1 <> ENone) by (intro; subst e1; discriminate Ee).
        rewrite gll_step_err by exact Hne1. intros He1. contradiction. }
  rewrite H in Hinv. destruct (Hinv eq_refl) as [_ Hs]. exact Hs.
Qed.

End Sorted.

Theorem gll_phase1_ok : forall xc d sh0 multisym t cs,
  xc_wf xc -> xsorted xc d -> aget (litCount d) 22 <> 0 ->
  gll_phase1 sh0 d multisym = (t, cs, ENone) ->
  short_ok xc 12 t.
Proof.
  intros xc d sh0 multisym t cs Hwf HS Hne H.
  exact (gll_phase1_ok_sec xc d Hwf HS sh0 multisym t cs Hne H).
Qed.

Print Assumptions gll_phase1_ok.
