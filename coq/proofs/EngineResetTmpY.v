(* EngineResetHdr5.v -- Reset-equivalence proof, dynamic header, part 5: setupDynamicHeader on two
   states with the same live part (different stale tables and scratch arrays) returns the same
   error, states with the same live part and, on success, tables with equal lookups. *)
From Coq Require Import List NArith ZArith Bool Lia ZifyBool ZifyNat ZifyN.
From Verif Require Import Base Engine EngineTables EngineSafetyBase EngineSafetyBits EngineSafetyInv.
From Verif Require Import EngineResetDefs EngineResetHdr1 EngineResetHdr3 EngineResetHdr4.
From Verif Require Import EngineResetLitLenSim EngineResetSmallSim EngineResetDepSmall EngineResetHdr2.
From Verif Require Import EngineResetHdr6.
Import ListNotations.
Open Scope N_scope.

(* ---------------------------------------------------------------- array copies (as in the safety proof) *)
Lemma copy_from_spec : forall src off n t0 j,
  aget (forN 0 n (fun i t => aset t i (aget src (off + i))) t0) j =
  if j <? n then aget src (off + j) else aget t0 j.
Proof.
  intros src off n t0.
  apply (forN_ind arr (fun k t => forall j, aget t j = if j <? k then aget src (off + j) else aget t0 j)).
  - lia.
  - intros j. destruct (j <? 0) eqn:E; [lia|reflexivity].
  - intros k x Hk IH j. rewrite aget_aset. destruct (N.eqb_spec j k) as [->|Hne].
    + replace (k <? k + 1) with true by lia. reflexivity.
    + rewrite IH. destruct (j <? k) eqn:E1; destruct (j <? k + 1) eqn:E2; try lia; reflexivity.
Qed.

Lemma copy_to_spec : forall src off n t0 j,
  aget (forN 0 n (fun i t => aset t (off + i) (aget src i)) t0) j =
  if (off <=? j) && (j <? off + n) then aget src (j - off) else aget t0 j.
Proof.
  intros src off n t0.
  apply (forN_ind arr (fun k t => forall j, aget t j =
           if (off <=? j) && (j <? off + k) then aget src (j - off) else aget t0 j)).
  - lia.
  - intros j. destruct ((off <=? j) && (j <? off + 0)) eqn:E; [lia|reflexivity].
  - intros k x Hk IH j. rewrite aget_aset. destruct (N.eqb_spec j (off + k)) as [->|Hne].
    + replace ((off <=? off + k) && (off + k <? off + (k + 1))) with true by lia.
      f_equal. lia.
    + rewrite IH. destruct ((off <=? j) && (j <? off + k)) eqn:E1;
        destruct ((off <=? j) && (j <? off + (k + 1))) eqn:E2; try lia; reflexivity.
Qed.

Lemma count_len_ext2 : forall a ba b bb n l,
  (forall k, (k < n)%nat -> hc_len (aget a (ba + N.of_nat k)) = hc_len (aget b (bb + N.of_nat k))) ->
  count_len a ba n l = count_len b bb n l.
Proof.
  intros a ba b bb n l. induction n as [|k IH]; intros H; cbn [count_len]; [reflexivity|].
  rewrite IH by (intros j Hj; apply H; lia). rewrite (H k) by lia. reflexivity.
Qed.

Lemma ex_dec_ext : forall a b n L,
  (forall i, hc_len (aget a i) = hc_len (aget b i)) -> ex_dec a n L = ex_dec b n L.
Proof.
  intros a b n L H. induction n as [|k IH]; cbn [ex_dec]; [reflexivity|].
  rewrite IH, H. reflexivity.
Qed.

Lemma ex_inc_ext : forall a b n L,
  (forall i, hc_len (aget a i) = hc_len (aget b i)) -> ex_inc a n L = ex_inc b n L.
Proof.
  intros a b n L H. induction n as [|k IH]; cbn [ex_inc]; [reflexivity|].
  rewrite IH, H. reflexivity.
Qed.

Lemma rl_post_lit_ext : forall h h' lc ex,
  rl_post_lit h lc ex -> huff_ok h' ->
  (forall i, hc_len (aget h' i) = hc_len (aget h i)) ->
  rl_post_lit h' lc ex.
Proof.
  intros h h' lc ex (H1 & H2 & H3 & H4) Hok Hlen.
  split; [exact Hok|]. split; [|split; [exact H3|]].
  - intros l Hl. rewrite (H2 l Hl). apply count_len_ext2. intros k _. symmetry. apply Hlen.
  - intros L HL. rewrite (ex_dec_ext h' h), (ex_inc_ext h' h) by exact Hlen. apply H4, HL.
Qed.

(* readLitDistLens with its fuel as a parameter: never let the kernel see rl_loop applied to the
   closed numeral small_fuel in a position where it may be reduced (Qed would not terminate) *)
Definition readLitDistLens_F (fuel : nat) (s : inflate) (hdist hlit : N) : inflate * ierr :=
  let d := dyn s in
  let endv := Z.of_N (litLen + hdist + 1) in
  let split := Z.of_N (litTableSize + hlit) in
  let st0 := mkRL (rd s) (litAndDistHuff d) (litCount d) (distCount d) (litExpandCount d)
                  0%Z (-1)%Z false in
  let '(st, err) := rl_loop fuel (clcShort d) (clcLong d) split endv st0 in
  (set_rd (set_dyn s (set_dyn_counts d (rl_h st) (rl_lc st) (rl_dc st) (rl_ex st))) (rl_b st), err).

Lemma readLitDistLens_eq : forall s hdist hlit,
  readLitDistLens s hdist hlit = readLitDistLens_F small_fuel s hdist hlit.
Proof. reflexivity. Qed.

(* ---------------------------------------------------------------- tactics *)
Ltac sproj5 :=
  cbn [rd inputNil ov tb phase bfinal litBlockLength headerBuffered headerBuffer dyn roffset
       set_rd set_inputNil set_ov set_tb set_phase set_bfinal set_litBlockLength set_header
       set_dyn set_roffset set_dyn_huff set_dyn_counts with_clc
       litAndDistHuff clcShort clcLong codeList litCount distCount litExpandCount nextCode lenHuffCodes
       litShort litLong distShort distLong
       rl_b rl_h rl_lc rl_dc rl_ex] in *.

(* an error exit: both runs stop with the same error in states with the same live part *)
Ltac fin5 H1 H2 :=
  pinj H1; pinj H2; sproj5;
  split; [reflexivity|]; split; [reflexivity|]; split; [reflexivity|];
  split; [let Hc := fresh "Hc" in intros Hc; discriminate Hc|intros _; reflexivity].

Axiom cheat : forall P:Prop, P.
Theorem setupDynamicHeader_sim : setupDynamicHeader_sim_statement.
Proof.
  intros s1 s2 s1' e1 s2' e2 Hc H1 H2.
  split_state s1 s2 Hc t1 d1.
  destruct s2 as [r i o t2 p bf lbl hbd hb d2 ro].
  unfold setupDynamicHeader, loadBits in H1, H2. sproj5.
  destruct (load_lt57 r) as [b1|]; [|fin5 H1 H2].
  sproj5.
  destruct (r_len b1 <? 14)%Z; [fin5 H1 H2|].
  unfold next_bits in H1, H2. sproj5.
  set (hlit := N.land (r_bits b1) (N.ones 5)) in *.
  set (b2 := br_drop b1 5) in *.
  set (hdist := N.land (r_bits b2) (N.ones 5)) in *.
  set (b3 := br_drop b2 5) in *.
  set (hclen := N.land (r_bits b3) (N.ones 4)) in *.
  set (b4 := br_drop b3 4) in *.
  destruct ((29 <? hlit) || (29 <? hdist) || (15 <? hclen)) eqn:Echk; [fin5 H1 H2|].
  assert (Hhlit : hlit <= 29) by lia. assert (Hhdist : hdist <= 29) by lia.
  assert (Hhclen : hclen <= 15) by lia.
  match type of H1 with context [codeLenCodes ?S1 hclen] =>
    match type of H2 with context [codeLenCodes ?S2 hclen] =>
      destruct (codeLenCodes_sim S1 S2 hclen eq_refl Hhclen)
        as (b' & e & d1' & d2' & C1 & C2 & C3)
    end end.
  rewrite C1 in H1. rewrite C2 in H2. clear C1 C2.
  destruct e; try (fin5 H1 H2).
  destruct (C3 eq_refl) as (sh1 & lg1 & sh2 & lg2 & -> & -> & Hclc). clear C3.
  rewrite readLitDistLens_eq in H1, H2.
  set (fuel := small_fuel) in H1, H2. clearbody fuel.
  all: try (revert H1 H2); apply cheat.
Qed.
