(* EngineRefineHuffInner.v -- M5, layer B2: the inner loop huff_inner (the symbols of one
   literal/length table entry) against the reference. *)
From Coq Require Import List NArith ZArith Bool Lia ZifyBool ZifyNat ZifyN.
From Verif Require Import Bits Huffman HuffmanSpec Inflate InflateSpec InflateMono.
From Verif Require Import Base EngineTables Engine EngineRefineSpec EngineRefineSpecBlock
                          EngineRefineBits EngineRefineBridge.
From Verif Require HuffmanProofs SymbolsProofs EngineFacts.
From Verif Require Import EngineRefineHuffBase EngineRefineHuffSyms EngineRefineHuffDist.
Import ListNotations.
Open Scope N_scope.

(* ---------------------------------------------------------------- postcondition *)
(* Relative to the call (s, st, bs, out, w) with roll-back point (bT, wT):
   - HCont: a run of the reference to a point where nothing is pending or parked;
   - HFin, roll-back: reader and write position of the entry start, nothing parked, the
     window below wT untouched;
   - HFin, otherwise: a run of the reference such that the window after the flush is its
     output; for "output overflow" the reader is at that point of the stream. *)
Definition Post (L0 D : N) (lt dt : trie) (e : list bool) (s : inflate) (st : ostate) (bs0 : bs)
    (out : arr) (w : N) (bT : bitrd) (wT : N) (r : hres) : Prop :=
  match r with
  | HCont s' b' out' w' =>
    exists st' bs' ended,
      sym_run lt dt st bs0 st' bs' ended /\ s' = upd s (ph_of ended s) (mkOV L0 0 0 0) /\
      good_rd e b' bs' /\ winD D out' w' st' /\ w <= w' /\ w' <= outLen
  | HFin s' b' out' w' err =>
    (err = EEndInput /\ b' = bT /\ w' = wT /\ agree_below out' out wT /\ s' = upd s (phase s) ov0) \/
    (exists st' bs' ended o',
       sym_run lt dt st bs0 st' bs' ended /\ s' = upd s (ph_of ended s) o' /\
       Final L0 D o' out' w' st' /\ w <= w' /\ w' <= outLen /\
       ((err = EOutputOverflow /\ good_rd e b' bs' /\ w' = outLen) \/
        isError err = true \/ err = EPanic \/ err = EFuel))
  end.

Lemma Post_prepend : forall L0 D lt dt e s s1 o1 st bs0 st1 bs1 out out1 w w1 bT wT r,
  sym_run lt dt st bs0 st1 bs1 false -> s1 = upd s (phase s) o1 -> w <= w1 ->
  agree_below out1 out wT ->
  Post L0 D lt dt e s1 st1 bs1 out1 w1 bT wT r -> Post L0 D lt dt e s st bs0 out w bT wT r.
Proof.
  intros L0 D lt dt e s s1 o1 st bs0 st1 bs1 out out1 w w1 bT wT r R Es Hw Hag H.
  assert (Eph : forall ended, ph_of ended s1 = ph_of ended s) by (intros []; subst s1; reflexivity).
  destruct r as [s' b' out' w'|s' b' out' w' err]; cbn [Post] in *.
  - destruct H as (st' & bs' & ended & R2 & E2 & G & W & H1 & H2).
    exists st', bs', ended. split; [eapply sym_run_trans; eassumption|].
    split; [rewrite E2, Eph, Es; reflexivity|]. split; [exact G|]. split; [exact W|]. split; [lia|exact H2].
  - destruct H as [(E1 & E2 & E3 & E4 & E5)|(st' & bs' & ended & o' & R2 & E2 & F & H1 & H2 & H3)].
    + left. split; [exact E1|]. split; [exact E2|]. split; [exact E3|].
      split; [eapply agree_below_trans; eassumption|]. rewrite E5, Es. reflexivity.
    + right. exists st', bs', ended, o'. split; [eapply sym_run_trans; eassumption|].
      split; [rewrite E2, Eph, Es; reflexivity|]. split; [exact F|]. split; [lia|]. split; [exact H2|exact H3].
Qed.

Lemma winD_arr4_lits' : forall D out w st lits t nl n,
  winD D out w st -> Forall lit_sym lits -> (length lits <= 3)%nat ->
  nl = pack_syms (lits ++ t) -> n = N.of_nat (length lits) ->
  winD D (arr4 out w (u32 nl)) (w + n) (pushes lits st).
Proof. intros; subst. apply winD_arr4_lits; assumption. Qed.

Lemma park2 : forall s nl sc,
  set_wov (set_wov s nl sc) (writeOverflowLits (ov (set_wov s nl sc)))
          (writeOverflowLen (ov (set_wov s nl sc)) - 1)
  = upd s (phase s) (mkOV nl (sc - 1) (copyOverflowLength (ov s)) (copyOverflowDistance (ov s))).
Proof. intros []; reflexivity. Qed.

Lemma pushes_app : forall a b st, pushes (a ++ b) st = pushes b (pushes a st).
Proof. intros. unfold pushes. apply fold_left_app. Qed.

Lemma Forall_lit_app : forall a x, Forall lit_sym a -> fst x < 256 -> Forall lit_sym (a ++ [x]).
Proof. intros a x Ha Hx. apply Forall_app. split; [exact Ha|]. constructor; [exact Hx|constructor]. Qed.

(* ---------------------------------------------------------------- the inner loop *)
Lemma huff_inner_spec : forall L0 D ll dl lt dt e bT wT fuel s b out w pend st bs0,
  mktrie 15 ll = Some lt -> mktrie 15 dl = Some dt -> dist_tab_ok dl (tb s) ->
  Inv L0 D s out w st (N.of_nat (length pend)) (pack_syms pend) -> w <= outLen -> wT <= w ->
  br_wf b -> (0 <= r_len b)%Z -> lits_then_any pend -> (length pend <= 3)%nat ->
  pend_ok (xcodes ll) (bl bs0) pend (br_bits b ++ e) ->
  Post L0 D lt dt e s st bs0 out w bT wT
       (huff_inner fuel s b out w (N.of_nat (length pend)) (pack_syms pend) bT wT).
Proof.
  intros L0 D ll dl lt dt e bT wT.
  induction fuel as [|f IH]; intros s b out w pend st bs0 Hlt Hdt Htab HInv Hw HwT Hwf H0 Hlta Hlen Hp.
  { cbn [huff_inner Post]. right. exists st, bs0, false, (ov s).
    split; [apply sr_refl|]. split; [symmetry; apply upd_id|].
    split; [eapply Inv_Final; exact HInv|]. split; [lia|]. split; [exact Hw|].
    right; right; right; reflexivity. }
  rewrite huff_inner_S.
  destruct pend as [|[a la] rest].
  { (* nothing pending *)
    cbn [length N.of_nat N.eqb Post]. cbn [pend_ok] in Hp.
    destruct HInv as (C1 & C2 & [(A & B & W)|(_ & _ & Hsc & _)]); [|cbn in Hsc; lia].
    exists st, bs0, false. split; [apply sr_refl|].
    split; [rewrite <- (ovf_eta (ov s) L0 0 0 0 B A C1 C2); symmetry; apply upd_id|].
    split; [split; [exact Hwf|split; [exact H0|exact Hp]]|]. split; [exact W|]. split; [lia|exact Hw]. }
  pose proof Hp as Hp0.
  cbn [pend_ok] in Hp. destruct Hp as (val & l' & Hin & Hbl & Hp).
  destruct bs0 as [l p]. cbn [bl] in Hbl, Hp0. subst l.
  destruct (xcode_sem ll lt dt a la val l' p st Hlt Hin) as (Ha512 & Slit & Send & Slen).
  cbv zeta in Slit, Send, Slen.
  set (bsA := mkbs (bits_of_N la val ++ l') p) in *.
  set (bs1 := mkbs l' (p + N.of_nat la)) in *.
  destruct (N.eqb_spec (N.of_nat (length ((a, la) :: rest))) 0) as [Hz|_]; [cbn [length] in Hz; lia|].
  destruct HInv as (C1 & C2 & HI).
  assert (Eset : forall x y, set_wov s x y = upd s (phase s) (mkOV x y 0 0)).
  { intros x y. rewrite set_wov_upd, C1, C2. reflexivity. }
  destruct rest as [|[a2 la2] rest2].
  - (* ---------------- a single pending symbol *)
    cbn [length pack_syms] in *. change (N.of_nat 1) with 1 in *.
    replace (a + 256 * 0) with a in * by lia.
    cbv zeta. rewrite (land_ffff a), N.mod_small by lia.
    change (1 <? 1) with false. rewrite orb_false_r.
    cbn [pend_ok] in Hp.
    destruct (N.ltb_spec a 256) as [Hlit|Hnl].
    + (* a literal *)
      destruct HI as [(A & B & W)|(_ & _ & _ & Hbig & _)]; [|lia].
      destruct (N.eqb_spec w outLen) as [Hfull|Hroom].
      * (* parked at the boundary *)
        change (8 * (1 - 1)) with 0. rewrite N.shiftr_0_r.
        destruct (N.ltb_spec a 256) as [_|Hge]; [|lia].
        cbn [Post]. right. exists (push a st), bs1, false, (mkOV a 1 0 0).
        split; [apply sym_run_one; apply Slit; exact Hlit|].
        split; [apply Eset|].
        split.
        { unfold Final, flush_arr, flush_ovf.
          cbn [writeOverflowLits writeOverflowLen copyOverflowLength copyOverflowDistance N.eqb negb fst snd].
          split.
          - apply (winD_arr4_lits' D out w st [(a, la)] [] a 1 W).
            + constructor; [exact Hlit|constructor].
            + cbn [length]; lia.
            + cbn [app pack_syms]. lia.
            + reflexivity.
          - split; [lia|]. split; [lia|]. left; reflexivity. }
        split; [lia|]. split; [exact Hw|]. left. split; [reflexivity|].
        split; [split; [exact Hwf|split; [exact H0|exact Hp]]|exact Hfull].
      * (* written *)
        rewrite land_255, N.mod_small by lia.
        change (1 - 1) with (N.of_nat (@length (N * nat) [])).
        replace (N.shiftr a 8) with (pack_syms []) by (cbn [pack_syms]; rewrite shiftr_8; symmetry; apply N.div_small; exact Hlit).
        apply (Post_prepend L0 D lt dt e s s (ov s) st bsA (push a st) bs1 out (aset out w a) w (w + 1)).
        -- apply sym_run_one. apply Slit. exact Hlit.
        -- symmetry; apply upd_id.
        -- lia.
        -- apply agree_below_aset. exact HwT.
        -- apply IH; [exact Hlt|exact Hdt|exact Htab| | | |exact Hwf|exact H0|exact I| |exact Hp].
           ++ split; [exact C1|]. split; [exact C2|]. left. split; [exact A|]. split; [exact B|].
              apply winD_push. exact W.
           ++ unfold outLen in *. lia.
           ++ lia.
           ++ cbn [length]. lia.
    + destruct (N.eqb_spec a 256) as [H256|Hn256].
      * (* end of block *)
        destruct HI as [(A & B & W)|(_ & _ & _ & Hbig & _)]; [|lia].
        change (1 - 1) with 0. rewrite huff_inner_0.
        destruct f as [|f'].
        -- cbn [Post]. right. exists st, bs1, true, (ov s).
           split; [apply sr_end; apply Send; exact H256|].
           split; [apply end_of_block_upd|].
           split; [apply (Inv_Final L0 D s out w st 0 0); split; [exact C1|split; [exact C2|left; auto]]|].
           split; [lia|]. split; [exact Hw|]. right; right; right; reflexivity.
        -- cbn [Post]. exists st, bs1, true.
           split; [apply sr_end; apply Send; exact H256|].
           split; [rewrite <- (ovf_eta (ov s) L0 0 0 0 B A C1 C2); apply end_of_block_upd|].
           split; [split; [exact Hwf|split; [exact H0|exact Hp]]|]. split; [exact W|]. split; [lia|exact Hw].
      * (* a length *)
        unfold maxLitLenSym. destruct (N.leb_spec a 512) as [_|Hgt]; [|lia].
        subst l'.
        pose proof (len_branch_spec L0 D dl dt
                     (fun s b out w => huff_inner f s b out w (1 - 1) (N.shiftr a 8) bT wT)
                     s bT wT out w (a - 254) b st bsA e (p + N.of_nat la) 1 a Hdt Htab
                     (conj C1 (conj C2 HI)) Hw Hwf H0 ltac:(lia)) as HL.
        cbv zeta in HL. fold bs1 in HL. rewrite <- (Slen ltac:(lia)) in HL.
        destruct HL as [Er|[(b' & err & Er & Hfat)|(b' & st1 & bsn & d & Hs1 & G & [(c & Er & HF)|(Er & Hfit & Hz & W1)])]];
          rewrite Er.
        -- (* roll-back *)
           cbn [Post]. left. split; [reflexivity|]. split; [reflexivity|]. split; [reflexivity|].
           split; [apply agree_below_refl|]. apply Eset.
        -- (* fatal *)
           cbn [Post]. right. exists st, bsA, false, (ov s).
           split; [apply sr_refl|]. split; [symmetry; apply upd_id|].
           split; [apply (Inv_Final L0 D s out w st 1 a); split; [exact C1|split; [exact C2|exact HI]]|].
           split; [lia|]. split; [exact Hw|]. right. destruct Hfat as [Hf|Hf]; [left; exact Hf|right; left; exact Hf].
        -- (* the match is cut at the boundary *)
           cbn [Post]. right. exists st1, bsn, false, (ov (set_cov s c d)).
           split; [apply sym_run_one; exact Hs1|].
           split; [rewrite set_cov_upd; reflexivity|].
           split; [exact HF|]. split; [exact Hw|]. split; [lia|].
           left. split; [reflexivity|]. split; [exact G|reflexivity].
        -- (* the match fits *)
           cbv beta. change (1 - 1) with 0. rewrite huff_inner_0.
           destruct HI as [(A & B & W)|(Hn & _)]; [|lia].
           pose proof (ovf_eta (ov s) L0 0 0 0 B A C1 C2) as Eov.
           destruct f as [|f'].
           ++ cbn [Post]. right. exists st1, bsn, false, (ov s).
              split; [apply sym_run_one; exact Hs1|]. split; [symmetry; apply upd_id|].
              split; [rewrite Eov; apply Final_plain; exact W1|].
              split; [lia|]. split; [exact Hfit|]. right; right; right; reflexivity.
           ++ cbn [Post]. exists st1, bsn, false.
              split; [apply sym_run_one; exact Hs1|].
              split; [rewrite <- Eov; symmetry; apply upd_id|].
              split; [exact G|]. split; [exact W1|]. split; [lia|exact Hfit].
  - (* ---------------- several pending symbols: the first is a literal *)
    set (rest := (a2, la2) :: rest2) in *.
    assert (Hlta' : a < 256 /\ lits_then_any rest) by exact Hlta.
    destruct Hlta' as [Hlit Hltr].
    assert (Hnl : pack_syms ((a, la) :: rest) = a + 256 * pack_syms rest) by reflexivity.
    assert (Hsc : N.of_nat (length ((a, la) :: rest)) = N.of_nat (length rest) + 1) by (cbn [length]; lia).
    assert (Hr1 : 1 <= N.of_nat (length rest)) by (unfold rest; cbn [length]; lia).
    destruct HI as [(A & B & W)|(_ & _ & Hbad & _)]; [|lia].
    cbv zeta.
    destruct (N.ltb_spec 1 (N.of_nat (length ((a, la) :: rest)))) as [_|Hle]; [|lia].
    rewrite orb_true_r.
    destruct (N.eqb_spec w outLen) as [Hfull|Hroom].
    + (* parked at the boundary *)
      destruct (lits_then_any_split ((a, la) :: rest) ltac:(discriminate) Hlta) as (lits & [X lX] & Epend & Flits).
      assert (Hll : length ((a, la) :: rest) = S (length lits)).
      { rewrite Epend, app_length. cbn [length]. lia. }
      assert (Hsh : N.shiftr (pack_syms ((a, la) :: rest)) (8 * (N.of_nat (length ((a, la) :: rest)) - 1)) = X).
      { rewrite Hll. replace (N.of_nat (S (length lits)) - 1) with (N.of_nat (length lits)) by lia.
        rewrite Epend, pack_app_shift by exact Flits. cbn [pack_syms]. lia. }
      rewrite Hsh.
      (* the reference on the literals *)
      cbn [bl] in Hp0. rewrite Epend in Hp0.
      destruct (pend_ok_app _ _ _ _ _ Hp0) as (m & Pm1 & Pm2).
      destruct (run_lits ll lt dt lits _ m p st Hlt Flits Pm1) as (p' & Rl). fold bsA in Rl.
      cbn [pend_ok] in Pm2. destruct Pm2 as (valX & lx & HinX & -> & ->).
      destruct (xcode_sem ll lt dt X lX valX (br_bits b ++ e) p' (pushes lits st) Hlt HinX)
        as (HX512 & SlitX & SendX & SlenX).
      cbv zeta in SlitX, SendX, SlenX.
      set (bsX := mkbs (bits_of_N lX valX ++ br_bits b ++ e) p') in *.
      set (bsY := mkbs (br_bits b ++ e) (p' + N.of_nat lX)) in *.
      assert (GY : good_rd e b bsY) by (split; [exact Hwf|split; [exact H0|reflexivity]]).
      destruct (N.ltb_spec X 256) as [HXlit|HXnl].
      * (* all literals *)
        cbn [Post]. right.
        exists (push X (pushes lits st)), bsY, false,
               (mkOV (pack_syms ((a, la) :: rest)) (N.of_nat (length ((a, la) :: rest))) 0 0).
        split; [eapply sym_run_trans; [exact Rl|apply sym_run_one; apply SlitX; exact HXlit]|].
        split; [apply Eset|].
        split.
        { unfold Final, flush_arr, flush_ovf.
          cbn [writeOverflowLits writeOverflowLen copyOverflowLength copyOverflowDistance].
          destruct (N.eqb_spec (N.of_nat (length ((a, la) :: rest))) 0) as [Hz|_]; [lia|].
          cbn [N.eqb negb fst snd].
          split.
          - change (push X (pushes lits st)) with (pushes [(X, lX)] (pushes lits st)).
            rewrite <- pushes_app.
            apply (winD_arr4_lits' D out w st (lits ++ [(X, lX)]) [] _ _ W).
            + apply Forall_lit_app; [exact Flits|exact HXlit].
            + rewrite <- Epend. exact Hlen.
            + rewrite app_nil_r, Epend. reflexivity.
            + rewrite Epend. reflexivity.
          - split; [lia|]. split; [lia|]. left; reflexivity. }
        split; [lia|]. split; [exact Hw|]. left. split; [reflexivity|]. split; [exact GY|exact Hfull].
      * rewrite park2, C1, C2.
        assert (HW2 : winD D (arr4 out w (u32 (pack_syms ((a, la) :: rest))))
                           (w + (N.of_nat (length ((a, la) :: rest)) - 1)) (pushes lits st)).
        { apply (winD_arr4_lits' D out w st lits [(X, lX)] _ _ W).
          - exact Flits.
          - lia.
          - rewrite Epend. reflexivity.
          - lia. }
        destruct (N.eqb_spec X 256) as [HX256|HXn256].
        -- (* literals, then end of block *)
           cbn [Post]. right.
           exists (pushes lits st), bsY, true,
                  (mkOV (pack_syms ((a, la) :: rest)) (N.of_nat (length ((a, la) :: rest)) - 1) 0 0).
           split; [eapply sym_run_trans; [exact Rl|apply sr_end; apply SendX; exact HX256]|].
           split; [rewrite end_of_block_upd; reflexivity|].
           split.
           { unfold Final, flush_arr, flush_ovf.
             cbn [writeOverflowLits writeOverflowLen copyOverflowLength copyOverflowDistance].
             destruct (N.eqb_spec (N.of_nat (length ((a, la) :: rest)) - 1) 0) as [Hz|_]; [lia|].
             cbn [N.eqb negb fst snd].
             split; [exact HW2|]. split; [lia|]. split; [lia|]. left; reflexivity. }
           split; [lia|]. split; [exact Hw|]. left. split; [reflexivity|]. split; [exact GY|exact Hfull].
        -- (* literals, then a length: go on with the length alone *)
           set (o2 := mkOV (pack_syms ((a, la) :: rest)) (N.of_nat (length ((a, la) :: rest)) - 1) 0 0).
           set (s2 := upd s (phase s) o2).
           change 1 with (N.of_nat (length [(X, lX)])) at 1.
           replace X with (pack_syms [(X, lX)]) at 2 by (cbn [pack_syms]; lia).
           apply (Post_prepend L0 D lt dt e s s2 o2 st bsA (pushes lits st) bsX out out w w).
           ++ exact Rl.
           ++ reflexivity.
           ++ lia.
           ++ apply agree_below_refl.
           ++ apply IH; [exact Hlt|exact Hdt|exact Htab| |exact Hw|exact HwT|exact Hwf|exact H0|exact I| | ].
              ** split; [reflexivity|]. split; [reflexivity|]. right.
                 unfold s2, o2, upd. cbn [set_ov ov writeOverflowLen writeOverflowLits length].
                 split; [lia|]. split; [exact Hfull|]. split; [reflexivity|].
                 split; [cbn [pack_syms]; lia|]. exact HW2.
              ** cbn [length]. lia.
              ** cbn [pend_ok bl]. exists valX, (br_bits b ++ e). auto.
    + (* the first literal is written *)
      rewrite Hnl, pack_low, pack_shift8 by exact Hlit.
      replace (N.of_nat (length ((a, la) :: rest)) - 1) with (N.of_nat (length rest)) by lia.
      apply (Post_prepend L0 D lt dt e s s (ov s) st bsA (push a st) bs1 out (aset out w a) w (w + 1)).
      * apply sym_run_one. apply Slit. exact Hlit.
      * symmetry; apply upd_id.
      * lia.
      * apply agree_below_aset. exact HwT.
      * apply IH; [exact Hlt|exact Hdt|exact Htab| | | |exact Hwf|exact H0|exact Hltr| |exact Hp].
        -- split; [exact C1|]. split; [exact C2|]. left. split; [exact A|]. split; [exact B|].
           apply winD_push. exact W.
        -- unfold outLen in *. lia.
        -- lia.
        -- cbn [length] in Hlen. lia.
Qed.
