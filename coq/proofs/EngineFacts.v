(* EngineFacts.v -- computed facts tying the transcribed static tables of the engine model
   (RModel/EngineTables.v, generated from compress/flate/inflate_table.go by
   /verif/bin/gen-engine-tables) to the model's own table builder and to RFC 1951.
   Every statement is closed and decided by vm_compute; no axioms.

   How the Go static tables were built (igzip's generator, reproduced here):
   * literal/length: the fixed code of RFC 1951 3.2.6 over 288 symbols (0..143: 8 bits,
     144..255: 9, 256..279: 7, 280..287: 8).  Symbols 286 and 287 take part in the code
     assignment (they are counted: they are the last two 8-bit codes and shift the 9-bit codes)
     but get no table entry.  Multi-symbol mode: the default (it makes no difference, see below).  In the model
     this is: rl_put (the code-length bookkeeping of readLitDistLens) on the 288 lengths with
     the literal/distance border out of the way, then setAndExpandLitLenHuffCode and
     genForLitLen with defaultSymFlag, starting from all-zero tables.
   * distance: 32 codes of 5 bits, maxSymbol = 30: codes 30 and 31 get the "invalid symbol"
     entry (just the code length, 0x0005).  In the model: setCodes on 32 entries with
     count[5] = 32, then gen_small false (= genForDists) with maxSymbol 30. *)
From Coq Require Import List NArith ZArith Bool.
From Verif Require Import Base EngineTables Engine.
From Verif Require Inflate.
Import ListNotations.
Open Scope N_scope.

Definition arr_eq_upto (n : N) (a b : arr) : bool :=
  forN 0 n (fun i ok => ok && (aget a i =? aget b i)) true.

(* ---------------------------------------------------------------- literal/length table *)
Definition fixed_lit_len (i : N) : N :=
  if i <? 144 then 8 else if i <? 256 then 9 else if i <? 280 then 7 else 8.

(* the state readLitDistLens leaves behind for these 288 lengths (no distance part) *)
Definition rl_fixed : option rlst :=
  forN 0 288 (fun i (o : option rlst) =>
    match o with
    | None => None
    | Some st => rl_put st 288%Z 400%Z (hc_set 0 (fixed_lit_len i))
    end) (Some (mkRL br0 aempty aempty aempty aempty 0%Z (-1)%Z false)).

Definition static_lit_built (multisym : N) : option (arr * arr * ierr * ierr) :=
  match rl_fixed with
  | None => None
  | Some st =>
    let d := mkDyn (rl_h st) aempty aempty aempty (rl_lc st) (rl_dc st) (rl_ex st) aempty aempty in
    let '(d, e1) := setAndExpandLitLenHuffCode d in
    let '(sh, lg, _, e2) := genForLitLen aempty aempty d multisym in
    Some (sh, lg, e1, e2)
  end.

(* (a1) the model's builder reproduces staticLitHuffCode exactly: all 4096 short entries
   (single entries and long-code pointers) and all 1264 long entries *)
Theorem static_lit_table_rebuilt :
  match static_lit_built defaultSymFlag with
  | Some (sh, lg, ENone, ENone) =>
      arr_eq_upto 4096 sh static_lit_short && arr_eq_upto 1264 lg static_lit_long
  | _ => false
  end = true.
Proof. vm_compute. reflexivity. Qed.

(* the transcription has the declared sizes (nothing truncated or padded) *)
Theorem static_table_sizes :
  (length static_lit_short_l, length static_lit_long_l,
   length static_dist_short_l, length static_dist_long_l) = (4096, 1264, 1024, 80)%nat.
Proof. vm_compute. reflexivity. Qed.

(* The multi-symbol mode does not matter for this code: its shortest code has 7 bits and two
   codes do not fit the 12-bit short table, so the table holds single entries (and long-code
   pointers) only; the single-symbol and pair modes build the same table. *)
Theorem static_lit_table_any_mode :
  match static_lit_built singleSymFlag, static_lit_built doubleSymFlag with
  | Some (sh1, lg1, ENone, ENone), Some (sh2, lg2, ENone, ENone) =>
      arr_eq_upto 4096 sh1 static_lit_short && arr_eq_upto 1264 lg1 static_lit_long
      && arr_eq_upto 4096 sh2 static_lit_short && arr_eq_upto 1264 lg2 static_lit_long
  | _, _ => false
  end = true.
Proof. vm_compute. reflexivity. Qed.

(* every short entry is a single symbol (count field 1), a long-code pointer (flag bit), or 0
   (the codes of the symbols 286 and 287: invalid) *)
Theorem static_lit_table_singles_only :
  forallb (fun e => (e =? 0) || (negb (N.land e largeFlagBit =? 0)) || (N.land (N.shiftr e 26) 3 =? 1))
          static_lit_short_l = true.
Proof. vm_compute. reflexivity. Qed.

(* ---------------------------------------------------------------- distance table *)
Definition static_dist_built : bool * ierr * arr * arr :=
  let codes := forN 0 32 (fun i t => aset t i (hc_set 0 5)) aempty in
  let count := aset aempty 5 32 in
  let '(codes, bad) := setCodes codes 0 32 count in
  let '(sh, lg, _, e) := gen_small false aempty aempty codes 32 count 30 in
  (bad, e, sh, lg).

(* (a2) the model's builder reproduces staticDistHuffCode exactly: 1024 short entries (the
   entries of codes 30 and 31 are the bare length 5) and the 80 (all zero) long entries *)
Theorem static_dist_table_rebuilt :
  match static_dist_built with
  | (false, ENone, sh, lg) =>
      arr_eq_upto 1024 sh static_dist_short && arr_eq_upto 80 lg static_dist_long
  | _ => false
  end = true.
Proof. vm_compute. reflexivity. Qed.

(* ---------------------------------------------------------------- rfcLookupTable *)
(* (b) base values and extra-bit counts are those of RFC 1951 3.2.5 (Spec/Inflate.v) *)
Theorem rfc_len_tables :
  combine (firstn 29 rfc_len_start_l) (firstn 29 rfc_len_extra_l) = Inflate.len_table.
Proof. vm_compute. reflexivity. Qed.

Theorem rfc_dist_tables :
  combine (firstn 30 rfc_dist_start_l) (firstn 30 rfc_dist_extra_l) = Inflate.dist_table.
Proof. vm_compute. reflexivity. Qed.

(* the padding of the 32-entry Go arrays: LenStart[29] = 259 (unused), everything else 0 *)
Theorem rfc_tables_padding :
  (skipn 29 rfc_len_start_l, skipn 29 rfc_len_extra_l,
   skipn 30 rfc_dist_start_l, skipn 30 rfc_dist_extra_l) = ([259; 0; 0], [0; 0; 0], [0; 0], [0; 0]).
Proof. vm_compute. reflexivity. Qed.

(* (c) the expanded length symbols: expandLenCodes gives the symbol of (length symbol s, extra
   value e) the index 257 + (number of expansions of the smaller symbols) + e, the table entry
   holds indexToSym of it, and the decode loop computes repeatLength = symbol - 254.  That is
   base(s) + e of RFC 1951 for every s and e, including both spellings of 258. *)
Definition expanded_lengths_ok : bool :=
  let '(_, ok) :=
    fold_left (fun (a : N * bool) (be : N * N) =>
      let '(idx, ok) := a in
      let '(base, extra) := be in
      let n := N.shiftl 1 extra in
      (idx + n, ok && forN 0 n (fun e ok => ok && (indexToSym (idx + e) - 254 =? base + e)) true))
      Inflate.len_table (257, true) in
  ok.
Theorem expanded_length_symbols : expanded_lengths_ok = true.
Proof. vm_compute. reflexivity. Qed.
