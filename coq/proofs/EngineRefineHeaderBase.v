(* EngineRefineHeaderBase.v -- small shared lemmas for EngineRefineHeader*.v (M4a):
   arrays, iterN/forN induction, machine-integer wrappers in range, the bit reader once it
   has gone negative. *)
From Coq Require Import List NArith ZArith Bool Lia ZifyBool ZifyNat ZifyN.
From Verif Require Import Bits Huffman HuffmanSpec Inflate.
From Verif Require Import Base EngineTables Engine EngineRefineSpec EngineRefineBits EngineRefineBridge.
Import ListNotations.
Open Scope N_scope.

(* ---------------------------------------------------------------- arrays *)
Lemma succ_pos_inj : forall i j, N.succ_pos i = N.succ_pos j -> i = j.
Proof.
  intros i j H. apply N.succ_inj. rewrite <- !N.succ_pos_spec. now rewrite H.
Qed.

Lemma aget_aset : forall a i v j, aget (aset a i v) j = if j =? i then v else aget a j.
Proof.
  intros a i v j. unfold aget, aset. destruct (N.eqb_spec j i) as [Heq|Hne].
  - subst j. now rewrite PositiveMap.gss.
  - rewrite PositiveMap.gso; auto. intro H; apply Hne, succ_pos_inj, H.
Qed.

Lemma aget_aset_same : forall a i v, aget (aset a i v) i = v.
Proof. intros. rewrite aget_aset, N.eqb_refl. reflexivity. Qed.

Lemma aget_aset_other : forall a i v j, j <> i -> aget (aset a i v) j = aget a j.
Proof. intros a i v j H. rewrite aget_aset. destruct (N.eqb_spec j i); [contradiction|reflexivity]. Qed.

Lemma aget_empty : forall j, aget aempty j = 0.
Proof. intros j. unfold aget, aempty. now rewrite PositiveMap.gempty. Qed.

(* ---------------------------------------------------------------- iterN / forN *)
Lemma iterN_ind : forall (St : Type) (P : N -> St -> Prop) (f : N -> St -> St) n i s,
  P i s ->
  (forall j x, i <= j < i + N.of_nat n -> P j x -> P (j + 1) (f j x)) ->
  P (i + N.of_nat n) (iterN n i f s).
Proof.
  intros St P f n. induction n as [|k IH]; intros i s H0 Hstep.
  - cbn [iterN]. replace (i + N.of_nat 0) with i by lia. exact H0.
  - cbn [iterN]. replace (i + N.of_nat (S k)) with ((i + 1) + N.of_nat k) by lia.
    apply IH.
    + apply Hstep; [lia|exact H0].
    + intros j x Hj Hx. apply Hstep; [lia|exact Hx].
Qed.

Lemma forN_ind : forall (St : Type) (P : N -> St -> Prop) (f : N -> St -> St) lo hi s,
  lo <= hi ->
  P lo s ->
  (forall j x, lo <= j < hi -> P j x -> P (j + 1) (f j x)) ->
  P hi (forN lo hi f s).
Proof.
  intros St P f lo hi s Hle H0 Hstep. unfold forN.
  replace hi with (lo + N.of_nat (N.to_nat (hi - lo))) at 1 by lia.
  apply iterN_ind; [exact H0|].
  intros j x Hj Hx. apply Hstep; [lia|exact Hx].
Qed.

(* ---------------------------------------------------------------- machine integers *)
Lemma land_ones_lt : forall x k, N.land x (N.ones k) < 2 ^ k.
Proof. intros x k. rewrite N.land_ones. apply N.mod_lt. apply N.pow_nonzero. lia. Qed.

Lemma u16_mod : forall x, u16 x = x mod 65536.
Proof. intros x. unfold u16. change mask16 with (N.ones 16). now rewrite N.land_ones. Qed.
Lemma u32_mod : forall x, u32 x = x mod 4294967296.
Proof. intros x. unfold u32. change mask32 with (N.ones 32). now rewrite N.land_ones. Qed.
Lemma u16_small : forall x, x < 65536 -> u16 x = x.
Proof. intros x H. rewrite u16_mod. apply N.mod_small. exact H. Qed.
Lemma u32_small : forall x, x < 4294967296 -> u32 x = x.
Proof. intros x H. rewrite u32_mod. apply N.mod_small. exact H. Qed.

Lemma hc_set0 : forall x, x < 256 -> hc_set 0 x = x * 16777216.
Proof.
  intros x H. unfold hc_set. rewrite N.lor_0_l, N.shiftl_mul_pow2.
  change (2 ^ 24) with 16777216. apply u32_small. lia.
Qed.

Lemma hc_len_set0 : forall x, x < 256 -> hc_len (hc_set 0 x) = x.
Proof.
  intros x H. rewrite hc_set0 by exact H. unfold hc_len. rewrite N.shiftr_div_pow2.
  change (2 ^ 24) with 16777216. apply N.div_mul. lia.
Qed.

Lemma hc_set00 : hc_set 0 0 = 0.
Proof. reflexivity. Qed.

Lemma hc_set0_inj : forall x y, x < 256 -> y < 256 -> hc_set 0 x = hc_set 0 y -> x = y.
Proof. intros x y Hx Hy H. rewrite !hc_set0 in H by assumption. lia. Qed.

(* ---------------------------------------------------------------- the reader gone negative *)
Lemma wf_neg_bits0 : forall b, br_wf b -> (r_len b < 0)%Z -> r_bits b = 0.
Proof.
  intros b (W1 & W2 & W3 & W4 & W5) Hn.
  apply N.bits_inj_0. intros i. destruct (N.testbit (r_bits b) i) eqn:E; [|reflexivity].
  apply W5 in E. unfold br_bits in E. rewrite (W3 Hn) in E.
  replace (Z.to_nat (r_len b)) with 0%nat in E by lia. cbn in E.
  destruct (N.to_nat i); discriminate.
Qed.

Lemma br_drop_neg : forall b k, br_wf b -> (r_len b < 0)%Z ->
  br_wf (br_drop b k) /\ (r_len (br_drop b k) < 0)%Z.
Proof.
  intros b k Hwf Hn. pose proof (wf_neg_bits0 b Hwf Hn) as H0.
  destruct Hwf as (W1 & W2 & W3 & W4 & W5).
  split; [|unfold br_drop; cbn [r_len]; lia].
  unfold br_wf, br_bits, br_drop; cbn [r_len r_bits r_in r_inlen]. rewrite H0, N.shiftr_0_l.
  split; [exact W1|]. split; [lia|]. split; [intros _; apply W3; exact Hn|]. split; [exact W4|].
  intros i Hi. rewrite N.bits_0 in Hi. discriminate.
Qed.

(* dropping k bits when k bits are "loaded" keeps the reader well formed *)
Lemma br_drop_wf : forall b k, br_wf b -> br_loaded (Z.of_N k) b -> br_wf (br_drop b k).
Proof.
  intros b k Hwf Hl.
  destruct (Z.leb_spec (Z.of_N k) (r_len b)) as [Hk|Hk].
  - apply (br_drop_bits b k Hwf Hk).
  - destruct Hl as [Hin|Hl]; [|lia].
    destruct (Z.ltb_spec (r_len b) 0) as [Hn|Hn].
    + apply (br_drop_neg b k Hwf Hn).
    + apply (br_drop_short b k Hwf Hin). lia.
Qed.

Lemma br_loaded_mono : forall k k' b, (k' <= k)%Z -> br_loaded k b -> br_loaded k' b.
Proof. intros k k' b H [Hl|Hl]; [left; exact Hl|right; lia]. Qed.

Lemma br_drop_loaded : forall b k m, br_loaded m b -> br_loaded (m - Z.of_N k) (br_drop b k).
Proof.
  intros b k m [Hl|Hl]; [left; exact Hl|right; unfold br_drop; cbn [r_len]; lia].
Qed.

Lemma br_drop_len : forall b k, r_len (br_drop b k) = (r_len b - Z.of_N k)%Z.
Proof. reflexivity. Qed.

(* a load of a negative reader does nothing *)
Lemma load_raw_neg : forall b b', (r_len b < 0)%Z -> load_raw b = Some b' -> b' = b.
Proof.
  intros b b' Hn H. unfold load_raw in H.
  destruct (Z.ltb_spec (r_len b) 0) as [_|Hc]; [|lia].
  destruct (r_inlen b =? 0); [injection H as <-; reflexivity|discriminate].
Qed.
Lemma load_lt57_neg : forall b b', (r_len b < 0)%Z -> load_lt57 b = Some b' -> b' = b.
Proof.
  intros b b' Hn H. unfold load_lt57 in H.
  destruct (Z.ltb_spec (r_len b) 57) as [_|Hc]; [|lia]. apply load_raw_neg; assumption.
Qed.
Lemma load_le15_neg : forall b b', (r_len b < 0)%Z -> load_le15 b = Some b' -> b' = b.
Proof.
  intros b b' Hn H. unfold load_le15 in H.
  destruct (Z.leb_spec (r_len b) 15) as [_|Hc]; [|lia]. apply load_raw_neg; assumption.
Qed.

(* nextBits in all situations: well-formedness is kept when the bits are loaded; with the bits
   really there it is `take` *)
Lemma next_bits_step : forall b k, br_wf b -> br_loaded (Z.of_N k) b ->
  br_wf (snd (next_bits b k)) /\
  r_len (snd (next_bits b k)) = (r_len b - Z.of_N k)%Z /\
  r_in (snd (next_bits b k)) = r_in b /\
  fst (next_bits b k) < 2 ^ k /\
  ((0 <= r_len (snd (next_bits b k)))%Z -> forall e p,
     take (N.to_nat k) (mkbs (br_bits b ++ e) p)
     = Some (fst (next_bits b k), mkbs (br_bits (snd (next_bits b k)) ++ e) (p + k))).
Proof.
  intros b k Hwf Hl. unfold next_bits. cbn [fst snd].
  split; [apply br_drop_wf; assumption|]. split; [reflexivity|]. split; [reflexivity|].
  split; [apply land_ones_lt|].
  intros H0 e p. rewrite br_drop_len in H0.
  pose proof (next_bits_take b k e p Hwf ltac:(lia)) as T. unfold next_bits in T.
  apply T.
Qed.

(* firstn / nth helpers *)
Lemma nth_firstn_ge : forall (A : Type) (l : list A) k i d, (k <= i)%nat -> nth i (firstn k l) d = d.
Proof.
  intros A l k i d H. apply nth_overflow. rewrite firstn_length. lia.
Qed.

Lemma rev_repeat : forall (A : Type) (x : A) n, rev (repeat x n) = repeat x n.
Proof.
  intros A x n. induction n as [|n IH]; [reflexivity|].
  cbn [repeat rev]. rewrite IH. clear IH.
  induction n as [|n IH]; [reflexivity|]. cbn [repeat app]. rewrite IH. reflexivity.
Qed.
