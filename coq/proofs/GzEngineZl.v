(* GzEngineZl.v -- GzEngineSpec.v section (b): the zlib reader model (no dictionary, FDICT clear)
   against Containers.zl_read, from the intermediate layers (taken as hypotheses, exactly as
   stated in GzEngineSpec.v):
     zl_sound_from : ioReadFull_spec -> adler_update_app -> adler_sum -> newReader_on_inv ->
                     gz_dRead_ok -> dRead_strm -> zl_sticky -> zl_sound_statement *)
From Coq Require Import List NArith ZArith Bool Lia.
From Verif Require Import Bits Huffman Inflate InflateSpec.
From Verif Require Import Containers ContainersSpec.
From Verif Require Import Base Engine EngineReset EngineRefineSpecBuf EngineRefineSpecReach
     EngineRefineSpecTop EngineRefineSpecFinal EngineRefineRun GzEngine.
From Verif Require Import GzEngineSpec EngineRefineBuf.
Import ListNotations.
Open Scope N_scope.

(* With the default unfolding order the kernel, comparing zlReset / zlRead with their bodies,
   may pick ioReadFull / dRead (loops on big_fuel = 262144) to unfold first and overflows its
   stack; they are unfolded last instead.  The setting is local to this file. *)
Local Strategy opaque [ioReadFull dRead big_fuel].

(* ---------------------------------------------------------------- lists *)
Lemma zfrev_rev : forall (A : Type) (l : list A), frev l = rev l.
Proof. intros A l. unfold frev. rewrite rev_append_rev. apply app_nil_r. Qed.

Lemma skipn_len_app : forall (A : Type) (D s : list A), skipn (length D) (D ++ s) = s.
Proof. intros A D s. induction D as [|x D IH]; [reflexivity|exact IH]. Qed.

Lemma firstn_len_app : forall (A : Type) (D s : list A), firstn (length D) (D ++ s) = D.
Proof. intros A D s. induction D as [|x D IH]; [reflexivity|]. cbn [length app firstn]. rewrite IH. reflexivity. Qed.

Lemma skipn_add : forall (A : Type) (a b : nat) (l : list A), skipn a (skipn b l) = skipn (b + a) l.
Proof.
  intros A a b. induction b as [|b IH]; intros l; [reflexivity|].
  destruct l as [|x l]; [destruct a; reflexivity|]. cbn [skipn Nat.add]. apply IH.
Qed.

Lemma bytes_ok_skipn : forall k l, bytes_ok l -> bytes_ok (skipn k l).
Proof.
  unfold bytes_ok. intros k l H. rewrite <- (firstn_skipn k l) in H.
  apply Forall_app in H. exact (proj2 H).
Qed.

Lemma obs_bytes_app : forall a b, obs_bytes (a ++ b) = obs_bytes a ++ obs_bytes b.
Proof. intros a b. unfold obs_bytes. rewrite map_app, concat_app. reflexivity. Qed.

Lemma obs_bytes_all_nil : forall (e : gres) l,
  Forall (fun br : list N * gres => br = ([], e)) l -> obs_bytes l = [].
Proof.
  intros e l H. induction H as [|x l Hx _ IH]; [reflexivity|].
  subst x. unfold obs_bytes in *. cbn [map fst concat app]. exact IH.
Qed.

Lemma in_snd_all : forall (e x : gres) l,
  Forall (fun br : list N * gres => br = ([], e)) l -> In x (map snd l) -> x = e.
Proof.
  intros e x l H Hin. apply in_map_iff in Hin. destruct Hin as (br & Hs & Hin).
  rewrite Forall_forall in H. rewrite (H _ Hin) in Hs. cbn [snd] in Hs. symmetry. exact Hs.
Qed.

Lemma in_snd_ok : forall (x : gres) (acc : list (list N * gres)),
  Forall (fun y : list N * gres => snd y = GR ROk) acc -> In x (map snd (rev acc)) -> x = GR ROk.
Proof.
  intros x acc H Hin. apply in_map_iff in Hin. destruct Hin as (br & Hs & Hin).
  apply in_rev in Hin. rewrite Forall_forall in H. rewrite (H _ Hin) in Hs. symmetry. exact Hs.
Qed.

Lemma zl_reads_acc : forall reads z acc,
  fst (zl_reads_g z reads acc) = rev acc ++ fst (zl_reads_g z reads []).
Proof.
  induction reads as [|p rest IH]; intros z acc.
  - cbn [zl_reads_g fst]. rewrite !zfrev_rev. cbn [rev]. symmetry. apply app_nil_r.
  - cbn [zl_reads_g]. destruct (zlRead z p) as [[z' bytes] e].
    rewrite (IH z' ((bytes, e) :: acc)), (IH z' [(bytes, e)]).
    cbn [rev app]. rewrite <- app_assoc. reflexivity.
Qed.

(* ---------------------------------------------------------------- the two header bytes *)
Lemma land32_testbit : forall x, N.testbit x 5 = false -> N.land x 32 = 0.
Proof.
  intros x H. apply N.bits_inj. intros n. rewrite N.land_spec, N.bits_0.
  change 32 with (2 ^ 5). rewrite N.pow2_bits_eqb.
  destruct (N.eqb_spec 5 n) as [<-|_]; [rewrite H; reflexivity|apply andb_false_r].
Qed.

Lemma zl_hdr_test : forall s0 s1,
  (negb (N.land s0 15 =? 8) || (7 <? N.shiftr s0 4) || negb (of_be [s0; s1] mod 31 =? 0)) =
  negb ((s0 mod 16 =? 8) && (s0 / 16 <=? 7) && ((s0 * 256 + s1) mod 31 =? 0)).
Proof.
  intros s0 s1. change 15 with (N.ones 4). rewrite N.land_ones, N.shiftr_div_pow2.
  change (2 ^ 4) with 16.
  replace (of_be [s0; s1]) with (s0 * 256 + s1) by (unfold of_be; cbn [fold_left]; lia).
  rewrite (N.ltb_antisym (s0 / 16) 7).
  destruct (s0 mod 16 =? 8), (s0 / 16 <=? 7), ((s0 * 256 + s1) mod 31 =? 0); reflexivity.
Qed.

(* ---------------------------------------------------------------- zl_read after the header *)
Definition zl_tail (r1 : list N) : Containers.gres :=
  let r := Inflate.inflate [] r1 in
  match status r with
  | Done =>
    let rest := skipn (N.to_nat ((bitpos r + 7) / 8)) r1 in
    if (length rest <? 4)%nat then mkgres (out r) CUnexpectedEOF [] [] false
    else if of_be (firstn 4 rest) =? adler32 (out r)
         then mkgres (out r) CEOF (skipn 4 rest) [] false
         else mkgres (out r) CChecksum (skipn 4 rest) [] false
  | NeedInput => mkgres (out r) CUnexpectedEOF [] [] false
  | _ => mkgres (out r) CCorrupt [] [] false
  end.

Lemma zl_read_tail : forall data,
  (length data <? 2)%nat = false ->
  negb ((nth 0 data 0 mod 16 =? 8) && (nth 0 data 0 / 16 <=? 7) &&
        ((nth 0 data 0 * 256 + nth 1 data 0) mod 31 =? 0)) = false ->
  N.testbit (nth 1 data 0) 5 = false ->
  zl_read None data = zl_tail (skipn 2 data).
Proof.
  intros data H1 H2 H3. unfold zl_read, zl_tail. cbv zeta. unfold byte. rewrite H1, H2, H3. reflexivity.
Qed.

Lemma zl_tail_ctor : forall l, g_at_ctor (zl_tail l) = false.
Proof.
  intros l. unfold zl_tail. cbv zeta.
  destruct (status (Inflate.inflate [] l)); try reflexivity.
  destruct (length _ <? 4)%nat; [reflexivity|]. destruct (_ =? _); reflexivity.
Qed.

Lemma zl_tail_payload : forall l, g_payload (zl_tail l) = out (Inflate.inflate [] l).
Proof.
  intros l. unfold zl_tail. cbv zeta.
  destruct (status (Inflate.inflate [] l)); try reflexivity.
  destruct (length _ <? 4)%nat; [reflexivity|]. destruct (_ =? _); reflexivity.
Qed.

Lemma zl_tail_ceof : forall l rest,
  status (Inflate.inflate [] l) = Done ->
  rest = skipn (N.to_nat ((bitpos (Inflate.inflate [] l) + 7) / 8)) l ->
  (4 <= length rest)%nat ->
  of_be (firstn 4 rest) = adler32 (out (Inflate.inflate [] l)) ->
  g_err (zl_tail l) = CEOF.
Proof.
  intros l rest Hd -> Hlen Hsum. unfold zl_tail. cbv zeta. unfold byte in *. rewrite Hd.
  match goal with |- context [(?a <? 4)%nat] => destruct (Nat.ltb_spec a 4) as [Hlt|_] end; [lia|].
  rewrite Hsum, N.eqb_refl. reflexivity.
Qed.

(* ---------------------------------------------------------------- the invariant between Reads *)
Definition ZI (data : list N) (z : zlreader) (T : list N) : Prop :=
  exists d, strm_inv data (zl_r z) /\ zl_dec z = ZFast d /\
            gz_eng_inv 2 (skipn 2 data) T (set_rBuf d (zl_r z)) /\
            zl_digest z = adler_update adler0 T.

Lemma strm_at : forall data b n, strm_inv data b -> consumed b = 2 + n ->
  bstream b = skipn (N.to_nat n) (skipn 2 data).
Proof.
  intros data b n (_ & D & Hd & Hc) Hn. rewrite skipn_add.
  replace (2 + N.to_nat n)%nat with (length D) by lia.
  rewrite Hd. symmetry. apply skipn_len_app.
Qed.

(* ---------------------------------------------------------------- NewReader *)
Lemma zlNew_ok :
  ioReadFull_spec_statement -> newReader_on_inv_statement ->
  forall data cs bufsize t z e,
    concat cs = data -> Forall (fun c => c <> []) cs ->
    N.testbit (nth 1 data 0) 5 = false ->
    zlNewReaderDict (mkbufrd bufsize cs t) [] = (z, e) -> e = GR ROk ->
    zl_read None data = zl_tail (skipn 2 data) /\ ZI data z [] /\ zl_err z = GR ROk.
Proof.
  intros HRF HNI data cs bufsize t z e Hcs Hne Hbit HN He.
  destruct (newbuf_ok bufsize cs t Hne) as (B1 & B2 & B3).
  change (mkBuf (N.max bufsize 16) [] 0 None cs t 0) with (mkbufrd bufsize cs t) in *.
  set (b := mkbufrd bufsize cs t) in *. clearbody b.
  unfold zlNewReaderDict, zlReset, zlZero in HN. cbn [zl_r zl_dec] in HN.
  pose proof (HRF b 2 B1 ltac:(lia)) as HR.
  destruct (ioReadFull b 2) as [[buf r] b'].
  destruct HR as (R1 & R2 & R3 & R4 & R5 & R6 & R7 & R8 & _).
  destruct r; cbv beta iota zeta in HN;
    try (injection HN as _ HN; subst e; cbn in He; discriminate He).
  specialize (R7 eq_refl). unfold lenN in R7.
  destruct buf as [|s0 [|s1 [|s2 buf]]]; cbn [length] in R7; try lia.
  assert (Hdata : data = s0 :: s1 :: bstream b').
  { rewrite <- Hcs, <- B2. exact R2. }
  change (nthN [s0; s1] 0) with s0 in HN. change (nthN [s0; s1] 1) with s1 in HN.
  rewrite zl_hdr_test in HN.
  destruct (negb ((s0 mod 16 =? 8) && (s0 / 16 <=? 7) && ((s0 * 256 + s1) mod 31 =? 0))) eqn:Ehdr.
  { injection HN as _ HN. subst e. discriminate He. }
  assert (Hbit' : N.testbit s1 5 = false).
  { rewrite Hdata in Hbit. exact Hbit. }
  rewrite (land32_testbit s1 Hbit') in HN.
  cbn [N.eqb negb gnil zl_set_r zl_r zl_dec zl_digest zl_err] in HN.
  injection HN as HN _. subst z.
  split.
  { apply zl_read_tail.
    - rewrite Hdata. reflexivity.
    - rewrite Hdata. cbn [nth]. exact Ehdr.
    - exact Hbit. }
  split; [|reflexivity].
  exists (newReader_on b'). cbn [zl_r zl_dec zl_digest].
  assert (Hc : consumed b' = 2).
  { rewrite R3, B3. unfold lenN. cbn [length]. reflexivity. }
  split.
  { split; [exact R1|]. exists [s0; s1]. split; [exact Hdata|]. rewrite Hc. reflexivity. }
  split; [reflexivity|].
  split; [|reflexivity].
  replace (set_rBuf (newReader_on b') b') with (newReader_on b') by reflexivity.
  pose proof (HNI b' R1) as HI. rewrite Hc in HI.
  rewrite Hdata. cbn [skipn]. exact HI.
Qed.

(* ---------------------------------------------------------------- one Read *)
Lemma zlRead_ok :
  ioReadFull_spec_statement -> adler_update_app_statement -> adler_sum_statement ->
  gz_dRead_ok_statement -> dRead_strm_statement ->
  forall data, bytes_ok data -> forall z T p,
    ZI data z T -> zl_err z = GR ROk ->
    let '(z', bytes, e) := zlRead z p in
    is_prefix (T ++ bytes) (out (Inflate.inflate [] (skipn 2 data))) /\
    (e = GR ROk -> ZI data z' (T ++ bytes) /\ zl_err z' = GR ROk) /\
    (e = GR REOF -> g_err (zl_tail (skipn 2 data)) = CEOF /\
                    T ++ bytes = out (Inflate.inflate [] (skipn 2 data))).
Proof.
  intros HRF HAA HAS HDR HST data Hbytes z T p (d & Hstrm & Hdec & Hinv & Hdig) Herr.
  unfold zlRead. rewrite Herr. cbn [gnil negb]. unfold zl_decRead. rewrite Hdec.
  pose proof (HDR 2 (skipn 2 data) T (set_rBuf d (zl_r z)) p (bytes_ok_skipn 2 data Hbytes) Hinv) as HR.
  assert (Hstrm0 : strm_inv data (rBuf (set_rBuf d (zl_r z)))) by exact Hstrm.
  pose proof (HST data (set_rBuf d (zl_r z)) p Hstrm0) as HS.
  destruct (dRead (set_rBuf d (zl_r z)) p) as [[d' bytes] r].
  destruct HR as (R1 & R2 & R3). destruct HS as (S1 & _ & _).
  cbv beta iota zeta. cbn [zl_r zl_dec zl_digest zl_err].
  assert (HZI : ZI data (mkZL (rBuf d') (ZFast d') (adler_update (zl_digest z) bytes) (GR r)) (T ++ bytes)).
  { exists d'. cbn [zl_r zl_dec zl_digest]. split; [exact S1|]. split; [reflexivity|].
    split; [rewrite set_rBuf_same; exact R1|]. rewrite Hdig. apply HAA. }
  destruct (gisEOF (GR r)) eqn:Eeof; cbn [negb].
  2:{ split; [exact R2|]. split.
      - intros He. split; [exact HZI|exact He].
      - intros He. rewrite He in Eeof. discriminate Eeof. }
  assert (Hr : r = REOF) by (destruct r; try discriminate Eeof; reflexivity). subst r.
  destruct (R3 eq_refl) as (E1 & E2 & E3).
  set (l := skipn 2 data) in *. set (IR := Inflate.inflate [] l) in *.
  pose proof (strm_at data (rBuf d') _ S1 E3) as Hrest. fold l in Hrest.
  pose proof (HRF (rBuf d') 4 (proj1 S1) ltac:(lia)) as HF.
  destruct (ioReadFull (rBuf d') 4) as [[buf r2] b3].
  destruct HF as (F1 & F2 & F3 & F4 & F5 & F6 & F7 & _).
  destruct r2; cbv beta iota zeta; cbn [noEOF];
    try (split; [exact R2|]; split; [intros He; discriminate He|intros He; discriminate He]).
  cbn [zl_set_r zl_digest zl_r zl_dec zl_err].
  destruct (of_be buf =? adler_sum (adler_update (zl_digest z) bytes)) eqn:Esum;
    cbn [negb]; cbv beta iota; (split; [exact R2|]).
  2:{ split; intros He; discriminate He. }
  split; [intros He; discriminate He|]. intros _. split; [|exact E2].
  apply N.eqb_eq in Esum. specialize (F7 eq_refl). unfold lenN in F7.
  assert (Hbuf : firstn 4 (bstream (rBuf d')) = buf).
  { rewrite F2. replace 4%nat with (length buf) by lia. apply firstn_len_app. }
  apply zl_tail_ceof with (rest := bstream (rBuf d')).
  - exact E1.
  - exact Hrest.
  - rewrite F2, app_length. lia.
  - unfold byte. rewrite Hbuf, Esum, Hdig, HAA, HAS, E2. reflexivity.
Qed.

(* ---------------------------------------------------------------- the Reads *)
Lemma zl_reads_ok :
  ioReadFull_spec_statement -> adler_update_app_statement -> adler_sum_statement ->
  gz_dRead_ok_statement -> dRead_strm_statement -> zl_sticky_statement ->
  forall data, bytes_ok data -> forall reads z T acc,
    ZI data z T -> zl_err z = GR ROk ->
    is_prefix T (out (Inflate.inflate [] (skipn 2 data))) ->
    obs_bytes (rev acc) = T ->
    Forall (fun y : list N * gres => snd y = GR ROk) acc ->
    let l := fst (zl_reads_g z reads acc) in
    is_prefix (obs_bytes l) (out (Inflate.inflate [] (skipn 2 data))) /\
    (In (GR REOF) (map snd l) ->
       g_err (zl_tail (skipn 2 data)) = CEOF /\
       obs_bytes l = out (Inflate.inflate [] (skipn 2 data))).
Proof.
  intros HRF HAA HAS HDR HST HSK data Hbytes.
  induction reads as [|p rest IH]; intros z T acc HZ Herr Hpre Hobs Hacc; cbv zeta.
  - cbn [zl_reads_g fst]. rewrite zfrev_rev, Hobs. split; [exact Hpre|].
    intros Hin. apply (in_snd_ok _ _ Hacc) in Hin. discriminate Hin.
  - cbn [zl_reads_g].
    pose proof (zlRead_ok HRF HAA HAS HDR HST data Hbytes z T p HZ Herr) as HR.
    destruct (zlRead z p) as [[z' bytes] e] eqn:ER.
    destruct HR as (P1 & P2 & P3).
    assert (Hobs' : obs_bytes (rev ((bytes, e) :: acc)) = T ++ bytes).
    { cbn [rev]. rewrite obs_bytes_app, Hobs. unfold obs_bytes. cbn [map fst concat].
      rewrite app_nil_r. reflexivity. }
    destruct (gnil e) eqn:G.
    + assert (He : e = GR ROk).
      { destruct e as [r| | | | |]; try discriminate G. destruct r; try discriminate G. reflexivity. }
      destruct (P2 He) as (Q1 & Q2).
      apply (IH z' (T ++ bytes) ((bytes, e) :: acc) Q1 Q2 P1 Hobs').
      constructor; [exact He|exact Hacc].
    + destruct HSK as (_ & _ & K3).
      pose proof (K3 z p z' bytes e rest ER G) as Hall.
      rewrite zl_reads_acc.
      set (tl := fst (zl_reads_g z' rest [])) in *.
      assert (Hob : obs_bytes (rev ((bytes, e) :: acc) ++ tl) = T ++ bytes).
      { rewrite obs_bytes_app, Hobs', (obs_bytes_all_nil e tl Hall). apply app_nil_r. }
      rewrite Hob. split; [exact P1|].
      intros Hin. apply P3.
      rewrite map_app in Hin. apply in_app_or in Hin. destruct Hin as [Hin|Hin].
      * cbn [rev] in Hin. rewrite map_app in Hin. apply in_app_or in Hin. destruct Hin as [Hin|Hin].
        -- apply (in_snd_ok _ _ Hacc) in Hin. discriminate Hin.
        -- cbn [map snd In] in Hin. destruct Hin as [Hin|[]]. exact Hin.
      * symmetry. exact (in_snd_all e _ tl Hall Hin).
Qed.

(* ---------------------------------------------------------------- the theorem *)
Theorem zl_sound_from :
  ioReadFull_spec_statement -> adler_update_app_statement -> adler_sum_statement ->
  newReader_on_inv_statement -> gz_dRead_ok_statement -> dRead_strm_statement ->
  zl_sticky_statement ->
  zl_sound_statement.
Proof.
  intros HRF HAA HAS HNI HDR HST HSK data cs bufsize t reads Hbytes Hcs Hne Hbit.
  destruct (zlrun bufsize cs t [] reads) as [e0 l] eqn:ERun.
  cbv zeta. unfold zlrun in ERun.
  destruct (zlNewReaderDict (mkbufrd bufsize cs t) []) as [z e] eqn:EN.
  destruct (gnil e) eqn:G; cbn [negb] in ERun; injection ERun as <- <-.
  - assert (He : e = GR ROk).
    { destruct e as [r| | | | |]; try discriminate G. destruct r; try discriminate G. reflexivity. }
    destruct (zlNew_ok HRF HNI data cs bufsize t z e Hcs Hne Hbit EN He) as (Htail & HZ & Herr).
    rewrite Htail, zl_tail_ctor, zl_tail_payload.
    pose proof (zl_reads_ok HRF HAA HAS HDR HST HSK data Hbytes reads z [] [] HZ Herr
                  (ex_intro _ _ eq_refl) eq_refl (Forall_nil _)) as HR.
    cbv zeta in HR. destruct HR as (R1 & R2).
    split; [intros _; reflexivity|]. split; [exact R1|]. split; [exact R2|].
    intros Hn Hin. apply Hn. exact (proj1 (R2 Hin)).
  - split; [intros He; rewrite He in G; discriminate G|].
    split; [exists (g_payload (zl_read None data)); reflexivity|].
    split; [intros []|intros _ []].
Qed.

Print Assumptions zl_sound_from.
