(* EngineRefineHeaderClc.v -- M4a, first half: codeLenCodes reads the code-length-code lengths
   as the reference's read_clens does, and leaves them in the arrays as the vector
   `scatter clen_order cl (repeat 0 19)`. *)
From Coq Require Import List NArith ZArith Bool Lia ZifyBool ZifyNat ZifyN.
From Verif Require Import Bits Huffman HuffmanSpec Inflate.
From Verif Require Import Base EngineTables Engine EngineRefineSpec EngineRefineBits EngineRefineBridge.
From Verif Require HuffmanProofs.
From Verif Require Import EngineRefineHeaderBase.
Import ListNotations.
Open Scope N_scope.

(* ---------------------------------------------------------------- upd / scatter *)
Lemma upd_length : forall (l : list nat) i v, length (upd i v l) = length l.
Proof. intros. apply HuffmanProofs.upd_length. Qed.

Lemma nth_upd : forall (l : list nat) i j v, (i < length l)%nat ->
  nth j (upd i v l) 0%nat = if Nat.eqb j i then v else nth j l 0%nat.
Proof.
  intros l i j v Hi. destruct (Nat.eqb_spec j i) as [->|Hne].
  - apply HuffmanProofs.nth_upd_same. exact Hi.
  - apply HuffmanProofs.nth_upd_other. congruence.
Qed.

Lemma Forall_upd : forall (P : nat -> Prop) l i v, Forall P l -> P v -> Forall P (upd i v l).
Proof.
  intros P l i v Hl Hv. unfold upd. apply Forall_app. split.
  - apply Forall_forall. intros x Hx. rewrite Forall_forall in Hl. apply Hl.
    apply (In_nth _ _ 0%nat) in Hx. destruct Hx as (n & Hn & <-).
    rewrite firstn_length in Hn. rewrite nth_firstn_lt by lia. apply nth_In. lia.
  - destruct (skipn i l) as [|a r] eqn:E; [constructor|].
    constructor; [exact Hv|]. apply Forall_forall. intros x Hx.
    rewrite Forall_forall in Hl. apply Hl. rewrite <- (firstn_skipn i l), E.
    apply in_or_app. right. right. exact Hx.
Qed.

Lemma count_len_upd0 : forall l o v x, (o < length l)%nat -> nth o l 0%nat = 0%nat -> x <> 0%nat ->
  count_len (upd o v l) x = count_len l x + (if Nat.eqb v x then 1 else 0).
Proof.
  induction l as [|a r IH]; intros o v x Ho Hn Hx; [cbn [length] in Ho; lia|].
  destruct o as [|o].
  - rewrite HuffmanProofs.upd_0. cbn [nth] in Hn. subst a.
    unfold count_len. cbn [count_occ].
    destruct (Nat.eq_dec 0 x) as [E|_]; [congruence|].
    destruct (Nat.eq_dec v x) as [E|E]; destruct (Nat.eqb_spec v x); try congruence; lia.
  - rewrite HuffmanProofs.upd_S. cbn [nth length] in Hn, Ho.
    specialize (IH o v x ltac:(lia) Hn Hx). unfold count_len in *. cbn [count_occ].
    destruct (Nat.eq_dec a x); lia.
Qed.

Lemma scatter_length : forall order vals acc, length (scatter order vals acc) = length acc.
Proof.
  induction order as [|o order IH]; intros vals acc; [reflexivity|].
  destruct vals as [|v vals]; [reflexivity|]. cbn [scatter]. rewrite IH. apply upd_length.
Qed.

Lemma scatter_Forall : forall (P : nat -> Prop) order vals acc,
  Forall P acc -> Forall P vals -> Forall P (scatter order vals acc).
Proof.
  intros P. induction order as [|o order IH]; intros vals acc Ha Hv; [exact Ha|].
  destruct vals as [|v vals]; [exact Ha|]. cbn [scatter].
  inversion Hv as [|v0 r0 Hv1 Hv2]; subst. apply IH; [apply Forall_upd; assumption|exact Hv2].
Qed.

Lemma scatter_snoc : forall order vals o v acc, length order = length vals ->
  scatter (order ++ [o]) (vals ++ [v]) acc = upd o v (scatter order vals acc).
Proof.
  induction order as [|o' order IH]; intros vals o v acc Hl.
  - destruct vals; [reflexivity|discriminate].
  - destruct vals as [|v' vals]; [discriminate|]. cbn [app scatter].
    apply IH. cbn [length] in Hl. lia.
Qed.

Lemma scatter_firstn : forall order vals acc,
  scatter (firstn (length vals) order) vals acc = scatter order vals acc.
Proof.
  induction order as [|o order IH]; intros vals acc.
  - rewrite firstn_nil. reflexivity.
  - destruct vals as [|v vals]; [reflexivity|]. cbn [length firstn scatter]. apply IH.
Qed.

Lemma scatter_notin : forall order vals acc o, ~ In o order ->
  nth o (scatter order vals acc) 0%nat = nth o acc 0%nat.
Proof.
  induction order as [|o' order IH]; intros vals acc o Hn; [reflexivity|].
  destruct vals as [|v vals]; [reflexivity|]. cbn [scatter].
  rewrite IH by (intro H; apply Hn; right; exact H).
  apply HuffmanProofs.nth_upd_other. intro E. apply Hn. left. exact E.
Qed.

Lemma nodup_nth_notin_firstn : forall (l : list nat) k j d, NoDup l -> (k <= j < length l)%nat ->
  ~ In (nth j l d) (firstn k l).
Proof.
  induction l as [|a l IH]; intros k j d Hnd Hj; [cbn [length] in Hj; lia|].
  destruct k as [|k]; [cbn [firstn]; intros []|].
  destruct j as [|j]; [lia|]. cbn [nth firstn length] in *.
  inversion Hnd as [|a0 l0 Hna Hnd']; subst.
  intros [E|Hin].
  - apply Hna. rewrite E. apply nth_In. lia.
  - revert Hin. apply IH; [exact Hnd'|lia].
Qed.

Lemma firstn_S_nth : forall (l : list nat) k d, (k < length l)%nat ->
  firstn (S k) l = firstn k l ++ [nth k l d].
Proof.
  induction l as [|a l IH]; intros k d Hk; [cbn [length] in Hk; lia|].
  destruct k as [|k]; [reflexivity|]. cbn [length] in Hk.
  cbn [firstn nth app]. f_equal. apply IH. lia.
Qed.

(* ---------------------------------------------------------------- the order table *)
Lemma clen_order_nodup : NoDup clen_order.
Proof.
  unfold clen_order.
  repeat (constructor; [cbn [In]; intuition discriminate|]). constructor.
Qed.

Lemma clen_order_lt : forall k, (k < 19)%nat -> (nth k clen_order 0 < 19)%nat.
Proof.
  intros k Hk. do 19 (destruct k as [|k]; [cbn; lia|]). lia.
Qed.

Lemma order_get : forall k, (k < 19)%nat ->
  aget codeLengthOrder (N.of_nat k) = N.of_nat (nth k clen_order 0%nat).
Proof.
  intros k Hk. do 19 (destruct k as [|k]; [reflexivity|]). lia.
Qed.

(* ---------------------------------------------------------------- the arrays *)
Definition clc_inv (k : nat) (vals : list nat) (hf ct : arr) : Prop :=
  let l := scatter (firstn k clen_order) vals (repeat 0%nat 19) in
  length vals = k /\ Forall (fun x => (x <= 7)%nat) vals /\
  (forall i, (i < 19)%nat -> aget hf (N.of_nat i) = hc_set 0 (N.of_nat (nth i l 0%nat))) /\
  (forall x, 1 <= x <= 15 -> aget ct x = count_len l (N.to_nat x)).

Lemma clc_inv_init : clc_inv 0 [] aempty aempty.
Proof.
  unfold clc_inv. cbn [firstn scatter]. split; [reflexivity|]. split; [constructor|]. split.
  - intros i Hi. rewrite aget_empty.
    replace (nth i (repeat 0%nat 19) 0%nat) with 0%nat; [reflexivity|].
    symmetry. apply nth_repeat.
  - intros x Hx. rewrite aget_empty. unfold count_len.
    rewrite (proj1 (count_occ_not_In Nat.eq_dec _ _)); [reflexivity|].
    intro H. apply repeat_spec in H. lia.
Qed.

Lemma clc_inv_step : forall k vals hf ct v, clc_inv k vals hf ct -> (k < 19)%nat -> v < 8 ->
  clc_inv (S k) (vals ++ [N.to_nat v])
          (aset hf (aget codeLengthOrder (N.of_nat k)) (hc_set 0 v)) (ainc ct v).
Proof.
  intros k vals hf ct v (I1 & I2 & I3 & I4) Hk Hv. unfold clc_inv.
  assert (Hlen : length (firstn k clen_order) = length vals).
  { rewrite firstn_length. change (length clen_order) with 19%nat. lia. }
  rewrite (firstn_S_nth clen_order k 0%nat) by (change (length clen_order) with 19%nat; lia).
  rewrite scatter_snoc by exact Hlen.
  assert (Ho : (nth k clen_order 0 < 19)%nat) by (apply clen_order_lt; exact Hk).
  assert (Hll : length (scatter (firstn k clen_order) vals (repeat 0%nat 19)) = 19%nat)
    by (rewrite scatter_length; apply repeat_length).
  assert (Hz : nth (nth k clen_order 0%nat) (scatter (firstn k clen_order) vals (repeat 0%nat 19)) 0%nat = 0%nat).
  { rewrite scatter_notin.
    - apply nth_repeat.
    - apply nodup_nth_notin_firstn; [apply clen_order_nodup|].
      change (length clen_order) with 19%nat. lia. }
  remember (scatter (firstn k clen_order) vals (repeat 0%nat 19)) as l eqn:El.
  remember (nth k clen_order 0%nat) as o eqn:Eo.
  split; [rewrite app_length; cbn [length]; lia|].
  split; [apply Forall_app; split; [exact I2|constructor; [lia|constructor]]|].
  rewrite order_get by exact Hk. rewrite <- Eo.
  split.
  - intros i Hi. rewrite aget_aset, nth_upd by lia.
    destruct (Nat.eqb_spec i o) as [->|Hne].
    + rewrite N.eqb_refl, N2Nat.id. reflexivity.
    + destruct (N.eqb_spec (N.of_nat i) (N.of_nat o)) as [E|_]; [lia|]. apply I3. exact Hi.
  - intros x Hx. unfold ainc. rewrite aget_aset, count_len_upd0 by lia.
    destruct (N.eqb_spec x v) as [->|Hne].
    + rewrite Nat.eqb_refl. rewrite I4 by lia. reflexivity.
    + destruct (Nat.eqb_spec (N.to_nat v) (N.to_nat x)) as [E|_]; [lia|]. rewrite I4 by lia. lia.
Qed.

(* ---------------------------------------------------------------- n reads *)
Lemma read_clens_app : forall n m s l1 s1 l2 s2,
  read_clens n s = HOk l1 s1 -> read_clens m s1 = HOk l2 s2 ->
  read_clens (n + m) s = HOk (l1 ++ l2) s2.
Proof.
  induction n as [|n IH]; intros m s l1 s1 l2 s2 H1 H2.
  - cbn [read_clens] in H1. injection H1 as <- <-. exact H2.
  - cbn [Nat.add read_clens] in *. destruct (take 3 s) as [[v s']|]; [|discriminate].
    destruct (read_clens n s') as [l s''|x] eqn:E; [|discriminate].
    injection H1 as <- <-. rewrite (IH m s' l s'' l2 s2 E H2). reflexivity.
Qed.

Lemma clc_iter : forall n i b hf ct vals,
  br_wf b -> br_loaded (3 * Z.of_nat n) b -> (i + n <= 19)%nat -> clc_inv i vals hf ct ->
  let '(b', hf', ct') := iterN n (N.of_nat i) clc_read3 (b, hf, ct) in
  br_wf b' /\ r_len b' = (r_len b - 3 * Z.of_nat n)%Z /\
  exists vs, length vs = n /\ clc_inv (i + n) (vals ++ vs) hf' ct' /\
    ((0 <= r_len b')%Z -> forall e p,
       read_clens n (mkbs (br_bits b ++ e) p)
       = HOk vs (mkbs (br_bits b' ++ e) (p + 3 * N.of_nat n))).
Proof.
  induction n as [|n IH]; intros i b hf ct vals Hwf Hl Hi Hinv.
  - cbn [iterN]. split; [exact Hwf|]. split; [lia|]. exists [].
    split; [reflexivity|]. rewrite app_nil_r, Nat.add_0_r. split; [exact Hinv|].
    intros _ e p. cbn [read_clens]. rewrite N.add_0_r. reflexivity.
  - cbn [iterN]. unfold clc_read3 at 2.
    assert (Hl3 : br_loaded (Z.of_N 3) b).
    { apply (br_loaded_mono (3 * Z.of_nat (S n)) (Z.of_N 3) b); [lia|exact Hl]. }
    destruct (next_bits_step b 3 Hwf Hl3) as (S1 & S2 & S3 & S4 & S5).
    destruct (next_bits b 3) as [v b1] eqn:Enb. cbn [fst snd] in S1, S2, S3, S4, S5.
    assert (Hl1 : br_loaded (3 * Z.of_nat n) b1).
    { destruct Hl as [Hl|Hl]; [left; congruence|right; lia]. }
    assert (Hinv1 : clc_inv (S i) (vals ++ [N.to_nat v])
                            (aset hf (aget codeLengthOrder (N.of_nat i)) (hc_set 0 v)) (ainc ct v)).
    { apply clc_inv_step; [exact Hinv|lia|exact S4]. }
    specialize (IH (S i) b1 _ _ _ S1 Hl1 ltac:(lia) Hinv1).
    replace (N.of_nat i + 1) with (N.of_nat (S i)) by lia.
    destruct (iterN n (N.of_nat (S i)) clc_read3 _) as [[b' hf'] ct'].
    destruct IH as (R1 & R2 & vs & R3 & R4 & R5).
    split; [exact R1|]. split; [lia|].
    exists (N.to_nat v :: vs). split; [cbn [length]; lia|].
    split.
    + replace (i + S n)%nat with (S i + n)%nat by lia.
      replace (vals ++ N.to_nat v :: vs) with ((vals ++ [N.to_nat v]) ++ vs)
        by (rewrite <- app_assoc; reflexivity).
      exact R4.
    + intros H0 e p. cbn [read_clens].
      change (N.to_nat 3) with 3%nat in S5. rewrite (S5 ltac:(lia) e p).
      rewrite (R5 H0 e (p + 3)). f_equal. f_equal. lia.
Qed.

(* ---------------------------------------------------------------- the theorem *)
Lemma clc_inv_lens_in : forall k vals hf ct, clc_inv k vals hf ct ->
  let clens := scatter clen_order vals (repeat 0%nat 19) in
  lens_in clens 0 19 hf ct /\ Forall (fun x => (x <= 7)%nat) clens.
Proof.
  intros k vals hf ct (I1 & I2 & I3 & I4). cbn zeta.
  rewrite <- I1 in I3, I4. rewrite scatter_firstn in I3, I4.
  assert (HF : Forall (fun x => (x <= 7)%nat) (scatter clen_order vals (repeat 0%nat 19))).
  { apply scatter_Forall; [|exact I2]. apply Forall_forall. intros x Hx.
    apply repeat_spec in Hx. lia. }
  split; [|exact HF].
  unfold lens_in. split; [rewrite scatter_length, repeat_length; lia|].
  split; [eapply Forall_impl; [|exact HF]; cbn beta; intros; lia|].
  split.
  - intros i Hi. rewrite N.add_0_l. rewrite <- (N2Nat.id i) at 1. apply I3. lia.
  - exact I4.
Qed.

Theorem codeLenCodes_refine : codeLenCodes_refine_statement.
Proof.
  intros Hgen s hclen e p Hwf H0 Hl12 Hh.
  unfold codeLenCodes, forN.
  change (N.to_nat (4 - 0)) with 4%nat.
  replace (N.to_nat (hclen + 4 - 4)) with (N.to_nat hclen) by lia.
  pose proof (clc_iter 4 0 (rd s) aempty aempty [] Hwf Hl12 ltac:(lia) clc_inv_init) as P1.
  change (N.of_nat 0) with 0 in P1.
  destruct (iterN 4 0 clc_read3 (rd s, aempty, aempty)) as [[b1 hf1] ct1].
  destruct P1 as (A1 & A2 & vs1 & A3 & A4 & A5). cbn [app Nat.add] in A4.
  destruct (load_lt57_bits b1 A1) as (b2 & L1 & L2 & L3 & L4 & L5).
  rewrite L1.
  assert (L4' : br_loaded (3 * Z.of_nat (N.to_nat hclen)) b2).
  { apply (br_loaded_mono 57 _ b2); [lia|exact L4]. }
  pose proof (clc_iter (N.to_nat hclen) 4 b2 hf1 ct1 vs1 L2 L4' ltac:(lia) A4) as P2.
  change (N.of_nat 4) with 4 in P2.
  destruct (iterN (N.to_nat hclen) 4 clc_read3 (b2, hf1, ct1)) as [[b3 hf3] ct3].
  destruct P2 as (B1 & B2 & vs2 & B3 & B4 & B5).
  assert (Hframe : forall d, same_frame s (set_dyn (set_rd s b3) d)).
  { intros d. unfold same_frame. cbn. repeat split; reflexivity. }
  assert (Hframe0 : same_frame s (set_rd s b3)).
  { unfold same_frame. cbn. repeat split; reflexivity. }
  destruct (Z.ltb_spec (r_len b3) 0) as [Hneg|Hpos].
  { cbn [rd set_rd tb phase dyn]. split; [exact B1|]. split; [exact Hframe0|].
    repeat (split; [reflexivity|]). intros; discriminate. }
  destruct (clc_inv_lens_in _ _ _ _ B4) as [Hli HF7].
  pose proof (Hgen _ hf3 ct3 (clcShort (dyn (set_rd s b3))) (clcLong (dyn (set_rd s b3))) Hli HF7) as G.
  destruct (setCodes hf3 0 19 ct3) as [hf4 bad].
  destruct G as [G1 G2].
  destruct bad.
  { cbn [rd set_rd tb phase dyn]. split; [exact B1|]. split; [exact Hframe0|].
    repeat (split; [reflexivity|]). intros; discriminate. }
  specialize (G2 eq_refl).
  destruct (gen_small true _ _ hf4 19 ct3 19) as [[[sh lg] cd] err].
  destruct G2 as [G2 G3].
  cbn [rd set_rd set_dyn tb phase dyn litAndDistHuff litCount distCount litExpandCount clcShort clcLong].
  split; [exact B1|]. split; [apply Hframe|].
  repeat (split; [reflexivity|]).
  intros _. split; [exact Hpos|].
  (* the reads were all real *)
  assert (Hb1 : (0 <= r_len b1)%Z).
  { destruct (Z.ltb_spec (r_len b1) 0) as [Hn|Hn]; [|exact Hn].
    pose proof (load_lt57_neg b1 b2 Hn L1) as E. subst b2. lia. }
  exists (vs1 ++ vs2). split.
  - replace (N.to_nat hclen + 4)%nat with (4 + N.to_nat hclen)%nat by lia.
    rewrite (read_clens_app 4 (N.to_nat hclen) _ vs1 _ vs2
               (mkbs (br_bits b3 ++ e) (p + 3 * N.of_nat 4 + 3 * N.of_nat (N.to_nat hclen)))
               (A5 Hb1 e p)).
    + f_equal. f_equal. lia.
    + rewrite <- L3. apply (B5 Hpos).
  - cbn zeta. split; [rewrite <- G1; reflexivity|exact G3].
Qed.

Print Assumptions codeLenCodes_refine.
