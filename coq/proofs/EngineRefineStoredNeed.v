(* EngineRefineStoredNeed.v -- prepareForLitBlock reports "end of input" only when the reference,
   on exactly the bits the engine holds, cannot read LEN and NLEN either
   (statement in RModel/EngineRefineSpecNeed.v). *)
From Coq Require Import List NArith ZArith Bool Lia ZifyBool ZifyNat ZifyN.
From Verif Require Import Bits Huffman Inflate InflateSpec InflateMono.
From Verif Require Import Base EngineTables Engine EngineRefineSpec EngineRefineBits EngineRefineSpecBlock
     EngineRefineSpecHdr EngineRefineSpecNeed.
From Verif Require Import EngineRefineStored.
Import ListNotations.
Open Scope N_scope.

Ltac Zify.zify_post_hook ::= Z.div_mod_to_equations.

(* take k consumes exactly k bits *)
Lemma take_length : forall k s v s',
  take k s = Some (v, s') -> length (bl s) = (k + length (bl s'))%nat.
Proof.
  induction k as [|k IH]; intros s v s' H.
  - cbn [take] in H. inversion H; subst. reflexivity.
  - cbn [take] in H. unfold take1 in H. destruct (bl s) as [|x r] eqn:Eb; [discriminate|].
    destruct (take k (mkbs r (bp s + 1))) as [[v1 s2]|] eqn:Et; [|discriminate].
    inversion H; subst. apply IH in Et. cbn [bl] in Et. cbn [length]. lia.
Qed.

Theorem prepareForLitBlock_need : prepareForLitBlock_need_statement.
Proof.
  intros s p Hwf H0 Hal Hend (len & s4 & nlen & s5 & T1 & T2).
  apply take_length in T1. apply take_length in T2.
  unfold align in T1. cbn [bl bp] in T1. rewrite skipn_length in T1.
  (* at least 32 bits are held *)
  assert (Hlen : (32 <= length (br_bits (rd s)))%nat) by lia.
  clear T1 T2.
  revert Hend. unfold prepareForLitBlock, loadBits.
  destruct (load_lt57_bits (rd s) Hwf) as (b1 & L1 & L2 & L3 & L4 & L5).
  rewrite L1. cbn [rd set_rd].
  destruct (r_len b1 <? 0)%Z eqn:En; [lia|].
  set (bl0 := Z.to_N (r_len b1)).
  assert (Hbl0 : Z.of_N bl0 = r_len b1) by (unfold bl0; lia).
  pose proof L2 as (W1 & W2 & W3 & W4 & W5).
  assert (Hu8 : u8 (bl0 / 8) = bl0 / 8).
  { unfold u8. rewrite land_255_mod. apply N.mod_small. lia. }
  rewrite !Hu8.
  destruct (bl0 / 8 <? 4) eqn:E4.
  - intros _. rewrite <- L3, br_bits_length in Hlen.
    destruct L4 as [L4|L4]; [|lia].
    rewrite L4 in Hlen. cbn [length] in Hlen. lia.
  - match goal with |- context [if negb ?c then _ else _] => destruct (negb c) end.
    + cbn [snd]. discriminate.
    + match goal with |- context [if ?c then (?a, ?b) else _] => destruct c end;
        cbv beta iota; cbn [snd]; discriminate.
Qed.

Print Assumptions prepareForLitBlock_need.
