(* EngineSafetyLitLen.v -- safety of the large-table builder genForLitLen of RModel/Engine.v
   (encodeSingles, encodePairs, encodeTriples, encodeLongCodes): no EPanic, no EFuel, and the
   produced tables satisfy the entry invariants, given that the code list is sorted
   (litlen_sorted) and the long-code groups fit (long_groups_fit = encodeLongCodes' loop does not
   report an index out of range; model after fix 93d504a: explicit check 1264 <? lcl + grp).

   Main results (both closed under the global context):
     genForLitLen_spec    e = ENone, lit_short_ok / lit_long_ok of the produced tables, clc frames
     genForLitLen_sym_ok  lit_short_sym_ok (EngineSafetyDecode.v) of the produced short table
   Both are instances of genForLitLen_gen (Section Gen), which is generic in the entry predicates
   P (short table) and Q (long table): P must hold of 0, of the single/pair/triple entries
   (sym <= 512; sym1 < 256, sym2 <= 512; sym1, sym2 < 256, sym3 <= 511) and of the pointer entries
   (13 <= maxLen <= 21, lcl + 2^(maxLen-12) <= 1264); Q of 0 and of the long entries.
   Reusable field lemmas: short_entry_sym / short_entry_count (symbol field and symbol count of a
   plain entry), pointer_flag / pointer_len / pointer_sym.

   Kernel pitfall met here: never let Qed compare `encodePairs ..` (or any constant whose body is
   a fuel Fixpoint applied to small_fuel) with its unfolded form: the kernel reduces the fixpoint
   on the 1024 fuel and does not come back.  Hence encodePairs_fn / encodeTriples_fn /
   genForLitLen_fn (equations between functions, proved by reflexivity) and the fuel parameter of
   elc_fold.  `inversion` on an equation whose side contains forN can also hang: use
   pair_equal_spec. *)
From Verif Require Import Engine EngineTables.
From Verif Require Import Base EngineSafetyBase EngineSafetyBits EngineSafetyInv.
From Verif Require Import EngineSafetyDecode.   (* only for the definition lit_short_sym_ok *)
From Coq Require Import List NArith ZArith Bool Lia ZifyBool ZifyNat ZifyN.
Import ListNotations.
Open Scope N_scope.

(* ---------------------------------------------------------------- small arithmetic *)
Lemma sub32_le : forall a b, b <= a -> sub32 a b = a - b.
Proof.
  intros a b H. unfold sub32, subw. destruct (b <=? a) eqn:E; [reflexivity|lia].
Qed.

Lemma next_index_eq : forall x, 1 <= x -> x < 65536 -> u16 (sub16 x 1 + 1) = x.
Proof.
  intros x H1 H2. unfold sub16, subw. destruct (1 <=? x) eqn:E; [|lia].
  replace (x - 1 + 1) with x by lia. apply u16_small. exact H2.
Qed.

Lemma shiftl_lt : forall b k m n, b < 2 ^ m -> m + k <= n -> N.shiftl b k < 2 ^ n.
Proof.
  intros b k m n Hb Hn. apply N.lt_le_trans with (2 ^ (m + k)).
  - apply shiftl_lt_pow2. exact Hb.
  - apply N.pow_le_mono_r; [lia|exact Hn].
Qed.

Lemma lt_pow2_mono : forall a m n, a < 2 ^ m -> m <= n -> a < 2 ^ n.
Proof.
  intros a m n Ha Hn. apply N.lt_le_trans with (2 ^ m); [exact Ha|].
  apply N.pow_le_mono_r; [lia|exact Hn].
Qed.

Lemma small_fuel_val : N.of_nat small_fuel = 1024.
Proof. vm_compute. reflexivity. Qed.

Lemma indexToSym_le : forall x, x < 514 -> indexToSym x <= 512.
Proof. intros x H. unfold indexToSym. destruct (x =? 513) eqn:E; lia. Qed.

(* ---------------------------------------------------------------- short-table entries *)
Lemma lit_short_ok_plain : forall e,
  e < 4294967296 -> N.testbit e 25 = false ->
  (N.testbit e 26 = true \/ N.testbit e 27 = true) -> lit_short_ok e.
Proof.
  intros e Hlt H25 Hb. unfold lit_short_ok. split; [exact Hlt|]. split.
  - intros _ _ Hc.
    assert (H0 : N.testbit (N.land (N.shiftr e 26) 3) 0 = false) by (rewrite Hc; apply N.bits_0).
    assert (H1 : N.testbit (N.land (N.shiftr e 26) 3) 1 = false) by (rewrite Hc; apply N.bits_0).
    rewrite N.land_spec, N.shiftr_spec in H0 by lia.
    rewrite N.land_spec, N.shiftr_spec in H1 by lia.
    change (0 + 26) with 26 in H0. change (1 + 26) with 27 in H1.
    change (N.testbit 3 0) with true in H0. change (N.testbit 3 1) with true in H1.
    rewrite andb_true_r in H0, H1.
    destruct Hb as [Hb|Hb]; congruence.
  - intros Hc. exfalso. apply Hc. change largeFlagBit with (2 ^ 25).
    apply land_pow2_testbit. exact H25.
Qed.

(* sym part below 2^25, code length at bit 28, symbol count m at bit 26 *)
Lemma short_entry_ok : forall s c m,
  s < 2 ^ 25 -> (N.testbit m 0 = true \/ N.testbit m 1 = true) ->
  lit_short_ok (u32 (N.lor (N.lor s (N.shiftl c 28)) (N.shiftl m 26))).
Proof.
  intros s c m Hs Hm. apply lit_short_ok_plain.
  - apply u32_lt.
  - rewrite u32_testbit by lia. rewrite !N.lor_spec.
    rewrite (testbit_small s 25 25) by (auto; lia).
    rewrite !N.shiftl_spec_low by lia. reflexivity.
  - destruct Hm as [Hm|Hm]; [left|right].
    + rewrite u32_testbit by lia. apply lor_testbit_r.
      rewrite N.shiftl_spec_high by lia. exact Hm.
    + rewrite u32_testbit by lia. apply lor_testbit_r.
      rewrite N.shiftl_spec_high by lia. exact Hm.
Qed.

(* ---------------------------------------------------------------- the sorted code list *)
Section Sorted.
Variable d : dynHdr.
Hypothesis HS : litlen_sorted d.

Lemma lc_step : forall L, L < 22 -> aget (litCount d) L <= aget (litCount d) (L + 1).
Proof. destruct HS as (_ & _ & H & _). exact H. Qed.

Lemma lc_mono_nat : forall n a, a + N.of_nat n <= 22 ->
  aget (litCount d) a <= aget (litCount d) (a + N.of_nat n).
Proof.
  induction n as [|n IH]; intros a Ha.
  - replace (a + N.of_nat 0) with a by lia. lia.
  - replace (a + N.of_nat (S n)) with (a + N.of_nat n + 1) by lia.
    pose proof (IH a ltac:(lia)) as H1.
    pose proof (lc_step (a + N.of_nat n) ltac:(lia)) as H2. lia.
Qed.

Lemma lc_mono : forall a b, a <= b -> b <= 22 -> aget (litCount d) a <= aget (litCount d) b.
Proof.
  intros a b Hab Hb. replace b with (a + N.of_nat (N.to_nat (b - a))) by lia.
  apply lc_mono_nat. lia.
Qed.

Lemma lc_le_514 : forall a, a <= 22 -> aget (litCount d) a <= 514.
Proof.
  intros a Ha. pose proof (lc_mono a 22 Ha ltac:(lia)) as H1.
  destruct HS as (_ & _ & _ & H22 & _). lia.
Qed.

Lemma bucket_nat : forall n a k, a + N.of_nat n <= 22 ->
  aget (litCount d) a <= k < aget (litCount d) (a + N.of_nat n) ->
  exists L, a <= L < a + N.of_nat n /\
    aget (litCount d) L <= k < aget (litCount d) (L + 1) /\
    aget (codeList d) k < 514 /\ hc_len (aget (litAndDistHuff d) (aget (codeList d) k)) = L.
Proof.
  induction n as [|n IH]; intros a k Ha Hk.
  - replace (a + N.of_nat 0) with a in Hk by lia. lia.
  - replace (a + N.of_nat (S n)) with (a + N.of_nat n + 1) in Hk by lia.
    destruct (N.lt_ge_cases k (aget (litCount d) (a + N.of_nat n))) as [Hlt|Hge].
    + destruct (IH a k ltac:(lia) ltac:(lia)) as (L & HL & Hb & Hc).
      exists L. split; [lia|]. split; [exact Hb|exact Hc].
    + exists (a + N.of_nat n). split; [lia|]. split; [lia|].
      destruct HS as (_ & _ & _ & _ & _ & Hbk). apply Hbk; lia.
Qed.

Lemma bucket_ex : forall a b k, a <= b -> b <= 22 ->
  aget (litCount d) a <= k < aget (litCount d) b ->
  exists L, a <= L < b /\
    aget (litCount d) L <= k < aget (litCount d) (L + 1) /\
    aget (codeList d) k < 514 /\ hc_len (aget (litAndDistHuff d) (aget (codeList d) k)) = L.
Proof.
  intros a b k Hab Hb Hk.
  replace b with (a + N.of_nat (N.to_nat (b - a))) in Hk by lia.
  destruct (bucket_nat (N.to_nat (b - a)) a k ltac:(lia) Hk) as (L & HL & Hr).
  exists L. split; [lia|exact Hr].
Qed.

Lemma huff_lt : forall i, aget (litAndDistHuff d) i < 4294967296.
Proof. destruct HS as (_ & _ & _ & _ & H & _). exact H. Qed.

End Sorted.

(* unfolding equations: stated on the functions so that the kernel never has to compare
   `encodePairs ..` with `pairs_loop small_fuel ..` by reducing the fixpoint on its 1024 fuel *)
Lemma encodePairs_fn : encodePairs = fun short d length minLen =>
  pairs_loop small_fuel short d length (aget (litCount d) minLen)
             (aget (litCount d) (sub32 length minLen + 1)).
Proof. reflexivity. Qed.

Lemma encodePairs_unfold : forall t d ll minLen,
  encodePairs t d ll minLen =
  pairs_loop small_fuel t d ll (aget (litCount d) minLen)
             (aget (litCount d) (sub32 ll minLen + 1)).
Proof. intros. rewrite encodePairs_fn. reflexivity. Qed.

Lemma encodeTriples_fn : encodeTriples = fun short d length minLen =>
  triples_loop1 small_fuel short d length minLen (aget (litCount d) minLen)
                (aget (litCount d) (sub32 length (2 * minLen) + 1)).
Proof. reflexivity. Qed.

Lemma encodeTriples_unfold : forall t d ll minLen,
  encodeTriples t d ll minLen =
  triples_loop1 small_fuel t d ll minLen (aget (litCount d) minLen)
                (aget (litCount d) (sub32 ll (2 * minLen) + 1)).
Proof. intros. rewrite encodeTriples_fn. reflexivity. Qed.

(* ---------------------------------------------------------------- the builder, for generic entry
   predicates: P for the short table, Q for the long table *)
Section Gen.
Variable P : N -> Prop.
Variable Q : N -> Prop.
Hypothesis P_zero : P 0.
Hypothesis P_single : forall s c, s <= 512 ->
  P (u32 (N.lor (N.lor s (N.shiftl c 28)) (N.shiftl 1 26))).
Hypothesis P_pair : forall s1 s2 c, s1 < 256 -> s2 <= 512 ->
  P (u32 (N.lor (N.lor (N.lor s1 (N.shiftl s2 8)) (N.shiftl c 28)) (N.shiftl 2 26))).
Hypothesis P_triple : forall s1 s2 s3 c, s1 < 256 -> s2 < 256 -> s3 <= 511 ->
  P (u32 (N.lor (N.lor (N.lor (N.lor s1 (N.shiftl s2 8)) (N.shiftl s3 16)) (N.shiftl c 28))
                (N.shiftl 3 26))).
Hypothesis P_pointer : forall lcl maxLen, 13 <= maxLen <= 21 -> lcl + 2 ^ (maxLen - 12) <= 1264 ->
  P (u32 (N.lor (N.lor lcl (N.shiftl maxLen 26)) largeFlagBit)).
Hypothesis Q_zero : Q 0.
Hypothesis Q_entry : forall sym len, sym <= 512 -> 13 <= len <= 21 ->
  Q (u16 (N.lor sym (N.shiftl len 10))).

(* ---------------------------------------------------------------- encodeSingles *)
Lemma encodeSingles_ok : forall t d ll t' pan,
  litlen_sorted d -> ll < 22 -> all_entries P t ->
  encodeSingles t d ll = (t', pan) ->
  pan = false /\ all_entries P t'.
Proof.
  intros t d ll t' pan HS Hll Ht H. unfold encodeSingles in H.
  pose proof (lc_step d HS ll Hll) as H1.
  pose proof (lc_le_514 d HS (ll + 1) ltac:(lia)) as H2.
  destruct ((aget (litCount d) (ll + 1) <? aget (litCount d) ll) ||
            (516 <? aget (litCount d) (ll + 1))) eqn:E; [lia|].
  apply pair_equal_spec in H. destruct H as [Ht' Hp]. subst t' pan. split; [reflexivity|].
  apply forN_inv; [exact Ht|].
  intros k x _ Hx.
  destruct (maxLitLenSym <? indexToSym (aget (codeList d) k)) eqn:E2; [exact Hx|].
  apply all_entries_aset; [exact Hx|].
  apply P_single. unfold maxLitLenSym in E2. lia.
Qed.

(* the inner loop of encodePairs *)
Lemma pairs_inner_ok : forall d sym1 sym1Code sym1Len sym2Len start endi t,
  sym1 < 256 -> all_entries P t ->
  all_entries P (fst (
    forN start endi (fun k (a : arr * bool) =>
      let '(t, stop) := a in
      if stop then a
      else
        let sym2Index := aget (codeList d) k in
        let sym2 := indexToSym sym2Index in
        if maxLitLenSym <? sym2 then (t, true)
        else
          let sym2Code := hc_code (aget (litAndDistHuff d) sym2Index) in
          let code := u32 (N.lor sym1Code (shl32 sym2Code sym1Len)) in
          let codeLen := sym1Len + sym2Len in
          (aset t code (u32 (N.lor (N.lor (N.lor sym1 (N.shiftl sym2 8))
                                          (N.shiftl codeLen 28)) (N.shiftl 2 26))),
           false))
      (t, false))).
Proof.
  intros d sym1 sym1Code sym1Len sym2Len start endi t Hs1 Ht.
  apply (forN_inv _ (fun a : arr * bool => all_entries P (fst a))); [exact Ht|].
  intros k [x stop] _ Hx. cbn [fst] in Hx.
  destruct stop; [exact Hx|]. cbv zeta.
  destruct (maxLitLenSym <? indexToSym (aget (codeList d) k)) eqn:E2; [exact Hx|].
  cbn [fst]. apply all_entries_aset; [exact Hx|].
  apply P_pair; [exact Hs1|]. unfold maxLitLenSym in E2. lia.
Qed.

Lemma pairs_loop_ok : forall fuel t d ll minLen index1 t' e,
  litlen_sorted d -> 2 * minLen <= ll -> ll <= 12 ->
  aget (litCount d) minLen <= index1 -> index1 <= 514 -> 515 - index1 < N.of_nat fuel ->
  all_entries P t ->
  pairs_loop fuel t d ll index1 (aget (litCount d) (ll - minLen + 1)) = (t', e) ->
  e = ENone /\ all_entries P t'.
Proof.
  induction fuel as [|f IH]; intros t d ll minLen index1 t' e HS Hm Hll Hlo Hhi Hfuel Ht H.
  - lia.
  - cbn [pairs_loop] in H.
    destruct (index1 <? aget (litCount d) (ll - minLen + 1)) eqn:E1.
    2:{ inversion H; subst. split; [reflexivity|exact Ht]. }
    destruct (bucket_ex d HS minLen (ll - minLen + 1) index1 ltac:(lia) ltac:(lia) ltac:(lia))
      as (L & HL & Hb & Hc & Hlen).
    rewrite Hlen in H.
    pose proof (lc_le_514 d HS (L + 1) ltac:(lia)) as HL1.
    destruct (256 <=? indexToSym (aget (codeList d) index1)) eqn:E2.
    + rewrite next_index_eq in H by lia.
      apply (IH _ _ _ minLen _ _ _ HS Hm Hll) in H; [exact H|lia|lia|lia|exact Ht].
    + rewrite (sub32_le ll L) in H by lia.
      destruct (22 <=? ll - L) eqn:E3; [lia|].
      pose proof (lc_step d HS (ll - L) ltac:(lia)) as H1.
      pose proof (lc_le_514 d HS (ll - L + 1) ltac:(lia)) as H2.
      destruct ((aget (litCount d) (ll - L + 1) <? aget (litCount d) (ll - L)) ||
                (516 <? aget (litCount d) (ll - L + 1))) eqn:E4; [lia|].
      match type of H with (let '(short, _) := ?X in _) = _ =>
        pose proof (pairs_inner_ok d (indexToSym (aget (codeList d) index1))
                     (hc_code (aget (litAndDistHuff d) (aget (codeList d) index1))) L (ll - L)
                     (aget (litCount d) (ll - L)) (aget (litCount d) (ll - L + 1)) t
                     ltac:(lia) Ht) as Hin;
        destruct X as [t1 st1] eqn:EX
      end.
      cbn [fst] in Hin.
      rewrite u16_small in H by lia.
      apply (IH _ _ _ minLen _ _ _ HS Hm Hll) in H; [exact H|lia|lia|lia|exact Hin].
Qed.

Lemma encodePairs_ok : forall t d ll minLen t' e,
  litlen_sorted d -> 2 * minLen <= ll -> ll <= 12 ->
  all_entries P t ->
  encodePairs t d ll minLen = (t', e) ->
  e = ENone /\ all_entries P t'.
Proof.
  intros t d ll minLen t' e HS Hm Hll Ht H. rewrite encodePairs_unfold in H.
  rewrite sub32_le in H by lia.
  pose proof (lc_le_514 d HS minLen ltac:(lia)) as H1.
  apply (pairs_loop_ok _ _ _ _ minLen _ _ _ HS Hm Hll) in H; [exact H|lia|lia| |exact Ht].
  rewrite small_fuel_val. lia.
Qed.

(* ---------------------------------------------------------------- encodeTriples *)
Lemma triples_inner_ok : forall d sym1 sym2 sym1Code sym2Code sym1Len sym2Len sym3Len start endi t,
  sym1 < 256 -> sym2 < 256 -> all_entries P t ->
  all_entries P (fst (
    forN start endi (fun k (a : arr * bool) =>
      let '(t, stop) := a in
      if stop then a
      else
        let sym3Index := aget (codeList d) k in
        let sym3 := indexToSym sym3Index in
        let sym3Code := hc_code (aget (litAndDistHuff d) sym3Index) in
        if maxLitLenSym - 1 <? sym3 then (t, true)
        else
          let code := u32 (N.lor (N.lor sym1Code (shl32 sym2Code sym1Len))
                                 (shl32 sym3Code (sym2Len + sym1Len))) in
          let codeLen := sym1Len + sym2Len + sym3Len in
          (aset t code
                (u32 (N.lor (N.lor (N.lor (N.lor sym1 (N.shiftl sym2 8)) (N.shiftl sym3 16))
                                   (N.shiftl codeLen 28)) (N.shiftl 3 26))),
           false))
      (t, false))).
Proof.
  intros d sym1 sym2 sym1Code sym2Code sym1Len sym2Len sym3Len start endi t Hs1 Hs2 Ht.
  apply (forN_inv _ (fun a : arr * bool => all_entries P (fst a))); [exact Ht|].
  intros k [x stop] _ Hx. cbn [fst] in Hx.
  destruct stop; [exact Hx|]. cbv zeta.
  destruct (maxLitLenSym - 1 <? indexToSym (aget (codeList d) k)) eqn:E2; [exact Hx|].
  cbn [fst]. apply all_entries_aset; [exact Hx|].
  apply P_triple; [exact Hs1|exact Hs2|]. unfold maxLitLenSym in E2. lia.
Qed.

Lemma triples_loop2_ok : forall fuel t d ll minLen sym1 sym1Len sym1Code index2 t' e,
  litlen_sorted d -> sym1 < 256 -> minLen <= sym1Len -> sym1Len + 2 * minLen <= ll -> ll <= 12 ->
  aget (litCount d) minLen <= index2 -> index2 <= 514 -> 515 - index2 < N.of_nat fuel ->
  all_entries P t ->
  triples_loop2 fuel t d ll sym1 sym1Len sym1Code index2
                (aget (litCount d) (ll - sym1Len - minLen + 1)) = (t', e) ->
  e = ENone /\ all_entries P t'.
Proof.
  induction fuel as [|f IH];
    intros t d ll minLen sym1 sym1Len sym1Code index2 t' e HS Hs1 Hm1 Hm Hll Hlo Hhi Hfuel Ht H.
  - lia.
  - cbn [triples_loop2] in H.
    destruct (index2 <? aget (litCount d) (ll - sym1Len - minLen + 1)) eqn:E1.
    2:{ inversion H; subst. split; [reflexivity|exact Ht]. }
    destruct (bucket_ex d HS minLen (ll - sym1Len - minLen + 1) index2
                ltac:(lia) ltac:(lia) ltac:(lia)) as (L & HL & Hb & Hc & Hlen).
    rewrite Hlen in H.
    pose proof (lc_le_514 d HS (L + 1) ltac:(lia)) as HL1.
    destruct (256 <=? indexToSym (aget (codeList d) index2)) eqn:E2.
    + rewrite next_index_eq in H by lia.
      apply (IH _ _ _ minLen _ _ _ _ _ _ HS Hs1 Hm1 Hm Hll) in H; [exact H|lia|lia|lia|exact Ht].
    + rewrite (sub32_le ll sym1Len) in H by lia.
      rewrite (sub32_le (ll - sym1Len) L) in H by lia.
      destruct (22 <=? ll - sym1Len - L) eqn:E3; [lia|].
      match type of H with (let '(short, _) := ?X in _) = _ =>
        pose proof (triples_inner_ok d sym1 (indexToSym (aget (codeList d) index2)) sym1Code
                     (hc_code (aget (litAndDistHuff d) (aget (codeList d) index2)))
                     sym1Len L (ll - sym1Len - L)
                     (aget (litCount d) (ll - sym1Len - L))
                     (aget (litCount d) (ll - sym1Len - L + 1)) t
                     Hs1 ltac:(lia) Ht) as Hin;
        destruct X as [t1 st1] eqn:EX
      end.
      cbn [fst] in Hin.
      rewrite u16_small in H by lia.
      apply (IH _ _ _ minLen _ _ _ _ _ _ HS Hs1 Hm1 Hm Hll) in H; [exact H|lia|lia|lia|exact Hin].
Qed.

Lemma triples_loop1_ok : forall fuel t d ll minLen index1 t' e,
  litlen_sorted d -> 3 * minLen <= ll -> ll <= 12 ->
  aget (litCount d) minLen <= index1 -> index1 <= 514 -> 515 - index1 < N.of_nat fuel ->
  all_entries P t ->
  triples_loop1 fuel t d ll minLen index1 (aget (litCount d) (ll - 2 * minLen + 1)) = (t', e) ->
  e = ENone /\ all_entries P t'.
Proof.
  induction fuel as [|f IH]; intros t d ll minLen index1 t' e HS Hm Hll Hlo Hhi Hfuel Ht H.
  - lia.
  - cbn [triples_loop1] in H.
    destruct (index1 <? aget (litCount d) (ll - 2 * minLen + 1)) eqn:E1.
    2:{ inversion H; subst. split; [reflexivity|exact Ht]. }
    destruct (bucket_ex d HS minLen (ll - 2 * minLen + 1) index1 ltac:(lia) ltac:(lia) ltac:(lia))
      as (L & HL & Hb & Hc & Hlen).
    rewrite Hlen in H.
    pose proof (lc_le_514 d HS (L + 1) ltac:(lia)) as HL1.
    destruct (256 <=? indexToSym (aget (codeList d) index1)) eqn:E2.
    + rewrite next_index_eq in H by lia.
      apply (IH _ _ _ minLen _ _ _ HS Hm Hll) in H; [exact H|lia|lia|lia|exact Ht].
    + rewrite (sub32_le ll L) in H by lia.
      destruct (ll - L <? 2 * minLen) eqn:E3.
      { inversion H; subst. split; [reflexivity|exact Ht]. }
      rewrite (sub32_le (ll - L) minLen) in H by lia.
      destruct (23 <=? ll - L - minLen + 1) eqn:E4; [lia|].
      destruct (triples_loop2 small_fuel t d ll (indexToSym (aget (codeList d) index1)) L
                  (hc_code (aget (litAndDistHuff d) (aget (codeList d) index1)))
                  (aget (litCount d) minLen) (aget (litCount d) (ll - L - minLen + 1)))
        as [t1 e1] eqn:EL2.
      pose proof (lc_le_514 d HS minLen ltac:(lia)) as Hml.
      apply (triples_loop2_ok _ _ _ _ minLen _ _ _ _ _ _ HS) in EL2;
        [|lia|lia|lia|lia|lia|lia|rewrite small_fuel_val; lia|exact Ht].
      destruct EL2 as [He1 Ht1]. subst e1.
      rewrite u16_small in H by lia.
      apply (IH _ _ _ minLen _ _ _ HS Hm Hll) in H; [exact H|lia|lia|lia|exact Ht1].
Qed.

Lemma encodeTriples_ok : forall t d ll minLen t' e,
  litlen_sorted d -> 3 * minLen <= ll -> ll <= 12 ->
  all_entries P t ->
  encodeTriples t d ll minLen = (t', e) ->
  e = ENone /\ all_entries P t'.
Proof.
  intros t d ll minLen t' e HS Hm Hll Ht H. rewrite encodeTriples_unfold in H.
  rewrite sub32_le in H by lia.
  pose proof (lc_le_514 d HS minLen ltac:(lia)) as H1.
  apply (triples_loop1_ok _ _ _ _ minLen _ _ _ HS Hm Hll) in H; [exact H|lia|lia| |exact Ht].
  rewrite small_fuel_val. lia.
Qed.

(* ---------------------------------------------------------------- encodeLongCodes *)
Definition elc_scan (d : dynHdr) (huff : arr) (firstBits : N) (j : N) (a : N * list N)
  : N * list N :=
  let '(ml, tl) := a in
  let lj := aget (codeList d) (aget (litCount d) 13 + j) in
  if N.land (hc_code (aget huff lj)) 4095 =? firstBits
  then (hc_len (aget huff lj), lj :: tl) else a.

Definition elc_fold (fuel : nat) (lcl grp : N) (a : arr * arr * bool) (sym1Index : N) : arr * arr * bool :=
  let '(long, huff, pan) := a in
  let sym1 := indexToSym sym1Index in
  let sym1Len := hc_len (aget huff sym1Index) in
  let sym1Code := hc_code (aget huff sym1Index) in
  let longBits := N.shiftr sym1Code 12 in
  let minInc := shl32 1 (sym1Len - 12) in
  let entry := u16 (N.lor sym1 (N.shiftl sym1Len 10)) in
  let '(long, pan) := long_fill fuel 1264 mask32 long lcl longBits grp minInc entry pan in
  (long, aset huff sym1Index (hc_setcode (aget huff sym1Index) invalidCodeValue), pan).

Definition elc_step (d : dynHdr) (n : N) (i : N) (st : arr * arr * arr * N * bool)
  : arr * arr * arr * N * bool :=
  let '(short, long, huff, lcl, pan) := st in
  if pan then st
  else if 516 <=? aget (litCount d) 13 + i then (short, long, huff, lcl, true)
  else
    let li := aget (codeList d) (aget (litCount d) 13 + i) in
    if hc_code (aget huff li) =? invalidCodeValue then st
    else
      let maxLen0 := hc_len (aget huff li) in
      let firstBits := N.land (hc_code (aget huff li)) 4095 in
      let '(maxLen, tempRev) := forN (i + 1) n (elc_scan d huff firstBits) (maxLen0, [li]) in
      let temp := frev tempRev in
      let grp := shl32 1 (maxLen - 12) in
      if 1264 <? lcl + grp then (short, long, huff, lcl, true)
      else
        let long := forN lcl (lcl + grp) (fun x t => aset t x 0) long in
        let '(long, huff, pan) := fold_left (elc_fold small_fuel lcl grp) temp (long, huff, pan) in
        let short := aset short firstBits
                       (u32 (N.lor (N.lor lcl (N.shiftl maxLen 26)) largeFlagBit)) in
        (short, long, huff, u32 (lcl + grp), pan).

Lemma elc_loop_step_eq : forall short long d cll,
  elc_loop short long d cll =
  forN 0 (sub32 cll (aget (litCount d) 13)) (elc_step d (sub32 cll (aget (litCount d) 13)))
       (short, long, litAndDistHuff d, 0, false).
Proof. reflexivity. Qed.

Lemma hc_setcode_lt : forall v c, hc_setcode v c < 4294967296.
Proof.
  intros v c. unfold hc_setcode. change 4294967296 with (2 ^ 32). apply lor_lt_pow2.
  - pose proof (land_le_r v 4278190080) as H. change (2 ^ 32) with 4294967296. lia.
  - pose proof (land_le_r c 16777215) as H. change (2 ^ 32) with 4294967296. lia.
Qed.

Lemma hc_setcode_len : forall v c, v < 4294967296 -> hc_len (hc_setcode v c) = hc_len v.
Proof.
  intros v c Hv. unfold hc_len, hc_setcode. apply N.bits_inj. intro n.
  rewrite !N.shiftr_spec by lia. rewrite N.lor_spec, !N.land_spec.
  change 16777215 with (N.ones 24). rewrite N.ones_spec_high by lia.
  rewrite andb_false_r, orb_false_r.
  change 4278190080 with (N.shiftl (N.ones 8) 24).
  rewrite N.shiftl_spec_high by lia. replace (n + 24 - 24) with n by lia.
  destruct (N.lt_ge_cases n 8) as [Hlt|Hge].
  - rewrite N.ones_spec_low by exact Hlt. apply andb_true_r.
  - rewrite N.ones_spec_high by exact Hge. rewrite andb_false_r.
    symmetry. apply (testbit_small v 32); [exact Hv|lia].
Qed.

Definition huffinv (d : dynHdr) (huff : arr) : Prop :=
  forall x, aget huff x < 4294967296 /\
            hc_len (aget huff x) = hc_len (aget (litAndDistHuff d) x).

Lemma huffinv_mark : forall d huff x,
  huffinv d huff -> huffinv d (aset huff x (hc_setcode (aget huff x) invalidCodeValue)).
Proof.
  intros d huff x Hh y. rewrite aget_aset. destruct (y =? x) eqn:E.
  - assert (y = x) by lia. subst y. destruct (Hh x) as [H1 H2].
    split; [apply hc_setcode_lt|]. rewrite hc_setcode_len by exact H1. exact H2.
  - apply Hh.
Qed.

Lemma long_fill_ok : forall fuel bound wrap base lim minInc entry long longBits pan long' pan',
  base + lim <= bound -> Q entry -> all_entries Q long ->
  long_fill fuel bound wrap long base longBits lim minInc entry pan = (long', pan') ->
  pan' = pan /\ all_entries Q long'.
Proof.
  induction fuel as [|f IH];
    intros bound wrap base lim minInc entry long longBits pan long' pan' Hb He Hl H.
  - cbn [long_fill] in H. inversion H; subst. split; [reflexivity|exact Hl].
  - cbn [long_fill] in H. destruct (longBits <? lim) eqn:E1.
    2:{ inversion H; subst. split; [reflexivity|exact Hl]. }
    destruct (bound <=? base + longBits) eqn:E2; [lia|].
    apply IH in H; [exact H|exact Hb|exact He|].
    apply all_entries_aset; [exact Hl|exact He].
Qed.

Lemma long_fill_pan : forall fuel bound wrap base lim minInc entry long longBits pan long' pan',
  base + lim <= bound ->
  long_fill fuel bound wrap long base longBits lim minInc entry pan = (long', pan') ->
  pan' = pan.
Proof.
  induction fuel as [|f IH];
    intros bound wrap base lim minInc entry long longBits pan long' pan' Hb H.
  - cbn [long_fill] in H. inversion H; subst. reflexivity.
  - cbn [long_fill] in H. destruct (longBits <? lim) eqn:E1.
    2:{ inversion H; subst. reflexivity. }
    destruct (bound <=? base + longBits) eqn:E2; [lia|].
    apply IH in H; [exact H|exact Hb].
Qed.

Definition elem_ok (d : dynHdr) (x : N) : Prop :=
  x < 514 /\ 13 <= hc_len (aget (litAndDistHuff d) x) <= 21.

Lemma elc_fold_ok : forall fuel d lcl grp temp long huff pan long' huff' pan',
  lcl + grp <= 1264 -> Forall (elem_ok d) temp -> huffinv d huff ->
  fold_left (elc_fold fuel lcl grp) temp (long, huff, pan) = (long', huff', pan') ->
  huffinv d huff' /\ pan' = pan /\ (all_entries Q long -> all_entries Q long').
Proof.
  intros fuel d lcl grp temp. induction temp as [|x r IH];
    intros long huff pan long' huff' pan' Hg Hf Hh H.
  - cbn [fold_left] in H. inversion H; subst. split; [exact Hh|]. split; [reflexivity|auto].
  - cbn [fold_left] in H. inversion Hf as [|x0 r0 Hx Hr]; subst x0 r0.
    unfold elc_fold at 2 in H.
    match type of H with context [long_fill ?a ?b ?c ?dd ?e ?f ?g ?hh ?i ?j] =>
      destruct (long_fill a b c dd e f g hh i j) as [long1 pan1] eqn:EL end.
    apply IH in H; [|exact Hg|exact Hr|apply huffinv_mark; exact Hh].
    destruct H as (H1 & H2 & H3).
    pose proof (long_fill_pan _ _ _ _ _ _ _ _ _ _ _ _ Hg EL) as Hp.
    split; [exact H1|]. split; [congruence|].
    intro HQ. apply H3.
    destruct Hx as [Hx1 Hx2]. destruct (Hh x) as [_ Hlen].
    apply (long_fill_ok _ _ _ _ _ _ _ _ _ _ _ _ Hg) in EL; [exact (proj2 EL)| |exact HQ].
    apply Q_entry; [apply indexToSym_le; exact Hx1|]. rewrite Hlen. exact Hx2.
Qed.

Lemma shl32_1 : forall k, k < 32 -> shl32 1 k = 2 ^ k.
Proof.
  intros k Hk. unfold shl32. destruct (32 <=? k) eqn:E; [lia|].
  rewrite N.shiftl_1_l. apply u32_small. change 4294967296 with (2 ^ 32).
  apply N.pow_lt_mono_r; lia.
Qed.

Lemma elc_scan_ok : forall d huff firstBits lo n ml0 li ml tl,
  litlen_sorted d -> huffinv d huff ->
  aget (litCount d) 13 + n <= aget (litCount d) 22 ->
  13 <= ml0 <= 21 -> elem_ok d li ->
  forN lo n (elc_scan d huff firstBits) (ml0, [li]) = (ml, tl) ->
  13 <= ml <= 21 /\ Forall (elem_ok d) tl.
Proof.
  intros d huff firstBits lo n ml0 li ml tl HS Hh Hn Hml Hli H.
  assert (G : (fun a : N * list N => 13 <= fst a <= 21 /\ Forall (elem_ok d) (snd a))
                (forN lo n (elc_scan d huff firstBits) (ml0, [li]))).
  { apply forN_inv.
    - cbn [fst snd]. split; [exact Hml|]. constructor; [exact Hli|constructor].
    - intros j [m l] Hj [Hm Hl]. cbn [fst snd] in Hm, Hl. unfold elc_scan.
      destruct (N.land (hc_code (aget huff (aget (codeList d) (aget (litCount d) 13 + j)))) 4095
                =? firstBits) eqn:E.
      2:{ cbn [fst snd]. split; [exact Hm|exact Hl]. }
      destruct (bucket_ex d HS 13 22 (aget (litCount d) 13 + j) ltac:(lia) ltac:(lia) ltac:(lia))
        as (L & HL & Hb & Hc & Hlen).
      destruct (Hh (aget (codeList d) (aget (litCount d) 13 + j))) as [_ Hlj].
      cbn [fst snd]. split; [rewrite Hlj, Hlen; lia|].
      constructor; [|exact Hl]. split; [exact Hc|]. rewrite Hlen. lia. }
  rewrite H in G. exact G.
Qed.

Lemma Forall_frev : forall (A : Type) (R : A -> Prop) l, Forall R l -> Forall R (frev l).
Proof.
  intros A R l H. unfold frev. rewrite rev_append_rev, app_nil_r. apply Forall_rev. exact H.
Qed.

Lemma elc_step_ok : forall d n i short long huff lcl short' long' huff' lcl' pan',
  litlen_sorted d -> aget (litCount d) 13 + n <= aget (litCount d) 22 -> i < n ->
  huffinv d huff ->
  elc_step d n i (short, long, huff, lcl, false) = (short', long', huff', lcl', pan') ->
  huffinv d huff' /\
  (pan' = false -> all_entries P short -> all_entries P short') /\
  (pan' = false -> all_entries Q long -> all_entries Q long').
Proof.
  intros d n i short long huff lcl short' long' huff' lcl' pan' HS Hn Hi Hh H.
  unfold elc_step in H.
  pose proof (lc_le_514 d HS 22 ltac:(lia)) as H22.
  destruct (516 <=? aget (litCount d) 13 + i) eqn:E1; [lia|].
  destruct (bucket_ex d HS 13 22 (aget (litCount d) 13 + i) ltac:(lia) ltac:(lia) ltac:(lia))
    as (L & HL & Hb & Hc & Hlen).
  set (li := aget (codeList d) (aget (litCount d) 13 + i)) in *.
  destruct (Hh li) as [_ Hlli].
  destruct (hc_code (aget huff li) =? invalidCodeValue) eqn:E2.
  { inversion H; subst. split; [exact Hh|]. split; auto. }
  cbv zeta in H.
  destruct (forN (i + 1) n (elc_scan d huff (N.land (hc_code (aget huff li)) 4095))
                 (hc_len (aget huff li), [li])) as [maxLen tempRev] eqn:ES.
  apply (elc_scan_ok d huff _ _ _ _ _ _ _ HS Hh Hn) in ES;
    [|rewrite Hlli, Hlen; lia|split; [exact Hc|rewrite Hlen; lia]].
  destruct ES as [Hml Htl].
  rewrite shl32_1 in H by lia.
  destruct (1264 <? lcl + 2 ^ (maxLen - 12)) eqn:E3.
  { inversion H; subst. split; [exact Hh|]. split; intro Hc0; discriminate Hc0. }
  match type of H with context [fold_left ?f ?l ?a] =>
    destruct (fold_left f l a) as [[long2 huff2] pan2] eqn:EF end.
  apply (elc_fold_ok _ d) in EF; [|lia|apply Forall_frev; exact Htl|exact Hh].
  destruct EF as (F1 & F2 & F3).
  inversion H; subst short' long' huff' lcl' pan'. clear H.
  split; [exact F1|]. split.
  - intros _ Hs. apply all_entries_aset; [exact Hs|]. apply P_pointer; [exact Hml|lia].
  - intros _ Hl. apply F3. apply forN_inv; [exact Hl|].
    intros j x _ Hx. apply all_entries_aset; [exact Hx|exact Q_zero].
Qed.

Lemma elc_sticky : forall d n k i short long huff lcl,
  iterN k i (elc_step d n) (short, long, huff, lcl, true) = (short, long, huff, lcl, true).
Proof.
  intros d n. induction k as [|k IH]; intros i short long huff lcl.
  - reflexivity.
  - cbn [iterN]. change (elc_step d n i (short, long, huff, lcl, true))
      with (short, long, huff, lcl, true). apply IH.
Qed.

Lemma elc_iter_ok : forall d n k i short long huff lcl short' long' huff' lcl',
  litlen_sorted d -> aget (litCount d) 13 + n <= aget (litCount d) 22 ->
  i + N.of_nat k <= n -> huffinv d huff ->
  iterN k i (elc_step d n) (short, long, huff, lcl, false) = (short', long', huff', lcl', false) ->
  (all_entries P short -> all_entries P short') /\
  (all_entries Q long -> all_entries Q long').
Proof.
  intros d n. induction k as [|k IH];
    intros i short long huff lcl short' long' huff' lcl' HS Hn Hk Hh H.
  - cbn [iterN] in H. inversion H; subst. split; auto.
  - cbn [iterN] in H.
    destruct (elc_step d n i (short, long, huff, lcl, false)) as [[[[s1 l1] h1] c1] p1] eqn:E.
    apply elc_step_ok in E; [|exact HS|exact Hn|lia|exact Hh].
    destruct E as (E1 & E2 & E3).
    destruct p1.
    + rewrite elc_sticky in H. inversion H.
    + apply IH in H; [|exact HS|exact Hn|lia|exact E1].
      destruct H as [G1 G2]. split.
      * intro Hs. apply G1. apply E2; [reflexivity|exact Hs].
      * intro Hl. apply G2. apply E3; [reflexivity|exact Hl].
Qed.

Lemma huffinv_init : forall d, litlen_sorted d -> huffinv d (litAndDistHuff d).
Proof. intros d HS x. split; [apply (huff_lt d HS)|reflexivity]. Qed.

Lemma encodeLongCodes_ok : forall short long d sh lg huff pan,
  litlen_sorted d -> long_groups_fit d ->
  encodeLongCodes short long d (aget (litCount d) 22) = (sh, lg, huff, pan) ->
  pan = false /\ (all_entries P short -> all_entries P sh) /\
  (all_entries Q long -> all_entries Q lg).
Proof.
  intros short long d sh lg huff pan HS HF H.
  rewrite encodeLongCodes_eq in H. specialize (HF short long).
  destruct (elc_loop short long d (aget (litCount d) 22)) as [[[[s1 l1] h1] c1] p1] eqn:E.
  inversion H; subst sh lg huff pan. clear H. subst p1.
  split; [reflexivity|].
  rewrite elc_loop_step_eq in E.
  pose proof (lc_mono d HS 13 22 ltac:(lia) ltac:(lia)) as Hm.
  rewrite sub32_le in E by exact Hm.
  unfold forN in E.
  apply elc_iter_ok in E; [exact E|exact HS|lia|lia|apply huffinv_init; exact HS].
Qed.

(* ---------------------------------------------------------------- genForLitLen *)
Definition gfl_step (d : dynHdr) (multisym minLen : N) (ll : N) (st : arr * N * ierr)
  : arr * N * ierr :=
  let '(t, cs, err) := st in
  match err with
  | ENone =>
    let t := forN 0 (N.min cs (4096 - cs)) (fun i t => aset t (cs + i) (aget t i)) t in
    let cs := cs * 2 in
    let '(t, pan) := encodeSingles t d ll in
    if pan then (t, cs, EPanic)
    else if (singleSymFlag <=? multisym) || (ll <? 2 * minLen) then (t, cs, ENone)
    else
      let '(t, e) := encodePairs t d ll minLen in
      match e with
      | ENone =>
        if (doubleSymFlag <=? multisym) || (ll <? 3 * minLen) then (t, cs, ENone)
        else let '(t, e) := encodeTriples t d ll minLen in (t, cs, e)
      | _ => (t, cs, e)
      end
  | _ => st
  end.

Lemma gfl_step_ok : forall d multisym minLen ll t cs,
  litlen_sorted d -> ll < 13 -> all_entries P t ->
  exists t' cs', gfl_step d multisym minLen ll (t, cs, ENone) = (t', cs', ENone) /\
                 all_entries P t'.
Proof.
  intros d multisym minLen ll t cs HS Hll Ht. unfold gfl_step. cbv beta iota zeta.
  set (t0 := forN 0 (N.min cs (4096 - cs)) (fun i t => aset t (cs + i) (aget t i)) t).
  assert (Ht0 : all_entries P t0).
  { unfold t0. apply forN_inv; [exact Ht|]. intros j x _ Hx.
    apply all_entries_aset; [exact Hx|apply Hx]. }
  clearbody t0.
  destruct (encodeSingles t0 d ll) as [t1 pan] eqn:ES.
  apply encodeSingles_ok in ES; [|exact HS|lia|exact Ht0].
  destruct ES as [Hpan Ht1]. subst pan.
  destruct ((singleSymFlag <=? multisym) || (ll <? 2 * minLen)) eqn:Ec1.
  { exists t1, (cs * 2). split; [reflexivity|exact Ht1]. }
  destruct (encodePairs t1 d ll minLen) as [t2 e2] eqn:EP.
  apply encodePairs_ok in EP; [|exact HS|lia|lia|exact Ht1].
  destruct EP as [He2 Ht2]. subst e2.
  destruct ((doubleSymFlag <=? multisym) || (ll <? 3 * minLen)) eqn:Ec2.
  { exists t2, (cs * 2). split; [reflexivity|exact Ht2]. }
  destruct (encodeTriples t2 d ll minLen) as [t3 e3] eqn:ET.
  apply encodeTriples_ok in ET; [|exact HS|lia|lia|exact Ht2].
  destruct ET as [He3 Ht3]. subst e3.
  exists t3, (cs * 2). split; [reflexivity|exact Ht3].
Qed.

Lemma genForLitLen_fn : genForLitLen = fun short long d multisym =>
  let codeListLen := aget (litCount d) 22 in
  if codeListLen =? 0 then (aempty, long, d, ENone)
  else
    let lastLen0 := hc_len (aget (litAndDistHuff d) (aget (codeList d) 0)) in
    let lastLen := if 12 <? lastLen0 then 13 else lastLen0 in
    let copySize := if lastLen =? 0 then 0 else N.shiftl 1 (lastLen - 1) in
    let short := forN 0 copySize (fun i t => aset t i 0) short in
    let '(short, _, err) := forN lastLen 13 (gfl_step d multisym lastLen) (short, copySize, ENone) in
    match err with
    | ENone =>
      let '(short, long, huff, pan) := encodeLongCodes short long d codeListLen in
      (short, long, set_dyn_huff d huff, if pan then EPanic else ENone)
    | _ => (short, long, d, err)
    end.
Proof. reflexivity. Qed.

Lemma genForLitLen_gen : forall short long d multisym sh lg d' e,
  genForLitLen short long d multisym = (sh, lg, d', e) ->
  litlen_sorted d -> long_groups_fit d ->
  all_entries P short ->
  e = ENone /\ all_entries P sh /\ (all_entries Q long -> all_entries Q lg) /\
  clcShort d' = clcShort d /\ clcLong d' = clcLong d.
Proof.
  intros short long d multisym sh lg d' e H HS HF Hsh.
  rewrite genForLitLen_fn in H. cbv beta zeta in H.
  destruct (aget (litCount d) 22 =? 0) eqn:E0.
  { apply pair_equal_spec in H. destruct H as [H He].
    apply pair_equal_spec in H. destruct H as [H Hd].
    apply pair_equal_spec in H. destruct H as [Hs Hl]. subst sh lg d' e.
    split; [reflexivity|]. split; [apply all_entries_empty; exact P_zero|].
    split; [auto|]. split; reflexivity. }
  set (minLen := if 12 <? hc_len (aget (litAndDistHuff d) (aget (codeList d) 0)) then 13
                 else hc_len (aget (litAndDistHuff d) (aget (codeList d) 0))) in H.
  set (copySize := if minLen =? 0 then 0 else N.shiftl 1 (minLen - 1)) in H.
  set (short0 := forN 0 copySize (fun i t => aset t i 0) short) in H.
  assert (Hs0 : all_entries P short0).
  { unfold short0. apply forN_inv; [exact Hsh|]. intros j x _ Hx.
    apply all_entries_aset; [exact Hx|exact P_zero]. }
  clearbody short0. clearbody copySize.
  assert (HL : (fun st : arr * N * ierr => snd st = ENone /\ all_entries P (fst (fst st)))
                 (forN minLen 13 (gfl_step d multisym minLen) (short0, copySize, ENone))).
  { apply forN_inv.
    - cbn [fst snd]. split; [reflexivity|exact Hs0].
    - intros ll [[t cs] err] Hll [Herr Ht]. cbn [fst snd] in Herr, Ht. subst err.
      destruct (gfl_step_ok d multisym minLen ll t cs HS ltac:(lia) Ht) as (t' & cs' & Hst & Ht').
      rewrite Hst. cbn [fst snd]. split; [reflexivity|exact Ht']. }
  destruct (forN minLen 13 (gfl_step d multisym minLen) (short0, copySize, ENone))
    as [[t1 cs1] err1] eqn:EL.
  cbn [fst snd] in HL. destruct HL as [Herr Ht1]. subst err1.
  destruct (encodeLongCodes t1 long d (aget (litCount d) 22)) as [[[s2 l2] h2] p2] eqn:EE.
  apply encodeLongCodes_ok in EE; [|exact HS|exact HF].
  destruct EE as (Hp & G1 & G2). subst p2.
  apply pair_equal_spec in H. destruct H as [H He].
  apply pair_equal_spec in H. destruct H as [H Hd].
  apply pair_equal_spec in H. destruct H as [Hs Hl]. subst sh lg d' e.
  split; [reflexivity|]. split; [apply G1; exact Ht1|]. split; [exact G2|].
  split; reflexivity.
Qed.

End Gen.

(* ---------------------------------------------------------------- the concrete entries *)
Lemma sym_single_lt : forall s, s <= 512 -> s < 2 ^ 25.
Proof. intros s H. change (2 ^ 25) with 33554432. lia. Qed.

Lemma sym_pair_lt : forall s1 s2, s1 < 256 -> s2 <= 512 -> N.lor s1 (N.shiftl s2 8) < 2 ^ 24.
Proof.
  intros s1 s2 H1 H2. apply lor_lt_pow2.
  - change (2 ^ 24) with 16777216. lia.
  - apply (shiftl_lt _ 8 10 24); [|lia]. change (2 ^ 10) with 1024. lia.
Qed.

Lemma sym_triple_lt : forall s1 s2 s3, s1 < 256 -> s2 < 256 -> s3 <= 511 ->
  N.lor (N.lor s1 (N.shiftl s2 8)) (N.shiftl s3 16) < 2 ^ 25.
Proof.
  intros s1 s2 s3 H1 H2 H3. apply lor_lt_pow2; [apply lor_lt_pow2|].
  - change (2 ^ 25) with 33554432. lia.
  - apply (shiftl_lt _ 8 8 25); [|lia]. change (2 ^ 8) with 256. lia.
  - apply (shiftl_lt _ 16 9 25); [|lia]. change (2 ^ 9) with 512. lia.
Qed.

(* the fields of a plain short entry *)
Lemma short_entry_sym : forall s c m, s < 2 ^ 25 ->
  N.land (u32 (N.lor (N.lor s (N.shiftl c 28)) (N.shiftl m 26))) largeShortSymMask = s.
Proof.
  intros s c m Hs. change largeShortSymMask with (N.ones 25). apply N.bits_inj. intro n.
  rewrite N.land_spec. destruct (N.lt_ge_cases n 25) as [Hlt|Hge].
  - rewrite N.ones_spec_low by exact Hlt. rewrite andb_true_r.
    rewrite u32_testbit by lia. rewrite !N.lor_spec.
    rewrite !N.shiftl_spec_low by lia. rewrite !orb_false_r. reflexivity.
  - rewrite N.ones_spec_high by exact Hge. rewrite andb_false_r.
    symmetry. apply (testbit_small s 25); [exact Hs|exact Hge].
Qed.

Lemma short_entry_count : forall s c m, s < 2 ^ 25 -> m <= 3 ->
  N.land (N.shiftr (u32 (N.lor (N.lor s (N.shiftl c 28)) (N.shiftl m 26))) 26) 3 = m.
Proof.
  intros s c m Hs Hm. change 3 with (N.ones 2) at 1. apply N.bits_inj. intro n.
  rewrite N.land_spec, N.shiftr_spec by lia.
  destruct (N.lt_ge_cases n 2) as [Hlt|Hge].
  - rewrite N.ones_spec_low by exact Hlt. rewrite andb_true_r.
    rewrite u32_testbit by lia. rewrite !N.lor_spec.
    rewrite (testbit_small s 25 (n + 26)) by (auto; lia).
    rewrite N.shiftl_spec_low by lia. rewrite N.shiftl_spec_high by lia.
    cbn [orb]. f_equal. lia.
  - rewrite N.ones_spec_high by exact Hge. rewrite andb_false_r.
    symmetry. apply (testbit_small m 2); [change (2 ^ 2) with 4; lia|exact Hge].
Qed.

Lemma sym_entry_ok : forall s c m, s < 2 ^ 25 -> m <= 3 -> s < 2 ^ (8 * m + 8) ->
  lit_short_sym_ok (u32 (N.lor (N.lor s (N.shiftl c 28)) (N.shiftl m 26))).
Proof.
  intros s c m Hs Hm Hlt. apply lit_short_sym_ok_of_lt. intros _ _.
  rewrite short_entry_sym by exact Hs. rewrite short_entry_count by assumption. exact Hlt.
Qed.

(* the pointer entry *)
Lemma pointer_flag : forall lcl maxLen,
  N.land (u32 (N.lor (N.lor lcl (N.shiftl maxLen 26)) largeFlagBit)) largeFlagBit <> 0.
Proof.
  intros lcl maxLen Hc. change largeFlagBit with (2 ^ 25) in Hc at 2.
  apply land_pow2_testbit in Hc. rewrite u32_testbit in Hc by lia.
  rewrite (lor_testbit_r _ largeFlagBit 25) in Hc; [discriminate|].
  change largeFlagBit with (2 ^ 25). apply N.pow2_bits_true.
Qed.

Lemma pointer_len : forall lcl maxLen, lcl < 2 ^ 25 -> maxLen < 32 ->
  N.shiftr (u32 (N.lor (N.lor lcl (N.shiftl maxLen 26)) largeFlagBit)) 26 = maxLen.
Proof.
  intros lcl maxLen Hl Hm. apply N.bits_inj. intro n. rewrite N.shiftr_spec by lia.
  destruct (N.lt_ge_cases n 6) as [Hlt|Hge].
  - rewrite u32_testbit by lia. rewrite !N.lor_spec.
    rewrite (testbit_small lcl 25 (n + 26)) by (auto; lia).
    rewrite N.shiftl_spec_high by lia.
    change largeFlagBit with (2 ^ 25). rewrite N.pow2_bits_false by lia.
    cbn [orb]. rewrite orb_false_r. f_equal. lia.
  - rewrite (testbit_small _ 32 (n + 26)); [|apply u32_lt|lia].
    symmetry. apply (testbit_small maxLen 5); [change (2 ^ 5) with 32; exact Hm|lia].
Qed.

Lemma pointer_sym : forall lcl maxLen, lcl < 2 ^ 25 ->
  N.land (u32 (N.lor (N.lor lcl (N.shiftl maxLen 26)) largeFlagBit)) largeShortSymMask = lcl.
Proof.
  intros lcl maxLen Hl. change largeShortSymMask with (N.ones 25). apply N.bits_inj. intro n.
  rewrite N.land_spec. destruct (N.lt_ge_cases n 25) as [Hlt|Hge].
  - rewrite N.ones_spec_low by exact Hlt. rewrite andb_true_r.
    rewrite u32_testbit by lia. rewrite !N.lor_spec.
    rewrite N.shiftl_spec_low by lia.
    change largeFlagBit with (2 ^ 25). rewrite N.pow2_bits_false by lia.
    rewrite !orb_false_r. reflexivity.
  - rewrite N.ones_spec_high by exact Hge. rewrite andb_false_r.
    symmetry. apply (testbit_small lcl 25); [exact Hl|exact Hge].
Qed.

Lemma pow2_ge_1 : forall k, 1 <= 2 ^ k.
Proof. intros k. pose proof (N.pow_nonzero 2 k ltac:(lia)). lia. Qed.

Lemma pointer_entry_ok : forall lcl maxLen,
  13 <= maxLen <= 21 -> lcl + 2 ^ (maxLen - 12) <= 1264 ->
  lit_short_ok (u32 (N.lor (N.lor lcl (N.shiftl maxLen 26)) largeFlagBit)).
Proof.
  intros lcl maxLen Hm Hfit.
  pose proof (pow2_ge_1 (maxLen - 12)) as Hp.
  assert (Hl : lcl < 2 ^ 25) by (change (2 ^ 25) with 33554432; lia).
  unfold lit_short_ok. split; [apply u32_lt|]. split.
  - intros Hc. exfalso. exact (pointer_flag lcl maxLen Hc).
  - intros _. rewrite pointer_len by (auto; lia). rewrite pointer_sym by exact Hl.
    split; [lia|exact Hfit].
Qed.

Lemma long_entry_ok : forall sym len, sym <= 512 -> 13 <= len <= 21 ->
  lit_long_ok (u16 (N.lor sym (N.shiftl len 10))).
Proof.
  intros sym len Hs Hlen. unfold lit_long_ok.
  assert (Hs10 : sym < 2 ^ 10) by (change (2 ^ 10) with 1024; lia).
  pose proof (shiftr_lor_shiftl sym len 10 Hs10) as H.
  rewrite N.shiftr_div_pow2 in H. change (2 ^ 10) with 1024 in H.
  set (x := N.lor sym (N.shiftl len 10)) in *.
  pose proof (land_le_l x mask16) as Hu. fold (u16 x) in Hu.
  pose proof (N.div_mod' x 1024) as Hd.
  pose proof (N.mod_lt x 1024 ltac:(lia)) as Hmd.
  rewrite H in Hd. lia.
Qed.

(* ---------------------------------------------------------------- the two instances *)
Theorem genForLitLen_spec : forall short long d multisym sh lg d' e,
  genForLitLen short long d multisym = (sh, lg, d', e) ->
  litlen_sorted d -> long_groups_fit d ->
  all_entries lit_short_ok short -> all_entries lit_long_ok long ->
  e = ENone /\ all_entries lit_short_ok sh /\ all_entries lit_long_ok lg /\
  clcShort d' = clcShort d /\ clcLong d' = clcLong d.
Proof.
  intros short long d multisym sh lg d' e H HS HF Hsh Hlg.
  assert (A1 : forall s c, s <= 512 ->
            lit_short_ok (u32 (N.lor (N.lor s (N.shiftl c 28)) (N.shiftl 1 26)))).
  { intros s c Hs. apply short_entry_ok; [apply sym_single_lt; exact Hs|left; reflexivity]. }
  assert (A2 : forall s1 s2 c, s1 < 256 -> s2 <= 512 ->
            lit_short_ok (u32 (N.lor (N.lor (N.lor s1 (N.shiftl s2 8)) (N.shiftl c 28))
                                     (N.shiftl 2 26)))).
  { intros s1 s2 c H1 H2. apply short_entry_ok; [|right; reflexivity].
    apply lt_pow2_mono with 24; [apply sym_pair_lt; assumption|lia]. }
  assert (A3 : forall s1 s2 s3 c, s1 < 256 -> s2 < 256 -> s3 <= 511 ->
            lit_short_ok (u32 (N.lor (N.lor (N.lor (N.lor s1 (N.shiftl s2 8)) (N.shiftl s3 16))
                                            (N.shiftl c 28)) (N.shiftl 3 26)))).
  { intros s1 s2 s3 c H1 H2 H3. apply short_entry_ok; [|left; reflexivity].
    apply sym_triple_lt; assumption. }
  destruct (genForLitLen_gen lit_short_ok lit_long_ok lit_short_ok_0 A1 A2 A3 pointer_entry_ok
              lit_long_ok_0 long_entry_ok short long d multisym sh lg d' e H HS HF Hsh)
    as (G1 & G2 & G3 & G4 & G5).
  split; [exact G1|]. split; [exact G2|]. split; [exact (G3 Hlg)|]. split; [exact G4|exact G5].
Qed.

Print Assumptions genForLitLen_spec.

Theorem genForLitLen_sym_ok : forall short long d multisym sh lg d' e,
  genForLitLen short long d multisym = (sh, lg, d', e) ->
  litlen_sorted d -> long_groups_fit d ->
  all_entries lit_short_sym_ok short ->
  all_entries lit_short_sym_ok sh.
Proof.
  intros short long d multisym sh lg d' e H HS HF Hsh.
  assert (A0 : lit_short_sym_ok 0).
  { intros _ Hc. exfalso. apply Hc. reflexivity. }
  assert (A1 : forall s c, s <= 512 ->
            lit_short_sym_ok (u32 (N.lor (N.lor s (N.shiftl c 28)) (N.shiftl 1 26)))).
  { intros s c Hs. apply sym_entry_ok; [apply sym_single_lt; exact Hs|lia|].
    change (2 ^ (8 * 1 + 8)) with 65536. lia. }
  assert (A2 : forall s1 s2 c, s1 < 256 -> s2 <= 512 ->
            lit_short_sym_ok (u32 (N.lor (N.lor (N.lor s1 (N.shiftl s2 8)) (N.shiftl c 28))
                                         (N.shiftl 2 26)))).
  { intros s1 s2 c H1 H2. apply sym_entry_ok; [|lia|].
    - apply lt_pow2_mono with 24; [apply sym_pair_lt; assumption|lia].
    - change (8 * 2 + 8) with 24. apply sym_pair_lt; assumption. }
  assert (A3 : forall s1 s2 s3 c, s1 < 256 -> s2 < 256 -> s3 <= 511 ->
            lit_short_sym_ok (u32 (N.lor (N.lor (N.lor (N.lor s1 (N.shiftl s2 8)) (N.shiftl s3 16))
                                                (N.shiftl c 28)) (N.shiftl 3 26)))).
  { intros s1 s2 s3 c H1 H2 H3. apply sym_entry_ok; [|lia|].
    - apply sym_triple_lt; assumption.
    - apply lt_pow2_mono with 25; [apply sym_triple_lt; assumption|lia]. }
  assert (A4 : forall lcl maxLen, 13 <= maxLen <= 21 -> lcl + 2 ^ (maxLen - 12) <= 1264 ->
            lit_short_sym_ok (u32 (N.lor (N.lor lcl (N.shiftl maxLen 26)) largeFlagBit))).
  { intros lcl maxLen _ _ Hc. exfalso. exact (pointer_flag lcl maxLen Hc). }
  destruct (genForLitLen_gen lit_short_sym_ok (fun _ => True) A0 A1 A2 A3 A4 I
              (fun _ _ _ _ => I) short long d multisym sh lg d' e H HS HF Hsh)
    as (G1 & G2 & G3 & G4 & G5).
  exact G2.
Qed.

Print Assumptions genForLitLen_sym_ok.
