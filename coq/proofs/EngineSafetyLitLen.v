(* EngineSafetyLitLen.v -- safety of the large-table builder genForLitLen of RModel/Engine.v
   (encodeSingles, encodePairs, encodeTriples, encodeLongCodes): no EPanic, no EFuel, and the
   produced tables satisfy the entry invariants lit_short_ok / lit_long_ok, given that the code
   list is sorted (litlen_sorted) and the long-code groups fit (long_groups_fit). *)
From Verif Require Import Engine EngineTables.
From Verif Require Import Base EngineSafetyBase EngineSafetyBits EngineSafetyInv.
From Coq Require Import List NArith ZArith Bool Lia ZifyBool ZifyNat ZifyN.
Import ListNotations.
Open Scope N_scope.

(* ---------------------------------------------------------------- small arithmetic *)
Lemma sub32_le : forall a b, b <= a -> sub32 a b = a - b.
Proof.
  intros a b H. unfold sub32, subw. destruct (b <=? a) eqn:E; [reflexivity|lia].
Qed.

Lemma next_index_eq : forall x, 1 <= x -> x < 65536 -> u16 (sub16 x 1 + 1) = x.
Proof.
  intros x H1 H2. unfold sub16, subw. destruct (1 <=? x) eqn:E; [|lia].
  replace (x - 1 + 1) with x by lia. apply u16_small. exact H2.
Qed.

Lemma shiftl_lt : forall b k m n, b < 2 ^ m -> m + k <= n -> N.shiftl b k < 2 ^ n.
Proof.
  intros b k m n Hb Hn. apply N.lt_le_trans with (2 ^ (m + k)).
  - apply shiftl_lt_pow2. exact Hb.
  - apply N.pow_le_mono_r; [lia|exact Hn].
Qed.

Lemma lt_pow2_mono : forall a m n, a < 2 ^ m -> m <= n -> a < 2 ^ n.
Proof.
  intros a m n Ha Hn. apply N.lt_le_trans with (2 ^ m); [exact Ha|].
  apply N.pow_le_mono_r; [lia|exact Hn].
Qed.

Lemma indexToSym_le : forall x, x < 514 -> indexToSym x <= 512.
Proof. intros x H. unfold indexToSym. destruct (x =? 513) eqn:E; lia. Qed.

(* ---------------------------------------------------------------- short-table entries *)
Lemma lit_short_ok_plain : forall e,
  e < 4294967296 -> N.testbit e 25 = false ->
  (N.testbit e 26 = true \/ N.testbit e 27 = true) -> lit_short_ok e.
Proof.
  intros e Hlt H25 Hb. unfold lit_short_ok. split; [exact Hlt|]. split.
  - intros _ _ Hc.
    assert (H0 : N.testbit (N.land (N.shiftr e 26) 3) 0 = false) by (rewrite Hc; apply N.bits_0).
    assert (H1 : N.testbit (N.land (N.shiftr e 26) 3) 1 = false) by (rewrite Hc; apply N.bits_0).
    rewrite N.land_spec, N.shiftr_spec in H0 by lia.
    rewrite N.land_spec, N.shiftr_spec in H1 by lia.
    change (0 + 26) with 26 in H0. change (1 + 26) with 27 in H1.
    change (N.testbit 3 0) with true in H0. change (N.testbit 3 1) with true in H1.
    rewrite andb_true_r in H0, H1.
    destruct Hb as [Hb|Hb]; congruence.
  - intros Hc. exfalso. apply Hc. change largeFlagBit with (2 ^ 25).
    apply land_pow2_testbit. exact H25.
Qed.

(* sym part below 2^25, code length at bit 28, symbol count m at bit 26 *)
Lemma short_entry_ok : forall s c m,
  s < 2 ^ 25 -> (N.testbit m 0 = true \/ N.testbit m 1 = true) ->
  lit_short_ok (u32 (N.lor (N.lor s (N.shiftl c 28)) (N.shiftl m 26))).
Proof.
  intros s c m Hs Hm. apply lit_short_ok_plain.
  - apply u32_lt.
  - rewrite u32_testbit by lia. rewrite !N.lor_spec.
    rewrite (testbit_small s 25 25) by (auto; lia).
    rewrite !N.shiftl_spec_low by lia. reflexivity.
  - destruct Hm as [Hm|Hm]; [left|right].
    + rewrite u32_testbit by lia. apply lor_testbit_r.
      rewrite N.shiftl_spec_high by lia. exact Hm.
    + rewrite u32_testbit by lia. apply lor_testbit_r.
      rewrite N.shiftl_spec_high by lia. exact Hm.
Qed.

(* ---------------------------------------------------------------- the sorted code list *)
Section Sorted.
Variable d : dynHdr.
Hypothesis HS : litlen_sorted d.

Lemma lc_step : forall L, L < 22 -> aget (litCount d) L <= aget (litCount d) (L + 1).
Proof. destruct HS as (_ & _ & H & _). exact H. Qed.

Lemma lc_mono_nat : forall n a, a + N.of_nat n <= 22 ->
  aget (litCount d) a <= aget (litCount d) (a + N.of_nat n).
Proof.
  induction n as [|n IH]; intros a Ha.
  - replace (a + N.of_nat 0) with a by lia. lia.
  - replace (a + N.of_nat (S n)) with (a + N.of_nat n + 1) by lia.
    pose proof (IH a ltac:(lia)) as H1.
    pose proof (lc_step (a + N.of_nat n) ltac:(lia)) as H2. lia.
Qed.

Lemma lc_mono : forall a b, a <= b -> b <= 22 -> aget (litCount d) a <= aget (litCount d) b.
Proof.
  intros a b Hab Hb. replace b with (a + N.of_nat (N.to_nat (b - a))) by lia.
  apply lc_mono_nat. lia.
Qed.

Lemma lc_le_514 : forall a, a <= 22 -> aget (litCount d) a <= 514.
Proof.
  intros a Ha. pose proof (lc_mono a 22 Ha ltac:(lia)) as H1.
  destruct HS as (_ & _ & _ & H22 & _). lia.
Qed.

Lemma bucket_nat : forall n a k, a + N.of_nat n <= 22 ->
  aget (litCount d) a <= k < aget (litCount d) (a + N.of_nat n) ->
  exists L, a <= L < a + N.of_nat n /\
    aget (litCount d) L <= k < aget (litCount d) (L + 1) /\
    aget (codeList d) k < 514 /\ hc_len (aget (litAndDistHuff d) (aget (codeList d) k)) = L.
Proof.
  induction n as [|n IH]; intros a k Ha Hk.
  - replace (a + N.of_nat 0) with a in Hk by lia. lia.
  - replace (a + N.of_nat (S n)) with (a + N.of_nat n + 1) in Hk by lia.
    destruct (N.lt_ge_cases k (aget (litCount d) (a + N.of_nat n))) as [Hlt|Hge].
    + destruct (IH a k ltac:(lia) ltac:(lia)) as (L & HL & Hb & Hc).
      exists L. split; [lia|]. split; [exact Hb|exact Hc].
    + exists (a + N.of_nat n). split; [lia|]. split; [lia|].
      destruct HS as (_ & _ & _ & _ & _ & Hbk). apply Hbk; lia.
Qed.

Lemma bucket_ex : forall a b k, a <= b -> b <= 22 ->
  aget (litCount d) a <= k < aget (litCount d) b ->
  exists L, a <= L < b /\
    aget (litCount d) L <= k < aget (litCount d) (L + 1) /\
    aget (codeList d) k < 514 /\ hc_len (aget (litAndDistHuff d) (aget (codeList d) k)) = L.
Proof.
  intros a b k Hab Hb Hk.
  replace b with (a + N.of_nat (N.to_nat (b - a))) in Hk by lia.
  destruct (bucket_nat (N.to_nat (b - a)) a k ltac:(lia) Hk) as (L & HL & Hr).
  exists L. split; [lia|exact Hr].
Qed.

Lemma huff_lt : forall i, aget (litAndDistHuff d) i < 4294967296.
Proof. destruct HS as (_ & _ & _ & _ & H & _). exact H. Qed.

End Sorted.

(* ---------------------------------------------------------------- encodeSingles *)
Lemma encodeSingles_ok : forall t d ll t' pan,
  litlen_sorted d -> ll < 22 -> all_entries lit_short_ok t ->
  encodeSingles t d ll = (t', pan) ->
  pan = false /\ all_entries lit_short_ok t'.
Proof.
  intros t d ll t' pan HS Hll Ht H. unfold encodeSingles in H.
  pose proof (lc_step d HS ll Hll) as H1.
  pose proof (lc_le_514 d HS (ll + 1) ltac:(lia)) as H2.
  destruct ((aget (litCount d) (ll + 1) <? aget (litCount d) ll) ||
            (516 <? aget (litCount d) (ll + 1))) eqn:E; [lia|].
  inversion H; subst t' pan. clear H. split; [reflexivity|].
  apply forN_inv; [exact Ht|].
  intros k x _ Hx.
  destruct (maxLitLenSym <? indexToSym (aget (codeList d) k)) eqn:E2; [exact Hx|].
  apply all_entries_aset; [exact Hx|].
  apply short_entry_ok.
  - unfold maxLitLenSym in E2. change (2 ^ 25) with 33554432. lia.
  - left. reflexivity.
Qed.

