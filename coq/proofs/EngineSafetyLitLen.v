(* EngineSafetyLitLen.v -- safety of the large-table builder genForLitLen of RModel/Engine.v
   (encodeSingles, encodePairs, encodeTriples, encodeLongCodes): no EPanic, no EFuel, and the
   produced tables satisfy the entry invariants lit_short_ok / lit_long_ok, given that the code
   list is sorted (litlen_sorted) and the long-code groups fit (long_groups_fit). *)
From Verif Require Import Engine EngineTables.
From Verif Require Import Base EngineSafetyBase EngineSafetyBits EngineSafetyInv.
From Coq Require Import List NArith ZArith Bool Lia ZifyBool ZifyNat ZifyN.
Import ListNotations.
Open Scope N_scope.

(* ---------------------------------------------------------------- small arithmetic *)
Lemma sub32_le : forall a b, b <= a -> sub32 a b = a - b.
Proof.
  intros a b H. unfold sub32, subw. destruct (b <=? a) eqn:E; [reflexivity|lia].
Qed.

Lemma next_index_eq : forall x, 1 <= x -> x < 65536 -> u16 (sub16 x 1 + 1) = x.
Proof.
  intros x H1 H2. unfold sub16, subw. destruct (1 <=? x) eqn:E; [|lia].
  replace (x - 1 + 1) with x by lia. apply u16_small. exact H2.
Qed.

Lemma shiftl_lt : forall b k m n, b < 2 ^ m -> m + k <= n -> N.shiftl b k < 2 ^ n.
Proof.
  intros b k m n Hb Hn. apply N.lt_le_trans with (2 ^ (m + k)).
  - apply shiftl_lt_pow2. exact Hb.
  - apply N.pow_le_mono_r; [lia|exact Hn].
Qed.

Lemma lt_pow2_mono : forall a m n, a < 2 ^ m -> m <= n -> a < 2 ^ n.
Proof.
  intros a m n Ha Hn. apply N.lt_le_trans with (2 ^ m); [exact Ha|].
  apply N.pow_le_mono_r; [lia|exact Hn].
Qed.

Lemma indexToSym_le : forall x, x < 514 -> indexToSym x <= 512.
Proof. intros x H. unfold indexToSym. destruct (x =? 513) eqn:E; lia. Qed.

(* ---------------------------------------------------------------- short-table entries *)
Lemma lit_short_ok_plain : forall e,
  e < 4294967296 -> N.testbit e 25 = false ->
  (N.testbit e 26 = true \/ N.testbit e 27 = true) -> lit_short_ok e.
Proof.
  intros e Hlt H25 Hb. unfold lit_short_ok. split; [exact Hlt|]. split.
  - intros _ _ Hc.
    assert (H0 : N.testbit (N.land (N.shiftr e 26) 3) 0 = false) by (rewrite Hc; apply N.bits_0).
    assert (H1 : N.testbit (N.land (N.shiftr e 26) 3) 1 = false) by (rewrite Hc; apply N.bits_0).
    rewrite N.land_spec, N.shiftr_spec in H0 by lia.
    rewrite N.land_spec, N.shiftr_spec in H1 by lia.
    change (0 + 26) with 26 in H0. change (1 + 26) with 27 in H1.
    change (N.testbit 3 0) with true in H0. change (N.testbit 3 1) with true in H1.
    rewrite andb_true_r in H0, H1.
    destruct Hb as [Hb|Hb]; congruence.
  - intros Hc. exfalso. apply Hc. change largeFlagBit with (2 ^ 25).
    apply land_pow2_testbit. exact H25.
Qed.

(* sym part below 2^25, code length at bit 28, symbol count m at bit 26 *)
Lemma short_entry_ok : forall s c m,
  s < 2 ^ 25 -> (N.testbit m 0 = true \/ N.testbit m 1 = true) ->
  lit_short_ok (u32 (N.lor (N.lor s (N.shiftl c 28)) (N.shiftl m 26))).
Proof.
  intros s c m Hs Hm. apply lit_short_ok_plain.
  - apply u32_lt.
  - rewrite u32_testbit by lia. rewrite !N.lor_spec.
    rewrite (testbit_small s 25 25) by (auto; lia).
    rewrite !N.shiftl_spec_low by lia. reflexivity.
  - destruct Hm as [Hm|Hm]; [left|right].
    + rewrite u32_testbit by lia. apply lor_testbit_r.
      rewrite N.shiftl_spec_high by lia. exact Hm.
    + rewrite u32_testbit by lia. apply lor_testbit_r.
      rewrite N.shiftl_spec_high by lia. exact Hm.
Qed.

(* ---------------------------------------------------------------- the sorted code list *)
Section Sorted.
Variable d : dynHdr.
Hypothesis HS : litlen_sorted d.

Lemma lc_step : forall L, L < 22 -> aget (litCount d) L <= aget (litCount d) (L + 1).
Proof. destruct HS as (_ & _ & H & _). exact H. Qed.

Lemma lc_mono_nat : forall n a, a + N.of_nat n <= 22 ->
  aget (litCount d) a <= aget (litCount d) (a + N.of_nat n).
Proof.
  induction n as [|n IH]; intros a Ha.
  - replace (a + N.of_nat 0) with a by lia. lia.
  - replace (a + N.of_nat (S n)) with (a + N.of_nat n + 1) by lia.
    pose proof (IH a ltac:(lia)) as H1.
    pose proof (lc_step (a + N.of_nat n) ltac:(lia)) as H2. lia.
Qed.

Lemma lc_mono : forall a b, a <= b -> b <= 22 -> aget (litCount d) a <= aget (litCount d) b.
Proof.
  intros a b Hab Hb. replace b with (a + N.of_nat (N.to_nat (b - a))) by lia.
  apply lc_mono_nat. lia.
Qed.

Lemma lc_le_514 : forall a, a <= 22 -> aget (litCount d) a <= 514.
Proof.
  intros a Ha. pose proof (lc_mono a 22 Ha ltac:(lia)) as H1.
  destruct HS as (_ & _ & _ & H22 & _). lia.
Qed.

Lemma bucket_nat : forall n a k, a + N.of_nat n <= 22 ->
  aget (litCount d) a <= k < aget (litCount d) (a + N.of_nat n) ->
  exists L, a <= L < a + N.of_nat n /\
    aget (litCount d) L <= k < aget (litCount d) (L + 1) /\
    aget (codeList d) k < 514 /\ hc_len (aget (litAndDistHuff d) (aget (codeList d) k)) = L.
Proof.
  induction n as [|n IH]; intros a k Ha Hk.
  - replace (a + N.of_nat 0) with a in Hk by lia. lia.
  - replace (a + N.of_nat (S n)) with (a + N.of_nat n + 1) in Hk by lia.
    destruct (N.lt_ge_cases k (aget (litCount d) (a + N.of_nat n))) as [Hlt|Hge].
    + destruct (IH a k ltac:(lia) ltac:(lia)) as (L & HL & Hb & Hc).
      exists L. split; [lia|]. split; [exact Hb|exact Hc].
    + exists (a + N.of_nat n). split; [lia|]. split; [lia|].
      destruct HS as (_ & _ & _ & _ & _ & Hbk). apply Hbk; lia.
Qed.

Lemma bucket_ex : forall a b k, a <= b -> b <= 22 ->
  aget (litCount d) a <= k < aget (litCount d) b ->
  exists L, a <= L < b /\
    aget (litCount d) L <= k < aget (litCount d) (L + 1) /\
    aget (codeList d) k < 514 /\ hc_len (aget (litAndDistHuff d) (aget (codeList d) k)) = L.
Proof.
  intros a b k Hab Hb Hk.
  replace b with (a + N.of_nat (N.to_nat (b - a))) in Hk by lia.
  destruct (bucket_nat (N.to_nat (b - a)) a k ltac:(lia) Hk) as (L & HL & Hr).
  exists L. split; [lia|exact Hr].
Qed.

Lemma huff_lt : forall i, aget (litAndDistHuff d) i < 4294967296.
Proof. destruct HS as (_ & _ & _ & _ & H & _). exact H. Qed.

End Sorted.

(* ---------------------------------------------------------------- the builder, for generic entry
   predicates: P for the short table, Q for the long table *)
Section Gen.
Variable P : N -> Prop.
Variable Q : N -> Prop.
Hypothesis P_zero : P 0.
Hypothesis P_single : forall s c, s <= 512 ->
  P (u32 (N.lor (N.lor s (N.shiftl c 28)) (N.shiftl 1 26))).
Hypothesis P_pair : forall s1 s2 c, s1 < 256 -> s2 <= 512 ->
  P (u32 (N.lor (N.lor (N.lor s1 (N.shiftl s2 8)) (N.shiftl c 28)) (N.shiftl 2 26))).
Hypothesis P_triple : forall s1 s2 s3 c, s1 < 256 -> s2 < 256 -> s3 <= 511 ->
  P (u32 (N.lor (N.lor (N.lor (N.lor s1 (N.shiftl s2 8)) (N.shiftl s3 16)) (N.shiftl c 28))
                (N.shiftl 3 26))).
Hypothesis P_pointer : forall lcl maxLen, 13 <= maxLen <= 21 -> lcl + 2 ^ (maxLen - 12) <= 1264 ->
  P (u32 (N.lor (N.lor lcl (N.shiftl maxLen 26)) largeFlagBit)).
Hypothesis Q_zero : Q 0.
Hypothesis Q_entry : forall sym len, sym <= 512 -> 13 <= len <= 21 ->
  Q (u16 (N.lor sym (N.shiftl len 10))).

(* ---------------------------------------------------------------- encodeSingles *)
Lemma encodeSingles_ok : forall t d ll t' pan,
  litlen_sorted d -> ll < 22 -> all_entries P t ->
  encodeSingles t d ll = (t', pan) ->
  pan = false /\ all_entries P t'.
Proof.
  intros t d ll t' pan HS Hll Ht H. unfold encodeSingles in H.
  pose proof (lc_step d HS ll Hll) as H1.
  pose proof (lc_le_514 d HS (ll + 1) ltac:(lia)) as H2.
  destruct ((aget (litCount d) (ll + 1) <? aget (litCount d) ll) ||
            (516 <? aget (litCount d) (ll + 1))) eqn:E; [lia|].
  apply pair_equal_spec in H. destruct H as [Ht' Hp]. subst t' pan. split; [reflexivity|].
  apply forN_inv; [exact Ht|].
  intros k x _ Hx.
  destruct (maxLitLenSym <? indexToSym (aget (codeList d) k)) eqn:E2; [exact Hx|].
  apply all_entries_aset; [exact Hx|].
  apply P_single. unfold maxLitLenSym in E2. lia.
Qed.

(* the inner loop of encodePairs *)
Lemma pairs_inner_ok : forall d sym1 sym1Code sym1Len sym2Len start endi t,
  sym1 < 256 -> all_entries P t ->
  all_entries P (fst (
    forN start endi (fun k (a : arr * bool) =>
      let '(t, stop) := a in
      if stop then a
      else
        let sym2Index := aget (codeList d) k in
        let sym2 := indexToSym sym2Index in
        if maxLitLenSym <? sym2 then (t, true)
        else
          let sym2Code := hc_code (aget (litAndDistHuff d) sym2Index) in
          let code := u32 (N.lor sym1Code (shl32 sym2Code sym1Len)) in
          let codeLen := sym1Len + sym2Len in
          (aset t code (u32 (N.lor (N.lor (N.lor sym1 (N.shiftl sym2 8))
                                          (N.shiftl codeLen 28)) (N.shiftl 2 26))),
           false))
      (t, false))).
Proof.
  intros d sym1 sym1Code sym1Len sym2Len start endi t Hs1 Ht.
  apply (forN_inv _ (fun a : arr * bool => all_entries P (fst a))); [exact Ht|].
  intros k [x stop] _ Hx. cbn [fst] in Hx.
  destruct stop; [exact Hx|]. cbv zeta.
  destruct (maxLitLenSym <? indexToSym (aget (codeList d) k)) eqn:E2; [exact Hx|].
  cbn [fst]. apply all_entries_aset; [exact Hx|].
  apply P_pair; [exact Hs1|]. unfold maxLitLenSym in E2. lia.
Qed.

Lemma pairs_loop_ok : forall fuel t d ll minLen index1 t' e,
  litlen_sorted d -> 2 * minLen <= ll -> ll <= 12 ->
  aget (litCount d) minLen <= index1 -> index1 <= 514 -> 515 - index1 < N.of_nat fuel ->
  all_entries P t ->
  pairs_loop fuel t d ll index1 (aget (litCount d) (ll - minLen + 1)) = (t', e) ->
  e = ENone /\ all_entries P t'.
Proof.
  induction fuel as [|f IH]; intros t d ll minLen index1 t' e HS Hm Hll Hlo Hhi Hfuel Ht H.
  - lia.
  - cbn [pairs_loop] in H.
    destruct (index1 <? aget (litCount d) (ll - minLen + 1)) eqn:E1.
    2:{ inversion H; subst. split; [reflexivity|exact Ht]. }
    destruct (bucket_ex d HS minLen (ll - minLen + 1) index1 ltac:(lia) ltac:(lia) ltac:(lia))
      as (L & HL & Hb & Hc & Hlen).
    rewrite Hlen in H.
    pose proof (lc_le_514 d HS (L + 1) ltac:(lia)) as HL1.
    destruct (256 <=? indexToSym (aget (codeList d) index1)) eqn:E2.
    + rewrite next_index_eq in H by lia.
      apply (IH _ _ _ minLen _ _ _ HS Hm Hll) in H; [exact H|lia|lia|lia|exact Ht].
    + rewrite (sub32_le ll L) in H by lia.
      destruct (22 <=? ll - L) eqn:E3; [lia|].
      pose proof (lc_step d HS (ll - L) ltac:(lia)) as H1.
      pose proof (lc_le_514 d HS (ll - L + 1) ltac:(lia)) as H2.
      destruct ((aget (litCount d) (ll - L + 1) <? aget (litCount d) (ll - L)) ||
                (516 <? aget (litCount d) (ll - L + 1))) eqn:E4; [lia|].
      match type of H with (let '(short, _) := ?X in _) = _ =>
        pose proof (pairs_inner_ok d (indexToSym (aget (codeList d) index1))
                     (hc_code (aget (litAndDistHuff d) (aget (codeList d) index1))) L (ll - L)
                     (aget (litCount d) (ll - L)) (aget (litCount d) (ll - L + 1)) t
                     ltac:(lia) Ht) as Hin;
        destruct X as [t1 st1] eqn:EX
      end.
      cbn [fst] in Hin.
      rewrite u16_small in H by lia.
      apply (IH _ _ _ minLen _ _ _ HS Hm Hll) in H; [exact H|lia|lia|lia|exact Hin].
Qed.

Lemma encodePairs_ok : forall t d ll minLen t' e,
  litlen_sorted d -> 2 * minLen <= ll -> ll <= 12 ->
  all_entries P t ->
  encodePairs t d ll minLen = (t', e) ->
  e = ENone /\ all_entries P t'.
Proof.
  intros t d ll minLen t' e HS Hm Hll Ht H. unfold encodePairs in H.
  rewrite sub32_le in H by lia.
  pose proof (lc_le_514 d HS minLen ltac:(lia)) as H1.
  apply (pairs_loop_ok _ _ _ _ minLen _ _ _ HS Hm Hll) in H; [exact H|lia|lia| |exact Ht].
  unfold small_fuel. lia.
Qed.

(* ---------------------------------------------------------------- encodeTriples *)
Lemma triples_inner_ok : forall d sym1 sym2 sym1Code sym2Code sym1Len sym2Len sym3Len start endi t,
  sym1 < 256 -> sym2 < 256 -> all_entries P t ->
  all_entries P (fst (
    forN start endi (fun k (a : arr * bool) =>
      let '(t, stop) := a in
      if stop then a
      else
        let sym3Index := aget (codeList d) k in
        let sym3 := indexToSym sym3Index in
        let sym3Code := hc_code (aget (litAndDistHuff d) sym3Index) in
        if maxLitLenSym - 1 <? sym3 then (t, true)
        else
          let code := u32 (N.lor (N.lor sym1Code (shl32 sym2Code sym1Len))
                                 (shl32 sym3Code (sym2Len + sym1Len))) in
          let codeLen := sym1Len + sym2Len + sym3Len in
          (aset t code
                (u32 (N.lor (N.lor (N.lor (N.lor sym1 (N.shiftl sym2 8)) (N.shiftl sym3 16))
                                   (N.shiftl codeLen 28)) (N.shiftl 3 26))),
           false))
      (t, false))).
Proof.
  intros d sym1 sym2 sym1Code sym2Code sym1Len sym2Len sym3Len start endi t Hs1 Hs2 Ht.
  apply (forN_inv _ (fun a : arr * bool => all_entries P (fst a))); [exact Ht|].
  intros k [x stop] _ Hx. cbn [fst] in Hx.
  destruct stop; [exact Hx|]. cbv zeta.
  destruct (maxLitLenSym - 1 <? indexToSym (aget (codeList d) k)) eqn:E2; [exact Hx|].
  cbn [fst]. apply all_entries_aset; [exact Hx|].
  apply P_triple; [exact Hs1|exact Hs2|]. unfold maxLitLenSym in E2. lia.
Qed.

Lemma triples_loop2_ok : forall fuel t d ll minLen sym1 sym1Len sym1Code index2 t' e,
  litlen_sorted d -> sym1 < 256 -> minLen <= sym1Len -> sym1Len + 2 * minLen <= ll -> ll <= 12 ->
  aget (litCount d) minLen <= index2 -> index2 <= 514 -> 515 - index2 < N.of_nat fuel ->
  all_entries P t ->
  triples_loop2 fuel t d ll sym1 sym1Len sym1Code index2
                (aget (litCount d) (ll - sym1Len - minLen + 1)) = (t', e) ->
  e = ENone /\ all_entries P t'.
Proof.
  induction fuel as [|f IH];
    intros t d ll minLen sym1 sym1Len sym1Code index2 t' e HS Hs1 Hm1 Hm Hll Hlo Hhi Hfuel Ht H.
  - lia.
  - cbn [triples_loop2] in H.
    destruct (index2 <? aget (litCount d) (ll - sym1Len - minLen + 1)) eqn:E1.
    2:{ inversion H; subst. split; [reflexivity|exact Ht]. }
    destruct (bucket_ex d HS minLen (ll - sym1Len - minLen + 1) index2
                ltac:(lia) ltac:(lia) ltac:(lia)) as (L & HL & Hb & Hc & Hlen).
    rewrite Hlen in H.
    pose proof (lc_le_514 d HS (L + 1) ltac:(lia)) as HL1.
    destruct (256 <=? indexToSym (aget (codeList d) index2)) eqn:E2.
    + rewrite next_index_eq in H by lia.
      apply (IH _ _ _ minLen _ _ _ _ _ _ HS Hs1 Hm1 Hm Hll) in H; [exact H|lia|lia|lia|exact Ht].
    + rewrite (sub32_le ll sym1Len) in H by lia.
      rewrite (sub32_le (ll - sym1Len) L) in H by lia.
      destruct (22 <=? ll - sym1Len - L) eqn:E3; [lia|].
      match type of H with (let '(short, _) := ?X in _) = _ =>
        pose proof (triples_inner_ok d sym1 (indexToSym (aget (codeList d) index2)) sym1Code
                     (hc_code (aget (litAndDistHuff d) (aget (codeList d) index2)))
                     sym1Len L (ll - sym1Len - L)
                     (aget (litCount d) (ll - sym1Len - L))
                     (aget (litCount d) (ll - sym1Len - L + 1)) t
                     Hs1 ltac:(lia) Ht) as Hin;
        destruct X as [t1 st1] eqn:EX
      end.
      cbn [fst] in Hin.
      rewrite u16_small in H by lia.
      apply (IH _ _ _ minLen _ _ _ _ _ _ HS Hs1 Hm1 Hm Hll) in H; [exact H|lia|lia|lia|exact Hin].
Qed.

Lemma triples_loop1_ok : forall fuel t d ll minLen index1 t' e,
  litlen_sorted d -> 3 * minLen <= ll -> ll <= 12 ->
  aget (litCount d) minLen <= index1 -> index1 <= 514 -> 515 - index1 < N.of_nat fuel ->
  all_entries P t ->
  triples_loop1 fuel t d ll minLen index1 (aget (litCount d) (ll - 2 * minLen + 1)) = (t', e) ->
  e = ENone /\ all_entries P t'.
Proof.
  induction fuel as [|f IH]; intros t d ll minLen index1 t' e HS Hm Hll Hlo Hhi Hfuel Ht H.
  - lia.
  - cbn [triples_loop1] in H.
    destruct (index1 <? aget (litCount d) (ll - 2 * minLen + 1)) eqn:E1.
    2:{ inversion H; subst. split; [reflexivity|exact Ht]. }
    destruct (bucket_ex d HS minLen (ll - 2 * minLen + 1) index1 ltac:(lia) ltac:(lia) ltac:(lia))
      as (L & HL & Hb & Hc & Hlen).
    rewrite Hlen in H.
    pose proof (lc_le_514 d HS (L + 1) ltac:(lia)) as HL1.
    destruct (256 <=? indexToSym (aget (codeList d) index1)) eqn:E2.
    + rewrite next_index_eq in H by lia.
      apply (IH _ _ _ minLen _ _ _ HS Hm Hll) in H; [exact H|lia|lia|lia|exact Ht].
    + rewrite (sub32_le ll L) in H by lia.
      destruct (ll - L <? 2 * minLen) eqn:E3.
      { inversion H; subst. split; [reflexivity|exact Ht]. }
      rewrite (sub32_le (ll - L) minLen) in H by lia.
      destruct (23 <=? ll - L - minLen + 1) eqn:E4; [lia|].
      destruct (triples_loop2 small_fuel t d ll (indexToSym (aget (codeList d) index1)) L
                  (hc_code (aget (litAndDistHuff d) (aget (codeList d) index1)))
                  (aget (litCount d) minLen) (aget (litCount d) (ll - L - minLen + 1)))
        as [t1 e1] eqn:EL2.
      pose proof (lc_le_514 d HS minLen ltac:(lia)) as Hml.
      apply (triples_loop2_ok _ _ _ _ minLen _ _ _ _ _ _ HS) in EL2;
        [|lia|lia|lia|lia|lia|lia|unfold small_fuel; lia|exact Ht].
      destruct EL2 as [He1 Ht1]. subst e1.
      rewrite u16_small in H by lia.
      apply (IH _ _ _ minLen _ _ _ HS Hm Hll) in H; [exact H|lia|lia|lia|exact Ht1].
Qed.

Lemma encodeTriples_ok : forall t d ll minLen t' e,
  litlen_sorted d -> 3 * minLen <= ll -> ll <= 12 ->
  all_entries P t ->
  encodeTriples t d ll minLen = (t', e) ->
  e = ENone /\ all_entries P t'.
Proof.
  intros t d ll minLen t' e HS Hm Hll Ht H. unfold encodeTriples in H.
  rewrite sub32_le in H by lia.
  pose proof (lc_le_514 d HS minLen ltac:(lia)) as H1.
  apply (triples_loop1_ok _ _ _ _ minLen _ _ _ HS Hm Hll) in H; [exact H|lia|lia| |exact Ht].
  unfold small_fuel. lia.
Qed.
