(* EngineRefineStored.v -- stored blocks: prepareForLitBlock and decodeLiteralBlock of
   RModel/Engine.v against the reference (align / take 16 / stored of Spec/Inflate.v).
   Statements in RModel/EngineRefineSpecBlock.v. *)
From Coq Require Import List NArith ZArith Bool Lia ZifyBool ZifyNat ZifyN.
From Verif Require Import Bits Huffman Inflate InflateSpec InflateMono.
From Verif Require Import Base EngineTables Engine EngineRefineSpec EngineRefineBits EngineRefineSpecBlock.
Import ListNotations.
Open Scope N_scope.

Ltac Zify.zify_post_hook ::= Z.div_mod_to_equations.

(* ---------------------------------------------------------------- arrays *)
Lemma st_succ_pos_inj : forall i j, N.succ_pos i = N.succ_pos j -> i = j.
Proof.
  intros i j H. apply N.succ_inj. rewrite <- !N.succ_pos_spec. now rewrite H.
Qed.

Lemma st_aget_aset : forall a i v j, aget (aset a i v) j = if j =? i then v else aget a j.
Proof.
  intros a i v j. unfold aget, aset. destruct (N.eqb_spec j i) as [Heq|Hne].
  - subst j. now rewrite PositiveMap.gss.
  - rewrite PositiveMap.gso; auto. intro H; apply Hne, st_succ_pos_inj, H.
Qed.

Lemma st_aget_aset_same : forall a i v, aget (aset a i v) i = v.
Proof. intros. rewrite st_aget_aset, N.eqb_refl. reflexivity. Qed.

Lemma st_aget_aset_other : forall a i v j, j <> i -> aget (aset a i v) j = aget a j.
Proof. intros a i v j H. rewrite st_aget_aset. destruct (N.eqb_spec j i); [contradiction|reflexivity]. Qed.

(* ---------------------------------------------------------------- small facts *)
Lemma land_255_mod : forall x, N.land x 255 = x mod 256.
Proof. intros x. change 255 with (N.ones 8). rewrite N.land_ones. reflexivity. Qed.

Lemma land_ffff_mod : forall x, N.land x 65535 = x mod 65536.
Proof. intros x. change 65535 with (N.ones 16). rewrite N.land_ones. reflexivity. Qed.

Lemma same_static_refl : forall s, same_static s s.
Proof. intros s. unfold same_static. repeat split. Qed.

Lemma same_static_set_rd : forall s s' b, same_static s s' -> same_static s (set_rd s' b).
Proof. intros s s' b H. unfold same_static in *. cbn [set_rd inputNil tb bfinal headerBuffered headerBuffer dyn roffset]. exact H. Qed.

Lemma same_static_set_phase : forall s s' v, same_static s s' -> same_static s (set_phase s' v).
Proof. intros s s' b H. unfold same_static in *. cbn [set_phase inputNil tb bfinal headerBuffered headerBuffer dyn roffset]. exact H. Qed.

Lemma same_static_set_lbl : forall s s' v, same_static s s' -> same_static s (set_litBlockLength s' v).
Proof. intros s s' b H. unfold same_static in *. cbn [set_litBlockLength inputNil tb bfinal headerBuffered headerBuffer dyn roffset]. exact H. Qed.

Lemma skipn_app_le : forall (A : Type) k (l e : list A), (k <= length l)%nat ->
  skipn k (l ++ e) = skipn k l ++ e.
Proof.
  intros A k l e H. rewrite skipn_app. replace (k - length l)%nat with 0%nat by lia. reflexivity.
Qed.

(* ---------------------------------------------------------------- masking the stale bits *)
Lemma bits_of_N_land_ones : forall n v,
  bits_of_N n (N.land v (N.ones (N.of_nat n))) = bits_of_N n v.
Proof.
  intros n v. apply (nth_ext _ _ false false).
  - rewrite !bits_of_N_length. reflexivity.
  - intros i Hi. rewrite bits_of_N_length in Hi. rewrite !nth_bits_of_N by lia.
    rewrite N.land_spec, N.ones_spec_low by lia. apply andb_true_r.
Qed.

Lemma br_mask : forall b m, br_wf b -> (0 <= r_len b)%Z -> Z.of_N m = r_len b ->
  let b' := mkBR (N.land (r_bits b) (N.ones m)) (r_len b) (r_in b) (r_inlen b) in
  br_wf b' /\ br_bits b' = br_bits b.
Proof.
  intros b m (W1 & W2 & W3 & W4 & W5) H0 Hm b'.
  assert (Hbits : br_bits b' = br_bits b).
  { unfold br_bits, b'. cbn [r_len r_bits r_in]. f_equal.
    replace m with (N.of_nat (Z.to_nat (r_len b))) by lia. apply bits_of_N_land_ones. }
  split; [|exact Hbits].
  unfold br_wf. rewrite Hbits. unfold b'; cbn [r_len r_bits r_in r_inlen].
  split; [exact W1|]. split; [exact W2|]. split; [exact W3|]. split; [exact W4|].
  intros i Hi. rewrite N.land_spec in Hi. apply andb_true_iff in Hi. apply W5. exact (proj1 Hi).
Qed.

(* ---------------------------------------------------------------- the window *)
Lemma win_rel_push : forall out w st x,
  win_rel out w st -> win_rel (aset out w x) (w + 1) (push x st).
Proof.
  intros out w st x (A & B & C & D & E).
  unfold win_rel, push. cbn [oavail olen rout length].
  split; [lia|]. split; [lia|]. split; [lia|]. split; [lia|].
  intros i Hi. destruct (N.eq_dec i 0) as [->|Hne].
  - replace (w + 1 - 1 - 0) with w by lia. rewrite st_aget_aset_same. reflexivity.
  - rewrite st_aget_aset_other by lia.
    replace (w + 1 - 1 - i) with (w - 1 - (i - 1)) by lia. rewrite E by lia.
    replace (N.to_nat i) with (S (N.to_nat (i - 1))) by lia. reflexivity.
Qed.

(* ---------------------------------------------------------------- bytes from the input list *)
Lemma take8_byte : forall x r p, x < 256 ->
  take 8 (mkbs (bits_of_N 8 x ++ r) p) = Some (x, mkbs r (p + 8)).
Proof.
  intros x r p Hx.
  rewrite take_firstn by (rewrite bits_of_N_length; lia).
  rewrite firstn_all2 by (rewrite bits_of_N_length; lia).
  rewrite skipn_all2 by (rewrite bits_of_N_length; lia).
  rewrite N_of_bits_of_N by (change (2 ^ N.of_nat 8) with 256; exact Hx).
  reflexivity.
Qed.

Lemma copy_list_ok : forall n l out pos st e p,
  Forall (fun x => x < 256) l -> (n <= length l)%nat -> win_rel out pos st ->
  exists out' st' p',
    copy_list l n out pos = (out', skipn n l) /\
    stored n st (mkbs (bits_of_bytes l ++ e) p)
    = (st', mkbs (bits_of_bytes (skipn n l) ++ e) p', true) /\
    win_rel out' (pos + N.of_nat n) st'.
Proof.
  induction n as [|n IH]; intros l out pos st e p Hf Hn Hw.
  - exists out, st, p. cbn [stored skipn]. rewrite N.add_0_r.
    split; [destruct l; reflexivity|]. split; [reflexivity|exact Hw].
  - destruct l as [|x r]; [cbn [length] in Hn; lia|].
    inversion Hf as [|x' r' Hx Hr]; subst x' r'.
    cbn [length] in Hn.
    destruct (IH r (aset out pos x) (pos + 1) (push x st) e (p + 8) Hr ltac:(lia)
                 (win_rel_push out pos st x Hw)) as (out' & st' & p' & C1 & C2 & C3).
    exists out', st', p'.
    cbn [copy_list skipn]. split; [exact C1|]. split.
    + cbn [stored]. rewrite bits_of_bytes_cons, <- app_assoc, take8_byte by exact Hx. exact C2.
    + replace (pos + N.of_nat (S n)) with (pos + 1 + N.of_nat n) by lia. exact C3.
Qed.

(* ---------------------------------------------------------------- bytes from the bit buffer *)
Lemma lit_drain_ok : forall fuel b out wr count len st e p,
  br_wf b -> (0 <= r_len b)%Z -> (r_len b mod 8 = 0)%Z -> (r_len b < 8 * Z.of_nat fuel)%Z ->
  win_rel out wr st -> count <= len -> ((r_len b <> 0)%Z -> count < len) ->
  exists b' out' count' fl st' p',
    lit_drain fuel b out wr count len = Some (b', out', wr + (count' - count), count', fl) /\
    count <= count' /\ count' <= len /\
    stored (N.to_nat (count' - count)) st (mkbs (br_bits b ++ e) p)
    = (st', mkbs (br_bits b' ++ e) p', true) /\
    win_rel out' (wr + (count' - count)) st' /\
    br_wf b' /\ (0 <= r_len b')%Z /\ (r_len b' mod 8 = 0)%Z /\
    r_len b' = (r_len b - 8 * Z.of_N (count' - count))%Z /\
    r_in b' = r_in b /\ r_inlen b' = r_inlen b /\
    (fl = true -> count' = len) /\ (fl = false -> r_len b' = 0%Z).
Proof.
  induction fuel as [|f IH]; intros b out wr count len st e p Hwf H0 H8 Hfu Hw Hcl Hlt.
  - lia.
  - cbn [lit_drain]. destruct (r_len b =? 0)%Z eqn:Ez.
    + exists b, out, count, false, st, p.
      rewrite N.sub_diag, N.add_0_r. change (N.to_nat 0) with 0%nat. cbn [stored].
      split; [reflexivity|]. split; [lia|]. split; [exact Hcl|]. split; [reflexivity|].
      split; [exact Hw|]. split; [exact Hwf|]. split; [exact H0|]. split; [exact H8|].
      split; [lia|]. split; [reflexivity|]. split; [reflexivity|].
      split; [discriminate|]. intros _. lia.
    + assert (Hge : (8 <= r_len b)%Z) by lia.
      pose proof (next_bits_take b 8 e p Hwf ltac:(lia)) as T.
      unfold next_bits in T. destruct T as [Hwf1 T].
      change (N.ones 8) with 255 in T. change (N.to_nat 8) with 8%nat in T.
      assert (Hl1 : r_len (br_drop b 8) = (r_len b - 8)%Z) by reflexivity.
      assert (Hi1 : r_in (br_drop b 8) = r_in b) by reflexivity.
      assert (Hn1 : r_inlen (br_drop b 8) = r_inlen b) by reflexivity.
      set (v := N.land (r_bits b) 255) in *.
      set (b1 := br_drop b 8) in *.
      pose proof (win_rel_push out wr st v Hw) as Hw1.
      destruct (count + 1 =? len) eqn:Ec.
      * exists b1, (aset out wr v), (count + 1), true, (push v st), (p + 8).
        replace (count + 1 - count) with 1 by lia. change (N.to_nat 1) with 1%nat.
        cbn [stored]. rewrite T.
        split; [reflexivity|]. split; [lia|]. split; [lia|]. split; [reflexivity|].
        split; [exact Hw1|]. split; [exact Hwf1|]. split; [lia|]. split; [lia|].
        split; [lia|]. split; [exact Hi1|]. split; [exact Hn1|].
        split; [intros _; lia|discriminate].
      * destruct (IH b1 (aset out wr v) (wr + 1) (count + 1) len (push v st) e (p + 8)
                     Hwf1 ltac:(lia) ltac:(lia) ltac:(lia) Hw1 ltac:(lia) ltac:(lia))
          as (b' & out' & count' & fl & st' & p' & I1 & I2 & I3 & I4 & I5 & I6 & I7 & I8 & I9 & I10 & I11 & I12 & I13).
        exists b', out', count', fl, st', p'.
        replace (wr + 1 + (count' - (count + 1))) with (wr + (count' - count)) in I1, I5 by lia.
        split; [exact I1|]. split; [lia|]. split; [exact I3|].
        split.
        { replace (N.to_nat (count' - count)) with (S (N.to_nat (count' - (count + 1)))) by lia.
          cbn [stored]. rewrite T. exact I4. }
        split; [exact I5|]. split; [exact I6|]. split; [exact I7|]. split; [exact I8|].
        split; [lia|]. split; [congruence|]. split; [congruence|].
        split; [exact I12|exact I13].
Qed.

(* ---------------------------------------------------------------- decodeLiteralBlock in pieces *)
Lemma stored_app : forall a b st s st1 s1,
  stored a st s = (st1, s1, true) -> stored (a + b) st s = stored b st1 s1.
Proof.
  induction a as [|a IH]; intros b st s st1 s1 H.
  - cbn [stored] in H. inversion H; subst. reflexivity.
  - cbn [stored Nat.add] in *. destruct (take 8 s) as [[x s2]|]; [|discriminate].
    apply IH. exact H.
Qed.

(* the end of decodeLiteralBlock: drain the bit buffer, then copy from the input *)
Definition dlb_fin (s : inflate) (err : ierr) (out : arr) (written length : N) (b : bitrd)
  : inflate * arr * N * ierr :=
  match lit_drain 16 b out written 0 length with
  | None => (s, out, written, EFuel)
  | Some (b, out, written, count, true) => (set_rd s b, out, written, err)
  | Some (b, out, written, count, false) =>
    let n := length - count in
    let '(out, inrest) := copy_list (r_in b) (N.to_nat n) out written in
    let num := N.min n (r_inlen b) in
    (set_rd s (mkBR 0 (r_len b) inrest (r_inlen b - num)), out, written + num, err)
  end.

(* from the test of bitsLen on *)
Definition dlb_tail (s : inflate) (out : arr) (written length : N) (err : ierr)
  : inflate * arr * N * ierr :=
  let b := rd s in
  if (r_len b <? 0)%Z then (s, out, written, EPanic)
  else
    let avail := Z.to_N (r_len b) / 8 + r_inlen b in
    let '(length, s, err) :=
      if avail <? length then (avail, set_phase s phaseLitBlock, EEndInput)
      else (length, s, err) in
    dlb_fin (set_litBlockLength s (litBlockLength s - length)) err out written length b.

Lemma dlb_unfold : forall s out written,
  decodeLiteralBlock s out written =
  let s := set_phase s (if negb (bfinal s =? 0) then phaseStreamEnd else phaseNewBlock) in
  if litBlockLength s =? 0 then (s, out, written, ENone)
  else
    let length := litBlockLength s in
    let rest := outLen - written in
    let '(length, s, err) :=
      if rest <? length then (rest, set_phase s phaseLitBlock, EOutputOverflow)
      else (length, s, ENone) in
    if (ierr_eqb err EOutputOverflow) && (rest =? 0) then (s, out, written, err)
    else dlb_tail s out written length err.
Proof. intros. reflexivity. Qed.

Lemma Forall_skipn : forall (A : Type) (P : A -> Prop) n (l : list A), Forall P l -> Forall P (skipn n l).
Proof.
  intros A P n l H. rewrite <- (firstn_skipn n l) in H. apply Forall_app in H. exact (proj2 H).
Qed.

Lemma dlb_fin_ok : forall s2 err0 b out w st e p len,
  br_wf b -> (0 <= r_len b)%Z -> (r_len b mod 8 = 0)%Z -> win_rel out w st ->
  len <= Z.to_N (r_len b) / 8 + r_inlen b -> ((r_len b <> 0)%Z -> 0 < len) ->
  exists b' out' st' p',
    dlb_fin s2 err0 out w len b = (set_rd s2 b', out', w + len, err0) /\
    stored (N.to_nat len) st (mkbs (br_bits b ++ e) p) = (st', mkbs (br_bits b' ++ e) p', true) /\
    win_rel out' (w + len) st' /\ br_wf b' /\ (0 <= r_len b')%Z /\ (r_len b' mod 8 = 0)%Z /\
    (len = Z.to_N (r_len b) / 8 + r_inlen b -> r_in b' = [] /\ r_len b' = 0%Z).
Proof.
  intros s2 err0 b out w st e p len Hwf H0 H8 Hw.
  set (q := Z.to_N (r_len b)).
  assert (Hq : Z.of_N q = r_len b) by (unfold q; lia).
  clearbody q. intros Hav Hpos.
  pose proof Hwf as (W1 & W2 & W3 & W4 & W5).
  destruct (lit_drain_ok 16 b out w 0 len st e p Hwf H0 H8 ltac:(lia) Hw ltac:(lia) Hpos)
    as (b1 & out1 & c & fl & st1 & p1 & I1 & I2 & I3 & I4 & I5 & I6 & I7 & I8 & I9 & I10 & I11 & I12 & I13).
  rewrite N.sub_0_r in I1, I4, I5, I9.
  unfold dlb_fin. rewrite I1. destruct fl.
  - specialize (I12 eq_refl). subst c. cbv beta iota.
    exists b1, out1, st1, p1.
    split; [reflexivity|]. split; [exact I4|]. split; [exact I5|]. split; [exact I6|].
    split; [exact I7|]. split; [exact I8|].
    intros Hl. assert (Hz : r_inlen b = 0) by (clear - H0 H8 Hq I7 I9 Hl; lia).
    split; [|lia]. rewrite I10. apply length_zero_iff_nil. lia.
  - specialize (I13 eq_refl).
    assert (Hn : (N.to_nat (len - c) <= length (r_in b1))%nat) by (rewrite I10; lia).
    destruct (copy_list_ok (N.to_nat (len - c)) (r_in b1) out1 (w + c) st1 e p1
                ltac:(rewrite I10; exact W4) Hn I5) as (out2 & st2 & p2 & C1 & C2 & C3).
    cbv zeta. rewrite C1. cbv beta iota.
    rewrite N.min_l by lia.
    rewrite N2Nat.id in C3.
    replace (w + c + (len - c)) with (w + len) in * by lia.
    set (b2 := mkBR 0 (r_len b1) (skipn (N.to_nat (len - c)) (r_in b1)) (r_inlen b1 - (len - c))).
    assert (Hb1 : br_bits b1 = bits_of_bytes (r_in b1)).
    { unfold br_bits. rewrite I13. reflexivity. }
    assert (Hb2 : br_bits b2 = bits_of_bytes (skipn (N.to_nat (len - c)) (r_in b1))).
    { unfold br_bits, b2. cbn [r_len r_bits r_in]. rewrite I13. reflexivity. }
    exists b2, out2, st2, p2.
    split; [reflexivity|].
    split.
    { replace (N.to_nat len) with (N.to_nat c + N.to_nat (len - c))%nat by lia.
      rewrite (stored_app _ _ _ _ _ _ I4). rewrite Hb1, Hb2. exact C2. }
    split; [exact C3|].
    split.
    { unfold br_wf. rewrite Hb2. unfold b2. cbn [r_len r_bits r_in r_inlen].
      split; [rewrite skipn_length, I10, I11; lia|]. split; [lia|]. split; [intros; lia|].
      split; [apply Forall_skipn; rewrite I10; exact W4|].
      intros i Hi. rewrite N.bits_0 in Hi. discriminate. }
    split; [unfold b2; cbn [r_len]; lia|]. split; [unfold b2; cbn [r_len]; lia|].
    intros Hl. unfold b2; cbn [r_len r_in]. split; [|exact I13].
    apply length_zero_iff_nil. rewrite skipn_length, I10. lia.
Qed.

(* decodeLiteralBlock from the bitsLen test on, for a requested length >= 1 *)
Lemma dlb_tail_ok : forall s0 out w st e p len err,
  br_wf (rd s0) -> (0 <= r_len (rd s0))%Z -> (r_len (rd s0) mod 8 = 0)%Z ->
  win_rel out w st -> 0 < len ->
  let '(s', out', w', err') := dlb_tail s0 out w len err in
  exists k st' p',
    k <= len /\ litBlockLength s' = litBlockLength s0 - k /\ w' = w + k /\
    stored (N.to_nat k) st (mkbs (br_bits (rd s0) ++ e) p)
    = (st', mkbs (br_bits (rd s') ++ e) p', true) /\
    win_rel out' w' st' /\ same_static s0 s' /\ ov s' = ov s0 /\
    br_wf (rd s') /\ (0 <= r_len (rd s'))%Z /\ (r_len (rd s') mod 8 = 0)%Z /\
    ((err' = err /\ k = len /\ phase s' = phase s0) \/
     (err' = EEndInput /\ phase s' = phaseLitBlock /\ r_in (rd s') = [] /\ r_len (rd s') = 0%Z)).
Proof.
  intros s0 out w st e p len err Hwf H0 H8 Hw Hpos.
  unfold dlb_tail. cbv zeta.
  destruct (r_len (rd s0) <? 0)%Z eqn:En; [lia|].
  set (q := Z.to_N (r_len (rd s0))).
  assert (Hq : Z.of_N q = r_len (rd s0)) by (unfold q; lia).
  set (avail := q / 8 + r_inlen (rd s0)).
  destruct (avail <? len) eqn:Ea; cbv beta iota.
  - destruct (dlb_fin_ok (set_litBlockLength (set_phase s0 phaseLitBlock)
                            (litBlockLength (set_phase s0 phaseLitBlock) - avail))
                         EEndInput (rd s0) out w st e p avail Hwf H0 H8 Hw
                         ltac:(unfold avail; lia) ltac:(unfold avail; lia))
      as (b' & out' & st' & p' & F1 & F2 & F3 & F4 & F5 & F6 & F7).
    rewrite F1.
    exists avail, st', p'.
    cbn [rd set_rd set_litBlockLength set_phase litBlockLength phase ov].
    split; [lia|]. split; [reflexivity|]. split; [reflexivity|]. split; [exact F2|].
    split; [exact F3|].
    split; [apply same_static_set_rd, same_static_set_lbl, same_static_set_phase, same_static_refl|].
    split; [reflexivity|]. split; [exact F4|]. split; [exact F5|]. split; [exact F6|].
    right. split; [reflexivity|]. split; [reflexivity|]. apply F7. reflexivity.
  - destruct (dlb_fin_ok (set_litBlockLength s0 (litBlockLength s0 - len))
                         err (rd s0) out w st e p len Hwf H0 H8 Hw
                         ltac:(unfold avail in Ea; lia) ltac:(lia))
      as (b' & out' & st' & p' & F1 & F2 & F3 & F4 & F5 & F6 & F7).
    rewrite F1.
    exists len, st', p'.
    cbn [rd set_rd set_litBlockLength set_phase litBlockLength phase ov].
    split; [lia|]. split; [reflexivity|]. split; [reflexivity|]. split; [exact F2|].
    split; [exact F3|].
    split; [apply same_static_set_rd, same_static_set_lbl, same_static_refl|].
    split; [reflexivity|]. split; [exact F4|]. split; [exact F5|]. split; [exact F6|].
    left. split; [reflexivity|]. split; reflexivity.
Qed.
