(* EngineCompleteTop3.v -- step over st_sim3 (exact end-of-input facts): same walk as
   proofs/EngineCompleteTop.v, with the end facts carried to the results of step. *)
From Coq Require Import List NArith ZArith Bool Lia ZifyBool ZifyNat ZifyN Relations.
From Verif Require Import Bits Huffman Inflate InflateSpec InflateMono.
From Verif Require Import Base EngineTables Engine EngineRefineSpec EngineRefineSpecBlock
     EngineRefineSpecHdr EngineRefineSpecReach EngineRefineSpecBuf EngineRefineSpecNeed
     EngineRefineSpecBlock2 EngineRefineSpecBlock3 EngineRefineSpecTop EngineRefineSpecFinal
     EngineCompleteSpecA EngineCompleteSpecB EngineCompleteSpecReach EngineCompleteSpecC
     EngineCompleteSpecD EngineCompleteSpecE EngineCompleteSpecF
     EngineRefineBits EngineRefineTopBase EngineRefineTop EngineCompleteTop.
Import ListNotations.
Open Scope N_scope.

(* dec_inv over st_sim3 *)
Definition dec_invT (data : list N) (delivered : list N) (f : decompressor) : Prop :=
  buf_ok (rBuf f) /\
  (exists D, data = D ++ bstream (rBuf f) /\ consumed (rBuf f) = N.of_nat (length D)) /\
  readPos f <= writePos f /\ writePos f <= outLen + 261 /\
  phase (state f) <> phaseFinish /\
  exists c u,
    reach data c /\ st_sim3 (state f) c (bits_of_bytes u) /\
    win_rel (hist f) (writePos f) (cfg_st c) /\
    delivered ++ pending_out f = frev (rout (cfg_st c)) /\
    (if inputNil (state f)
     then r_in (rd (state f)) = [] /\ r_inlen (rd (state f)) = 0 /\
          u = skipn (Z.to_nat (Z.quot (r_len (rd (state f))) 8)) (bstream (rBuf f))
     else u = skipn (N.to_nat (peekSize f)) (bstream (rBuf f)) /\
          blen (rBuf f) = peekSize f /\ qbytes (state f) <= peekSize f /\
          headerBuffer (state f) = [] /\ headerBuffered (state f) = 0).

(* ---------------------------------------------------------------- st_sim3 through the small steps *)
Lemma st_sim3_2 : forall s c e, st_sim3 s c e -> st_sim2 s c e.
Proof. intros s c e [H _]. exact H. Qed.
Lemma st_sim3_rlen : forall s c e, st_sim3 s c e -> (0 <= r_len (rd s))%Z.
Proof. intros s c e H. exact (st_sim2_rlen _ _ _ (st_sim3_2 _ _ _ H)). Qed.
Lemma st_sim3_rlen64 : forall s c e, st_sim3 s c e -> (r_len (rd s) <= 64)%Z.
Proof. intros s c e H. exact (st_sim2_rlen64 _ _ _ (st_sim3_2 _ _ _ H)). Qed.
Lemma st_sim3_phase4 : forall s c e, st_sim3 s c e -> phase s <= 4.
Proof. intros s c e H. exact (st_sim2_phase4 _ _ _ (st_sim3_2 _ _ _ H)). Qed.
Lemma st_sim3_roffset : forall s v c e, st_sim3 (set_roffset s v) c e = st_sim3 s c e.
Proof. intros s v c e. unfold st_sim3. rewrite st_sim2_roffset. destruct s, c; reflexivity. Qed.
Lemma st_sim3_inputNil : forall s v c e, st_sim3 (set_inputNil s v) c e = st_sim3 s c e.
Proof. intros s v c e. unfold st_sim3. rewrite st_sim2_inputNil. destruct s, c; reflexivity. Qed.
Lemma st_sim3_attach : forall s c newin u',
  st_sim3 s c (bits_of_bytes (newin ++ u')) -> r_in (rd s) = [] -> r_inlen (rd s) = 0 ->
  Forall (fun x => x < 256) newin ->
  st_sim3 (set_inputNil (set_rd s (br_set_in (rd s) newin (N.of_nat (length newin)))) false) c
          (bits_of_bytes u').
Proof.
  intros s c newin u' [H1 H2] Hin Hil Hf. split; [apply st_sim2_attach; assumption|].
  destruct c; try exact I. destruct s. exact H2.
Qed.
Lemma st_sim3_rin_nil : forall s c e, st_sim3 s c e -> r_inlen (rd s) = 0 -> r_in (rd s) = [].
Proof. intros s c e H. exact (st_sim2_rin_nil _ _ _ (st_sim3_2 _ _ _ H)). Qed.
Lemma st_sim3_detach : forall s c e, st_sim3 s c e -> r_inlen (rd s) = 0 -> st_sim3 (detach s) c e.
Proof.
  intros s c e [H1 H2] Hil. split; [apply st_sim2_detach; assumption|].
  destruct c; try exact I. destruct s. exact H2.
Qed.
Lemma st_sim3_hdr_nil : forall s c e, st_sim3 s c e ->
  phase s <> phaseDecodingHeader -> phase s <> phaseStreamEnd ->
  headerBuffer s = [] /\ headerBuffered s = 0.
Proof. intros s c e H. exact (st_sim2_hdr_nil _ _ _ (st_sim3_2 _ _ _ H)). Qed.
Lemma st_sim3_done : forall s c e, st_sim3 s c e -> phase s = phaseStreamEnd ->
  exists st S0, c = CDone st S0 /\ br_wf (rd s) /\ bl S0 = br_bits (rd s) ++ e.
Proof. intros s c e H. exact (st_sim2_done _ _ _ (st_sim3_2 _ _ _ H)). Qed.

(* the invariant with the input attached (inside step: the staged header bytes may still be
   there) *)
Definition att_invT (data delivered : list N) (f : decompressor) : Prop :=
  buf_ok (rBuf f) /\
  (exists D, data = D ++ bstream (rBuf f) /\ consumed (rBuf f) = N.of_nat (length D)) /\
  readPos f <= writePos f /\ writePos f <= outLen + 261 /\
  phase (state f) <> phaseFinish /\ inputNil (state f) = false /\
  exists c u,
    reach data c /\ st_sim3 (state f) c (bits_of_bytes u) /\
    win_rel (hist f) (writePos f) (cfg_st c) /\
    delivered ++ pending_out f = frev (rout (cfg_st c)) /\
    u = skipn (N.to_nat (peekSize f)) (bstream (rBuf f)) /\
    blen (rBuf f) = peekSize f /\ qbytes (state f) <= peekSize f.

Lemma att_invT_out_ok : forall data delivered f, att_invT data delivered f -> out_ok data delivered f.
Proof.
  intros data delivered f (_ & _ & H3 & _ & _ & _ & c & u & Hr & _ & _ & Hd & _).
  exists c. split; [exact Hr|]. split; [exact Hd|exact H3].
Qed.


Lemma dec_invT_out_ok : forall data delivered f, dec_invT data delivered f -> out_ok data delivered f.
Proof.
  intros data delivered f (_ & _ & H3 & _ & _ & c & u & Hr & _ & _ & Hd & _).
  exists c. split; [exact Hr|]. split; [exact Hd|exact H3].
Qed.

(* st_sim3 gives a non-negative bit count and a phase in 0..4 *)

(* the state after attaching the buffered bytes *)
Lemma attach_finalT : forall data delivered f rb eo,
  Forall (fun x => x < 256) data ->
  dec_invT data delivered f -> inputNil (state f) = true ->
  buf_ok rb -> bstream rb = bstream (rBuf f) -> consumed rb = consumed (rBuf f) ->
  let held := Z.to_N (Z.quot (r_len (rd (state f))) 8) in
  held <= blen rb ->
  att_invT data delivered
    (mkD (set_inputNil (set_rd (state f) (br_set_in (rd (state f)) (skipn (N.to_nat held) (bbuf rb))
                                                      (blen rb - held))) false)
         (writePos f) (readPos f) (hist f) rb (derr f) (blen rb) eo (haveBits f)).
Proof.
  intros data delivered f rb eo Hdata Hinv Hnil P2 P3 P4 held Eh.
  destruct Hinv as (Hbuf & (D & HD & HDc) & Hrp & Hwp & Hph & c & u & Hreach & Hsim & Hwin & Hdel & Hu).
  rewrite Hnil in Hu. destruct Hu as (Hin & Hil & Hu).
  pose proof (st_sim3_rlen _ _ _ Hsim) as H0.
  assert (Hlen : N.of_nat (length (skipn (N.to_nat held) (bbuf rb))) = blen rb - held).
  { rewrite skipn_length. destruct P2 as (B1 & _). lia. }
  rewrite <- Hlen.
  unfold att_invT. cbn [rBuf state writePos readPos hist peekSize].
  split; [exact P2|]. split; [exists D; rewrite P3, P4; split; assumption|].
  split; [exact Hrp|]. split; [exact Hwp|].
  split; [exact Hph|]. split; [reflexivity|].
  exists c, (skipn (N.to_nat (blen rb)) (bstream rb)).
  split; [exact Hreach|].
  assert (Hu2 : u = skipn (N.to_nat held) (bbuf rb) ++ skipn (N.to_nat (blen rb)) (bstream rb)).
  { rewrite Hu, <- P3. unfold bstream. destruct P2 as (B1 & _).
    assert (E1 : skipn (N.to_nat (blen rb)) (bbuf rb) = []) by (apply skipn_all2; lia).
    rewrite (skipn_app (N.to_nat (blen rb))). rewrite E1.
    replace (N.to_nat (blen rb) - length (bbuf rb))%nat with 0%nat by lia. cbn [skipn app].
    rewrite skipn_app.
    replace (Z.to_nat (Z.quot (r_len (rd (state f))) 8)) with (N.to_nat held) by (unfold held; lia).
    replace (N.to_nat held - length (bbuf rb))%nat with 0%nat by lia. reflexivity. }
  split.
  { apply (st_sim3_attach (state f) c (skipn (N.to_nat held) (bbuf rb))
                          (skipn (N.to_nat (blen rb)) (bstream rb))).
    - rewrite Hu2 in Hsim. exact Hsim.
    - exact Hin.
    - exact Hil.
    - apply Forall_skipn. apply (Forall_suffix _ _ data D (bstream rb)) in Hdata; [|rewrite P3; exact HD].
      unfold bstream in Hdata. apply Forall_app in Hdata. exact (proj1 Hdata). }
  split; [exact Hwin|]. split; [exact Hdel|]. split; [reflexivity|]. split; [reflexivity|].
  rewrite qbytes_attach by exact H0. fold held. lia.
Qed.

(* the attach block of step *)
Lemma attach_okT : forall data delivered f,
  bPeek_spec_statement -> bPeek_buffered_statement ->
  Forall (fun x => x < 256) data ->
  dec_invT data delivered f -> inputNil (state f) = true -> derr f = None ->
  readPos f = writePos f ->
  let '(f1, r) := step_attach f in
  derr f1 = None /\ readPos f1 = writePos f1 /\ r <> Some REOF /\
  out_ok data delivered f1 /\
  (r = None -> att_invT data delivered f1).
Proof.
  intros data delivered f HPk HPb Hdata Hinv Hnil Hderr Hrw.
  pose proof (dec_invT_out_ok _ _ _ Hinv) as Hout.
  pose proof Hinv as (Hbuf & _ & _ & _ & _ & c & u & _ & Hsim & _).
  pose proof (st_sim3_rlen _ _ _ Hsim) as H0.
  unfold step_attach.
  destruct (r_len (rd (state f)) <? 0)%Z eqn:En; [lia|].
  set (held := Z.to_N (Z.quot (r_len (rd (state f))) 8)) in *.
  assert (Hheld : held <= 8).
  { unfold held.
    assert (r_len (rd (state f)) <= 64)%Z by (exact (st_sim3_rlen64 _ _ _ Hsim)).
    assert (Z.quot (r_len (rd (state f))) 8 <= 8)%Z by (apply Z.quot_le_upper_bound; lia).
    lia. }
  assert (Hout1 : forall rb eo, out_ok data delivered
            (mkD (state f) (writePos f) (readPos f) (hist f) rb (derr f) (peekSize f) eo (haveBits f))).
  { intros rb eo. exact Hout. }
  (* second part, for any reader rb holding the same stream *)
  assert (Hsecond : forall rb eo,
    buf_ok rb -> bstream rb = bstream (rBuf f) -> consumed rb = consumed (rBuf f) ->
    let f0 := mkD (state f) (writePos f) (readPos f) (hist f) rb (derr f) (peekSize f) eo (haveBits f) in
    let '(f1, r) :=
      match bPeek (rBuf f0) (bBuffered (rBuf f0)) with
      | None => (f0, Some RStuck)
      | Some (bytes, n, _, rb') =>
        if n <? held then (f0, Some RPanic)
        else
          let s := state f0 in
          let s := set_inputNil (set_rd s (br_set_in (rd s) (skipn (N.to_nat held) bytes)
                                                     (n - held))) false in
          (mkD s (writePos f0) (readPos f0) (hist f0) rb' (derr f0) n (eof f0) (haveBits f0), None)
      end in
    derr f1 = None /\ readPos f1 = writePos f1 /\ r <> Some REOF /\
    out_ok data delivered f1 /\ (r = None -> att_invT data delivered f1)).
  { intros rb eo P2 P3 P4. cbn zeta. cbn [rBuf state writePos readPos hist derr peekSize eof haveBits].
    rewrite (HPb rb P2).
    destruct (blen rb <? held) eqn:Eh.
    { cbn [derr readPos writePos]. split; [exact Hderr|]. split; [exact Hrw|]. split; [discriminate|].
      split; [apply Hout1|discriminate]. }
    cbn [derr readPos writePos]. split; [exact Hderr|]. split; [exact Hrw|]. split; [discriminate|].
    split; [exact Hout|]. intros _.
    apply N.ltb_ge in Eh.
    exact (attach_finalT data delivered f rb eo Hdata Hinv Hnil P2 P3 P4 Eh). }
  (* first peek *)
  match goal with |- context[if ?C then _ else (_, None)] => destruct C eqn:Epk end.
  - destruct (HPk (rBuf f) (held + 1) Hbuf ltac:(lia))
      as (bytes & cnt & err & rb & P1 & P2 & P3 & P4 & P5 & P6 & P7 & P8 & P9 & P10).
    cbn [rBuf]. rewrite P1.
    destruct err as [be|].
    + destruct (P10 be eq_refl) as (Q1 & Q2 & Q3 & Q4 & Q5).
      destruct be.
      * exact (Hsecond rb true P2 P3 P4).
      * cbn [derr readPos writePos]. split; [exact Hderr|]. split; [exact Hrw|]. split; [discriminate|].
        split; [apply Hout1|discriminate].
      * cbn [derr readPos writePos]. split; [exact Hderr|]. split; [exact Hrw|]. split; [discriminate|].
        split; [apply Hout1|discriminate].
      * destruct (term (rBuf f)); discriminate.
    + exact (Hsecond rb false P2 P3 P4).
  - exact (Hsecond (rBuf f) false Hbuf eq_refl eq_refl).
Qed.


Lemma slide_okT : forall data delivered f,
  att_invT data delivered f -> readPos f = writePos f ->
  let f2 := step_slide f in
  att_invT data delivered f2 /\ readPos f2 = writePos f2 /\ writePos f2 <= outLen /\
  derr f2 = derr f.
Proof.
  intros data delivered f Hinv Hrw. cbn zeta.
  pose proof (pending_out_nil f Hrw) as Hp.
  destruct Hinv as (Hbuf & HD & Hrp & Hwp & Hph & Hnil & c & u & Hreach & Hsim & Hwin & Hdel & Hu & Hbl & Hq).
  unfold step_slide.
  destruct (historySize * 2 <=? writePos f) eqn:E.
  - apply N.leb_le in E. change (historySize * 2) with 65536 in E.
    cbn [derr readPos writePos].
    split; [|split; [reflexivity|split; [cbv; discriminate|reflexivity]]].
    unfold att_invT. cbn [rBuf state writePos readPos hist peekSize].
    split; [exact Hbuf|]. split; [exact HD|]. split; [lia|]. split; [cbv; discriminate|].
    split; [exact Hph|]. split; [exact Hnil|].
    exists c, u. split; [exact Hreach|]. split; [exact Hsim|].
    split; [apply win_slide; [exact Hwin|exact E]|].
    split.
    { rewrite Hp in Hdel. rewrite <- Hdel. f_equal;
      try (unfold pending_out; cbn [writePos readPos hist]; rewrite N.sub_diag; reflexivity). }
    split; [exact Hu|]. split; [exact Hbl|exact Hq].
  - apply N.leb_gt in E. change (historySize * 2) with 65536 in E.
    cbn [derr readPos writePos].
    split; [|split; [reflexivity|split; [unfold outLen; lia|reflexivity]]].
    unfold att_invT. cbn [rBuf state writePos readPos hist peekSize].
    split; [exact Hbuf|]. split; [exact HD|]. split; [lia|]. split; [exact Hwp|].
    split; [exact Hph|]. split; [exact Hnil|].
    exists c, u. split; [exact Hreach|]. split; [exact Hsim|]. split; [exact Hwin|].
    split.
    { rewrite Hp in Hdel. rewrite <- Hdel. f_equal;
      try (unfold pending_out; cbn [writePos readPos hist]; rewrite N.sub_diag; reflexivity). }
    split; [exact Hu|]. split; [exact Hbl|exact Hq].
Qed.



Lemma dec_invT_att : forall data delivered f,
  dec_invT data delivered f -> inputNil (state f) = false -> att_invT data delivered f.
Proof.
  intros data delivered f (Hbuf & HD & Hrp & Hwp & Hph & c & u & Hreach & Hsim & Hwin & Hdel & Hu) Hnil.
  rewrite Hnil in Hu. destruct Hu as (U1 & U2 & U3 & _).
  unfold att_invT. split; [exact Hbuf|]. split; [exact HD|]. split; [exact Hrp|]. split; [exact Hwp|].
  split; [exact Hph|]. split; [exact Hnil|].
  exists c, u. split; [exact Hreach|]. split; [exact Hsim|]. split; [exact Hwin|]. split; [exact Hdel|].
  split; [exact U1|]. split; [exact U2|exact U3].
Qed.



(* ---------------------------------------------------------------- exact end facts *)
Definition endf (data o : list N) : Prop :=
  status (Inflate.inflate [] data) = NeedInput /\
  exists z, out (Inflate.inflate [] data) = o ++ z /\ (length z <= 2)%nat.

Lemma end_fact_endf : forall data c o, end_fact data c -> o = frev (rout (cfg_st c)) -> endf data o.
Proof. intros data c o [H1 H2] ->. split; assumption. Qed.

Definition flags_inv3 (data delivered : list N) (f : decompressor) : Prop :=
  (eof f = true -> inputNil (state f) = false ->
     term (rBuf f) = TEOF /\ skipn (N.to_nat (peekSize f)) (bstream (rBuf f)) = []) /\
  (inputNil (state f) = true -> haveBits f = false ->
     skipn (Z.to_nat (Z.quot (r_len (rd (state f))) 8)) (bstream (rBuf f)) = [] ->
     endf data (delivered ++ pending_out f)).

Definition dec_inv3 (data delivered : list N) (f : decompressor) : Prop :=
  dec_invT data delivered f /\ flags_inv3 data delivered f.

Definition step_post3 (data delivered : list N) (f f' : decompressor) (r : option rres) : Prop :=
  (exists c, reach data c /\
             delivered ++ pending_out f' = frev (rout (cfg_st c)) /\
             readPos f' <= writePos f' /\
             (r = Some REOF ->
                exists st S0, c = CDone st S0 /\ consumed (rBuf f') = (bp S0 + 7) / 8)) /\
  derr f' = None /\
  (r = None -> dec_inv3 data delivered f') /\
  (r = None \/ r = Some REOF \/ r = Some RUnexpectedEOF \/ r = Some RSrcErr \/
   (exists o, r = Some (RCorrupt o)) \/ r = Some RPanic \/ r = Some RStuck) /\
  (r = Some RUnexpectedEOF ->
     term (rBuf f) = TEOF /\ endf data (delivered ++ pending_out f')) /\
  (r = Some RSrcErr ->
     term (rBuf f) = TErr /\ endf data (delivered ++ pending_out f')) /\
  ((exists o, r = Some (RCorrupt o)) -> strict data -> status (Inflate.inflate [] data) <> Done).

Definition step_body3 : Prop :=
  forall data delivered f,
    Forall (fun x => x < 256) data ->
    dec_inv3 data delivered f -> readPos f = writePos f -> derr f = None ->
    let '(f', r) := step f in step_post3 data delivered f f' r.

Lemma decode_ok3 : forall data delivered f,
  decomp_body3 -> decomperss_flush_statement ->
  Forall (fun x => x < 256) data ->
  att_invT data delivered f -> readPos f = writePos f -> writePos f <= outLen ->
  let '(f3, e) := step_decode f in
  rBuf f3 = rBuf f /\ peekSize f3 = peekSize f /\ eof f3 = eof f /\ derr f3 = derr f /\
  haveBits f3 = negb (ierr_eqb e EEndInput) /\
  writePos f3 <= outLen + 261 /\ inputNil (state f3) = false /\
  (isError e = true -> strict data -> status (Inflate.inflate [] data) <> Done) /\
  exists c',
    (e = EEndInput -> skipn (N.to_nat (peekSize f)) (bstream (rBuf f)) = [] -> end_fact data c') /\
    reach data c' /\ win_rel (hist f3) (writePos f3) (cfg_st c') /\
    delivered ++ pending_out f3 = frev (rout (cfg_st c')) /\ readPos f3 <= writePos f3 /\
    (nonfatal e ->
       st_sim3 (state f3) c' (bits_of_bytes (skipn (N.to_nat (peekSize f)) (bstream (rBuf f)))) /\
       qbytes (state f3) <= peekSize f /\
       (e = ENone \/ e = EEndInput \/ e = EOutputOverflow) /\
       (e = ENone -> phase (state f3) = phaseStreamEnd) /\
       (phase (state f3) = phaseDecodingHeader ->
          e = EEndInput /\ r_in (rd (state f3)) = [] /\ r_inlen (rd (state f3)) = 0)).
Proof.
  intros data delivered f Hdec Hflush Hdata Hinv Hrw Hw.
  pose proof (pending_out_nil f Hrw) as Hp.
  destruct Hinv as (Hbuf & HD & Hrp & Hwp & Hph & Hnil & c & u & Hreach & Hsim & Hwin & Hdel & Hu & Hbl & Hq).
  unfold step_decode. rewrite Hflush.
  pose proof (Hdec data big_fuel (state f) (hist f) (writePos f) c u Hdata Hreach Hsim Hwin Hw) as HX.
  destruct (decomp_loop big_fuel (state f) (hist f) (writePos f)) as [[[s1 h1] i1] e].
  destruct (flush_ov s1 h1 i1) as [[s2 h2] i2].
  destruct HX as ((c' & R1 & R2 & R3 & R4 & (v & R5 & R6) & R7 & R8 & O2) & O1).
  cbn [state writePos readPos hist rBuf derr peekSize eof haveBits set_state].
  unfold rOffset.
  split; [reflexivity|]. split; [reflexivity|]. split; [reflexivity|]. split; [reflexivity|].
  split; [reflexivity|].
  split; [exact R4|].
  split; [change (inputNil s2 = false); congruence|].
  split; [exact O1|].
  exists c'. split; [intros He Hu0; apply O2; [exact He|]; rewrite Hu; exact Hu0|]. split; [exact R1|]. split; [exact R2|].
  split.
  { unfold pending_out. cbn [writePos readPos hist]. rewrite Hrw.
    rewrite (win_pending (writePos f) (cfg_st c) h2 i2 (cfg_st c') v R2 R5 R6 R3).
    rewrite Hp, app_nil_r in Hdel. rewrite Hdel, R5. symmetry. apply frev_app_rev. }
  split; [lia|].
  intros (N1 & N2 & N3). destruct (R8 N1 N2 N3) as (S1 & S2 & S3 & S4 & S5).
  rewrite st_sim3_roffset. rewrite <- Hu.
  split; [exact S1|].
  split; [change (qbytes s2 <= peekSize f); lia|].
  split; [exact S3|].
  split; [exact S4|exact S5].
Qed.


Lemma tail_ok3 : forall data delivered fi f0 f3 e,
  bDiscard_spec_statement -> reach_inv_statement ->
  buf_ok (rBuf f0) -> term (rBuf f0) = term (rBuf fi) ->
  (exists D, data = D ++ bstream (rBuf f0) /\ consumed (rBuf f0) = N.of_nat (length D)) ->
  blen (rBuf f0) = peekSize f0 ->
  (eof f0 = true -> term (rBuf f0) = TEOF /\
                    skipn (N.to_nat (peekSize f0)) (bstream (rBuf f0)) = []) ->
  rBuf f3 = rBuf f0 -> peekSize f3 = peekSize f0 -> eof f3 = eof f0 -> derr f3 = None ->
  haveBits f3 = negb (ierr_eqb e EEndInput) ->
  writePos f3 <= outLen + 261 -> inputNil (state f3) = false ->
  (isError e = true -> strict data -> status (Inflate.inflate [] data) <> Done) ->
  (exists c',
    (e = EEndInput -> skipn (N.to_nat (peekSize f0)) (bstream (rBuf f0)) = [] -> end_fact data c') /\
    reach data c' /\ win_rel (hist f3) (writePos f3) (cfg_st c') /\
    delivered ++ pending_out f3 = frev (rout (cfg_st c')) /\ readPos f3 <= writePos f3 /\
    (nonfatal e ->
       st_sim3 (state f3) c' (bits_of_bytes (skipn (N.to_nat (peekSize f0)) (bstream (rBuf f0)))) /\
       qbytes (state f3) <= peekSize f0 /\
       (e = ENone \/ e = EEndInput \/ e = EOutputOverflow) /\
       (e = ENone -> phase (state f3) = phaseStreamEnd) /\
       (phase (state f3) = phaseDecodingHeader ->
          e = EEndInput /\ r_in (rd (state f3)) = [] /\ r_inlen (rd (state f3)) = 0))) ->
  let '(f', r) := step_tail f3 e in step_post3 data delivered fi f' r.
Proof.
  intros data delivered fi f0 f3 e HDs Hri Hbuf Hterm HD Hbl Heof E1 E2 E3 Hderr Hhb Hwp Hnil O1
         (c' & O2 & R1 & R2 & R3 & R4 & R5).
  (* an error outcome r (not nil, not EOF), given its kind facts *)
  assert (Herr : forall f' r, r <> None -> r <> Some REOF -> hist f' = hist f3 ->
            writePos f' = writePos f3 -> readPos f' = readPos f3 -> derr f' = None ->
            (r = Some RUnexpectedEOF \/ (exists o, r = Some (RCorrupt o)) \/ r = Some RPanic \/
             r = Some RStuck) ->
            (r = Some RUnexpectedEOF ->
               term (rBuf fi) = TEOF /\ endf data (delivered ++ pending_out f3)) ->
            ((exists o, r = Some (RCorrupt o)) -> strict data ->
               status (Inflate.inflate [] data) <> Done) ->
            step_post3 data delivered fi f' r).
  { intros f' r Hr Hr2 H1 H2 H3 H4 K1 K2 K3.
    split.
    { exists c'. split; [exact R1|]. split.
      { unfold pending_out in *. rewrite H1, H2, H3. exact R3. }
      split; [rewrite H2, H3; exact R4|]. intros He. contradiction. }
    split; [exact H4|]. split; [intros; contradiction|].
    split.
    { destruct K1 as [K|[K|[K|K]]]; auto 8. }
    assert (Hpo : pending_out f' = pending_out f3) by (unfold pending_out; rewrite H1, H2, H3; reflexivity).
    split; [rewrite Hpo; exact K2|]. split; [|exact K3].
    intros Hs. exfalso. destruct K1 as [K|[(o & K)|[K|K]]]; rewrite K in Hs; discriminate. }
  assert (Hsd : forall f, rBuf f = rBuf f0 -> peekSize f = peekSize f0 -> (0 <= r_len (rd (state f)))%Z ->
            qbytes (state f) <= peekSize f0 ->
            exists rb,
              step_discard f = Some (None, mkD (detach (state f)) (writePos f) (readPos f) (hist f) rb
                                               (derr f) (peekSize f) (eof f) (haveBits f)) /\
              buf_ok rb /\
              bstream rb = skipn (N.to_nat (peekSize f0 - qbytes (state f))) (bstream (rBuf f0)) /\
              consumed rb = consumed (rBuf f0) + (peekSize f0 - qbytes (state f)) /\
              term rb = term (rBuf f0)).
  { intros f F1 F2 F3 F4. unfold step_discard.
    pose proof (quot8_nonneg _ F3) as Hq0.
    set (ds := (Z.of_N (peekSize f) - Z.of_N (r_inlen (rd (state f))) - Z.quot (r_len (rd (state f))) 8)%Z).
    assert (Hds : Z.to_N ds = peekSize f0 - qbytes (state f)) by (unfold ds, qbytes in *; lia).
    destruct (0 <? ds)%Z eqn:E.
    - destruct (HDs (rBuf f) (Z.to_N ds) ltac:(rewrite F1; exact Hbuf)
                  ltac:(rewrite F1; unfold ds, qbytes in *; lia))
        as (b' & D1 & D2 & D3 & D4 & D5 & D6 & D7 & D8).
      rewrite D1. exists b'. split; [reflexivity|]. split; [exact D2|].
      rewrite F1 in D3, D4, D6.
      split; [rewrite D3, Hds; reflexivity|]. split; [rewrite D4, Hds; reflexivity|exact D6].
    - exists (rBuf f). split; [destruct f; reflexivity|]. rewrite F1. split; [exact Hbuf|].
      assert (Hz : peekSize f0 - qbytes (state f) = 0) by (unfold ds, qbytes in *; lia).
      rewrite Hz. split; [reflexivity|]. split; [lia|reflexivity]. }
  destruct (ierr_eqb e EPanic) eqn:EP.
  { assert (e = EPanic) by (destruct e; try discriminate; reflexivity). subst e. cbn [step_tail].
    apply Herr; [discriminate|discriminate|reflexivity|reflexivity|reflexivity|exact Hderr|auto|discriminate|].
    intros (o & Ho); discriminate. }
  destruct (ierr_eqb e EFuel) eqn:EF.
  { assert (e = EFuel) by (destruct e; try discriminate; reflexivity). subst e. cbn [step_tail].
    apply Herr; [discriminate|discriminate|reflexivity|reflexivity|reflexivity|exact Hderr|auto|discriminate|].
    intros (o & Ho); discriminate. }
  assert (NP : e <> EPanic) by (intros ->; discriminate).
  assert (NF : e <> EFuel) by (intros ->; discriminate).
  rewrite (step_tail_other f3 e NP NF). unfold step_tail2.
  destruct (isError e || (ierr_eqb e EEndInput && eof f3)) eqn:Eb.
  - destruct (step_discard_at_ok HDs f3 (held_nonneg f3) ltac:(rewrite E1; exact Hbuf)
                ltac:(rewrite E1, E2; exact Hbl) (held_nonneg_ge0 f3))
      as (f4 & G1 & G2 & G3 & G4 & G5).
    rewrite G1.
    destruct (ierr_eqb e EEndInput) eqn:Een.
    + (* unexpected EOF *)
      assert (e = EEndInput) by (destruct e; try discriminate; reflexivity). subst e.
      cbn [isError orb andb] in Eb. rewrite E3 in Eb.
      destruct (Heof Eb) as (T1 & T2).
      apply Herr; [discriminate|discriminate|exact G2|exact G3|exact G4|congruence|left; reflexivity| |].
      * intros _. split; [congruence|].
        apply (end_fact_endf data c'); [apply O2; [reflexivity|exact T2]|exact R3].
      * intros (o & Ho); discriminate.
    + (* corrupt *)
      cbn [andb] in Eb. rewrite orb_false_r in Eb.
      apply Herr; [discriminate|discriminate|exact G2|exact G3|exact G4|congruence| | |].
      * right; left. eexists; reflexivity.
      * intros Hc; discriminate.
      * intros _ Hs. exact (O1 Eb Hs).
  - apply orb_false_iff in Eb. destruct Eb as [Eie Eeof].
    destruct (R5 (conj NP (conj NF Eie))) as (S1 & S2 & S3 & S4 & S5).
    pose proof (st_sim3_rlen _ _ _ S1) as H0.
    pose proof (st_sim3_phase4 _ _ _ S1) as Hph4.
    destruct (phase (state f3) =? phaseStreamEnd) eqn:Ese.
    + apply N.eqb_eq in Ese.
      destruct (st_sim3_done _ _ _ S1 Ese) as (st & S0 & Hc & Hwf & Hblc).
      set (f4 := set_state f3 (set_phase (state f3) phaseFinish)).
      assert (Hcond : (r_inlen (rd (state f4)) =? 0) || (phase (state f4) =? phaseFinish) = true).
      { unfold f4. cbn [state set_state phase set_phase]. rewrite N.eqb_refl. apply orb_true_r. }
      rewrite Hcond.
      destruct (Hsd f4 E1 E2 H0 S2) as (rb & G1 & G2 & G3 & G4 & G5).
      rewrite G1.
      split.
      { exists c'. split; [exact R1|]. split; [exact R3|]. split; [exact R4|].
        intros _. exists st, S0. split; [exact Hc|].
        cbn [rBuf]. rewrite G4.
        destruct HD as (D & HD1 & HD2). rewrite HD2.
        change (qbytes (state f4)) with (qbytes (state f3)). unfold qbytes.
        pose proof (Hri data c' R1) as Hinv. rewrite Hc in Hinv. cbn [cfg_st cfg_bs] in Hinv.
        destruct Hinv as (_ & _ & _ & (pre & Hpre & Hbp) & _).
        apply (eof_consumed D (bstream (rBuf f0))
                 (skipn (N.to_nat (peekSize f0)) (bstream (rBuf f0))) (bp S0) (r_len (rd (state f3)))
                 (r_inlen (rd (state f3))) (peekSize f0) (length (br_bits (rd (state f3))))).
        * exact H0.
        * unfold bstream. rewrite app_length. destruct Hbuf as (B1 & _). lia.
        * reflexivity.
        * apply (f_equal (@length bool)) in Hpre.
          rewrite bits_of_bytes_length, app_length, Hblc, app_length, bits_of_bytes_length in Hpre.
          rewrite <- HD1. unfold byte in *. lia.
        * rewrite br_bits_length. destruct Hwf as (W1 & _). lia.
        * exact S2. }
      split; [exact Hderr|]. split; [discriminate|].
      split; [auto|]. split; [discriminate|]. split; [discriminate|].
      intros (o & Ho); discriminate.
    + apply N.eqb_neq in Ese.
      destruct (r_inlen (rd (state f3)) =? 0) eqn:Ein.
      * apply N.eqb_eq in Ein. cbn [orb].
        destruct (Hsd f3 E1 E2 H0 S2) as (rb & G1 & G2 & G3 & G4 & G5).
        rewrite G1.
        split.
        { exists c'. split; [exact R1|]. split; [exact R3|]. split; [exact R4|]. discriminate. }
        split; [exact Hderr|].
        split.
        { intros _.
          assert (Hpk : (N.to_nat (peekSize f0) <= length (bstream (rBuf f0)))%nat).
          { unfold bstream. rewrite app_length. destruct Hbuf as (B1 & _). lia. }
          assert (Hu' : skipn (Z.to_nat (Z.quot (r_len (rd (state f3))) 8)) (bstream rb)
                        = skipn (N.to_nat (peekSize f0)) (bstream (rBuf f0))).
          { rewrite G3. rewrite skipn_skipn_add. f_equal.
            unfold qbytes in *. pose proof (quot8_nonneg _ H0). lia. }
          split.
          - unfold dec_invT. cbn [rBuf state writePos readPos hist peekSize].
            split; [exact G2|].
            destruct HD as (D & HD1 & HD2).
            split.
            { exists (D ++ firstn (N.to_nat (peekSize f0 - qbytes (state f3))) (bstream (rBuf f0))).
              split.
              - rewrite G3, <- app_assoc, firstn_skipn. exact HD1.
              - rewrite G4, HD2, app_length, firstn_length. lia. }
            split; [exact R4|]. split; [exact Hwp|].
            split; [apply phase4_not_finish; exact Hph4|].
            exists c', (skipn (N.to_nat (peekSize f0)) (bstream (rBuf f0))).
            split; [exact R1|]. split; [apply st_sim3_detach; assumption|].
            split; [exact R2|]. split; [exact R3|].
            split; [reflexivity|]. split; [reflexivity|].
            cbn [r_len rd detach set_inputNil set_rd br_set_in]. symmetry. exact Hu'.
          - unfold flags_inv3 . cbn [rBuf state eof haveBits peekSize].
            split; [intros _ Hc; discriminate Hc|].
            intros _ Hh Hs.
            rewrite Hhb in Hh. apply negb_false_iff in Hh.
            assert (e = EEndInput) by (destruct e; try discriminate; reflexivity). subst e.
            apply (end_fact_endf data c'); [apply O2; [reflexivity|]; rewrite <- Hu'; exact Hs|exact R3]. }
        split; [auto|]. split; [discriminate|]. split; [discriminate|].
        intros (o & Ho); discriminate.
      * apply N.eqb_neq in Ein.
        assert (Hnf : (phase (state f3) =? phaseFinish) = false).
        { apply N.eqb_neq. apply phase4_not_finish; exact Hph4. }
        rewrite Hnf. cbn [orb].
        split.
        { exists c'. split; [exact R1|]. split; [exact R3|]. split; [exact R4|]. discriminate. }
        split; [exact Hderr|].
        split.
        { intros _.
          assert (Hnd : phase (state f3) <> phaseDecodingHeader).
          { intros Hd. destruct (S5 Hd) as (_ & _ & K). contradiction. }
          destruct (st_sim3_hdr_nil _ _ _ S1 Hnd Ese) as (Hh1 & Hh2).
          split.
          - unfold dec_invT. rewrite E1. split; [exact Hbuf|]. split; [exact HD|].
            split; [exact R4|]. split; [exact Hwp|].
            split; [apply phase4_not_finish; exact Hph4|].
            exists c', (skipn (N.to_nat (peekSize f0)) (bstream (rBuf f0))).
            split; [exact R1|]. split; [exact S1|]. split; [exact R2|]. split; [exact R3|].
            rewrite Hnil, E2.
            split; [reflexivity|]. split; [exact Hbl|]. split; [exact S2|]. split; assumption.
          - unfold flags_inv3 . rewrite E1, E2, E3, Hnil.
            split; [intros He _; exact (Heof He)|]. intros Hc; discriminate Hc. }
        split; [auto|]. split; [discriminate|]. split; [discriminate|].
        intros (o & Ho); discriminate.
Qed.


Theorem step_complete3 :
  decomp_body3 -> decomperss_flush_statement ->
  bPeek_spec_statement -> bPeek_buffered_statement -> bDiscard_spec_statement ->
  reach_inv_statement -> step_body3.
Proof.
  intros Hdec Hflush HPk HPb HDs Hri data delivered f Hdata [Hinv Hfl] Hrw Hderr.
  cut (step_post3 data delivered f (fst (step f)) (snd (step f))).
  { destruct (step f) as [f' r]. intros H; exact H. }
  rewrite step_eq.
  destruct (phase (state f) =? phaseFinish) eqn:Eph.
  { apply N.eqb_eq in Eph. destruct Hinv as (_ & _ & _ & _ & Hph & _). contradiction. }
  pose proof Hinv as (Hbuf0 & _ & _ & _ & _ & c0 & u0 & _ & Hsim0 & _).
  destruct (inputNil (state f)) eqn:Enil.
  - (* attach first *)
    pose proof (attach_okT data delivered f HPk HPb Hdata Hinv Enil Hderr Hrw) as HA.
    pose proof (attach_flags HPk HPb f Hbuf0 (st_sim3_rlen _ _ _ Hsim0) (st_sim3_rlen64 _ _ _ Hsim0)) as HF.
    cbn zeta in HF.
    destruct (step_attach f) as [f1 [e1|]].
    + destruct HA as (A1 & A2 & A3 & (c & R & Dl & Rp) & _).
      destruct HF as (F1 & F2 & F3 & F4 & _). cbn [fst snd].
      split.
      { exists c. split; [exact R|]. split; [exact Dl|]. split; [exact Rp|].
        intros He. exfalso. apply A3. exact He. }
      split; [exact A1|]. split; [discriminate|].
      split.
      { destruct F3 as [K|[K|[K|K]]]; [discriminate| | |]; injection K as ->; auto 8. }
      split.
      { intros K. exfalso. destruct F3 as [K'|[K'|[K'|K']]]; rewrite K' in K; discriminate. }
      split.
      { intros K. destruct (F4 K) as (T1 & T2 & T3). split; [exact T1|].
        destruct Hfl as [_ Hfl2]. rewrite (pending_out_nil f1 A2), <- (pending_out_nil f Hrw).
        apply (Hfl2 Enil T2). rewrite Z_N_nat in T3. exact T3. }
      intros (o & K). exfalso. destruct F3 as [K'|[K'|[K'|K']]]; rewrite K' in K; discriminate.
    + destruct HA as (A1 & A2 & _ & _ & A5). specialize (A5 eq_refl).
      destruct HF as (F1 & F2 & _ & _ & F5). specialize (F5 eq_refl).
      destruct (slide_okT data delivered f1 A5 A2) as (B1 & B2 & B3 & B4).
      pose proof (decode_ok3 data delivered (step_slide f1) Hdec Hflush Hdata B1 B2 B3) as HX.
      destruct (step_decode (step_slide f1)) as [f3 e].
      destruct HX as (X1 & X2 & X3 & X4 & X5 & X6 & X7 & X8 & X9).
      destruct B1 as (Hbuf & HD & _ & _ & _ & _ & c1 & u1 & _ & _ & _ & _ & _ & Hbl & _).
      assert (Hsl : rBuf (step_slide f1) = rBuf f1 /\ peekSize (step_slide f1) = peekSize f1 /\
                    eof (step_slide f1) = eof f1).
      { unfold step_slide. destruct (historySize * 2 <=? writePos f1); repeat split. }
      destruct Hsl as (L1 & L2 & L3).
      pose proof (tail_ok3 data delivered f (step_slide f1) f3 e HDs Hri Hbuf
                    ltac:(rewrite L1; exact F1) HD Hbl
                    ltac:(rewrite L1, L2, L3; intros He; destruct (F5 He) as [T1 T2];
                          split; [rewrite F1; exact T1|exact T2])
                    X1 X2 X3 ltac:(rewrite X4, B4; exact A1) X5 X6 X7 X8 X9) as HT.
      cbv iota beta.
      destruct (step_tail f3 e) as [f' r]. cbn [fst snd]. exact HT.
  - (* input still attached *)
    pose proof (dec_invT_att data delivered f Hinv Enil) as A5.
    destruct (slide_okT data delivered f A5 Hrw) as (B1 & B2 & B3 & B4).
    pose proof (decode_ok3 data delivered (step_slide f) Hdec Hflush Hdata B1 B2 B3) as HX.
    destruct (step_decode (step_slide f)) as [f3 e].
    destruct HX as (X1 & X2 & X3 & X4 & X5 & X6 & X7 & X8 & X9).
    destruct B1 as (Hbuf & HD & _ & _ & _ & _ & c1 & u1 & _ & _ & _ & _ & _ & Hbl & _).
    assert (Hsl : rBuf (step_slide f) = rBuf f /\ peekSize (step_slide f) = peekSize f /\
                  eof (step_slide f) = eof f).
    { unfold step_slide. destruct (historySize * 2 <=? writePos f); repeat split. }
    destruct Hsl as (L1 & L2 & L3).
    destruct Hfl as [Hfl1 _].
    pose proof (tail_ok3 data delivered f (step_slide f) f3 e HDs Hri Hbuf
                  ltac:(rewrite L1; reflexivity) HD Hbl
                  ltac:(rewrite L1, L2, L3; intros He; exact (Hfl1 He Enil))
                  X1 X2 X3 ltac:(rewrite X4, B4; exact Hderr) X5 X6 X7 X8 X9) as HT.
    cbv iota beta.
    destruct (step_tail f3 e) as [f' r]. cbn [fst snd]. exact HT.
Qed.


Print Assumptions step_complete3.
