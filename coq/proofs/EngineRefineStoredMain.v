(* EngineRefineStoredMain.v -- the two stored-block refinement theorems. *)
From Coq Require Import List NArith ZArith Bool Lia ZifyBool ZifyNat ZifyN.
From Verif Require Import Bits Huffman Inflate InflateSpec InflateMono.
From Verif Require Import Base EngineTables Engine EngineRefineSpec EngineRefineBits EngineRefineSpecBlock.
From Verif Require Import EngineRefineStored.
Import ListNotations.
Open Scope N_scope.

Ltac Zify.zify_post_hook ::= Z.div_mod_to_equations.

Theorem prepareForLitBlock_refine : prepareForLitBlock_refine_statement.
Proof.
  intros s e p Hwf H0 Hal.
  unfold prepareForLitBlock, loadBits.
  destruct (load_lt57_bits (rd s) Hwf) as (b1 & L1 & L2 & L3 & L4 & L5).
  rewrite L1. cbn [rd set_rd].
  destruct (r_len b1 <? 0)%Z eqn:En; [lia|].
  set (bl0 := Z.to_N (r_len b1)).
  assert (Hbl0 : Z.of_N bl0 = r_len b1) by (unfold bl0; lia).
  pose proof L2 as (W1 & W2 & W3 & W4 & W5).
  assert (Hu8 : u8 (bl0 / 8) = bl0 / 8).
  { unfold u8. rewrite land_255_mod. apply N.mod_small. lia. }
  rewrite !Hu8.
  destruct (bl0 / 8 <? 4) eqn:E4.
  - (* fewer than 32 bits: the input is exhausted *)
    cbv beta iota.
    split; [apply same_static_set_rd, same_static_refl|]. split; [reflexivity|].
    split; [left; reflexivity|]. split; [|discriminate].
    intros _. cbn [rd set_rd]. split; [|exact L2].
    destruct L4 as [L4|L4]; [exact L4|lia].
  - set (k := bl0 mod 8).
    assert (Hk : k < 8) by (unfold k; lia).
    assert (Hbl1 : bl0 / 8 * 8 - 32 = bl0 - k - 32) by (unfold k; lia).
    assert (Hge : 32 + k <= bl0) by (unfold k; lia).
    rewrite !Hbl1.
    (* the three drops *)
    destruct (br_drop_bits b1 k L2 ltac:(lia)) as (D1w & D1b & D1l).
    set (b2 := br_drop b1 k) in *.
    assert (Hl2 : r_len b2 = (r_len b1 - Z.of_N k)%Z) by reflexivity.
    pose proof (next_bits_take b2 16 e (p + k) D1w ltac:(lia)) as T1.
    unfold next_bits in T1. destruct T1 as [D2w T1].
    set (b3 := br_drop b2 16) in *.
    assert (Hl3 : r_len b3 = (r_len b2 - 16)%Z) by reflexivity.
    pose proof (next_bits_take b3 16 e (p + k + 16) D2w ltac:(lia)) as T2.
    unfold next_bits in T2. destruct T2 as [D3w T2].
    set (b4 := br_drop b3 16) in *.
    assert (Hl4 : r_len b4 = (r_len b3 - 16)%Z) by reflexivity.
    change (N.ones 16) with 65535 in T1, T2. change (N.to_nat 16) with 16%nat in T1, T2.
    change (N.shiftr (r_bits b1) k) with (r_bits b2).
    change (N.shiftr (r_bits b2) 16) with (r_bits b3).
    change (N.shiftr (r_bits b3) 16) with (r_bits b4).
    set (len := N.land (r_bits b2) 65535) in *.
    set (nlen := N.land (r_bits b3) 65535) in *.
    assert (Hnlen : nlen < 65536).
    { unfold nlen. rewrite land_ffff_mod. apply N.mod_lt. lia. }
    destruct (negb (len =? 65535 - nlen)) eqn:Ev.
    + cbv beta iota.
      split; [apply same_static_set_rd, same_static_set_rd, same_static_refl|].
      split; [reflexivity|]. split; [right; left; reflexivity|].
      split; discriminate.
    + assert (Hrest : (bl0 - k - 32) mod 8 = 0) by (unfold k; lia).
      rewrite Hrest. change (0 =? 0) with true. cbv beta iota.
      assert (Ho : ones64 (bl0 - k - 32) = N.ones (bl0 - k - 32)).
      { unfold ones64. destruct (N.leb_spec 64 (bl0 - k - 32)) as [H|H]; [lia|reflexivity]. }
      rewrite Ho.
      assert (Hl4' : Z.of_N (bl0 - k - 32) = r_len b4) by lia.
      destruct (br_mask b4 (bl0 - k - 32) D3w ltac:(lia) Hl4') as (Mw & Mb).
      cbv zeta in Mw, Mb.
      change (r_in b4) with (r_in b1) in Mw, Mb. change (r_inlen b4) with (r_inlen b1) in Mw, Mb.
      rewrite <- Hl4' in Mw, Mb.
      set (b5 := mkBR (N.land (r_bits b4) (N.ones (bl0 - k - 32))) (Z.of_N (bl0 - k - 32))
                      (r_in b1) (r_inlen b1)) in *.
      split; [apply same_static_set_phase, same_static_set_lbl, same_static_set_rd,
              same_static_set_rd, same_static_refl|].
      split; [reflexivity|]. split; [right; right; reflexivity|].
      split; [discriminate|]. intros _.
      cbn [rd set_rd set_phase set_litBlockLength phase litBlockLength].
      split; [exact Mw|]. split; [unfold b5; cbn [r_len]; lia|].
      split; [unfold b5; cbn [r_len]; unfold k; lia|].
      split; [reflexivity|].
      (* the reference *)
      assert (Hal2 : (8 - p mod 8) mod 8 = k).
      { assert (Hlen : length (br_bits b1) = length (br_bits (rd s))) by (rewrite L3; reflexivity).
        rewrite !br_bits_length in Hlen. unfold k. lia. }
      assert (Halign : align (mkbs (br_bits (rd s) ++ e) p) = mkbs (br_bits b2 ++ e) (p + k)).
      { unfold align. cbn [bl bp]. rewrite Hal2. rewrite <- L3.
        rewrite skipn_app_le by exact D1l. rewrite <- D1b. reflexivity. }
      rewrite Halign.
      exists len, (mkbs (br_bits b3 ++ e) (p + k + 16)), nlen, (mkbs (br_bits b4 ++ e) (p + k + 16 + 16)).
      split; [exact T1|]. split; [exact T2|]. split; [lia|]. split; [reflexivity|].
      cbn [bl]. rewrite Mb. reflexivity.
Qed.

Print Assumptions prepareForLitBlock_refine.

Theorem decodeLiteralBlock_refine : decodeLiteralBlock_refine_statement.
Proof.
  intros s out w st e p Hwf H0 H8 Hph Hbf Hw Hwo Hlbl.
  rewrite dlb_unfold.
  set (ph := if negb (bfinal s =? 0) then phaseStreamEnd else phaseNewBlock).
  assert (Hphv : ph = if bfinal s =? 1 then phaseStreamEnd else phaseNewBlock).
  { unfold ph. destruct Hbf as [-> | ->]; reflexivity. }
  cbv zeta. cbn [set_phase litBlockLength].
  destruct (litBlockLength s =? 0) eqn:Ez.
  - (* nothing to copy *)
    exists 0, st, (mkbs (br_bits (rd s) ++ e) p).
    cbn [set_phase rd litBlockLength phase ov bl]. change (N.to_nat 0) with 0%nat. cbn [stored].
    split; [lia|]. split; [lia|]. split; [lia|]. split; [lia|]. split; [reflexivity|].
    split; [exact Hw|].
    split; [apply (same_static_set_phase s s ph), same_static_refl|]. split; [reflexivity|].
    split; [left; reflexivity|]. intros _ _.
    split; [exact Hwf|]. split; [exact H0|]. split; [exact H8|]. split; [reflexivity|].
    split; [intros _; split; [lia|exact Hphv]|].
    split; [intros H; contradiction H; reflexivity|]. split; discriminate.
  - unfold outLen in *.
    destruct (65536 - w <? litBlockLength s) eqn:Eo; cbv beta iota.
    + (* the window is the limit *)
      change (ierr_eqb EOutputOverflow EOutputOverflow) with true. cbv beta iota.
      destruct (65536 - w =? 0) eqn:Er; cbv beta iota.
      * exists 0, st, (mkbs (br_bits (rd s) ++ e) p).
        cbn [set_phase rd litBlockLength phase ov bl]. change (N.to_nat 0) with 0%nat. cbn [stored].
        split; [lia|]. split; [lia|]. split; [lia|]. split; [lia|]. split; [reflexivity|].
        split; [exact Hw|].
        split; [apply (same_static_set_phase s), (same_static_set_phase s s), same_static_refl|].
        split; [reflexivity|]. split; [right; right; left; reflexivity|]. intros _ _.
        split; [exact Hwf|]. split; [exact H0|]. split; [exact H8|]. split; [reflexivity|].
        split; [discriminate|]. split; [intros _; reflexivity|]. split; [discriminate|].
        intros _. lia.
      * set (s0 := set_phase (set_phase s ph) phaseLitBlock).
        pose proof (dlb_tail_ok s0 out w st e p (65536 - w) EOutputOverflow Hwf H0 H8 Hw ltac:(lia)) as T.
        destruct (dlb_tail s0 out w (65536 - w) EOutputOverflow) as [[[s' out'] w'] err'].
        destruct T as (k & st' & p' & T1 & T2 & T3 & T4 & T5 & T6 & T7 & T8 & T9 & T10 & T11).
        change (rd s0) with (rd s) in T4. change (litBlockLength s0) with (litBlockLength s) in T2.
        change (ov s0) with (ov s) in T7. change (phase s0) with phaseLitBlock in T11.
        exists k, st', (mkbs (br_bits (rd s') ++ e) p').
        split; [lia|]. split; [exact T2|]. split; [exact T3|]. split; [lia|]. split; [exact T4|].
        split; [exact T5|]. split; [exact T6|]. split; [exact T7|].
        split; [destruct T11 as [(-> & _)|(-> & _)]; tauto|]. intros _ _.
        split; [exact T8|]. split; [exact T9|]. split; [exact T10|]. split; [reflexivity|].
        destruct T11 as [(-> & Tk & Tp)|(-> & Tp & Ti & Tl)].
        -- split; [discriminate|]. split; [intros _; exact Tp|]. split; [discriminate|].
           intros _. lia.
        -- split; [discriminate|]. split; [intros _; exact Tp|]. split; [intros _; split; assumption|].
           discriminate.
    + change (ierr_eqb ENone EOutputOverflow) with false. cbv beta iota.
      set (s0 := set_phase s ph).
      pose proof (dlb_tail_ok s0 out w st e p (litBlockLength s) ENone Hwf H0 H8 Hw ltac:(lia)) as T.
      destruct (dlb_tail s0 out w (litBlockLength s) ENone) as [[[s' out'] w'] err'].
      destruct T as (k & st' & p' & T1 & T2 & T3 & T4 & T5 & T6 & T7 & T8 & T9 & T10 & T11).
      change (rd s0) with (rd s) in T4. change (litBlockLength s0) with (litBlockLength s) in T2.
      change (ov s0) with (ov s) in T7. change (phase s0) with ph in T11.
      exists k, st', (mkbs (br_bits (rd s') ++ e) p').
      split; [lia|]. split; [exact T2|]. split; [exact T3|]. split; [lia|]. split; [exact T4|].
      split; [exact T5|]. split; [exact T6|]. split; [exact T7|].
      split; [destruct T11 as [(-> & _)|(-> & _)]; tauto|]. intros _ _.
      split; [exact T8|]. split; [exact T9|]. split; [exact T10|]. split; [reflexivity|].
      destruct T11 as [(-> & Tk & Tp)|(-> & Tp & Ti & Tl)].
      * split; [intros _; split; [exact Tk|rewrite Tp; exact Hphv]|].
        split; [intros H; contradiction H; reflexivity|]. split; discriminate.
      * split; [discriminate|]. split; [intros _; exact Tp|]. split; [intros _; split; assumption|].
        discriminate.
Qed.

Print Assumptions decodeLiteralBlock_refine.
