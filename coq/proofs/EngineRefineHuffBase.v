(* EngineRefineHuffBase.v -- M5 (decodeHuffman refinement), layer 0: arrays, the inflate-state
   normal form `upd`, sym_run composition, window lemmas (push, byteCopy = copy_match), the
   overflow flush as a function on (ovf, array, index), packed-symbol arithmetic. *)
From Coq Require Import List NArith ZArith Bool Lia ZifyBool ZifyNat ZifyN.
From Verif Require Import Bits Huffman HuffmanSpec Inflate InflateSpec InflateMono.
From Verif Require Import Base EngineTables Engine EngineRefineSpec EngineRefineSpecBlock
                          EngineRefineBits EngineRefineBridge.
From Verif Require HuffmanProofs SymbolsProofs EngineFacts.
Import ListNotations.
Open Scope N_scope.

(* ---------------------------------------------------------------- arrays *)
Lemma hb_succ_pos_inj : forall i j, N.succ_pos i = N.succ_pos j -> i = j.
Proof. intros i j H. apply N.succ_inj. rewrite <- !N.succ_pos_spec. now rewrite H. Qed.

Lemma aget_aset : forall a i v j, aget (aset a i v) j = if j =? i then v else aget a j.
Proof.
  intros a i v j. unfold aget, aset. destruct (N.eqb_spec j i) as [Heq|Hne].
  - subst j. now rewrite PositiveMap.gss.
  - rewrite PositiveMap.gso; auto. intro H; apply Hne, hb_succ_pos_inj, H.
Qed.

Lemma aget_aset_same : forall a i v, aget (aset a i v) i = v.
Proof. intros. rewrite aget_aset, N.eqb_refl. reflexivity. Qed.

Lemma aget_aset_other : forall a i v j, j <> i -> aget (aset a i v) j = aget a j.
Proof. intros a i v j H. rewrite aget_aset. destruct (N.eqb_spec j i); [contradiction|reflexivity]. Qed.

Definition agree_below (a b : arr) (n : N) : Prop := forall i, i < n -> aget a i = aget b i.

Lemma agree_below_refl : forall a n, agree_below a a n.
Proof. intros a n i _. reflexivity. Qed.

Lemma agree_below_trans : forall a b c n, agree_below a b n -> agree_below b c n -> agree_below a c n.
Proof. intros a b c n H1 H2 i Hi. rewrite H1, H2 by exact Hi. reflexivity. Qed.

Lemma agree_below_le : forall a b n m, agree_below a b n -> m <= n -> agree_below a b m.
Proof. intros a b n m H Hm i Hi. apply H. lia. Qed.

Lemma agree_below_aset : forall a n i v, n <= i -> agree_below (aset a i v) a n.
Proof. intros a n i v H j Hj. apply aget_aset_other. lia. Qed.

(* ---------------------------------------------------------------- the inflate state: the
   decode loops only change phase and ov *)
Definition upd (s : inflate) (ph : N) (o : ovf) : inflate := set_ov (set_phase s ph) o.

Lemma upd_id : forall s, upd s (phase s) (ov s) = s.
Proof. intros []; reflexivity. Qed.

Lemma ovf_eta : forall o a b c d,
  writeOverflowLits o = a -> writeOverflowLen o = b -> copyOverflowLength o = c ->
  copyOverflowDistance o = d -> o = mkOV a b c d.
Proof. intros [] a b c d; cbn; intros; subst; reflexivity. Qed.

Definition eob_phase (s : inflate) : N := if bfinal s =? 1 then phaseStreamEnd else phaseNewBlock.
Definition ph_of (ended : bool) (s : inflate) : N := if ended then eob_phase s else phase s.

Lemma end_of_block_upd : forall s, end_of_block s = upd s (eob_phase s) (ov s).
Proof. intros []; reflexivity. Qed.

Lemma set_wov_upd : forall s a b,
  set_wov s a b = upd s (phase s) (mkOV a b (copyOverflowLength (ov s)) (copyOverflowDistance (ov s))).
Proof. intros []; reflexivity. Qed.

Lemma set_cov_upd : forall s a b,
  set_cov s a b = upd s (phase s) (mkOV (writeOverflowLits (ov s)) (writeOverflowLen (ov s)) a b).
Proof. intros []; reflexivity. Qed.

Lemma upd_upd : forall s p1 o1 p2 o2, upd (upd s p1 o1) p2 o2 = upd s p2 o2.
Proof. reflexivity. Qed.

(* ---------------------------------------------------------------- sym_run *)
Lemma sym_run_trans : forall lt dt st s st1 s1 st2 s2 b,
  sym_run lt dt st s st1 s1 false -> sym_run lt dt st1 s1 st2 s2 b -> sym_run lt dt st s st2 s2 b.
Proof.
  intros lt dt st s st1 s1 st2 s2 b H. remember false as f eqn:Ef.
  induction H as [st s|st s sa ba sb bb x E H IH|st s sa ba E]; intros H2.
  - exact H2.
  - eapply sr_step; [exact E|]. apply IH; [exact Ef|exact H2].
  - discriminate.
Qed.

Lemma sym_run_one : forall lt dt st s st1 s1,
  sym1 lt dt st s = SCont st1 s1 -> sym_run lt dt st s st1 s1 false.
Proof. intros. eapply sr_step; [eassumption|apply sr_refl]. Qed.

(* ---------------------------------------------------------------- the window, with the
   number of bytes produced: olen st = w + D for a constant D *)
Definition winD (D : N) (out : arr) (w : N) (st : ostate) : Prop :=
  win_rel out w st /\ olen st = w + D.

Lemma winD_ext : forall D out out' w st, winD D out w st -> agree_below out' out w -> winD D out' w st.
Proof.
  intros D out out' w st [(A1 & A2 & A3 & A4 & A5) HD] H. split; [|exact HD].
  repeat split; try assumption. intros i Hi. rewrite H by lia. apply A5. exact Hi.
Qed.

(* the byte is already in the array *)
Lemma winD_push_in : forall D out w st x, winD D out w st -> aget out w = x ->
  winD D out (w + 1) (push x st).
Proof.
  intros D out w st x [(A1 & A2 & A3 & A4 & A5) HD] Hx. split.
  - unfold win_rel, push. cbn [rout olen oavail length].
    split; [lia|]. split; [lia|]. split; [lia|]. split; [lia|].
    intros i Hi. destruct (N.eq_dec i 0) as [->|Hn].
    + cbn [N.to_nat nth]. replace (w + 1 - 1 - 0) with w by lia. exact Hx.
    + replace (N.to_nat i) with (S (N.to_nat (i - 1))) by lia. cbn [nth].
      replace (w + 1 - 1 - i) with (w - 1 - (i - 1)) by lia. apply A5. lia.
  - unfold push. cbn [olen]. lia.
Qed.

Lemma winD_push : forall D out w st x, winD D out w st -> winD D (aset out w x) (w + 1) (push x st).
Proof.
  intros D out w st x H. apply winD_push_in; [|apply aget_aset_same].
  apply (winD_ext D out); [exact H|]. apply agree_below_aset. lia.
Qed.

(* byteCopy *)
Lemma byteCopy_nat_agree : forall n h c d, agree_below (byteCopy_nat n h c d) h c.
Proof.
  induction n as [|n IH]; intros h c d; cbn [byteCopy_nat]; [apply agree_below_refl|].
  eapply agree_below_trans; [eapply agree_below_le; [apply IH|lia]|].
  apply agree_below_aset. lia.
Qed.

Lemma byteCopy_agree : forall h c d len, agree_below (byteCopy h c d len) h c.
Proof. intros. apply byteCopy_nat_agree. Qed.

Lemma byteCopy_nat_add : forall a b h c d,
  byteCopy_nat (a + b) h c d = byteCopy_nat b (byteCopy_nat a h c d) (c + N.of_nat a) d.
Proof.
  induction a as [|a IH]; intros b h c d.
  - cbn [byteCopy_nat Nat.add]. f_equal. lia.
  - cbn [byteCopy_nat Nat.add]. rewrite IH. f_equal. lia.
Qed.

Lemma byteCopy_add : forall h c d a b,
  byteCopy h c d (a + b) = byteCopy (byteCopy h c d a) (c + a) d b.
Proof.
  intros h c d a b. unfold byteCopy. rewrite N2Nat.inj_add, byteCopy_nat_add. f_equal. lia.
Qed.

Lemma byteCopy_0 : forall h c d, byteCopy h c d 0 = h.
Proof. reflexivity. Qed.

Lemma window_copy_nat : forall n out w rv d,
  1 <= d -> d <= w ->
  (forall i, i < w -> aget out (w - 1 - i) = nth (N.to_nat i) rv 0) ->
  forall i, i < w + N.of_nat n ->
    aget (byteCopy_nat n out w d) (w + N.of_nat n - 1 - i)
    = nth (N.to_nat i) (LZ77.copy_from rv d n) 0.
Proof.
  induction n as [|n IH]; intros out w rv d H1 H2 Hw i Hi.
  - cbn [byteCopy_nat LZ77.copy_from]. replace (w + N.of_nat 0) with w in * by lia. apply Hw. exact Hi.
  - cbn [byteCopy_nat LZ77.copy_from].
    replace (w + N.of_nat (S n)) with (w + 1 + N.of_nat n) in * by lia.
    apply IH; [exact H1|lia| |exact Hi].
    intros j Hj. destruct (N.eq_dec j 0) as [->|Hn].
    + cbn [N.to_nat nth]. replace (w + 1 - 1 - 0) with w by lia. rewrite aget_aset_same.
      replace (w - d) with (w - 1 - (d - 1)) by lia. rewrite Hw by lia. f_equal. lia.
    + replace (N.to_nat j) with (S (N.to_nat (j - 1))) by lia. cbn [nth].
      rewrite aget_aset_other by lia.
      replace (w + 1 - 1 - j) with (w - 1 - (j - 1)) by lia. apply Hw. lia.
Qed.

Lemma winD_copy : forall D out w st d len,
  winD D out w st -> 1 <= d -> d <= w ->
  winD D (byteCopy out w d len) (w + len) (copy_match len d st).
Proof.
  intros D out w st d len [(A1 & A2 & A3 & A4 & A5) HD] H1 H2.
  destruct (SymbolsProofs.copy_match_fields len d st H1 ltac:(lia)) as (F1 & F2 & F3 & F4).
  split.
  - unfold win_rel. rewrite F2, F3.
    split; [lia|]. split; [lia|]. split; [lia|]. split; [lia|].
    intros i Hi. rewrite SymbolsProofs.copy_match_rout by lia.
    unfold byteCopy.
    pose proof (window_copy_nat (N.to_nat len) out w (rout st) d H1 H2 A5 i ltac:(lia)) as H.
    rewrite N2Nat.id in H. exact H.
  - rewrite F2. lia.
Qed.

(* ---------------------------------------------------------------- the overflow flush *)
Definition arr4 (h : arr) (idx v : N) : arr :=
  aset (aset (aset (aset h idx (N.land v 255)) (idx + 1) (N.land (N.shiftr v 8) 255))
             (idx + 2) (N.land (N.shiftr v 16) 255)) (idx + 3) (N.shiftr v 24).

Definition flush_arr (o : ovf) (h : arr) (idx : N) : arr * N :=
  let '(h1, i1) :=
    if negb (writeOverflowLen o =? 0) then (arr4 h idx (u32 (writeOverflowLits o)), idx + writeOverflowLen o)
    else (h, idx) in
  if negb (copyOverflowLength o =? 0) then
    (byteCopy h1 i1 (copyOverflowDistance o) (copyOverflowLength o), i1 + copyOverflowLength o)
  else (h1, i1).

Definition flush_ovf (o : ovf) : ovf :=
  mkOV (if writeOverflowLen o =? 0 then writeOverflowLits o else 0) (if writeOverflowLen o =? 0 then writeOverflowLen o else 0)
       (if copyOverflowLength o =? 0 then copyOverflowLength o else 0)
       (if copyOverflowLength o =? 0 then copyOverflowDistance o else 0).

Lemma flush_ov_eq : forall s h idx,
  flush_ov s h idx = (set_ov s (flush_ovf (ov s)), fst (flush_arr (ov s) h idx), snd (flush_arr (ov s) h idx)).
Proof.
  intros [r i [wl wn cl cd] t ph bf lb hb hbuf dy ro] h idx.
  unfold flush_ov, flush_arr, flush_ovf, arr4.
  cbn [ov writeOverflowLits writeOverflowLen copyOverflowLength copyOverflowDistance].
  destruct (wn =? 0) eqn:E1; cbn [negb];
    cbn [set_wov set_ov ov writeOverflowLits writeOverflowLen copyOverflowLength copyOverflowDistance];
    destruct (cl =? 0) eqn:E2; cbn [negb fst snd];
    cbn [set_cov set_ov ov writeOverflowLits writeOverflowLen copyOverflowLength copyOverflowDistance
         rd inputNil tb phase bfinal litBlockLength headerBuffered headerBuffer dyn roffset];
    reflexivity.
Qed.

Lemma arr4_agree : forall h idx v, agree_below (arr4 h idx v) h idx.
Proof.
  intros h idx v i Hi. unfold arr4. rewrite !aget_aset_other by lia. reflexivity.
Qed.

Lemma arr4_0 : forall h idx v, aget (arr4 h idx v) idx = N.land v 255.
Proof. intros. unfold arr4. rewrite !aget_aset_other by lia. apply aget_aset_same. Qed.
Lemma arr4_1 : forall h idx v, aget (arr4 h idx v) (idx + 1) = N.land (N.shiftr v 8) 255.
Proof. intros. unfold arr4. rewrite !aget_aset_other by lia. apply aget_aset_same. Qed.
Lemma arr4_2 : forall h idx v, aget (arr4 h idx v) (idx + 2) = N.land (N.shiftr v 16) 255.
Proof. intros. unfold arr4. rewrite !aget_aset_other by lia. apply aget_aset_same. Qed.

(* ---------------------------------------------------------------- packed symbols *)
Definition lit_sym (x : N * nat) : Prop := fst x < 256.

Definition pushes (l : list (N * nat)) (st : ostate) : ostate :=
  fold_left (fun a x => push (fst x) a) l st.

Lemma land_255 : forall x, N.land x 255 = x mod 256.
Proof. intros x. change 255 with (N.ones 8). rewrite N.land_ones. reflexivity. Qed.
Lemma land_ffff : forall x, N.land x 65535 = x mod 65536.
Proof. intros x. change 65535 with (N.ones 16). rewrite N.land_ones. reflexivity. Qed.
Lemma shiftr_8 : forall x, N.shiftr x 8 = x / 256.
Proof. intros x. rewrite N.shiftr_div_pow2. reflexivity. Qed.
Lemma shiftr_16 : forall x, N.shiftr x 16 = x / 65536.
Proof. intros x. rewrite N.shiftr_div_pow2. reflexivity. Qed.
Lemma u32_mod : forall x, u32 x = x mod 4294967296.
Proof. intros x. unfold u32, mask32. change 4294967295 with (N.ones 32). rewrite N.land_ones. reflexivity. Qed.

Ltac Zify.zify_post_hook ::= Z.div_mod_to_equations.

Lemma pack_byte0 : forall a T, a < 256 -> N.land (u32 (a + 256 * T)) 255 = a.
Proof. intros a T Ha. rewrite u32_mod, land_255. lia. Qed.
Lemma pack_byte1 : forall a b T, a < 256 -> b < 256 ->
  N.land (N.shiftr (u32 (a + 256 * (b + 256 * T))) 8) 255 = b.
Proof. intros a b T Ha Hb. rewrite u32_mod, shiftr_8, land_255. lia. Qed.
Lemma pack_byte2 : forall a b c T, a < 256 -> b < 256 -> c < 256 ->
  N.land (N.shiftr (u32 (a + 256 * (b + 256 * (c + 256 * T)))) 16) 255 = c.
Proof. intros a b c T Ha Hb Hc. rewrite u32_mod, shiftr_16, land_255. lia. Qed.

Lemma pack_shift8 : forall a T, a < 256 -> N.shiftr (a + 256 * T) 8 = T.
Proof. intros a T Ha. rewrite shiftr_8. lia. Qed.
Lemma pack_low : forall a T, a < 256 -> N.land (N.land (a + 256 * T) 65535) 255 = a.
Proof. intros a T Ha. rewrite land_ffff, land_255. lia. Qed.

Lemma pack_app_shift : forall lits t, Forall lit_sym lits ->
  N.shiftr (pack_syms (lits ++ t)) (8 * N.of_nat (length lits)) = pack_syms t.
Proof.
  induction lits as [|[a la] r IH]; intros t H.
  - cbn [app length]. apply N.shiftr_0_r.
  - inversion H as [|x y Ha Hr]; subst. unfold lit_sym in Ha. cbn [fst] in Ha.
    cbn [app length pack_syms].
    replace (8 * N.of_nat (S (length r))) with (8 + 8 * N.of_nat (length r)) by lia.
    rewrite <- N.shiftr_shiftr. rewrite pack_shift8 by exact Ha. apply IH. exact Hr.
Qed.

(* all but the last are literals: split off the last *)
Lemma lits_then_any_split : forall pend, pend <> [] -> lits_then_any pend ->
  exists lits x, pend = lits ++ [x] /\ Forall lit_sym lits.
Proof.
  induction pend as [|[a la] r IH]; intros Hne H; [contradiction|].
  destruct r as [|y r'].
  - exists [], (a, la). split; [reflexivity|constructor].
  - cbn [lits_then_any] in H. destruct H as [Ha Hr].
    destruct (IH ltac:(discriminate) Hr) as (lits & x & E & F).
    exists ((a, la) :: lits), x. rewrite E. split; [reflexivity|].
    constructor; [exact Ha|exact F].
Qed.

(* the flushed literals *)
Lemma winD_arr4_lits : forall D out w st lits t,
  winD D out w st -> Forall lit_sym lits -> (length lits <= 3)%nat ->
  winD D (arr4 out w (u32 (pack_syms (lits ++ t)))) (w + N.of_nat (length lits)) (pushes lits st).
Proof.
  intros D out w st lits t H F Hl.
  set (v := u32 (pack_syms (lits ++ t))).
  assert (H0 : winD D (arr4 out w v) w st) by (apply (winD_ext D out); [exact H|apply arr4_agree]).
  destruct lits as [|[a la] [|[b lb] [|[c lc] [|x r]]]]; cbn [length] in Hl; try lia.
  - cbn [length pushes fold_left]. replace (w + N.of_nat 0) with w by lia. exact H0.
  - inversion F as [|x y Ha _]; subst. unfold lit_sym in Ha; cbn [fst] in Ha.
    cbn [length pushes fold_left fst]. replace (w + N.of_nat 1) with (w + 1) by lia.
    apply winD_push_in; [exact H0|]. rewrite arr4_0. unfold v. cbn [app pack_syms].
    apply pack_byte0. exact Ha.
  - inversion F as [|x y Ha F1]; subst. inversion F1 as [|x y Hb _]; subst.
    unfold lit_sym in Ha, Hb; cbn [fst] in Ha, Hb.
    cbn [length pushes fold_left fst]. replace (w + N.of_nat 2) with (w + 1 + 1) by lia.
    apply winD_push_in; [apply winD_push_in; [exact H0|]|].
    + rewrite arr4_0. unfold v. cbn [app pack_syms]. apply pack_byte0. exact Ha.
    + rewrite arr4_1. unfold v. cbn [app pack_syms]. apply pack_byte1; assumption.
  - inversion F as [|x y Ha F1]; subst. inversion F1 as [|x y Hb F2]; subst.
    inversion F2 as [|x y Hc _]; subst.
    unfold lit_sym in Ha, Hb, Hc; cbn [fst] in Ha, Hb, Hc.
    cbn [length pushes fold_left fst]. replace (w + N.of_nat 3) with (w + 1 + 1 + 1) by lia.
    apply winD_push_in; [apply winD_push_in; [apply winD_push_in; [exact H0|]|]|].
    + rewrite arr4_0. unfold v. cbn [app pack_syms]. apply pack_byte0. exact Ha.
    + rewrite arr4_1. unfold v. cbn [app pack_syms]. apply pack_byte1; assumption.
    + replace (w + 1 + 1) with (w + 2) by lia.
      rewrite arr4_2. unfold v. cbn [app pack_syms]. apply pack_byte2; assumption.
Qed.
