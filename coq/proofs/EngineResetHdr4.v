(* EngineResetHdr4.v -- Reset-equivalence proof, dynamic header, part 4:
   setAndExpandLitLenHuffCode on two dynHdr values that differ in their stale scratch arrays
   (codeList, nextCode, lenHuffCodes): same error, same huffs / litCount, and the two codeLists
   agree on every slot below litCount[22] (each of those slots is written).
   expand_spec_ex is expand_spec of EngineResetDepExpand.v with the final litExpandCount kept. *)
From Coq Require Import List NArith ZArith Bool Lia ZifyBool ZifyNat ZifyN.
From Verif Require Import Base Engine EngineTables EngineSafetyBase EngineSafetyBits EngineSafetyInv.
From Verif Require Import EngineResetDepExpand EngineResetDefs EngineResetHdr1.
Import ListNotations.
Open Scope N_scope.

Section SortX.
  Variable E : N -> N.
  Hypothesis Hsum : Soff E 22 <= 514.
  Local Notation Soff := (Soff E).
  Local Notation placed := (placed E).
  Local Notation expand_inv := (expand_inv E).
  Local Notation inner_inv := (inner_inv E).
  Local Notation inner_spec := (inner_spec E Hsum).
  Local Notation placed_weaken := (placed_weaken E Hsum).
  Local Notation Soff_succ := (Soff_succ E).
  Local Notation Soff_mono := (Soff_mono E).

  Lemma expand_spec_ex : forall (A : N -> N) huff cl ex nc lh,
    placed 257 A huff cl ->
    (forall i, i < 29 -> hc_len (aget lh i) <= 15) ->
    (forall L, 1 <= L <= 21 -> aget ex L = Soff L + A L) ->
    (forall L, 1 <= L <= 21 -> A L + cntB lh 29 L <= E L) ->
    exists hf' cl' ex' nc',
      expandLenCodes huff cl ex nc lh = (hf', cl', ex', nc', false) /\
      placed 514 (fun L => A L + cntB lh 29 L) hf' cl' /\
      (forall L, 1 <= L <= 21 -> aget ex' L = Soff L + A L + cntB lh 29 L).
  Proof.
    intros A huff cl ex nc lh Hpl H15 Hex HE. unfold expandLenCodes.
    match goal with |- context [forN 0 29 ?f ?s] =>
      assert (Hinv : expand_inv lh A 29 (forN 0 29 f s)) end.
    { apply (forN_ind _ (expand_inv lh A)).
      - lia.
      - unfold EngineResetDepExpand.expand_inv, litSymbolsSize. change (N.to_nat 0) with O. cbn [xsum cntB].
        split; [reflexivity|]. split; [lia|]. split.
        + apply (placed_weaken 257 _ A); [exact Hpl|lia|]. intros L HL. lia.
        + intros L HL. rewrite (Hex L HL). lia.
      - intros n st Hn Hst. destruct st as [[[[[hf cl'] ex'] nc'] xi] pan].
        unfold EngineResetDepExpand.expand_inv in Hst. destruct Hst as (Hpan & Hxi & Hpl' & Hex'). subst pan.
        cbv beta iota zeta.
        destruct (len_extra_facts n (proj2 Hn)) as (He5 & Hxw & Hpow).
        pose proof (H15 n (proj2 Hn)) as Hl15.
        assert (HcB : forall L, cntB lh (N.to_nat (n + 1)) L = cntB lh (N.to_nat n) L + xitem lh n L).
        { intros L. apply cntB_succ. }
        pose proof (xsum_succ n) as Hxs.
        assert (Hx514 : 257 + xsum (N.to_nat (n + 1)) <= 514).
        { pose proof (xsum_mono (N.to_nat (n + 1)) 29). rewrite xsum_29 in H. lia. }
        fold (xw n).
        set (e := aget rfc_len_extra n) in *.
        set (l := hc_len (aget lh n)) in *.
        assert (Hmono : forall L, cntB lh (N.to_nat (n + 1)) L <= cntB lh 29 L).
        { intros L. apply cntB_mono. lia. }
        destruct (N.eqb_spec l 0) as [Hl0|Hl0].
        + assert (Hit : forall L, xitem lh n L = 0).
          { intros L. unfold xitem. fold l. rewrite Hl0. reflexivity. }
          unfold EngineResetDepExpand.expand_inv. split; [reflexivity|]. split; [lia|]. split.
          * apply (placed_weaken xi _ (fun L => A L + cntB lh (N.to_nat n) L)); [exact Hpl'|lia|].
            intros L HL. rewrite HcB, Hit. lia.
          * intros L HL. rewrite HcB, Hit, (Hex' L HL). lia.
        + assert (HL : 1 <= l + e <= 21) by lia.
          assert (Hit : forall L, xitem lh n L = if L =? l + e then xw n else 0).
          { intros L. unfold xitem. fold l. fold e.
            destruct (N.eqb_spec l 0) as [|_]; [contradiction|]. cbn [negb andb].
            destruct (N.eqb_spec (l + e) L) as [<-|Hne].
            - rewrite N.eqb_refl. reflexivity.
            - destruct (N.eqb_spec L (l + e)); [congruence|reflexivity]. }
          rewrite (Hex' (l + e) HL).
          set (code := bitReverse2 (u16 (aget nc' l)) l).
          set (fill := fun L => A L + cntB lh (N.to_nat n) L) in *.
          set (ins := Soff (l + e) + A (l + e) + cntB lh (N.to_nat n) (l + e)).
          assert (HfL : fill (l + e) + xw n <= E (l + e)).
          { unfold fill. pose proof (HE (l + e) HL). pose proof (Hmono (l + e)) as Hm.
            rewrite HcB, Hit, N.eqb_refl in Hm. lia. }
          assert (Hfill : forall L', 1 <= L' <= 21 -> fill L' <= E L').
          { intros L' HL'. unfold fill. pose proof (HE L' HL'). pose proof (Hmono L') as Hm.
            rewrite HcB in Hm. lia. }
          pose proof (inner_spec (fun extra => hc_set (N.lor code (shl32 extra l)) (l + e))
                        fill (l + e) ins xi (xw n) hf cl' Hpl' HL
                        ltac:(unfold ins, fill; lia) HfL Hfill ltac:(lia)) as Hin.
          match type of Hin with _ -> inner_inv _ _ _ _ ?t =>
            destruct t as [[hf2 cl2] pan2] eqn:Et end.
          unfold EngineResetDepExpand.inner_inv in Hin. destruct Hin as [Hpan2 Hpl2].
          { intros x Hx. split; [|apply hc_set_lt].
            apply hc_len_set; [|lia].
            change 16777216 with (2 ^ 24). apply lor_lt_pow2.
            - pose proof (bitReverse2_lt (u16 (aget nc' l)) l). fold code in H.
              change (2 ^ 24) with 16777216. lia.
            - unfold shl32. destruct (32 <=? l) eqn:E32; [lia|].
              pose proof (land_le_l (N.shiftl x l) mask32) as H1. fold (u32 (N.shiftl x l)) in H1.
              assert (H2 : N.shiftl x l < 2 ^ (5 + l)).
              { apply shiftl_lt_pow2. change (2 ^ 5) with 32. lia. }
              assert (H3 : 2 ^ (5 + l) <= 2 ^ 24) by (apply N.pow_le_mono_r; lia).
              lia. }
          subst pan2.
          unfold EngineResetDepExpand.expand_inv. split; [reflexivity|]. split; [lia|]. split.
          * apply (placed_weaken _ _ _ _ _ _ Hpl2); [lia|].
            intros L' HL'. unfold fill. rewrite HcB, Hit. lia.
          * intros L' HL'. rewrite aget_aset, HcB, Hit.
            destruct (N.eqb_spec L' (l + e)) as [->|Hne].
            -- assert (Hb : ins + xw n <= 514).
               { pose proof (Soff_succ (l + e) (proj1 HL)) as S1.
                 pose proof (Soff_mono (l + e + 1) 22) as M. unfold ins. unfold fill in HfL. lia. }
               rewrite u16_small by lia. unfold ins. lia.
            -- rewrite (Hex' L' HL'). lia. }
    destruct (forN 0 29 _ _) as [[[[[hf' cl'] ex'] nc'] xi] pan].
    unfold EngineResetDepExpand.expand_inv in Hinv. destruct Hinv as (Hpan & Hxi & Hpl' & Hexf). subst pan.
    exists hf', cl', ex', nc'. split; [reflexivity|].
    change (N.to_nat 29) with 29%nat in *. rewrite xsum_29 in Hxi.
    split; [|exact Hexf].
    apply (placed_weaken xi _ _ _ _ _ Hpl'); [lia|]. intros L HL. reflexivity.
  Qed.
End SortX.

(* ---------------------------------------------------------------- the prefix-sum loop, two nextCodes *)
Lemma ps_loop1_sim : forall lc ex nc1 nc2 ctmp,
  agree 2 nc1 nc2 ->
  exists ex1 n1 n2 ct1 cm1,
    ps_loop1 lc ex nc1 ctmp = (ex1, n1, ct1, cm1) /\ ps_loop1 lc ex nc2 ctmp = (ex1, n2, ct1, cm1) /\
    agree 16 n1 n2.
Proof.
  intros lc ex nc1 nc2 ctmp Hnc. unfold ps_loop1.
  match goal with |- context [forN 1 15 ?f (ex, nc1, 0, ctmp)] => set (F := f) end.
  pose (P := fun i (st1 st2 : arr * arr * N * N) =>
     let '(e1, n1, c1, m1) := st1 in let '(e2, n2, c2, m2) := st2 in
     e1 = e2 /\ c1 = c2 /\ m1 = m2 /\ agree (i + 1) n1 n2).
  assert (HI : P 15 (forN 1 15 F (ex, nc1, 0, ctmp)) (forN 1 15 F (ex, nc2, 0, ctmp))).
  { apply (forN_ind2 _ _ P).
    - lia.
    - unfold P. repeat split; try reflexivity. exact Hnc.
    - intros i [[[e1 n1] c1] m1] [[[e2 n2] c2] m2] Hi (He & Hc & Hm & Hn). subst e2 c2 m2.
      unfold F, P. rewrite <- (Hn i) by lia.
      split; [reflexivity|]. split; [reflexivity|]. split; [reflexivity|].
      replace (i + 1 + 1) with ((i + 1) + 1) by lia. apply agree_aset_next. exact Hn. }
  unfold P in HI.
  destruct (forN 1 15 F (ex, nc1, 0, ctmp)) as [[[e1 n1] c1] m1].
  destruct (forN 1 15 F (ex, nc2, 0, ctmp)) as [[[e2 n2] c2] m2].
  destruct HI as (He & Hc & Hm & Hn). subst e2 c2 m2.
  exists e1, n1, n2, c1, m1. split; [reflexivity|]. split; [reflexivity|exact Hn].
Qed.

(* the slot k < lc[22] lies in the segment of some expanded length L *)
Lemma seg_find : forall (lc : arr) k,
  aget lc 1 = 0 -> (forall L, L < 22 -> aget lc L <= aget lc (L + 1)) -> k < aget lc 22 ->
  exists L, 1 <= L <= 21 /\ aget lc L <= k < aget lc (L + 1).
Proof.
  intros lc k H1 Hm Hk.
  assert (Hn : forall n : nat, (n <= 21)%nat -> k < aget lc (N.of_nat n + 1) ->
            exists L, 1 <= L <= 21 /\ aget lc L <= k < aget lc (L + 1)).
  { induction n as [|n IH]; intros Hn Hlt.
    - change (N.of_nat 0 + 1) with 1 in Hlt. lia.
    - destruct (N.lt_ge_cases k (aget lc (N.of_nat n + 1))) as [Hlt'|Hge].
      + apply IH; [lia|exact Hlt'].
      + exists (N.of_nat (S n)). split; [lia|]. split; [|exact Hlt].
        replace (N.of_nat (S n)) with (N.of_nat n + 1) by lia. exact Hge. }
  apply (Hn 21%nat); [lia|]. change (N.of_nat 21 + 1) with 22. exact Hk.
Qed.

(* ---------------------------------------------------------------- setAndExpandLitLenHuffCode *)
Theorem setAndExpand_sim : forall d1 d2 d1' e1 d2' e2,
  litAndDistHuff d1 = litAndDistHuff d2 -> litCount d1 = litCount d2 ->
  litExpandCount d1 = litExpandCount d2 ->
  rl_post_lit (litAndDistHuff d1) (litCount d1) (litExpandCount d1) ->
  setAndExpandLitLenHuffCode d1 = (d1', e1) -> setAndExpandLitLenHuffCode d2 = (d2', e2) ->
  e1 = e2 /\
  (e1 = ENone -> litAndDistHuff d1' = litAndDistHuff d2' /\ litCount d1' = litCount d2' /\
     litlen_sorted d1' /\ agree (aget (litCount d1') 22) (codeList d1') (codeList d2')).
Proof.
  intros d1 d2 d1' e1 d2' e2 Hh Hlc Hex Hpost H1 H2.
  rewrite setAndExpand_eq in H1, H2. rewrite <- Hh, <- Hlc, <- Hex in H2.
  set (h := litAndDistHuff d1) in *. set (lc := litCount d1) in *.
  set (ex0 := litExpandCount d1) in *.
  set (lh1 := forN 0 29 (fun i t => aset t i (aget h (litSymbolsSize + i))) (lenHuffCodes d1)) in *.
  set (lh2 := forN 0 29 (fun i t => aset t i (aget h (litSymbolsSize + i))) (lenHuffCodes d2)) in *.
  assert (Hlh1 : forall i, i < 29 -> aget lh1 i = aget h (257 + i)).
  { intros i Hi.
    pose proof (forN_aset_get (fun i => aget h (litSymbolsSize + i)) 0 29 (lenHuffCodes d1) i
                  ltac:(lia)) as Hg.
    cbv beta in Hg. unfold lh1. rewrite Hg.
    replace ((0 <=? i) && (i <? 29)) with true by lia. reflexivity. }
  assert (Hlh2 : forall i, i < 29 -> aget lh2 i = aget h (257 + i)).
  { intros i Hi.
    pose proof (forN_aset_get (fun i => aget h (litSymbolsSize + i)) 0 29 (lenHuffCodes d2) i
                  ltac:(lia)) as Hg.
    cbv beta in Hg. unfold lh2. rewrite Hg.
    replace ((0 <=? i) && (i <? 29)) with true by lia. reflexivity. }
  assert (Hlh : agree 29 lh1 lh2) by (intros i Hi; rewrite Hlh1, Hlh2 by exact Hi; reflexivity).
  pose proof (Ecnt_sum h lh1) as Hsum.
  pose proof (Ecnt_congr_low h lh1 lc ex0 Hlh1 Hpost) as Hlow.
  pose proof (Ecnt_congr_high h lh1 lc ex0 Hlh1 Hpost) as Hhigh.
  assert (HEL : forall L, Ecnt h lh1 L = count_len h 0 257 L + cntB lh1 29 L)
    by (intros L; reflexivity).
  remember (Ecnt h lh1) as E eqn:HEdef. clear HEdef.
  pose proof (ps_loop1_spec E Hsum lc ex0 (aset (aset (nextCode d1) 0 0) 1 0) Hlow) as S1.
  destruct (ps_loop1_sim lc (aset (aset ex0 0 0) 1 0) (aset (aset (nextCode d1) 0 0) 1 0)
              (aset (aset (nextCode d2) 0 0) 1 0) (aget ex0 1))
    as (ex1 & n1 & n2 & ct1 & ctmp1 & P1 & P2 & Hn).
  { intros i Hi. rewrite !aget_aset.
    destruct (N.eqb_spec i 1); [reflexivity|]. destruct (N.eqb_spec i 0); [reflexivity|lia]. }
  rewrite P1 in S1, H1. rewrite P2 in H2.
  unfold ps1_inv in S1. destruct S1 as (Hct1 & Hctmp1 & Hlo1 & Hhi1).
  assert (H15 : ps2_inv E ex0 15 (ex1, ct1, u32 (aget lc 15 + ctmp1))).
  { unfold ps2_inv. split; [exact Hct1|]. split; [|split; assumption].
    rewrite mod16_u32, Hctmp1. apply Hlow. lia. }
  pose proof (ps_loop2_spec E Hsum ex0 ex1 ct1 _ Hhigh H15) as S2.
  destruct (ps_loop2 ex1 ct1 (u32 (aget lc 15 + ctmp1))) as [[ex2 ct2] ctmp2].
  unfold ps2_inv in S2. destruct S2 as (_ & _ & Hlo2 & _).
  rewrite <- (Hn 15) in H2 by lia.
  destruct (32768 <? u32 (aget n1 15 + aget lc 15)) eqn:Emx.
  { injection H1 as _ He1. injection H2 as _ He2. subst e1 e2.
    split; [reflexivity|]. intros Hc; discriminate Hc. }
  cbv zeta in H1, H2.
  set (huff1 := forN litSymbolsSize litLenElems (fun i t => aset t i 0) h) in *.
  assert (Hh1 : forall j, aget huff1 j = if (257 <=? j) && (j <? 514) then 0 else aget h j).
  { intros j. apply (forN_aset_get (fun _ => 0)). unfold litSymbolsSize, litLenElems. lia. }
  set (lc' := forN 0 maxLitLenCount (fun i t => aset t i (aget ex2 i)) lc) in *.
  assert (Hlc' : forall j, aget lc' j = if (0 <=? j) && (j <? 23) then aget ex2 j else aget lc j).
  { intros j. apply (forN_aset_get (fun i => aget ex2 i)). unfold maxLitLenCount. lia. }
  destruct Hpost as (Hok & _).
  assert (HcntA : forall L, count_len huff1 0 257 L = count_len h 0 257 L).
  { intros L. apply count_len_ext. intros i Hi. rewrite Hh1.
    replace ((257 <=? i) && (i <? 514)) with false by lia. reflexivity. }
  assert (H15h : forall i, i < 257 -> hc_len (aget huff1 i) <= 15).
  { intros i Hi. rewrite Hh1. destruct ((257 <=? i) && (i <? 514)); [|apply Hok].
    change (hc_len 0) with 0. lia. }
  (* single run: calc *)
  assert (Hc : calc_inv E huff1 257 (calcCodeForLit huff1 (codeList d1) ex2 n1)).
  { apply (calc_spec E Hsum).
    - intros i. rewrite Hh1. destruct ((257 <=? i) && (i <? 514)); [lia|apply Hok].
    - exact H15h.
    - intros L HL. apply Hlo2. lia.
    - intros L HL. rewrite HcntA, HEL. lia. }
  (* two runs: calc *)
  pose proof (calc_sim ex2 huff1 (codeList d1) (codeList d2) ex2 n1 n2 H15h Hn) as Hcs.
  destruct (calcCodeForLit huff1 (codeList d1) ex2 n1) as [[[[hf2 cl2a] ex3] nc2a] pan1].
  destruct (calcCodeForLit huff1 (codeList d2) ex2 n2) as [[[[hf2b cl2b] ex3b] nc2b] pan1b].
  unfold calc_P in Hcs. destruct Hcs as (Q1 & Q2 & Q3 & Q4 & Q5 & _).
  { intros k [L HL]. lia. }
  subst hf2b ex3b pan1b.
  unfold calc_inv in Hc. destruct Hc as (Hpan1 & Hpl & Hex3 & _). subst pan1.
  change (N.to_nat 257) with 257%nat in Hpl, Hex3.
  (* single run: expand *)
  destruct (expand_spec_ex E Hsum (fun L => count_len huff1 0 257 L) hf2 cl2a ex3 nc2a lh1 Hpl)
    as (hf3 & cl3 & ex4 & nc3 & Heq & Hpl3 & Hex4).
  { intros i Hi. rewrite (Hlh1 i Hi). apply Hok. }
  { exact Hex3. }
  { intros L HL. rewrite HcntA, HEL. lia. }
  (* two runs: expand *)
  pose proof (expand_sim ex2 hf2 cl2a cl2b ex3 nc2a nc2b lh1 lh2 Hlh) as Hes.
  rewrite Heq in Hes, H1.
  destruct (expandLenCodes hf2 cl2b ex3 nc2b lh2) as [[[[hf3b cl3b] ex4b] nc3b] pan2b].
  unfold expand_Q in Hes. destruct Hes as (R1 & R2 & R3 & R4).
  { intros i Hi. rewrite (Hlh1 i Hi). apply Hok. }
  { exact Q4. }
  { exact Q5. }
  subst hf3b ex4b pan2b. cbn [orb] in H1, H2.
  injection H1 as Hd1 He1. injection H2 as Hd2 He2. subst d1' d2' e1 e2.
  split; [reflexivity|]. intros _.
  cbn [litAndDistHuff litCount codeList].
  split; [reflexivity|]. split; [reflexivity|].
  assert (HlcS : forall L, L <= 22 -> aget lc' L = Soff E L).
  { intros L HL. rewrite Hlc'. replace ((0 <=? L) && (L <? 23)) with true by lia.
    apply Hlo2. exact HL. }
  assert (Hl1 : aget lc' 1 = 0) by (rewrite HlcS by lia; apply Soff_1).
  assert (Hmono : forall L, L < 22 -> aget lc' L <= aget lc' (L + 1)).
  { intros L HL; rewrite !HlcS by lia; apply Soff_mono; lia. }
  split.
  { unfold litlen_sorted. cbn [litCount codeList litAndDistHuff].
    destruct Hpl3 as [H32 Hsl].
    split; [rewrite HlcS by lia; apply Soff_0|].
    split; [exact Hl1|].
    split; [exact Hmono|].
    split; [rewrite HlcS by lia; exact Hsum|].
    split; [exact H32|].
    intros L k HL Hk. rewrite !HlcS in Hk by lia.
    destruct (N.eq_dec L 0) as [HL0|HL0].
    { subst L. change (0 + 1) with 1 in Hk. rewrite Soff_0, Soff_1 in Hk. lia. }
    apply Hsl; [lia|]. rewrite Soff_succ in Hk by lia.
    rewrite HcntA. rewrite HEL in Hk. exact Hk. }
  intros k Hk.
  destruct (seg_find lc' k Hl1 Hmono Hk) as (L & HL & Hseg).
  apply (R4 eq_refl). exists L.
  rewrite !Hlc' in Hseg. replace ((0 <=? L) && (L <? 23)) with true in Hseg by lia.
  replace ((0 <=? L + 1) && (L + 1 <? 23)) with true in Hseg by lia.
  rewrite (Hex4 L HL). rewrite (Hlo2 (L + 1)) in Hseg by lia.
  rewrite (Soff_succ E L) in Hseg by lia. rewrite HEL in Hseg.
  rewrite HcntA. lia.
Qed.
