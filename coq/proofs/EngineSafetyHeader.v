(* EngineSafetyHeader.v -- item 3/6: the block-header parser of RModel/Engine.v never panics and
   never runs out of fuel: setupDynamicHeader, prepareForLitBlock, tryDecodeHeader, readHeader.
   Two explicit hypotheses (Props, see below) are parameters of the theorems that need them:
   LongCodesFit (the long-code groups of an accepted literal/length code fit longCodeLookup[1264])
   and HeaderRestartMonotone (re-parsing a header from the staging buffer consumes at least what
   the failed attempt had consumed). *)
From Verif Require Import Engine EngineTables.
From Verif Require Import Base EngineSafetyBase EngineSafetyBits EngineSafetyInv.
From Verif Require Import EngineSafetyBuf EngineSafetySmall EngineSafetyRL EngineSafetyExpand EngineSafetyDecode
  EngineSafetyLitLen.
From Verif Require Import EngineSafetySuffix.
From Coq Require Import List NArith ZArith Bool Lia ZifyBool ZifyNat ZifyN.
Import ListNotations.
Open Scope N_scope.

(* ---------------------------------------------------------------- the two hypotheses *)
Definition LongCodesFit : Prop :=
  forall d d1,
    rl_post_lit (litAndDistHuff d) (litCount d) (litExpandCount d) ->
    setAndExpandLitLenHuffCode d = (d1, ENone) ->
    long_groups_fit d1.

(* the decode tables: entry invariants of EngineSafetyInv plus the symbol-field invariant of
   EngineSafetyDecode *)
Definition tabs_ok2 (t : tabs) : Prop :=
  tabs_ok t /\ all_entries lit_short_sym_ok (litShort t).

Lemma static_tabs_ok2 :
  tabs_ok2 (mkTB static_lit_short static_lit_long static_dist_short static_dist_long).
Proof. split; [exact static_tabs_ok|exact static_lit_short_sym_ok]. Qed.

Lemma tabs_ok2_empty : tabs_ok2 (mkTB aempty aempty aempty aempty).
Proof.
  split; [exact tabs_ok_empty|]. cbn [litShort]. apply all_entries_empty.
  apply lit_short_sym_okb_ok. vm_compute. reflexivity.
Qed.

(* what the header parser needs of the state *)
Definition hdr_pre (s : inflate) : Prop :=
  br_inv (rd s) /\ (0 <= r_len (rd s))%Z /\ clc_ok (dyn s) /\ tabs_ok2 (tb s).

(* everything but rd, dyn, tb, phase, bfinal, litBlockLength *)
Definition hdr_frame (s s' : inflate) : Prop :=
  inputNil s' = inputNil s /\ ov s' = ov s /\
  headerBuffered s' = headerBuffered s /\ headerBuffer s' = headerBuffer s /\
  roffset s' = roffset s.

Lemma hdr_frame_refl : forall s, hdr_frame s s.
Proof. intros s. unfold hdr_frame. repeat split; reflexivity. Qed.

Lemma hdr_frame_trans : forall a b c, hdr_frame a b -> hdr_frame b c -> hdr_frame a c.
Proof.
  unfold hdr_frame. intros a b c (A1&A2&A3&A4&A5) (B1&B2&B3&B4&B5). repeat split; congruence.
Qed.

Lemma same_outer_frame : forall s s', same_outer s s' -> hdr_frame s s'.
Proof. unfold same_outer, hdr_frame. intros s s' (A1&A2&A3&A4&A5&A6&A7&A8&A9). repeat split; assumption. Qed.

(* ---------------------------------------------------------------- array copies *)
Lemma copy_from_spec : forall src off n t0 j,
  aget (forN 0 n (fun i t => aset t i (aget src (off + i))) t0) j =
  if j <? n then aget src (off + j) else aget t0 j.
Proof.
  intros src off n t0.
  apply (forN_ind arr (fun k t => forall j, aget t j = if j <? k then aget src (off + j) else aget t0 j)).
  - lia.
  - intros j. destruct (j <? 0) eqn:E; [lia|reflexivity].
  - intros k x Hk IH j. rewrite aget_aset. destruct (N.eqb_spec j k) as [->|Hne].
    + replace (k <? k + 1) with true by lia. reflexivity.
    + rewrite IH. destruct (j <? k) eqn:E1; destruct (j <? k + 1) eqn:E2; try lia; reflexivity.
Qed.

Lemma copy_to_spec : forall src off n t0 j,
  aget (forN 0 n (fun i t => aset t (off + i) (aget src i)) t0) j =
  if (off <=? j) && (j <? off + n) then aget src (j - off) else aget t0 j.
Proof.
  intros src off n t0.
  apply (forN_ind arr (fun k t => forall j, aget t j =
           if (off <=? j) && (j <? off + k) then aget src (j - off) else aget t0 j)).
  - lia.
  - intros j. destruct ((off <=? j) && (j <? off + 0)) eqn:E; [lia|reflexivity].
  - intros k x Hk IH j. rewrite aget_aset. destruct (N.eqb_spec j (off + k)) as [->|Hne].
    + replace ((off <=? off + k) && (off + k <? off + (k + 1))) with true by lia.
      f_equal. lia.
    + rewrite IH. destruct ((off <=? j) && (j <? off + k)) eqn:E1;
        destruct ((off <=? j) && (j <? off + (k + 1))) eqn:E2; try lia; reflexivity.
Qed.

(* ---------------------------------------------------------------- histograms depend on lengths only *)
Lemma count_len_ext : forall a ba b bb n l,
  (forall k, (k < n)%nat -> hc_len (aget a (ba + N.of_nat k)) = hc_len (aget b (bb + N.of_nat k))) ->
  count_len a ba n l = count_len b bb n l.
Proof.
  intros a ba b bb n l. induction n as [|k IH]; intros H; cbn [count_len]; [reflexivity|].
  rewrite IH by (intros j Hj; apply H; lia). rewrite (H k) by lia. reflexivity.
Qed.

Lemma ex_dec_ext : forall a b n L,
  (forall i, hc_len (aget a i) = hc_len (aget b i)) -> ex_dec a n L = ex_dec b n L.
Proof.
  intros a b n L H. induction n as [|k IH]; cbn [ex_dec]; [reflexivity|].
  rewrite IH, H. reflexivity.
Qed.

Lemma ex_inc_ext : forall a b n L,
  (forall i, hc_len (aget a i) = hc_len (aget b i)) -> ex_inc a n L = ex_inc b n L.
Proof.
  intros a b n L H. induction n as [|k IH]; cbn [ex_inc]; [reflexivity|].
  rewrite IH, H. reflexivity.
Qed.

Lemma rl_post_lit_ext : forall h h' lc ex,
  rl_post_lit h lc ex -> huff_ok h' ->
  (forall i, hc_len (aget h' i) = hc_len (aget h i)) ->
  rl_post_lit h' lc ex.
Proof.
  intros h h' lc ex (H1 & H2 & H3 & H4) Hok Hlen.
  split; [exact Hok|]. split; [|split; [exact H3|]].
  - intros l Hl. rewrite (H2 l Hl). apply count_len_ext. intros k _. symmetry. apply Hlen.
  - intros L HL. rewrite (ex_dec_ext h' h), (ex_inc_ext h' h) by exact Hlen. apply H4, HL.
Qed.

(* ---------------------------------------------------------------- projections of updated states *)
Ltac sproj :=
  cbn [rd inputNil ov tb phase bfinal litBlockLength headerBuffered headerBuffer dyn roffset
       set_rd set_inputNil set_ov set_tb set_phase set_bfinal set_litBlockLength set_header
       set_dyn set_roffset set_dyn_huff set_dyn_counts
       litAndDistHuff clcShort clcLong codeList litCount distCount litExpandCount nextCode lenHuffCodes
       litShort litLong distShort distLong
       r_bits r_len r_in r_inlen br_set_bits br_set_len br_set_in] in *.

(* common post-condition of the header functions *)
Definition hdr_post (s s' : inflate) (e : ierr) : Prop :=
  (e = ENone \/ e = EEndInput \/ e = EInvalidBlock) /\
  br_inv (rd s') /\ (-80 <= r_len (rd s'))%Z /\
  (avail (rd s') <= avail (rd s))%Z /\ r_inlen (rd s') <= r_inlen (rd s) /\
  clc_ok (dyn s') /\
  (e = EEndInput -> r_inlen (rd s') = 0 /\ tb s' = tb s) /\
  (e = ENone -> (0 <= r_len (rd s'))%Z /\ tabs_ok2 (tb s')) /\
  hdr_frame s s'.

Lemma hc_len_setcode : forall h c, h < 4294967296 ->
  hc_setcode h c < 4294967296 /\ hc_len (hc_setcode h c) = hc_len h.
Proof.
  intros h c Hh. unfold hc_setcode, hc_len. split.
  - apply (lor_lt_pow2 _ _ 32).
    + eapply N.le_lt_trans; [apply land_le_l|exact Hh].
    + eapply N.le_lt_trans; [apply land_le_r|]. reflexivity.
  - apply N.bits_inj. intro n. rewrite !N.shiftr_spec by lia. rewrite N.lor_spec, !N.land_spec.
    change 4278190080 with (N.shiftl 255 24).
    change 16777215 with (N.ones 24).
    rewrite N.ones_spec_high by lia. rewrite andb_false_r, orb_false_r.
    rewrite N.shiftl_spec_high by lia.
    replace (n + 24 - 24) with n by lia.
    destruct (N.lt_ge_cases n 8) as [Hn|Hn].
    + change 255 with (N.ones 8). rewrite N.ones_spec_low by exact Hn. apply andb_true_r.
    + change 255 with (N.ones 8). rewrite N.ones_spec_high by exact Hn. rewrite andb_false_r.
      symmetry. apply (testbit_small h 32); [exact Hh|lia].
Qed.

Theorem setupDynamicHeader_spec : forall s s' e,
  LongCodesFit ->
  setupDynamicHeader s = (s', e) -> hdr_pre s ->
  hdr_post s s' e /\ (e = ENone -> phase s' = phaseHeaderDecoded).
Proof.
  intros s s' e HLF H (Hbr & Hlen & Hclc & Htb).
  unfold setupDynamicHeader in H.
  set (d0 := mkDyn aempty (clcShort (dyn s)) (clcLong (dyn s)) (codeList (dyn s)) aempty aempty aempty
                   (nextCode (dyn s)) (lenHuffCodes (dyn s))) in H.
  set (s0 := set_dyn s d0) in H.
  set (multisym := if negb (bfinal s0 =? 0) && (r_inlen (rd s0) <=? 2048) then singleSymFlag
                   else if negb (bfinal s0 =? 0) && (r_inlen (rd s0) <=? 4096) then doubleSymFlag
                   else defaultSymFlag) in H.
  clearbody multisym.
  unfold loadBits in H.
  destruct (load_lt57_spec (rd s0)) as (b1 & L1 & L2 & L3 & L4 & L5); [exact Hbr|].
  rewrite L1 in H.
  assert (Hrd0 : rd s0 = rd s) by reflexivity.
  rewrite Hrd0 in L3, L4, L5.
  assert (Hclc0 : clc_ok d0) by exact Hclc.
  assert (Hfr0 : hdr_frame s (set_rd s0 b1)) by (unfold hdr_frame; repeat split; reflexivity).
  sproj.
  destruct (r_len b1 <? 14)%Z eqn:E14.
  { (* not enough bits *)
    apply pair_equal_spec in H; destruct H as [Hs He]; subst s' e. split; [|intros Hc; discriminate]. unfold hdr_post. sproj.
    destruct L2 as (L2a & L2b).
    split; [right; left; reflexivity|]. split; [exact L2a|]. split; [lia|]. split; [lia|].
    split; [exact L5|]. split; [exact Hclc0|].
    split; [intros _; split; [destruct L2b as [L2b|L2b]; [exact L2b|lia]|reflexivity]|].
    split; [intros Hc; discriminate|exact Hfr0]. }
  rewrite (next_bits_eq b1 5) in H. cbv beta iota zeta in H.
  set (hlit := N.land (r_bits b1) (N.ones 5)) in *.
  set (b2 := br_drop b1 5) in *.
  rewrite (next_bits_eq b2 5) in H. cbv beta iota zeta in H.
  set (hdist := N.land (r_bits b2) (N.ones 5)) in *.
  set (b3 := br_drop b2 5) in *.
  rewrite (next_bits_eq b3 4) in H. cbv beta iota zeta in H.
  set (hclen := N.land (r_bits b3) (N.ones 4)) in *.
  set (b4 := br_drop b3 4) in *.
  destruct (br_drop_ok 57 b1 5 L2 ltac:(lia)) as (D1 & D1a & D1b & D1c & D1d). fold b2 in D1, D1a, D1b, D1c, D1d.
  destruct (br_drop_ok (57 - 5) b2 5 D1 ltac:(lia)) as (D2 & D2a & D2b & D2c & D2d). fold b3 in D2, D2a, D2b, D2c, D2d.
  destruct (br_drop_ok (57 - 5 - 5) b3 4 D2 ltac:(lia)) as (D3 & D3a & D3b & D3c & D3d). fold b4 in D3, D3a, D3b, D3c, D3d.
  assert (Hb4 : br_ok 43 b4) by (apply (br_ok_weaken (57 - 5 - 5 - 4)); [lia|exact D3]).
  assert (Hb4len : (0 <= r_len b4)%Z) by lia.
  assert (Hav4 : (avail b4 <= avail (rd s))%Z) by lia.
  assert (Hin4 : r_inlen b4 <= r_inlen (rd s)) by lia.
  destruct ((29 <? hlit) || (29 <? hdist) || (15 <? hclen)) eqn:Echk.
  { apply pair_equal_spec in H; destruct H as [Hs He]; subst s' e. split; [|intros Hc; discriminate]. unfold hdr_post. sproj.
    split; [right; right; reflexivity|]. split; [exact (proj1 Hb4)|]. split; [lia|]. split; [exact Hav4|].
    split; [exact Hin4|]. split; [exact Hclc0|]. split; [intros Hc; discriminate|].
    split; [intros Hc; discriminate|exact Hfr0]. }
  assert (Hhlit : hlit <= 29) by lia. assert (Hhdist : hdist <= 29) by lia. assert (Hhclen : hclen <= 15) by lia.
  set (s2 := set_rd (set_rd s0 b1) b4) in *.
  destruct (codeLenCodes s2 hclen) as [s3 e3] eqn:ECL.
  pose proof (codeLenCodes_spec_v2 s2 hclen s3 e3 ECL Hhclen) as CL.
  specialize (CL Hb4 Hclc0 Hb4len).
  destruct CL as (CLe & CLclc & CLbr & CLok & CLend & CLav & CLin & CLlo & CLso & CLh & CLcl & CLlc & CLdc & CLex & CLnc & CLlh).
  assert (Hfr3 : hdr_frame s s3).
  { eapply hdr_frame_trans; [exact Hfr0|]. apply same_outer_frame in CLso. exact CLso. }
  assert (Htb3 : tb s3 = tb s) by (destruct CLso as (_&_&Ht&_); exact Ht).
  assert (Hrd2 : rd s2 = b4) by reflexivity. rewrite Hrd2 in CLav, CLin.
  destruct e3; try (exfalso; destruct CLe as [Hc|[Hc|Hc]]; discriminate).
  2:{ (* EEndInput from codeLenCodes *)
    apply pair_equal_spec in H; destruct H as [Hs He]; subst s' e. split; [|intros Hc; discriminate]. unfold hdr_post.
    split; [right; left; reflexivity|]. split; [exact CLbr|]. split; [lia|]. split; [lia|].
    split; [lia|]. split; [exact CLclc|]. split; [intros _; split; [apply CLend; reflexivity|exact Htb3]|].
    split; [intros Hc; discriminate|exact Hfr3]. }
  2:{ apply pair_equal_spec in H; destruct H as [Hs He]; subst s' e. split; [|intros Hc; discriminate]. unfold hdr_post.
    split; [right; right; reflexivity|]. split; [exact CLbr|]. split; [lia|]. split; [lia|].
    split; [lia|]. split; [exact CLclc|]. split; [intros Hc; discriminate|].
    split; [intros Hc; discriminate|exact Hfr3]. }
  destruct (CLok eq_refl) as (CLok1 & CLok2).
  destruct (readLitDistLens s3 hdist hlit) as [s4 e4] eqn:ERL.
  pose proof (readLitDistLens_spec s3 hdist hlit s4 e4 ERL Hhdist Hhlit CLbr CLok2 CLclc) as RL.
  assert (Hd2 : dyn s2 = d0) by reflexivity. rewrite Hd2 in CLh, CLlc, CLdc, CLex.
  specialize (RL CLh CLlc CLdc CLex).
  destruct RL as (RLe & RLbr & RLend & RLav & RLin & RLlo & RLpost & RLso & RLcs & RLcg & RLcl & RLnc & RLlh).
  assert (Hfr4 : hdr_frame s s4).
  { eapply hdr_frame_trans; [exact Hfr3|]. apply same_outer_frame in RLso. exact RLso. }
  assert (Htb4 : tb s4 = tb s) by (destruct RLso as (_&_&Ht&_); congruence).
  assert (Hclc4 : clc_ok (dyn s4)) by (unfold clc_ok in *; rewrite RLcs; exact CLclc).
  destruct e4; try (exfalso; destruct RLe as [Hc|[Hc|Hc]]; discriminate).
  2:{ apply pair_equal_spec in H; destruct H as [Hs He]; subst s' e. split; [|intros Hc; discriminate]. unfold hdr_post.
    split; [right; left; reflexivity|]. split; [exact RLbr|]. split; [lia|]. split; [lia|].
    split; [lia|]. split; [exact Hclc4|]. split; [intros _; split; [apply RLend; reflexivity|exact Htb4]|].
    split; [intros Hc; discriminate|exact Hfr4]. }
  2:{ apply pair_equal_spec in H; destruct H as [Hs He]; subst s' e. split; [|intros Hc; discriminate]. unfold hdr_post.
    split; [right; right; reflexivity|]. split; [exact RLbr|]. split; [lia|]. split; [lia|].
    split; [lia|]. split; [exact Hclc4|]. split; [intros Hc; discriminate|].
    split; [intros Hc; discriminate|exact Hfr4]. }
  specialize (RLpost eq_refl). destruct RLpost as (RPlit & RPdist).
  destruct (r_len (rd s4) <? 0)%Z eqn:Eneg.
  { apply pair_equal_spec in H; destruct H as [Hs He]; subst s' e. split; [|intros Hc; discriminate]. unfold hdr_post.
    split; [right; left; reflexivity|]. split; [exact RLbr|]. split; [lia|]. split; [lia|].
    split; [lia|]. split; [exact Hclc4|].
    split; [intros _; split; [destruct RLbr as (_&_&R3); apply R3; lia|exact Htb4]|].
    split; [intros Hc; discriminate|exact Hfr4]. }
  set (h4 := litAndDistHuff (dyn s4)) in *.
  set (dc4 := distCount (dyn s4)) in *.
  destruct RPdist as (RD1 & RD2 & RD3).
  destruct (setCodes h4 litLen distLen dc4) as [huff bad] eqn:ESC.
  destruct (setCodes_spec h4 litLen distLen dc4 huff bad ESC RD1) as (SC1 & SC2).
  assert (Hclc5 : forall hf, clc_ok (set_dyn_huff (dyn s4) hf)) by (intros hf; exact Hclc4).
  destruct bad.
  { apply pair_equal_spec in H; destruct H as [Hs He]; subst s' e. split; [|intros Hc; discriminate]. unfold hdr_post. sproj.
    split; [right; right; reflexivity|]. split; [exact RLbr|]. split; [lia|]. split; [lia|].
    split; [lia|]. split; [apply Hclc5|]. split; [intros Hc; discriminate|].
    split; [intros Hc; discriminate|exact Hfr4]. }
  set (codes := forN 0 distLen (fun (i : N) (t : arr) => aset t i (aget huff (litLen + i))) aempty) in *.
  assert (Hcodes : forall j, aget codes j = if j <? distLen then aget huff (litLen + j) else 0).
  { intros j. unfold codes. rewrite copy_from_spec. rewrite aget_empty. reflexivity. }
  assert (Hpre : small_pre codes dc4 30).
  { unfold small_pre. split; [|split; [|split]].
    - intros i. rewrite Hcodes. destruct (i <? distLen); [apply SC1|]. unfold hc_len. cbn. lia.
    - intros i. rewrite Hcodes. destruct (i <? distLen); [apply SC1|lia].
    - intros l Hl. rewrite (RD2 l Hl). change (N.to_nat 30) with 30%nat.
      apply count_len_ext. intros k Hk. rewrite Hcodes.
      replace (0 + N.of_nat k <? distLen) with true by (unfold distLen; lia).
      rewrite SC2. replace (litLen + (0 + N.of_nat k)) with (286 + N.of_nat k) by (unfold litLen; lia). reflexivity.
    - exact RD3. }
  destruct Htb as ((T1 & T2 & T3 & T4) & T5).
  rewrite Htb4 in H.
  destruct (gen_small false (distShort (tb s)) (distLong (tb s)) codes distLen dc4 distLen)
    as [[[dsh dlg] codes'] gerr] eqn:EGS.
  destruct (gen_small_dist_safe _ _ _ _ _ _ _ _ EGS Hpre T3 T4) as (GS1 & GS2 & GS3).
  set (huff2 := forN 0 distLen (fun (i : N) (t : arr) => aset t (litLen + i) (aget codes' i)) huff) in *.
  assert (Hh2 : forall j, aget huff2 j < 4294967296 /\ hc_len (aget huff2 j) = hc_len (aget h4 j)).
  { intros j. unfold huff2. rewrite copy_to_spec.
    destruct ((litLen <=? j) && (j <? litLen + distLen)) eqn:Ej.
    - destruct (GS3 (j - litLen)) as (G1 & G2). split; [exact G1|]. rewrite G2, Hcodes.
      replace (j - litLen <? distLen) with true by lia.
      replace (litLen + (j - litLen)) with j by lia. apply SC2.
    - split; [apply SC1|apply SC2]. }
  destruct (negb (ierr_eqb gerr ENone)) eqn:Egerr.
  { assert (gerr = EInvalidBlock) by (destruct GS1 as [->| ->]; [discriminate|reflexivity]). subst gerr.
    apply pair_equal_spec in H; destruct H as [Hs He]; subst s' e. split; [|intros Hc; discriminate]. unfold hdr_post. sproj.
    split; [right; right; reflexivity|]. split; [exact RLbr|]. split; [lia|]. split; [lia|].
    split; [lia|]. split; [exact Hclc4|]. split; [intros Hc; discriminate|].
    split; [intros Hc; discriminate|exact Hfr4]. }
  assert (Hg : gerr = ENone).
  { clear - Egerr. destruct gerr; try discriminate; reflexivity. }
  subst gerr.
  destruct (GS2 eq_refl) as (GS2a & GS2b).
  set (d5 := set_dyn_huff (set_dyn_huff (dyn s4) huff) huff2) in *.
  assert (RP5 : rl_post_lit (litAndDistHuff d5) (litCount d5) (litExpandCount d5)).
  { unfold d5; sproj. apply (rl_post_lit_ext h4); [exact RPlit| |].
    - intros j. destruct (Hh2 j) as (A & B). split; [exact A|]. rewrite B. apply RD1.
    - intros j. apply Hh2. }
  destruct (setAndExpandLitLenHuffCode d5) as [d6 e6] eqn:ESE.
  destruct (setAndExpand_spec d5 d6 e6 ESE RP5) as (SE1 & SE2 & SE3 & SE4 & SE5).
  assert (Hclc6 : clc_ok d6).
  { unfold clc_ok. rewrite SE3. exact Hclc4. }
  destruct SE1 as [He6|He6]; subst e6.
  2:{ apply pair_equal_spec in H; destruct H as [Hs He]; subst s' e. split; [|intros Hc; discriminate]. unfold hdr_post. sproj.
    split; [right; right; reflexivity|]. split; [exact RLbr|]. split; [lia|]. split; [lia|].
    split; [lia|]. split; [exact Hclc6|]. split; [intros Hc; discriminate|].
    split; [intros Hc; discriminate|exact Hfr4]. }
  specialize (SE2 eq_refl).
  pose proof (HLF d5 d6 RP5 ESE) as Hfit.
  destruct (genForLitLen (litShort (tb s)) (litLong (tb s)) d6 multisym) as [[[lsh llg] d7] e7] eqn:EGL.
  destruct (genForLitLen_spec _ _ _ _ _ _ _ _ EGL SE2 Hfit T1 T2) as (GL1 & GL2 & GL3 & GL4 & GL5).
  subst e7.
  apply pair_equal_spec in H; destruct H as [Hs He]; subst s' e. split; [|intros _; reflexivity]. unfold hdr_post. sproj.
  split; [left; reflexivity|]. split; [exact RLbr|]. split; [lia|]. split; [lia|].
  split; [lia|]. split; [unfold clc_ok; rewrite GL4; exact Hclc6|]. split; [intros Hc; discriminate|].
  split; [|exact Hfr4].
  intros _. split; [lia|]. split.
  - unfold tabs_ok; sproj. split; [exact GL2|]. split; [exact GL3|]. split; assumption.
  - sproj. exact (genForLitLen_sym_ok _ _ _ _ _ _ _ _ EGL SE2 Hfit T5).
Qed.

Lemma u8_small : forall x, x < 256 -> u8 x = x.
Proof. intros x H. unfold u8. change 255 with (N.ones 8). rewrite N.land_ones. apply N.mod_small. exact H. Qed.

Theorem prepareForLitBlock_spec : forall s s' e,
  prepareForLitBlock s = (s', e) -> br_inv (rd s) -> (0 <= r_len (rd s))%Z ->
  (e = ENone \/ e = EEndInput \/ e = EInvalidBlock) /\
  br_inv (rd s') /\ (0 <= r_len (rd s'))%Z /\
  (avail (rd s') <= avail (rd s))%Z /\ r_inlen (rd s') <= r_inlen (rd s) /\
  (e = EEndInput -> r_inlen (rd s') = 0) /\
  (e = ENone -> phase s' = phaseLitBlock /\ (r_len (rd s') mod 8 = 0)%Z /\
                (avail (rd s') + 32 <= avail (rd s))%Z) /\
  tb s' = tb s /\ dyn s' = dyn s /\ bfinal s' = bfinal s /\ hdr_frame s s'.
Proof.
  intros s s' e H Hbr Hlen. unfold prepareForLitBlock, loadBits in H.
  destruct (load_lt57_spec (rd s) Hbr) as (b1 & L1 & L2 & L3 & L4 & L5). rewrite L1 in H.
  sproj. destruct L2 as (L2a & L2b). pose proof L2a as (I1 & I2 & I3). unfold avail in L3.
  destruct (r_len b1 <? 0)%Z eqn:Eneg; [lia|].
  set (bl := Z.to_N (r_len b1)) in *.
  assert (Hbl : Z.of_N bl = r_len b1) by (unfold bl; lia).
  assert (Hbl8 : bl / 8 < 9) by (apply N.div_lt_upper_bound; lia).
  assert (Hm : 8 * (bl / 8) <= bl) by (apply N.mul_div_le; lia).
  rewrite (u8_small (bl / 8)) in H by lia.
  assert (Hfr : forall b, hdr_frame s (set_rd s b)) by (intros b; unfold hdr_frame; repeat split; reflexivity).
  destruct (bl / 8 <? 4) eqn:E4.
  { apply pair_equal_spec in H; destruct H as [Hs He]; subst s' e. sproj.
    split; [right; left; reflexivity|]. split; [exact L2a|]. split; [lia|]. split; [unfold avail; lia|]. split; [lia|].
    split; [intros _; destruct L2b as [L2b|L2b]; [exact L2b|lia]|].
    split; [intros Hc; discriminate|]. split; [reflexivity|]. split; [reflexivity|]. split; [reflexivity|apply Hfr]. }
  set (by8 := bl / 8) in *.
  assert (Hrest : (by8 * 8 - 32) mod 8 = 0).
  { replace (by8 * 8 - 32) with ((by8 - 4) * 8) by lia. apply N.mod_mul. lia. }
  destruct (negb (N.land (N.shiftr (r_bits b1) (bl mod 8)) 65535 =?
                  65535 - N.land (N.shiftr (N.shiftr (r_bits b1) (bl mod 8)) 16) 65535)) eqn:Elen.
  { apply pair_equal_spec in H; destruct H as [Hs He]; subst s' e. sproj. unfold br_inv, avail; cbn [r_len r_in r_inlen].
    split; [right; right; reflexivity|]. split; [split; [exact I1|split; [lia|intros; lia]]|].
    split; [lia|]. split; [lia|]. split; [lia|]. split; [intros Hc; discriminate|].
    split; [intros Hc; discriminate|]. split; [reflexivity|]. split; [reflexivity|]. split; [reflexivity|].
    unfold hdr_frame; repeat split; reflexivity. }
  rewrite Hrest in H. cbn [N.eqb] in H. cbv beta iota zeta in H.
  apply pair_equal_spec in H; destruct H as [Hs He]; subst s' e. sproj. unfold br_inv, avail; cbn [r_len r_in r_inlen].
  split; [left; reflexivity|]. split; [split; [exact I1|split; [lia|intros; lia]]|].
  split; [lia|]. split; [lia|]. split; [lia|]. split; [intros Hc; discriminate|].
  split.
  { intros _. split; [reflexivity|]. split; [|lia].
    replace (Z.of_N (by8 * 8 - 32)) with ((Z.of_N by8 - 4) * 8)%Z by lia. apply Z.mod_mul. lia. }
  split; [reflexivity|]. split; [reflexivity|]. split; [reflexivity|].
  unfold hdr_frame; repeat split; reflexivity.
Qed.

Theorem tryDecodeHeader_spec : forall s s' e,
  LongCodesFit ->
  tryDecodeHeader s = (s', e) -> hdr_pre s ->
  hdr_post s s' e /\
  (e = ENone -> (phase s' = phaseLitBlock /\ (r_len (rd s') mod 8 = 0)%Z) \/
                phase s' = phaseHeaderDecoded) /\
  (e = ENone -> (avail (rd s') + 3 <= avail (rd s))%Z).
Proof.
  intros s s' e HLF H (Hbr & Hlen & Hclc & Htb).
  unfold tryDecodeHeader, readBits, loadBits in H.
  destruct (load_lt57_spec (rd s) Hbr) as (b1 & L1 & L2 & L3 & L4 & L5). rewrite L1 in H.
  sproj. rewrite (next_bits_eq b1 1) in H. cbv beta iota zeta in H. sproj.
  set (bf := N.land (r_bits b1) (N.ones 1)) in *.
  set (b2 := br_drop b1 1) in *.
  destruct (br_drop_ok 57 b1 1 L2 ltac:(lia)) as (D1 & D1a & D1b & D1c & D1d).
  fold b2 in D1, D1a, D1b, D1c, D1d.
  destruct (load_lt57_spec b2 (proj1 D1)) as (b3 & M1 & M2 & M3 & M4 & M5). rewrite M1 in H.
  assert (M2' : br_ok 56 b3) by (apply (br_ok_weaken 57); [lia|exact M2]).
  sproj. rewrite (next_bits_eq b3 2) in H. cbv beta iota zeta in H. sproj.
  set (btype := N.land (r_bits b3) (N.ones 2)) in *.
  set (b4 := br_drop b3 2) in *.
  destruct (br_drop_ok 56 b3 2 M2' ltac:(lia)) as (E1 & E1a & E1b & E1c & E1d).
  fold b4 in E1, E1a, E1b, E1c, E1d.
  set (s4 := set_rd (set_bfinal (set_rd (set_rd s b1) b2) bf) b4) in *.
  assert (Hfr4 : hdr_frame s s4) by (unfold hdr_frame; repeat split; reflexivity).
  assert (Hav4 : (avail b4 = avail (rd s) - 3)%Z) by lia.
  assert (Hin4 : r_inlen b4 <= r_inlen (rd s)) by lia.
  assert (Hbr4 : br_inv b4) by exact (proj1 E1).
  assert (Hlo4 : (-3 <= r_len b4)%Z) by lia.
  destruct (r_len b4 <? 0)%Z eqn:Eneg.
  { apply pair_equal_spec in H; destruct H as [Hs He]; subst s' e.
    split; [|split; intros Hc; discriminate]. unfold hdr_post. unfold s4; sproj.
    split; [right; left; reflexivity|]. split; [exact Hbr4|]. split; [lia|]. split; [lia|].
    split; [exact Hin4|]. split; [exact Hclc|].
    split; [intros _; split; [destruct Hbr4 as (_&_&R3); apply R3; lia|reflexivity]|].
    split; [intros Hc; discriminate|exact Hfr4]. }
  destruct (btype =? 0) eqn:Ebt0.
  { (* stored block *)
    destruct (prepareForLitBlock_spec s4 s' e H) as (P1 & P2 & P3 & P4 & P5 & P6 & P7 & P8 & P9 & P10 & P11);
      [exact Hbr4|unfold s4; sproj; lia|].
    unfold s4 in P4, P5, P8, P9; sproj.
    split; [|split].
    - unfold hdr_post. split; [exact P1|]. split; [exact P2|]. split; [lia|]. split; [lia|]. split; [lia|].
      split; [unfold clc_ok; rewrite P9; exact Hclc|].
      split; [intros He; split; [apply P6; exact He|exact P8]|].
      split; [intros He; split; [exact P3|rewrite P8; exact Htb]|].
      eapply hdr_frame_trans; [exact Hfr4|exact P11].
    - intros He. left. destruct (P7 He) as (Q1 & Q2 & Q3). split; assumption.
    - intros He. destruct (P7 He) as (Q1 & Q2 & Q3). unfold s4 in Q3; sproj. lia. }
  destruct (btype =? 1) eqn:Ebt1.
  { (* fixed Huffman codes *)
    apply pair_equal_spec in H; destruct H as [Hs He]; subst s' e.
    unfold setupStaticHeader, s4; sproj.
    split; [|split].
    - unfold hdr_post; sproj. split; [left; reflexivity|]. split; [exact Hbr4|]. split; [lia|].
      split; [lia|]. split; [exact Hin4|]. split; [exact Hclc|]. split; [intros Hc; discriminate|].
      split; [intros _; split; [lia|exact static_tabs_ok2]|].
      unfold hdr_frame; repeat split; reflexivity.
    - intros _. right. reflexivity.
    - intros _. lia. }
  destruct (btype =? 2) eqn:Ebt2.
  { (* dynamic Huffman codes *)
    destruct (setupDynamicHeader_spec s4 s' e HLF H) as (S1 & S2).
    { unfold hdr_pre, s4; sproj. split; [exact Hbr4|]. split; [lia|]. split; [exact Hclc|exact Htb]. }
    destruct S1 as (Q1 & Q2 & Q3 & Q4 & Q5 & Q6 & Q7 & Q8 & Q9).
    unfold s4 in Q4, Q5, Q7; sproj.
    split; [|split].
    - unfold hdr_post. split; [exact Q1|]. split; [exact Q2|]. split; [exact Q3|]. split; [lia|].
      split; [lia|]. split; [exact Q6|]. split; [exact Q7|]. split; [exact Q8|].
      eapply hdr_frame_trans; [exact Hfr4|exact Q9].
    - intros He. right. apply S2, He.
    - intros _. lia. }
  apply pair_equal_spec in H; destruct H as [Hs He]; subst s' e.
  split; [|split; intros Hc; discriminate]. unfold hdr_post, s4; sproj.
  split; [right; right; reflexivity|]. split; [exact Hbr4|]. split; [lia|]. split; [lia|].
  split; [exact Hin4|]. split; [exact Hclc|]. split; [intros Hc; discriminate|].
  split; [intros Hc; discriminate|exact Hfr4].
Qed.

(* ---------------------------------------------------------------- readHeader and the staging buffer *)
(* "a header attempt that restarts from the staged bytes plus X consumes all the staged bytes, and
   if it succeeds, all their bits: what is left unread belongs to X" *)
Definition restart_ok (s' : inflate) (X : list N) : Prop :=
  r_inlen (rd (fst (tryDecodeHeader s'))) <= N.of_nat (length X) /\
  (snd (tryDecodeHeader s') = ENone ->
   (avail (rd (fst (tryDecodeHeader s'))) <= 8 * Z.of_nat (length X))%Z).

Definition staged_ok (s : inflate) : Prop :=
  forall s' X, bytes_ok X -> dyn s' = dyn s -> tb s' = tb s ->
    rd s' = mkBR (r_bits (rd s)) (r_len (rd s)) (headerBuffer s ++ X)
                 (headerBuffered s + N.of_nat (length X)) ->
    restart_ok s' X.

(* Hypothesis 2: if a header attempt runs out of input, then any attempt that restarts with the same
   bit buffer on a prefix of that input followed by more bytes X (and with the tables the failed
   attempt left behind) loads the whole prefix, and if it succeeds it has consumed every bit of the
   prefix: the unread bits all belong to X.  (All input values are bytes: with values >= 256 the
   64-bit load and the byte-wise load of the bit buffer differ and the statement is false, see
   EngineSafetyRestartCex.v.) *)
Definition HeaderRestartMonotone : Prop :=
  forall s s2, hdr_pre s -> bytes_ok (r_in (rd s)) -> tryDecodeHeader s = (s2, EEndInput) ->
  forall n X s', bytes_ok X -> dyn s' = dyn s2 -> tb s' = tb s2 ->
    rd s' = mkBR (r_bits (rd s)) (r_len (rd s)) (firstn n (r_in (rd s)) ++ X)
                 (N.of_nat (length (firstn n (r_in (rd s)))) + N.of_nat (length X)) ->
    restart_ok s' X.

(* the input in hand and the staged header bytes are bytes *)
Definition in_bytes (s : inflate) : Prop :=
  bytes_ok (r_in (rd s)) /\ bytes_ok (headerBuffer s).

Definition inf_inv (s : inflate) : Prop :=
  br_inv (rd s) /\ (0 <= r_len (rd s))%Z /\ clc_ok (dyn s) /\ tabs_ok2 (tb s) /\
  headerBuffered s = N.of_nat (length (headerBuffer s)) /\ headerBuffered s <= 328 /\
  (phase s = phaseDecodingHeader -> staged_ok s) /\
  (phase s <> phaseDecodingHeader -> headerBuffered s = 0) /\
  (phase s = phaseLitBlock -> (r_len (rd s) mod 8 = 0)%Z).

(* bytes of the current input that are still unread or held in the bit buffer *)
Definition owed (s : inflate) : Z := (Z.of_N (r_inlen (rd s)) + r_len (rd s) / 8)%Z.
(* decreasing measure of the block loop *)
Definition hmeasure (s : inflate) : Z := (avail (rd s) + 8 * Z.of_N (headerBuffered s))%Z.

Theorem readHeader_spec : forall s s' e,
  LongCodesFit -> HeaderRestartMonotone ->
  readHeader s = (s', e) -> inf_inv s -> in_bytes s ->
  (e = ENone \/ e = EEndInput \/ e = EInvalidBlock) /\
  (e <> EInvalidBlock -> inf_inv s' /\ (owed s' <= owed s)%Z /\ in_bytes s') /\
  (e = ENone -> (phase s' = phaseLitBlock \/ phase s' = phaseHeaderDecoded) /\
                (hmeasure s' + 3 <= hmeasure s)%Z) /\
  (e = EEndInput -> r_inlen (rd s') = 0 /\ phase s' = phaseDecodingHeader) /\
  r_inlen (rd s') <= r_inlen (rd s) /\ (-80 <= r_len (rd s'))%Z /\ (r_len (rd s') <= 64)%Z /\
  inputNil s' = inputNil s /\ ov s' = ov s /\ roffset s' = roffset s.
Proof.
  intros s s' e HLF HRM H (Ibr & Ilen & Iclc & Itb & Ihb & Ihb2 & Istg & Inst & Ilit) (Yin & Yhb).
  unfold readHeader in H.
  set (b0 := rd s) in *.
  set (staged := phase s =? phaseDecodingHeader) in *.
  set (hb := headerBuffered s) in *.
  set (copySize := N.min (maxHdrSize - hb) (r_inlen b0)) in *.
  set (s1 := if staged
             then set_rd s (br_set_in b0 (headerBuffer s ++ firstn (N.to_nat copySize) (r_in b0)) (copySize + hb))
             else s) in *.
  destruct Ibr as (B1 & B2 & B3).
  assert (Hcs : copySize <= r_inlen b0) by (unfold copySize; lia).
  assert (Hcs2 : copySize + hb <= 328) by (unfold copySize, maxHdrSize; lia).
  assert (Hfl : length (firstn (N.to_nat copySize) (r_in b0)) = N.to_nat copySize).
  { rewrite firstn_length. lia. }
  assert (HX : bytes_ok (firstn (N.to_nat copySize) (r_in b0))) by (apply bytes_ok_firstn; exact Yin).
  assert (Hs1bytes : bytes_ok (r_in (rd s1))).
  { unfold s1. destruct staged; [sproj; unfold br_set_in; cbn [r_in]; apply bytes_ok_app; assumption|exact Yin]. }
  assert (Hpre1 : hdr_pre s1).
  { unfold hdr_pre, s1. destruct staged.
    - sproj. split; [|split; [exact Ilen|split; [exact Iclc|exact Itb]]].
      unfold br_inv; cbn [r_in r_inlen r_len br_set_in]. rewrite app_length, Hfl. split; [lia|]. split; [exact B2|intros; lia].
    - split; [exact (conj B1 (conj B2 B3))|]. split; [exact Ilen|]. split; [exact Iclc|exact Itb]. }
  destruct (tryDecodeHeader s1) as [s2 err] eqn:ETD.
  destruct (tryDecodeHeader_spec s1 s2 err HLF ETD Hpre1) as (HP & HPph & HPav).
  destruct HP as (P1 & P2 & P3 & P4 & P5 & P6 & P7 & P8 & P9).
  destruct P2 as (R1 & R2 & R3).
  (* the bits and the tables of s1 *)
  assert (Hs1bits : r_bits (rd s1) = r_bits b0 /\ r_len (rd s1) = r_len b0 /\ dyn s1 = dyn s /\ tb s1 = tb s /\
                    inputNil s1 = inputNil s /\ ov s1 = ov s /\ roffset s1 = roffset s).
  { unfold s1. destruct staged; sproj; repeat split; reflexivity. }
  destruct Hs1bits as (S1a & S1b & S1c & S1d & S1e & S1f & S1g).
  destruct P9 as (F1 & F2 & F3 & F4 & F5).
  (* the staged case: at most copySize bytes are left *)
  assert (Hleft : staged = true -> r_inlen (rd s2) <= copySize /\
                                   (err = ENone -> 0 <= r_len (rd s2) -> r_len (rd s2) <= 8 * (Z.of_N copySize - Z.of_N (r_inlen (rd s2))))%Z).
  { intros Hst. assert (Hph : phase s = phaseDecodingHeader) by (unfold staged in Hst; lia).
    pose proof (Istg Hph s1 (firstn (N.to_nat copySize) (r_in b0)) HX) as Hso.
    unfold restart_ok in Hso. rewrite ETD in Hso. cbn [fst snd] in Hso. rewrite Hfl in Hso.
    assert (Hrd1 : rd s1 = mkBR (r_bits (rd s)) (r_len (rd s)) (headerBuffer s ++ firstn (N.to_nat copySize) (r_in b0))
                                (headerBuffered s + N.of_nat (N.to_nat copySize))).
    { unfold s1. rewrite Hst. sproj. fold b0. fold hb. unfold br_set_in. f_equal. lia. }
    specialize (Hso S1c S1d Hrd1). destruct Hso as (Hso1 & Hso2). unfold avail in Hso2.
    split; [lia|]. intros He _. specialize (Hso2 He). lia. }
  set (read := (Z.of_N (copySize + hb) - Z.of_N (r_inlen (rd s2)) - Z.of_N hb)%Z) in *.
  assert (Hnp : (staged && ((read <? 0)%Z || (Z.of_N (r_inlen b0) <? read)%Z)) = false).
  { destruct staged; [|reflexivity]. destruct (Hleft eq_refl) as (Hl1 & _). unfold read. cbn [andb]. lia. }
  assert (Herr : err <> EPanic /\ err <> EFuel) by (destruct P1 as [->|[->| ->]]; split; discriminate).
  destruct err; try (exfalso; destruct P1 as [Hc|[Hc|Hc]]; discriminate); rewrite Hnp in H.
  - (* ENone *)
    apply pair_equal_spec in H; destruct H as [Hs He]; subst s' e.
    destruct (P8 eq_refl) as (Q1 & Q2).
    split; [left; reflexivity|].
    set (s3 := if staged then set_rd s2 (br_set_in (rd s2) (skipn (Z.to_nat read) (r_in b0)) (r_inlen b0 - Z.to_N read)) else s2).
    assert (Hs3 : br_inv (rd s3) /\ r_len (rd s3) = r_len (rd s2) /\ phase s3 = phase s2 /\ dyn s3 = dyn s2 /\
                  tb s3 = tb s2 /\ inputNil s3 = inputNil s2 /\ ov s3 = ov s2 /\ roffset s3 = roffset s2 /\
                  (Z.of_N (r_inlen (rd s3)) + r_len (rd s2) / 8 <= owed s)%Z /\
                  (avail (rd s3) + 3 <= hmeasure s)%Z /\ r_inlen (rd s3) <= r_inlen b0 /\
                  bytes_ok (r_in (rd s3))).
    { unfold s3. destruct staged eqn:Est.
      - destruct (Hleft eq_refl) as (Hl1 & Hl2). specialize (Hl2 eq_refl Q1). sproj.
        assert (Hread : read = (Z.of_N copySize - Z.of_N (r_inlen (rd s2)))%Z) by (unfold read; lia).
        split; [unfold br_inv; cbn [br_set_in r_bits r_in r_inlen r_len]; rewrite skipn_length; split; [lia|split; [exact R2|intros; lia]]|].
        repeat (split; [reflexivity|]).
        specialize (HPav eq_refl).
        assert (Hav1 : avail (rd s1) = (8 * Z.of_N (copySize + hb) + r_len b0)%Z).
        { unfold s1; sproj. unfold avail; cbn [br_set_in r_bits r_in r_inlen r_len]. reflexivity. }
        unfold owed, hmeasure, avail in *. cbn [br_set_in r_bits r_in r_inlen r_len]. fold b0. fold hb.
        split; [|split].
        + assert (r_len (rd s2) / 8 <= read)%Z by (apply Z.div_le_upper_bound; lia).
          assert (0 <= r_len b0 / 8)%Z by (apply Z.div_pos; lia). lia.
        + lia.
        + split; [lia|]. apply bytes_ok_skipn. exact Yin.
      - assert (Hs1 : s1 = s) by reflexivity.
        split; [exact (conj R1 (conj R2 R3))|]. repeat (split; [reflexivity|]).
        specialize (HPav eq_refl). rewrite Hs1 in HPav, P4, P5.
        assert (Hhb0 : hb = 0) by (apply Inst; unfold staged in Est; lia).
        unfold owed, hmeasure, avail in *. fold b0. fold hb. rewrite Hhb0.
        fold b0 in HPav, P4, P5. split; [|split; [lia|split; [lia|]]].
        2:{ apply (in_suffix_Forall _ (r_in (rd s1))); [exact (tryDecodeHeader_suffix _ _ _ ETD)|exact Hs1bytes]. }
        assert (8 * Z.of_N (r_inlen (rd s2)) + 8 * (r_len (rd s2) / 8) <= 8 * Z.of_N (r_inlen b0) + 8 * (r_len b0 / 8))%Z; [|lia].
        pose proof (Z.mul_div_le (r_len (rd s2)) 8 ltac:(lia)).
        pose proof (Z.mod_pos_bound (r_len b0) 8 ltac:(lia)).
        pose proof (Z.div_mod (r_len b0) 8 ltac:(lia)).
        pose proof (Z.mod_pos_bound (r_len (rd s2)) 8 ltac:(lia)).
        pose proof (Z.div_mod (r_len (rd s2)) 8 ltac:(lia)). lia. }
    destruct Hs3 as (T1 & T2 & T3 & T4 & T5 & T6 & T7 & T8 & T9 & T10 & T11 & T12).
    fold s3. sproj.
    assert (Hph2 : phase s2 = phaseLitBlock \/ phase s2 = phaseHeaderDecoded).
    { destruct (HPph eq_refl) as [[A _]|A]; [left|right]; exact A. }
    split.
    { intros _. split.
      - unfold inf_inv; sproj. split; [exact T1|]. split; [lia|]. split; [rewrite T4; exact P6|].
        split; [rewrite T5; exact Q2|]. split; [reflexivity|]. split; [lia|].
        split; [intros Hc; rewrite T3 in Hc; unfold phaseLitBlock, phaseHeaderDecoded, phaseDecodingHeader in *; lia|].
        split; [intros _; reflexivity|].
        intros Hc. rewrite T3 in Hc. rewrite T2.
        destruct (HPph eq_refl) as [[_ A]|A]; [exact A|].
        unfold phaseLitBlock, phaseHeaderDecoded in *; lia.
      - split; [unfold owed; sproj; rewrite T2; exact T9|]. unfold in_bytes; sproj. split; [exact T12|constructor]. }
    split.
    { intros _. split; [rewrite T3; exact Hph2|]. unfold hmeasure at 1; sproj. lia. }
    split; [intros Hc; discriminate|].
    split; [exact T11|]. split; [lia|]. split; [lia|].
    split; [congruence|]. split; [congruence|congruence].
  - (* EEndInput *)
    apply pair_equal_spec in H; destruct H as [Hs He]; subst s' e.
    destruct (P7 eq_refl) as (Q1 & Q2).
    split; [right; left; reflexivity|].
    sproj. fold copySize.
    split.
    { intros _. split.
      - unfold inf_inv; sproj.
        split; [unfold br_inv; cbn [br_set_in r_bits r_in r_inlen r_len length]; split; [reflexivity|split; [exact B2|intros; lia]]|].
        split; [exact Ilen|].
        assert (Hd : forall x, dyn (if staged then set_rd s2 x else s2) = dyn s2) by (intros; destruct staged; reflexivity).
        assert (Ht : forall x, tb (if staged then set_rd s2 x else s2) = tb s2) by (intros; destruct staged; reflexivity).
        split; [rewrite Hd; exact P6|]. split; [rewrite Ht, Q2, S1d; exact Itb|].
        split; [rewrite app_length, Hfl; lia|]. split; [lia|].
        split; [|split; [intros Hc; contradiction|intros Hc; unfold phaseDecodingHeader, phaseLitBlock in Hc; discriminate]].
        intros _. unfold staged_ok; sproj. intros s'' X HbX Hd'' Ht'' Hr''.
        rewrite Hd in Hd''. rewrite Ht in Ht''.
        destruct staged eqn:Est.
        + (* the failed attempt ran on headerBuffer ++ firstn copySize in0 *)
          apply (HRM s1 s2 Hpre1 Hs1bytes ETD (length (r_in (rd s1))) X s'' HbX Hd'' Ht'').
          rewrite firstn_all. rewrite Hr''. unfold s1; sproj. unfold br_set_in; cbn [r_bits r_len r_in r_inlen]. f_equal.
          rewrite app_length, Hfl. lia.
        + assert (Hhb0 : hb = 0) by (apply Inst; unfold staged in Est; lia).
          assert (Hhbl : headerBuffer s = []).
          { destruct (headerBuffer s); [reflexivity|]. fold hb in Ihb. rewrite Hhb0 in Ihb. cbn [length] in Ihb. lia. }
          apply (HRM s1 s2 Hpre1 Hs1bytes ETD (N.to_nat copySize) X s'' HbX Hd'' Ht'').
          rewrite Hr''. unfold s1; sproj. rewrite Hhbl. cbn [app]. fold b0. f_equal.
          rewrite Hfl. lia.
      - split; [unfold owed; sproj; fold b0; assert (0 <= Z.of_N (r_inlen b0))%Z by lia; lia|].
        unfold in_bytes; sproj. split; [constructor|]. apply bytes_ok_app; assumption. }
    split; [intros Hc; discriminate|].
    split; [intros _; split; reflexivity|].
    split; [lia|]. split; [lia|]. split; [exact B2|].
    assert (Hi : forall x, inputNil (if staged then set_rd s2 x else s2) = inputNil s2) by (intros; destruct staged; reflexivity).
    assert (Ho : forall x, ov (if staged then set_rd s2 x else s2) = ov s2) by (intros; destruct staged; reflexivity).
    assert (Hr : forall x, roffset (if staged then set_rd s2 x else s2) = roffset s2) by (intros; destruct staged; reflexivity).
    rewrite Hi, Ho, Hr. split; [congruence|]. split; congruence.
  - (* EInvalidBlock *)
    apply pair_equal_spec in H; destruct H as [Hs He]; subst s' e.
    split; [right; right; reflexivity|].
    split; [intros Hc; contradiction|]. split; [intros Hc; discriminate|]. split; [intros Hc; discriminate|].
    sproj.
    assert (Hin : r_inlen (rd (if staged then set_rd s2 (br_set_in (rd s2) (skipn (Z.to_nat read) (r_in b0)) (r_inlen b0 - Z.to_N read)) else s2)) <= r_inlen b0).
    { destruct staged eqn:Est; sproj; [lia|]. unfold s1 in P5. exact P5. }
    assert (Hl : r_len (rd (if staged then set_rd s2 (br_set_in (rd s2) (skipn (Z.to_nat read) (r_in b0)) (r_inlen b0 - Z.to_N read)) else s2)) = r_len (rd s2)).
    { destruct staged; reflexivity. }
    split; [exact Hin|]. rewrite Hl. split; [exact P3|]. split; [exact R2|].
    assert (Hi : forall x, inputNil (if staged then set_rd s2 x else s2) = inputNil s2) by (intros; destruct staged; reflexivity).
    assert (Ho : forall x, ov (if staged then set_rd s2 x else s2) = ov s2) by (intros; destruct staged; reflexivity).
    assert (Hr : forall x, roffset (if staged then set_rd s2 x else s2) = roffset s2) by (intros; destruct staged; reflexivity).
    rewrite Hi, Ho, Hr. split; [congruence|]. split; congruence.
Qed.
