(* EngineCompletePad.v -- canonical Huffman codes are left packed (canon_pad_statement of
   RModel/EngineCompleteSpecA.v): a prefix of a code word followed by maxl zero bits starts
   with a code word at least as long as the prefix.

   Proof: (1) assign hands out EVERY value of the range [nc[x], nc[x] + occ x) (converse of
   assign_range); (2) hence, scaled to m bits, the code words of length <= m cover the initial
   segment [0, first_code l m + cnt l m) of the m-bit patterns (induction on m);
   (3) p ++ zeros (cut to the length of the code word that p is a prefix of) has a value <=
   that code word, so it is in the segment; the code word found cannot be shorter than p
   because canonical codes are prefix free (good_noprefix). *)
From Coq Require Import List NArith Arith Bool Lia ZifyBool ZifyNat ZifyN.
From Verif Require Import Bits Huffman.
From Verif Require Import HuffmanProofs.
From Verif Require Import EngineCompleteSpecA.
Import ListNotations.
Open Scope N_scope.

(* --- (1) every value of the range is handed out ------------------------------------ *)

Lemma EngineCompletePad_assign_surj : forall r sym nc x v,
  Forall (fun y => (y < length nc)%nat) r ->
  x <> 0%nat -> nth x nc 0 <= v -> v < nth x nc 0 + occ r x ->
  exists s, In (s, x, v) (assign r sym nc).
Proof.
  induction r as [|x0 r IH]; intros sym nc x v HF Hx HL HU.
  - unfold occ in HU. cbn [count_occ] in HU. lia.
  - inversion HF as [|y0 r0 Hx0 HFr]; subst.
    cbn [assign]. destruct (Nat.eqb x0 0) eqn:E.
    + apply Nat.eqb_eq in E. subst x0.
      rewrite occ_cons_other in HU by congruence.
      apply IH; assumption.
    + apply Nat.eqb_neq in E.
      assert (HFr' : Forall (fun y => Nat.lt y (length (upd x0 (nth x0 nc 0 + 1) nc))) r).
      { rewrite upd_length. exact HFr. }
      destruct (Nat.eq_dec x0 x) as [He|Hne].
      * subst x0. rewrite occ_cons_same in HU.
        destruct (N.eq_dec v (nth x nc 0)) as [Hv|Hv].
        -- exists sym. left. rewrite Hv. reflexivity.
        -- destruct (IH (S sym) (upd x (nth x nc 0 + 1) nc) x v HFr' Hx) as [s Hs].
           ++ rewrite nth_upd_same by exact Hx0. lia.
           ++ rewrite nth_upd_same by exact Hx0. lia.
           ++ exists s. right. exact Hs.
      * rewrite occ_cons_other in HU by exact Hne.
        destruct (IH (S sym) (upd x0 (nth x0 nc 0 + 1) nc) x v HFr' Hx) as [s Hs].
        -- rewrite nth_upd_other by exact Hne. exact HL.
        -- rewrite nth_upd_other by exact Hne. exact HU.
        -- exists s. right. exact Hs.
Qed.

Lemma EngineCompletePad_canon_surj : forall maxl l b v, (maxl <= 16)%nat ->
  Forall (fun x => (x <= maxl)%nat) l -> b <> 0%nat -> (b <= maxl)%nat ->
  first_code l b <= v -> v < first_code l b + cnt l b ->
  exists s, In (s, b, v) (canon l).
Proof.
  intros maxl l b v Hm Hl Hb Hbm HL HU.
  assert (HF : Forall (fun y => (y < length (map (first_code l) (seq 0 17)))%nat) l).
  { rewrite map_length, seq_length. rewrite Forall_forall in *.
    intros y Hy. specialize (Hl y Hy). lia. }
  unfold canon. apply EngineCompletePad_assign_surj.
  - exact HF.
  - exact Hb.
  - rewrite nth_first_codes by lia. exact HL.
  - rewrite nth_first_codes by lia. unfold cnt in HU.
    assert (E : Nat.eqb b 0 = false) by (apply Nat.eqb_neq; exact Hb).
    rewrite E in HU. exact HU.
Qed.

(* --- bit lists and numbers ----------------------------------------------------------- *)

Lemma EngineCompletePad_bits_of_N_of_bits : forall u,
  bits_of_N (length u) (N_of_bits u) = u.
Proof.
  induction u as [|x u IH].
  - reflexivity.
  - cbn [length N_of_bits bits_of_N].
    remember (N_of_bits u) as v eqn:Ev.
    assert (Ho : N.odd ((if x then 1 else 0) + 2 * v) = x).
    { destruct x; destruct v; reflexivity. }
    assert (Hd : N.div2 ((if x then 1 else 0) + 2 * v) = v).
    { destruct x; destruct v; reflexivity. }
    rewrite Ho, Hd, IH. reflexivity.
Qed.

Lemma EngineCompletePad_code_bits_N_of_bits : forall u,
  code_bits (length u) (N_of_bits u) = rev u.
Proof.
  intros u. rewrite code_bits_rev, EngineCompletePad_bits_of_N_of_bits. reflexivity.
Qed.

Lemma EngineCompletePad_N_of_bits_allfalse : forall u,
  (forall x, In x u -> x = false) -> N_of_bits u = 0.
Proof.
  induction u as [|x u IH]; intros H.
  - reflexivity.
  - cbn [N_of_bits]. rewrite IH.
    + rewrite (H x (or_introl eq_refl)). reflexivity.
    + intros y Hy. apply H. right. exact Hy.
Qed.

(* --- (2) the initial segment ---------------------------------------------------------- *)

(* u is LSB first; rev u is the pattern as the decoder reads it *)
Lemma EngineCompletePad_segment : forall maxl l, (maxl <= 16)%nat ->
  Forall (fun x => (x <= maxl)%nat) l ->
  forall m u, (m <= maxl)%nat -> length u = m ->
  N_of_bits u < first_code l m + cnt l m ->
  exists s b c z, In (s, b, c) (canon l) /\ rev u = code_bits b c ++ z.
Proof.
  intros maxl l Hm Hl. induction m as [|m IH]; intros u Hmm Hlen HU.
  - change (first_code l 0) with 0 in HU. change (cnt l 0) with 0 in HU. lia.
  - destruct u as [|x u']; [discriminate Hlen|].
    assert (Hlen' : length u' = m) by (cbn [length] in Hlen; lia).
    destruct (N.ltb_spec (N_of_bits (x :: u')) (first_code l (S m))) as [Hlt|Hge].
    + rewrite first_code_S in Hlt. cbn [N_of_bits] in Hlt.
      assert (HU' : N_of_bits u' < first_code l m + cnt l m) by (destruct x; lia).
      destruct (IH u' ltac:(lia) Hlen' HU') as (s & b & c & z & HIn & HE).
      exists s, b, c, (z ++ [x]). split; [exact HIn|].
      cbn [rev]. rewrite HE, app_assoc. reflexivity.
    + destruct (EngineCompletePad_canon_surj maxl l (S m) (N_of_bits (x :: u')) Hm Hl
                  ltac:(lia) Hmm Hge HU) as [s Hs].
      exists s, (S m), (N_of_bits (x :: u')), []. split; [exact Hs|].
      rewrite app_nil_r. rewrite <- Hlen.
      symmetry. apply EngineCompletePad_code_bits_N_of_bits.
Qed.

(* --- (3) the statement ------------------------------------------------------------------ *)

Theorem canon_pad : canon_pad_statement.
Proof.
  unfold canon_pad_statement. intros maxl l p z s len c Hm Hl Ho HIn HE.
  pose proof (canon_good maxl l Hm Hl) as HG. rewrite Forall_forall in HG.
  pose proof (HG _ HIn) as Gc.
  destruct Gc as [N1 [M1 [L1 U1]]].
  pose proof (first_code_fits maxl l len M1 Ho) as F1.
  assert (Hc : c < 2 ^ N.of_nat len) by lia.
  assert (Hlen : len = (length p + length z)%nat).
  { pose proof (f_equal (@length bool) HE) as HL.
    rewrite code_bits_length, app_length in HL. exact HL. }
  assert (Hval : N_of_bits (rev (p ++ repeat false (length z))) <= c).
  { pose proof HE as HE2. rewrite code_bits_rev in HE2.
    apply (f_equal (@rev bool)) in HE2. rewrite rev_involutive in HE2.
    apply (f_equal N_of_bits) in HE2. rewrite (N_of_bits_of_N _ _ Hc) in HE2.
    rewrite rev_app_distr, N_of_bits_app in HE2.
    rewrite rev_app_distr, N_of_bits_app.
    rewrite !rev_length, repeat_length. rewrite rev_length in HE2.
    rewrite (EngineCompletePad_N_of_bits_allfalse (rev (repeat false (length z)))).
    - remember (2 ^ N.of_nat (length z) * N_of_bits (rev p)) as Q. lia.
    - intros x Hx. apply in_rev in Hx. apply repeat_spec in Hx. exact Hx. }
  destruct (EngineCompletePad_segment maxl l Hm Hl len
              (rev (p ++ repeat false (length z))) M1)
    as (s' & b' & c' & z' & HIn' & HE').
  - rewrite rev_length, app_length, repeat_length. lia.
  - lia.
  - rewrite rev_involutive in HE'.
    exists s', b', c', (z' ++ repeat false (maxl - length z)).
    split; [exact HIn'|]. split.
    + rewrite app_assoc, <- HE', <- app_assoc, <- repeat_app.
      f_equal. f_equal. lia.
    + destruct (le_lt_dec (length p) b') as [Hle|Hlt]; [exact Hle|exfalso].
      pose proof (HG _ HIn') as G'.
      apply (good_noprefix maxl l s' b' c' s len c Ho G' (HG _ HIn)).
      * intros Heq. lia.
      * destruct (app_eq_app _ _ _ _ HE') as [q [[Hp _]|[Hcb _]]].
        -- exists (q ++ z). rewrite HE, Hp, app_assoc. reflexivity.
        -- pose proof (f_equal (@length bool) Hcb) as HL.
           rewrite code_bits_length, app_length in HL. lia.
Qed.

Print Assumptions canon_pad.
