(* TraceContent.v — the ghost trace of a history of Writes/Flushes followed by Close (or Flush)
   is complete, valid and stands for exactly the data written (CodecSpec.trace_content_statement,
   trace_flush_content_statement), and the model never reads out of bounds
   (WriterSpec.no_oob_statement). *)
From Verif Require Import WriterSpec LZ77Proofs.
From Coq Require Import ZArith Lia ZifyBool ZifyNat ZifyN.
Open Scope N_scope.

(* ------------------------------------------------------------------ *)
(* lists                                                                *)

Lemma frev_rev : forall A (l : list A), frev l = rev l.
Proof. intros A l. unfold frev. symmetry. apply rev_alt. Qed.

Lemma In_firstn : forall A (l : list A) n x, In x (firstn n l) -> In x l.
Proof.
  intros A l n x H. rewrite <- (firstn_skipn n l). apply in_or_app. left. exact H.
Qed.

Lemma Forall_firstn_ : forall A (P : A -> Prop) (l : list A) n, Forall P l -> Forall P (firstn n l).
Proof.
  intros A P l n H. rewrite Forall_forall in *. intros x Hx. apply H. eapply In_firstn. exact Hx.
Qed.

Lemma In_skipn : forall A (l : list A) n x, In x (skipn n l) -> In x l.
Proof.
  intros A l n x H. rewrite <- (firstn_skipn n l). apply in_or_app. right. exact H.
Qed.

Lemma firstn_split : forall A (l : list A) a b,
  firstn (a + b) l = firstn a l ++ firstn b (skipn a l).
Proof.
  intros A l a b. rewrite firstn_skipn_comm.
  rewrite <- (firstn_skipn a (firstn (a + b) l)) at 1.
  f_equal. rewrite firstn_firstn. f_equal. lia.
Qed.

Lemma skipn_firstn_len : forall A (l : list A) n,
  skipn (length (firstn n l)) l = skipn n l.
Proof.
  intros A l n. destruct (Nat.le_gt_cases n (length l)) as [H|H].
  - rewrite firstn_length_le by exact H. reflexivity.
  - rewrite firstn_all2 by lia. rewrite !skipn_all2 by lia. reflexivity.
Qed.

Lemma firstn_firstn_len : forall A (l : list A) n,
  firstn (length (firstn n l)) l = firstn n l.
Proof.
  intros A l n. destruct (Nat.le_gt_cases n (length l)) as [H|H].
  - rewrite firstn_length_le by exact H. reflexivity.
  - rewrite (@firstn_all2 A n l) by lia. rewrite firstn_all. reflexivity.
Qed.

Lemma lenN_app : forall A (a b : list A), lenN (a ++ b) = lenN a + lenN b.
Proof. intros. unfold lenN. rewrite app_length. lia. Qed.

Lemma lenN_rev : forall A (a : list A), lenN (rev a) = lenN a.
Proof. intros. unfold lenN. rewrite rev_length. reflexivity. Qed.

Lemma lenN_firstn : forall A (l : list A) n, n <= lenN l -> lenN (firstn (N.to_nat n) l) = n.
Proof. intros A l n H. unfold lenN in *. rewrite firstn_length_le by lia. lia. Qed.

Lemma lenN_0 : forall A (l : list A), lenN l = 0 -> l = [].
Proof. intros A l H. destruct l; [reflexivity|]. unfold lenN in H. cbn [length] in H. lia. Qed.

(* ------------------------------------------------------------------ *)
(* tokens: expansion only looks back `dist` bytes                        *)

Lemma tlen_sumN : forall ts, sumN (map tok_len ts) = tlen ts.
Proof. induction ts as [|t r IH]; [reflexivity|]. cbn [map sumN tlen]. now rewrite IH. Qed.

Lemma copy_from_len : forall n h d, lenN (copy_from h d n) = lenN h + N.of_nat n.
Proof.
  induction n as [|n IH]; intros h d.
  - cbn [copy_from]. lia.
  - cbn [copy_from]. rewrite IH, lenN_cons. lia.
Qed.

Lemma expand_len : forall ts h, lenN (expand_rev ts h) = lenN h + tlen ts.
Proof.
  induction ts as [|t r IH]; intros h.
  - cbn [expand_rev tlen]. lia.
  - destruct t as [b|len dist]; cbn [expand_rev tlen tok_len]; rewrite IH.
    + rewrite lenN_cons. lia.
    + rewrite copy_from_len. lia.
Qed.

Lemma copy_from_app : forall n h X dist, 1 <= dist -> dist <= lenN h ->
  copy_from (h ++ X) dist n = copy_from h dist n ++ X.
Proof.
  induction n as [|n IH]; intros h X dist H1 H2.
  - reflexivity.
  - cbn [copy_from]. rewrite app_nth1 by (unfold lenN in H2; lia).
    rewrite app_comm_cons. apply IH; [exact H1|]. rewrite lenN_cons. lia.
Qed.

Lemma expand_rev_lift : forall W ts h X, toks_ok W (lenN h) ts ->
  expand_rev ts (h ++ X) = expand_rev ts h ++ X.
Proof.
  intros W. induction ts as [|t r IH]; intros h X H.
  - reflexivity.
  - cbn [toks_ok] in H. destruct H as (Ht & Hr).
    destruct t as [b|len dist]; cbn [expand_rev tok_len tok_ok] in *.
    + rewrite app_comm_cons. apply IH. rewrite lenN_cons. exact Hr.
    + rewrite copy_from_app by lia. apply IH. rewrite copy_from_len.
      replace (N.of_nat (N.to_nat len)) with len by lia. exact Hr.
Qed.

Lemma toks_ok_mono : forall W ts b b', toks_ok W b ts -> b <= b' -> toks_ok W b' ts.
Proof.
  intros W. induction ts as [|t r IH]; intros b b' H Hle.
  - exact I.
  - cbn [toks_ok] in *. destruct H as (Ht & Hr). split.
    + destruct t as [x|len dist]; cbn [tok_ok] in *; [exact I|lia].
    + apply IH with (b := b + tok_len t); [exact Hr|lia].
Qed.

Lemma tlen_pos : forall W ts b, toks_ok W b ts -> ts <> [] -> 1 <= tlen ts.
Proof.
  intros W ts b H Hne. destruct ts as [|t r]; [congruence|].
  cbn [toks_ok tlen] in *. destruct H as (Ht & _).
  destruct t as [x|len dist]; cbn [tok_ok tok_len] in *; lia.
Qed.

Lemma copy_from_incl : forall n h d x, In x h -> In x (copy_from h d n).
Proof.
  induction n as [|n IH]; intros h d x H; [exact H|].
  cbn [copy_from]. apply IH. right. exact H.
Qed.

Lemma expand_incl : forall ts h x, In x h -> In x (expand_rev ts h).
Proof.
  induction ts as [|t r IH]; intros h x H; [exact H|].
  destruct t as [b|len dist]; cbn [expand_rev]; apply IH.
  - right. exact H.
  - apply copy_from_incl. exact H.
Qed.

Definition lits_ok (ts : list tok) : Prop :=
  Forall (fun t => match t with TLit b => b < 256 | _ => True end) ts.

Lemma lits_from : forall ts h, bytes_ok (expand_rev ts h) -> lits_ok ts.
Proof.
  induction ts as [|t r IH]; intros h H.
  - constructor.
  - destruct t as [b|len dist]; cbn [expand_rev] in H; constructor.
    + unfold bytes_ok in H. rewrite Forall_forall in H. apply H.
      apply expand_incl. left. reflexivity.
    + apply IH with (h := b :: h). exact H.
    + exact I.
    + apply IH with (h := copy_from h dist (N.to_nat len)). exact H.
Qed.

(* ------------------------------------------------------------------ *)
(* traces                                                               *)

Definition nonfinal (t : list event) : Prop := Forall (fun e => ev_final e = false) t.

(* position after a trace *)
Fixpoint tpos (evs : list event) (before : N) : N :=
  match evs with
  | [] => before
  | EBlock ts _ :: r => tpos r (before + sumN (map tok_len ts))
  | EHBlock d _ :: r => tpos r (before + lenN d)
  | _ :: r => tpos r before
  end.

Lemma trace_toks_ok_app : forall W e1 e2 b,
  trace_toks_ok W (e1 ++ e2) b <-> trace_toks_ok W e1 b /\ trace_toks_ok W e2 (tpos e1 b).
Proof.
  intros W. induction e1 as [|e r IH]; intros e2 b.
  - cbn [app trace_toks_ok tpos]. tauto.
  - destruct e as [ts l|d f| |]; cbn [app trace_toks_ok tpos]; rewrite IH; tauto.
Qed.

Lemma trace_data_rev_app : forall e1 e2 h,
  trace_data_rev (e1 ++ e2) h = trace_data_rev e2 (trace_data_rev e1 h).
Proof.
  induction e1 as [|e r IH]; intros e2 h; [reflexivity|].
  destruct e as [ts l|d f| |]; cbn [app trace_data_rev]; apply IH.
Qed.

Lemma tpos_len : forall evs h, lenN (trace_data_rev evs h) = tpos evs (lenN h).
Proof.
  induction evs as [|e r IH]; intros h; [reflexivity|].
  destruct e as [ts l|d f| |]; cbn [trace_data_rev tpos]; rewrite IH.
  - rewrite expand_len, tlen_sumN. reflexivity.
  - rewrite rev_append_rev, lenN_app, lenN_rev. f_equal. lia.
  - reflexivity.
  - reflexivity.
Qed.

Lemma trace_complete_snoc : forall evs e, nonfinal evs ->
  trace_complete (evs ++ [e]) = ev_final e.
Proof.
  induction evs as [|a r IH]; intros e H; [reflexivity|].
  inversion H as [|a' r' Ha Hr]; subst.
  change ((a :: r) ++ [e]) with (a :: (r ++ [e])).
  destruct (r ++ [e]) as [|x y] eqn:E.
  - destruct r; discriminate E.
  - change (trace_complete (a :: x :: y)) with (negb (ev_final a) && trace_complete (x :: y)).
    rewrite Ha. cbn [negb andb]. rewrite <- E. apply IH. exact Hr.
Qed.

(* the trace so far is valid and stands for (the reverse of) H *)
Definition tr_ok (W : N) (evs : list event) (H : list N) : Prop :=
  trace_toks_ok W evs 0 /\ trace_data_rev evs [] = H.

Lemma tr_ok_nil : forall W, tr_ok W [] [].
Proof. intros W. split; [exact I|reflexivity]. Qed.

Lemma tr_ok_block : forall W evs H ts last, tr_ok W evs H ->
  toks_ok W (lenN H) ts -> lits_ok ts ->
  tr_ok W (evs ++ [EBlock ts last]) (expand_rev ts H).
Proof.
  intros W evs H ts last (H1 & H2) Ht Hl. split.
  - apply trace_toks_ok_app. split; [exact H1|].
    cbn [trace_toks_ok]. change 0 with (lenN (@nil N)). rewrite <- tpos_len, H2.
    split; [exact Ht|]. split; [exact Hl|exact I].
  - rewrite trace_data_rev_app, H2. reflexivity.
Qed.

Lemma tr_ok_hblock : forall W evs H d f, tr_ok W evs H ->
  tr_ok W (evs ++ [EHBlock d f]) (rev d ++ H).
Proof.
  intros W evs H d f (H1 & H2). split.
  - apply trace_toks_ok_app. split; [exact H1|]. cbn [trace_toks_ok]. exact I.
  - rewrite trace_data_rev_app, H2. cbn [trace_data_rev]. apply rev_append_rev.
Qed.

Lemma tr_ok_sync : forall W evs H, tr_ok W evs H -> tr_ok W (evs ++ [ESync]) H.
Proof.
  intros W evs H (H1 & H2). split.
  - apply trace_toks_ok_app. split; [exact H1|]. exact I.
  - rewrite trace_data_rev_app, H2. reflexivity.
Qed.

Lemma tr_ok_fempty : forall W evs H, tr_ok W evs H -> tr_ok W (evs ++ [EFinalEmpty]) H.
Proof.
  intros W evs H (H1 & H2). split.
  - apply trace_toks_ok_app. split; [exact H1|]. exact I.
  - rewrite trace_data_rev_app, H2. reflexivity.
Qed.

(* ------------------------------------------------------------------ *)
(* healthy destination                                                  *)

Lemma dest_write_healthy : forall d chunk, dfail d = None ->
  exists d1, dest_write d chunk = (d1, false) /\ dfail d1 = None /\ dtrace d1 = dtrace d.
Proof.
  intros d chunk H. unfold dest_write. rewrite H. eexists. split; [reflexivity|].
  split; reflexivity.
Qed.

Lemma dest_write_all_healthy : forall chunks d, dfail d = None ->
  exists d1, dest_write_all d chunks = (d1, false) /\ dfail d1 = None /\ dtrace d1 = dtrace d.
Proof.
  induction chunks as [|c r IH]; intros d H.
  - exists d. split; [reflexivity|]. split; [exact H|reflexivity].
  - cbn [dest_write_all]. destruct (dest_write_healthy d c H) as (d1 & E1 & F1 & T1).
    rewrite E1. destruct (IH d1 F1) as (d2 & E2 & F2 & T2).
    exists d2. split; [exact E2|]. split; [exact F2|congruence].
Qed.

(* ------------------------------------------------------------------ *)
(* lz77 without flush reaches e = len - 8 unless the token limit stops it *)

Lemma lz_loop_progress : forall W input e mask rel maxToken, e <= lenN input ->
  forall l offset skip table toks ntok,
  l = skipn (N.to_nat offset) input ->
  offset + N.of_nat skip <= lenN input ->
  forall r, r = lz_loop false (arr_of_list input) (lenN input) e mask W rel maxToken
                        l offset skip table toks ntok false ->
  lz_oob r = false -> lz_ntok r <= maxToken -> e <= lz_off r.
Proof.
  intros W input e mask rel maxToken He.
  induction l as [|b l' IH]; intros offset skip table toks ntok Hl Hlen r Hr Hoob Hnt.
  - cbn [lz_loop] in Hr. symmetry in Hl. apply skipn_nil_len in Hl.
    subst r. cbn [lz_off]. unfold lenN in *. lia.
  - pose proof Hl as Hl0.
    symmetry in Hl. apply skipn_cons_nth in Hl. destruct Hl as (Hlt & Hb & Hl').
    assert (Hl'' : l' = skipn (N.to_nat (offset + 1)) input).
    { rewrite Hl'. f_equal. lia. }
    cbn [lz_loop] in Hr. destruct skip as [|k].
    + change (N.of_nat 0) with 0 in *. rewrite N.add_0_r in *.
      destruct (offset <? e) eqn:Ee.
      * remember (lz_step (arr_of_list input) e mask W rel offset (b :: l') table ntok maxToken)
          as sr eqn:Hsr.
        destruct (sr_oob sr) eqn:Esro.
        { exfalso. cbn [orb] in Hr. destruct (sr_stop sr).
          - subst r. discriminate Hoob.
          - subst r. rewrite lz_loop_oob_true in Hoob. discriminate Hoob. }
        cbn [orb] in Hr. rewrite Hl0 in Hsr.
        destruct (lz_step_ok W input e mask rel offset table ntok maxToken
                    ltac:(unfold lenN; lia) sr Hsr Esro) as (SG & SA & SS).
        destruct (sr_stop sr) eqn:Estop.
        -- exfalso. subst r. cbn [lz_ntok] in Hnt. specialize (SS eq_refl). lia.
        -- destruct SG as (SG1 & _).
           apply (IH (offset + 1) (N.to_nat (sr_adv sr) - 1)%nat (sr_table sr)
                     (sr_toks sr ++ toks) (ntok + lenN (sr_toks sr)) Hl'' ltac:(lia) r Hr Hoob Hnt).
      * subst r. cbn [lz_off]. lia.
    + apply (IH (offset + 1) k table toks ntok Hl'' ltac:(lia) r Hr Hoob Hnt).
Qed.

Lemma lz77_progress : forall mask W input processed offset table toks ntok maxToken,
  offset <= lenN input ->
  let r := lz77 false mask W input processed offset table toks ntok maxToken in
  lz_oob r = false -> lz_ntok r <= maxToken -> lenN input - 8 <= lz_off r.
Proof.
  intros mask W input processed offset table toks ntok maxToken Hoff r Hoob Hnt.
  unfold lz77 in r.
  apply (lz_loop_progress W input (lenN input - 8) mask (processed - offset) maxToken
           ltac:(lia) (skipn (N.to_nat offset) input) offset O table toks ntok eq_refl
           ltac:(change (N.of_nat 0) with 0; lia) r eq_refl Hoob Hnt).
Qed.

(* ------------------------------------------------------------------ *)
(* the table/offset invariant of the dynCompressor: independent of the destination *)

Definition oinv (c : dyn) : Prop :=
  0 < dW c /\ dW c <= 32768 /\ doob c = false /\ didx c <= lenN (dbuf c) /\
  (dW c <= didx c \/ (dproc c = didx c /\ table_below (dtable c) (didx c + 2))).

Definition lzcall (c : dyn) (flush : bool) : lz_res :=
  lz77 flush (dmask c) (dW c) (dbuf c) (dproc c) (didx c) (dtable c) (dtoks c) (dntok c) max_token.

Definition after_lz (c : dyn) (r : lz_res) : dyn :=
  mkdyn (dW c) (dmask c) (dsync c) (dbuf c) (lz_off r) (dproc c + (lz_off r - didx c))
        (lz_table r) (lz_toks r) (lz_ntok r) (dbb c) (ddest c) (doob c || lz_oob r).

Lemma lz_oinv : forall c flush, oinv c ->
  lz_oob (lzcall c flush) = false /\
  lz_ok (dW c) (dbuf c) (didx c) (dtoks c) (dntok c) max_token flush (lzcall c flush) /\
  oinv (after_lz c (lzcall c flush)).
Proof.
  intros c flush (H1 & H2 & H3 & H4 & H5).
  destruct (lz77_no_oob flush (dmask c) (dW c) (dbuf c) (dproc c) (didx c) (dtable c) (dtoks c)
              (dntok c) max_token H4 H1 H2 H5) as (N1 & N2).
  fold (lzcall c flush) in N1, N2.
  pose proof (lz77_ok flush (dmask c) (dW c) (dbuf c) (dproc c) (didx c) (dtable c) (dtoks c)
              (dntok c) max_token H4 N1) as HK.
  fold (lzcall c flush) in HK.
  split; [exact N1|]. split; [exact HK|].
  destruct HK as (new & K1 & K2 & K3 & K4 & _).
  unfold oinv, after_lz. cbn [dW doob didx dbuf dproc dtable].
  split; [exact H1|]. split; [exact H2|]. split; [rewrite H3, N1; reflexivity|].
  split; [exact K4|].
  destruct N2 as [N2|N2]; [left; exact N2|].
  destruct H5 as [H5|(H5 & _)]; [left; lia|]. right. split; [lia|exact N2].
Qed.

Lemma loop_unfold : forall f c flush final,
  dyn_compress_loop (S f) c flush final =
  let c1 := after_lz c (lzcall c flush) in
  if (dntok c1 <? max_token) && negb flush then (c1, false)
  else
    let at_end := didx c1 =? lenN (dbuf c1) in
    let '(c2, failed) := dyn_encode_block c1 (final && at_end) in
    if failed then (c2, true)
    else if at_end then (c2, false)
    else dyn_compress_loop f c2 flush final.
Proof. reflexivity. Qed.

Lemma encode_block_frame : forall c last c' f, dyn_encode_block c last = (c', f) ->
  dW c' = dW c /\ dbuf c' = dbuf c /\ didx c' = didx c /\ dproc c' = dproc c /\
  dtable c' = dtable c /\ doob c' = doob c.
Proof.
  intros c last c' f H. unfold dyn_encode_block in H.
  destruct (encode_block (dsync c) (frev (dtoks c)) last (dbb c)) as [chunks bb].
  destruct (dest_write_all (dest_event (ddest c) (EBlock (frev (dtoks c)) last)) chunks) as [d1 failed].
  destruct failed; inversion H; subst; cbn [dW dbuf didx dproc dtable doob]; repeat split.
Qed.

Lemma oinv_frame : forall c c', oinv c ->
  dW c' = dW c -> dbuf c' = dbuf c -> didx c' = didx c -> dproc c' = dproc c ->
  dtable c' = dtable c -> doob c' = doob c -> oinv c'.
Proof.
  intros c c' H E1 E2 E3 E4 E5 E6. unfold oinv in *. rewrite E1, E2, E3, E4, E5, E6. exact H.
Qed.

Lemma encode_block_oinv : forall c last c' f, dyn_encode_block c last = (c', f) -> oinv c -> oinv c'.
Proof.
  intros c last c' f H Hc. apply encode_block_frame in H.
  destruct H as (E1 & E2 & E3 & E4 & E5 & E6). eapply oinv_frame; eassumption.
Qed.

Lemma loop_oinv : forall fuel c flush final, oinv c ->
  oinv (fst (dyn_compress_loop fuel c flush final)).
Proof.
  induction fuel as [|f IH]; intros c flush final H; [exact H|].
  rewrite loop_unfold. cbv zeta.
  destruct (lz_oinv c flush H) as (_ & _ & H1).
  set (c1 := after_lz c (lzcall c flush)) in *.
  destruct ((dntok c1 <? max_token) && negb flush); [exact H1|].
  destruct (dyn_encode_block c1 (final && (didx c1 =? lenN (dbuf c1)))) as [c2 failed] eqn:E.
  pose proof (encode_block_oinv _ _ _ _ E H1) as H2.
  destruct failed; [exact H2|].
  destruct (didx c1 =? lenN (dbuf c1)); [exact H2|]. apply IH. exact H2.
Qed.

Lemma compress_block_oinv : forall c flush final, oinv c ->
  oinv (fst (dyn_compress_block c flush final)).
Proof.
  intros c flush final H. unfold dyn_compress_block.
  destruct (final && (lenN (dbuf c) =? 0)); [|apply loop_oinv; exact H].
  destruct (bb_take (bb_empty_block true (dbb c))) as [chunk bb].
  destruct (dest_write (dest_event (ddest c) EFinalEmpty) chunk) as [d1 failed].
  cbn [fst]. eapply oinv_frame; [exact H|reflexivity..].
Qed.

Lemma flush_oinv : forall c, oinv c -> oinv (fst (dyn_flush c)).
Proof.
  intros c H. unfold dyn_flush.
  pose proof (compress_block_oinv c true false H) as H1.
  destruct (dyn_compress_block c true false) as [c1 failed]. cbn [fst] in H1.
  destruct failed; [exact H1|].
  destruct (bb_take (bb_empty_block false (dbb c1))) as [chunk bb].
  destruct (dest_write (dest_event (ddest c1) ESync) chunk) as [d1 failed1].
  cbn [fst]. eapply oinv_frame; [exact H1|reflexivity..].
Qed.

(* Accumulate = optional slide, then append *)
Definition dslide (c : dyn) : dyn :=
  mkdyn (dW c) (dmask c) (dsync c) (skipn (N.to_nat (didx c - dW c)) (dbuf c))
        (didx c - (didx c - dW c)) (dproc c) (dtable c) (dtoks c) (dntok c) (dbb c) (ddest c) (doob c).
Definition dappend (c : dyn) (chunk : list N) : dyn :=
  mkdyn (dW c) (dmask c) (dsync c) (dbuf c ++ chunk) (didx c) (dproc c)
        (dtable c) (dtoks c) (dntok c) (dbb c) (ddest c) (doob c).
Definition dpre (c : dyn) : dyn := if 2 * dW c <=? didx c then dslide c else c.

Lemma accumulate_unfold : forall c data,
  dyn_accumulate c data =
  let c1 := dpre c in
  let chunk := firstn (N.to_nat (dyn_cap c1 - lenN (dbuf c1))) data in
  (dappend c1 chunk, length chunk, negb (lenN (dbuf (dappend c1 chunk)) <? dyn_cap (dappend c1 chunk))).
Proof. reflexivity. Qed.

Lemma slide_oinv : forall c, oinv c -> 2 * dW c <= didx c -> oinv (dslide c).
Proof.
  intros c (H1 & H2 & H3 & H4 & H5) Hs. unfold oinv, dslide. cbn [dW doob didx dbuf dproc dtable].
  split; [exact H1|]. split; [exact H2|]. split; [exact H3|]. split.
  - unfold lenN in *. rewrite skipn_length. lia.
  - left. lia.
Qed.

Lemma dpre_oinv : forall c, oinv c -> oinv (dpre c).
Proof.
  intros c H. unfold dpre. destruct (2 * dW c <=? didx c) eqn:E; [|exact H].
  apply slide_oinv; [exact H|lia].
Qed.

Lemma append_oinv : forall c chunk, oinv c -> oinv (dappend c chunk).
Proof.
  intros c chunk (H1 & H2 & H3 & H4 & H5). unfold oinv, dappend.
  cbn [dW doob didx dbuf dproc dtable].
  split; [exact H1|]. split; [exact H2|]. split; [exact H3|]. split; [|exact H5].
  rewrite lenN_app. lia.
Qed.

Lemma accumulate_oinv : forall c data, oinv c -> oinv (fst (fst (dyn_accumulate c data))).
Proof.
  intros c data H. rewrite accumulate_unfold. cbv zeta. cbn [fst].
  apply append_oinv, dpre_oinv, H.
Qed.

Lemma new_oinv : forall W mask sync d, 0 < W -> W <= 32768 -> oinv (dyn_new W mask sync d).
Proof.
  intros W mask sync d H1 H2. unfold oinv, dyn_new. cbn [dW doob didx dbuf dproc dtable].
  split; [exact H1|]. split; [exact H2|]. split; [reflexivity|]. split; [rewrite lenN_nil; lia|].
  right. split; [reflexivity|]. intros h. rewrite aget_empty. lia.
Qed.

(* ------------------------------------------------------------------ *)
(* no out-of-bounds read, whatever the history                          *)

Definition coinv (c : comp) : Prop := match c with CDyn d => oinv d | CHuf _ => True end.

Lemma c_accumulate_coinv : forall c data, coinv c -> coinv (fst (fst (c_accumulate c data))).
Proof.
  intros [d|h] data H; cbn [c_accumulate].
  - pose proof (accumulate_oinv d data H) as H1.
    destruct (dyn_accumulate d data) as [[d1 n] t]. exact H1.
  - destruct (huf_accumulate h data) as [[h1 n] t]. exact I.
Qed.

Lemma c_compress_coinv : forall c, coinv c -> coinv (fst (c_compress c)).
Proof.
  intros [d|h] H; cbn [c_compress].
  - pose proof (compress_block_oinv d false false H) as H1.
    destruct (dyn_compress_block d false false) as [d1 f]. exact H1.
  - destruct (huf_encode_block h false) as [h1 f]. exact I.
Qed.

Lemma c_flush_coinv : forall c, coinv c -> coinv (fst (c_flush c)).
Proof.
  intros [d|h] H; cbn [c_flush].
  - pose proof (flush_oinv d H) as H1. destruct (dyn_flush d) as [d1 f]. exact H1.
  - destruct (huf_flush h) as [h1 f]. exact I.
Qed.

Lemma c_close_coinv : forall c, coinv c -> coinv (fst (c_close c)).
Proof.
  intros [d|h] H; cbn [c_close].
  - pose proof (compress_block_oinv d true true H) as H1.
    destruct (dyn_compress_block d true true) as [d1 f]. exact H1.
  - destruct (huf_encode_block h true) as [h1 f]. exact I.
Qed.

Lemma c_reset_coinv : forall fail c, coinv c -> coinv (c_reset_to fail c).
Proof.
  intros fail [d|h] H; cbn [c_reset_to coinv]; [|exact I].
  destruct H as (H1 & H2 & _). apply new_oinv; assumption.
Qed.

Lemma write_loop_coinv : forall fuel c data num c' n e, coinv c ->
  write_loop comp c_accumulate c_compress fuel c data num = Some (c', n, e) -> coinv c'.
Proof.
  induction fuel as [|f IH]; intros c data num c' n e H E.
  - destruct data; cbn [write_loop] in E; [|discriminate E]. inversion E; subst. exact H.
  - destruct data as [|x data]; cbn [write_loop] in E; [inversion E; subst; exact H|].
    pose proof (c_accumulate_coinv c (x :: data) H) as H1.
    destruct (c_accumulate c (x :: data)) as [[c1 k] trig]. cbn [fst] in H1.
    destruct trig.
    + pose proof (c_compress_coinv c1 H1) as H2.
      destruct (c_compress c1) as [c2 failed]. cbn [fst] in H2.
      destruct failed; [inversion E; subst; exact H2|].
      eapply IH; [exact H2|exact E].
    + eapply IH; [exact H1|exact E].
Qed.

Lemma comp_new_coinv : forall sync level win4k fail, coinv (comp_new sync level win4k fail).
Proof.
  intros sync level win4k fail. unfold comp_new.
  destruct (level =? (-2))%Z; [exact I|]. cbn [coinv].
  apply new_oinv; destruct win4k; lia.
Qed.

Lemma reachable_coinv : forall sync level win4k w, reachable sync level win4k w -> coinv (wc comp w).
Proof.
  intros sync level win4k w H. induction H as [fail|w fuel d w' n e Hr IH Hw|w Hr IH|w Hr IH|w fail Hr IH].
  - apply comp_new_coinv.
  - unfold W_write, wwrite in Hw. destruct (we comp w).
    + destruct (write_loop comp c_accumulate c_compress fuel (wc comp w) d 0) as [[[c n'] failed]|] eqn:E;
        [|discriminate Hw].
      inversion Hw; subst. cbn [wc]. eapply write_loop_coinv; [exact IH|exact E].
    + inversion Hw; subst. exact IH.
    + inversion Hw; subst. exact IH.
  - unfold W_flush, wflush. destruct (we comp w); [|exact IH|exact IH].
    pose proof (c_flush_coinv _ IH) as H1. destruct (c_flush (wc comp w)) as [c failed]. exact H1.
  - unfold W_close, wclose. destruct (we comp w); [|exact IH|exact IH].
    pose proof (c_close_coinv _ IH) as H1. destruct (c_close (wc comp w)) as [c failed]. exact H1.
  - unfold W_reset, wreset. cbn [wc]. apply c_reset_coinv. exact IH.
Qed.

Theorem no_oob : no_oob_statement.
Proof.
  unfold no_oob_statement. intros sync level win4k w H.
  apply reachable_coinv in H. destruct (wc comp w) as [d|h]; [|reflexivity].
  cbn [comp_oob]. destruct H as (_ & _ & H & _). exact H.
Qed.

(* ------------------------------------------------------------------ *)
(* the ghost state of the dynCompressor: X = bytes slid out of the buffer; the events so far
   followed by the pending tokens stand for X ++ buf[0, idx) *)

Definition ghost (W : N) (X buf : list N) (idx : N) (tr : list event) (toks : list tok) : Prop :=
  exists H, tr_ok W (rev tr) H /\ toks_ok W (lenN H) (rev toks) /\ lits_ok (rev toks) /\
    expand_rev (rev toks) H = rev (firstn (N.to_nat idx) buf) ++ rev X.

Lemma ghost_lz : forall W X buf idx tr toks ntok maxTok flush r,
  ghost W X buf idx tr toks -> idx <= lenN buf -> bytes_ok buf ->
  lz_ok W buf idx toks ntok maxTok flush r -> ghost W X buf (lz_off r) tr (lz_toks r).
Proof.
  intros W X buf idx tr toks ntok maxTok flush r (H & G1 & G2 & G3 & G4) Hidx Hb
         (new & K1 & K2 & K3 & K4 & K5 & K6 & K7).
  exists H. split; [exact G1|]. rewrite K1, rev_app_distr.
  assert (Hlen : lenN H + tlen (rev toks) = lenN X + idx).
  { rewrite <- expand_len, G4, lenN_app, !lenN_rev, lenN_firstn by exact Hidx. lia. }
  split; [|split].
  - apply toks_ok_app. split; [exact G2|]. eapply toks_ok_mono; [exact K6|lia].
  - unfold lits_ok. apply Forall_app. split; [exact G3|].
    apply lits_from with (h := rev (firstn (N.to_nat idx) buf)). rewrite K5.
    apply Forall_rev, Forall_firstn_, Hb.
  - rewrite expand_rev_app, G4.
    rewrite (expand_rev_lift W) by (rewrite lenN_rev, lenN_firstn by exact Hidx; exact K6).
    rewrite K5. reflexivity.
Qed.

Lemma ghost_emit : forall W X buf idx tr toks last,
  ghost W X buf idx tr toks -> ghost W X buf idx (EBlock (frev toks) last :: tr) [].
Proof.
  intros W X buf idx tr toks last (H & G1 & G2 & G3 & G4).
  exists (expand_rev (rev toks) H). cbn [rev]. rewrite frev_rev.
  split; [apply tr_ok_block; assumption|]. split; [exact I|]. split; [constructor|].
  cbn [expand_rev]. exact G4.
Qed.

Lemma ghost_sync : forall W X buf idx tr toks,
  ghost W X buf idx tr toks -> ghost W X buf idx (ESync :: tr) toks.
Proof.
  intros W X buf idx tr toks (H & G1 & G2 & G3 & G4).
  exists H. cbn [rev]. split; [apply tr_ok_sync; exact G1|]. auto.
Qed.

Lemma ghost_slide : forall W X buf idx tr toks off,
  ghost W X buf idx tr toks -> off <= idx ->
  ghost W (X ++ firstn (N.to_nat off) buf) (skipn (N.to_nat off) buf) (idx - off) tr toks.
Proof.
  intros W X buf idx tr toks off (H & G1 & G2 & G3 & G4) Hoff.
  exists H. split; [exact G1|]. split; [exact G2|]. split; [exact G3|].
  rewrite G4. rewrite (rev_app_distr X), app_assoc.
  rewrite <- (rev_app_distr (firstn (N.to_nat off) buf)), <- firstn_split.
  do 3 f_equal. lia.
Qed.

Lemma ghost_append : forall W X buf idx tr toks chunk,
  ghost W X buf idx tr toks -> idx <= lenN buf -> ghost W X (buf ++ chunk) idx tr toks.
Proof.
  intros W X buf idx tr toks chunk (H & G1 & G2 & G3 & G4) Hidx.
  exists H. split; [exact G1|]. split; [exact G2|]. split; [exact G3|].
  rewrite G4, firstn_app.
  replace (N.to_nat idx - length buf)%nat with O by (unfold lenN in Hidx; lia).
  cbn [firstn]. rewrite app_nil_r. reflexivity.
Qed.

Lemma ghost_final : forall W X buf tr,
  ghost W X buf (lenN buf) tr [] -> tr_ok W (rev tr) (rev (X ++ buf)).
Proof.
  intros W X buf tr (H & G1 & _ & _ & G4). cbn [rev expand_rev] in G4.
  unfold lenN in G4. rewrite Nat2N.id, firstn_all in G4. rewrite rev_app_distr, <- G4. exact G1.
Qed.

Lemma ghost_empty : forall W tr toks idx,
  ghost W [] [] idx tr toks -> tr_ok W (rev tr) [].
Proof.
  intros W tr toks idx (H & G1 & _ & _ & G4). rewrite firstn_nil in G4. cbn [rev app] in G4.
  assert (HL : lenN H = 0).
  { pose proof (expand_len (rev toks) H) as E. rewrite G4, lenN_nil in E. lia. }
  apply lenN_0 in HL. subst H. exact G1.
Qed.

Lemma lz_ok_advance : forall W buf idx toks ntok maxTok flush r,
  lz_ok W buf idx toks ntok maxTok flush r -> idx <= lenN buf -> ntok < lz_ntok r -> idx < lz_off r.
Proof.
  intros W buf idx toks ntok maxTok flush r (new & K1 & K2 & K3 & K4 & K5 & K6 & K7) Hidx Hnt.
  assert (Hne : rev new <> []).
  { intros E. apply (f_equal (@rev tok)) in E. rewrite rev_involutive in E. cbn [rev] in E.
    subst new. rewrite lenN_nil in K2. lia. }
  pose proof (tlen_pos _ _ _ K6 Hne) as HP.
  pose proof (expand_len (rev new) (rev (firstn (N.to_nat idx) buf))) as E.
  rewrite K5, !lenN_rev, !lenN_firstn in E by lia. lia.
Qed.

(* ------------------------------------------------------------------ *)
(* invariant of the dynCompressor on a healthy destination, D = data accumulated so far *)

Definition dinv (W : N) (D : list N) (c : dyn) : Prop :=
  oinv c /\ dW c = W /\ dfail (ddest c) = None /\ bytes_ok D /\ dntok c < max_token /\
  lenN (dbuf c) <= 2 * W + 258 /\
  exists X, D = X ++ dbuf c /\ dproc c = lenN X + didx c /\
    ghost W X (dbuf c) (didx c) (dtrace (ddest c)) (dtoks c).

Lemma encode_block_healthy : forall c last, dfail (ddest c) = None ->
  exists bb d1,
    dyn_encode_block c last =
      (mkdyn (dW c) (dmask c) (dsync c) (dbuf c) (didx c) (dproc c) (dtable c) [] 0 bb d1 (doob c), false) /\
    dfail d1 = None /\ dtrace d1 = EBlock (frev (dtoks c)) last :: dtrace (ddest c).
Proof.
  intros c last H. unfold dyn_encode_block.
  destruct (encode_block (dsync c) (frev (dtoks c)) last (dbb c)) as [chunks bb].
  destruct (dest_write_all_healthy chunks (dest_event (ddest c) (EBlock (frev (dtoks c)) last)) H)
    as (d1 & E1 & F1 & T1).
  rewrite E1. exists bb, d1. split; [reflexivity|]. split; [exact F1|exact T1].
Qed.

Lemma max_token_pos : 0 < max_token.
Proof. unfold max_token. lia. Qed.

Lemma loop_dinv : forall W D flush final fuel c,
  dinv W D c -> nonfinal (dtrace (ddest c)) ->
  (N.to_nat (lenN (dbuf c) - didx c) < fuel)%nat ->
  exists c', dyn_compress_loop fuel c flush final = (c', false) /\ dinv W D c' /\
    dbuf c' = dbuf c /\ lenN (dbuf c) - 8 <= didx c' /\
    (flush = true -> didx c' = lenN (dbuf c) /\ dtoks c' = [] /\
        exists ts t, dtrace (ddest c') = EBlock ts final :: t /\ nonfinal t) /\
    (final = false -> nonfinal (dtrace (ddest c'))).
Proof.
  intros W D flush final. induction fuel as [|f IH]; intros c Hd Hnf Hf; [lia|].
  rewrite loop_unfold. cbv zeta.
  destruct Hd as (Ho & HW & Hfail & HbD & Hnt & Hcap & X & HD & Hproc & Hg).
  destruct (lz_oinv c flush Ho) as (Noob & HK & Ho1).
  pose proof Ho as (_ & _ & _ & Hidx & _).
  assert (Hbuf : bytes_ok (dbuf c)).
  { unfold bytes_ok in *. rewrite HD in HbD. apply Forall_app in HbD. apply HbD. }
  rewrite HW in HK.
  pose proof (ghost_lz _ _ _ _ _ _ _ _ _ _ Hg Hidx Hbuf HK) as Hg1.
  pose proof HK as (new & K1 & K2 & K3 & K4 & K5 & K6 & K7).
  set (r := lzcall c flush) in *. set (c1 := after_lz c r) in *.
  change (dntok c1) with (lz_ntok r). change (didx c1) with (lz_off r).
  change (dbuf c1) with (dbuf c).
  destruct ((lz_ntok r <? max_token) && negb flush) eqn:EA.
  - (* return without emitting *)
    assert (flush = false) by (destruct flush; [cbn in EA; lia|reflexivity]). subst flush.
    exists c1. split; [reflexivity|]. split.
    + split; [exact Ho1|]. split; [exact HW|]. split; [exact Hfail|]. split; [exact HbD|].
      split; [cbn [c1 after_lz dntok]; lia|]. split; [exact Hcap|].
      exists X. split; [exact HD|]. split; [cbn [c1 after_lz dproc didx]; lia|exact Hg1].
    + split; [reflexivity|]. split.
      * apply (lz77_progress (dmask c) (dW c) (dbuf c) (dproc c) (didx c) (dtable c) (dtoks c)
                 (dntok c) max_token Hidx Noob). fold (lzcall c false). fold r. lia.
      * split; [intros E; discriminate E|]. intros _. exact Hnf.
  - (* emit a block *)
    destruct (encode_block_healthy c1 (final && (lz_off r =? lenN (dbuf c))) Hfail)
      as (bb & d1 & E1 & F1 & T1).
    rewrite E1.
    set (c2 := mkdyn (dW c1) (dmask c1) (dsync c1) (dbuf c1) (didx c1) (dproc c1) (dtable c1) [] 0
                     bb d1 (doob c1)) in *.
    assert (Hd2 : dinv W D c2).
    { split; [eapply oinv_frame; [exact Ho1|reflexivity..]|]. split; [exact HW|].
      split; [exact F1|]. split; [exact HbD|]. split; [exact max_token_pos|]. split; [exact Hcap|].
      exists X. split; [exact HD|]. split; [cbn [c2 c1 after_lz dproc didx]; lia|].
      cbn [c2 ddest dtoks dbuf didx]. rewrite T1. apply ghost_emit. exact Hg1. }
    destruct (lz_off r =? lenN (dbuf c)) eqn:EE.
    + exists c2. split; [reflexivity|]. split; [exact Hd2|]. split; [reflexivity|].
      split; [cbn [c2 c1 after_lz didx]; lia|]. split.
      * intros _. split; [cbn [c2 c1 after_lz didx]; lia|]. split; [reflexivity|].
        cbn [c2 ddest]. rewrite T1, andb_true_r. eexists _, _. split; [reflexivity|exact Hnf].
      * intros Ef. cbn [c2 ddest]. rewrite T1. constructor; [|exact Hnf].
        subst final. reflexivity.
    + assert (Hge : dntok c < lz_ntok r).
      { destruct flush; cbn [negb] in EA; [|lia].
        destruct (N.leb_spec (lz_ntok r) max_token) as [Hle|Hgt]; [|lia].
        specialize (K7 eq_refl Hle). lia. }
      assert (Hadv : didx c < lz_off r).
      { eapply lz_ok_advance; [exact HK|exact Hidx|exact Hge]. }
      destruct (IH c2 Hd2) as (c' & R1 & R2 & R3 & R4 & R5 & R6).
      * cbn [c2 ddest]. rewrite T1, andb_false_r. constructor; [reflexivity|exact Hnf].
      * cbn [c2 c1 after_lz didx dbuf]. lia.
      * exists c'. split; [exact R1|]. split; [exact R2|]. split; [exact R3|].
        split; [exact R4|]. split; [exact R5|exact R6].
Qed.

Definition dready (c : dyn) : Prop := lenN (dbuf c) < 2 * dW c + 258 \/ 2 * dW c <= didx c.

Lemma fuel_block : forall c, (N.to_nat (lenN (dbuf c) - didx c) < S (S (length (dbuf c))))%nat.
Proof. intros c. unfold lenN. lia. Qed.

(* Compress from Writer.Write *)
Lemma compress_dinv : forall W D c, dinv W D c -> nonfinal (dtrace (ddest c)) ->
  exists c', dyn_compress_block c false false = (c', false) /\ dinv W D c' /\
    nonfinal (dtrace (ddest c')) /\ dready c'.
Proof.
  intros W D c Hd Hnf. unfold dyn_compress_block. cbn [andb].
  destruct (loop_dinv W D false false _ c Hd Hnf (fuel_block c)) as (c' & R1 & R2 & R3 & R4 & _ & R6).
  exists c'. split; [exact R1|]. split; [exact R2|]. split; [exact (R6 eq_refl)|].
  destruct R2 as (_ & HW & _ & _ & _ & Hcap & _). unfold dready. rewrite HW, R3 in *. lia.
Qed.

Lemma bb_take_empty_acc : forall final b, bb_acc (snd (bb_take (bb_empty_block final b))) = [].
Proof. reflexivity. Qed.

(* Flush *)
Lemma flush_dinv : forall W D c, dinv W D c -> nonfinal (dtrace (ddest c)) ->
  exists c', dyn_flush c = (c', false) /\ dinv W D c' /\ nonfinal (dtrace (ddest c')) /\ dready c' /\
    (exists t, dtrace (ddest c') = ESync :: t) /\
    tr_ok W (rev (dtrace (ddest c'))) (rev D) /\ bb_acc (dbb c') = [].
Proof.
  intros W D c Hd Hnf. unfold dyn_flush, dyn_compress_block. cbn [andb].
  destruct (loop_dinv W D true false _ c Hd Hnf (fuel_block c)) as (c1 & R1 & R2 & R3 & R4 & R5 & R6).
  rewrite R1. destruct (R5 eq_refl) as (R5a & R5b & _). specialize (R6 eq_refl).
  pose proof (bb_take_empty_acc false (dbb c1)) as Hacc.
  destruct (bb_take (bb_empty_block false (dbb c1))) as [chunk bb]. cbn [snd] in Hacc.
  destruct R2 as (Ho & HW & Hfail & HbD & Hnt & Hcap & X & HD & Hproc & Hg).
  destruct (dest_write_healthy (dest_event (ddest c1) ESync) chunk Hfail) as (d1 & E1 & F1 & T1).
  rewrite E1. cbn [dest_event dtrace] in T1.
  eexists. split; [reflexivity|]. split; [|split; [|split; [|split; [|split]]]].
  - split; [eapply oinv_frame; [exact Ho|reflexivity..]|]. split; [exact HW|].
    split; [exact F1|]. split; [exact HbD|]. split; [exact Hnt|]. split; [exact Hcap|].
    exists X. split; [exact HD|]. split; [exact Hproc|].
    cbn [ddest dtoks dbuf didx]. rewrite T1. apply ghost_sync. exact Hg.
  - cbn [ddest]. rewrite T1. constructor; [reflexivity|exact R6].
  - unfold dready. cbn [dbuf dW didx]. rewrite HW, R3 in *. lia.
  - cbn [ddest]. rewrite T1. eexists. reflexivity.
  - cbn [ddest]. rewrite T1. cbn [rev]. apply tr_ok_sync. rewrite HD. apply ghost_final.
    rewrite R5a, R5b, <- R3 in Hg. exact Hg.
  - exact Hacc.
Qed.

(* Close *)
Lemma close_dinv : forall W D c, dinv W D c -> nonfinal (dtrace (ddest c)) ->
  exists c', dyn_compress_block c true true = (c', false) /\ doob c' = false /\
    trace_complete (rev (dtrace (ddest c'))) = true /\
    tr_ok W (rev (dtrace (ddest c'))) (rev D).
Proof.
  intros W D c Hd Hnf. unfold dyn_compress_block. cbn [andb].
  destruct (lenN (dbuf c) =? 0) eqn:E0.
  - destruct Hd as (Ho & HW & Hfail & HbD & Hnt & Hcap & X & HD & Hproc & Hg).
    destruct (bb_take (bb_empty_block true (dbb c))) as [chunk bb].
    destruct (dest_write_healthy (dest_event (ddest c) EFinalEmpty) chunk Hfail) as (d1 & E1 & F1 & T1).
    rewrite E1. cbn [dest_event dtrace] in T1.
    eexists. split; [reflexivity|]. cbn [doob ddest]. rewrite T1. cbn [rev].
    pose proof Ho as (O1 & _ & O3 & O4 & O5).
    split; [exact O3|]. split.
    + rewrite trace_complete_snoc; [reflexivity|]. apply Forall_rev. exact Hnf.
    + assert (Hb0 : dbuf c = []) by (apply lenN_0; lia).
      assert (HX : X = []) by (apply lenN_0; lia).
      rewrite Hb0, HX in *. subst D. cbn [app rev]. apply tr_ok_fempty.
      eapply ghost_empty. exact Hg.
  - destruct (loop_dinv W D true true _ c Hd Hnf (fuel_block c)) as (c1 & R1 & R2 & R3 & R4 & R5 & _).
    exists c1. split; [exact R1|].
    destruct (R5 eq_refl) as (R5a & R5b & ts & t & R5c & R5d).
    destruct R2 as (Ho & HW & Hfail & HbD & Hnt & Hcap & X & HD & Hproc & Hg).
    split; [apply Ho|]. split.
    + rewrite R5c. cbn [rev]. rewrite trace_complete_snoc; [reflexivity|]. apply Forall_rev. exact R5d.
    + rewrite HD. apply ghost_final. rewrite R5a, R5b, <- R3 in Hg. exact Hg.
Qed.

(* Accumulate *)
Lemma dinv_pre : forall W D c, dinv W D c -> dready c ->
  dinv W D (dpre c) /\ lenN (dbuf (dpre c)) < 2 * W + 258 /\ ddest (dpre c) = ddest c.
Proof.
  intros W D c Hd Hr. unfold dpre. destruct (2 * dW c <=? didx c) eqn:E.
  - destruct Hd as (Ho & HW & Hfail & HbD & Hnt & Hcap & X & HD & Hproc & Hg).
    pose proof Ho as (O1 & O2 & O3 & O4 & O5).
    assert (Hlen : lenN (skipn (N.to_nat (didx c - dW c)) (dbuf c)) = lenN (dbuf c) - (didx c - dW c)).
    { unfold lenN. rewrite skipn_length. lia. }
    split; [|split; [cbn [dslide dbuf]; lia|reflexivity]].
    split; [apply slide_oinv; [exact Ho|lia]|]. split; [exact HW|]. split; [exact Hfail|].
    split; [exact HbD|]. split; [exact Hnt|]. split; [cbn [dslide dbuf]; lia|].
    exists (X ++ firstn (N.to_nat (didx c - dW c)) (dbuf c)).
    cbn [dslide dbuf didx dproc ddest dtoks].
    split; [rewrite <- app_assoc, firstn_skipn; exact HD|]. split.
    + rewrite lenN_app, lenN_firstn by lia. lia.
    + apply ghost_slide; [exact Hg|lia].
  - split; [exact Hd|]. split; [|reflexivity].
    destruct Hd as (_ & HW & _). unfold dready in Hr. rewrite HW in *. lia.
Qed.

Lemma dinv_append : forall W D c chunk, dinv W D c -> bytes_ok chunk ->
  lenN (dbuf c) + lenN chunk <= 2 * W + 258 -> dinv W (D ++ chunk) (dappend c chunk).
Proof.
  intros W D c chunk (Ho & HW & Hfail & HbD & Hnt & Hcap & X & HD & Hproc & Hg) Hb Hlen.
  pose proof Ho as (O1 & O2 & O3 & O4 & O5).
  split; [apply append_oinv; exact Ho|]. split; [exact HW|]. split; [exact Hfail|].
  split; [apply Forall_app; split; assumption|]. split; [exact Hnt|].
  cbn [dappend dbuf didx dproc ddest dtoks].
  split; [rewrite lenN_app; lia|].
  exists X. split; [rewrite HD, app_assoc; reflexivity|]. split; [exact Hproc|].
  apply ghost_append; assumption.
Qed.

Lemma accumulate_dinv : forall W D c data, dinv W D c -> nonfinal (dtrace (ddest c)) -> dready c ->
  bytes_ok data -> data <> [] ->
  exists c1 k trig, dyn_accumulate c data = (c1, k, trig) /\ (1 <= k)%nat /\
    dinv W (D ++ firstn k data) c1 /\ nonfinal (dtrace (ddest c1)) /\
    (trig = false -> dready c1).
Proof.
  intros W D c data Hd Hnf Hr Hb Hne. rewrite accumulate_unfold. cbv zeta.
  destruct (dinv_pre W D c Hd Hr) as (Hd1 & Hl1 & Hdest).
  set (c1 := dpre c) in *.
  set (chunk := firstn (N.to_nat (dyn_cap c1 - lenN (dbuf c1))) data).
  assert (HW1 : dW c1 = W) by apply Hd1.
  assert (Hcl : lenN chunk <= dyn_cap c1 - lenN (dbuf c1)).
  { unfold chunk, lenN. rewrite firstn_length. lia. }
  unfold dyn_cap in *. rewrite HW1 in *.
  eexists _, _, _. split; [reflexivity|]. split; [|split; [|split]].
  - unfold chunk. rewrite firstn_length. destruct data; [congruence|]. cbn [length].
    unfold lenN in *. lia.
  - unfold chunk at 1. rewrite firstn_firstn_len. fold chunk.
    apply dinv_append; [exact Hd1|apply Forall_firstn_; exact Hb|lia].
  - cbn [dappend ddest]. rewrite Hdest. exact Hnf.
  - intros Et. unfold dready. cbn [dappend dW dbuf didx] in *. rewrite HW1 in *. lia.
Qed.

(* ------------------------------------------------------------------ *)
(* huffmanOnly                                                          *)

Definition hinv (W : N) (D : list N) (h : huf) : Prop :=
  dfail (hdest h) = None /\ lenN (hbuf h) <= huf_max /\
  exists H, tr_ok W (rev (dtrace (hdest h))) H /\ D = rev H ++ hbuf h.

Lemma rev_cons_ev : forall (e : event) t, rev (e :: t) = rev t ++ [e].
Proof. reflexivity. Qed.

Lemma huf_encode_nonfinal : forall W D h, hinv W D h -> nonfinal (dtrace (hdest h)) ->
  exists h', huf_encode_block h false = (h', false) /\ hinv W D h' /\
    nonfinal (dtrace (hdest h')) /\ hbuf h' = [].
Proof.
  intros W D h (Hf & Hl & H & Ht & HD) Hnf. unfold huf_encode_block.
  destruct (hbuf h) as [|x l] eqn:Eb.
  - exists h. split; [reflexivity|]. split; [|split; [exact Hnf|exact Eb]].
    split; [exact Hf|]. split; [rewrite Eb; exact Hl|]. exists H. rewrite Eb. split; assumption.
  - destruct (hencode_block (x :: l) false (hbb h)) as [chunks bb].
    destruct (dest_write_all_healthy chunks (dest_event (hdest h) (EHBlock (x :: l) false)) Hf)
      as (d1 & E1 & F1 & T1).
    rewrite E1. cbn [dest_event dtrace] in T1.
    eexists. split; [reflexivity|]. unfold hinv. cbn [hdest hbuf]. rewrite T1.
    split; [|split; [constructor; [reflexivity|exact Hnf]|reflexivity]].
    split; [exact F1|]. split; [rewrite lenN_nil; unfold huf_max; lia|].
    exists (rev (x :: l) ++ H). rewrite rev_cons_ev. split; [apply tr_ok_hblock; exact Ht|].
    rewrite HD, app_nil_r.
    rewrite rev_app_distr, rev_involutive. reflexivity.
Qed.

Lemma huf_encode_final : forall W D h, hinv W D h -> nonfinal (dtrace (hdest h)) ->
  exists h', huf_encode_block h true = (h', false) /\
    trace_complete (rev (dtrace (hdest h'))) = true /\
    tr_ok W (rev (dtrace (hdest h'))) (rev D).
Proof.
  intros W D h (Hf & Hl & H & Ht & HD) Hnf. unfold huf_encode_block.
  destruct (hbuf h) as [|x l] eqn:Eb.
  - destruct (bb_take (bb_empty_block true (hbb h))) as [chunk bb].
    destruct (dest_write_healthy (dest_event (hdest h) EFinalEmpty) chunk Hf) as (d1 & E1 & F1 & T1).
    rewrite E1. cbn [dest_event dtrace] in T1.
    eexists. split; [reflexivity|]. cbn [hdest]. rewrite T1, rev_cons_ev. split.
    + rewrite trace_complete_snoc; [reflexivity|]. apply Forall_rev. exact Hnf.
    + apply tr_ok_fempty. rewrite HD, app_nil_r, rev_involutive. exact Ht.
  - destruct (hencode_block (x :: l) true (hbb h)) as [chunks bb].
    destruct (dest_write_all_healthy chunks (dest_event (hdest h) (EHBlock (x :: l) true)) Hf)
      as (d1 & E1 & F1 & T1).
    rewrite E1. cbn [dest_event dtrace] in T1.
    eexists. split; [reflexivity|]. cbn [hdest]. rewrite T1, rev_cons_ev. split.
    + rewrite trace_complete_snoc; [reflexivity|]. apply Forall_rev. exact Hnf.
    + rewrite HD, rev_app_distr, rev_involutive.
      apply tr_ok_hblock. exact Ht.
Qed.

Lemma huf_flush_hinv : forall W D h, hinv W D h -> nonfinal (dtrace (hdest h)) ->
  exists h', huf_flush h = (h', false) /\ hinv W D h' /\ nonfinal (dtrace (hdest h')) /\
    hbuf h' = [] /\ (exists t, dtrace (hdest h') = ESync :: t) /\
    tr_ok W (rev (dtrace (hdest h'))) (rev D) /\ bb_acc (hbb h') = [].
Proof.
  intros W D h Hh Hnf. unfold huf_flush.
  destruct (huf_encode_nonfinal W D h Hh Hnf) as (h1 & E1 & Hh1 & Hnf1 & Hb1).
  rewrite E1.
  pose proof (bb_take_empty_acc false (hbb h1)) as Hacc.
  destruct (bb_take (bb_empty_block false (hbb h1))) as [chunk bb]. cbn [snd] in Hacc.
  destruct Hh1 as (Hf & Hl & H & Ht & HD).
  destruct (dest_write_healthy (dest_event (hdest h1) ESync) chunk Hf) as (d1 & E2 & F2 & T2).
  rewrite E2. cbn [dest_event dtrace] in T2.
  eexists. split; [reflexivity|]. unfold hinv. cbn [hdest hbuf hbb]. rewrite T2, !rev_cons_ev.
  split; [|split; [constructor; [reflexivity|exact Hnf1]|split; [exact Hb1|split; [eexists; reflexivity|split; [|exact Hacc]]]]].
  - split; [exact F2|]. split; [exact Hl|]. exists H. split; [apply tr_ok_sync; exact Ht|exact HD].
  - apply tr_ok_sync. rewrite HD, Hb1, app_nil_r, rev_involutive. exact Ht.
Qed.

Lemma huf_accumulate_hinv : forall W D h data, hinv W D h -> lenN (hbuf h) < huf_max ->
  data <> [] ->
  exists h1 k trig, huf_accumulate h data = (h1, k, trig) /\ (1 <= k)%nat /\
    hinv W (D ++ firstn k data) h1 /\ hdest h1 = hdest h /\
    (trig = false -> lenN (hbuf h1) < huf_max).
Proof.
  intros W D h data (Hf & Hl & H & Ht & HD) Hr Hne. unfold huf_accumulate.
  set (chunk := firstn (N.to_nat (huf_max - lenN (hbuf h))) data).
  assert (Hcl : lenN chunk <= huf_max - lenN (hbuf h)).
  { unfold chunk, lenN. rewrite firstn_length. lia. }
  eexists _, _, _. split; [reflexivity|]. cbn [hbuf hdest]. split; [|split; [|split]].
  - unfold chunk. rewrite firstn_length. destruct data; [congruence|]. cbn [length].
    unfold lenN in *. lia.
  - unfold chunk at 1. rewrite firstn_firstn_len. fold chunk.
    split; [exact Hf|]. cbn [hbuf hdest]. split; [rewrite lenN_app; lia|].
    exists H. split; [exact Ht|]. rewrite HD, app_assoc. reflexivity.
  - reflexivity.
  - intros Et. rewrite lenN_app in *. lia.
Qed.

(* ------------------------------------------------------------------ *)
(* both compressors                                                     *)

Definition cinv (W : N) (D : list N) (c : comp) : Prop :=
  match c with
  | CDyn d => dinv W D d /\ nonfinal (dtrace (ddest d))
  | CHuf h => hinv W D h /\ nonfinal (dtrace (hdest h))
  end.
Definition cready (c : comp) : Prop :=
  match c with CDyn d => dready d | CHuf h => lenN (hbuf h) < huf_max end.

Lemma c_accumulate_cinv : forall W D c data, cinv W D c -> cready c -> bytes_ok data -> data <> [] ->
  exists c1 k trig, c_accumulate c data = (c1, k, trig) /\ (1 <= k)%nat /\
    cinv W (D ++ firstn k data) c1 /\ (trig = false -> cready c1).
Proof.
  intros W D [d|h] data Hc Hr Hb Hne; cbn [c_accumulate cinv cready] in *.
  - destruct Hc as (Hd & Hnf).
    destruct (accumulate_dinv W D d data Hd Hnf Hr Hb Hne) as (c1 & k & trig & E & Hk & Hd1 & Hnf1 & Hr1).
    rewrite E. exists (CDyn c1), k, trig. split; [reflexivity|]. split; [exact Hk|].
    split; [split; assumption|exact Hr1].
  - destruct Hc as (Hh & Hnf).
    destruct (huf_accumulate_hinv W D h data Hh Hr Hne) as (h1 & k & trig & E & Hk & Hh1 & Hd1 & Hr1).
    rewrite E. exists (CHuf h1), k, trig. split; [reflexivity|]. split; [exact Hk|].
    split; [split; [exact Hh1|rewrite Hd1; exact Hnf]|exact Hr1].
Qed.

Lemma c_compress_cinv : forall W D c, cinv W D c ->
  exists c', c_compress c = (c', false) /\ cinv W D c' /\ cready c'.
Proof.
  intros W D [d|h] Hc; cbn [c_compress cinv] in *.
  - destruct Hc as (Hd & Hnf).
    destruct (compress_dinv W D d Hd Hnf) as (c' & E & Hd1 & Hnf1 & Hr1).
    rewrite E. exists (CDyn c'). split; [reflexivity|]. split; [split; assumption|exact Hr1].
  - destruct Hc as (Hh & Hnf).
    destruct (huf_encode_nonfinal W D h Hh Hnf) as (h' & E & Hh1 & Hnf1 & Hb1).
    rewrite E. exists (CHuf h'). split; [reflexivity|]. split; [split; assumption|].
    cbn [cready]. rewrite Hb1, lenN_nil. unfold huf_max. lia.
Qed.

Definition c_acc (c : comp) : list bool :=
  match c with CDyn d => bb_acc (dbb d) | CHuf h => bb_acc (hbb h) end.

Lemma c_flush_cinv : forall W D c, cinv W D c ->
  exists c', c_flush c = (c', false) /\ cinv W D c' /\ cready c' /\
    (exists t, dtrace (c_dest c') = ESync :: t) /\
    tr_ok W (rev (dtrace (c_dest c'))) (rev D) /\ c_acc c' = [].
Proof.
  intros W D [d|h] Hc; cbn [c_flush cinv] in *.
  - destruct Hc as (Hd & Hnf).
    destruct (flush_dinv W D d Hd Hnf) as (c' & E & Hd1 & Hnf1 & Hr1 & Ht & Hok & Hacc).
    rewrite E. exists (CDyn c'). split; [reflexivity|]. split; [split; assumption|].
    split; [exact Hr1|]. split; [exact Ht|]. split; [exact Hok|exact Hacc].
  - destruct Hc as (Hh & Hnf).
    destruct (huf_flush_hinv W D h Hh Hnf) as (h' & E & Hh1 & Hnf1 & Hb1 & Ht & Hok & Hacc).
    rewrite E. exists (CHuf h'). split; [reflexivity|]. split; [split; assumption|].
    split; [cbn [cready]; rewrite Hb1, lenN_nil; unfold huf_max; lia|].
    split; [exact Ht|]. split; [exact Hok|exact Hacc].
Qed.

Lemma c_close_cinv : forall W D c, cinv W D c ->
  exists c', c_close c = (c', false) /\ comp_oob c' = false /\
    trace_complete (rev (dtrace (c_dest c'))) = true /\
    tr_ok W (rev (dtrace (c_dest c'))) (rev D).
Proof.
  intros W D [d|h] Hc; cbn [c_close cinv] in *.
  - destruct Hc as (Hd & Hnf).
    destruct (close_dinv W D d Hd Hnf) as (c' & E & Hoob & Hcomp & Hok).
    rewrite E. exists (CDyn c'). split; [reflexivity|]. split; [exact Hoob|]. split; assumption.
  - destruct Hc as (Hh & Hnf).
    destruct (huf_encode_final W D h Hh Hnf) as (h' & E & Hcomp & Hok).
    rewrite E. exists (CHuf h'). split; [reflexivity|]. split; [reflexivity|]. split; assumption.
Qed.

(* ------------------------------------------------------------------ *)
(* Writer.Write's loop, then whole histories                            *)

Lemma write_loop_cinv : forall W fuel data c D num, cinv W D c -> cready c -> bytes_ok data ->
  (length data <= fuel)%nat ->
  exists c' n, write_loop comp c_accumulate c_compress fuel c data num = Some (c', n, false) /\
    cinv W (D ++ data) c' /\ cready c'.
Proof.
  intros W. induction fuel as [|f IH]; intros data c D num Hc Hr Hb Hlen.
  - destruct data as [|x data]; [|cbn [length] in Hlen; lia].
    exists c, num. split; [reflexivity|]. rewrite app_nil_r. split; assumption.
  - destruct data as [|x data].
    + exists c, num. split; [reflexivity|]. rewrite app_nil_r. split; assumption.
    + cbn [write_loop].
      destruct (c_accumulate_cinv W D c (x :: data) Hc Hr Hb ltac:(discriminate))
        as (c1 & k & trig & E & Hk & Hc1 & Hr1).
      rewrite E.
      assert (Hb' : bytes_ok (skipn k (x :: data))).
      { unfold bytes_ok in *. rewrite Forall_forall in *. intros y Hy. apply Hb.
        eapply In_skipn. exact Hy. }
      assert (Hlen' : (length (skipn k (x :: data)) <= f)%nat).
      { rewrite skipn_length. lia. }
      assert (HD : D ++ x :: data = (D ++ firstn k (x :: data)) ++ skipn k (x :: data)).
      { rewrite <- app_assoc, firstn_skipn. reflexivity. }
      rewrite HD. destruct trig.
      * destruct (c_compress_cinv W _ c1 Hc1) as (c2 & E2 & Hc2 & Hr2). rewrite E2.
        apply IH; assumption.
      * apply IH; auto.
Qed.

Lemma wrun_app : forall fuel a b (w : writer comp),
  W_run fuel w (a ++ b) =
  match W_run fuel w a with
  | None => None
  | Some (w1, f1) =>
    match W_run fuel w1 b with None => None | Some (w2, f2) => Some (w2, f1 ++ f2) end
  end.
Proof.
  intros fuel. unfold W_run. induction a as [|o r IH]; intros b w.
  - cbn [app WriterSM.wrun]. destruct (WriterSM.wrun _ _ _ _ _ _ fuel w b) as [[w2 f2]|]; reflexivity.
  - cbn [app WriterSM.wrun].
    destruct (wstep comp c_accumulate c_compress c_flush c_close (c_reset_to None) fuel w o)
      as [[w1 e]|]; [|reflexivity].
    rewrite IH.
    destruct (WriterSM.wrun _ _ _ _ _ _ fuel w1 r) as [[w2 es]|]; [|reflexivity].
    destruct (WriterSM.wrun _ _ _ _ _ _ fuel w2 b) as [[w3 f3]|]; reflexivity.
Qed.

Lemma run_cinv : forall W fuel h w D, no_close h -> bytes_ok (hist_data h) ->
  (length (hist_data h) <= fuel)%nat -> we comp w = ENone ->
  cinv W D (wc comp w) -> cready (wc comp w) ->
  exists w' flags, W_run fuel w (map hop_op h) = Some (w', flags) /\
    Forall (fun e => e = false) flags /\ we comp w' = ENone /\
    cinv W (D ++ hist_data h) (wc comp w') /\ cready (wc comp w').
Proof.
  intros W fuel. unfold W_run.
  induction h as [|o r IH]; intros w D Hnc Hb Hlen Hwe Hc Hr.
  - exists w, []. split; [reflexivity|]. split; [constructor|]. split; [exact Hwe|].
    cbn [hist_data flat_map]. rewrite app_nil_r. split; assumption.
  - inversion Hnc as [|o' r' Ho Hncr]; subst.
    change (hist_data (o :: r)) with ((match o with HWrite d => d | _ => [] end) ++ hist_data r) in *.
    unfold bytes_ok in Hb. apply Forall_app in Hb. destruct Hb as (Hb1 & Hb2).
    rewrite app_length in Hlen.
    cbn [map WriterSM.wrun]. destruct o as [d| |]; [| |congruence].
    + cbn [hop_op wstep]. unfold wwrite. rewrite Hwe.
      destruct (write_loop_cinv W fuel d (wc comp w) D 0%nat Hc Hr Hb1 ltac:(lia))
        as (c' & n & E & Hc' & Hr').
      rewrite E.
      destruct (IH (mkw comp c' ENone) (D ++ d) Hncr Hb2 ltac:(lia) eq_refl Hc' Hr')
        as (w' & flags & E' & Hfl & Hwe' & Hc'' & Hr'').
      rewrite E'. exists w', (false :: flags). split; [reflexivity|].
      split; [constructor; [reflexivity|exact Hfl]|]. split; [exact Hwe'|].
      rewrite app_assoc. split; assumption.
    + cbn [hop_op wstep]. unfold wflush. rewrite Hwe.
      destruct (c_flush_cinv W D (wc comp w) Hc) as (c' & E & Hc' & Hr' & _).
      rewrite E.
      destruct (IH (mkw comp c' ENone) D Hncr Hb2 ltac:(lia) eq_refl Hc' Hr')
        as (w' & flags & E' & Hfl & Hwe' & Hc'' & Hr'').
      rewrite E'. exists w', (false :: flags). split; [reflexivity|].
      split; [constructor; [reflexivity|exact Hfl]|]. split; [exact Hwe'|].
      cbn [app]. split; assumption.
Qed.

Lemma comp_new_cinv : forall sync level win4k,
  cinv (window_of level win4k) [] (comp_new sync level win4k None) /\
  cready (comp_new sync level win4k None).
Proof.
  intros sync level win4k. unfold comp_new, window_of.
  destruct (level =? (-2))%Z.
  - cbn [cinv cready huf_new hbuf hdest dest_new dtrace]. split; [split; [|constructor]|].
    + split; [reflexivity|]. split; [rewrite lenN_nil; unfold huf_max; lia|].
      exists []. split; [apply tr_ok_nil|reflexivity].
    + rewrite lenN_nil. unfold huf_max. lia.
  - set (W := if win4k then 4096 else 32768).
    assert (HW : 0 < W /\ W <= 32768) by (unfold W; destruct win4k; lia).
    cbn [cinv cready]. split; [split; [|constructor]|].
    + split; [apply new_oinv; lia|]. split; [reflexivity|]. split; [reflexivity|].
      split; [constructor|]. split; [exact max_token_pos|].
      cbn [dyn_new dbuf dproc didx ddest dtoks dest_new dtrace].
      split; [rewrite lenN_nil; lia|].
      exists []. split; [reflexivity|]. split; [reflexivity|].
      exists []. split; [apply tr_ok_nil|]. split; [exact I|]. split; [constructor|reflexivity].
    + unfold dready. cbn [dyn_new dbuf dW didx]. left. rewrite lenN_nil. lia.
Qed.

Lemma hist_data_app : forall a b, hist_data (a ++ b) = hist_data a ++ hist_data b.
Proof. intros a b. unfold hist_data. apply flat_map_app. Qed.

Lemma tr_ok_data : forall W evs D, tr_ok W evs (rev D) -> trace_toks_ok W evs 0 /\ trace_data evs = D.
Proof.
  intros W evs D (H1 & H2). split; [exact H1|]. unfold trace_data. rewrite H2. apply rev_involutive.
Qed.

Theorem trace_content : trace_content_statement.
Proof.
  unfold trace_content_statement. intros sync level win4k h Hnc Hb.
  unfold hrun. fold (W_run (S (length (hist_data (h ++ [HClose]))))
                          (mkw comp (comp_new sync level win4k None) ENone) (map hop_op (h ++ [HClose]))).
  rewrite map_app, wrun_app, hist_data_app. cbn [hist_data flat_map]. rewrite app_nil_r.
  destruct (comp_new_cinv sync level win4k) as (Hc0 & Hr0).
  destruct (run_cinv (window_of level win4k) (S (length (hist_data h))) h
              (mkw comp (comp_new sync level win4k None) ENone) [] Hnc Hb ltac:(lia) eq_refl Hc0 Hr0)
    as (w1 & flags & E & Hfl & Hwe & Hc1 & _).
  rewrite E. cbn [app] in Hc1.
  destruct (c_close_cinv _ _ _ Hc1) as (c' & Ec & Hoob & Hcomp & Hok).
  apply tr_ok_data in Hok. destruct Hok as (Hok1 & Hok2).
  unfold W_run. cbn [map hop_op WriterSM.wrun wstep]. unfold wclose. rewrite Hwe, Ec.
  exists (mkw comp c' EClosed), (flags ++ [false]). split; [reflexivity|].
  split; [apply Forall_app; split; [exact Hfl|constructor; [reflexivity|constructor]]|].
  split; [reflexivity|]. unfold run_trace. cbn [wc].
  split; [exact Hoob|]. split; [exact Hcomp|]. split; [exact Hok1|exact Hok2].
Qed.

Theorem trace_flush_content : trace_flush_content_statement.
Proof.
  unfold trace_flush_content_statement. intros sync level win4k h Hnc Hb.
  unfold hrun. fold (W_run (S (length (hist_data (h ++ [HFlush]))))
                          (mkw comp (comp_new sync level win4k None) ENone) (map hop_op (h ++ [HFlush]))).
  rewrite map_app, wrun_app, hist_data_app. cbn [hist_data flat_map]. rewrite app_nil_r.
  destruct (comp_new_cinv sync level win4k) as (Hc0 & Hr0).
  destruct (run_cinv (window_of level win4k) (S (length (hist_data h))) h
              (mkw comp (comp_new sync level win4k None) ENone) [] Hnc Hb ltac:(lia) eq_refl Hc0 Hr0)
    as (w1 & flags & E & Hfl & Hwe & Hc1 & _).
  rewrite E. cbn [app] in Hc1.
  destruct (c_flush_cinv _ _ _ Hc1) as (c' & Ec & Hc' & _ & (t & Ht) & Hok & Hacc).
  apply tr_ok_data in Hok. destruct Hok as (Hok1 & Hok2).
  unfold W_run. cbn [map hop_op WriterSM.wrun wstep]. unfold wflush. rewrite Hwe, Ec.
  exists (mkw comp c' ENone), (flags ++ [false]), (rev t). split; [reflexivity|].
  split; [apply Forall_app; split; [exact Hfl|constructor; [reflexivity|constructor]]|].
  split; [reflexivity|]. unfold run_trace, run_acc. cbn [wc].
  split; [rewrite Ht; reflexivity|]. split.
  - assert (Hnf : nonfinal (dtrace (c_dest c'))).
    { destruct c' as [d|hh]; cbn [cinv c_dest] in *; apply Hc'. }
    rewrite Ht in Hnf. inversion Hnf; subst. apply Forall_rev. assumption.
  - split; [exact Hok1|]. split; [exact Hok2|]. destruct c'; exact Hacc.
Qed.

Print Assumptions trace_content.
Print Assumptions trace_flush_content.
Print Assumptions no_oob.
