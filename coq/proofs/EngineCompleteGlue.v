(* EngineCompleteGlue.v -- completeness side, dynamic block header: setupDynamicHeader rejects
   (EInvalidBlock) only headers the reference rejects, or whose distance code does not fit the
   engine's table (statements in RModel/EngineCompleteSpecB.v), from the component statements. *)
From Coq Require Import List NArith ZArith Bool Lia ZifyBool ZifyNat ZifyN.
From Verif Require Import Bits Huffman HuffmanSpec Inflate.
From Verif Require Import Base EngineTables Engine EngineRefineSpec EngineRefineSpecNeed
     EngineCompleteSpecA EngineCompleteSpecB
     EngineRefineBits EngineRefineBridge EngineRefineGlue EngineRefineGlueNeed.
From Verif Require HuffmanProofs.
Import ListNotations.
Open Scope N_scope.

(* ---------------------------------------------------------------- dyn_header via dyn_lens *)
Theorem dyn_header_lens : dyn_header_lens_statement.
Proof.
  intros s. unfold dyn_header, dyn_lens.
  destruct (take 5 s) as [[hlit s1]|]; [|reflexivity].
  destruct (take 5 s1) as [[hdist s2]|]; [|reflexivity].
  destruct (take 4 s2) as [[hclen s3]|]; [|reflexivity].
  destruct ((29 <? hlit) || (29 <? hdist)); [reflexivity|].
  destruct (read_clens (N.to_nat hclen + 4) s3) as [cl s4|e0]; [|reflexivity].
  cbv zeta.
  destruct (mktrie 7 (scatter clen_order cl (repeat 0%nat 19))) as [ct|]; [|reflexivity].
  destruct (read_lens (N.to_nat hlit + 257 + (N.to_nat hdist + 1)) ct
                      (N.to_nat hlit + 257 + (N.to_nat hdist + 1)) [] s4) as [all s5|e0];
    reflexivity.
Qed.

Lemma mktrie_some_not_over : forall m l t, mktrie m l = Some t -> oversubscribed m l = false.
Proof.
  intros m l t H. unfold mktrie in H.
  apply not_true_is_false. intros Ho. rewrite Ho in H. discriminate H.
Qed.

(* ---------------------------------------------------------------- genForLitLen never reports
   EInvalidBlock *)
Lemma pairs_loop_not_invalid : forall fuel short d length index1 iend,
  snd (pairs_loop fuel short d length index1 iend) <> EInvalidBlock.
Proof.
  induction fuel as [|f IH]; intros short d length index1 iend; cbn [pairs_loop].
  - cbn [snd]. discriminate.
  - repeat first [apply IH | glue_brk1]; cbn [snd]; discriminate.
Qed.

Lemma encodePairs_not_invalid : forall short d length minLen,
  snd (encodePairs short d length minLen) <> EInvalidBlock.
Proof. intros. unfold encodePairs. apply pairs_loop_not_invalid. Qed.

Lemma triples_loop2_not_invalid : forall fuel short d length sym1 sym1Len sym1Code index2 iend2,
  snd (triples_loop2 fuel short d length sym1 sym1Len sym1Code index2 iend2) <> EInvalidBlock.
Proof.
  induction fuel as [|f IH]; intros short d length sym1 sym1Len sym1Code index2 iend2;
    cbn [triples_loop2].
  - cbn [snd]. discriminate.
  - repeat first [apply IH | glue_brk1]; cbn [snd]; discriminate.
Qed.

Lemma triples_loop1_not_invalid : forall fuel short d length minLen index1 iend1,
  snd (triples_loop1 fuel short d length minLen index1 iend1) <> EInvalidBlock.
Proof.
  induction fuel as [|f IH]; intros short d length minLen index1 iend1; cbn [triples_loop1].
  - cbn [snd]. discriminate.
  - repeat first
      [ apply IH
      | match goal with
        | |- context [match triples_loop2 ?a ?b ?c ?d ?e ?f ?g ?h ?i with _ => _ end] =>
          pose proof (triples_loop2_not_invalid a b c d e f g h i);
          destruct (triples_loop2 a b c d e f g h i)
        end
      | glue_brk1 ]; cbn [snd] in *; first [assumption|discriminate].
Qed.

Lemma encodeTriples_not_invalid : forall short d length minLen,
  snd (encodeTriples short d length minLen) <> EInvalidBlock.
Proof. intros. unfold encodeTriples. apply triples_loop1_not_invalid. Qed.

Lemma genForLitLen_not_invalid : forall sh lg d ms, snd (genForLitLen sh lg d ms) <> EInvalidBlock.
Proof.
  intros sh lg d ms. unfold genForLitLen. cbv zeta.
  glue_brk1; [cbn [snd]; discriminate|].
  match goal with |- snd (match forN ?lo ?hi ?F ?init with _ => _ end) <> _ =>
    assert (H : snd (forN lo hi F init) <> EInvalidBlock) end.
  { unfold forN. apply glue_iterN_inv; [|cbn [snd]; discriminate].
    intros i [[t cs] err] Hp. cbn [snd] in Hp.
    repeat match goal with
      | |- context [match encodePairs ?a ?b ?c ?d with _ => _ end] =>
        pose proof (encodePairs_not_invalid a b c d); destruct (encodePairs a b c d)
      | |- context [match encodeTriples ?a ?b ?c ?d with _ => _ end] =>
        pose proof (encodeTriples_not_invalid a b c d); destruct (encodeTriples a b c d)
      | |- context [match ?x with _ => _ end] => destruct x
      end; cbn [snd] in *; first [assumption|discriminate]. }
  repeat glue_brk1; cbn [snd] in *; first [assumption|discriminate].
Qed.

(* ---------------------------------------------------------------- the two table builders *)
Ltac glue_rej_triv := cbn [snd]; intros Herr; discriminate Herr.

Lemma sdh_tail_reject :
  gen_dist_statement -> gen_litlen_statement -> gen_dist_error_statement ->
  forall ll dl s ms,
    lit_lens_in ll (dyn s) ->
    lens_in dl 286 30 (litAndDistHuff (dyn s)) (distCount (dyn s)) ->
    snd (sdh_tail s ms) = EInvalidBlock ->
    oversubscribed 15 ll = true \/ oversubscribed 15 dl = true \/ dist_fits dl = false.
Proof.
  intros Hdist Hlit Hde ll dl s ms Hll Hdl.
  unfold sdh_tail. cbv zeta.
  change litLen with 286. change distLen with 30.
  pose proof (Hdist dl (litAndDistHuff (dyn s)) (distCount (dyn s))
                    (distShort (tb s)) (distLong (tb s)) Hdl) as G.
  pose proof (Hde dl (litAndDistHuff (dyn s)) (distCount (dyn s))
                  (distShort (tb s)) (distLong (tb s)) Hdl) as GE.
  destruct (setCodes (litAndDistHuff (dyn s)) 286 30 (distCount (dyn s))) as [huff bad] eqn:Esc.
  destruct G as (G1 & G2 & _).
  destruct bad.
  { intros _. right. left. symmetry. exact G1. }
  specialize (GE (eq_sym G1)). cbv zeta in GE.
  cbn [tb set_dyn set_tb distShort distLong litShort litLong distCount set_dyn_huff].
  destruct (gen_small false (distShort (tb s)) (distLong (tb s))
              (forN 0 30 (fun (i : N) (t : arr) => aset t i (aget huff (286 + i))) aempty)
              30 (distCount (dyn s)) 30) as [[[dsh dlg] codes] gerr] eqn:Eg.
  destruct GE as [_ GE].
  destruct gerr; cbn [ierr_eqb negb];
    [ | glue_rej_triv | glue_rej_triv | | glue_rej_triv .. ].
  2:{ intros _. right. right. apply not_true_is_false. intros Hf. apply (proj2 GE) in Hf.
      discriminate Hf. }
  set (d1 := set_dyn_huff (set_dyn_huff (dyn s) huff)
               (forN 0 30 (fun (i : N) (t : arr) => aset t (286 + i) (aget codes i)) huff)).
  assert (Hll1 : lit_lens_in ll d1).
  { destruct Hll as ((A1 & A2 & A3 & A4) & B1 & B2).
    unfold lit_lens_in, lens_in, d1.
    cbn [litAndDistHuff litCount litExpandCount set_dyn_huff].
    split; [|split; [exact B1|exact B2]].
    split; [exact A1|]. split; [exact A2|]. split; [|exact A4].
    intros i Hi. unfold forN. rewrite writeback_low by lia.
    rewrite G2 by lia. apply A3. exact Hi. }
  pose proof (Hlit ll d1 (litShort (tb s)) (litLong (tb s)) ms Hll1) as L.
  destruct (setAndExpandLitLenHuffCode d1) as [d2 e1] eqn:Ese.
  destruct L as [L1 _].
  destruct e1; [ | glue_rej_triv | glue_rej_triv | | glue_rej_triv .. ].
  2:{ intros _. left. apply (proj1 L1). reflexivity. }
  pose proof (genForLitLen_not_invalid (litShort (tb s)) (litLong (tb s)) d2 ms) as NI.
  destruct (genForLitLen (litShort (tb s)) (litLong (tb s)) d2 ms) as [[[lsh llg] d3] e2] eqn:Egl.
  cbn [snd] in NI.
  destruct e2; [ glue_rej_triv | glue_rej_triv | glue_rej_triv | | glue_rej_triv .. ].
  intros _. exfalso. exact (NI eq_refl).
Qed.

(* ---------------------------------------------------------------- the code-length-code vector
   has 19 entries *)
Lemma scatter_length : forall order vals (acc : list nat),
  length (scatter order vals acc) = length acc.
Proof.
  induction order as [|o order IH]; intros vals acc; cbn [scatter]; [reflexivity|].
  destruct vals as [|v vals]; [reflexivity|].
  rewrite IH. apply HuffmanProofs.upd_length.
Qed.

(* readLitDistLens_reject_statement with the bound on the alphabet of the code-length code
   (the statement proved in proofs/EngineCompleteHeader.v as
   readLitDistLens_reject_partial_statement; copied here to avoid the dependency) *)
Definition EngineCompleteGlue_rld_reject_partial_statement : Prop :=
  canon_pad_statement ->
  forall s hlit hdist clens ct e p,
    br_wf (rd s) -> (0 <= r_len (rd s))%Z -> hlit <= 29 -> hdist <= 29 ->
    Forall (fun x => (x <= 7)%nat) clens -> oversubscribed 7 clens = false ->
    (length clens <= 19)%nat ->
    mktrie 7 clens = Some ct ->
    clc_tab_ok clens (clcShort (dyn s)) (clcLong (dyn s)) ->
    arr_zero (litAndDistHuff (dyn s)) -> arr_zero (litCount (dyn s)) ->
    arr_zero (distCount (dyn s)) -> arr_zero (litExpandCount (dyn s)) ->
    snd (readLitDistLens s hdist hlit) = EInvalidBlock ->
    let nlit := (N.to_nat hlit + 257)%nat in
    let n := (nlit + (N.to_nat hdist + 1))%nat in
    forall all s1,
      read_lens n ct n [] (mkbs (br_bits (rd s) ++ e) p) = HOk all s1 ->
      nth 256 (firstn nlit all) 0%nat = 0%nat.

Lemma glue_HOk_inj : forall (A : Type) (a b : A) (s t : bs), HOk a s = HOk b t -> a = b /\ s = t.
Proof. intros A a b s t H. injection H as H1 H2. split; assumption. Qed.

(* ---------------------------------------------------------------- the part after loadBits *)
Lemma sdh_mid_reject :
  canon_pad_statement -> gen_clc_statement -> gen_dist_statement -> gen_litlen_statement ->
  gen_dist_error_statement ->
  codeLenCodes_refine_statement -> readLitDistLens_refine_statement ->
  codeLenCodes_reject_statement -> EngineCompleteGlue_rld_reject_partial_statement ->
  forall s ms e p,
    br_wf (rd s) -> br_loaded 57 (rd s) ->
    arr_zero (litAndDistHuff (dyn s)) -> arr_zero (litCount (dyn s)) ->
    arr_zero (distCount (dyn s)) -> arr_zero (litExpandCount (dyn s)) ->
    forall lt dt s3,
      dyn_header (mkbs (br_bits (rd s) ++ e) p) = HOk (lt, dt) s3 ->
      snd (sdh_mid s ms) = EInvalidBlock ->
      exists ll dl s3', dyn_lens (mkbs (br_bits (rd s) ++ e) p) = HOk (ll, dl) s3' /\
                        dist_fits dl = false.
Proof.
  intros Hpad Hclc Hdist Hlit Hde Hclcr Hrl Hcrej Hrrej s ms e p Hwf Hld Z1 Z2 Z3 Z4 lt dt s3 Hdh.
  unfold sdh_mid.
  destruct (r_len (rd s) <? 14)%Z eqn:E14; [glue_rej_triv|].
  destruct (next_bits (rd s) 5) as [hlit b1] eqn:N1.
  destruct (next_bits_facts (rd s) 5 e p Hwf ltac:(lia) hlit b1 N1) as (W1 & T1 & R1 & I1 & V1).
  destruct (next_bits b1 5) as [hdist b2] eqn:N2.
  destruct (next_bits_facts b1 5 e (p + 5) W1 ltac:(lia) hdist b2 N2) as (W2 & T2 & R2 & I2 & V2).
  destruct (next_bits b2 4) as [hclen b3] eqn:N3.
  destruct (next_bits_facts b2 4 e (p + 5 + 5) W2 ltac:(lia) hclen b3 N3) as (W3 & T3 & R3 & I3 & V3).
  change (N.to_nat 5) with 5%nat in T1, T2. change (N.to_nat 4) with 4%nat in T3.
  change (2 ^ 5) with 32 in V1, V2. change (2 ^ 4) with 16 in V3.
  cbv zeta.
  unfold dyn_header in Hdh. rewrite T1, T2, T3 in Hdh.
  destruct ((29 <? hlit) || (29 <? hdist)) eqn:Eb12; [discriminate Hdh|].
  assert (Eb3 : (15 <? hclen) = false) by lia.
  rewrite Eb3. cbn [orb].
  apply orb_false_iff in Eb12. destruct Eb12 as [Eb1 Eb2].
  (* what the reference read *)
  destruct (read_clens (N.to_nat hclen + 4) (mkbs (br_bits b3 ++ e) (p + 5 + 5 + 4)))
    as [cl t4|e0] eqn:Erc; [|discriminate Hdh].
  cbv zeta in Hdh.
  destruct (mktrie 7 (scatter clen_order cl (repeat 0%nat 19))) as [ct|] eqn:Hct;
    [|discriminate Hdh].
  destruct (read_lens (N.to_nat hlit + 257 + (N.to_nat hdist + 1)) ct
                      (N.to_nat hlit + 257 + (N.to_nat hdist + 1)) [] t4) as [all t5|e0] eqn:Erl;
    [|discriminate Hdh].
  destruct (nth 256 (firstn (N.to_nat hlit + 257) all) 0 =? 0)%nat eqn:Enz; [discriminate Hdh|].
  apply Nat.eqb_neq in Enz.
  destruct (mktrie 15 (firstn (N.to_nat hlit + 257) all)) as [lt'|] eqn:Hlt; [|discriminate Hdh].
  destruct (mktrie 15 (skipn (N.to_nat hlit + 257) all)) as [dt'|] eqn:Hdt; [|discriminate Hdh].
  clear Hdh.
  (* codeLenCodes *)
  set (s2 := set_rd s b3) in *.
  assert (C1 : br_wf (rd s2)) by exact W3.
  assert (C2 : (0 <= r_len (rd s2))%Z) by (change (rd s2) with b3; lia).
  assert (C3 : br_loaded 12 (rd s2)).
  { change (rd s2) with b3. destruct Hld as [Hl|Hl]; [left; rewrite I3, I2, I1; exact Hl|right; lia]. }
  assert (C4 : hclen <= 15) by lia.
  pose proof (Hclcr Hclc s2 hclen e (p + 5 + 5 + 4) C1 C2 C3 C4) as C.
  pose proof (Hcrej Hclc s2 hclen e (p + 5 + 5 + 4) C1 C2 C3 C4) as CR.
  change (rd s2) with b3 in CR.
  destruct (codeLenCodes s2 hclen) as [s3' err3] eqn:E3.
  cbn [snd] in CR.
  destruct C as (CW & CF & CT & CP & CA1 & CA2 & CA3 & CA4 & CE).
  destruct err3; [ | glue_rej_triv | glue_rej_triv | | glue_rej_triv .. ].
  2:{ intros _. exfalso. pose proof (CR eq_refl cl t4 Erc) as Ho.
      rewrite (mktrie_some_not_over _ _ _ Hct) in Ho. discriminate Ho. }
  destruct (CE eq_refl) as (C0 & cl' & Crc & CE2). cbv zeta in CE2. destruct CE2 as (Cov & Ctab).
  change (rd s2) with b3 in Crc. rewrite Erc in Crc. destruct (glue_HOk_inj _ _ _ _ _ Crc) as [Ecl Et4]. subst cl' t4.
  assert (Hcl7 : Forall (fun x => (x <= 7)%nat) (scatter clen_order cl (repeat 0%nat 19))).
  { apply scatter_Forall.
    - eapply read_clens_le7. exact Erc.
    - apply Forall_forall. intros x Hx. apply repeat_spec in Hx. lia. }
  assert (Hl19 : (length (scatter clen_order cl (repeat 0%nat 19)) <= 19)%nat).
  { rewrite scatter_length, repeat_length. lia. }
  assert (ZZ1 : arr_zero (litAndDistHuff (dyn s3'))) by (intros i; rewrite CA1; apply Z1).
  assert (ZZ2 : arr_zero (litCount (dyn s3'))) by (intros i; rewrite CA2; apply Z2).
  assert (ZZ3 : arr_zero (distCount (dyn s3'))) by (intros i; rewrite CA3; apply Z3).
  assert (ZZ4 : arr_zero (litExpandCount (dyn s3'))) by (intros i; rewrite CA4; apply Z4).
  assert (Hhl : hlit <= 29) by lia.
  assert (Hhd : hdist <= 29) by lia.
  pose proof (Hrl s3' hlit hdist _ ct e (p + 5 + 5 + 4 + 3 * (hclen + 4)) CW C0 Hhl Hhd Hct Ctab
                  ZZ1 ZZ2 ZZ3 ZZ4) as R.
  pose proof (Hrrej Hpad s3' hlit hdist _ ct e (p + 5 + 5 + 4 + 3 * (hclen + 4)) CW C0 Hhl Hhd
                    Hcl7 Cov Hl19 Hct Ctab ZZ1 ZZ2 ZZ3 ZZ4) as RR.
  destruct (readLitDistLens s3' hdist hlit) as [s4 err4] eqn:E4.
  cbn [snd] in RR. cbv zeta in RR.
  destruct R as (RW & RF & RT & RP & RE).
  destruct err4; [ | glue_rej_triv | glue_rej_triv | | glue_rej_triv .. ].
  2:{ intros _. exfalso. apply Enz. exact (RR eq_refl all t5 Erl). }
  destruct (r_len (rd s4) <? 0)%Z eqn:Eneg; [glue_rej_triv|].
  specialize (RE eq_refl ltac:(lia)). cbv zeta in RE.
  destruct RE as (all' & p' & Rrl & Rlen & Rnz & Rll & Rdl).
  rewrite Erl in Rrl. destruct (glue_HOk_inj _ _ _ _ _ Rrl) as [Eall Et5]. subst all'.
  intros Herr.
  destruct (sdh_tail_reject Hdist Hlit Hde _ _ s4 ms Rll Rdl Herr) as [Ho|[Ho|Hf]].
  - rewrite (mktrie_some_not_over _ _ _ Hlt) in Ho. discriminate Ho.
  - rewrite (mktrie_some_not_over _ _ _ Hdt) in Ho. discriminate Ho.
  - eexists _, _, t5. split; [|exact Hf].
    unfold dyn_lens. rewrite T1, T2, T3, Eb1, Eb2. cbn [orb]. rewrite Erc. cbv zeta.
    rewrite Hct, Erl. reflexivity.
Qed.

(* ---------------------------------------------------------------- the theorems *)
Theorem setupDynamicHeader_reject_partial :
  canon_pad_statement -> gen_clc_statement -> gen_dist_statement -> gen_litlen_statement ->
  gen_dist_error_statement ->
  codeLenCodes_refine_statement -> readLitDistLens_refine_statement ->
  codeLenCodes_reject_statement -> EngineCompleteGlue_rld_reject_partial_statement ->
  dyn_header_lens_statement ->
  setupDynamicHeader_reject_body.
Proof.
  intros Hpad Hclc Hdist Hlit Hde Hclcr Hrl Hcrej Hrrej _ s e p Hwf H0 Herr lt dt s3 Hdh.
  rewrite sdh_eq in Herr.
  set (s0 := sdh_start s) in *.
  assert (Hwf0 : br_wf (rd s0)) by exact Hwf.
  unfold loadBits in Herr.
  destruct (load_lt57_bits (rd s0) Hwf0) as (b1 & L1 & L2 & L3 & L4 & L5).
  rewrite L1 in Herr.
  change (br_bits (rd s)) with (br_bits (rd s0)) in *. rewrite <- L3 in *.
  exact (sdh_mid_reject Hpad Hclc Hdist Hlit Hde Hclcr Hrl Hcrej Hrrej (set_rd s0 b1)
           (sdh_multisym s0) e p L2 L4
           arr_zero_empty arr_zero_empty arr_zero_empty arr_zero_empty lt dt s3 Hdh Herr).
Qed.

(* the statement as first given (its premise readLitDistLens_reject_statement is stronger than
   the one used above, and false: see proofs/EngineCompleteHeader.v) *)
Theorem setupDynamicHeader_reject : setupDynamicHeader_reject_statement.
Proof.
  intros Hpad Hclc Hdist Hlit Hde Hclcr Hrl Hcrej Hrrej Hdl.
  apply (setupDynamicHeader_reject_partial Hpad Hclc Hdist Hlit Hde Hclcr Hrl Hcrej); [|exact Hdl].
  intros Hp s hlit hdist clens ct e p W R0 A B F O _. exact (Hrrej Hp s hlit hdist clens ct e p W R0 A B F O).
Qed.

Print Assumptions dyn_header_lens.
Print Assumptions setupDynamicHeader_reject_partial.
Print Assumptions setupDynamicHeader_reject.
