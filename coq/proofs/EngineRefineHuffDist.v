(* EngineRefineHuffDist.v -- M5, layer B1: the loop invariant on the overflow fields and the
   window, and the length/distance branch of huff_inner classified by outcome. *)
From Coq Require Import List NArith ZArith Bool Lia ZifyBool ZifyNat ZifyN.
From Verif Require Import Bits Huffman HuffmanSpec Inflate InflateSpec InflateMono.
From Verif Require Import Base EngineTables Engine EngineRefineSpec EngineRefineSpecBlock
                          EngineRefineBits EngineRefineBridge.
From Verif Require HuffmanProofs SymbolsProofs EngineFacts.
From Verif Require Import EngineRefineHuffBase EngineRefineHuffSyms.
Import ListNotations.
Open Scope N_scope.

(* ---------------------------------------------------------------- huff_inner unfolded *)
(* the part of the length branch after the distance has been read *)
Definition step2_body (K : inflate -> bitrd -> arr -> N -> hres) (s : inflate) (bT : bitrd) (wT : N)
    (out : arr) (w rl : N) (b : bitrd) (lookBackDist : N) : hres :=
  if (r_len b <? 0)%Z then HFin (set_wov s 0 0) bT out wT EEndInput
  else if w <? lookBackDist then HFin s b out w EInvalidLookBack
  else
    let availOut := outLen - w in
    let '(s, repeatLength) :=
      if availOut <? rl then (set_cov s (rl - availOut) lookBackDist, availOut) else (s, rl) in
    let out := byteCopy out w lookBackDist repeatLength in
    let w := w + repeatLength in
    if 0 <? copyOverflowLength (ov s) then HFin s b out w EOutputOverflow
    else K s b out w.

Definition len_branch (K : inflate -> bitrd -> arr -> N -> hres) (s : inflate) (bT : bitrd) (wT : N)
    (out : arr) (w rl : N) (b : bitrd) : hres :=
  match load_le15 b with
  | None => HFin s b out w EPanic
  | Some b =>
    match dist_decode (tb s) b with
    | None => HFin s b out w EPanic
    | Some (nextDist, b) =>
      if (0 <=? r_len b)%Z then
        if distLen <=? nextDist then HFin s b out w EInvalidSymbol
        else
          match load_lt57 b with
          | None => HFin s b out w EPanic
          | Some b =>
            let '(extraBits, b) := next_bits b (aget rfc_dist_extra nextDist) in
            step2_body K s bT wT out w rl b (aget rfc_dist_start nextDist + extraBits)
          end
      else step2_body K s bT wT out w rl b 0
    end
  end.

Lemma huff_inner_S : forall f s b out w sc nl bT wT,
  huff_inner (S f) s b out w sc nl bT wT =
  if sc =? 0 then HCont s b out w
  else
    let nextLit := N.land nl 0xFFFF in
    if (nextLit <? 256) || (1 <? sc) then
      if w =? outLen then
        let s1 := set_wov s nl sc in
        let nl' := N.shiftr nl (8 * (sc - 1)) in
        if nl' <? 256 then HFin s1 b out w EOutputOverflow
        else
          let s2 := set_wov s1 (writeOverflowLits (ov s1)) (writeOverflowLen (ov s1) - 1) in
          if nl' =? 256 then HFin (end_of_block s2) b out w EOutputOverflow
          else huff_inner f s2 b out w 1 nl' bT wT
      else huff_inner f s b (aset out w (N.land nextLit 255)) (w + 1) (sc - 1) (N.shiftr nl 8) bT wT
    else if nextLit =? 256 then
      huff_inner f (end_of_block s) b out w (sc - 1) (N.shiftr nl 8) bT wT
    else if nextLit <=? maxLitLenSym then
      len_branch (fun s b out w => huff_inner f s b out w (sc - 1) (N.shiftr nl 8) bT wT)
                 s bT wT out w (nextLit - 254) b
    else HFin s b out w EInvalidSymbol.
Proof. reflexivity. Qed.

Lemma huff_inner_0 : forall f s b out w nl bT wT,
  huff_inner f s b out w 0 nl bT wT =
  match f with O => HFin s b out w EFuel | S _ => HCont s b out w end.
Proof. intros [|f]; reflexivity. Qed.

(* ---------------------------------------------------------------- invariant / final claim *)
(* the reader holds exactly the rest of the reference's stream *)
Definition good_rd (e : list bool) (b : bitrd) (s : bs) : Prop :=
  br_wf b /\ (0 <= r_len b)%Z /\ bl s = br_bits b ++ e.

(* L0: the (irrelevant) value of writeOverflowLits while nothing is parked;
   D: olen st - write position.  Either nothing is parked and the window is the reference's
   output, or literals are parked at the boundary: then the reference has already stepped over
   them, the window as the flush will complete it is its output, and a single length symbol is
   pending. *)
Definition Inv (L0 D : N) (s : inflate) (out : arr) (w : N) (st : ostate) (sc nl : N) : Prop :=
  copyOverflowLength (ov s) = 0 /\ copyOverflowDistance (ov s) = 0 /\
  ((writeOverflowLen (ov s) = 0 /\ writeOverflowLits (ov s) = L0 /\ winD D out w st) \/
   (1 <= writeOverflowLen (ov s) <= 3 /\ w = outLen /\ sc = 1 /\ 256 < nl /\
    winD D (arr4 out w (u32 (writeOverflowLits (ov s)))) (w + writeOverflowLen (ov s)) st)).

(* what the overflow flush of decomperss makes of (ov, out, w) *)
Definition Final (L0 D : N) (o : ovf) (out : arr) (w : N) (st : ostate) : Prop :=
  winD D (fst (flush_arr o out w)) (snd (flush_arr o out w)) st /\
  w <= snd (flush_arr o out w) /\ snd (flush_arr o out w) <= w + 261 /\
  (flush_ovf o = ov0 \/ flush_ovf o = mkOV L0 0 0 0).

Lemma Inv_Final : forall L0 D s out w st sc nl,
  Inv L0 D s out w st sc nl -> Final L0 D (ov s) out w st.
Proof.
  intros L0 D s out w st sc nl (C1 & C2 & H). destruct (ov s) as [wl wn cl cd].
  cbn [writeOverflowLits writeOverflowLen copyOverflowLength copyOverflowDistance] in *. subst cl cd.
  unfold Final, flush_arr, flush_ovf, ov0.
  cbn [writeOverflowLits writeOverflowLen copyOverflowLength copyOverflowDistance].
  destruct H as [(-> & -> & W)|(Hn & -> & _ & _ & W)].
  - cbn [N.eqb negb fst snd]. split; [exact W|]. split; [lia|]. split; [lia|]. right; reflexivity.
  - destruct (N.eqb_spec wn 0) as [Hz|_]; [lia|]. cbn [N.eqb negb fst snd].
    split; [exact W|]. split; [lia|]. split; [lia|]. left; reflexivity.
Qed.

Lemma Final_plain : forall L0 D out w st, winD D out w st -> Final L0 D (mkOV L0 0 0 0) out w st.
Proof.
  intros. unfold Final, flush_arr, flush_ovf. cbn. split; [assumption|]. split; [lia|]. split; [lia|].
  right; reflexivity.
Qed.

(* the window the flush of the parked literals will produce *)
Lemma Inv_virtual : forall L0 D s out w st sc nl,
  Inv L0 D s out w st sc nl -> w <= outLen ->
  exists vout vw, winD D vout vw st /\ w <= vw /\
    ((writeOverflowLen (ov s) = 0 /\ vout = out /\ vw = w) \/
     (1 <= writeOverflowLen (ov s) <= 3 /\ w = outLen /\
      vout = arr4 out w (u32 (writeOverflowLits (ov s))) /\ vw = w + writeOverflowLen (ov s))).
Proof.
  intros L0 D s out w st sc nl (C1 & C2 & H) Hw.
  destruct H as [(A & B & W)|(Hn & Hwo & _ & _ & W)].
  - exists out, w. split; [exact W|]. split; [lia|]. left. auto.
  - eexists _, _. split; [exact W|]. split; [lia|]. right. auto.
Qed.

(* ---------------------------------------------------------------- the length branch *)
Lemma len_branch_spec : forall L0 D dl dt K s bT wT out w rl b st bs0 e p2 sc nl,
  mktrie 15 dl = Some dt -> dist_tab_ok dl (tb s) ->
  Inv L0 D s out w st sc nl -> w <= outLen ->
  br_wf b -> (0 <= r_len b)%Z -> 3 <= rl <= 258 ->
  let r := len_branch K s bT wT out w rl b in
  let bs2 := mkbs (br_bits b ++ e) p2 in
  r = HFin (set_wov s 0 0) bT out wT EEndInput \/
  (exists b' err, r = HFin s b' out w err /\ (isError err = true \/ err = EPanic)) \/
  (exists b' st1 bs1 d,
     dist_part dt st bs0 rl bs2 = SCont st1 bs1 /\ good_rd e b' bs1 /\
     ((exists c, r = HFin (set_cov s c d) b' (byteCopy out w d (outLen - w)) outLen EOutputOverflow /\
                 Final L0 D (ov (set_cov s c d)) (byteCopy out w d (outLen - w)) outLen st1) \/
      (r = K s b' (byteCopy out w d rl) (w + rl) /\ w + rl <= outLen /\
       writeOverflowLen (ov s) = 0 /\ winD D (byteCopy out w d rl) (w + rl) st1))).
Proof.
  intros L0 D dl dt K s bT wT out w rl b st bs0 e p2 sc nl Hmk Hdt HInv Hw Hwf H0 Hrl r bs2.
  subst r. unfold len_branch.
  destruct (load_le15_bits b Hwf) as (b1 & L1 & Wf1 & Bits1 & Ld1 & Len1). rewrite L1.
  destruct (Hdt b1) as [Hyes Hno].
  destruct (canon_match_dec (canon dl) (r_bits b1)) as [(d & len & c & Hin & Hm)|Hn].
  2:{ (* no code word: invalid symbol *)
    rewrite (Hno Hn).
    destruct (Z.leb_spec 0 (r_len b1)) as [_|Hneg]; [|lia].
    right; left. exists b1, EInvalidSymbol. split; [reflexivity|left; reflexivity]. }
  rewrite (Hyes d len c Hin Hm).
  destruct (d <? 30)%nat eqn:Ed.
  2:{ (* symbols 30, 31 of the fixed code *)
    unfold br_sub_len; cbn [r_len].
    destruct (Z.leb_spec 0 (r_len b1 - Z.of_N (N.of_nat len))) as [Hge|Hneg].
    - right; left. eexists _, EInvalidSymbol. split; [reflexivity|left; reflexivity].
    - left. unfold step2_body; cbn [r_len].
      destruct (Z.ltb_spec (r_len b1 - Z.of_N (N.of_nat len)) 0) as [_|Hge]; [reflexivity|lia]. }
  apply Nat.ltb_lt in Ed.
  set (b2 := br_drop b1 (N.of_nat len)).
  destruct (Z.leb_spec 0 (r_len b2)) as [Hge2|Hneg2].
  2:{ left. unfold step2_body.
      destruct (Z.ltb_spec (r_len b2) 0) as [_|Hge]; [reflexivity|lia]. }
  assert (Hlen : (Z.of_nat len <= r_len b1)%Z) by (unfold b2, br_drop in Hge2; cbn [r_len] in Hge2; lia).
  destruct (br_drop_bits b1 (N.of_nat len) Wf1 ltac:(lia)) as (Wf2 & _ & _). fold b2 in Wf2.
  unfold distLen. destruct (N.leb_spec 30 (N.of_nat d)) as [Hbad|_]; [lia|].
  destruct (load_lt57_bits b2 Wf2) as (b3 & L3 & Wf3 & Bits3 & Ld3 & Len3). rewrite L3.
  set (bc := aget rfc_dist_extra (N.of_nat d)).
  set (ds := aget rfc_dist_start (N.of_nat d)).
  pose proof (dist_table_entry d Ed) as Hent. fold bc ds in Hent.
  destruct (dist_table_bounds _ _ _ Hent) as (B1 & B2 & B3).
  unfold next_bits.
  set (b4 := br_drop b3 bc). set (ex := N.land (r_bits b3) (N.ones bc)).
  unfold step2_body.
  destruct (Z.ltb_spec (r_len b4) 0) as [Hneg4|Hge4]; [left; reflexivity|].
  assert (Hbc : (Z.of_N bc <= r_len b3)%Z) by (unfold b4, br_drop in Hge4; cbn [r_len] in Hge4; lia).
  pose proof (next_bits_take b3 bc e (p2 + N.of_nat len) Wf3 Hbc) as Hnb.
  unfold next_bits in Hnb. fold b4 ex in Hnb. destruct Hnb as (Wf4 & Htk).
  assert (Hex : ex < 2 ^ bc).
  { unfold ex. rewrite N.land_ones. apply N.mod_lt. apply N.pow_nonzero. lia. }
  destruct (N.ltb_spec w (ds + ex)) as [Hfar|Hnear].
  { right; left. exists b4, EInvalidLookBack. split; [reflexivity|left; reflexivity]. }
  (* the reference *)
  destruct (Inv_virtual _ _ _ _ _ _ _ _ HInv Hw) as (vout & vw & VW & Hvw & Hcase).
  assert (Hdp : dist_part dt st bs0 rl bs2
                = SCont (copy_match rl (ds + ex) st) (mkbs (br_bits b4 ++ e) (p2 + N.of_nat len + bc))).
  { unfold dist_part, bs2. rewrite <- Bits1.
    rewrite (cw_match_decode 15%nat dl dt d len c b1 e p2 Hmk Hin Wf1 Hlen Hm). fold b2.
    rewrite Hent. rewrite <- Bits3, Htk.
    destruct VW as [(A1 & A2 & A3 & A4 & A5) _].
    destruct (N.ltb_spec (oavail st) (ds + ex)) as [Hbad|_]; [lia|reflexivity]. }
  right; right.
  exists b4, (copy_match rl (ds + ex) st), (mkbs (br_bits b4 ++ e) (p2 + N.of_nat len + bc)), (ds + ex).
  split; [exact Hdp|]. split; [split; [exact Wf4|split; [exact Hge4|reflexivity]]|].
  destruct HInv as (C1 & C2 & HI).
  destruct (N.ltb_spec (outLen - w) rl) as [Hov|Hfit].
  - (* cut at the boundary *)
    left. exists (rl - (outLen - w)).
    assert (Hc : 0 <? copyOverflowLength (ov (set_cov s (rl - (outLen - w)) (ds + ex))) = true).
    { rewrite set_cov_upd. unfold upd. cbn [set_ov ov copyOverflowLength]. apply N.ltb_lt. lia. }
    rewrite Hc. replace (w + (outLen - w)) with outLen by lia.
    split; [reflexivity|].
    rewrite set_cov_upd. unfold upd. cbn [set_ov ov].
    unfold Final, flush_arr, flush_ovf, ov0.
    cbn [writeOverflowLits writeOverflowLen copyOverflowLength copyOverflowDistance].
    destruct (N.eqb_spec (rl - (outLen - w)) 0) as [Hz|_]; [lia|]. cbn [negb].
    destruct Hcase as [(Hz & -> & ->)|(Hn & Hwo & -> & ->)].
    + rewrite Hz. cbn [N.eqb negb fst snd].
      pose proof (byteCopy_add out w (ds + ex) (outLen - w) (rl - (outLen - w))) as Hb.
      replace (outLen - w + (rl - (outLen - w))) with rl in Hb by lia.
      replace (w + (outLen - w)) with outLen in Hb by lia. rewrite <- Hb.
      replace (outLen + (rl - (outLen - w))) with (w + rl) by lia.
      split; [apply winD_copy; [exact VW|lia|lia]|].
      split; [lia|]. split; [lia|].
      destruct HI as [(_ & HL & _)|(Hn & _)]; [|lia]. rewrite HL. right; reflexivity.
    + destruct (N.eqb_spec (writeOverflowLen (ov s)) 0) as [Hz|_]; [lia|]. cbn [negb fst snd].
      subst w. replace (outLen - outLen) with 0 by lia. rewrite byteCopy_0.
      replace (rl - 0) with rl by lia.
      split; [apply winD_copy; [exact VW|lia|lia]|].
      split; [lia|]. split; [lia|]. left; reflexivity.
  - (* the whole match fits *)
    right.
    destruct Hcase as [(Hz & -> & ->)|(Hn & Hwo & _)]; [|unfold outLen in *; lia].
    assert (Hc : 0 <? copyOverflowLength (ov s) = false) by (rewrite C1; reflexivity).
    rewrite Hc. split; [reflexivity|]. split; [lia|]. split; [exact Hz|].
    apply winD_copy; [exact VW|lia|lia].
Qed.
