(* StreamRender.v — F1 (stream rendering): the bytes a healthy destination has received,
   followed by the bits still in the compressor's accumulator, are the bits of the ghost trace.

   Proved from the three rendering statements of CodecSpec.v (bit buffer, dynamic block,
   Huffman-only block), which are Section hypotheses here and proved in RenderProofs.v:

     stream_render :
       bitbuf_statement -> encode_block_statement -> hencode_block_statement ->
       stream_render_statement.

   Structure: `good d b` is the invariant on (destination, bit buffer); every compressor step
   is shown (i) to extend the ghost trace only by consing events (`ext`) and (ii) to preserve
   `good` provided all events of the trace *after* the step satisfy event_ok and
   event_fits (`ev_good`, `stepP`).  The two facts compose (stepP_trans), so event_ok /
   event_fits of the final trace are carried backwards. *)
From Verif Require Import CodecSpec.
From Coq Require Import Lia List ZArith.
Import ListNotations.
Open Scope N_scope.

(* ---------- lists of bits ---------- *)

Lemma trace_bits_app evs evs' s :
  trace_bits (evs ++ evs') s = trace_bits evs' (trace_bits evs s).
Proof.
  revert s. induction evs as [|e r IH]; intros s; [reflexivity|].
  destruct e as [ts last|d f| |]; cbn [app trace_bits]; apply IH.
Qed.

Lemma length_bits_of_N n v : length (bits_of_N n v) = n.
Proof.
  revert v. induction n as [|n IH]; intros v; cbn [bits_of_N length]; [reflexivity|].
  rewrite IH. reflexivity.
Qed.

Lemma length_bits_of_bytes l : length (bits_of_bytes l) = (8 * length l)%nat.
Proof.
  unfold bits_of_bytes. induction l as [|a r IH]; [reflexivity|].
  cbn [flat_map length]. rewrite app_length, IH, length_bits_of_N. lia.
Qed.

Lemma bits_of_bytes_app a b : bits_of_bytes (a ++ b) = bits_of_bytes a ++ bits_of_bytes b.
Proof. unfold bits_of_bytes. apply flat_map_app. Qed.

Lemma pad8_prefix X Y k : length X = (8 * k)%nat -> pad8 (X ++ Y) = X ++ pad8 Y.
Proof.
  intros H. unfold pad8. rewrite <- app_assoc.
  replace (length (X ++ Y) mod 8)%nat with (length Y mod 8)%nat; [reflexivity|].
  rewrite app_length, H.
  replace (8 * k + length Y)%nat with (length Y + k * 8)%nat by lia.
  rewrite Nat.mod_add by lia. reflexivity.
Qed.

Lemma pad8_bytes_prefix l Y : pad8 (bits_of_bytes l ++ Y) = bits_of_bytes l ++ pad8 Y.
Proof. apply (pad8_prefix _ _ (length l)). apply length_bits_of_bytes. Qed.

(* ---------- the destination ---------- *)

(* the ghost trace only grows, by consing *)
Definition ext (d d' : dest) : Prop := exists evs, dtrace d' = evs ++ dtrace d.

Lemma ext_refl d : ext d d.
Proof. exists []. reflexivity. Qed.

Lemma ext_eq d d' : dtrace d' = dtrace d -> ext d d'.
Proof. intros H. exists []. exact H. Qed.

Lemma ext_cons d d' e : dtrace d' = e :: dtrace d -> ext d d'.
Proof. intros H. exists [e]. exact H. Qed.

Lemma ext_trans d1 d2 d3 : ext d1 d2 -> ext d2 d3 -> ext d1 d3.
Proof.
  intros [a Ha] [b Hb]. exists (b ++ a). rewrite Hb, Ha. apply app_assoc.
Qed.

(* what the theorem assumes of every event of the final trace *)
Definition ev_good (e : event) : Prop := event_ok e /\ event_fits e.

Lemma ext_ok d d' : ext d d' -> Forall ev_good (dtrace d') -> Forall ev_good (dtrace d).
Proof.
  intros [a Ha] H. rewrite Ha in H. apply Forall_app in H. apply H.
Qed.

Lemma dest_write_trace d c : dtrace (fst (dest_write d c)) = dtrace d.
Proof.
  unfold dest_write. destruct (dfail d) as [k|]; [destruct (k <=? dcalls d + 1)|]; reflexivity.
Qed.

Lemma dest_write_all_trace chunks d : dtrace (fst (dest_write_all d chunks)) = dtrace d.
Proof.
  revert d. induction chunks as [|c r IH]; intros d; [reflexivity|].
  cbn [dest_write_all]. pose proof (dest_write_trace d c) as H.
  destruct (dest_write d c) as [d1 failed]. cbn [fst] in H.
  destruct failed; cbn [fst]; [exact H|]. rewrite IH. exact H.
Qed.

Lemma dest_write_ok d c :
  dfail d = None ->
  dest_write d c = (mkdest (c :: dchunks d) (dcalls d + 1) None (dtrace d), false).
Proof. intros H. unfold dest_write. rewrite H. reflexivity. Qed.

Lemma dest_write_all_ok chunks d :
  dfail d = None ->
  exists d', dest_write_all d chunks = (d', false) /\ dfail d' = None /\
             dchunks d' = rev chunks ++ dchunks d /\ dtrace d' = dtrace d.
Proof.
  revert d. induction chunks as [|c r IH]; intros d H.
  - exists d. repeat split; try reflexivity. exact H.
  - cbn [dest_write_all]. rewrite (dest_write_ok d c H).
    destruct (IH (mkdest (c :: dchunks d) (dcalls d + 1) None (dtrace d)) eq_refl)
      as (d' & E & Hf & Hc & Ht).
    exists d'. rewrite E. repeat split; try assumption.
    rewrite Hc. cbn [dchunks rev]. rewrite <- app_assoc. reflexivity.
Qed.

(* ---------- the invariant on (destination, bit buffer) ---------- *)

Definition good (d : dest) (b : bitbuf) : Prop :=
  dfail d = None /\ bb_out b = [] /\ (length (bb_acc b) <= 64)%nat /\
  Forall (fun x => x < 256) (concat (rev (dchunks d))) /\
  bits_of_bytes (concat (rev (dchunks d))) ++ bb_acc b = trace_bits (rev (dtrace d)) [].

(* a step from c to c' returning `failed`: the trace grows by consing, and if the state was
   good and every event of the trace after the step is well formed, the state is good again and
   nothing failed *)
Definition stepP {A} (dst : A -> dest) (G : A -> Prop) (c c' : A) (failed : bool) : Prop :=
  ext (dst c) (dst c') /\
  (G c -> Forall ev_good (dtrace (dst c')) -> G c' /\ failed = false).

Lemma stepP_trans {A} (dst : A -> dest) G c1 c2 c3 f1 f2 :
  stepP dst G c1 c2 f1 -> stepP dst G c2 c3 f2 -> stepP dst G c1 c3 f2.
Proof.
  intros [E1 H1] [E2 H2]. split; [eapply ext_trans; eassumption|].
  intros HG Hok. apply H2; [|exact Hok].
  apply H1; [exact HG|]. eapply ext_ok; eassumption.
Qed.

Lemma stepP_same {A} (dst : A -> dest) (G : A -> Prop) c c' :
  dtrace (dst c') = dtrace (dst c) -> (G c -> G c') -> stepP dst G c c' false.
Proof.
  intros Hd HG. split; [apply ext_eq; exact Hd|]. intros H _. split; [apply HG; exact H|reflexivity].
Qed.

Lemma stepP_refl {A} (dst : A -> dest) (G : A -> Prop) c : stepP dst G c c false.
Proof. apply stepP_same; [reflexivity|auto]. Qed.

Section WithRender.
  Hypothesis Hbb : bitbuf_statement.
  Hypothesis Hblock : encode_block_statement.
  Hypothesis Hhblock : hencode_block_statement.

  (* ---------- emitting one event ---------- *)

  Lemma emit_block d b sync ts last chunks b' d1 failed :
    good d b -> block_ok ts -> Forall tok_fits ts ->
    encode_block sync ts last b = (chunks, b') ->
    dest_write_all (dest_event d (EBlock ts last)) chunks = (d1, failed) ->
    good d1 b' /\ failed = false.
  Proof.
    intros (Hf & Ho & Hl & Hby & Hbits) Hok Hfit E Ew.
    pose proof (Hblock sync ts last b Hl Hok Hfit) as HB. rewrite E in HB.
    destruct HB as (HB1 & HB2 & HB3 & _ & HB5).
    destruct (dest_write_all_ok chunks (dest_event d (EBlock ts last)) Hf)
      as (d' & Ew' & Hf' & Hc' & Ht').
    rewrite Ew in Ew'. injection Ew' as Ed Efl. subst d' failed.
    split; [|reflexivity]. unfold good.
    rewrite Hc', Ht'. cbn [dest_event dchunks dtrace].
    rewrite rev_app_distr, rev_involutive, concat_app. cbn [rev].
    repeat split; try assumption.
    - apply Forall_app. split; [exact Hby|]. apply Forall_concat. exact HB5.
    - rewrite trace_bits_app, <- Hbits. cbn [trace_bits].
      rewrite bits_of_bytes_app, <- app_assoc, HB1.
      destruct last.
      + rewrite <- app_assoc. symmetry. apply pad8_bytes_prefix.
      + apply app_assoc.
  Qed.

  Lemma emit_hblock d b data final chunks b' d1 failed :
    good d b -> data <> [] -> event_ok (EHBlock data final) ->
    hencode_block data final b = (chunks, b') ->
    dest_write_all (dest_event d (EHBlock data final)) chunks = (d1, failed) ->
    good d1 b' /\ failed = false.
  Proof.
    intros (Hf & Ho & Hl & Hby & Hbits) Hne [Hok Hdat] E Ew.
    pose proof (Hhblock data final b Hl Ho Hne Hok Hdat) as HB. rewrite E in HB.
    destruct HB as (HB1 & HB2 & HB3 & _ & HB5).
    destruct (dest_write_all_ok chunks (dest_event d (EHBlock data final)) Hf)
      as (d' & Ew' & Hf' & Hc' & Ht').
    rewrite Ew in Ew'. injection Ew' as Ed Efl. subst d' failed.
    split; [|reflexivity]. unfold good.
    rewrite Hc', Ht'. cbn [dest_event dchunks dtrace].
    rewrite rev_app_distr, rev_involutive, concat_app. cbn [rev].
    repeat split; try assumption.
    - apply Forall_app. split; [exact Hby|]. apply Forall_concat. exact HB5.
    - rewrite trace_bits_app, <- Hbits. cbn [trace_bits].
      rewrite bits_of_bytes_app, <- app_assoc, HB1.
      destruct final.
      + rewrite <- app_assoc. symmetry. apply pad8_bytes_prefix.
      + apply app_assoc.
  Qed.

  Lemma emit_marker d b final chunk b2 d1 failed :
    good d b ->
    bb_take (bb_empty_block final b) = (chunk, b2) ->
    dest_write (dest_event d (if final then EFinalEmpty else ESync)) chunk = (d1, failed) ->
    good d1 b2 /\ failed = false.
  Proof.
    intros (Hf & Ho & Hl & Hby & Hbits) E Ew.
    destruct Hbb as (_ & _ & _ & Htake & Hempty).
    assert (Hinv : bb_inv b) by (split; [exact Hl|rewrite Ho; constructor]).
    pose proof (Hempty final b Hinv) as HE. cbv zeta in HE. destruct HE as (Hi1 & Ha1 & Hb1).
    pose proof (Htake _ Hi1) as HT. rewrite E in HT. cbn [fst snd] in HT.
    destruct HT as (T1 & T2 & T3 & T4).
    rewrite dest_write_ok in Ew by exact Hf. injection Ew as Ed Efl. subst d1 failed.
    split; [|reflexivity]. unfold good. cbn [dfail dchunks dtrace dest_event rev].
    rewrite concat_app. cbn [concat]. rewrite app_nil_r.
    repeat split.
    - exact T2.
    - rewrite T3, Ha1. cbn [length]. lia.
    - apply Forall_app. split; assumption.
    - rewrite trace_bits_app, <- Hbits.
      rewrite bits_of_bytes_app, <- app_assoc, T3, T1, Hb1.
      unfold bb_bits at 1. rewrite Ho. cbn [rev bits_of_bytes flat_map app].
      destruct final; cbn [trace_bits]; rewrite <- app_assoc, pad8_bytes_prefix, <- app_assoc;
        reflexivity.
  Qed.

  (* ---------- dynCompressor ---------- *)

  Definition gd (c : dyn) : Prop := good (ddest c) (dbb c).

  Lemma dyn_encode_block_step c last c' failed :
    dyn_encode_block c last = (c', failed) -> stepP ddest gd c c' failed.
  Proof.
    unfold dyn_encode_block.
    destruct (encode_block (dsync c) (frev (dtoks c)) last (dbb c)) as [chunks bb] eqn:E.
    destruct (dest_write_all (dest_event (ddest c) (EBlock (frev (dtoks c)) last)) chunks)
      as [d1 failed0] eqn:Ew.
    intros H.
    pose proof (dest_write_all_trace chunks (dest_event (ddest c) (EBlock (frev (dtoks c)) last))) as Ht.
    rewrite Ew in Ht. cbn [fst dest_event dtrace] in Ht.
    assert (Hcommon : gd c -> Forall ev_good (dtrace d1) -> good d1 bb /\ failed0 = false).
    { intros HG Hok. rewrite Ht in Hok. inversion Hok as [|e l [Hev Hfit] Hrest]; subst.
      eapply emit_block; [exact HG|exact Hev|exact Hfit|exact E|exact Ew]. }
    destruct failed0; injection H as Hc Hfl; subst c' failed;
      (split; [apply (ext_cons _ _ _ Ht)|exact Hcommon]).
  Qed.

  Lemma dyn_compress_loop_step fuel : forall c flush final c' failed,
    dyn_compress_loop fuel c flush final = (c', failed) -> stepP ddest gd c c' failed.
  Proof.
    induction fuel as [|f IH]; intros c flush final c' failed H; cbn [dyn_compress_loop] in H.
    - injection H as Hc Hfl. subst c' failed. apply stepP_refl.
    - remember (lz77 flush (dmask c) (dW c) (dbuf c) (dproc c) (didx c) (dtable c) (dtoks c)
                     (dntok c) max_token) as r eqn:Er.
      remember (mkdyn (dW c) (dmask c) (dsync c) (dbuf c) (lz_off r) (dproc c + (lz_off r - didx c))
                      (lz_table r) (lz_toks r) (lz_ntok r) (dbb c) (ddest c) (doob c || lz_oob r))
        as c1 eqn:Ec1.
      assert (H01 : stepP ddest gd c c1 false).
      { subst c1. apply stepP_same; [reflexivity|]. intros HG. exact HG. }
      destruct ((lz_ntok r <? max_token) && negb flush).
      + injection H as Hc Hfl. subst c' failed. exact H01.
      + destruct (dyn_encode_block c1 (final && (didx c1 =? lenN (dbuf c1)))) as [c2 failed2] eqn:Ee.
        apply dyn_encode_block_step in Ee.
        pose proof (stepP_trans _ _ _ _ _ _ _ H01 Ee) as H02.
        destruct failed2.
        * injection H as Hc Hfl. subst c' failed. exact H02.
        * destruct (didx c1 =? lenN (dbuf c1)).
          -- injection H as Hc Hfl. subst c' failed. exact H02.
          -- apply IH in H. eapply stepP_trans; eassumption.
  Qed.

  Lemma dyn_compress_block_step c flush final c' failed :
    dyn_compress_block c flush final = (c', failed) -> stepP ddest gd c c' failed.
  Proof.
    unfold dyn_compress_block. destruct (final && (lenN (dbuf c) =? 0)).
    - destruct (bb_take (bb_empty_block true (dbb c))) as [chunk bb] eqn:E.
      destruct (dest_write (dest_event (ddest c) EFinalEmpty) chunk) as [d1 failed0] eqn:Ew.
      intros H. injection H as Hc Hfl. subst c' failed.
      pose proof (dest_write_trace (dest_event (ddest c) EFinalEmpty) chunk) as Ht.
      rewrite Ew in Ht. cbn [fst dest_event dtrace] in Ht.
      split; [apply (ext_cons _ _ _ Ht)|]. intros HG _.
      apply (emit_marker (ddest c) (dbb c) true chunk bb d1 failed0 HG E Ew).
    - apply dyn_compress_loop_step.
  Qed.

  Lemma dyn_flush_step c c' failed :
    dyn_flush c = (c', failed) -> stepP ddest gd c c' failed.
  Proof.
    unfold dyn_flush.
    destruct (dyn_compress_block c true false) as [c1 failed1] eqn:Ec.
    apply dyn_compress_block_step in Ec.
    destruct failed1.
    - intros H. injection H as Hc Hfl. subst c' failed. exact Ec.
    - destruct (bb_take (bb_empty_block false (dbb c1))) as [chunk bb] eqn:E.
      destruct (dest_write (dest_event (ddest c1) ESync) chunk) as [d1 failed0] eqn:Ew.
      intros H. injection H as Hc Hfl. subst c' failed.
      eapply stepP_trans; [exact Ec|].
      pose proof (dest_write_trace (dest_event (ddest c1) ESync) chunk) as Ht.
      rewrite Ew in Ht. cbn [fst dest_event dtrace] in Ht.
      split; [apply (ext_cons _ _ _ Ht)|]. intros HG _.
      apply (emit_marker (ddest c1) (dbb c1) false chunk bb d1 failed0 HG E Ew).
  Qed.

  Lemma dyn_accumulate_same c data :
    ddest (fst (fst (dyn_accumulate c data))) = ddest c /\
    dbb (fst (fst (dyn_accumulate c data))) = dbb c.
  Proof.
    unfold dyn_accumulate. cbv zeta. cbn [fst ddest dbb].
    destruct (2 * dW c <=? didx c); split; reflexivity.
  Qed.

  (* ---------- huffmanOnly ---------- *)

  Definition gh (h : huf) : Prop := good (hdest h) (hbb h).

  Lemma huf_encode_block_step h final h' failed :
    huf_encode_block h final = (h', failed) -> stepP hdest gh h h' failed.
  Proof.
    unfold huf_encode_block. destruct (hbuf h) as [|x data] eqn:Eb.
    - destruct final.
      + destruct (bb_take (bb_empty_block true (hbb h))) as [chunk bb] eqn:E.
        destruct (dest_write (dest_event (hdest h) EFinalEmpty) chunk) as [d1 failed0] eqn:Ew.
        intros H. injection H as Hc Hfl. subst h' failed.
        pose proof (dest_write_trace (dest_event (hdest h) EFinalEmpty) chunk) as Ht.
        rewrite Ew in Ht. cbn [fst dest_event dtrace] in Ht.
        split; [apply (ext_cons _ _ _ Ht)|]. intros HG _.
        apply (emit_marker (hdest h) (hbb h) true chunk bb d1 failed0 HG E Ew).
      + intros H. injection H as Hc Hfl. subst h' failed. apply stepP_refl.
    - destruct (hencode_block (x :: data) final (hbb h)) as [chunks bb] eqn:E.
      destruct (dest_write_all (dest_event (hdest h) (EHBlock (x :: data) final)) chunks)
        as [d1 failed0] eqn:Ew.
      intros H.
      pose proof (dest_write_all_trace chunks (dest_event (hdest h) (EHBlock (x :: data) final))) as Ht.
      rewrite Ew in Ht. cbn [fst dest_event dtrace] in Ht.
      assert (Hcommon : gh h -> Forall ev_good (dtrace d1) -> good d1 bb /\ failed0 = false).
      { intros HG Hok. rewrite Ht in Hok. inversion Hok as [|e l [Hev _] Hrest]; subst.
        apply (emit_hblock (hdest h) (hbb h) (x :: data) final chunks bb d1 failed0 HG);
          [discriminate|exact Hev|exact E|exact Ew]. }
      destruct failed0; injection H as Hc Hfl; subst h' failed;
        (split; [apply (ext_cons _ _ _ Ht)|exact Hcommon]).
  Qed.

  Lemma huf_flush_step h h' failed :
    huf_flush h = (h', failed) -> stepP hdest gh h h' failed.
  Proof.
    unfold huf_flush.
    destruct (huf_encode_block h false) as [h1 failed1] eqn:Ec.
    apply huf_encode_block_step in Ec.
    destruct failed1.
    - intros H. injection H as Hc Hfl. subst h' failed. exact Ec.
    - destruct (bb_take (bb_empty_block false (hbb h1))) as [chunk bb] eqn:E.
      destruct (dest_write (dest_event (hdest h1) ESync) chunk) as [d1 failed0] eqn:Ew.
      intros H. injection H as Hc Hfl. subst h' failed.
      eapply stepP_trans; [exact Ec|].
      pose proof (dest_write_trace (dest_event (hdest h1) ESync) chunk) as Ht.
      rewrite Ew in Ht. cbn [fst dest_event dtrace] in Ht.
      split; [apply (ext_cons _ _ _ Ht)|]. intros HG _.
      apply (emit_marker (hdest h1) (hbb h1) false chunk bb d1 failed0 HG E Ew).
  Qed.

  (* ---------- the compressor interface ---------- *)

  Definition cbb (c : comp) : bitbuf := match c with CDyn d => dbb d | CHuf h => hbb h end.
  Definition cgood (c : comp) : Prop := good (c_dest c) (cbb c).

  Lemma c_compress_step c c' failed :
    c_compress c = (c', failed) -> stepP c_dest cgood c c' failed.
  Proof.
    destruct c as [d|h]; unfold c_compress.
    - destruct (dyn_compress_block d false false) as [d1 f] eqn:E. intros H.
      injection H as Hc Hfl. subst c' failed. apply dyn_compress_block_step in E. exact E.
    - destruct (huf_encode_block h false) as [h1 f] eqn:E. intros H.
      injection H as Hc Hfl. subst c' failed. apply huf_encode_block_step in E. exact E.
  Qed.

  Lemma c_flush_step c c' failed :
    c_flush c = (c', failed) -> stepP c_dest cgood c c' failed.
  Proof.
    destruct c as [d|h]; unfold c_flush.
    - destruct (dyn_flush d) as [d1 f] eqn:E. intros H.
      injection H as Hc Hfl. subst c' failed. apply dyn_flush_step in E. exact E.
    - destruct (huf_flush h) as [h1 f] eqn:E. intros H.
      injection H as Hc Hfl. subst c' failed. apply huf_flush_step in E. exact E.
  Qed.

  Lemma c_close_step c c' failed :
    c_close c = (c', failed) -> stepP c_dest cgood c c' failed.
  Proof.
    destruct c as [d|h]; unfold c_close.
    - destruct (dyn_compress_block d true true) as [d1 f] eqn:E. intros H.
      injection H as Hc Hfl. subst c' failed. apply dyn_compress_block_step in E. exact E.
    - destruct (huf_encode_block h true) as [h1 f] eqn:E. intros H.
      injection H as Hc Hfl. subst c' failed. apply huf_encode_block_step in E. exact E.
  Qed.

  Lemma c_accumulate_step c data c1 k trig :
    c_accumulate c data = (c1, k, trig) -> stepP c_dest cgood c c1 false.
  Proof.
    destruct c as [d|h]; unfold c_accumulate.
    - pose proof (dyn_accumulate_same d data) as [Hd Hb].
      destruct (dyn_accumulate d data) as [[d1 n] t]. cbn [fst] in Hd, Hb.
      intros H. injection H as Hc _ _. subst c1.
      apply stepP_same; unfold cgood; cbn [c_dest cbb]; rewrite Hd; [reflexivity|].
      rewrite Hb. auto.
    - destruct (huf_accumulate h data) as [[h1 n] t] eqn:E.
      unfold huf_accumulate in E. cbv zeta in E. injection E as Eh _ _. subst h1.
      intros H. injection H as Hc _ _. subst c1.
      apply stepP_same; [reflexivity|]. intros HG. exact HG.
  Qed.

  (* ---------- writer.go ---------- *)

  Lemma write_loop_step fuel : forall c data num c' n failed,
    write_loop comp c_accumulate c_compress fuel c data num = Some (c', n, failed) ->
    stepP c_dest cgood c c' failed.
  Proof.
    induction fuel as [|f IH]; intros c data num c' n failed H;
      destruct data as [|x data']; cbn [write_loop] in H.
    - injection H as Hc _ Hfl. subst c' failed. apply stepP_refl.
    - discriminate H.
    - injection H as Hc _ Hfl. subst c' failed. apply stepP_refl.
    - destruct (c_accumulate c (x :: data')) as [[c1 k] trig] eqn:Ea.
      apply c_accumulate_step in Ea.
      destruct trig.
      + destruct (c_compress c1) as [c2 failed2] eqn:Ec. apply c_compress_step in Ec.
        pose proof (stepP_trans _ _ _ _ _ _ _ Ea Ec) as H02.
        destruct failed2.
        * injection H as Hc _ Hfl. subst c' failed. exact H02.
        * apply IH in H. eapply stepP_trans; eassumption.
      + apply IH in H. eapply stepP_trans; eassumption.
  Qed.

  Definition wdest (w : writer comp) : dest := c_dest (wc comp w).
  Definition winv (w : writer comp) : Prop := cgood (wc comp w) /\ we comp w <> EDest.

  Lemma wstep_step fuel w o w' e :
    not_reset o ->
    wstep comp c_accumulate c_compress c_flush c_close (c_reset_to None) fuel w o = Some (w', e) ->
    stepP wdest winv w w' false.
  Proof.
    intros Hn H. destruct o as [d| | |]; cbn [wstep] in H.
    - unfold wwrite in H. destruct (we comp w) eqn:Ee.
      + destruct (write_loop comp c_accumulate c_compress fuel (wc comp w) d 0)
          as [[[c n] failed]|] eqn:El; [|discriminate H].
        injection H as Hw _. subst w'. apply write_loop_step in El. destruct El as [Ex Hg].
        split; [exact Ex|]. intros [HG _] Hok. cbn [wdest wc] in Hok.
        destruct (Hg HG Hok) as [HG' Hf]. subst failed.
        split; [|reflexivity]. split; [exact HG'|cbn [we]; discriminate].
      + injection H as Hw _. subst w'. apply stepP_refl.
      + injection H as Hw _. subst w'. apply stepP_refl.
    - unfold wflush in H. destruct (we comp w) eqn:Ee.
      + destruct (c_flush (wc comp w)) as [c failed] eqn:El.
        injection H as Hw _. subst w'. apply c_flush_step in El. destruct El as [Ex Hg].
        split; [exact Ex|]. intros [HG _] Hok. cbn [wdest wc] in Hok.
        destruct (Hg HG Hok) as [HG' Hf]. subst failed.
        split; [|reflexivity]. split; [exact HG'|cbn [we]; discriminate].
      + injection H as Hw _. subst w'. apply stepP_refl.
      + injection H as Hw _. subst w'. apply stepP_refl.
    - unfold wclose in H. destruct (we comp w) eqn:Ee.
      + destruct (c_close (wc comp w)) as [c failed] eqn:El.
        injection H as Hw _. subst w'. apply c_close_step in El. destruct El as [Ex Hg].
        split; [exact Ex|]. intros [HG _] Hok. cbn [wdest wc] in Hok.
        destruct (Hg HG Hok) as [HG' Hf]. subst failed.
        split; [|reflexivity]. split; [exact HG'|cbn [we]; discriminate].
      + injection H as Hw _. subst w'. apply stepP_refl.
      + injection H as Hw _. subst w'. apply stepP_refl.
    - destruct Hn.
  Qed.

  Lemma wrun_step fuel ops : forall w w' es,
    Forall (not_reset) ops ->
    WriterSM.wrun comp c_accumulate c_compress c_flush c_close (c_reset_to None) fuel w ops = Some (w', es) ->
    stepP wdest winv w w' false.
  Proof.
    induction ops as [|o r IH]; intros w w' es Hn H; cbn [WriterSM.wrun] in H.
    - injection H as Hw _. subst w'. apply stepP_refl.
    - inversion Hn as [|o' r' Ho Hr]; subst.
      destruct (wstep comp c_accumulate c_compress c_flush c_close (c_reset_to None) fuel w o)
        as [[w1 e]|] eqn:Es; [|discriminate H].
      destruct (WriterSM.wrun comp c_accumulate c_compress c_flush c_close (c_reset_to None) fuel w1 r)
        as [[w2 es2]|] eqn:Er; [|discriminate H].
      injection H as Hw _. subst w'.
      apply (wstep_step _ _ _ _ _ Ho) in Es. apply (IH _ _ _ Hr) in Er.
      eapply stepP_trans; eassumption.
  Qed.

  Lemma comp_new_good sync level win4k : cgood (comp_new sync level win4k None).
  Proof.
    unfold comp_new. destruct (Z.eqb level (-2)%Z); unfold cgood, good;
      (split; [reflexivity|]); (split; [reflexivity|]); (split; [apply Nat.le_0_l|]);
      (split; [apply Forall_nil|reflexivity]).
  Qed.

  Lemma hop_not_reset h : Forall (not_reset) (map hop_op h).
  Proof.
    induction h as [|o r IH]; cbn [map]; constructor; [|exact IH].
    destruct o; exact I.
  Qed.

  Theorem stream_render : stream_render_statement.
  Proof.
    intros sync level win4k h w flags _ Hrun Hok Hfit.
    unfold hrun in Hrun.
    apply (wrun_step _ _ _ _ _ (hop_not_reset h)) in Hrun.
    destruct Hrun as [_ Hg].
    assert (Hinit : winv (mkw comp (comp_new sync level win4k None) ENone)).
    { split; [apply comp_new_good|discriminate]. }
    assert (Hok' : Forall ev_good (dtrace (wdest w))).
    { unfold run_trace in Hok, Hfit.
      apply Forall_rev in Hok. rewrite rev_involutive in Hok.
      apply Forall_rev in Hfit. rewrite rev_involutive in Hfit.
      unfold wdest. rewrite Forall_forall in *. intros e He. split; [apply Hok|apply Hfit]; exact He. }
    destruct (Hg Hinit Hok') as [[(Hf & Ho & Hl & Hby & Hbits) _] _].
    unfold run_bytes, run_trace, run_acc, bytes_ok.
    split; [|exact Hby].
    rewrite <- Hbits. unfold cbb. destruct (wc comp w); reflexivity.
  Qed.
End WithRender.

Print Assumptions stream_render.
