(* EngineRefineRdHdrA.v -- tryDecodeHeader of RModel/Engine.v against the reference
   (statement in RModel/EngineRefineSpecHdr.v). *)
From Coq Require Import List NArith ZArith Bool Lia ZifyBool ZifyNat ZifyN.
From Verif Require Import Bits Huffman HuffmanSpec Inflate InflateSpec InflateMono.
From Verif Require Import Base EngineTables Engine EngineRefineSpec EngineRefineSpecBlock
  EngineRefineSpecHdr EngineRefineBits EngineRefineBridge.
Import ListNotations.
Open Scope N_scope.

Local Opaque setupDynamicHeader prepareForLitBlock.

(* ---------------------------------------------------------------- the fixed tries exist *)
Lemma fixed_lit_trie : exists lt, mktrie 15 fixed_lit_lens = Some lt.
Proof.
  assert (H : (match mktrie 15 fixed_lit_lens with Some _ => true | None => false end) = true)
    by (vm_compute; reflexivity).
  destruct (mktrie 15 fixed_lit_lens) as [t|]; [exists t; reflexivity|discriminate].
Qed.

Lemma fixed_dist_trie : exists dt, mktrie 15 fixed_dist_lens = Some dt.
Proof.
  assert (H : (match mktrie 15 fixed_dist_lens with Some _ => true | None => false end) = true)
    by (vm_compute; reflexivity).
  destruct (mktrie 15 fixed_dist_lens) as [t|]; [exists t; reflexivity|discriminate].
Qed.

Lemma fixed_tries_some : exists lt dt,
  fixed_tries = Some (lt, dt) /\ mktrie 15 fixed_lit_lens = Some lt /\ mktrie 15 fixed_dist_lens = Some dt.
Proof.
  destruct fixed_lit_trie as [lt El]. destruct fixed_dist_trie as [dt Ed].
  exists lt, dt. unfold fixed_tries. rewrite El, Ed. repeat split.
Qed.

(* ---------------------------------------------------------------- alignment bookkeeping *)
Lemma align_step : forall (p : N) (len len' : Z) (k n n' : nat),
  ((Z.of_N p + len) mod 8 = 0)%Z -> (0 <= len)%Z -> (0 <= len')%Z ->
  (Z.to_nat len + 8 * n = k + (Z.to_nat len' + 8 * n'))%nat ->
  ((Z.of_N (p + N.of_nat k) + len') mod 8 = 0)%Z.
Proof.
  intros p len len' k n n' Hal H0 H0' Hlen.
  Z.div_mod_to_equations. lia.
Qed.

(* readBits with the reader non-negative before: the result is set_rd of the state; if the
   reader is non-negative afterwards it is `take`, and the alignment invariant moves on *)
Lemma readBits_step : forall s k e p,
  br_wf (rd s) -> (0 <= r_len (rd s))%Z -> k <= 57 ->
  ((Z.of_N p + r_len (rd s)) mod 8 = 0)%Z ->
  exists v b', readBits s k = Some (v, set_rd s b') /\ br_wf b' /\
    ((0 <= r_len b')%Z ->
       take (N.to_nat k) (mkbs (br_bits (rd s) ++ e) p) = Some (v, mkbs (br_bits b' ++ e) (p + k)) /\
       ((Z.of_N (p + k) + r_len b') mod 8 = 0)%Z).
Proof.
  intros s k e p Hwf H0 Hk Hal.
  destruct (readBits_take s k e p Hwf H0 Hk) as (v & s' & R & W' & E' & T & _).
  exists v, (rd s'). rewrite <- E'. split; [exact R|]. split; [exact W'|].
  intros H0'. specialize (T H0'). split; [exact T|].
  pose proof (take_len (N.to_nat k) (mkbs (br_bits (rd s) ++ e) p)) as L.
  rewrite T in L. destruct L as [L _]. unfold InflateMono.blen in L. cbn [bl] in L.
  rewrite !app_length, !br_bits_length in L.
  replace (p + k) with (p + N.of_nat (N.to_nat k)) by lia.
  eapply align_step with (len := r_len (rd s)) (n := length (r_in (rd s))) (n' := length (r_in (rd s')));
    [exact Hal|exact H0|exact H0'|lia].
Qed.

(* readBits on a reader that went negative (input exhausted): stays negative *)
Lemma readBits_neg : forall s k,
  br_wf (rd s) -> (r_len (rd s) < 0)%Z ->
  exists v b', readBits s k = Some (v, set_rd s b') /\ (r_len b' < 0)%Z.
Proof.
  intros s k (W1 & W2 & W3 & W4 & W5) Hneg.
  unfold readBits, loadBits, load_lt57, load_raw.
  replace (r_len (rd s) <? 57)%Z with true by lia.
  replace (r_len (rd s) <? 0)%Z with true by lia.
  assert (Hin : r_inlen (rd s) = 0) by (rewrite W1, (W3 Hneg); reflexivity).
  rewrite Hin. cbn [N.eqb]. cbn [rd set_rd]. unfold next_bits.
  eexists. eexists. split.
  - destruct s; reflexivity.
  - unfold br_drop. cbn [r_len]. lia.
Qed.

(* ---------------------------------------------------------------- tryDecodeHeader *)
Theorem tryDecodeHeader_refine : tryDecodeHeader_refine_statement.
Proof.
  intros HD HP HSL HSD s e p Hwf H0 Hal. unfold tryDecodeHeader.
  destruct (readBits_step s 1 e p Hwf H0 ltac:(lia) Hal) as (bf & bA & RA & WA & TA).
  rewrite RA. cbv beta iota zeta.
  set (sB := set_bfinal (set_rd s bA) bf).
  assert (EBrd : rd sB = bA) by reflexivity.
  destruct (Z.ltb_spec (r_len bA) 0) as [HnegA|HposA].
  { (* out of input after the first bit *)
    destruct (readBits_neg sB 2 ltac:(rewrite EBrd; exact WA) ltac:(rewrite EBrd; exact HnegA))
      as (bt & bC & RC & HnegC).
    rewrite RC. cbv beta iota zeta. cbn [rd set_rd].
    replace (r_len bC <? 0)%Z with true by lia.
    split; [repeat split|]. split; [reflexivity|]. split; [reflexivity|]. discriminate. }
  destruct (TA HposA) as [T1 Hal1].
  destruct (readBits_step sB 2 e (p + 1) ltac:(rewrite EBrd; exact WA) ltac:(rewrite EBrd; exact HposA)
              ltac:(lia) ltac:(rewrite EBrd; exact Hal1)) as (bt & bC & RC & WC & TC).
  rewrite RC. cbv beta iota zeta. rewrite EBrd in TC.
  set (sC := set_rd sB bC).
  assert (ECrd : rd sC = bC) by reflexivity.
  assert (ECbf : bfinal sC = bf) by reflexivity.
  rewrite ECrd.
  destruct (Z.ltb_spec (r_len bC) 0) as [HnegC|HposC].
  { split; [repeat split|]. split; [reflexivity|]. split; [reflexivity|]. discriminate. }
  destruct (TC HposC) as [T2 Hal2].
  change (N.to_nat 1) with 1%nat in T1. change (N.to_nat 2) with 2%nat in T2.
  destruct (N.eqb_spec bt 0) as [Ebt0|Nbt0].
  { (* stored *)
    pose proof (HP sC e (p + 1 + 2)) as P. rewrite ECrd in P. specialize (P WC HposC Hal2).
    destruct (prepareForLitBlock sC) as [s' err].
    destruct P as (SS & OV & _ & _ & OK).
    destruct SS as (S1 & S2 & S3 & S4 & S5 & S6 & S7).
    split; [split; [rewrite S1; reflexivity|split; [rewrite OV; reflexivity|rewrite S7; reflexivity]]|].
    split; [rewrite S4; reflexivity|]. split; [rewrite S5; reflexivity|].
    intros Eerr. destruct (OK Eerr) as (W' & H0' & Hm8 & Hph & len & s4 & nlen & s5 & A1 & A2 & A3 & A4 & A5).
    split; [exact W'|]. split; [exact H0'|].
    exists bf, (mkbs (br_bits bA ++ e) (p + 1)), bt, (mkbs (br_bits bC ++ e) (p + 1 + 2)).
    split; [exact T1|]. split; [exact T2|]. split; [rewrite S3; exact ECbf|].
    right. right. split; [exact Ebt0|]. split; [exact Hph|].
    exists len, s4, nlen, s5.
    split; [exact A1|]. split; [exact A2|]. split; [exact A3|]. split; [exact A4|].
    split; [exact A5|exact Hm8]. }
  destruct (N.eqb_spec bt 1) as [Ebt1|Nbt1].
  { (* fixed *)
    unfold setupStaticHeader.
    split; [repeat split|]. split; [reflexivity|]. split; [reflexivity|].
    intros _. cbn [rd set_phase set_tb]. rewrite ECrd.
    split; [exact WC|]. split; [exact HposC|].
    exists bf, (mkbs (br_bits bA ++ e) (p + 1)), bt, (mkbs (br_bits bC ++ e) (p + 1 + 2)).
    split; [exact T1|]. split; [exact T2|]. split; [reflexivity|].
    left. split; [exact Ebt1|]. split; [reflexivity|].
    destruct fixed_tries_some as (lt & dt & EF & El & Ed).
    exists lt, dt. split; [exact EF|]. split; [|reflexivity].
    cbn [tb set_phase set_tb].
    exists fixed_lit_lens, fixed_dist_lens. split; [exact El|]. split; [exact Ed|].
    split; [exact HSL|exact HSD]. }
  destruct (N.eqb_spec bt 2) as [Ebt2|Nbt2].
  { (* dynamic *)
    pose proof (HD sC e (p + 1 + 2)) as P. rewrite ECrd in P. specialize (P WC HposC).
    destruct (setupDynamicHeader sC) as [s' err].
    destruct P as (W' & SF & OK).
    destruct SF as (S1 & S2 & S3 & S4 & S5 & S6 & S7).
    split; [split; [rewrite S1; reflexivity|split; [rewrite S2; reflexivity|rewrite S7; reflexivity]]|].
    split; [rewrite S5; reflexivity|]. split; [rewrite S6; reflexivity|].
    intros Eerr. destruct (OK Eerr) as (H0' & Hph & ll & dl & lt & dt & p' & A1 & A2 & A3 & A4 & A5).
    split; [exact W'|]. split; [exact H0'|].
    exists bf, (mkbs (br_bits bA ++ e) (p + 1)), bt, (mkbs (br_bits bC ++ e) (p + 1 + 2)).
    split; [exact T1|]. split; [exact T2|]. split; [rewrite S3; exact ECbf|].
    right. left. split; [exact Ebt2|]. split; [exact Hph|].
    exists lt, dt, (mkbs (br_bits (rd s') ++ e) p'). split; [exact A1|]. split; [|reflexivity].
    exists ll, dl. split; [exact A2|]. split; [exact A3|]. split; [exact A4|exact A5]. }
  (* btype 3 *)
  split; [repeat split|]. split; [reflexivity|]. split; [reflexivity|]. discriminate.
Qed.

Print Assumptions tryDecodeHeader_refine.
