(* EngineCompleteRun3.v -- Read and erun with the exact end facts: erun_kinds3_statement. *)
From Coq Require Import List NArith ZArith Bool Lia ZifyBool ZifyNat ZifyN Relations.
From Verif Require Import Bits Huffman Inflate InflateSpec InflateMono.
From Verif Require Import Base EngineTables Engine EngineRefineSpec EngineRefineSpecBlock
     EngineRefineSpecHdr EngineRefineSpecReach EngineRefineSpecBuf EngineRefineSpecNeed
     EngineRefineSpecBlock2 EngineRefineSpecBlock3 EngineRefineSpecTop EngineRefineSpecFinal
     EngineCompleteSpecA EngineCompleteSpecB EngineCompleteSpecReach EngineCompleteSpecC
     EngineCompleteSpecD EngineCompleteSpecE EngineCompleteSpecF
     EngineRefineBits EngineRefineTopBase EngineRefineTop EngineRefineRun EngineCompleteTop
     EngineCompleteRun EngineCompleteTop3.
Import ListNotations.
Open Scope N_scope.

Definition good_err3 (data : list N) (t : terminal) (O : list N) (e : rres) : Prop :=
  (e = REOF \/ e = RUnexpectedEOF \/ e = RSrcErr \/ (exists o, e = RCorrupt o) \/ e = RPanic \/
   e = RStuck) /\
  (e = RUnexpectedEOF -> t = TEOF /\ endf data O) /\
  (e = RSrcErr -> t = TErr /\ endf data O) /\
  ((exists o, e = RCorrupt o) -> strict data -> status (Inflate.inflate [] data) <> Done).

Definition run_inv3 (data : list N) (t : terminal) (delivered : list N) (f : decompressor) : Prop :=
  (exists c, reach data c /\
             delivered ++ pending_out f = frev (rout (cfg_st c)) /\
             readPos f <= writePos f /\
             (derr f = Some REOF ->
                exists st S0, c = CDone st S0 /\ consumed (rBuf f) = (bp S0 + 7) / 8)) /\
  (derr f = None -> dec_inv3 data delivered f) /\
  term (rBuf f) = t /\
  (forall e, derr f = Some e -> good_err3 data t (delivered ++ pending_out f) e).

Lemma dec_inv3_deliver : forall data delivered f num,
  dec_inv3 data delivered f -> num <= writePos f - readPos f ->
  dec_inv3 data (delivered ++ hist_slice (N.to_nat num) (hist f) (readPos f))
           (mkD (state f) (writePos f) (readPos f + num) (hist f) (rBuf f) (derr f) (peekSize f)
                (eof f) (haveBits f)).
Proof.
  intros data delivered f num [(Hbuf & HD & Hrp & Hwp & Hph & c & u & Hreach & Hsim & Hwin & Hdel & Hu) Hfl] Hnum.
  split.
  2:{ destruct Hfl as [F1 F2]. split; [exact F1|].
      cbn [eof state rBuf peekSize haveBits]. intros A B C.
      rewrite <- app_assoc. rewrite <- (pending_deliver f num Hnum). exact (F2 A B C). }
  unfold dec_invT. cbn [rBuf state writePos readPos hist peekSize].
  split; [exact Hbuf|]. split; [exact HD|]. split; [lia|]. split; [exact Hwp|]. split; [exact Hph|].
  exists c, u. split; [exact Hreach|]. split; [exact Hsim|]. split; [exact Hwin|].
  split; [|exact Hu].
  rewrite <- Hdel, <- app_assoc. f_equal. symmetry. apply pending_deliver. exact Hnum.
Qed.

Lemma read_loop_ok3 : step_body3 -> forall data t, Forall (fun x => x < 256) data ->
  forall fuel f plen delivered,
    run_inv3 data t delivered f ->
    let '(f', bytes, r) := read_loop fuel f plen in
    run_inv3 data t (delivered ++ bytes) f' /\
    (r = REOF -> derr f' = Some REOF /\ readPos f' = writePos f') /\
    (r <> ROk -> r = RStuck \/ (derr f' = Some r /\ readPos f' = writePos f')) /\
    (r = ROk -> 0 < plen -> bytes <> []).
Proof.
  intros Hstep data t Hdata. induction fuel as [|k IH]; intros f plen delivered Hinv.
  - cbn [read_loop]. cbv iota beta. rewrite app_nil_r. split; [exact Hinv|].
    split; [discriminate|]. split; [intros _; left; reflexivity|discriminate].
  - cbn [read_loop].
    destruct Hinv as ((c & R1 & R2 & R3 & R4) & Hd & Ht & Hg).
    destruct (readPos f <? writePos f) eqn:Elt.
    + apply N.ltb_lt in Elt.
      set (num := N.min plen (writePos f - readPos f)).
      assert (Hnum : num <= writePos f - readPos f) by (unfold num; lia).
      set (f' := mkD (state f) (writePos f) (readPos f + num) (hist f) (rBuf f) (derr f) (peekSize f)
                     (eof f) (haveBits f)).
      assert (Hinv' : run_inv3 data t (delivered ++ hist_slice (N.to_nat num) (hist f) (readPos f)) f').
      { split; [|split; [|split; [exact Ht|]]].
        3:{ intros e He. unfold f'. rewrite <- app_assoc, <- (pending_deliver f num Hnum). exact (Hg e He). }
        - exists c. split; [exact R1|]. split.
          + rewrite <- R2, <- app_assoc. f_equal. symmetry. apply pending_deliver. exact Hnum.
          + split; [unfold f'; cbn [readPos writePos]; lia|]. exact R4.
        - intros Hn. apply dec_inv3_deliver; [apply Hd; exact Hn|exact Hnum]. }
      assert (Hne : 0 < plen -> hist_slice (N.to_nat num) (hist f) (readPos f) <> []).
      { intros Hp Hc. apply (f_equal (@length N)) in Hc. rewrite hist_slice_length in Hc.
        cbn [length] in Hc. unfold num in Hc. lia. }
      destruct (writePos f' =? readPos f') eqn:Eall; unfold f' in Eall; cbn [writePos readPos] in Eall.
      * cbv iota beta. split; [exact Hinv'|]. apply N.eqb_eq in Eall.
        change (derr f') with (derr f) in *.
        destruct (derr f) as [e|] eqn:Ede.
        -- split; [intros ->; split; [reflexivity|unfold f'; cbn [readPos writePos]; lia]|].
           split; [intros _; right; split; [reflexivity|unfold f'; cbn [readPos writePos]; lia]|]. intros _. exact Hne.
        -- split; [discriminate|]. split; [intros K; contradiction|]. intros _. exact Hne.
      * cbv iota beta. split; [exact Hinv'|]. split; [discriminate|].
        split; [intros K; contradiction|]. intros _. exact Hne.
    + apply N.ltb_ge in Elt.
      destruct (derr f) as [e|] eqn:Ede.
      * cbv iota beta. rewrite app_nil_r. split.
        { unfold run_inv3. rewrite Ede.
          split; [exists c; split; [exact R1|]; split; [exact R2|]; split; [exact R3|exact R4]|].
          split; [exact Hd|]. split; [exact Ht|exact Hg]. }
        split; [intros ->; split; [exact Ede|lia]|].
        split; [intros _; right; split; [exact Ede|lia]|].
        intros -> _. destruct (Hg ROk eq_refl) as ([K|[K|[K|[(o & K)|[K|K]]]]] & _); discriminate.
      * specialize (Hd eq_refl).
        pose proof (Hstep data delivered f Hdata Hd ltac:(lia) Ede) as HS.
        pose proof (step_term f) as HT.
        destruct (step f) as [f1 r1]. cbn [fst] in HT.
        destruct HS as ((c1 & S1 & S2 & S3 & S4) & S5 & S6 & K1 & K2 & K3 & K4).
        assert (Hinv1 : run_inv3 data t delivered (set_err f1 r1)).
        { split; [|split; [|split]].
          - exists c1. split; [exact S1|]. split; [exact S2|]. split; [exact S3|].
            intros He. cbn [derr set_err] in He. exact (S4 He).
          - intros He. cbn [derr set_err] in He. specialize (S6 He).
            destruct S6 as [(Q1 & Q2 & Q3 & Q4 & Q5 & Q6) Q7]. split; [|exact Q7].
            unfold dec_invT.
            split; [exact Q1|]. split; [exact Q2|]. split; [exact Q3|]. split; [exact Q4|]. split; [exact Q5|exact Q6].
          - cbn [rBuf set_err]. congruence.
          - intros e He. cbn [derr set_err] in He. subst r1.
            split.
            { destruct K1 as [K|[K|[K|[K|[(o & K)|[K|K]]]]]]; try discriminate; injection K as ->; auto 8.
              right; right; right; left. eexists; reflexivity. }
            split.
            { intros ->. destruct (K2 eq_refl) as [T1 T2]. split; [congruence|exact T2]. }
            split.
            { intros ->. destruct (K3 eq_refl) as [T1 T2]. split; [congruence|exact T2]. }
            intros (o & ->). apply K4. eexists; reflexivity. }
        destruct r1 as [e'|].
        -- cbn [writePos readPos set_err].
           destruct (writePos f1 <=? readPos f1) eqn:Ele.
           ++ cbv iota beta. rewrite app_nil_r. split; [exact Hinv1|].
              apply N.leb_le in Ele.
              split; [intros ->; split; [reflexivity|cbn [readPos writePos set_err]; lia]|].
              split; [intros _; right; split; [reflexivity|cbn [readPos writePos set_err]; lia]|].
              intros -> _. exfalso.
              destruct K1 as [K|[K|[K|[K|[(o & K)|[K|K]]]]]]; discriminate.
           ++ apply IH. exact Hinv1.
        -- apply IH. exact Hinv1.
Qed.


Lemma erun_loop_ok3 : step_body3 -> forall data t, Forall (fun x => x < 256) data ->
  forall reads f acc,
    Forall (fun p => 0 < p) reads ->
    run_inv3 data t (results_bytes (frev acc)) f -> all_ok acc ->
    let '(l, f') := erun_loop f reads acc in
    run_inv3 data t (results_bytes l) f' /\
    ((all_ok (rev l) /\ length l = (length acc + length reads)%nat) \/
     (exists pre bytes r, l = pre ++ [(bytes, r)] /\ r <> ROk /\
                          (r = RStuck \/ (derr f' = Some r /\ readPos f' = writePos f')))).
Proof.
  intros Hstep data t Hdata. induction reads as [|p rest IH]; intros f acc Hpos Hinv Hacc.
  - cbn [erun_loop]. split; [exact Hinv|]. left. rewrite frev_rev, rev_involutive, rev_length.
    split; [exact Hacc|cbn [length]; lia].
  - cbn [erun_loop]. unfold dRead.
    inversion Hpos as [|x y Hp Hrest]; subst.
    pose proof (read_loop_ok3 Hstep data t Hdata big_fuel f p (results_bytes (frev acc)) Hinv) as HR.
    destruct (read_loop big_fuel f p) as [[f1 bytes] r].
    destruct HR as (R1 & R2 & R3 & R4).
    rewrite <- results_bytes_snoc with (r := r) in R1.
    assert (Hstop : r <> ROk ->
              run_inv3 data t (results_bytes (frev ((bytes, r) :: acc))) f1 /\
              ((all_ok (rev (frev ((bytes, r) :: acc))) /\
                length (frev ((bytes, r) :: acc)) = (length acc + length (p :: rest))%nat) \/
               (exists pre b0 r0, frev ((bytes, r) :: acc) = pre ++ [(b0, r0)] /\ r0 <> ROk /\
                                  (r0 = RStuck \/ (derr f1 = Some r0 /\ readPos f1 = writePos f1))))).
    { intros Hr. split; [exact R1|]. right. exists (rev acc), bytes, r.
      split; [rewrite frev_rev; reflexivity|]. split; [exact Hr|]. exact (R3 Hr). }
    destruct r; try (apply Hstop; discriminate).
    specialize (IH f1 ((bytes, ROk) :: acc) Hrest R1 (all_ok_frev_snoc acc bytes Hacc (R4 eq_refl Hp))).
    destruct (erun_loop f1 rest ((bytes, ROk) :: acc)) as [l f'].
    destruct IH as (I1 & I2). split; [exact I1|].
    destruct I2 as [[I2 I3]|I2]; [left|right; exact I2].
    split; [exact I2|]. cbn [length] in *. lia.
Qed.


Lemma newReader_inv3 : newbuf_ok_statement -> forall data cs bufsize t,
  concat cs = data -> Forall (fun c => c <> []) cs ->
  run_inv3 data t [] (newReader bufsize cs t).
Proof.
  intros Hnb data cs bufsize t Hcs Hne.
  destruct (Hnb bufsize cs t Hne) as (B1 & B2 & B3).
  assert (Hdec : dec_invT data [] (newReader bufsize cs t)).
  { unfold dec_invT, newReader. cbn [rBuf state writePos readPos hist peekSize].
    split; [exact B1|].
    split; [exists []; cbn [app length]; split; [rewrite B2; symmetry; exact Hcs|exact B3]|].
    split; [lia|]. split; [cbv; discriminate|]. split; [cbv; discriminate|].
    exists (rinit data), data.
    split; [apply rt_refl|].
    split.
    { unfold st_sim3, rinit. split; [|intros Hp; discriminate Hp].
      unfold st_sim2. split; [reflexivity|].
      split; [left; reflexivity|].
      split.
      { unfold hdr_ok, lrd, inflate0, br0.
        cbn [rd r_bits r_len r_in r_inlen headerBuffer headerBuffered phase app].
        split.
        - unfold br_wf, br_bits. cbn [r_bits r_len r_in r_inlen length bits_of_bytes flat_map Z.to_nat bits_of_N app].
          split; [reflexivity|]. split; [lia|]. split; [intros; reflexivity|]. split; [constructor|].
          intros i Hi. rewrite N.bits_0 in Hi. discriminate.
        - split; [lia|]. split; [reflexivity|]. split; [cbv; discriminate|].
          split; [left; reflexivity|intros; reflexivity]. }
      split; [intros Hp; discriminate Hp|].
      split; [intros Hp; discriminate Hp|].
      reflexivity. }
    split.
    { unfold win_rel, rinit, st0. cbn [cfg_st oavail olen rout length].
      split; [reflexivity|]. split; [reflexivity|]. split; [lia|]. split; [left; reflexivity|].
      intros i Hi. lia. }
    split; [reflexivity|].
    cbn [inputNil inflate0 rd br0 r_in r_inlen r_len].
    split; [reflexivity|]. split; [reflexivity|].
    rewrite B2. cbn. symmetry. exact Hcs. }
  split; [|split; [|split]].
  - exists (rinit data). split; [apply rt_refl|]. split; [reflexivity|].
    split; [cbn; lia|]. intros H; discriminate H.
  - intros _. split; [exact Hdec|].
    unfold flags_inv3, newReader. cbn [eof haveBits state rBuf inputNil inflate0 rd br0 r_len].
    split; [intros Hc; discriminate Hc|].
    intros _ _ Hs. rewrite B2, Hcs in Hs. cbn in Hs. rewrite Hs.
    split; [vm_compute; reflexivity|]. exists []. split; [|cbn; lia].
    unfold pending_out. cbn [writePos readPos hist]. vm_compute. reflexivity.
  - reflexivity.
  - intros e He. discriminate He.
Qed.


(* ---------------------------------------------------------------- the exact kinds theorem *)
Theorem erun_kinds3_from_step :
  step_body3 -> newbuf_ok_statement -> reach_out_prefix_statement -> reach_done_statement ->
  erun_kinds3_statement.
Proof.
  intros Hstep Hnb Hpre Hdone data cs bufsize t reads Hdata Hcs Hne [Hpos Hlen].
  rewrite erun_ext_loop.
  pose proof (erun_loop_ok3 Hstep data t Hdata reads (newReader bufsize cs t) [] Hpos
                (newReader_inv3 Hnb data cs bufsize t Hcs Hne) (Forall_nil _)) as HR.
  destruct (erun_loop (newReader bufsize cs t) reads []) as [l f].
  destruct HR as (((c & R1 & R2 & R3 & R4) & Hd & Ht & Hg) & HE).
  intros Hnf.
  assert (Hp : is_prefix (results_bytes l) (out (Inflate.inflate [] data))).
  { apply is_prefix_trans with (b := frev (rout (cfg_st c))).
    - exists (pending_out f). symmetry. exact R2.
    - apply Hpre. exact R1. }
  destruct HE as [[Hok Hl]|(pre & bytes & r & El & Hr & Hrd)].
  - exfalso. pose proof (results_bytes_length_ge (rev l) Hok) as Hge.
    assert (Hlr : length (results_bytes (rev l)) = length (results_bytes l)).
    { unfold results_bytes. rewrite map_rev. clear. induction (map fst l) as [|a m IH]; [reflexivity|].
      cbn [rev concat]. rewrite concat_app, !app_length, IH. cbn [concat length]. rewrite app_nil_r. lia. }
    destruct Hp as [z Hz]. apply (f_equal (@length N)) in Hz. rewrite app_length in Hz.
    rewrite rev_length in Hge. cbn [length] in Hl. unfold byte in *. lia.
  - exists bytes, r. subst l.
    split; [apply last_app_single|]. split; [destruct pre; discriminate|].
    assert (Hnr : r <> RPanic /\ r <> RStuck).
    { unfold no_fatal in Hnf. apply Forall_app in Hnf. destruct Hnf as [_ Hnf].
      inversion Hnf as [|x y Hx _]; subst. exact Hx. }
    destruct Hrd as [Hrd|[Hrd Hrw]]; [destruct Hnr; contradiction|].
    destruct (Hg r Hrd) as (G1 & G2 & G3 & G4).
    rewrite (pending_out_nil f Hrw), app_nil_r in G2, G3.
    assert (Hkind : r = REOF \/ r = RUnexpectedEOF \/ r = RSrcErr \/ exists o, r = RCorrupt o).
    { destruct G1 as [K|[K|[K|[K|[K|K]]]]]; auto; destruct Hnr; contradiction. }
    assert (Heof : r = REOF -> status (Inflate.inflate [] data) = Done).
    { intros ->. destruct (R4 Hrd) as (st & S0 & Hc & _). subst c.
      exact (proj1 (Hdone data st S0 R1)). }
    assert (Hu : r = RUnexpectedEOF -> t = TEOF /\ status (Inflate.inflate [] data) = NeedInput).
    { intros K. destruct (G2 K) as (T1 & T2 & _). split; assumption. }
    assert (Hs : r = RSrcErr -> t = TErr /\ status (Inflate.inflate [] data) = NeedInput).
    { intros K. destruct (G3 K) as (T1 & T2 & _). split; assumption. }
    split; [exact Hkind|].
    split.
    { intros Hdn Hst. destruct Hkind as [K|[K|[K|K]]]; [exact K| | |]; exfalso.
      - destruct (Hu K) as [_ E]. rewrite Hdn in E. discriminate.
      - destruct (Hs K) as [_ E]. rewrite Hdn in E. discriminate.
      - exact (G4 K Hst Hdn). }
    split; [exact Heof|].
    split.
    { intros Hc. destruct Hkind as [K|[K|[K|K]]]; [| | |exact K]; exfalso.
      - rewrite (Heof K) in Hc. discriminate.
      - destruct (Hu K) as [_ E]. rewrite Hc in E. discriminate.
      - destruct (Hs K) as [_ E]. rewrite Hc in E. discriminate. }
    split; [exact Hu|]. split; [exact Hs|].
    intros [K|K]; [destruct (G2 K) as (_ & _ & z & Z1 & Z2)|destruct (G3 K) as (_ & _ & z & Z1 & Z2)];
      exists z; split; assumption.
Qed.
