(* EngineRefineStatic.v -- M3a: the static (fixed-code) tables of the engine decode exactly the
   fixed code of RFC 1951 as the reference defines it (canon of fixed_lit_lens /
   fixed_dist_lens): lit_tab_ok / dist_tab_ok for static_tabs, by finite computation over all
   13-bit / 10-bit buffer prefixes plus a lifting argument. *)
From Coq Require Import List NArith ZArith Bool Lia ZifyBool ZifyNat ZifyN.
From Verif Require Import Bits Huffman HuffmanSpec Inflate.
From Verif Require Import Base EngineTables Engine EngineRefineSpec EngineRefineBits EngineRefineBridge.
Import ListNotations.
Open Scope N_scope.

(* ---------------------------------------------------------------- enumeration *)
Lemma seqN_In : forall n a v, In v (seqN a n) <-> a <= v < a + N.of_nat n.
Proof.
  induction n as [|n IH]; intros a v; cbn [seqN In].
  - lia.
  - rewrite IH. lia.
Qed.

Lemma forallb_seqN : forall (f : N -> bool) n, forallb f (seqN 0 (N.to_nat n)) = true ->
  forall v, v < n -> f v = true.
Proof.
  intros f n H v Hv. rewrite forallb_forall in H. apply H. apply seqN_In. lia.
Qed.

Lemma find_unique : forall (A : Type) (f : A -> bool) (l : list A) x,
  (length (filter f l) <= 1)%nat -> In x l -> f x = true -> find f l = Some x.
Proof.
  intros A f l. induction l as [|a r IH]; intros x Hlen Hin Hf; [destruct Hin|].
  cbn [filter find] in *. destruct (f a) eqn:Ea.
  - destruct Hin as [->|Hin]; [reflexivity|].
    exfalso. cbn [length] in Hlen.
    assert (In x (filter f r)) by (apply filter_In; auto).
    destruct (filter f r); [contradiction|cbn [length] in Hlen; lia].
  - destruct Hin as [->|Hin]; [congruence|]. apply IH; assumption.
Qed.

Lemma find_none_all : forall (A : Type) (f : A -> bool) (l : list A),
  find f l = None -> forall x, In x l -> f x = false.
Proof. intros A f l H x Hin. apply (find_none f l H x Hin). Qed.

Lemma land_ones_ones : forall v a b, a <= b -> N.land (N.land v (N.ones b)) (N.ones a) = N.land v (N.ones a).
Proof.
  intros v a b Hab. apply N.bits_inj. intros i. rewrite !N.land_spec.
  destruct (N.ltb_spec i a) as [Hi|Hi].
  - rewrite !N.ones_spec_low by lia. rewrite !andb_true_r. reflexivity.
  - rewrite (N.ones_spec_high a) by lia. rewrite !andb_false_r. reflexivity.
Qed.

Lemma br_eta : forall b, mkBR (r_bits b) (r_len b) (r_in b) (r_inlen b) = b.
Proof. intros []; reflexivity. Qed.

Lemma br_drop_0 : forall b, br_drop b 0 = b.
Proof. intros [bits len i il]. unfold br_drop; cbn [r_bits r_len r_in r_inlen]. f_equal. lia. Qed.

(* ================================================================ distance table *)
Definition cw_matchb (v : N) (e : nat * nat * N) : bool :=
  let '(_, len, c) := e in N.land v (N.ones (N.of_nat len)) =? rcode len c.

Definition fixed_dist_canon := Eval vm_compute in canon fixed_dist_lens.

Lemma fixed_dist_canon_eq : canon fixed_dist_lens = fixed_dist_canon.
Proof. vm_compute. reflexivity. Qed.

Definition dist_entry_check (v : N) : bool :=
  let e := aget static_dist_short v in
  (N.land e smallFlagBit =? 0) &&
  (length (filter (cw_matchb v) fixed_dist_canon) <=? 1)%nat &&
  match find (cw_matchb v) fixed_dist_canon with
  | Some (d, len, c) =>
    if (d <? 30)%nat then (N.shiftr e 11 =? N.of_nat len) && (N.land e 31 =? N.of_nat d) && negb (N.of_nat len =? 0)
    else (N.shiftr e 11 =? 0) && (e =? N.of_nat len)
  | None => e =? 0
  end.

Lemma dist_entries_checked : forallb dist_entry_check (seqN 0 (N.to_nat 1024)) = true.
Proof. vm_compute. reflexivity. Qed.

Lemma fixed_dist_lens_small : forallb (fun e : nat * nat * N => let '(_, len, _) := e in (len <=? 10)%nat) fixed_dist_canon = true.
Proof. vm_compute. reflexivity. Qed.

Lemma cw_match_low : forall v len c k, N.of_nat len <= k ->
  cw_match v len c <-> cw_match (N.land v (N.ones k)) len c.
Proof. intros v len c k H. unfold cw_match. rewrite land_ones_ones by exact H. reflexivity. Qed.

Lemma cw_matchb_iff : forall v d len c, cw_matchb v (d, len, c) = true <-> cw_match v len c.
Proof. intros. unfold cw_matchb, cw_match. apply N.eqb_eq. Qed.

Theorem static_dist_tab_ok : static_dist_tab_ok_statement.
Proof.
  unfold static_dist_tab_ok_statement, dist_tab_ok. intros b.
  rewrite fixed_dist_canon_eq.
  set (v := N.land (r_bits b) 1023).
  assert (Hv : v < 1024).
  { unfold v. change 1023 with (N.ones 10). rewrite N.land_ones. apply N.mod_lt. cbn; lia. }
  pose proof (forallb_seqN dist_entry_check 1024 dist_entries_checked v Hv) as Hc.
  unfold dist_entry_check in Hc.
  apply andb_true_iff in Hc. destruct Hc as [Hc Hc3]. apply andb_true_iff in Hc. destruct Hc as [Hc1 Hc2].
  apply N.eqb_eq in Hc1. apply Nat.leb_le in Hc2.
  assert (Hlow : forall d len c, In (d, len, c) fixed_dist_canon ->
            (cw_match (r_bits b) len c <-> cw_match v len c)).
  { intros d len c Hin. apply (cw_match_low _ _ _ 10).
    pose proof fixed_dist_lens_small as Hs. rewrite forallb_forall in Hs.
    specialize (Hs _ Hin). cbn beta iota in Hs. apply Nat.leb_le in Hs. lia. }
  unfold dist_decode. cbn [static_tabs distShort distLong]. fold v.
  set (e := aget static_dist_short v) in *.
  rewrite Hc1. cbn [N.eqb].
  split.
  - intros d len c Hin Hm. apply (Hlow d len c Hin) in Hm.
    rewrite (find_unique _ _ _ (d, len, c) Hc2 Hin (proj2 (cw_matchb_iff v d len c) Hm)) in Hc3.
    destruct (d <? 30)%nat.
    + apply andb_true_iff in Hc3. destruct Hc3 as [Hc3 Hnz]. apply andb_true_iff in Hc3. destruct Hc3 as [Hk Hd].
      apply N.eqb_eq in Hk. apply N.eqb_eq in Hd. rewrite Hk.
      destruct (N.of_nat len =? 0) eqn:E0; [discriminate|]. rewrite Hd. reflexivity.
    + apply andb_true_iff in Hc3. destruct Hc3 as [Hk He]. apply N.eqb_eq in Hk. apply N.eqb_eq in He.
      rewrite Hk. cbn [N.eqb]. rewrite br_drop_0. rewrite He. reflexivity.
  - intros Hnone.
    destruct (find (cw_matchb v) fixed_dist_canon) as [[[d len] c]|] eqn:Ef.
    + exfalso. apply find_some in Ef. destruct Ef as [Hin Hm].
      apply (Hnone d len c Hin). apply (Hlow d len c Hin). apply cw_matchb_iff with d. exact Hm.
    + apply N.eqb_eq in Hc3. rewrite Hc3. cbn [N.shiftr N.eqb]. rewrite br_drop_0.
      unfold br_set_len. rewrite Z.sub_0_r. rewrite br_eta. reflexivity.
Qed.

(* ================================================================ literal/length table *)
(* the lookup as a function of the buffer value alone: (bitCount, symCount, nextLits) *)
Definition lit_look (t : tabs) (v : N) : option (N * N * N) :=
  let nextSym := aget (litShort t) (N.land v 4095) in
  if N.land nextSym largeFlagBit =? 0 then
    let bitCount := N.shiftr nextSym 28 in
    let nextSym := if bitCount =? 0 then invalidSymbolValue else nextSym in
    Some (bitCount, N.land (N.shiftr nextSym 26) 3, N.land nextSym largeShortSymMask)
  else
    let bitMask := ones32 (N.shiftr nextSym 26) in
    let nextBits := N.land (u32 v) bitMask in
    let idx := N.land nextSym largeShortSymMask + N.shiftr nextBits 12 in
    if 1264 <=? idx then None
    else
      let nextSym := aget (litLong t) idx in
      let bitCount := N.shiftr nextSym 10 in
      let nextSym := if bitCount =? 0 then invalidSymbolValue else nextSym in
      Some (bitCount, 1, N.land nextSym 1023).

Lemma litlen_decode_look : forall t b,
  litlen_decode t b =
  match lit_look t (r_bits b) with
  | None => None
  | Some (k, c, l) => Some (br_drop b k, c, l)
  end.
Proof.
  intros t b. unfold litlen_decode, lit_look.
  destruct (N.land (aget (litShort t) (N.land (r_bits b) 4095)) largeFlagBit =? 0); [reflexivity|].
  destruct (1264 <=? _); reflexivity.
Qed.

(* every long-code pointer of the static table has maxLen <= 13 *)
Definition lit_flag_check (e : N) : bool :=
  (N.land e largeFlagBit =? 0) || (N.shiftr e 26 <=? 13).

Lemma static_lit_flags : forallb (fun v => lit_flag_check (aget static_lit_short v)) (seqN 0 (N.to_nat 4096)) = true.
Proof. vm_compute. reflexivity. Qed.

Lemma u32_land_ones : forall v k, k <= 32 -> N.land (u32 v) (N.ones k) = N.land v (N.ones k).
Proof.
  intros v k Hk. unfold u32, mask32. change 4294967295 with (N.ones 32). apply land_ones_ones. exact Hk.
Qed.

Lemma lit_look_low : forall v, lit_look static_tabs v = lit_look static_tabs (N.land v (N.ones 13)).
Proof.
  intros v. unfold lit_look. cbn [static_tabs litShort litLong].
  change 4095 with (N.ones 12). rewrite (land_ones_ones v 12 13) by lia.
  set (x := N.land v (N.ones 12)).
  assert (Hx : x < 4096).
  { unfold x. rewrite N.land_ones. apply N.mod_lt. cbn; lia. }
  pose proof (forallb_seqN _ 4096 static_lit_flags x Hx) as Hf. cbn beta in Hf.
  unfold lit_flag_check in Hf.
  destruct (N.land (aget static_lit_short x) largeFlagBit =? 0) eqn:E; [reflexivity|].
  cbn [orb] in Hf. apply N.leb_le in Hf.
  unfold ones32. replace (32 <=? N.shiftr (aget static_lit_short x) 26) with false by lia.
  rewrite !u32_land_ones by lia. rewrite land_ones_ones by lia. reflexivity.
Qed.

Definition xmatchb (v : N) (e : N * nat * N) : bool :=
  let '(_, len, val) := e in N.land v (N.ones (N.of_nat len)) =? val.

Definition fixed_xcodes := Eval vm_compute in xcodes fixed_lit_lens.
Lemma fixed_xcodes_eq : xcodes fixed_lit_lens = fixed_xcodes.
Proof. vm_compute. reflexivity. Qed.

Definition lit_entry_check_gen (xc : list (N * nat * N)) (t : tabs) (v : N) : bool :=
  (length (filter (xmatchb v) xc) <=? 1)%nat &&
  match find (xmatchb v) xc, lit_look t v with
  | Some (s, len, val), Some (k, c, l) => (k =? N.of_nat len) && (c =? 1) && (l =? s)
  | None, Some (k, c, l) => (k =? 0) && ((c =? 0) || ((c =? 1) && (512 <? N.land l 0xFFFF)))
  | _, None => false
  end.

Lemma xmatchb_iff : forall v s len val, xmatchb v (s, len, val) = true <-> xmatch v len val.
Proof. intros. unfold xmatchb, xmatch. apply N.eqb_eq. Qed.

(* generic: single-symbol tables checked on all 13-bit prefixes *)
Lemma lit_tab_ok_from_checks : forall ll t xc,
  xcodes ll = xc ->
  (forall v, lit_look t v = lit_look t (N.land v (N.ones 13))) ->
  (forall v, v < 8192 -> lit_entry_check_gen xc t v = true) ->
  (forall s len val, In (s, len, val) xc -> (len <= 13)%nat) ->
  lit_tab_ok ll t.
Proof.
  intros ll t xc Hxc Hlook Hchk Hsmall b. rewrite Hxc.
  rewrite litlen_decode_look, Hlook.
  set (v := N.land (r_bits b) (N.ones 13)).
  assert (Hv : v < 8192).
  { unfold v. rewrite N.land_ones. apply N.mod_lt. cbn; lia. }
  pose proof (Hchk v Hv) as Hc.
  unfold lit_entry_check_gen in Hc. apply andb_true_iff in Hc. destruct Hc as [Hc1 Hc2].
  apply Nat.leb_le in Hc1.
  assert (Hlow : forall s len val, In (s, len, val) xc ->
            (xmatch (r_bits b) len val <-> xmatch v len val)).
  { intros s len val Hin. unfold xmatch, v. rewrite land_ones_ones; [reflexivity|].
    specialize (Hsmall _ _ _ Hin). lia. }
  destruct (find (xmatchb v) xc) as [[[s len] val]|] eqn:Ef.
  - left. apply find_some in Ef. destruct Ef as [Hin Hm].
    destruct (lit_look t v) as [[[k c] l]|]; [|discriminate].
    apply andb_true_iff in Hc2. destruct Hc2 as [Hc2 Hl]. apply andb_true_iff in Hc2. destruct Hc2 as [Hk Hcn].
    apply N.eqb_eq in Hk. apply N.eqb_eq in Hcn. apply N.eqb_eq in Hl. subst k c l.
    exists [(s, len)]. cbn [length lits_then_any xseq pack_syms syms_bits fold_right snd].
    split; [lia|]. split; [exact I|]. split.
    + split; [|exact I]. exists val. split; [exact Hin|]. apply (Hlow s len val Hin). apply xmatchb_iff with s. exact Hm.
    + rewrite Nat.add_0_r. replace (s + 256 * 0) with s by lia. reflexivity.
  - right. split.
    + intros s len val Hin Hm. apply (Hlow s len val Hin) in Hm.
      pose proof (find_none _ _ Ef _ Hin) as Hf. apply (xmatchb_iff v s len val) in Hm. congruence.
    + destruct (lit_look t v) as [[[k c] l]|]; [|discriminate].
      apply andb_true_iff in Hc2. destruct Hc2 as [Hk Hc2]. apply N.eqb_eq in Hk. subst k.
      exists c, l. rewrite br_drop_0. split; [reflexivity|].
      apply orb_true_iff in Hc2. destruct Hc2 as [Hc2|Hc2].
      * left. apply N.eqb_eq in Hc2. exact Hc2.
      * right. apply andb_true_iff in Hc2. destruct Hc2 as [H1 H2].
        apply N.eqb_eq in H1. apply N.ltb_lt in H2. split; assumption.
Qed.

Lemma lit_entries_checked :
  forallb (lit_entry_check_gen fixed_xcodes static_tabs) (seqN 0 (N.to_nat 8192)) = true.
Proof. vm_compute. reflexivity. Qed.

Lemma fixed_xcodes_small : forallb (fun e : N * nat * N => let '(_, len, _) := e in (len <=? 13)%nat) fixed_xcodes = true.
Proof. vm_compute. reflexivity. Qed.

Theorem static_lit_tab_ok : static_lit_tab_ok_statement.
Proof.
  unfold static_lit_tab_ok_statement.
  apply (lit_tab_ok_from_checks fixed_lit_lens static_tabs fixed_xcodes fixed_xcodes_eq lit_look_low).
  - exact (forallb_seqN _ 8192 lit_entries_checked).
  - intros s len val Hin. pose proof fixed_xcodes_small as Hs. rewrite forallb_forall in Hs.
    specialize (Hs _ Hin). cbn beta iota in Hs. apply Nat.leb_le in Hs. exact Hs.
Qed.

Print Assumptions static_dist_tab_ok.
Print Assumptions static_lit_tab_ok.
