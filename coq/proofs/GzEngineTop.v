(* GzEngineTop.v -- the theorems about the gzip / zlib reader model (RModel/GzEngine.v), composed
   from the layers (statements: RModel/GzEngineSpec.v):
     GzEngineShift   dRead ignores the `consumed` counter
     GzEngineStrm    dRead keeps the bufio model a suffix of the source
     GzEngineBuf     bufio Read / ReadByte / io.ReadFull; checksums; stickiness; entry points
     GzEngineHdr     readHeader against Containers.gz_parse_header
     GzEngineInv     the decompressor on a shared, partly consumed buffer (erun_sound machinery)
     GzEngineSound   gzip reader vs Containers.gz_read
     GzEngineZl      zlib reader vs Containers.zl_read
     GzEngineCorollaries   through ContainersProofs: gz_stream, truncation
     GzEngineSound2 / GzEngineZl2   Reset of any Reader onto any buffer state, position at io.EOF
                     (statements: RModel/GzEngineSpec2.v): no over-read, member-by-member walks *)
From Coq Require Import List NArith ZArith Bool.
From Verif Require Import Bits Huffman Inflate InflateSpec.
From Verif Require Import Containers ContainersSpec.
From Verif Require Import Base Engine EngineReset EngineRefineSpecBuf GzEngine GzEngineSpec
     GzEngineSpec2.
From Verif Require Import GzEngineShift GzEngineStrm GzEngineBuf GzEngineHdr GzEngineInv
     GzEngineSound GzEngineZl GzEngineCorollaries GzEngineSound2 GzEngineZl2.
Import ListNotations.
Open Scope N_scope.

Theorem gzReadHeader_spec : gzReadHeader_spec_statement.
Proof. exact (gzReadHeader_spec_from bReadByte_spec ioReadFull_spec crc32_update_app). Qed.

Theorem gz_dRead_ok : gz_dRead_ok_statement.
Proof. exact (gz_dRead_ok_from dRead_shift). Qed.

(* (a) *)
Theorem gz_sound : gz_sound_statement.
Proof.
  exact (gz_sound_from ioReadFull_spec crc32_update_app u32_add gzReadHeader_spec
           newReader_on_inv dReset_inv gz_dRead_ok dRead_strm gz_sticky).
Qed.

Theorem gz_header_fields : gz_header_fields_statement.
Proof. exact (gz_header_fields_from gzReadHeader_spec). Qed.

Theorem gz_eof_checked_eng : gz_eof_checked_eng_statement.
Proof. exact (gz_eof_checked_eng_from gz_sound). Qed.

Theorem gz_truncated_eng : gz_truncated_eng_statement.
Proof. exact (gz_truncated_eng_from gz_sound). Qed.

Theorem gz_truncated_eng_single : gz_truncated_eng_single_statement.
Proof. exact (gz_truncated_eng_single_from gz_sound). Qed.

(* (b) *)
Theorem zl_sound : zl_sound_statement.
Proof.
  exact (zl_sound_from ioReadFull_spec adler_update_app adler_sum_ok newReader_on_inv gz_dRead_ok
           dRead_strm zl_sticky).
Qed.

(* Reset of any Reader, no over-read, member by member (GzEngineSpec2.v) *)
Theorem gz_sound_gen : gz_sound_gen_statement.
Proof.
  exact (gz_sound_gen_from ioReadFull_spec crc32_update_app u32_add gzReadHeader_spec
           newReader_on_inv dReset_inv gz_dRead_ok dRead_strm gz_sticky).
Qed.

Theorem gz_consumed : gz_consumed_statement.
Proof. exact (gz_consumed_from gz_sound_gen). Qed.

Theorem gz_walk : gz_walk_statement.
Proof. exact (gz_walk_from gz_sound_gen). Qed.

Theorem zl_sound_gen : zl_sound_gen_statement.
Proof.
  exact (zl_sound_gen_from ioReadFull_spec adler_update_app adler_sum_ok newReader_on_inv dReset_inv
           gz_dRead_ok dRead_strm zl_sticky).
Qed.

Theorem zl_consumed : zl_consumed_statement.
Proof. exact (zl_consumed_from zl_sound_gen). Qed.

(* (c): gz_sticky, zl_sticky are in GzEngineBuf.v; the entry points of the extracted driver compute
   gzrun / zlrun: gzrun_obs_eq, zlrun_obs_eq (GzEngineBuf.v) *)

Print Assumptions gz_sound.
Print Assumptions gz_header_fields.
Print Assumptions gz_eof_checked_eng.
Print Assumptions gz_truncated_eng.
Print Assumptions gz_truncated_eng_single.
Print Assumptions zl_sound.
Print Assumptions gz_sound_gen.
Print Assumptions gz_consumed.
Print Assumptions gz_walk.
Print Assumptions zl_sound_gen.
Print Assumptions zl_consumed.
Print Assumptions gz_sticky.
Print Assumptions zl_sticky.
Print Assumptions gzrun_obs_eq.
Print Assumptions zlrun_obs_eq.
