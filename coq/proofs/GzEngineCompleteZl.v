(* GzEngineCompleteZl.v -- GzEngineSpec4.v, zlib part: completeness of the zlib reader model (no
   dictionary, FDICT clear) from the engine layer (hypotheses, as stated in GzEngineSpec4.v):
     zl_complete_from : ioReadFull_spec -> adler_update_app -> adler_sum -> newReader_on_inv3 ->
                        gz_dRead_ok3 -> dRead_strm -> zl_sticky -> zl_complete_statement
   The soundness proof (GzEngineZl.v) run forwards: zl_read ends in CEOF, so NewReader succeeds,
   every positive-size Read hands out at least one byte without error, or returns io.EOF, or a
   fatal result (excluded by the safety hypothesis); the payload is finite. *)
From Coq Require Import List NArith ZArith Bool Lia.
From Verif Require Import Bits Huffman Inflate InflateSpec.
From Verif Require Import Containers ContainersSpec.
From Verif Require Import Base Engine EngineReset EngineRefineSpecBuf EngineRefineSpecReach
     EngineCompleteSpecB EngineCompleteSpecC EngineCompleteSpecG EngineCompleteTop3 EngineCompleteRun3
     GzEngine GzEngineSpec GzEngineSpec3.
From Verif Require Import GzEngineSpec4 EngineRefineBuf EngineCompleteFinal GzEngineZl.
Import ListNotations.
Open Scope N_scope.

(* see GzEngineZl.v: ioReadFull / dRead (loops on big_fuel) are unfolded last by the kernel.
   The setting is local to this file. *)
Local Strategy opaque [ioReadFull dRead big_fuel].

(* ---------------------------------------------------------------- what CEOF means *)
Lemma zl_read_ceof_inv : forall data,
  g_err (zl_read None data) = CEOF ->
  (length data <? 2)%nat = false /\
  negb ((nth 0 data 0 mod 16 =? 8) && (nth 0 data 0 / 16 <=? 7) &&
        ((nth 0 data 0 * 256 + nth 1 data 0) mod 31 =? 0)) = false.
Proof.
  intros data H. unfold zl_read in H. cbv zeta in H. unfold byte in *.
  destruct (length data <? 2)%nat; [cbn [g_err] in H; discriminate H|].
  split; [reflexivity|].
  match type of H with context [if negb ?c then _ else _] => destruct (negb c) end;
    [cbn [g_err] in H; discriminate H|reflexivity].
Qed.

Lemma zl_tail_ceof_inv : forall l,
  g_err (zl_tail l) = CEOF ->
  status (Inflate.inflate [] l) = Done /\
  (4 <= length (skipn (N.to_nat ((bitpos (Inflate.inflate [] l) + 7) / 8)) l))%nat /\
  of_be (firstn 4 (skipn (N.to_nat ((bitpos (Inflate.inflate [] l) + 7) / 8)) l)) =
  adler32 (out (Inflate.inflate [] l)).
Proof.
  intros l H. unfold zl_tail in H. cbv zeta in H. unfold byte in *.
  match type of H with context [status ?x] => destruct (status x) end;
    try (cbn [g_err] in H; discriminate H).
  split; [reflexivity|].
  match type of H with context [(?a <? 4)%nat] => destruct (Nat.ltb_spec a 4) as [Hlt|Hge] end;
    [cbn [g_err] in H; discriminate H|].
  split; [exact Hge|].
  match type of H with context [if ?a =? ?b then _ else _] => destruct (N.eqb_spec a b) as [E|_] end;
    [exact E|cbn [g_err] in H; discriminate H].
Qed.

(* ---------------------------------------------------------------- the invariant between Reads *)
Definition ZC (data : list N) (t : terminal) (z : zlreader) (T : list N) : Prop :=
  exists d, strm_inv data (zl_r z) /\ zl_dec z = ZFast d /\
            gz_eng_inv3 2 (skipn 2 data) t T (set_rBuf d (zl_r z)) /\
            zl_digest z = adler_update adler0 T.

(* ---------------------------------------------------------------- NewReader succeeds *)
Lemma zlNew_ok3 :
  ioReadFull_spec_statement -> newReader_on_inv3_statement ->
  forall data cs bufsize t z e,
    concat cs = data -> Forall (fun c => c <> []) cs ->
    N.testbit (nth 1 data 0) 5 = false ->
    (length data <? 2)%nat = false ->
    negb ((nth 0 data 0 mod 16 =? 8) && (nth 0 data 0 / 16 <=? 7) &&
          ((nth 0 data 0 * 256 + nth 1 data 0) mod 31 =? 0)) = false ->
    zlNewReaderDict (mkbufrd bufsize cs t) [] = (z, e) ->
    e = GR ROk /\ ZC data t z [] /\ zl_err z = GR ROk.
Proof.
  intros HRF HNI data cs bufsize t z e Hcs Hne Hbit Hlen2 Hhdr HN.
  destruct (newbuf_ok bufsize cs t Hne) as (B1 & B2 & B3).
  change (mkBuf (N.max bufsize 16) [] 0 None cs t 0) with (mkbufrd bufsize cs t) in *.
  set (b := mkbufrd bufsize cs t) in *.
  assert (Ht : term b = t) by reflexivity. clearbody b.
  apply Nat.ltb_ge in Hlen2.
  unfold zlNewReaderDict, zlReset, zlZero in HN. cbn [zl_r zl_dec] in HN.
  pose proof (HRF b 2 B1 ltac:(lia)) as HR.
  destruct (ioReadFull b 2) as [[buf r] b'].
  destruct HR as (R1 & R2 & R3 & R4 & R5 & R6 & R7 & R8 & _).
  assert (Hr : r = ROk).
  { destruct r; try reflexivity; exfalso;
      destruct (R8 ltac:(discriminate)) as (G1 & G2);
      rewrite <- Hcs, <- B2, R2, G2, app_nil_r in Hlen2; unfold lenN in G1; lia. }
  subst r. cbv beta iota zeta in HN.
  specialize (R7 eq_refl). unfold lenN in R7.
  destruct buf as [|s0 [|s1 [|s2 buf]]]; cbn [length] in R7; try lia.
  assert (Hdata : data = s0 :: s1 :: bstream b').
  { rewrite <- Hcs, <- B2. exact R2. }
  change (nthN [s0; s1] 0) with s0 in HN. change (nthN [s0; s1] 1) with s1 in HN.
  rewrite Hdata in Hhdr, Hbit. cbn [nth] in Hhdr, Hbit.
  rewrite zl_hdr_test, Hhdr in HN.
  rewrite (land32_testbit s1 Hbit) in HN.
  cbn [N.eqb negb gnil zl_set_r zl_r zl_dec zl_digest zl_err] in HN.
  injection HN as <- <-.
  split; [reflexivity|]. split; [|reflexivity].
  exists (newReader_on b'). cbn [zl_r zl_dec zl_digest].
  assert (Hc : consumed b' = 2).
  { rewrite R3, B3. unfold lenN. cbn [length]. reflexivity. }
  split.
  { split; [exact R1|]. exists [s0; s1]. split; [exact Hdata|]. rewrite Hc. reflexivity. }
  split; [reflexivity|].
  split; [|reflexivity].
  replace (set_rBuf (newReader_on b') b') with (newReader_on b') by reflexivity.
  pose proof (HNI b' R1) as HI. rewrite Hc, R5, Ht in HI.
  rewrite Hdata. cbn [skipn]. exact HI.
Qed.

(* ================================================================ Reads of an accepted stream *)
Section Complete.
Variables (data : list N) (t : terminal).
Hypothesis HRF : ioReadFull_spec_statement.
Hypothesis HAA : adler_update_app_statement.
Hypothesis HAS : adler_sum_statement.
Hypothesis HDR : gz_dRead_ok3_statement.
Hypothesis HST : dRead_strm_statement.
Hypothesis Hl : GzEngineSpec.bytes_ok (skipn 2 data).
Hypothesis Hdone : status (Inflate.inflate [] (skipn 2 data)) = Done.
Hypothesis Hstrict : strict (skipn 2 data).
Hypothesis Hlen4 :
  (4 <= length (skipn (N.to_nat ((bitpos (Inflate.inflate [] (skipn 2 data)) + 7) / 8))
                      (skipn 2 data)))%nat.
Hypothesis Hsum :
  of_be (firstn 4 (skipn (N.to_nat ((bitpos (Inflate.inflate [] (skipn 2 data)) + 7) / 8))
                         (skipn 2 data))) =
  adler32 (out (Inflate.inflate [] (skipn 2 data))).

Lemma zlRead_ok3 : forall z T p,
  ZC data t z T -> zl_err z = GR ROk -> 0 < p ->
  let '(z', bytes, e) := zlRead z p in
  is_prefix (T ++ bytes) (out (Inflate.inflate [] (skipn 2 data))) /\
  ((e = GR ROk /\ bytes <> [] /\ ZC data t z' (T ++ bytes) /\ zl_err z' = GR ROk) \/
   e = GR REOF \/ e = GR RPanic \/ e = GR RStuck).
Proof.
  intros z T p (d & Hstrm & Hdec & Hinv & Hdig) Herr Hp.
  unfold zlRead. rewrite Herr. cbn [gnil negb]. unfold zl_decRead. rewrite Hdec.
  pose proof (HDR 2 (skipn 2 data) t T (set_rBuf d (zl_r z)) p Hl Hinv) as HR.
  assert (Hstrm0 : strm_inv data (rBuf (set_rBuf d (zl_r z)))) by exact Hstrm.
  pose proof (HST data (set_rBuf d (zl_r z)) p Hstrm0) as HS.
  destruct (dRead (set_rBuf d (zl_r z)) p) as [[d' bytes] r].
  destruct HR as (R1 & R2 & R3 & R4 & R5). destruct HS as (S1 & _ & _).
  cbv beta iota zeta. cbn [zl_r zl_dec zl_digest zl_err].
  assert (HZC : ZC data t (mkZL (rBuf d') (ZFast d') (adler_update (zl_digest z) bytes) (GR r))
                   (T ++ bytes)).
  { exists d'. cbn [zl_r zl_dec zl_digest]. split; [exact S1|]. split; [reflexivity|].
    split; [rewrite set_rBuf_same; exact R1|]. rewrite Hdig. apply HAA. }
  destruct (gisEOF (GR r)) eqn:Eeof; cbn [negb].
  2:{ split; [exact R2|].
      assert (Hd : r = ROk \/ r <> ROk)
        by (destruct r; try (left; reflexivity); right; discriminate).
      destruct Hd as [Hr|Hn].
      - subst r. left. split; [reflexivity|]. split; [exact (R4 eq_refl Hp)|].
        split; [exact HZC|reflexivity].
      - right. destruct (R5 Hn) as [H|[H|[H|[(H & HN)|((o & H) & HSt)]]]].
        + left. rewrite H. reflexivity.
        + right; left. rewrite H. reflexivity.
        + right; right. rewrite H. reflexivity.
        + rewrite Hdone in HN. discriminate HN.
        + elim (HSt Hstrict Hdone). }
  assert (Hr : r = REOF) by (destruct r; try discriminate Eeof; reflexivity). subst r.
  destruct (R3 eq_refl) as (E1 & E2 & E3).
  pose proof (strm_at data (rBuf d') _ S1 E3) as Hrest.
  assert (Hlen4' : (4 <= length (bstream (rBuf d')))%nat) by (rewrite Hrest; exact Hlen4).
  pose proof (HRF (rBuf d') 4 (proj1 S1) ltac:(lia)) as HF.
  destruct (ioReadFull (rBuf d') 4) as [[buf r2] b3].
  destruct HF as (F1 & F2 & F3 & F4 & F5 & F6 & F7 & F8 & _).
  assert (Hr2 : r2 = ROk).
  { destruct r2; try reflexivity; exfalso;
      destruct (F8 ltac:(discriminate)) as (G1 & G2);
      rewrite F2, G2, app_nil_r in Hlen4'; unfold lenN in G1; lia. }
  subst r2. cbv beta iota zeta. cbn [zl_set_r zl_digest zl_r zl_dec zl_err].
  specialize (F7 eq_refl). unfold lenN in F7.
  assert (Hbuf : firstn 4 (bstream (rBuf d')) = buf).
  { rewrite F2. replace 4%nat with (length buf) by lia. apply firstn_len_app. }
  assert (Hck : of_be buf = adler_sum (adler_update (zl_digest z) bytes)).
  { rewrite Hdig, HAA, HAS, E2, <- Hbuf, Hrest. unfold byte in *. exact Hsum. }
  rewrite Hck, N.eqb_refl. cbn [negb]. cbv beta iota.
  split; [exact R2|]. right; left. reflexivity.
Qed.

Lemma is_prefix_len : forall (a b : list N), is_prefix a b -> (length a <= length b)%nat.
Proof. intros a b (u & ->). rewrite app_length. lia. Qed.

Lemma zl_reads_ok3 : forall reads z T,
  ZC data t z T -> zl_err z = GR ROk ->
  is_prefix T (out (Inflate.inflate [] (skipn 2 data))) ->
  Forall (fun p => 0 < p) reads ->
  (length (out (Inflate.inflate [] (skipn 2 data))) < length T + length reads)%nat ->
  Forall (fun br : list N * gres => gres_safe (snd br)) (fst (zl_reads_g z reads [])) ->
  In (GR REOF) (map snd (fst (zl_reads_g z reads []))).
Proof.
  induction reads as [|p rest IH]; intros z T HZ Herr Hpre Hpos Hcnt Hsafe.
  - exfalso. apply is_prefix_len in Hpre. cbn [length] in Hcnt. unfold byte in *. lia.
  - cbn [zl_reads_g] in *.
    inversion Hpos as [|p0 rest0 Hp Hpos']; subst p0 rest0.
    pose proof (zlRead_ok3 z T p HZ Herr Hp) as HR.
    destruct (zlRead z p) as [[z' bytes] e].
    rewrite zl_reads_acc in Hsafe. rewrite zl_reads_acc.
    cbn [rev app map snd In] in *.
    inversion Hsafe as [|x L Hse Hsafe']; subst x L. cbn [snd] in Hse.
    destruct HR as (P1 & [(He & Hb & Q1 & Q2)|[He|[He|He]]]).
    + right. apply (IH z' (T ++ bytes) Q1 Q2 P1 Hpos'); [|exact Hsafe'].
      rewrite app_length. cbn [length] in Hcnt.
      assert (length bytes <> 0)%nat by (destruct bytes; [elim Hb; reflexivity|discriminate]).
      lia.
    + left. exact He.
    + destruct Hse as (Hs & _). elim (Hs He).
    + destruct Hse as (_ & Hs). elim (Hs He).
Qed.
End Complete.

(* ================================================================ the theorem *)
Theorem zl_complete_from :
  ioReadFull_spec_statement -> adler_update_app_statement -> adler_sum_statement ->
  newReader_on_inv3_statement -> gz_dRead_ok3_statement -> dRead_strm_statement ->
  zl_sticky_statement -> zl_complete_statement.
Proof.
  intros HRF HAA HAS HNI HDR HST _ data cs bufsize t reads Hbytes Hcs Hne Hbit R Hceof Hstd Hpos Hcnt.
  destruct (zlrun bufsize cs t [] reads) as [e0 l] eqn:ERun. intros Hsafe.
  unfold zlrun in ERun.
  destruct (zlNewReaderDict (mkbufrd bufsize cs t) []) as [z e] eqn:EN.
  subst R.
  destruct (zl_read_ceof_inv data Hceof) as (Hlen2 & Hhdr).
  destruct (zlNew_ok3 HRF HNI data cs bufsize t z e Hcs Hne Hbit Hlen2 Hhdr EN) as (He & HZ & Herr).
  subst e. cbn [gnil negb] in ERun. injection ERun as <- <-.
  split; [reflexivity|].
  rewrite (zl_read_tail data Hlen2 Hhdr Hbit) in Hceof, Hcnt.
  rewrite zl_tail_payload in Hcnt.
  destruct (zl_tail_ceof_inv _ Hceof) as (Hdone & Hlen4 & Hsum).
  apply (zl_reads_ok3 data t HRF HAA HAS HDR HST (bytes_ok_skipn 2 data Hbytes) Hdone
           (strict_std_final _ Hdone Hstd) Hlen4 Hsum reads z [] HZ Herr).
  - exists (out (Inflate.inflate [] (skipn 2 data))). reflexivity.
  - exact Hpos.
  - unfold byte in *. cbn [length Nat.add]. exact Hcnt.
  - exact Hsafe.
Qed.

Print Assumptions zl_complete_from.
