(* EngineResetHdr5.v -- Reset-equivalence proof, dynamic header, part 5: setupDynamicHeader on two
   states with the same live part (different stale tables and scratch arrays) returns the same
   error, states with the same live part and, on success, tables with equal lookups. *)
From Coq Require Import List NArith ZArith Bool Lia ZifyBool ZifyNat ZifyN.
From Verif Require Import Base Engine EngineTables EngineSafetyBase EngineSafetyBits EngineSafetyInv.
From Verif Require Import EngineResetDefs EngineResetHdr1 EngineResetHdr3 EngineResetHdr4.
From Verif Require Import EngineResetLitLenSim EngineResetSmallSim EngineResetDepSmall EngineResetHdr2.
From Verif Require Import EngineResetHdr6.
Import ListNotations.
Open Scope N_scope.

(* ---------------------------------------------------------------- array copies (as in the safety proof) *)
Lemma copy_from_spec : forall src off n t0 j,
  aget (forN 0 n (fun i t => aset t i (aget src (off + i))) t0) j =
  if j <? n then aget src (off + j) else aget t0 j.
Proof.
  intros src off n t0.
  apply (forN_ind arr (fun k t => forall j, aget t j = if j <? k then aget src (off + j) else aget t0 j)).
  - lia.
  - intros j. destruct (j <? 0) eqn:E; [lia|reflexivity].
  - intros k x Hk IH j. rewrite aget_aset. destruct (N.eqb_spec j k) as [->|Hne].
    + replace (k <? k + 1) with true by lia. reflexivity.
    + rewrite IH. destruct (j <? k) eqn:E1; destruct (j <? k + 1) eqn:E2; try lia; reflexivity.
Qed.

Lemma copy_to_spec : forall src off n t0 j,
  aget (forN 0 n (fun i t => aset t (off + i) (aget src i)) t0) j =
  if (off <=? j) && (j <? off + n) then aget src (j - off) else aget t0 j.
Proof.
  intros src off n t0.
  apply (forN_ind arr (fun k t => forall j, aget t j =
           if (off <=? j) && (j <? off + k) then aget src (j - off) else aget t0 j)).
  - lia.
  - intros j. destruct ((off <=? j) && (j <? off + 0)) eqn:E; [lia|reflexivity].
  - intros k x Hk IH j. rewrite aget_aset. destruct (N.eqb_spec j (off + k)) as [->|Hne].
    + replace ((off <=? off + k) && (off + k <? off + (k + 1))) with true by lia.
      f_equal. lia.
    + rewrite IH. destruct ((off <=? j) && (j <? off + k)) eqn:E1;
        destruct ((off <=? j) && (j <? off + (k + 1))) eqn:E2; try lia; reflexivity.
Qed.

Lemma count_len_ext2 : forall a ba b bb n l,
  (forall k, (k < n)%nat -> hc_len (aget a (ba + N.of_nat k)) = hc_len (aget b (bb + N.of_nat k))) ->
  count_len a ba n l = count_len b bb n l.
Proof.
  intros a ba b bb n l. induction n as [|k IH]; intros H; cbn [count_len]; [reflexivity|].
  rewrite IH by (intros j Hj; apply H; lia). rewrite (H k) by lia. reflexivity.
Qed.

Lemma ex_dec_ext : forall a b n L,
  (forall i, hc_len (aget a i) = hc_len (aget b i)) -> ex_dec a n L = ex_dec b n L.
Proof.
  intros a b n L H. induction n as [|k IH]; cbn [ex_dec]; [reflexivity|].
  rewrite IH, H. reflexivity.
Qed.

Lemma ex_inc_ext : forall a b n L,
  (forall i, hc_len (aget a i) = hc_len (aget b i)) -> ex_inc a n L = ex_inc b n L.
Proof.
  intros a b n L H. induction n as [|k IH]; cbn [ex_inc]; [reflexivity|].
  rewrite IH, H. reflexivity.
Qed.

Lemma rl_post_lit_ext : forall h h' lc ex,
  rl_post_lit h lc ex -> huff_ok h' ->
  (forall i, hc_len (aget h' i) = hc_len (aget h i)) ->
  rl_post_lit h' lc ex.
Proof.
  intros h h' lc ex (H1 & H2 & H3 & H4) Hok Hlen.
  split; [exact Hok|]. split; [|split; [exact H3|]].
  - intros l Hl. rewrite (H2 l Hl). apply count_len_ext2. intros k _. symmetry. apply Hlen.
  - intros L HL. rewrite (ex_dec_ext h' h), (ex_inc_ext h' h) by exact Hlen. apply H4, HL.
Qed.

(* readLitDistLens with its fuel as a parameter: never let the kernel see rl_loop applied to the
   closed numeral small_fuel in a position where it may be reduced (Qed would not terminate) *)
Definition readLitDistLens_F (fuel : nat) (s : inflate) (hdist hlit : N) : inflate * ierr :=
  let d := dyn s in
  let endv := Z.of_N (litLen + hdist + 1) in
  let split := Z.of_N (litTableSize + hlit) in
  let st0 := mkRL (rd s) (litAndDistHuff d) (litCount d) (distCount d) (litExpandCount d)
                  0%Z (-1)%Z false in
  let '(st, err) := rl_loop fuel (clcShort d) (clcLong d) split endv st0 in
  (set_rd (set_dyn s (set_dyn_counts d (rl_h st) (rl_lc st) (rl_dc st) (rl_ex st))) (rl_b st), err).

Lemma readLitDistLens_eq : forall s hdist hlit,
  readLitDistLens s hdist hlit = readLitDistLens_F small_fuel s hdist hlit.
Proof. intros s hdist hlit. unfold readLitDistLens, readLitDistLens_F. reflexivity. Qed.

Lemma readLitDistLens_F_eq : forall fuel s hdist hlit,
  readLitDistLens_F fuel s hdist hlit =
  let '(st, err) := rl_loop fuel (clcShort (dyn s)) (clcLong (dyn s)) (Z.of_N (litTableSize + hlit))
                      (Z.of_N (litLen + hdist + 1))
                      (mkRL (rd s) (litAndDistHuff (dyn s)) (litCount (dyn s)) (distCount (dyn s))
                            (litExpandCount (dyn s)) 0%Z (-1)%Z false) in
  (set_rd (set_dyn s (set_dyn_counts (dyn s) (rl_h st) (rl_lc st) (rl_dc st) (rl_ex st))) (rl_b st), err).
Proof. intros. unfold readLitDistLens_F. reflexivity. Qed.

(* ---------------------------------------------------------------- tactics *)
Ltac sproj5 :=
  cbn [rd inputNil ov tb phase bfinal litBlockLength headerBuffered headerBuffer dyn roffset
       set_rd set_inputNil set_ov set_tb set_phase set_bfinal set_litBlockLength set_header
       set_dyn set_roffset set_dyn_huff set_dyn_counts with_clc
       litAndDistHuff clcShort clcLong codeList litCount distCount litExpandCount nextCode lenHuffCodes
       litShort litLong distShort distLong
       rl_b rl_h rl_lc rl_dc rl_ex] in *.

(* an error exit: both runs stop with the same error in states with the same live part *)
Ltac fin5 H1 H2 :=
  pinj H1; pinj H2; sproj5;
  split; [reflexivity|]; split; [reflexivity|]; split; [reflexivity|];
  split; [let Hc := fresh "Hc" in intros Hc; discriminate Hc|intros _; reflexivity].

Theorem setupDynamicHeader_sim : setupDynamicHeader_sim_statement.
Proof.
  intros s1 s2 s1' e1 s2' e2 Hc H1 H2.
  split_state s1 s2 Hc t1 d1.
  destruct s2 as [r i o t2 p bf lbl hbd hb d2 ro].
  unfold setupDynamicHeader, loadBits in H1, H2. sproj5.
  destruct (load_lt57 r) as [b1|]; [|fin5 H1 H2].
  sproj5.
  destruct (r_len b1 <? 14)%Z; [fin5 H1 H2|].
  unfold next_bits in H1, H2. sproj5.
  set (hlit := N.land (r_bits b1) (N.ones 5)) in *.
  set (b2 := br_drop b1 5) in *.
  set (hdist := N.land (r_bits b2) (N.ones 5)) in *.
  set (b3 := br_drop b2 5) in *.
  set (hclen := N.land (r_bits b3) (N.ones 4)) in *.
  set (b4 := br_drop b3 4) in *.
  destruct ((29 <? hlit) || (29 <? hdist) || (15 <? hclen)) eqn:Echk; [fin5 H1 H2|].
  assert (Hhlit : hlit <= 29) by lia. assert (Hhdist : hdist <= 29) by lia.
  assert (Hhclen : hclen <= 15) by lia.
  match type of H1 with context [codeLenCodes ?S1 hclen] =>
    match type of H2 with context [codeLenCodes ?S2 hclen] =>
      destruct (codeLenCodes_sim S1 S2 hclen eq_refl Hhclen)
        as (b' & e & d1' & d2' & C1 & C2 & C3)
    end end.
  rewrite C1 in H1. rewrite C2 in H2. clear C1 C2.
  destruct e; try (fin5 H1 H2).
  destruct (C3 eq_refl) as (sh1 & lg1 & sh2 & lg2 & -> & -> & Hclc). clear C3.
  rewrite readLitDistLens_eq in H1, H2.
  set (fuel := small_fuel) in H1, H2. clearbody fuel.
  rewrite readLitDistLens_F_eq in H1, H2.
  sproj5.
  destruct (rl_loop fuel sh1 lg1 (Z.of_N (litTableSize + hlit)) (Z.of_N (litLen + hdist + 1))
              (mkRL b' aempty aempty aempty aempty 0%Z (-1)%Z false)) as [st1 err1] eqn:Erl1.
  destruct (rl_loop fuel sh2 lg2 (Z.of_N (litTableSize + hlit)) (Z.of_N (litLen + hdist + 1))
              (mkRL b' aempty aempty aempty aempty 0%Z (-1)%Z false)) as [st err] eqn:Erl.
  pose proof (rl_loop_clc fuel sh1 lg1 sh2 lg2 (Z.of_N (litTableSize + hlit))
                (Z.of_N (litLen + hdist + 1))
                (mkRL b' aempty aempty aempty aempty 0%Z (-1)%Z false) Hclc) as Erw.
  rewrite Erl1, Erl in Erw. apply pair_equal_spec in Erw. destruct Erw as [-> ->]. clear Erl1.
  destruct err; try (fin5 H1 H2).
  pose proof (rl_loop_post _ _ _ hdist hlit _ _ _ Hhdist Hhlit Erl) as [RPlit RPdist].
  sproj5.
  destruct (r_len (rl_b st) <? 0)%Z; [fin5 H1 H2|].
  destruct RPdist as (RD1 & RD2 & RD3).
  destruct (setCodes (rl_h st) litLen distLen (rl_dc st)) as [huff bad] eqn:ESC.
  destruct (setCodes_spec _ _ _ _ _ _ ESC RD1) as (SC1 & SC2).
  destruct bad; [fin5 H1 H2|].
  sproj5.
  set (codes := forN 0 distLen (fun (i : N) (t : arr) => aset t i (aget huff (litLen + i))) aempty) in *.
  assert (Hcodes : forall j, aget codes j = if j <? distLen then aget huff (litLen + j) else 0).
  { intros j. unfold codes. rewrite copy_from_spec. rewrite aget_empty. reflexivity. }
  assert (Hpre : small_pre codes (rl_dc st) 30).
  { unfold small_pre. split; [|split; [|split]].
    - intros j. rewrite Hcodes. destruct (j <? distLen); [apply SC1|]. unfold hc_len. cbn. lia.
    - intros j. rewrite Hcodes. destruct (j <? distLen); [apply SC1|lia].
    - intros l Hl. rewrite (RD2 l Hl). change (N.to_nat 30) with 30%nat.
      apply count_len_ext2. intros k Hk. rewrite Hcodes.
      replace (0 + N.of_nat k <? distLen) with true by (unfold distLen; lia).
      rewrite SC2. replace (litLen + (0 + N.of_nat k)) with (286 + N.of_nat k) by (unfold litLen; lia). reflexivity.
    - exact RD3. }
  destruct (gen_small false (distShort t1) (distLong t1) codes distLen (rl_dc st) distLen)
    as [[[dsh1 dlg1] codes1] g1] eqn:G1.
  destruct (gen_small false (distShort t2) (distLong t2) codes distLen (rl_dc st) distLen)
    as [[[dsh2 dlg2] codes2] g2] eqn:G2.
  destruct (gen_small_sim _ _ _ _ _ _ _ _ _ _ _ _ _ _ _ _ _ Hpre ltac:(lia) G1 G2) as (Hcc & Hg & Hrel).
  subst codes2 g2.
  pose proof (gen_small_codes_ok _ _ _ _ _ _ _ _ _ _ _ G1 (proj1 (proj2 Hpre))) as GS3.
  destruct (negb (ierr_eqb g1 ENone)) eqn:Eg.
  { pinj H1. pinj H2. sproj5.
    split; [reflexivity|]. split; [reflexivity|]. split; [reflexivity|].
    split; [intros Hc; rewrite Hc in Eg; discriminate Eg|intros _; reflexivity]. }
  assert (g1 = ENone) by (destruct g1; try discriminate Eg; reflexivity). subst g1.
  specialize (Hrel eq_refl).
  set (huff2 := forN 0 distLen (fun (i : N) (t : arr) => aset t (litLen + i) (aget codes1 i)) huff) in *.
  assert (Hh2 : forall j, aget huff2 j < 4294967296 /\ hc_len (aget huff2 j) = hc_len (aget (rl_h st) j)).
  { intros j. unfold huff2. rewrite copy_to_spec.
    destruct ((litLen <=? j) && (j <? litLen + distLen)) eqn:Ej.
    - destruct (GS3 (j - litLen)) as (G1' & G2'). split; [exact G1'|]. rewrite G2', Hcodes.
      replace (j - litLen <? distLen) with true by lia.
      replace (litLen + (j - litLen)) with j by lia. apply SC2.
    - split; [apply SC1|apply SC2]. }
  match type of H1 with context [setAndExpandLitLenHuffCode ?X1] =>
    match type of H2 with context [setAndExpandLitLenHuffCode ?X2] =>
      set (D1 := X1) in *; set (D2 := X2) in *
    end end.
  assert (RP5 : rl_post_lit (litAndDistHuff D1) (litCount D1) (litExpandCount D1)).
  { unfold D1; sproj5. apply (rl_post_lit_ext (rl_h st)); [exact RPlit| |].
    - intros j. destruct (Hh2 j) as (A & B). split; [exact A|]. rewrite B. apply RD1.
    - intros j. apply Hh2. }
  destruct (setAndExpandLitLenHuffCode D1) as [d6a e6a] eqn:SE1.
  destruct (setAndExpandLitLenHuffCode D2) as [d6b e6b] eqn:SE2.
  destruct (setAndExpand_sim D1 D2 d6a e6a d6b e6b eq_refl eq_refl eq_refl RP5 SE1 SE2) as (He6 & Hd6).
  subst e6b.
  destruct e6a; try (fin5 H1 H2).
  destruct (Hd6 eq_refl) as (Hd6h & Hd6lc & Hsorted & Hagree). clear Hd6.
  sproj5.
  match type of H1 with context [genForLitLen ?a ?b d6a ?m] =>
    destruct (genForLitLen a b d6a m) as [[[lsh1 llg1] d7a] e7a] eqn:GL1 end.
  match type of H2 with context [genForLitLen ?a ?b d6b ?m] =>
    destruct (genForLitLen a b d6b m) as [[[lsh2 llg2] d7b] e7b] eqn:GL2 end.
  destruct (genForLitLen_sim _ _ _ _ _ _ _ _ _ _ _ _ _ _ _ Hd6h Hd6lc Hagree Hsorted GL1 GL2)
    as (He7 & Hlarge).
  subst e7b.
  destruct e7a; try (fin5 H1 H2).
  pinj H1. pinj H2. sproj5.
  split; [reflexivity|]. split; [reflexivity|]. split; [reflexivity|].
  split.
  - intros _. split; [reflexivity|]. split.
    + apply large_rel_lit, Hlarge. reflexivity.
    + apply small_rel_dist, Hrel.
  - intros Hc. exfalso. apply Hc. reflexivity.
Qed.
