(* EngineRefineSmallCodes.v -- setCodes computes the canonical code of Spec/Huffman.v, stored
   bit-reversed; the abstract view of the resulting code array used by the table proofs. *)
From Coq Require Import List NArith ZArith Bool Lia ZifyBool ZifyNat ZifyN.
From Verif Require Import Bits Huffman Inflate HuffmanProofs.
From Verif Require Import Base EngineTables Engine EngineRefineSpec EngineRefineSmallBase.
Import ListNotations.
Open Scope N_scope.

(* ---------------------------------------------------------------- bit lists *)
Lemma N_of_bits_allfalse : forall l, (forall b, In b l -> b = false) -> N_of_bits l = 0.
Proof.
  induction l as [|b r IH]; intros H.
  - reflexivity.
  - cbn [N_of_bits]. rewrite IH by (intros b' Hb'; apply H; right; exact Hb').
    rewrite (H b) by (left; reflexivity). reflexivity.
Qed.

Lemma bits_of_N_0 : forall m b, In b (bits_of_N m 0) -> b = false.
Proof.
  induction m as [|m IH]; intros b H.
  - destruct H.
  - cbn [bits_of_N] in H. destruct H as [H|H].
    + rewrite <- H. reflexivity.
    + change (N.div2 0) with 0 in H. apply IH. exact H.
Qed.

Lemma div2_lt_pow2 : forall v (n : nat), v < 2 ^ N.of_nat (S n) -> N.div2 v < 2 ^ N.of_nat n.
Proof.
  intros v n H. rewrite pow2_S in H. rewrite N.div2_div.
  apply N.div_lt_upper_bound; lia.
Qed.

Lemma bits_of_N_small_app : forall n m v, v < 2 ^ N.of_nat n ->
  bits_of_N (n + m) v = bits_of_N n v ++ bits_of_N m 0.
Proof.
  induction n as [|n IH]; intros m v Hv.
  - change (2 ^ N.of_nat 0) with 1 in Hv. assert (v = 0) by lia. subst v. reflexivity.
  - cbn [Nat.add bits_of_N app]. f_equal. apply IH. apply div2_lt_pow2. exact Hv.
Qed.

Lemma land1_odd : forall x, N.land x 1 = if N.odd x then 1 else 0.
Proof.
  intros x. change 1 with (N.ones 1) at 1. rewrite N.land_ones. change (2 ^ 1) with 2.
  rewrite <- N.bit0_mod, N.bit0_odd. destruct (N.odd x); reflexivity.
Qed.

Lemma rev_bits_spec : forall n x acc,
  rev_bits n x acc = acc * 2 ^ N.of_nat n + N_of_bits (rev (bits_of_N n x)).
Proof.
  induction n as [|n IH]; intros x acc.
  - cbn [rev_bits bits_of_N rev N_of_bits]. change (2 ^ N.of_nat 0) with 1. lia.
  - cbn [rev_bits bits_of_N rev]. rewrite IH.
    rewrite <- N.div2_spec.
    rewrite N_of_bits_app, rev_length, bits_of_N_length.
    cbn [N_of_bits]. rewrite land1_odd, pow2_S.
    destruct (N.odd x); lia.
Qed.

Lemma rcode_rev : forall len c, rcode len c = N_of_bits (rev (bits_of_N len c)).
Proof. intros. unfold rcode. rewrite code_bits_rev. reflexivity. Qed.

Lemma rcode_lt : forall len c, rcode len c < 2 ^ N.of_nat len.
Proof.
  intros len c. unfold rcode. pose proof (N_of_bits_lt (code_bits len c)) as H.
  rewrite code_bits_length in H. exact H.
Qed.

Lemma rcode_0 : forall c, rcode 0 c = 0.
Proof. reflexivity. Qed.

Lemma bitReverse2_rcode : forall (len : nat) code,
  (len <= 15)%nat -> code < 2 ^ N.of_nat len ->
  bitReverse2 code (N.of_nat len) = rcode len code.
Proof.
  intros len code Hl Hc. unfold bitReverse2.
  assert (Hc16 : code < 65536).
  { apply N.lt_le_trans with (2 ^ N.of_nat len); [exact Hc|].
    change 65536 with (2 ^ 16). apply pow2_le_mono. lia. }
  rewrite (u16_small code) by exact Hc16.
  rewrite (u8_small (N.of_nat len)) by lia.
  assert (Hs : subw 8 16 (N.of_nat len) = 16 - N.of_nat len).
  { unfold subw. destruct (N.leb_spec (N.of_nat len) 16); [reflexivity|lia]. }
  rewrite Hs, u8_small by lia.
  rewrite rev_bits_spec. rewrite N.mul_0_l, N.add_0_l.
  replace 16%nat with (len + (16 - len))%nat at 1 by lia.
  rewrite bits_of_N_small_app by exact Hc.
  rewrite rev_app_distr, N_of_bits_app, rev_length, bits_of_N_length.
  rewrite N_of_bits_allfalse.
  2:{ intros b Hb. apply in_rev in Hb. apply (bits_of_N_0 _ _ Hb). }
  rewrite N.add_0_l, <- rcode_rev.
  rewrite N.shiftr_div_pow2.
  replace (N.of_nat (16 - len)) with (16 - N.of_nat len) by lia.
  rewrite N.mul_comm. apply N.div_mul. apply pow2_ne0.
Qed.

(* N_of_bits is injective on lists of equal length *)
Lemma N_of_bits_inj : forall l1 l2, length l1 = length l2 -> N_of_bits l1 = N_of_bits l2 -> l1 = l2.
Proof.
  induction l1 as [|a r IH]; intros l2 HL HE.
  - destruct l2; [reflexivity|discriminate].
  - destruct l2 as [|b r2]; [discriminate|].
    cbn [length] in HL. cbn [N_of_bits] in HE.
    assert (a = b) by (destruct a, b; try reflexivity; lia). subst b.
    f_equal. apply IH; [lia|]. destruct a; lia.
Qed.

Lemma N_of_bits_firstn_mod : forall l k, (k <= length l)%nat ->
  N_of_bits l mod 2 ^ N.of_nat k = N_of_bits (firstn k l).
Proof.
  intros l k Hk.
  rewrite <- (firstn_skipn k l) at 1.
  rewrite N_of_bits_app. rewrite firstn_length_le by exact Hk.
  rewrite N.mul_comm, N.mod_add by apply pow2_ne0.
  apply N.mod_small.
  pose proof (N_of_bits_lt (firstn k l)) as H. rewrite firstn_length_le in H by exact Hk. exact H.
Qed.

(* reversed code words: "the low bits of r2 are r1" means "w1 is a prefix of w2" *)
Lemma rcode_mod_prefix : forall b1 c1 b2 c2, (b1 <= b2)%nat ->
  rcode b2 c2 mod 2 ^ N.of_nat b1 = rcode b1 c1 ->
  prefix (code_bits b1 c1) (code_bits b2 c2).
Proof.
  intros b1 c1 b2 c2 Hb H. unfold rcode in H.
  rewrite N_of_bits_firstn_mod in H by (rewrite code_bits_length; exact Hb).
  apply N_of_bits_inj in H.
  - exists (skipn b1 (code_bits b2 c2)). rewrite <- H. symmetry. apply firstn_skipn.
  - rewrite firstn_length_le by (rewrite code_bits_length; exact Hb).
    rewrite code_bits_length. reflexivity.
Qed.

(* ---------------------------------------------------------------- the canonical code, symbol by symbol *)
Definition ccode (l : lens) (s : nat) : N :=
  first_code l (nth s l 0%nat) + occ (firstn s l) (nth s l 0%nat).

Lemma occ_nil : forall x, occ [] x = 0.
Proof. reflexivity. Qed.

Lemma occ_cons : forall x0 r x, occ (x0 :: r) x = (if Nat.eqb x0 x then 1 else 0) + occ r x.
Proof.
  intros x0 r x. destruct (Nat.eqb_spec x0 x) as [->|Hne].
  - rewrite occ_cons_same. lia.
  - rewrite occ_cons_other by exact Hne. lia.
Qed.

Lemma assign_spec : forall r sym nc s x c,
  Forall (fun y => (y < length nc)%nat) r ->
  (In (s, x, c) (assign r sym nc) <->
   (sym <= s < sym + length r)%nat /\ x = nth (s - sym) r 0%nat /\ x <> 0%nat /\
   c = nth x nc 0 + occ (firstn (s - sym) r) x).
Proof.
  induction r as [|x0 r IH]; intros sym nc s x c HF.
  - cbn [assign length In]. split; [intros []|]. intros [H _]. lia.
  - inversion HF as [|y0 r0 Hx0 HFr]; subst.
    cbn [assign]. destruct (Nat.eqb x0 0) eqn:E.
    + apply Nat.eqb_eq in E. subst x0. rewrite (IH (S sym) nc s x c HFr).
      cbn [length]. split.
      * intros (A & B & C & D).
        replace (s - sym)%nat with (S (s - S sym)) by lia.
        cbn [nth firstn]. rewrite occ_cons.
        destruct (Nat.eqb_spec 0 x) as [Hx|Hx]; [congruence|].
        repeat split; try lia; assumption.
      * intros (A & B & C & D).
        destruct (Nat.eq_dec s sym) as [->|Hne].
        { replace (sym - sym)%nat with 0%nat in B by lia. cbn [nth] in B. congruence. }
        replace (s - sym)%nat with (S (s - S sym)) in B, D by lia.
        cbn [nth firstn] in B, D. rewrite occ_cons in D.
        destruct (Nat.eqb_spec 0 x) as [Hx|Hx]; [congruence|].
        repeat split; try lia; assumption.
    + apply Nat.eqb_neq in E. cbn [In length].
      assert (HFr' : Forall (fun y => Nat.lt y (length (upd x0 (nth x0 nc 0 + 1) nc))) r).
      { rewrite upd_length. exact HFr. }
      rewrite (IH (S sym) _ s x c HFr'). split.
      * intros [HEq|(A & B & C & D)].
        -- injection HEq as <- <- <-.
           replace (sym - sym)%nat with 0%nat by lia. cbn [nth firstn]. rewrite occ_nil.
           repeat split; try lia; try exact E.
        -- replace (s - sym)%nat with (S (s - S sym)) by lia.
           cbn [nth firstn]. rewrite occ_cons.
           repeat split; try lia; try assumption.
           destruct (Nat.eqb_spec x0 x) as [Hx|Hx].
           ++ rewrite <- Hx in D. rewrite nth_upd_same in D by exact Hx0. rewrite <- Hx. lia.
           ++ rewrite nth_upd_other in D by exact Hx. lia.
      * intros (A & B & C & D).
        destruct (Nat.eq_dec s sym) as [->|Hne].
        -- left. replace (sym - sym)%nat with 0%nat in B, D by lia.
           cbn [nth firstn] in B, D. rewrite occ_nil in D. subst x c. f_equal. lia.
        -- right. replace (s - sym)%nat with (S (s - S sym)) in B, D by lia.
           cbn [nth firstn] in B, D. rewrite occ_cons in D.
           repeat split; try lia; try assumption.
           destruct (Nat.eqb_spec x0 x) as [Hx|Hx].
           ++ rewrite <- Hx in D |- *. rewrite nth_upd_same by exact Hx0. lia.
           ++ rewrite nth_upd_other by exact Hx. lia.
Qed.

Lemma canon_spec : forall l s x c, Forall (fun y => (y <= 15)%nat) l ->
  (In (s, x, c) (canon l) <->
   (s < length l)%nat /\ x = nth s l 0%nat /\ x <> 0%nat /\ c = ccode l s).
Proof.
  intros l s x c Hl. unfold canon.
  assert (HF : Forall (fun y => (y < length (map (first_code l) (seq 0 17)))%nat) l).
  { rewrite map_length, seq_length. rewrite Forall_forall in *.
    intros y Hy. specialize (Hl y Hy). lia. }
  rewrite (assign_spec l 0%nat _ s x c HF). rewrite Nat.sub_0_r. unfold ccode.
  split.
  - intros (A & B & C & D). subst x.
    assert (Hx : (nth s l 0 <= 15)%nat).
    { rewrite Forall_forall in Hl. apply Hl. apply nth_In. lia. }
    rewrite nth_first_codes in D by lia.
    repeat split; try lia; assumption.
  - intros (A & B & C & D). subst x.
    assert (Hx : (nth s l 0 <= 15)%nat).
    { rewrite Forall_forall in Hl. apply Hl. apply nth_In. lia. }
    rewrite nth_first_codes by lia.
    repeat split; try lia; assumption.
Qed.

Lemma occ_firstn_S : forall l i y, (i < length l)%nat ->
  occ (firstn (S i) l) y = occ (firstn i l) y + (if Nat.eqb (nth i l 0%nat) y then 1 else 0).
Proof.
  induction l as [|a r IH]; intros i y Hi.
  - cbn [length] in Hi. lia.
  - destruct i as [|i].
    + cbn [firstn nth]. rewrite occ_cons, !occ_nil. lia.
    + cbn [length] in Hi. change (firstn (S (S i)) (a :: r)) with (a :: firstn (S i) r).
      change (firstn (S i) (a :: r)) with (a :: firstn i r).
      cbn [nth]. rewrite !occ_cons. rewrite IH by lia. lia.
Qed.

Lemma occ_firstn_mono : forall l i j y, (i <= j)%nat -> occ (firstn i l) y <= occ (firstn j l) y.
Proof.
  intros l i j y H. induction H as [|j H IH]; [lia|].
  destruct (Nat.lt_ge_cases j (length l)) as [Hlt|Hge].
  - rewrite occ_firstn_S by exact Hlt. lia.
  - rewrite (firstn_all2 (n := S j)) by lia. rewrite (firstn_all2 (n := j)) in IH by lia. exact IH.
Qed.

Lemma occ_firstn_lt : forall l i j, (i < j)%nat -> (i < length l)%nat ->
  occ (firstn i l) (nth i l 0%nat) + 1 <= occ (firstn j l) (nth i l 0%nat).
Proof.
  intros l i j Hij Hi.
  pose proof (occ_firstn_mono l (S i) j (nth i l 0%nat) ltac:(lia)) as H.
  rewrite occ_firstn_S in H by exact Hi. rewrite Nat.eqb_refl in H. exact H.
Qed.

Lemma occ_firstn_all : forall l y, occ (firstn (length l) l) y = occ l y.
Proof. intros l y. rewrite firstn_all. reflexivity. Qed.

Lemma occ_count_len : forall l y, occ l y = count_len l y.
Proof. reflexivity. Qed.

(* the code of symbol s fits its length *)
Lemma ccode_lt : forall l s, Forall (fun y => (y <= 15)%nat) l ->
  oversubscribed 15 l = false -> (s < length l)%nat -> nth s l 0%nat <> 0%nat ->
  ccode l s < 2 ^ N.of_nat (nth s l 0%nat).
Proof.
  intros l s Hl Ho Hs Hx. unfold ccode.
  assert (Hx15 : (nth s l 0 <= 15)%nat).
  { rewrite Forall_forall in Hl. apply Hl. apply nth_In. exact Hs. }
  pose proof (first_code_fits 15 l _ Hx15 Ho) as HF.
  pose proof (occ_firstn_lt l s (length l) Hs Hs) as HO.
  rewrite occ_firstn_all in HO.
  unfold cnt in HF. apply Nat.eqb_neq in Hx. rewrite Hx in HF.
  unfold occ in *. unfold count_len in *. lia.
Qed.

Lemma ccode_good : forall l s, Forall (fun y => (y <= 15)%nat) l ->
  (s < length l)%nat -> nth s l 0%nat <> 0%nat ->
  good 15 l (s, nth s l 0%nat, ccode l s).
Proof.
  intros l s Hl Hs Hx.
  pose proof (canon_good 15 l ltac:(lia) Hl) as HG. rewrite Forall_forall in HG.
  apply HG. apply canon_spec; [exact Hl|]. repeat split; assumption.
Qed.

(* prefix freeness, on the reversed codes *)
Lemma ccode_prefix_free : forall l s1 s2, Forall (fun y => (y <= 15)%nat) l ->
  oversubscribed 15 l = false ->
  (s1 < length l)%nat -> (s2 < length l)%nat -> s1 <> s2 ->
  nth s1 l 0%nat <> 0%nat -> nth s2 l 0%nat <> 0%nat ->
  (nth s1 l 0 <= nth s2 l 0)%nat ->
  rcode (nth s2 l 0%nat) (ccode l s2) mod 2 ^ N.of_nat (nth s1 l 0%nat)
  <> rcode (nth s1 l 0%nat) (ccode l s1).
Proof.
  intros l s1 s2 Hl Ho H1 H2 Hne Hx1 Hx2 Hle HE.
  apply rcode_mod_prefix in HE; [|exact Hle].
  revert HE.
  apply (good_noprefix 15 l s1 _ _ s2 _ _ Ho (ccode_good l s1 Hl H1 Hx1) (ccode_good l s2 Hl H2 Hx2)).
  intros Hb. unfold ccode. rewrite <- Hb.
  destruct (Nat.lt_ge_cases s1 s2) as [Hlt|Hge].
  - pose proof (occ_firstn_lt l s1 s2 Hlt H1). lia.
  - assert (Hlt : (s2 < s1)%nat) by lia.
    pose proof (occ_firstn_lt l s2 s1 Hlt H2) as HO. rewrite <- Hb in HO. lia.
Qed.

(* ---------------------------------------------------------------- arithmetic of first_code / kraft *)
Lemma term_le_pow : forall x b, w1 x b + ind x b <= 2 ^ N.of_nat b.
Proof.
  intros x b. unfold w1, ind.
  pose proof (pow2_pos b) as Hp.
  destruct (Nat.eqb x 0) eqn:Ex; cbn [orb].
  - destruct (Nat.eqb b 0); [lia|]. destruct (Nat.eqb x b); lia.
  - destruct (b <=? x)%nat eqn:E2.
    + destruct (Nat.eqb b 0); [lia|]. destruct (Nat.eqb x b); lia.
    + apply Nat.leb_gt in E2.
      assert (E3 : Nat.eqb x b = false) by (apply Nat.eqb_neq; lia). rewrite E3.
      assert (2 ^ N.of_nat (b - x) <= 2 ^ N.of_nat b) by (apply pow2_le_mono; lia).
      destruct (Nat.eqb b 0); lia.
Qed.

Lemma fc_bound : forall l b, first_code l b + cnt l b <= N.of_nat (length l) * 2 ^ N.of_nat b.
Proof.
  intros l b. rewrite first_code_psum. induction l as [|x r IH].
  - cbn [psum length]. rewrite cnt_nil. lia.
  - cbn [psum]. rewrite cnt_cons. cbn [length]. pose proof (term_le_pow x b). lia.
Qed.

Lemma term_eq_kterm : forall m x, (x <= m)%nat -> w1 x m + ind x m = kterm m x.
Proof.
  intros m x Hx. unfold w1, ind, kterm.
  destruct (Nat.eqb x 0) eqn:Ex; cbn [orb].
  - apply Nat.eqb_eq in Ex. subst x. destruct (Nat.eqb m 0) eqn:Em; [reflexivity|].
    destruct (Nat.eqb 0 m) eqn:Em'; [|reflexivity].
    apply Nat.eqb_eq in Em'. apply Nat.eqb_neq in Em. lia.
  - apply Nat.eqb_neq in Ex.
    destruct (m <=? x)%nat eqn:E2.
    + apply Nat.leb_le in E2. assert (x = m) by lia. subst x.
      rewrite Nat.eqb_refl. assert (Em : Nat.eqb m 0 = false) by (apply Nat.eqb_neq; lia).
      rewrite Em. replace (m - m)%nat with 0%nat by lia. reflexivity.
    + apply Nat.leb_gt in E2.
      assert (E3 : Nat.eqb x m = false) by (apply Nat.eqb_neq; lia). rewrite E3.
      destruct (Nat.eqb m 0); lia.
Qed.

Lemma kraft_first_code : forall m l, Forall (fun y => (y <= m)%nat) l ->
  first_code l m + cnt l m = kraft m l.
Proof.
  intros m l Hl. rewrite first_code_psum. induction Hl as [|x r Hx Hr IH].
  - cbn [psum kraft]. rewrite cnt_nil. reflexivity.
  - cbn [psum kraft]. rewrite cnt_cons.
    pose proof (term_eq_kterm m x Hx) as HT. unfold kterm in HT. lia.
Qed.

Lemma kraft_scale : forall m d l, Forall (fun y => (y <= m)%nat) l ->
  kraft (m + d) l = 2 ^ N.of_nat d * kraft m l.
Proof.
  intros m d l Hl. induction Hl as [|x r Hx Hr IH].
  - cbn [kraft]. lia.
  - cbn [kraft]. rewrite IH. destruct (Nat.eqb x 0); [lia|].
    replace (m + d - x)%nat with (d + (m - x))%nat by lia. rewrite pow2_add. lia.
Qed.

Lemma oversubscribed_7_15 : forall l, Forall (fun y => (y <= 7)%nat) l ->
  oversubscribed 15 l = oversubscribed 7 l.
Proof.
  intros l Hl. unfold oversubscribed.
  change 15%nat with (7 + 8)%nat. rewrite (kraft_scale 7 8 l Hl).
  change (2 ^ N.of_nat (7 + 8)) with 32768. change (2 ^ N.of_nat 8) with 256.
  change (2 ^ N.of_nat 7) with 128.
  destruct (N.ltb_spec 32768 (256 * kraft 7 l)); destruct (N.ltb_spec 128 (kraft 7 l)); try reflexivity; lia.
Qed.

(* ---------------------------------------------------------------- setCodes *)
Definition code_entry (l : lens) (i : nat) : N :=
  hc_set (rcode (nth i l 0%nat) (ccode l i)) (N.of_nat (nth i l 0%nat)).

Definition sc_nc (count : arr) : arr :=
  forN 2 16 (fun i c => aset c i (shl32 (u32 (aget c (i - 1) + aget count (i - 1))) 1)) aempty.

Definition sc_step (off : N) (i : N) (st : arr * arr) : arr * arr :=
  let '(t, nc) := st in
  let length := hc_len (aget t (off + i)) in
  if length =? 0 then st
  else
    let code := bitReverse2 (u16 (aget nc length)) length in
    (aset t (off + i) (hc_set code length), aset nc length (u32 (aget nc length + 1))).

Lemma setCodes_eq : forall table off n count,
  setCodes table off n count =
  let nc := sc_nc count in
  let mx := u32 (aget nc 15 + aget count 15) in
  if 32768 <? mx then (table, true)
  else let '(t, _) := forN 0 n (sc_step off) (table, nc) in (t, false).
Proof. intros. reflexivity. Qed.

Lemma cnt_count : forall l count (x : N), 1 <= x <= 15 ->
  (forall x, 1 <= x <= 15 -> aget count x = count_len l (N.to_nat x)) ->
  aget count x = cnt l (N.to_nat x).
Proof.
  intros l count x Hx Hc. rewrite (Hc x Hx). unfold cnt.
  assert (E : Nat.eqb (N.to_nat x) 0 = false) by (apply Nat.eqb_neq; lia). rewrite E. reflexivity.
Qed.

Lemma first_code_small : forall l b, (length l <= 1000)%nat -> (b <= 15)%nat ->
  first_code l b + cnt l b < 2147483648.
Proof.
  intros l b Hl Hb. pose proof (fc_bound l b) as H.
  assert (2 ^ N.of_nat b <= 2 ^ 15) by (apply pow2_le_mono; lia).
  change (2 ^ 15) with 32768 in *. nia.
Qed.

Lemma sc_nc_spec : forall l count, (length l <= 1000)%nat ->
  (forall x, 1 <= x <= 15 -> aget count x = count_len l (N.to_nat x)) ->
  forall k, 1 <= k <= 15 -> aget (sc_nc count) k = first_code l (N.to_nat k).
Proof.
  intros l count Hl Hc. unfold sc_nc.
  assert (H : forall k, 1 <= k < 16 ->
    aget (forN 2 16 (fun i c => aset c i (shl32 (u32 (aget c (i - 1) + aget count (i - 1))) 1)) aempty) k
    = first_code l (N.to_nat k)).
  { apply (forN_ind arr (fun j c => forall k, 1 <= k < j -> aget c k = first_code l (N.to_nat k))); [lia| |].
    - intros k Hk. assert (k = 1) by lia. subst k. rewrite aget_empty.
      change (N.to_nat 1) with 1%nat. cbn [first_code Nat.eqb]. reflexivity.
    - intros j c Hj IH k Hk. rewrite aget_aset.
      destruct (N.eqb_spec k j) as [->|Hne]; [|apply IH; lia].
      rewrite (IH (j - 1)) by lia. rewrite (cnt_count l count (j - 1)) by (auto; lia).
      pose proof (first_code_small l (N.to_nat (j - 1)) Hl ltac:(lia)) as Hs.
      rewrite u32_small by lia. rewrite shl32_1_small by exact Hs.
      replace (N.to_nat j) with (S (N.to_nat (j - 1))) by lia.
      rewrite first_code_S. reflexivity. }
  intros k Hk. apply H. lia.
Qed.

Lemma setCodes_bad : forall l count table off n, (length l <= 1000)%nat ->
  Forall (fun y => (y <= 15)%nat) l ->
  (forall x, 1 <= x <= 15 -> aget count x = count_len l (N.to_nat x)) ->
  snd (setCodes table off n count) = oversubscribed 15 l.
Proof.
  intros l count table off n Hl HF Hc. rewrite setCodes_eq. cbv zeta.
  rewrite (sc_nc_spec l count Hl Hc 15) by lia.
  rewrite (cnt_count l count 15) by (auto; lia).
  change (N.to_nat 15) with 15%nat.
  pose proof (first_code_small l 15 Hl ltac:(lia)) as Hs.
  rewrite u32_small by lia. rewrite (kraft_first_code 15 l HF).
  unfold oversubscribed. change (2 ^ N.of_nat 15) with 32768.
  destruct (32768 <? kraft 15 l); [reflexivity|].
  destruct (forN 0 n (sc_step off) (table, sc_nc count)) as [t nc']. reflexivity.
Qed.

Lemma nth_le15 : forall l i, Forall (fun y => (y <= 15)%nat) l -> (nth i l 0 <= 15)%nat.
Proof.
  intros l i HF. destruct (Nat.lt_ge_cases i (length l)) as [Hlt|Hge].
  - rewrite Forall_forall in HF. apply HF. apply nth_In. exact Hlt.
  - rewrite nth_overflow by exact Hge. lia.
Qed.

Lemma setCodes_codes : forall l huff base n count,
  lens_in l base n huff count -> n <= 1000 -> oversubscribed 15 l = false ->
  (forall j, j < base \/ base + n <= j -> aget (fst (setCodes huff base n count)) j = aget huff j) /\
  (forall i, i < n -> aget (fst (setCodes huff base n count)) (base + i) = code_entry l (N.to_nat i)).
Proof.
  intros l huff base n count (HL & HF & Hh & Hc) Hn Ho.
  assert (Hl : (length l <= 1000)%nat) by lia.
  pose proof (setCodes_bad l count huff base n Hl HF Hc) as Hbad.
  rewrite setCodes_eq in *. cbv zeta in *.
  destruct (32768 <? u32 (aget (sc_nc count) 15 + aget count 15)) eqn:Emx.
  { cbn [snd] in Hbad. congruence. }
  clear Hbad Emx.
  pose proof (sc_nc_spec l count Hl Hc) as Hnc.
  match goal with |- (forall j, _ -> aget (fst (let '(t, _) := ?e in _)) j = _) /\ _ =>
    assert (HI : let '(t, nc) := e in
      (forall x, 1 <= x <= 15 ->
         aget nc x = first_code l (N.to_nat x) + occ (firstn (N.to_nat n) l) (N.to_nat x)) /\
      (forall k, k < n -> aget t (base + k) = code_entry l (N.to_nat k)) /\
      (forall k, n <= k < n -> aget t (base + k) = hc_set 0 (N.of_nat (nth (N.to_nat k) l 0%nat))) /\
      (forall j, j < base \/ base + n <= j -> aget t j = aget huff j))
  end.
  { apply (forN_ind (arr * arr) (fun i (st : arr * arr) => let '(t, nc) := st in
      (forall x, 1 <= x <= 15 ->
         aget nc x = first_code l (N.to_nat x) + occ (firstn (N.to_nat i) l) (N.to_nat x)) /\
      (forall k, k < i -> aget t (base + k) = code_entry l (N.to_nat k)) /\
      (forall k, i <= k < n -> aget t (base + k) = hc_set 0 (N.of_nat (nth (N.to_nat k) l 0%nat))) /\
      (forall j, j < base \/ base + n <= j -> aget t j = aget huff j))); [lia| |].
    - split; [|split; [|split]].
      + intros x Hx. rewrite (Hnc x Hx). change (N.to_nat 0) with 0%nat. cbn [firstn].
        rewrite occ_nil. lia.
      + intros k Hk. lia.
      + intros k Hk. apply Hh. lia.
      + intros j Hj. reflexivity.
    - intros i [t nc] Hi (I1 & I2 & I3 & I4). unfold sc_step.
      pose proof (nth_le15 l (N.to_nat i) HF) as Hx15.
      set (x := nth (N.to_nat i) l 0%nat) in *.
      assert (Hlen : hc_len (aget t (base + i)) = N.of_nat x).
      { rewrite (I3 i) by lia. fold x. apply hc_set_len; lia. }
      rewrite Hlen.
      assert (HS : N.to_nat (i + 1) = S (N.to_nat i)) by lia.
      destruct (N.eqb_spec (N.of_nat x) 0) as [Hx0|Hx0].
      + assert (Hx : x = 0%nat) by lia.
        split; [|split; [|split]].
        * intros y Hy. rewrite (I1 y Hy). f_equal. rewrite HS.
          destruct (Nat.lt_ge_cases (N.to_nat i) (length l)) as [Hlt|Hge].
          -- rewrite occ_firstn_S by exact Hlt. fold x. rewrite Hx.
             assert (E : Nat.eqb 0 (N.to_nat y) = false) by (apply Nat.eqb_neq; lia).
             rewrite E. lia.
          -- rewrite (firstn_all2 (n := S (N.to_nat i))) by lia.
             rewrite (firstn_all2 (n := N.to_nat i)) by lia. reflexivity.
        * intros k Hk. destruct (N.eq_dec k i) as [->|Hne]; [|apply I2; lia].
          rewrite (I3 i) by lia. unfold code_entry. fold x. rewrite Hx. reflexivity.
        * intros k Hk. apply I3. lia.
        * exact I4.
      + assert (Hx : x <> 0%nat) by lia.
        assert (Hil : (N.to_nat i < length l)%nat).
        { destruct (Nat.lt_ge_cases (N.to_nat i) (length l)) as [Hlt|Hge]; [exact Hlt|].
          unfold x in Hx. rewrite nth_overflow in Hx by exact Hge. congruence. }
        pose proof (ccode_lt l (N.to_nat i) HF Ho Hil Hx) as Hcl. fold x in Hcl.
        assert (Hnx : aget nc (N.of_nat x) = ccode l (N.to_nat i)).
        { rewrite I1 by lia. unfold ccode. fold x. rewrite Nat2N.id. reflexivity. }
        assert (Hp : 2 ^ N.of_nat x <= 2 ^ 15) by (apply pow2_le_mono; lia).
        change (2 ^ 15) with 32768 in Hp.
        split; [|split; [|split]].
        * intros y Hy. rewrite aget_aset. rewrite HS, occ_firstn_S by exact Hil. fold x.
          destruct (N.eqb_spec y (N.of_nat x)) as [->|Hne].
          -- rewrite Hnx. rewrite u32_small by lia. rewrite Nat2N.id, Nat.eqb_refl.
             unfold ccode. fold x. lia.
          -- rewrite (I1 y Hy).
             assert (E : Nat.eqb x (N.to_nat y) = false) by (apply Nat.eqb_neq; lia).
             rewrite E. lia.
        * intros k Hk. rewrite aget_aset.
          destruct (N.eqb_spec (base + k) (base + i)) as [He|Hne].
          -- assert (k = i) by lia. subst k. unfold code_entry. fold x.
             rewrite Hnx. rewrite u16_small by lia.
             rewrite bitReverse2_rcode by (auto; lia). reflexivity.
          -- apply I2. lia.
        * intros k Hk. rewrite aget_aset_other by lia. apply I3. lia.
        * intros j Hj. rewrite aget_aset_other by lia. apply I4. exact Hj. }
  destruct (forN 0 n (sc_step base) (huff, sc_nc count)) as [t nc'].
  cbn [fst]. destruct HI as (_ & I2 & _ & I4). split; assumption.
Qed.

(* ---------------------------------------------------------------- the abstract view of a code array *)
Definition cL (codes : arr) (i : N) : N := hc_len (aget codes i).
Definition cR (codes : arr) (i : N) : N := hc_code (aget codes i).

(* number of i < k with length x *)
Fixpoint cnt_upto (codes : arr) (x : N) (k : nat) : N :=
  match k with
  | O => 0
  | S k' => cnt_upto codes x k' + (if cL codes (N.of_nat k') =? x then 1 else 0)
  end.

Record codes_ok (codes : arr) (n : N) (count : arr) : Prop := {
  ck_n : n <= 30;
  ck_len : forall i, i < n -> cL codes i <= 15;
  ck_u32 : forall i, i < n -> aget codes i < 4294967296;
  ck_code : forall i, i < n -> cL codes i <> 0 -> cR codes i < 2 ^ cL codes i;
  ck_pf : forall i j, i < n -> j < n -> i <> j -> cL codes i <> 0 -> cL codes j <> 0 ->
          cL codes i <= cL codes j -> cR codes j mod 2 ^ cL codes i <> cR codes i;
  ck_count : forall x, 1 <= x <= 15 -> aget count x = cnt_upto codes x (N.to_nat n)
}.

(* a value (the bit buffer) starts with the code word of symbol i *)
Definition matches (codes : arr) (n : N) (v i : N) : Prop :=
  i < n /\ cL codes i <> 0 /\ v mod 2 ^ cL codes i = cR codes i.

Lemma matches_unique : forall codes n count v i j, codes_ok codes n count ->
  matches codes n v i -> matches codes n v j -> i = j.
Proof.
  intros codes n count v i j OK (Hi & Li & Mi) (Hj & Lj & Mj).
  destruct (N.eq_dec i j) as [E|Hne]; [exact E|exfalso].
  assert (HH : forall a b, a < n -> b < n -> a <> b -> cL codes a <> 0 -> cL codes b <> 0 ->
             v mod 2 ^ cL codes a = cR codes a -> v mod 2 ^ cL codes b = cR codes b ->
             cL codes a <= cL codes b -> False).
  { intros a b Ha Hb Hab La Lb Ma Mb Hle.
    apply (ck_pf _ _ _ OK a b Ha Hb Hab La Lb Hle).
    rewrite <- Mb, <- Ma.
    rewrite (pow2_split (cL codes a) (cL codes b) Hle).
    rewrite N.mod_mul_r by apply pow2_ne0.
    rewrite N.mul_comm, N.mod_add by apply pow2_ne0.
    apply N.mod_mod. apply pow2_ne0. }
  destruct (N.le_ge_cases (cL codes i) (cL codes j)) as [Hle|Hge].
  - exact (HH i j Hi Hj Hne Li Lj Mi Mj Hle).
  - apply (HH j i Hj Hi); auto.
Qed.

Lemma code_entry_len : forall l i, Forall (fun y => (y <= 15)%nat) l ->
  hc_len (code_entry l i) = N.of_nat (nth i l 0%nat).
Proof.
  intros l i HF. unfold code_entry. pose proof (nth_le15 l i HF) as Hx.
  apply hc_set_len; [|lia].
  pose proof (rcode_lt (nth i l 0%nat) (ccode l i)) as H.
  assert (2 ^ N.of_nat (nth i l 0%nat) <= 2 ^ 15) by (apply pow2_le_mono; lia).
  change (2 ^ 15) with 32768 in *. lia.
Qed.

Lemma code_entry_code : forall l i, Forall (fun y => (y <= 15)%nat) l ->
  hc_code (code_entry l i) = rcode (nth i l 0%nat) (ccode l i).
Proof.
  intros l i HF. unfold code_entry. pose proof (nth_le15 l i HF) as Hx.
  apply hc_set_code; [|lia].
  pose proof (rcode_lt (nth i l 0%nat) (ccode l i)) as H.
  assert (2 ^ N.of_nat (nth i l 0%nat) <= 2 ^ 15) by (apply pow2_le_mono; lia).
  change (2 ^ 15) with 32768 in *. lia.
Qed.

Lemma cnt_upto_occ : forall l codes x k, 1 <= x ->
  (forall i, (i < k)%nat -> cL codes (N.of_nat i) = N.of_nat (nth i l 0%nat)) ->
  cnt_upto codes x k = occ (firstn k l) (N.to_nat x).
Proof.
  intros l codes x k Hx. induction k as [|k IH]; intros Hc.
  - reflexivity.
  - cbn [cnt_upto]. rewrite IH by (intros i Hi; apply Hc; lia).
    rewrite (Hc k) by lia.
    destruct (Nat.lt_ge_cases k (length l)) as [Hlt|Hge].
    + rewrite occ_firstn_S by exact Hlt.
      destruct (N.eqb_spec (N.of_nat (nth k l 0%nat)) x) as [He|Hne];
        destruct (Nat.eqb_spec (nth k l 0%nat) (N.to_nat x)) as [He'|Hne']; try reflexivity; lia.
    + rewrite (firstn_all2 (n := S k)) by lia. rewrite (firstn_all2 (n := k)) by lia.
      rewrite nth_overflow by exact Hge.
      destruct (N.eqb_spec (N.of_nat 0) x) as [He|Hne]; lia.
Qed.

Lemma codes_ok_of_lens : forall l codes n count,
  (length l <= N.to_nat n)%nat -> Forall (fun y => (y <= 15)%nat) l -> n <= 30 ->
  oversubscribed 15 l = false ->
  (forall i, i < n -> aget codes i = code_entry l (N.to_nat i)) ->
  (forall x, 1 <= x <= 15 -> aget count x = count_len l (N.to_nat x)) ->
  codes_ok codes n count /\
  (forall i, i < n -> cL codes i = N.of_nat (nth (N.to_nat i) l 0%nat)) /\
  (forall i, i < n -> cR codes i = rcode (nth (N.to_nat i) l 0%nat) (ccode l (N.to_nat i))).
Proof.
  intros l codes n count HL HF Hn Ho Hc Hcount.
  assert (HcL : forall i, i < n -> cL codes i = N.of_nat (nth (N.to_nat i) l 0%nat)).
  { intros i Hi. unfold cL. rewrite (Hc i Hi). apply code_entry_len. exact HF. }
  assert (HcR : forall i, i < n -> cR codes i = rcode (nth (N.to_nat i) l 0%nat) (ccode l (N.to_nat i))).
  { intros i Hi. unfold cR. rewrite (Hc i Hi). apply code_entry_code. exact HF. }
  split; [|split; assumption].
  assert (Hin : forall i, i < n -> cL codes i <> 0 -> (N.to_nat i < length l)%nat).
  { intros i Hi Hx. rewrite (HcL i Hi) in Hx.
    destruct (Nat.lt_ge_cases (N.to_nat i) (length l)) as [Hlt|Hge]; [exact Hlt|].
    rewrite nth_overflow in Hx by exact Hge. lia. }
  constructor.
  - exact Hn.
  - intros i Hi. rewrite (HcL i Hi). pose proof (nth_le15 l (N.to_nat i) HF). lia.
  - intros i Hi. rewrite (Hc i Hi). unfold code_entry, hc_set, u32.
    change mask32 with (N.ones 32). change 4294967296 with (2 ^ 32). apply land_ones_lt.
  - intros i Hi Hx. rewrite (HcR i Hi), (HcL i Hi). apply rcode_lt.
  - intros i j Hi Hj Hne Li Lj Hle.
    pose proof (Hin i Hi Li) as Hil. pose proof (Hin j Hj Lj) as Hjl.
    rewrite (HcL i Hi) in *. rewrite (HcL j Hj) in *. rewrite (HcR i Hi), (HcR j Hj).
    apply ccode_prefix_free; try assumption; lia.
  - intros x Hx. rewrite (Hcount x Hx).
    rewrite (cnt_upto_occ l codes x (N.to_nat n)) by (try lia; intros i Hi; rewrite HcL by lia; rewrite Nat2N.id; reflexivity).
    rewrite firstn_all2 by exact HL. reflexivity.
Qed.
