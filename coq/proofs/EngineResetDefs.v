(* EngineResetDefs.v -- shared definitions of the Reset-equivalence proof (EngineResetSpec.v):
   the "agree below n" relation on arrays, the live part of an inflate state (core), the
   lookup-equality relations on the decode tables, and the statements of the three big
   sub-results (proved in EngineResetSmallSim.v, EngineResetLitLenSim.v, EngineResetHdr.v) that
   the final assembly (EngineResetProofs.v) puts together. *)
From Coq Require Import List NArith ZArith Bool Lia ZifyBool ZifyNat ZifyN.
From Verif Require Import Base Engine EngineReset EngineResetSpec.
From Verif Require Import EngineSafetyBase EngineSafetyInv.
Import ListNotations.
Open Scope N_scope.

(* ---------------------------------------------------------------- arrays that agree below n *)
Definition agree (n : N) (a b : arr) : Prop := forall i, i < n -> aget a i = aget b i.

Lemma agree_refl : forall n a, agree n a a.
Proof. intros n a i _. reflexivity. Qed.

Lemma agree_sym : forall n a b, agree n a b -> agree n b a.
Proof. intros n a b H i Hi. symmetry. apply H. exact Hi. Qed.

Lemma agree_trans : forall n a b c, agree n a b -> agree n b c -> agree n a c.
Proof. intros n a b c H1 H2 i Hi. rewrite (H1 i Hi). apply H2. exact Hi. Qed.

Lemma agree_le : forall m n a b, m <= n -> agree n a b -> agree m a b.
Proof. intros m n a b Hmn H i Hi. apply H. lia. Qed.

Lemma agree_0 : forall a b, agree 0 a b.
Proof. intros a b i Hi. lia. Qed.

(* the same store on both sides keeps any agreement *)
Lemma agree_aset : forall n a b i v, agree n a b -> agree n (aset a i v) (aset b i v).
Proof.
  intros n a b i v H j Hj. rewrite !aget_aset. destruct (j =? i); [reflexivity|apply H; exact Hj].
Qed.

(* the same store at the frontier extends the agreement *)
Lemma agree_aset_next : forall n a b v, agree n a b -> agree (n + 1) (aset a n v) (aset b n v).
Proof.
  intros n a b v H j Hj. rewrite !aget_aset. destruct (N.eqb_spec j n) as [_|Hne]; [reflexivity|].
  apply H. lia.
Qed.

(* ---------------------------------------------------------------- the live part of the state *)
(* Reset keeps tb and dyn (EngineReset.v); everything else of the inflate state is "live". *)
Definition tb0 : tabs := mkTB aempty aempty aempty aempty.
Definition core (s : inflate) : inflate := set_dyn (set_tb s tb0) dyn0.

Lemma core_fields : forall s1 s2, core s1 = core s2 ->
  rd s1 = rd s2 /\ inputNil s1 = inputNil s2 /\ ov s1 = ov s2 /\ phase s1 = phase s2 /\
  bfinal s1 = bfinal s2 /\ litBlockLength s1 = litBlockLength s2 /\
  headerBuffered s1 = headerBuffered s2 /\ headerBuffer s1 = headerBuffer s2 /\
  roffset s1 = roffset s2.
Proof.
  intros s1 s2 H. unfold core, set_dyn, set_tb in H. cbn in H. injection H. intros. repeat split; assumption.
Qed.

Lemma core_intro : forall s1 s2,
  rd s1 = rd s2 -> inputNil s1 = inputNil s2 -> ov s1 = ov s2 -> phase s1 = phase s2 ->
  bfinal s1 = bfinal s2 -> litBlockLength s1 = litBlockLength s2 ->
  headerBuffered s1 = headerBuffered s2 -> headerBuffer s1 = headerBuffer s2 ->
  roffset s1 = roffset s2 -> core s1 = core s2.
Proof.
  intros s1 s2 H1 H2 H3 H4 H5 H6 H7 H8 H9. unfold core, set_dyn, set_tb. cbn.
  rewrite H1, H2, H3, H4, H5, H6, H7, H8, H9. reflexivity.
Qed.

(* s1 is s2 with other tables and other scratch *)
Lemma core_eq_ex : forall s1 s2, core s1 = core s2 -> s1 = set_dyn (set_tb s2 (tb s1)) (dyn s1).
Proof.
  intros s1 s2 H. apply core_fields in H. destruct H as (H1&H2&H3&H4&H5&H6&H7&H8&H9).
  destruct s1, s2. cbn in *. subst. reflexivity.
Qed.

(* ---------------------------------------------------------------- lookups *)
Definition lit_eq (t1 t2 : tabs) : Prop := forall b, litlen_decode t1 b = litlen_decode t2 b.
Definition dist_eq (t1 t2 : tabs) : Prop := forall b, dist_decode t1 b = dist_decode t2 b.
Definition lookups_eq (t1 t2 : tabs) : Prop := lit_eq t1 t2 /\ dist_eq t1 t2.
Definition clc_eq (S1 L1 S2 L2 : arr) : Prop := forall b, clc_decode S1 L1 b = clc_decode S2 L2 b.

Lemma lookups_eq_refl : forall t, lookups_eq t t.
Proof. intros t. split; intros b; reflexivity. Qed.

(* A pair (short table, long table) of a small table (code-length table, distance table) built
   over two different stale pairs: the short tables agree on all 1024 entries, and for every
   long-code pointer in them the long tables agree on the group the pointer addresses
   (base = entry & 511, group size 2^(maxLength-10), maxLength = (entry-1024) >> 11). *)
Definition small_rel (s1 l1 s2 l2 : arr) : Prop :=
  agree 1024 s1 s2 /\
  forall i, i < 1024 -> N.land (aget s1 i) smallFlagBit <> 0 ->
    aget s1 i < 65536 /\
    agree (N.land (aget s1 i) 511 + 2 ^ (N.shiftr (aget s1 i - 1024) 11 - 10)) l1 l2.

(* The same for the literal/length table: 4096 short entries, pointer flag 1<<25,
   base = entry & (2^25-1), group size 2^(maxLen-12), maxLen = entry >> 26. *)
Definition large_rel (s1 l1 s2 l2 : arr) : Prop :=
  agree 4096 s1 s2 /\
  forall i, i < 4096 -> N.land (aget s1 i) largeFlagBit <> 0 ->
    N.shiftr (aget s1 i) 26 <= 31 /\
    agree (N.land (aget s1 i) largeShortSymMask + 2 ^ (N.shiftr (aget s1 i) 26 - 12)) l1 l2.

(* ---------------------------------------------------------------- statements of the sub-results *)
(* gen_small (GenerateForHeader / genForDists): the result does not depend on the stale
   contents of the tables it is given, as far as lookups can see *)
Definition gen_small_sim_statement : Prop :=
  forall hdr sh1 lg1 sh2 lg2 codes ncodes count maxSymbol s1 l1 c1 e1 s2 l2 c2 e2,
    small_pre codes count ncodes -> ncodes <= 1024 ->
    gen_small hdr sh1 lg1 codes ncodes count maxSymbol = (s1, l1, c1, e1) ->
    gen_small hdr sh2 lg2 codes ncodes count maxSymbol = (s2, l2, c2, e2) ->
    c1 = c2 /\ e1 = e2 /\ (e1 = ENone -> small_rel s1 l1 s2 l2).

(* genForLitLen: the same, and it reads codeList only below litCount[22] *)
Definition genForLitLen_sim_statement : Prop :=
  forall sh1 lg1 sh2 lg2 d1 d2 m s1 l1 d1' e1 s2 l2 d2' e2,
    litAndDistHuff d1 = litAndDistHuff d2 -> litCount d1 = litCount d2 ->
    agree (aget (litCount d1) 22) (codeList d1) (codeList d2) ->
    litlen_sorted d1 ->
    genForLitLen sh1 lg1 d1 m = (s1, l1, d1', e1) ->
    genForLitLen sh2 lg2 d2 m = (s2, l2, d2', e2) ->
    e1 = e2 /\ (e1 = ENone -> large_rel s1 l1 s2 l2).

(* readHeader on two states with the same live part *)
Definition readHeader_sim_statement : Prop :=
  forall s1 s2 s1' e1 s2' e2,
    core s1 = core s2 ->
    phase s1 = phaseNewBlock \/ phase s1 = phaseDecodingHeader ->
    readHeader s1 = (s1', e1) -> readHeader s2 = (s2', e2) ->
    e1 = e2 /\ core s1' = core s2' /\ ov s1' = ov s1 /\
    (phase s1' = phaseHeaderDecoded -> lookups_eq (tb s1') (tb s2')).
