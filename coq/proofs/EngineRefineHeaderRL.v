(* EngineRefineHeaderRL.v -- M4a, second half: readLitDistLens (rl_loop) simulates the
   reference's read_lens. *)
From Coq Require Import List NArith ZArith Bool Lia ZifyBool ZifyNat ZifyN.
From Verif Require Import Bits Huffman HuffmanSpec Inflate.
From Verif Require Import Base EngineTables Engine EngineRefineSpec EngineRefineBits EngineRefineBridge.
From Verif Require Import EngineRefineHeaderBase EngineRefineHeaderDec EngineRefineHeaderArr.
Import ListNotations.
Open Scope N_scope.

(* ---------------------------------------------------------------- the simulation invariant:
   L = the code lengths read so far (oldest first; the reference's acc is rev L) *)
Definition rl_pos (nlit : nat) (curr prev : Z) (inDist : bool) (n : nat) : Prop :=
  prev = (curr - 1)%Z /\
  (((n <= nlit)%nat /\ curr = Z.of_nat n /\ inDist = false) \/
   ((nlit < n)%nat /\ curr = (286 + Z.of_nat (n - nlit))%Z /\ inDist = true)).

Definition rl_inv (nlit ndist : nat) (st : rlst) (L : list nat) : Prop :=
  (length L <= nlit + ndist)%nat /\
  rl_pos nlit (rl_curr st) (rl_prev st) (rl_inDist st) (length L) /\
  rl_arr nlit (rl_h st) (rl_lc st) (rl_dc st) (rl_ex st) L.

Definition dims_ok (nlit ndist : nat) : Prop := (257 <= nlit <= 286)%nat /\ (1 <= ndist <= 30)%nat.

Lemma rl_inv_set_b : forall nlit ndist st b L,
  rl_inv nlit ndist st L -> rl_inv nlit ndist (rl_set_b st b) L.
Proof. intros nlit ndist st b L H. exact H. Qed.

(* one length stored *)
Lemma rl_put_ok : forall nlit ndist st L x,
  dims_ok nlit ndist -> rl_inv nlit ndist st L ->
  (length L < nlit + ndist)%nat -> (x <= 15)%nat ->
  exists st', rl_put st (Z.of_nat nlit) (286 + Z.of_nat ndist)%Z (hc_set 0 (N.of_nat x)) = Some st' /\
              rl_inv nlit ndist st' (L ++ [x]) /\ rl_b st' = rl_b st.
Proof.
  intros nlit ndist st L x [Hnl Hnd] (I1 & (P1 & P2) & I3) Hroom Hx.
  assert (Hlen : hc_len (hc_set 0 (N.of_nat x)) = N.of_nat x) by (apply hc_len_set0; lia).
  unfold rl_put. rewrite Hlen. unfold rl_count_inc.
  destruct P2 as [(Q1 & Q2 & Q3)|(Q1 & Q2 & Q3)]; rewrite Q2, Q3.
  - destruct (Z.eqb_spec (Z.of_nat (length L)) (Z.of_nat nlit)) as [E|E].
    + (* the jump to the distance part *)
      destruct (Z.leb_spec (286 + Z.of_nat ndist) 286) as [Hc|_]; [lia|].
      eexists. split; [reflexivity|]. split; [|reflexivity].
      unfold rl_inv. cbn [rl_curr rl_prev rl_inDist rl_h rl_lc rl_dc rl_ex].
      rewrite app_length. cbn [length].
      split; [lia|]. split.
      * unfold rl_pos. split; [lia|]. right. split; [lia|]. split; [lia|reflexivity].
      * destruct (Z.leb_spec (Z.of_nat nlit) 286) as [_|Hc]; [|lia].
        rewrite orb_true_r. cbn [orb].
        pose proof (rl_arr_snoc_dist nlit _ _ _ _ L x I3 ltac:(lia) ltac:(lia) Hx) as A.
        replace (length L - nlit)%nat with 0%nat in A by lia.
        change (286 + N.of_nat 0) with 286 in A. exact A.
    + destruct (Z.leb_spec (286 + Z.of_nat ndist) (Z.of_nat (length L))) as [Hc|_]; [lia|].
      eexists. split; [reflexivity|]. split; [|reflexivity].
      unfold rl_inv. cbn [rl_curr rl_prev rl_inDist rl_h rl_lc rl_dc rl_ex].
      rewrite app_length. cbn [length].
      split; [lia|]. split.
      * unfold rl_pos. split; [lia|]. left. split; [lia|]. split; [lia|reflexivity].
      * replace (Z.to_N (Z.of_nat (length L))) with (N.of_nat (length L)) by lia.
        apply rl_arr_snoc_lit; [lia|exact I3|lia|exact Hx].
  - destruct (Z.eqb_spec (286 + Z.of_nat (length L - nlit)) (Z.of_nat nlit)) as [E|_]; [lia|].
    destruct (Z.leb_spec (286 + Z.of_nat ndist) (286 + Z.of_nat (length L - nlit))) as [Hc|_]; [lia|].
    eexists. split; [reflexivity|]. split; [|reflexivity].
    unfold rl_inv. cbn [rl_curr rl_prev rl_inDist rl_h rl_lc rl_dc rl_ex].
    rewrite app_length. cbn [length].
    split; [lia|]. split.
    + unfold rl_pos. split; [lia|]. right. split; [lia|]. split; [lia|reflexivity].
    + destruct (Z.leb_spec (Z.of_nat nlit) (286 + Z.of_nat (length L - nlit))) as [_|Hc]; [|lia].
      rewrite orb_true_r. cbn [orb].
      replace (Z.to_N (286 + Z.of_nat (length L - nlit))) with (286 + N.of_nat (length L - nlit)) by lia.
      apply rl_arr_snoc_dist; [exact I3|lia|lia|exact Hx].
Qed.

Lemma rl_rep_ok : forall k nlit ndist st L x,
  dims_ok nlit ndist -> rl_inv nlit ndist st L ->
  (length L + k <= nlit + ndist)%nat -> (x <= 15)%nat ->
  exists st', rl_rep k st (Z.of_nat nlit) (286 + Z.of_nat ndist)%Z (hc_set 0 (N.of_nat x)) = Some st' /\
              rl_inv nlit ndist st' (L ++ repeat x k) /\ rl_b st' = rl_b st.
Proof.
  induction k as [|k IH]; intros nlit ndist st L x Hd Hinv Hroom Hx.
  - exists st. cbn [rl_rep repeat]. rewrite app_nil_r. split; [reflexivity|]. split; [exact Hinv|reflexivity].
  - cbn [rl_rep].
    destruct (rl_put_ok nlit ndist st L x Hd Hinv ltac:(lia) Hx) as (st1 & E1 & I1 & B1).
    rewrite E1.
    destruct (IH nlit ndist st1 (L ++ [x]) x Hd I1 ltac:(rewrite app_length; cbn [length]; lia) Hx)
      as (st2 & E2 & I2 & B2).
    exists st2. split; [exact E2|]. split; [|congruence].
    cbn [repeat]. replace (L ++ x :: repeat x k) with ((L ++ [x]) ++ repeat x k)
      by (rewrite <- app_assoc; reflexivity).
    exact I2.
Qed.

(* prev points at the last length read *)
Lemma rl_inv_prev : forall nlit ndist st L v,
  dims_ok nlit ndist -> rl_inv nlit ndist st (L ++ [v]) ->
  aget (rl_h st) (Z.to_N (rl_prev st)) = hc_set 0 (N.of_nat v) /\ rl_prev st <> (-1)%Z.
Proof.
  intros nlit ndist st L v [Hnl Hnd] (I1 & (P1 & P2) & I3).
  rewrite app_length in P2. cbn [length] in P2.
  pose proof (rl_arr_last nlit _ _ _ _ L v ltac:(lia) I3) as A.
  destruct P2 as [(Q1 & Q2 & Q3)|(Q1 & Q2 & Q3)].
  - destruct (Nat.ltb_spec (length L) nlit) as [_|Hc]; [|lia].
    split; [|lia]. rewrite <- A. f_equal. lia.
  - destruct (Nat.ltb_spec (length L) nlit) as [Hc|_]; [lia|].
    split; [|lia]. rewrite <- A. f_equal. lia.
Qed.

Lemma rl_inv_prev_nil : forall nlit ndist st, rl_inv nlit ndist st [] -> rl_prev st = (-1)%Z.
Proof.
  intros nlit ndist st (I1 & (P1 & P2) & I3). cbn [length] in P2.
  destruct P2 as [(Q1 & Q2 & Q3)|(Q1 & Q2 & Q3)]; lia.
Qed.

(* a run of zeros (symbols 17, 18): nothing is written, curr advances with the border jump *)
Lemma rl_zeros_state : forall nlit ndist st L (i : Z) b,
  dims_ok nlit ndist -> rl_inv nlit ndist st L -> (0 <= i)%Z ->
  let curr := (rl_curr st + i)%Z in
  let prev := (curr - 1)%Z in
  let '(curr, prev, inDist) :=
    if negb (rl_inDist st) && (Z.of_nat nlit <? curr)%Z then
      let curr := (curr + (286 - Z.of_nat nlit))%Z in
      (curr, (if (286 <? curr)%Z then (curr - 1)%Z else prev), true)
    else (curr, prev, rl_inDist st) in
  ((length L + Z.to_nat i <= nlit + ndist)%nat ->
     rl_inv nlit ndist (mkRL b (rl_h st) (rl_lc st) (rl_dc st) (rl_ex st) curr prev inDist)
            (L ++ repeat 0%nat (Z.to_nat i))) /\
  ((nlit + ndist < length L + Z.to_nat i)%nat -> (286 + Z.of_nat ndist < curr)%Z).
Proof.
  intros nlit ndist st L i b [Hnl Hnd] (I1 & (P1 & P2) & I3) Hi. cbn zeta.
  assert (HA : rl_arr nlit (rl_h st) (rl_lc st) (rl_dc st) (rl_ex st) (L ++ repeat 0%nat (Z.to_nat i)))
    by (apply rl_arr_zeros; exact I3).
  destruct P2 as [(Q1 & Q2 & Q3)|(Q1 & Q2 & Q3)]; rewrite Q2, Q3; cbn [negb andb].
  - destruct (Z.ltb_spec (Z.of_nat nlit) (Z.of_nat (length L) + i)) as [Hj|Hj].
    + destruct (Z.ltb_spec 286 (Z.of_nat (length L) + i + (286 - Z.of_nat nlit))) as [_|Hc]; [|lia].
      split; [|lia]. intros Hroom.
      unfold rl_inv. cbn [rl_curr rl_prev rl_inDist rl_h rl_lc rl_dc rl_ex].
      rewrite app_length, repeat_length.
      split; [lia|]. split; [|exact HA].
      unfold rl_pos. split; [lia|]. right. split; [lia|]. split; [lia|reflexivity].
    + split; [|lia]. intros Hroom.
      unfold rl_inv. cbn [rl_curr rl_prev rl_inDist rl_h rl_lc rl_dc rl_ex].
      rewrite app_length, repeat_length.
      split; [lia|]. split; [|exact HA].
      unfold rl_pos. split; [lia|]. left. split; [lia|]. split; [lia|reflexivity].
  - split; [|lia]. intros Hroom.
    unfold rl_inv. cbn [rl_curr rl_prev rl_inDist rl_h rl_lc rl_dc rl_ex].
    rewrite app_length, repeat_length.
    split; [lia|]. split; [|exact HA].
    unfold rl_pos. split; [lia|]. right. split; [lia|]. split; [lia|reflexivity].
Qed.

(* curr < endv  iff  lengths are still missing *)
Lemma rl_inv_curr_lt : forall nlit ndist st L, dims_ok nlit ndist -> rl_inv nlit ndist st L ->
  ((rl_curr st < 286 + Z.of_nat ndist)%Z <-> (length L < nlit + ndist)%nat) /\
  (rl_curr st <= 286 + Z.of_nat ndist)%Z.
Proof.
  intros nlit ndist st L [Hnl Hnd] (I1 & (P1 & P2) & I3).
  destruct P2 as [(Q1 & Q2 & Q3)|(Q1 & Q2 & Q3)]; lia.
Qed.

(* ---------------------------------------------------------------- the reference, step by step *)
Lemma read_lens_done : forall rf ct acc s, read_lens rf ct 0 acc s = HOk (frev acc) s.
Proof. intros rf ct acc s. destruct rf; reflexivity. Qed.

Lemma read_lens_lt16 : forall rf ct total acc s d s1,
  decode_sym ct s = DOk d s1 -> (d < 16)%nat -> (total <> 0)%nat ->
  read_lens (S rf) ct total acc s = read_lens rf ct (total - 1) (d :: acc) s1.
Proof.
  intros rf ct total acc s d s1 Hd Hlt Ht. destruct total as [|t]; [contradiction|].
  cbn [read_lens]. rewrite Hd.
  destruct (Nat.ltb_spec d 16) as [_|Hc]; [reflexivity|lia].
Qed.

Lemma read_lens_rep : forall rf ct total acc s d s1 ebits base what ev s2 v,
  decode_sym ct s = DOk d s1 -> (16 <= d)%nat ->
  (if (d =? 16)%nat then (2%nat, 3%nat, hd_error acc)
   else if (d =? 17)%nat then (3%nat, 3%nat, Some 0%nat)
   else (7%nat, 11%nat, Some 0%nat)) = (ebits, base, what) ->
  take ebits s1 = Some (ev, s2) -> what = Some v ->
  (total <> 0)%nat -> (base + N.to_nat ev <= total)%nat ->
  read_lens (S rf) ct total acc s
  = read_lens rf ct (total - (base + N.to_nat ev)) (repeat v (base + N.to_nat ev) ++ acc) s2.
Proof.
  intros rf ct total acc s d s1 ebits base what ev s2 v Hd Hge Hsel Htk Hw Ht Hle.
  destruct total as [|t]; [contradiction|].
  cbn [read_lens]. rewrite Hd.
  destruct (Nat.ltb_spec d 16) as [Hc|_]; [lia|].
  rewrite Hsel. rewrite Htk. rewrite Hw.
  destruct (Nat.ltb_spec (S t) (base + N.to_nat ev)) as [Hc|_]; [lia|]. reflexivity.
Qed.

Lemma nth_le15 : forall (l : list nat) k, Forall (fun x => (x <= 15)%nat) l -> (nth k l 0 <= 15)%nat.
Proof.
  intros l k H. destruct (nth_in_or_default k l 0%nat) as [Hin|E]; [|lia].
  rewrite Forall_forall in H. apply H. exact Hin.
Qed.

Lemma snoc_case : forall (L : list nat), L = [] \/ exists L0 v, L = L0 ++ [v].
Proof.
  intros L. destruct L as [|a r]; [left; reflexivity|right].
  destruct (@exists_last _ (a :: r) ltac:(discriminate)) as (L0 & v & E). exists L0, v. exact E.
Qed.

Lemma rl_over : forall f clcS clcL split endv st, (endv < rl_curr st)%Z ->
  exists err, rl_loop f clcS clcL split endv st = (st, err) /\ err <> ENone.
Proof.
  intros f clcS clcL split endv st H. destruct f as [|f]; cbn [rl_loop].
  - exists EFuel. split; [reflexivity|discriminate].
  - destruct (Z.ltb_spec (rl_curr st) endv) as [Hc|_]; [lia|].
    destruct (Z.ltb_spec endv (rl_curr st)) as [_|Hc]; [|lia]. cbn [orb].
    exists EInvalidBlock. split; [reflexivity|discriminate].
Qed.

(* ---------------------------------------------------------------- the simulation *)
Definition sim_concl (nlit ndist : nat) (ct : trie) (st : rlst) (L : list nat)
           (res : rlst * ierr) : Prop :=
  let '(st', err) := res in
  br_wf (rl_b st') /\
  ((r_len (rl_b st) < 0)%Z -> (r_len (rl_b st') < 0)%Z) /\
  (err = ENone -> (0 <= r_len (rl_b st'))%Z ->
   exists L', length L' = (nlit + ndist)%nat /\ rl_inv nlit ndist st' L' /\
     nth 256 (firstn nlit L') 0%nat <> 0%nat /\
     forall rf e p, (nlit + ndist - length L <= rf)%nat ->
       exists p', read_lens rf ct (nlit + ndist - length L) (rev L) (mkbs (br_bits (rl_b st) ++ e) p)
                  = HOk L' (mkbs (br_bits (rl_b st') ++ e) p')).

(* an error result: only well-formedness (and negativity) matter *)
Lemma sim_concl_err : forall nlit ndist ct st L st' err,
  br_wf (rl_b st') -> ((r_len (rl_b st) < 0)%Z -> (r_len (rl_b st') < 0)%Z) -> err <> ENone ->
  sim_concl nlit ndist ct st L (st', err).
Proof.
  intros nlit ndist ct st L st' err Hwf Hn He. unfold sim_concl.
  split; [exact Hwf|]. split; [exact Hn|]. intros E; contradiction.
Qed.

(* one step of both sides, then the rest *)
Lemma sim_chain : forall nlit ndist ct st L st1 L1 res,
  sim_concl nlit ndist ct st1 L1 res ->
  (0 <= r_len (rl_b st))%Z ->
  (length L < length L1)%nat ->
  ((0 <= r_len (rl_b st1))%Z -> forall rf e p, exists pp,
     read_lens (S rf) ct (nlit + ndist - length L) (rev L) (mkbs (br_bits (rl_b st) ++ e) p)
     = read_lens rf ct (nlit + ndist - length L1) (rev L1) (mkbs (br_bits (rl_b st1) ++ e) pp)) ->
  (length L < nlit + ndist)%nat ->
  sim_concl nlit ndist ct st L res.
Proof.
  intros nlit ndist ct st L st1 L1 [st' err] (R1 & R2 & R3) H0 Hlen Hstep Hroom. unfold sim_concl.
  split; [exact R1|]. split; [intros Hn; lia|].
  intros He Hf.
  assert (H1 : (0 <= r_len (rl_b st1))%Z).
  { destruct (Z.ltb_spec (r_len (rl_b st1)) 0) as [Hn|Hn]; [|exact Hn]. specialize (R2 Hn). lia. }
  destruct (R3 He Hf) as (L' & F1 & F2 & F3 & F4).
  exists L'. split; [exact F1|]. split; [exact F2|]. split; [exact F3|].
  intros rf e p Hrf. destruct rf as [|rf]; [lia|].
  destruct (Hstep H1 rf e p) as [pp Hpp]. rewrite Hpp. apply F4. lia.
Qed.

Lemma rl_sim : forall nlit ndist cl ct clcS clcL,
  dims_ok nlit ndist -> mktrie 7 cl = Some ct -> clc_tab_ok cl clcS clcL ->
  forall fuel st L, br_wf (rl_b st) -> rl_inv nlit ndist st L ->
  sim_concl nlit ndist ct st L
    (rl_loop fuel clcS clcL (Z.of_nat nlit) (286 + Z.of_nat ndist)%Z st).
Proof.
  intros nlit ndist cl ct clcS clcL Hd Hmk Hok.
  induction fuel as [|f IH]; intros st L Hwf Hinv.
  { cbn [rl_loop]. apply sim_concl_err; [exact Hwf|auto|discriminate]. }
  cbn [rl_loop].
  destruct (rl_inv_curr_lt _ _ _ _ Hd Hinv) as [Hlt Hle].
  pose proof Hd as [Hnl Hnd].
  destruct (Z.ltb_spec (rl_curr st) (286 + Z.of_nat ndist)) as [Hc|Hc].
  2: { (* all lengths read *)
    assert (Hfull : length L = (nlit + ndist)%nat).
    { destruct Hinv as (I1 & _). destruct (Nat.lt_ge_cases (length L) (nlit + ndist)) as [H|H]; [|lia].
      apply Hlt in H. lia. }
    destruct (Z.ltb_spec (286 + Z.of_nat ndist) (rl_curr st)) as [Hc'|_]; [lia|]. cbn [orb].
    destruct (N.eqb_spec (hc_len (aget (rl_h st) 256)) 0) as [E|E].
    - apply sim_concl_err; [exact Hwf|auto|discriminate].
    - unfold sim_concl. split; [exact Hwf|]. split; [auto|]. intros _ _.
      exists L. split; [exact Hfull|]. split; [exact Hinv|]. split.
      + destruct Hinv as (_ & _ & (A1 & A2 & _)).
        rewrite (A2 256 ltac:(lia)) in E. change (N.to_nat 256) with 256%nat in E.
        rewrite hc_len_set0 in E.
        * lia.
        * rewrite nth_firstn_lt by lia. pose proof (nth_le15 L 256 A1). lia.
      + intros rf e p _. exists p. replace (nlit + ndist - length L)%nat with 0%nat by lia.
        rewrite read_lens_done. unfold frev. rewrite <- rev_alt, rev_involutive. reflexivity. }
  assert (Hroom : (length L < nlit + ndist)%nat) by (apply Hlt; exact Hc).
  destruct (clc_step cl ct clcS clcL (rl_b st) Hmk Hok Hwf)
    as (b1 & sym & b2 & L1 & D & W2 & Nneg & Hdec).
  rewrite L1, D.
  set (st0 := rl_set_b st b2).
  assert (Hinv0 : rl_inv nlit ndist st0 L) by exact Hinv.
  destruct (Z.ltb_spec (r_len b2) 0) as [Hneg|Hpos].
  { match goal with |- context[if ?c then _ else _] => destruct c end;
      (apply sim_concl_err; [exact W2|intros _; exact Hneg|discriminate]). }
  assert (Hstart : (0 <= r_len (rl_b st))%Z).
  { destruct (Z.ltb_spec (r_len (rl_b st)) 0) as [Hn|Hn]; [|exact Hn]. specialize (Nneg Hn). lia. }
  assert (HNN : forall b', (r_len (rl_b st) < 0)%Z -> (r_len b' < 0)%Z) by (intros; lia).
  destruct (Hdec Hpos) as [E511|(d & len & Esym & Hds)].
  { subst sym. cbn [N.ltb N.eqb N.compare Pos.compare Pos.compare_cont Pos.eqb orb].
    apply sim_concl_err; [exact W2|apply HNN|discriminate]. }
  destruct (N.ltb_spec sym 16) as [T1|T1].
  { (* a length *)
    subst sym.
    destruct (rl_put_ok nlit ndist st0 L d Hd Hinv0 Hroom ltac:(lia)) as (st1 & E1 & I1 & B1).
    rewrite E1.
    apply (sim_chain nlit ndist ct st L st1 (L ++ [d])).
    - apply IH; [rewrite B1; exact W2|exact I1].
    - exact Hstart.
    - rewrite app_length. cbn [length]. lia.
    - intros _ rf e p. exists (p + N.of_nat len).
      rewrite (read_lens_lt16 rf ct (nlit + ndist - length L)%nat (rev L) _ d _ (Hds e p) ltac:(lia) ltac:(lia)).
      rewrite B1. change (rl_b st0) with b2. rewrite rev_unit, app_length. cbn [length].
      replace (nlit + ndist - length L - 1)%nat with (nlit + ndist - (length L + 1))%nat by lia.
      reflexivity.
    - exact Hroom. }
  destruct (N.eqb_spec sym 16) as [T2|T2].
  { (* repeat the previous length *)
    assert (Ed : d = 16%nat) by lia. subst d. clear Esym.
    destruct (xbits_step b2 2 W2 Hpos ltac:(lia)) as (b3 & ret & b4 & X1 & X2 & X3 & X4).
    rewrite X1, X2.
    destruct (snoc_case L) as [->|(L0 & v & ->)].
    set (st2 := rl_set_b st0 b4).
    { rewrite (rl_inv_prev_nil nlit ndist st2 Hinv). rewrite orb_true_r.
      apply sim_concl_err; [exact X3|apply HNN|discriminate]. }
    set (st2 := rl_set_b st0 b4).
    destruct (rl_inv_prev nlit ndist st2 _ _ Hd Hinv) as [Hrep Hprev].
    destruct (Z.eqb_spec (rl_prev st2) (-1)) as [Hc'|_]; [contradiction|]. rewrite orb_false_r.
    rewrite Hrep.
    set (L := L0 ++ [v]) in *.
    assert (Hv : (v <= 15)%nat).
    { destruct Hinv as (_ & _ & (A1 & _)). rewrite Forall_forall in A1. apply A1.
      unfold L. apply in_or_app. right. left. reflexivity. }
    assert (Hinv2 : rl_inv nlit ndist st2 L) by exact Hinv.
    replace (Z.to_nat (Z.of_N (3 + ret))) with (3 + N.to_nat ret)%nat by lia.
    destruct (Nat.le_gt_cases (length L + (3 + N.to_nat ret)) (nlit + ndist)) as [Hfit|Hover].
    2: { (* the run passes the end *)
      match goal with |- sim_concl _ _ _ _ _ (if ?c then _ else _) =>
        assert (Ec : c = true); [|rewrite Ec] end.
      { destruct Hinv2 as (_ & (P1 & P2) & _).
        destruct P2 as [(Q1 & Q2 & Q3)|(Q1 & Q2 & Q3)]; rewrite Q2;
          (match goal with |- context[(?a <=? ?b)%Z] => destruct (Z.leb_spec a b) end);
          (match goal with |- context[(Z.of_nat nlit <? ?b)%Z] => destruct (Z.ltb_spec (Z.of_nat nlit) b) end);
          cbn [andb];
          (match goal with |- context[(?a <? ?b)%Z] => destruct (Z.ltb_spec a b) end);
          try reflexivity; lia. }
      cbn [orb]. apply sim_concl_err; [exact X3|apply HNN|discriminate]. }
    match goal with |- sim_concl _ _ _ _ _ (if ?c then _ else _) =>
      assert (Ec : c = false); [|rewrite Ec] end.
    { destruct Hinv2 as (_ & (P1 & P2) & _).
      destruct P2 as [(Q1 & Q2 & Q3)|(Q1 & Q2 & Q3)]; rewrite Q2;
          (match goal with |- context[(?a <=? ?b)%Z] => destruct (Z.leb_spec a b) end);
          (match goal with |- context[(Z.of_nat nlit <? ?b)%Z] => destruct (Z.ltb_spec (Z.of_nat nlit) b) end);
          cbn [andb];
          (match goal with |- context[(?a <? ?b)%Z] => destruct (Z.ltb_spec a b) end);
          try reflexivity; lia. }
    cbn [orb].
    destruct (rl_rep_ok (3 + N.to_nat ret) nlit ndist st2 L v Hd Hinv2 Hfit Hv) as (st3 & E3 & I3 & B3).
    rewrite E3.
    apply (sim_chain nlit ndist ct st L st3 (L ++ repeat v (3 + N.to_nat ret))).
    - apply IH; [rewrite B3; exact X3|exact I3].
    - exact Hstart.
    - rewrite app_length, repeat_length. lia.
    - rewrite B3. change (rl_b st2) with b4. intros Hp4 rf e p. exists (p + N.of_nat len + 2).
      rewrite (read_lens_rep rf ct (nlit + ndist - length L)%nat (rev L) _ 16%nat _ 2%nat 3%nat (hd_error (rev L)) ret _ v
                 (Hds e p) ltac:(lia) eq_refl (X4 Hp4 e (p + N.of_nat len))).
      + rewrite rev_app_distr, rev_repeat, app_length, repeat_length.
        replace (nlit + ndist - length L - (3 + N.to_nat ret))%nat
          with (nlit + ndist - (length L + (3 + N.to_nat ret)))%nat by lia.
        reflexivity.
      + unfold L. rewrite rev_unit. reflexivity.
      + lia.
      + lia.
    - exact Hroom. }
  destruct (N.eqb_spec sym 17) as [T3|T3]; [|destruct (N.eqb_spec sym 18) as [T4|T4]]; cbn [orb].
  3: { apply sim_concl_err; [exact W2|apply HNN|discriminate]. }
  { (* 3..10 zeros *)
    assert (Ed : d = 17%nat) by lia. subst d. clear Esym.
    destruct (xbits_step b2 3 W2 Hpos ltac:(lia)) as (b3 & ret & b4 & X1 & X2 & X3 & X4).
    rewrite X1, X2.
    pose proof (rl_zeros_state nlit ndist st0 L (Z.of_N (3 + ret)) b4 Hd Hinv0 ltac:(lia)) as Zs.
    cbv zeta in Zs. revert Zs.
    match goal with |- context[if ?c then _ else _] => destruct c end; intros [Zs1 Zs2].
    all: replace (Z.to_nat (Z.of_N (3 + ret))) with (3 + N.to_nat ret)%nat in Zs1, Zs2 by lia.
    all: destruct (Nat.le_gt_cases (length L + (3 + N.to_nat ret)) (nlit + ndist)) as [Hfit|Hover].
    all: try (match goal with |- sim_concl _ _ _ _ _ (rl_loop _ _ _ _ _ ?stx) =>
              destruct (rl_over f clcS clcL (Z.of_nat nlit) (286 + Z.of_nat ndist)%Z stx
                          (Zs2 Hover)) as (err & Er & Ene); rewrite Er;
              apply sim_concl_err; [exact X3|apply HNN|exact Ene] end).
    all: match goal with |- sim_concl _ _ _ _ _ (rl_loop _ _ _ _ _ ?stx) =>
           apply (sim_chain nlit ndist ct st L stx (L ++ repeat 0%nat (3 + N.to_nat ret)));
           [apply IH; [exact X3|exact (Zs1 Hfit)]
           |exact Hstart
           |rewrite app_length, repeat_length; lia
           |
           |exact Hroom] end.
    all: cbn [rl_b]; intros Hp4 rf e p; exists (p + N.of_nat len + 3);
      rewrite (read_lens_rep rf ct (nlit + ndist - length L)%nat (rev L) _ 17%nat _ 3%nat 3%nat (Some 0%nat) ret _ 0%nat
                 (Hds e p) ltac:(lia) eq_refl (X4 Hp4 e (p + N.of_nat len)) eq_refl ltac:(lia) ltac:(lia));
      rewrite rev_app_distr, rev_repeat, app_length, repeat_length;
      replace (nlit + ndist - length L - (3 + N.to_nat ret))%nat
          with (nlit + ndist - (length L + (3 + N.to_nat ret)))%nat by lia;
      reflexivity. }
  { (* 11..138 zeros *)
    assert (Ed : d = 18%nat) by lia. subst d. clear Esym.
    destruct (xbits_step b2 7 W2 Hpos ltac:(lia)) as (b3 & ret & b4 & X1 & X2 & X3 & X4).
    rewrite X1, X2.
    pose proof (rl_zeros_state nlit ndist st0 L (Z.of_N (11 + ret)) b4 Hd Hinv0 ltac:(lia)) as Zs.
    cbv zeta in Zs. revert Zs.
    match goal with |- context[if ?c then _ else _] => destruct c end; intros [Zs1 Zs2].
    all: replace (Z.to_nat (Z.of_N (11 + ret))) with (11 + N.to_nat ret)%nat in Zs1, Zs2 by lia.
    all: destruct (Nat.le_gt_cases (length L + (11 + N.to_nat ret)) (nlit + ndist)) as [Hfit|Hover].
    all: try (match goal with |- sim_concl _ _ _ _ _ (rl_loop _ _ _ _ _ ?stx) =>
              destruct (rl_over f clcS clcL (Z.of_nat nlit) (286 + Z.of_nat ndist)%Z stx
                          (Zs2 Hover)) as (err & Er & Ene); rewrite Er;
              apply sim_concl_err; [exact X3|apply HNN|exact Ene] end).
    all: match goal with |- sim_concl _ _ _ _ _ (rl_loop _ _ _ _ _ ?stx) =>
           apply (sim_chain nlit ndist ct st L stx (L ++ repeat 0%nat (11 + N.to_nat ret)));
           [apply IH; [exact X3|exact (Zs1 Hfit)]
           |exact Hstart
           |rewrite app_length, repeat_length; lia
           |
           |exact Hroom] end.
    all: cbn [rl_b]; intros Hp4 rf e p; exists (p + N.of_nat len + 7);
      rewrite (read_lens_rep rf ct (nlit + ndist - length L)%nat (rev L) _ 18%nat _ 7%nat 11%nat (Some 0%nat) ret _ 0%nat
                 (Hds e p) ltac:(lia) eq_refl (X4 Hp4 e (p + N.of_nat len)) eq_refl ltac:(lia) ltac:(lia));
      rewrite rev_app_distr, rev_repeat, app_length, repeat_length;
      replace (nlit + ndist - length L - (11 + N.to_nat ret))%nat
          with (nlit + ndist - (length L + (11 + N.to_nat ret)))%nat by lia;
      reflexivity. }
Qed.

(* ---------------------------------------------------------------- the theorem *)
Lemma Forall_firstn_skipn : forall (P : nat -> Prop) n l, Forall P l ->
  Forall P (firstn n l) /\ Forall P (skipn n l).
Proof.
  intros P n l H. rewrite <- (firstn_skipn n l) in H. apply Forall_app in H. exact H.
Qed.

Theorem readLitDistLens_refine : readLitDistLens_refine_statement.
Proof.
  intros s hlit hdist clens ct e p Hwf H0 Hhl Hhd Hmk Hok Zh Zl Zd Ze.
  unfold readLitDistLens.
  set (nlit := (N.to_nat hlit + 257)%nat).
  set (ndist := (N.to_nat hdist + 1)%nat).
  assert (Hd : dims_ok nlit ndist) by (unfold dims_ok, nlit, ndist; lia).
  replace (Z.of_N (litTableSize + hlit)) with (Z.of_nat nlit) by (unfold litTableSize, nlit; lia).
  replace (Z.of_N (litLen + hdist + 1)) with (286 + Z.of_nat ndist)%Z by (unfold litLen, ndist; lia).
  set (st0 := mkRL (rd s) (litAndDistHuff (dyn s)) (litCount (dyn s)) (distCount (dyn s))
                   (litExpandCount (dyn s)) 0%Z (-1)%Z false).
  assert (Hinv0 : rl_inv nlit ndist st0 []).
  { unfold rl_inv. cbn [st0 rl_curr rl_prev rl_inDist rl_h rl_lc rl_dc rl_ex length].
    split; [lia|]. split.
    - unfold rl_pos. split; [lia|]. left. split; [lia|]. split; reflexivity.
    - apply rl_arr_init; assumption. }
  pose proof (rl_sim nlit ndist clens ct (clcShort (dyn s)) (clcLong (dyn s)) Hd Hmk Hok
                small_fuel st0 [] Hwf Hinv0) as Sim.
  destruct (rl_loop small_fuel (clcShort (dyn s)) (clcLong (dyn s)) (Z.of_nat nlit)
                    (286 + Z.of_nat ndist)%Z st0) as [st' err].
  destruct Sim as (R1 & R2 & R3).
  cbn [rd set_rd set_dyn tb phase dyn].
  split; [exact R1|].
  split; [unfold same_frame; cbn; repeat split; reflexivity|].
  split; [reflexivity|]. split; [reflexivity|].
  intros He Hf.
  destruct (R3 He Hf) as (L' & F1 & F2 & F3 & F4).
  destruct (F4 (nlit + ndist)%nat e p ltac:(cbn [length]; lia)) as [p' Hp'].
  cbn [length rev] in Hp'. rewrite Nat.sub_0_r in Hp'. change (rl_b st0) with (rd s) in Hp'.
  exists L', p'. split; [exact Hp'|]. split; [exact F1|].
  cbn zeta. split; [exact F3|].
  destruct F2 as (_ & _ & (A1 & A2 & A3 & A4 & A5 & A6 & A7)).
  destruct (Forall_firstn_skipn _ nlit L' A1) as [FA FB].
  destruct Hd as [Hnl Hnd].
  unfold set_dyn_counts. cbn [litAndDistHuff litCount distCount litExpandCount].
  split; [split; [|split; [exact A6|exact A7]]|].
  - unfold lens_in. split; [rewrite firstn_length; lia|]. split; [exact FA|].
    split; [intros i Hi; rewrite N.add_0_l; apply A2; exact Hi|exact A4].
  - unfold lens_in. split; [rewrite skipn_length; lia|]. split; [exact FB|].
    split; [intros i _; apply A3|exact A5].
Qed.

Print Assumptions readLitDistLens_refine.
