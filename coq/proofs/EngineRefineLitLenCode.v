(* EngineRefineLitLenCode.v -- facts about code values shared by the EngineRefineLitLen* files:
   bitReverse2 is rcode; the canonical code value of a symbol fits its length. *)
From Coq Require Import List NArith ZArith Bool Lia ZifyBool ZifyNat ZifyN.
From Verif Require Import Bits Huffman Inflate.
From Verif Require Import Base EngineTables Engine EngineRefineSpec.
From Verif Require Import EngineRefineLitLenBase EngineRefineLitLenDefs.
From Verif Require HuffmanProofs.
Import ListNotations.
Open Scope N_scope.

Lemma In_seqN : forall n a x, In x (seqN a n) <-> a <= x < a + N.of_nat n.
Proof.
  induction n as [|n IH]; intros a x.
  - cbn [seqN In]. lia.
  - cbn [seqN In]. rewrite IH. lia.
Qed.

Definition brcheck : bool :=
  forallb (fun len => forallb (fun c => bitReverse2 (u16 c) len =? rcode (N.to_nat len) c)
                              (seqN 0 (N.to_nat (2 ^ len)))) (seqN 1 15).

Lemma brcheck_true : brcheck = true.
Proof. vm_compute. reflexivity. Qed.

(* bits.Reverse16(code) >> (16 - len) is the bit reversal on len bits *)
Lemma bitReverse2_rcode : forall len c, 1 <= len <= 15 -> c < 2 ^ len ->
  bitReverse2 (u16 c) len = rcode (N.to_nat len) c.
Proof.
  intros len c Hl Hc. pose proof brcheck_true as H. unfold brcheck in H.
  rewrite forallb_forall in H. specialize (H len).
  rewrite In_seqN in H. specialize (H ltac:(lia)).
  rewrite forallb_forall in H. specialize (H c).
  rewrite In_seqN in H. specialize (H ltac:(lia)). lia.
Qed.

Lemma rcode_lt : forall len c, rcode len c < 2 ^ N.of_nat len.
Proof.
  intros len c. unfold rcode.
  pose proof (HuffmanProofs.N_of_bits_lt (code_bits len c)) as H.
  rewrite HuffmanProofs.code_bits_length in H. exact H.
Qed.

(* occurrences among the first i entries: strictly fewer than in the whole list *)
Lemma occ_firstn_lt : forall (l : lens) i x, (i < length l)%nat -> nth i l 0%nat = x ->
  HuffmanProofs.occ (firstn i l) x < HuffmanProofs.occ l x.
Proof.
  induction l as [|a l IH]; intros i x Hi Hx.
  - cbn [length] in Hi. lia.
  - destruct i as [|i].
    + cbn [nth] in Hx. subst a. cbn [firstn]. rewrite HuffmanProofs.occ_cons_same.
      unfold HuffmanProofs.occ at 1. cbn [count_occ]. lia.
    + cbn [nth] in Hx. cbn [firstn]. cbn [length] in Hi.
      specialize (IH i x ltac:(lia) Hx).
      destruct (Nat.eq_dec a x) as [->|Hne].
      * rewrite !HuffmanProofs.occ_cons_same. lia.
      * rewrite !HuffmanProofs.occ_cons_other by exact Hne. exact IH.
Qed.

(* the code value of a used symbol is below first_code + count, hence fits its length *)
Lemma cw_range : forall ll i, nth i ll 0%nat <> 0%nat ->
  first_code ll (nth i ll 0%nat) <= cw ll i /\
  cw ll i < first_code ll (nth i ll 0%nat) + HuffmanProofs.cnt ll (nth i ll 0%nat).
Proof.
  intros ll i Hn. unfold cw. split; [lia|].
  assert (Hi : (i < length ll)%nat).
  { destruct (Nat.lt_ge_cases i (length ll)) as [H|H]; [exact H|].
    rewrite nth_overflow in Hn by exact H. congruence. }
  pose proof (occ_firstn_lt ll i _ Hi eq_refl) as H.
  unfold HuffmanProofs.cnt. destruct (Nat.eqb_spec (nth i ll 0%nat) 0); [congruence|].
  unfold HuffmanProofs.occ in H. unfold count_len. unfold HuffmanProofs.occ. lia.
Qed.

Lemma cw_lt : forall ll i, Forall (fun x => (x <= 15)%nat) ll -> oversubscribed 15 ll = false ->
  nth i ll 0%nat <> 0%nat -> cw ll i < 2 ^ N.of_nat (nth i ll 0%nat).
Proof.
  intros ll i HF Ho Hn. destruct (cw_range ll i Hn) as [_ H].
  assert (Hle : (nth i ll 0%nat <= 15)%nat).
  { destruct (Nat.lt_ge_cases i (length ll)) as [Hi|Hi].
    - rewrite Forall_forall in HF. apply HF. apply nth_In. exact Hi.
    - rewrite nth_overflow by exact Hi. lia. }
  pose proof (HuffmanProofs.first_code_fits 15 ll _ Hle Ho). lia.
Qed.
