(* EngineCompleteDecompErr.v -- the error codes of readHeader: never EOutputOverflow,
   EInvalidSymbol or EInvalidLookBack (those are produced only by the block decoders), and
   decodeLiteralBlock reports EEndInput only when bytes of the block remain.  Plain case
   analysis of RModel/Engine.v (same technique as EngineRefineDecompErr.v). *)
From Coq Require Import List NArith ZArith Bool Lia ZifyBool ZifyNat ZifyN.
From Verif Require Import Base EngineTables Engine.
Import ListNotations.
Open Scope N_scope.

Definition hdr_err (e : ierr) : Prop :=
  match e with EOutputOverflow | EInvalidSymbol | EInvalidLookBack => False | _ => True end.

Ltac he_brk1 :=
  match goal with |- context [match ?x with _ => _ end] => destruct x end.
Ltac he_fin := cbn [snd hdr_err] in *; first [assumption | exact I].

Lemma he_iterN_inv : forall (S : Type) (P : S -> Prop) (f : N -> S -> S),
  (forall i s, P s -> P (f i s)) -> forall n i s, P s -> P (iterN n i f s).
Proof.
  intros S P f Hf n. induction n as [|n IH]; intros i s Hs; cbn [iterN]; [exact Hs|].
  apply IH. apply Hf. exact Hs.
Qed.

Lemma gen_small_herr : forall hdr sh lg codes n count ms,
  hdr_err (snd (gen_small hdr sh lg codes n count ms)).
Proof.
  intros hdr sh lg codes n count ms. unfold gen_small. cbv zeta.
  he_brk1; [cbn [snd hdr_err]; exact I|].
  he_brk1. he_brk1. he_brk1; [cbn [snd hdr_err]; exact I|].
  he_brk1.
  match goal with |- hdr_err (snd (match forN ?lo ?hi ?F ?init with _ => _ end)) =>
    assert (H : hdr_err (snd (forN lo hi F init))) end.
  { unfold forN. apply he_iterN_inv; [|cbn [snd hdr_err]; exact I].
    intros i [[[[sh1 lg1] cd1] lcl] pan] Hp. cbn [snd] in Hp.
    repeat he_brk1; cbn [snd hdr_err]; first [exact Hp|exact I]. }
  repeat he_brk1. cbn [snd hdr_err] in *. exact H.
Qed.

Lemma setAndExpand_herr : forall d, hdr_err (snd (setAndExpandLitLenHuffCode d)).
Proof.
  intros d. unfold setAndExpandLitLenHuffCode. cbv zeta.
  repeat he_brk1; cbn [snd hdr_err]; exact I.
Qed.

Lemma pairs_loop_herr : forall fuel short d length index1 iend,
  hdr_err (snd (pairs_loop fuel short d length index1 iend)).
Proof.
  induction fuel as [|f IH]; intros short d length index1 iend; cbn [pairs_loop].
  - cbn [snd hdr_err]. exact I.
  - repeat first [apply IH | he_brk1]; cbn [snd hdr_err]; exact I.
Qed.

Lemma encodePairs_herr : forall short d length minLen,
  hdr_err (snd (encodePairs short d length minLen)).
Proof. intros. unfold encodePairs. apply pairs_loop_herr. Qed.

Lemma triples_loop2_herr : forall fuel short d length sym1 sym1Len sym1Code index2 iend2,
  hdr_err (snd (triples_loop2 fuel short d length sym1 sym1Len sym1Code index2 iend2)).
Proof.
  induction fuel as [|f IH]; intros short d length sym1 sym1Len sym1Code index2 iend2;
    cbn [triples_loop2].
  - cbn [snd hdr_err]. exact I.
  - repeat first [apply IH | he_brk1]; cbn [snd hdr_err]; exact I.
Qed.

Lemma triples_loop1_herr : forall fuel short d length minLen index1 iend1,
  hdr_err (snd (triples_loop1 fuel short d length minLen index1 iend1)).
Proof.
  induction fuel as [|f IH]; intros short d length minLen index1 iend1; cbn [triples_loop1].
  - cbn [snd hdr_err]. exact I.
  - repeat first
      [ apply IH
      | match goal with
        | |- context [match triples_loop2 ?a ?b ?c ?d ?e ?f ?g ?h ?i with _ => _ end] =>
          pose proof (triples_loop2_herr a b c d e f g h i);
          destruct (triples_loop2 a b c d e f g h i)
        end
      | he_brk1 ]; cbn [snd hdr_err] in *; first [assumption|exact I].
Qed.

Lemma encodeTriples_herr : forall short d length minLen,
  hdr_err (snd (encodeTriples short d length minLen)).
Proof. intros. unfold encodeTriples. apply triples_loop1_herr. Qed.

Lemma genForLitLen_herr : forall sh lg d ms, hdr_err (snd (genForLitLen sh lg d ms)).
Proof.
  intros sh lg d ms. unfold genForLitLen. cbv zeta.
  he_brk1; [cbn [snd hdr_err]; exact I|].
  match goal with |- hdr_err (snd (match forN ?lo ?hi ?F ?init with _ => _ end)) =>
    assert (H : hdr_err (snd (forN lo hi F init))) end.
  { unfold forN. apply he_iterN_inv; [|cbn [snd hdr_err]; exact I].
    intros i [[t cs] err] Hp. cbn [snd] in Hp.
    repeat match goal with
      | |- context [match encodePairs ?a ?b ?c ?d with _ => _ end] =>
        pose proof (encodePairs_herr a b c d); destruct (encodePairs a b c d)
      | |- context [match encodeTriples ?a ?b ?c ?d with _ => _ end] =>
        pose proof (encodeTriples_herr a b c d); destruct (encodeTriples a b c d)
      | |- context [match ?x with _ => _ end] => destruct x
      end; cbn [snd hdr_err] in *; first [assumption|exact I]. }
  repeat he_brk1; cbn [snd hdr_err] in *; first [assumption|exact I].
Qed.

Lemma codeLenCodes_herr : forall s hclen, hdr_err (snd (codeLenCodes s hclen)).
Proof.
  intros s hclen. unfold codeLenCodes. cbv zeta.
  repeat match goal with
    | |- context [match gen_small ?a ?b ?c ?d ?e ?f ?g with _ => _ end] =>
      pose proof (gen_small_herr a b c d e f g); destruct (gen_small a b c d e f g)
    | |- context [match ?x with _ => _ end] => destruct x
    end; he_fin.
Qed.

Lemma rl_loop_herr : forall fuel clcS clcL split endv st,
  hdr_err (snd (rl_loop fuel clcS clcL split endv st)).
Proof.
  induction fuel as [|f IH]; intros clcS clcL split endv st; cbn [rl_loop].
  - cbn [snd hdr_err]. exact I.
  - repeat first [apply IH | he_brk1]; cbn [snd hdr_err]; exact I.
Qed.

Lemma readLitDistLens_herr : forall s hdist hlit,
  hdr_err (snd (readLitDistLens s hdist hlit)).
Proof.
  intros s hdist hlit. unfold readLitDistLens. cbv zeta.
  match goal with |- context [match rl_loop ?a ?b ?c ?d ?e ?f with _ => _ end] =>
    pose proof (rl_loop_herr a b c d e f); destruct (rl_loop a b c d e f) end.
  he_fin.
Qed.

Lemma setupDynamicHeader_herr : forall s, hdr_err (snd (setupDynamicHeader s)).
Proof.
  intros s. unfold setupDynamicHeader. cbv zeta.
  repeat match goal with
    | |- context [match codeLenCodes ?a ?b with _ => _ end] =>
      pose proof (codeLenCodes_herr a b); destruct (codeLenCodes a b)
    | |- context [match readLitDistLens ?a ?b ?c with _ => _ end] =>
      pose proof (readLitDistLens_herr a b c); destruct (readLitDistLens a b c)
    | |- context [match gen_small ?a ?b ?c ?d ?e ?f ?g with _ => _ end] =>
      pose proof (gen_small_herr a b c d e f g); destruct (gen_small a b c d e f g)
    | |- context [match setAndExpandLitLenHuffCode ?a with _ => _ end] =>
      pose proof (setAndExpand_herr a); destruct (setAndExpandLitLenHuffCode a)
    | |- context [match genForLitLen ?a ?b ?c ?d with _ => _ end] =>
      pose proof (genForLitLen_herr a b c d); destruct (genForLitLen a b c d)
    | |- context [match ?x with _ => _ end] => destruct x
    end; he_fin.
Qed.

Lemma prepareForLitBlock_herr : forall s, hdr_err (snd (prepareForLitBlock s)).
Proof.
  intros s. unfold prepareForLitBlock. cbv zeta.
  repeat he_brk1; cbn [snd hdr_err]; exact I.
Qed.

Lemma tryDecodeHeader_herr : forall s, hdr_err (snd (tryDecodeHeader s)).
Proof.
  intros s. unfold tryDecodeHeader. cbv zeta.
  repeat match goal with
    | |- context [prepareForLitBlock ?a] =>
      pose proof (prepareForLitBlock_herr a); destruct (prepareForLitBlock a)
    | |- context [setupDynamicHeader ?a] =>
      pose proof (setupDynamicHeader_herr a); destruct (setupDynamicHeader a)
    | |- context [match ?x with _ => _ end] => destruct x
    end; he_fin.
Qed.

Theorem readHeader_hdr_err : forall s, hdr_err (snd (readHeader s)).
Proof.
  intros s. unfold readHeader. cbv zeta.
  match goal with |- context [tryDecodeHeader ?x] =>
    pose proof (tryDecodeHeader_herr x) as H; destruct (tryDecodeHeader x) as [s2 err] end.
  cbn [snd] in H.
  destruct err; try (exfalso; exact H); repeat he_brk1; cbn [snd hdr_err]; exact I.
Qed.

(* decodeLiteralBlock reports "end of input" only when it copied fewer bytes than the block
   still has *)
Lemma lit_end_pos : forall s out w s' out' w',
  decodeLiteralBlock s out w = (s', out', w', EEndInput) -> 0 < litBlockLength s'.
Proof.
  intros s out w s' out' w'. unfold decodeLiteralBlock.
  set (s0 := set_phase s (if negb (bfinal s =? 0) then phaseStreamEnd else phaseNewBlock)).
  destruct (litBlockLength s0 =? 0) eqn:E0; [intros X; discriminate|].
  apply N.eqb_neq in E0.
  set (rest := outLen - w).
  assert (A : forall (len : N) (s1 : inflate) (e1 : ierr),
            len <= litBlockLength s1 -> e1 <> EEndInput ->
            (if ierr_eqb e1 EOutputOverflow && (rest =? 0) then (s1, out, w, e1)
             else
               let b := rd s1 in
               if (r_len b <? 0)%Z then (s1, out, w, EPanic)
               else
                 let avail := Z.to_N (r_len b) / 8 + r_inlen b in
                 let '(length, s, err) :=
                   if avail <? len then (avail, set_phase s1 phaseLitBlock, EEndInput)
                   else (len, s1, e1) in
                 let s := set_litBlockLength s (litBlockLength s - length) in
                 match lit_drain 16 b out w 0 length with
                 | None => (s, out, w, EFuel)
                 | Some (b, out, written, count, true) => (set_rd s b, out, written, err)
                 | Some (b, out, written, count, false) =>
                   let n := length - count in
                   let '(out, inrest) := copy_list (r_in b) (N.to_nat n) out written in
                   let num := N.min n (r_inlen b) in
                   (set_rd s (mkBR 0 (r_len b) inrest (r_inlen b - num)), out, written + num, err)
                 end) = (s', out', w', EEndInput) -> 0 < litBlockLength s').
  { intros len s1 e1 L NE.
    destruct (ierr_eqb e1 EOutputOverflow && (rest =? 0)).
    { intros X. exfalso. apply NE. exact (f_equal snd X). }
    cbv zeta. destruct (r_len (rd s1) <? 0)%Z; [intros X; discriminate (f_equal snd X)|].
    destruct (Z.to_N (r_len (rd s1)) / 8 + r_inlen (rd s1) <? len) eqn:EA.
    - apply N.ltb_lt in EA.
      destruct (lit_drain 16 (rd s1) out w 0 (Z.to_N (r_len (rd s1)) / 8 + r_inlen (rd s1)))
        as [[[[[b o] wr] cnt] [|]]|]; [| |intros X; discriminate (f_equal snd X)].
      + intros X. apply (f_equal (fun x => fst (fst (fst x)))) in X. cbn [fst] in X.
        subst s'. cbn [set_rd set_litBlockLength set_phase litBlockLength]. lia.
      + destruct (copy_list (r_in b) _ o wr) as [o2 inrest].
        intros X. apply (f_equal (fun x => fst (fst (fst x)))) in X. cbn [fst] in X.
        subst s'. cbn [set_rd set_litBlockLength set_phase litBlockLength]. lia.
    - destruct (lit_drain 16 (rd s1) out w 0 len)
        as [[[[[b o] wr] cnt] [|]]|]; [| |intros X; discriminate (f_equal snd X)].
      + intros X. exfalso. apply NE. exact (f_equal snd X).
      + destruct (copy_list (r_in b) _ o wr) as [o2 inrest].
        intros X. exfalso. apply NE. exact (f_equal snd X). }
  destruct (rest <? litBlockLength s0) eqn:ER.
  - apply N.ltb_lt in ER. apply A; [|discriminate].
    cbn [set_phase litBlockLength]. fold rest. lia.
  - apply A; [lia | discriminate].
Qed.

Print Assumptions readHeader_hdr_err.
Print Assumptions lit_end_pos.
