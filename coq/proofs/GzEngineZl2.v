(* GzEngineZl2.v -- GzEngineSpec2.v, zlib part: Reset of a reader that does not hold the standard
   library's inflater onto any bufio.Reader state (FDICT clear, the caller's dictionary is
   ignored), with the position the source is left in at io.EOF; and the "no over-read" corollary
   for NewReader.
     zl_sound_gen_from : ioReadFull_spec -> adler_update_app -> adler_sum -> newReader_on_inv ->
                         dReset_inv -> gz_dRead_ok -> dRead_strm -> zl_sticky -> zl_sound_gen_statement
     zl_consumed_from  : zl_sound_gen_statement -> zl_consumed_statement *)
From Coq Require Import List NArith ZArith Bool Lia.
From Verif Require Import Bits Huffman Inflate InflateSpec.
From Verif Require Import Containers ContainersSpec.
From Verif Require Import Base Engine EngineReset EngineRefineSpecBuf EngineRefineSpecReach
     EngineRefineSpecTop EngineRefineSpecFinal EngineRefineRun GzEngine.
From Verif Require Import GzEngineSpec EngineRefineBuf GzEngineSpec2 GzEngineZl.
Import ListNotations.
Open Scope N_scope.

(* see GzEngineZl.v: ioReadFull / dRead (loops on big_fuel) are unfolded last by the kernel.
   The setting is local to this file. *)
Local Strategy opaque [ioReadFull dRead big_fuel].

Lemma gnil_ok : forall e, gnil e = true -> e = GR ROk.
Proof.
  intros e G. destruct e as [r| | | | |]; try discriminate G. destruct r; try discriminate G. reflexivity.
Qed.

Lemma gnil_nok : forall e, e <> GR ROk -> gnil e = false.
Proof.
  intros e H. destruct (gnil e) eqn:G; [|reflexivity]. elim H. apply gnil_ok. exact G.
Qed.

(* ---------------------------------------------------------------- zl_read's leftover *)
Lemma zl_tail_left : forall l rest,
  status (Inflate.inflate [] l) = Done ->
  rest = skipn (N.to_nat ((bitpos (Inflate.inflate [] l) + 7) / 8)) l ->
  (4 <= length rest)%nat ->
  of_be (firstn 4 rest) = adler32 (out (Inflate.inflate [] l)) ->
  g_left (zl_tail l) = skipn 4 rest.
Proof.
  intros l rest Hd -> Hlen Hsum. unfold zl_tail. cbv zeta. unfold byte in *. rewrite Hd.
  match goal with |- context [(?a <? 4)%nat] => destruct (Nat.ltb_spec a 4) as [Hlt|_] end; [lia|].
  rewrite Hsum, N.eqb_refl. reflexivity.
Qed.

(* ---------------------------------------------------------------- after an error *)
Lemma zl_reads_stuck : zl_sticky_statement -> forall reads z acc,
  gnil (zl_err z) = false ->
  exists tl, zl_reads_g z reads acc = (rev acc ++ tl, z) /\
             Forall (fun br : list N * gres => br = ([], zl_err z)) tl.
Proof.
  intros (_ & K2 & _). induction reads as [|p rest IH]; intros z acc G.
  - exists []. cbn [zl_reads_g]. rewrite zfrev_rev, app_nil_r. split; [reflexivity|constructor].
  - cbn [zl_reads_g]. rewrite (K2 z p G). cbv beta iota.
    destruct (IH z (([], zl_err z) :: acc) G) as (tl & E & Hall).
    exists (([], zl_err z) :: tl). split.
    + rewrite E. cbn [rev]. rewrite <- app_assoc. reflexivity.
    + constructor; [reflexivity|exact Hall].
Qed.

(* ================================================================ the Reads, for a stream l
   that starts `base` bytes into the source `data` *)
Section Gen.
Variables (data : list N) (base : N) (l : list N).
Hypothesis HRF : ioReadFull_spec_statement.
Hypothesis HAA : adler_update_app_statement.
Hypothesis HAS : adler_sum_statement.
Hypothesis HDR : gz_dRead_ok_statement.
Hypothesis HST : dRead_strm_statement.
Hypothesis HSK : zl_sticky_statement.
Hypothesis Hl : bytes_ok l.
Hypothesis Hdl : exists D0, data = D0 ++ l /\ N.of_nat (length D0) = base.

Definition ZI2 (z : zlreader) (T : list N) : Prop :=
  exists d, strm_inv data (zl_r z) /\ zl_dec z = ZFast d /\
            gz_eng_inv base l T (set_rBuf d (zl_r z)) /\
            zl_digest z = adler_update adler0 T.

(* the state in which a Read that returns io.EOF leaves the reader *)
Definition EOFpost (z' : zlreader) : Prop :=
  g_err (zl_tail l) = CEOF /\ strm_inv data (zl_r z') /\
  bstream (zl_r z') = g_left (zl_tail l) /\ base <= consumed (zl_r z') /\ zl_fast z'.

Lemma strm_at2 : forall b n, strm_inv data b -> consumed b = base + n ->
  bstream b = skipn (N.to_nat n) l.
Proof.
  intros b n (_ & D & Hd & Hc) Hn. destruct Hdl as (D0 & H0 & HB).
  assert (Hl0 : l = skipn (length D0) data) by (rewrite H0; symmetry; apply skipn_len_app).
  rewrite Hl0, skipn_add.
  replace (length D0 + N.to_nat n)%nat with (length D) by lia.
  rewrite Hd. symmetry. apply skipn_len_app.
Qed.

Lemma zlRead_ok2 : forall z T p,
  ZI2 z T -> zl_err z = GR ROk ->
  let '(z', bytes, e) := zlRead z p in
  is_prefix (T ++ bytes) (out (Inflate.inflate [] l)) /\
  (e = GR ROk -> ZI2 z' (T ++ bytes) /\ zl_err z' = GR ROk) /\
  (e = GR REOF -> EOFpost z' /\ T ++ bytes = out (Inflate.inflate [] l)).
Proof.
  intros z T p (d & Hstrm & Hdec & Hinv & Hdig) Herr.
  unfold zlRead. rewrite Herr. cbn [gnil negb]. unfold zl_decRead. rewrite Hdec.
  pose proof (HDR base l T (set_rBuf d (zl_r z)) p Hl Hinv) as HR.
  assert (Hstrm0 : strm_inv data (rBuf (set_rBuf d (zl_r z)))) by exact Hstrm.
  pose proof (HST data (set_rBuf d (zl_r z)) p Hstrm0) as HS.
  destruct (dRead (set_rBuf d (zl_r z)) p) as [[d' bytes] r].
  destruct HR as (R1 & R2 & R3). destruct HS as (S1 & _ & _).
  cbv beta iota zeta. cbn [zl_r zl_dec zl_digest zl_err].
  assert (HZI : ZI2 (mkZL (rBuf d') (ZFast d') (adler_update (zl_digest z) bytes) (GR r)) (T ++ bytes)).
  { exists d'. cbn [zl_r zl_dec zl_digest]. split; [exact S1|]. split; [reflexivity|].
    split; [rewrite set_rBuf_same; exact R1|]. rewrite Hdig. apply HAA. }
  destruct (gisEOF (GR r)) eqn:Eeof; cbn [negb].
  2:{ split; [exact R2|]. split.
      - intros He. split; [exact HZI|exact He].
      - intros He. rewrite He in Eeof. discriminate Eeof. }
  assert (Hr : r = REOF) by (destruct r; try discriminate Eeof; reflexivity). subst r.
  destruct (R3 eq_refl) as (E1 & E2 & E3).
  set (IR := Inflate.inflate [] l) in *.
  pose proof (strm_at2 (rBuf d') _ S1 E3) as Hrest.
  pose proof (HRF (rBuf d') 4 (proj1 S1) ltac:(lia)) as HF.
  destruct (ioReadFull (rBuf d') 4) as [[buf r2] b3].
  destruct HF as (F1 & F2 & F3 & F4 & F5 & F6 & F7 & _).
  destruct r2; cbv beta iota zeta; cbn [noEOF];
    try (split; [exact R2|]; split; [intros He; discriminate He|intros He; discriminate He]).
  cbn [zl_set_r zl_digest zl_r zl_dec zl_err].
  destruct (of_be buf =? adler_sum (adler_update (zl_digest z) bytes)) eqn:Esum;
    cbn [negb]; cbv beta iota; (split; [exact R2|]).
  2:{ split; intros He; discriminate He. }
  split; [intros He; discriminate He|]. intros _. split; [|exact E2].
  apply N.eqb_eq in Esum. specialize (F7 eq_refl). unfold lenN in F7, F3.
  assert (Hbuf : firstn 4 (bstream (rBuf d')) = buf).
  { rewrite F2. replace 4%nat with (length buf) by lia. apply firstn_len_app. }
  assert (Hlen : (4 <= length (bstream (rBuf d')))%nat).
  { rewrite F2, app_length. lia. }
  assert (Hsum : of_be (firstn 4 (bstream (rBuf d'))) = adler32 (out (Inflate.inflate [] l))).
  { unfold byte. rewrite Hbuf, Esum, Hdig, HAA, HAS, E2. reflexivity. }
  unfold EOFpost. cbn [zl_set_r zl_r zl_dec].
  split; [exact (zl_tail_ceof l (bstream (rBuf d')) E1 Hrest Hlen Hsum)|].
  split.
  { destruct S1 as (_ & D & HD & HC). split; [exact F1|].
    exists (D ++ buf). split.
    - rewrite <- app_assoc, <- F2. exact HD.
    - rewrite F3, HC, app_length. lia. }
  split.
  { rewrite (zl_tail_left l (bstream (rBuf d')) E1 Hrest Hlen Hsum).
    rewrite F2. replace 4%nat with (length buf) by lia. symmetry. apply skipn_len_app. }
  split; [rewrite F3, E3; lia|].
  unfold zl_fast. cbn [zl_set_r zl_r zl_dec]. exact I.
Qed.

Lemma zl_reads_ok2 : forall reads z T acc,
  ZI2 z T -> zl_err z = GR ROk ->
  is_prefix T (out (Inflate.inflate [] l)) ->
  obs_bytes (rev acc) = T ->
  Forall (fun y : list N * gres => snd y = GR ROk) acc ->
  let '(lst, z2) := zl_reads_g z reads acc in
  is_prefix (obs_bytes lst) (out (Inflate.inflate [] l)) /\
  (In (GR REOF) (map snd lst) ->
     EOFpost z2 /\ obs_bytes lst = out (Inflate.inflate [] l)).
Proof.
  induction reads as [|p rest IH]; intros z T acc HZ Herr Hpre Hobs Hacc.
  - cbn [zl_reads_g]. rewrite zfrev_rev, Hobs. split; [exact Hpre|].
    intros Hin. apply (in_snd_ok _ _ Hacc) in Hin. discriminate Hin.
  - cbn [zl_reads_g].
    pose proof (zlRead_ok2 z T p HZ Herr) as HR.
    destruct (zlRead z p) as [[z' bytes] e] eqn:ER.
    destruct HR as (P1 & P2 & P3).
    assert (Hobs' : obs_bytes (rev ((bytes, e) :: acc)) = T ++ bytes).
    { cbn [rev]. rewrite obs_bytes_app, Hobs. unfold obs_bytes. cbn [map fst concat].
      rewrite app_nil_r. reflexivity. }
    destruct (gnil e) eqn:G.
    + pose proof (gnil_ok e G) as He.
      destruct (P2 He) as (Q1 & Q2).
      apply (IH z' (T ++ bytes) ((bytes, e) :: acc) Q1 Q2 P1 Hobs').
      constructor; [exact He|exact Hacc].
    + pose proof HSK as (K1 & _ & _).
      pose proof (K1 z p z' bytes e ER G) as Hz'.
      assert (G' : gnil (zl_err z') = false) by (rewrite Hz'; exact G).
      destruct (zl_reads_stuck HSK rest z' ((bytes, e) :: acc) G') as (tl & Etl & Hall).
      rewrite Etl. rewrite Hz' in Hall.
      assert (Hob : obs_bytes (rev ((bytes, e) :: acc) ++ tl) = T ++ bytes).
      { rewrite obs_bytes_app, Hobs', (obs_bytes_all_nil e tl Hall). apply app_nil_r. }
      rewrite Hob. split; [exact P1|].
      intros Hin. apply P3.
      rewrite map_app in Hin. apply in_app_or in Hin. destruct Hin as [Hin|Hin].
      * cbn [rev] in Hin. rewrite map_app in Hin. apply in_app_or in Hin. destruct Hin as [Hin|Hin].
        -- apply (in_snd_ok _ _ Hacc) in Hin. discriminate Hin.
        -- cbn [map snd In] in Hin. destruct Hin as [Hin|[]]. exact Hin.
      * symmetry. exact (in_snd_all e _ tl Hall Hin).
Qed.
End Gen.

(* ================================================================ Reset *)
(* the source as a whole: what b has consumed (contents irrelevant) followed by what is to come *)
Definition src_of (b : bufrd) : list N := repeat 0 (N.to_nat (consumed b)) ++ bstream b.

Lemma zlReset_ok2 :
  ioReadFull_spec_statement -> newReader_on_inv_statement -> dReset_inv_statement ->
  forall z b dict z1 e0,
    buf_ok b -> zl_fast z ->
    N.testbit (nth 1 (bstream b) 0) 5 = false ->
    zlReset z b dict = (z1, e0) ->
    zl_err z1 = e0 /\ e0 <> GR REOF /\
    (e0 = GR ROk ->
       zl_read None (bstream b) = zl_tail (skipn 2 (bstream b)) /\
       (exists D0, src_of b = D0 ++ skipn 2 (bstream b) /\ N.of_nat (length D0) = consumed b + 2) /\
       ZI2 (src_of b) (consumed b + 2) (skipn 2 (bstream b)) z1 []).
Proof.
  intros HRF HNI HDI z b dict z1 e0 B1 Hfast Hbit HN.
  unfold zlReset in HN. cbn [zl_r zl_dec] in HN.
  pose proof (HRF b 2 B1 ltac:(lia)) as HR.
  destruct (ioReadFull b 2) as [[buf r] b'].
  destruct HR as (R1 & R2 & R3 & R4 & R5 & R6 & R7 & R8 & _).
  destruct r; cbv beta iota zeta in HN;
    try (injection HN as <- <-; cbn [noEOF zl_set_err zl_err];
         split; [reflexivity|]; split; intros He; discriminate He).
  specialize (R7 eq_refl). unfold lenN in R7.
  destruct buf as [|s0 [|s1 [|s2 buf]]]; cbn [length] in R7; try lia.
  cbn [app] in R2.
  change (nthN [s0; s1] 0) with s0 in HN. change (nthN [s0; s1] 1) with s1 in HN.
  rewrite zl_hdr_test in HN.
  destruct (negb ((s0 mod 16 =? 8) && (s0 / 16 <=? 7) && ((s0 * 256 + s1) mod 31 =? 0))) eqn:Ehdr.
  { injection HN as <- <-. cbn [zl_set_err zl_err].
    split; [reflexivity|]. split; intros He; discriminate He. }
  assert (Hbit' : N.testbit s1 5 = false).
  { rewrite R2 in Hbit. exact Hbit. }
  rewrite (land32_testbit s1 Hbit') in HN.
  cbn [N.eqb negb gnil zl_set_r zl_r zl_dec zl_digest zl_err] in HN.
  assert (Hc : consumed b' = consumed b + 2).
  { rewrite R3. unfold lenN. cbn [length]. reflexivity. }
  assert (Hsrc : exists D0, src_of b = D0 ++ skipn 2 (bstream b) /\
                            N.of_nat (length D0) = consumed b + 2).
  { exists (repeat 0 (N.to_nat (consumed b)) ++ [s0; s1]). split.
    - unfold src_of. rewrite R2. cbn [skipn]. rewrite <- app_assoc. reflexivity.
    - rewrite app_length, repeat_length. cbn [length]. lia. }
  assert (Hstrm : strm_inv (src_of b) b').
  { split; [exact R1|]. exists (repeat 0 (N.to_nat (consumed b)) ++ [s0; s1]). split.
    - unfold src_of. rewrite R2, <- app_assoc. reflexivity.
    - rewrite Hc, app_length, repeat_length. cbn [length]. lia. }
  assert (Htail : zl_read None (bstream b) = zl_tail (skipn 2 (bstream b))).
  { apply zl_read_tail.
    - rewrite R2. reflexivity.
    - rewrite R2. cbn [nth]. exact Ehdr.
    - exact Hbit. }
  assert (Hsk : skipn 2 (bstream b) = bstream b') by (rewrite R2; reflexivity).
  unfold zl_fast in Hfast.
  destruct (zl_dec z) as [|d0|sd]; [| |contradiction Hfast];
    injection HN as <- <-; (split; [reflexivity|]); (split; [intros He; discriminate He|]);
    intros _; (split; [exact Htail|]); (split; [exact Hsrc|]).
  - exists (newReader_on b'). cbn [zl_r zl_dec zl_digest].
    split; [exact Hstrm|]. split; [reflexivity|]. split; [|reflexivity].
    replace (set_rBuf (newReader_on b') b') with (newReader_on b') by reflexivity.
    pose proof (HNI b' R1) as HI. rewrite Hc in HI. rewrite Hsk. exact HI.
  - exists (dReset d0 b'). cbn [zl_r zl_dec zl_digest].
    split; [exact Hstrm|]. split; [reflexivity|]. split; [|reflexivity].
    replace (set_rBuf (dReset d0 b') b') with (dReset d0 b') by reflexivity.
    pose proof (HDI d0 b' R1) as HI. rewrite Hc in HI. rewrite Hsk. exact HI.
Qed.

(* ================================================================ the theorems *)
Theorem zl_sound_gen_from :
  ioReadFull_spec_statement -> adler_update_app_statement -> adler_sum_statement ->
  newReader_on_inv_statement -> dReset_inv_statement -> gz_dRead_ok_statement ->
  dRead_strm_statement -> zl_sticky_statement ->
  zl_sound_gen_statement.
Proof.
  intros HRF HAA HAS HNI HDI HDR HST HSK z b dict reads B1 Hbytes Hfast s Hbit R.
  destruct (zlReset z b dict) as [z1 e0] eqn:EN.
  destruct (zl_reads_g z1 reads []) as [lst z2] eqn:EL.
  destruct (zlReset_ok2 HRF HNI HDI z b dict z1 e0 B1 Hfast Hbit EN) as (Herr & Hne & Hok).
  split; [exact Herr|].
  destruct (gnil e0) eqn:G.
  - pose proof (gnil_ok e0 G) as He.
    destruct (Hok He) as (Htail & Hsrc & HZ).
    subst R s. rewrite Htail, zl_tail_ctor, zl_tail_payload.
    set (l := skipn 2 (bstream b)) in *.
    assert (Hl : bytes_ok l) by (apply bytes_ok_skipn; exact Hbytes).
    pose proof (zl_reads_ok2 (src_of b) (consumed b + 2) l HRF HAA HAS HDR HST HSK Hl Hsrc
                  reads z1 [] [] HZ (eq_trans Herr He) (ex_intro _ _ eq_refl) eq_refl
                  (Forall_nil _)) as HRun.
    rewrite EL in HRun. destruct HRun as (R1 & R2).
    split; [intros _; reflexivity|].
    split; [intros Hn; elim Hn; exact He|].
    split; [exact R1|].
    split; [intros Hn Hin; apply Hn; exact (proj1 (proj1 (R2 Hin)))|].
    intros Hin. destruct (R2 Hin) as ((C1 & C2 & C3 & C4 & C5) & C6).
    split; [exact He|]. split; [exact C1|]. split; [exact C6|].
    destruct C2 as (Ok2 & D & HD & HC).
    split; [exact Ok2|]. split; [exact C3|].
    rewrite <- C3.
    assert (HlenD : (N.to_nat (consumed b) <= length D)%nat) by lia.
    split.
    + exists (skipn (N.to_nat (consumed b)) D).
      assert (E : bstream b = skipn (N.to_nat (consumed b)) (src_of b)).
      { unfold src_of.
        pose proof (skipn_len_app N (repeat 0 (N.to_nat (consumed b))) (bstream b)) as X.
        rewrite repeat_length in X. symmetry. exact X. }
      rewrite E, HD, skipn_app.
      replace (N.to_nat (consumed b) - length D)%nat with 0%nat by lia. reflexivity.
    + split; [|exact C5].
      apply (f_equal (@length N)) in HD. unfold src_of in HD.
      rewrite !app_length, repeat_length in HD. unfold lenN, byte in *. lia.
  - destruct (zl_reads_stuck HSK reads z1 [] ltac:(rewrite Herr; exact G)) as (tl & Etl & Hall).
    rewrite EL in Etl. injection Etl as -> ->. cbn [rev app]. rewrite Herr in Hall.
    assert (Hno : ~ In (GR REOF) (map snd tl)).
    { intros Hin. apply Hne. symmetry. exact (in_snd_all e0 _ tl Hall Hin). }
    split; [intros He; rewrite He in G; discriminate G|].
    split; [intros _; exact Hall|].
    split; [rewrite (obs_bytes_all_nil e0 tl Hall); exists (g_payload R); reflexivity|].
    split; [intros _; exact Hno|].
    intros Hin. elim (Hno Hin).
Qed.

Theorem zl_consumed_from : zl_sound_gen_statement -> zl_consumed_statement.
Proof.
  intros HG data cs bufsize t reads Hbytes Hcs Hne Hbit.
  destruct (newbuf_ok bufsize cs t Hne) as (B1 & B2 & B3).
  change (mkBuf (N.max bufsize 16) [] 0 None cs t 0) with (mkbufrd bufsize cs t) in *.
  unfold zlrun_ext, zlNewReaderDict.
  set (b := mkbufrd bufsize cs t) in *. clearbody b.
  assert (Hs : bstream b = data) by (rewrite B2; exact Hcs).
  assert (Hf : zl_fast (zlZero b)) by exact I.
  pose proof (HG (zlZero b) b [] reads B1) as H. cbv zeta in H. rewrite Hs in H.
  specialize (H Hbytes Hf Hbit).
  destruct (zlReset (zlZero b) b []) as [z1 e0].
  destruct (zl_reads_g z1 reads []) as [lst z2].
  destruct H as (_ & _ & _ & _ & _ & H6).
  destruct (gnil e0); cbn [negb]; cbv beta iota.
  - intros Hin. destruct (H6 Hin) as (_ & _ & _ & _ & _ & _ & H7 & _).
    rewrite H7, B3. reflexivity.
  - intros [].
Qed.

Print Assumptions zl_sound_gen_from.
Print Assumptions zl_consumed_from.
