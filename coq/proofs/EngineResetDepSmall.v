(* SNAPSHOT (frozen copy, taken for the Reset-equivalence proof EngineResetProofs.v) of
   proofs/EngineSafetySmall.v as of 2026-10-01 23:40; only the module name differs.  It can be
   replaced by an import of EngineSafetySmall once that file is final. *)
(* EngineSafetySmall.v -- safety of the small-table builder of RModel/Engine.v:
   setCodes, gen_small (GenerateForHeader / genForDists) and codeLenCodes.

   Delivered: setCodes_spec, gen_small_hdr_safe, gen_small_dist_safe (exact statements),
   codeLenCodes_core and codeLenCodes_spec_v2.

   DEVIATION.  codeLenCodes_spec as requested is FALSE: its conjunct (-64 <= r_len (rd s')) does
   not follow from br_ok 43 (rd s), which allows an exhausted input (r_inlen = 0) with an
   arbitrarily negative bitsLen; codeLenCodes only subtracts 12 + 3*hclen from it.
   Counterexample (proved below as codeLenCodes_spec_counterexample):
     s = set_rd inflate0 (mkBR 0 (-100) [] 0), hclen = 0:  all hypotheses hold and
     r_len (rd (fst (codeLenCodes s 0))) = -112 < -64.
   codeLenCodes_spec_v2 = the requested statement with the ONE extra hypothesis
   (0 <= r_len (rd s))%Z (true at the call site in setupDynamicHeader); nothing else changed.
   codeLenCodes_core = the requested statement without any extra hypothesis, where that one
   conjunct is replaced by (r_len (rd s) - 57 <= r_len (rd s'))%Z (conclusion packaged as clc_post). *)
From Verif Require Import Engine EngineTables.
From Verif Require Import Base EngineSafetyBase EngineSafetyBits EngineSafetyInv.
From Coq Require Import List NArith ZArith Bool Lia ZifyBool ZifyNat ZifyN.
Import ListNotations.
Open Scope N_scope.

(* ---------------------------------------------------------------- finite checks *)
Fixpoint allb (n : nat) (f : N -> bool) : bool :=
  match n with O => true | S k => f (N.of_nat k) && allb k f end.

Lemma allb_spec : forall n f, allb n f = true -> forall i, i < N.of_nat n -> f i = true.
Proof.
  induction n as [|k IH]; intros f H i Hi.
  - cbn in Hi. lia.
  - cbn [allb] in H. apply andb_prop in H. destruct H as [H1 H2].
    destruct (N.eq_dec i (N.of_nat k)) as [->|Hne]; [exact H1|].
    apply IH; [exact H2|lia].
Qed.

Lemma allb2_spec : forall n m (f : N -> N -> bool),
  allb n (fun a => allb m (fun b => f a b)) = true ->
  forall a b, a < N.of_nat n -> b < N.of_nat m -> f a b = true.
Proof.
  intros n m f H a b Ha Hb.
  pose proof (allb_spec n _ H a Ha) as H1. cbv beta in H1.
  exact (allb_spec m _ H1 b Hb).
Qed.

(* ---------------------------------------------------------------- huffCode fields *)
Lemma hc_set_lt : forall code len, hc_set code len < 4294967296.
Proof. intros. unfold hc_set. apply u32_lt. Qed.

Lemma hc_set_len : forall code len, code < 16777216 -> len < 256 -> hc_len (hc_set code len) = len.
Proof.
  intros code len Hc Hl. unfold hc_set, hc_len.
  rewrite u32_small.
  - apply shiftr_lor_shiftl. change (2 ^ 24) with 16777216. exact Hc.
  - change 4294967296 with (2 ^ 32). apply lor_lt_pow2.
    + change (2 ^ 32) with 4294967296. lia.
    + change 32 with (8 + 24). apply shiftl_lt_pow2. change (2 ^ 8) with 256. exact Hl.
Qed.

Lemma hc_setcode_spec : forall h c, h < 4294967296 ->
  hc_setcode h c < 4294967296 /\ hc_len (hc_setcode h c) = hc_len h.
Proof.
  intros h c Hh. unfold hc_setcode, hc_len. split.
  - change 4294967296 with (2 ^ 32). apply lor_lt_pow2.
    + apply N.le_lt_trans with h; [apply land_le_l|exact Hh].
    + apply N.le_lt_trans with 16777215; [apply land_le_r|reflexivity].
  - rewrite N.shiftr_lor, N.shiftr_land.
    change (N.shiftr 4278190080 24) with (N.ones 8).
    assert (H0 : N.shiftr (N.land c 16777215) 24 = 0).
    { apply N.shiftr_eq_0_iff.
      destruct (N.eq_dec (N.land c 16777215) 0) as [E|E]; [left; exact E|right].
      split; [lia|]. apply N.log2_lt_pow2; [lia|].
      apply N.le_lt_trans with 16777215; [apply land_le_r|reflexivity]. }
    rewrite H0, N.lor_0_r, N.land_ones. apply N.mod_small.
    change (2 ^ 8) with (2 ^ (32 - 24)). apply shiftr_lt.
    change (2 ^ (24 + (32 - 24))) with 4294967296. exact Hh.
Qed.

Lemma rev_bits_lt : forall n x acc, rev_bits n x acc < (acc + 1) * 2 ^ N.of_nat n.
Proof.
  induction n as [|k IH]; intros x acc.
  - cbn [rev_bits]. change (2 ^ N.of_nat 0) with 1. lia.
  - cbn [rev_bits]. rewrite Nat2N.inj_succ, N.pow_succ_r'.
    specialize (IH (N.shiftr x 1) (2 * acc + N.land x 1)).
    pose proof (land_le_r x 1) as Hb.
    set (p := 2 ^ N.of_nat k) in *. set (b := N.land x 1) in *.
    set (r := rev_bits k (N.shiftr x 1) (2 * acc + b)) in *.
    nia.
Qed.

Lemma bitReverse2_lt : forall code len, bitReverse2 code len < 65536.
Proof.
  intros code len. unfold bitReverse2.
  apply N.le_lt_trans with (rev_bits 16 (u16 code) 0).
  - rewrite N.shiftr_div_pow2. apply N.div_le_upper_bound; [apply N.pow_nonzero; lia|].
    set (r := rev_bits 16 (u16 code) 0).
    assert (1 <= 2 ^ u8 (subw 8 16 (u8 len))).
    { pose proof (N.pow_nonzero 2 (u8 (subw 8 16 (u8 len))) ltac:(lia)) as Hp. lia. }
    nia.
  - pose proof (rev_bits_lt 16 (u16 code) 0) as H.
    change ((0 + 1) * 2 ^ N.of_nat 16) with 65536 in H. exact H.
Qed.

(* ---------------------------------------------------------------- setCodes *)
Theorem setCodes_spec : forall table off n count t bad,
  setCodes table off n count = (t, bad) -> huff_ok table ->
  huff_ok t /\ (forall i, hc_len (aget t i) = hc_len (aget table i)).
Proof.
  intros table off n count t bad H Hok. unfold setCodes in H.
  match type of H with (if ?c then _ else _) = _ => destruct c end.
  - inversion H; subst. split; [exact Hok|reflexivity].
  - match type of H with (let '(_, _) := forN _ _ ?f ?s in _) = _ =>
      pose proof (forN_inv _ (fun st : arr * arr =>
         huff_ok (fst st) /\ (forall i, hc_len (aget (fst st) i) = hc_len (aget table i))) f 0 n s) as HP;
      destruct (forN 0 n f s) as [t' nc'] eqn:E
    end.
    inversion H; subst t' bad. cbn [fst] in HP. apply HP; clear HP.
    + split; [exact Hok|reflexivity].
    + intros j [t1 nc1] Hj [I1 I2]. cbn [fst] in *.
      destruct (hc_len (aget t1 (off + j)) =? 0) eqn:E0.
      * cbn [fst]. split; assumption.
      * cbn [fst].
        set (len := hc_len (aget t1 (off + j))) in *.
        assert (Hlen : len <= 15) by (apply (I1 (off + j))).
        pose proof (bitReverse2_lt (u16 (aget nc1 len)) len) as Hbr.
        set (code := bitReverse2 (u16 (aget nc1 len)) len) in *.
        assert (Hl : hc_len (hc_set code len) = len) by (apply hc_set_len; lia).
        split.
        -- intros i. rewrite aget_aset. destruct (i =? off + j).
           ++ split; [apply hc_set_lt|rewrite Hl; exact Hlen].
           ++ apply I1.
        -- intros i. rewrite aget_aset. destruct (N.eqb_spec i (off + j)) as [->|Hne].
           ++ rewrite Hl. unfold len. apply I2.
           ++ apply I2.
Qed.

(* ---------------------------------------------------------------- gen_small, decomposed *)
Definition gs_ct (count : arr) : arr :=
  forN 2 17 (fun i c => aset c i (u32 (aget c (i - 1) + aget count (i - 1)))) aempty.

Definition gs_sort (codes : arr) (ncodes : N) (ct : arr) : arr * arr * bool :=
  forN 0 ncodes (fun i (st : arr * arr * bool) =>
    let '(cl, ctt, pan) := st in
    let codeLength := hc_len (aget codes i) in
    if codeLength =? 0 then st
    else
      let ins := aget ctt codeLength in
      if 32 <=? ins then (cl, ctt, true)
      else (aset cl ins i, aset ctt codeLength (ins + 1), pan))
    (aempty, ct, false).

Definition gs_wr (hdr : bool) (codes cl : arr) (maxSymbol : N) (k : N) (t : arr) : arr :=
  let idx := aget cl k in
  let h := aget codes idx in
  if maxSymbol <=? idx then
    (if hdr then t else aset t (hc_code h) (u16 (hc_len h)))
  else if hdr then
    aset t (hc_code h) (u16 (N.lor idx (N.shiftl (hc_len h) 11)))
  else
    aset t (hc_code h)
         (u16 (N.lor (N.lor idx (N.shiftl (aget rfc_dist_extra idx) 5))
                     (N.shiftl (hc_len h) 11))).

Definition gs_short (hdr : bool) (short codes cl ct : arr) (maxSymbol lastLength copySize : N)
  : arr * N :=
  forN lastLength 11 (fun ll (st : arr * N) =>
    let '(t, cs) := st in
    let t := forN 0 (N.min cs (1024 - cs)) (fun i t => aset t (cs + i) (aget t i)) t in
    let t := forN (aget ct ll) (aget ct (ll + 1)) (gs_wr hdr codes cl maxSymbol) t in
    (t, cs * 2))
    (short, copySize).

Definition gs_group (hdr : bool) (cl codes : arr) (longCodeStart longCodeLength i firstBits : N)
           (init : N * list N) : N * list N :=
  forN (i + 1) longCodeLength (fun j (a : N * list N) =>
    let '(ml, tl) := a in
    let lj := aget cl (longCodeStart + j) in
    if N.land (hc_code (aget codes lj)) 1023 =? firstBits then
      let lenj := hc_len (aget codes lj) in
      ((if hdr then (if ml <? lenj then lenj else ml) else lenj), lj :: tl)
    else a) init.

Definition gs_fill (fuel : nat) (hdr : bool) (maxSymbol lcl grp : N) (a : arr * arr * bool) (sym : N)
  : arr * arr * bool :=
  let '(long, codes, pan) := a in
  let codeLength := hc_len (aget codes sym) in
  let longBits := u16 (N.shiftr (hc_code (aget codes sym)) 10) in
  let minInc := shl16 1 (codeLength - 10) in
  let entry :=
    if hdr then u16 (N.lor sym (N.shiftl codeLength 10))
    else if maxSymbol <? sym then u16 codeLength
    else u16 (N.lor (N.lor sym (N.shiftl (aget rfc_dist_extra sym) 5))
                    (N.shiftl codeLength 10)) in
  let '(long, pan) := long_fill fuel 80 mask16 long lcl longBits grp minInc entry pan in
  (long, aset codes sym (hc_setcode (aget codes sym) 0xFFFF), pan).

Definition gs_long_step (fuel : nat) (hdr : bool) (cl : arr) (maxSymbol longCodeStart longCodeLength : N)
           (i : N) (st : arr * arr * arr * N * ierr) : arr * arr * arr * N * ierr :=
  let '(short, long, codes, lcl, pan) := st in
  if negb (ierr_eqb pan ENone) then st
  else if 32 <=? longCodeStart + i then (short, long, codes, lcl, EPanic)
  else
    let li := aget cl (longCodeStart + i) in
    if hc_code (aget codes li) =? 0xFFFF then st
    else
      let maxLength0 := hc_len (aget codes li) in
      let firstBits := N.land (hc_code (aget codes li)) 1023 in
      let '(maxLength, tempRev) :=
        gs_group hdr cl codes longCodeStart longCodeLength i firstBits (maxLength0, [li]) in
      let temp := frev tempRev in
      let grp := N.shiftl 1 (maxLength - 10) in
      let clrEnd := lcl + (if hdr then 2 * grp else grp) in
      if negb hdr && (80 <? lcl + grp) then (short, long, codes, lcl, EInvalidBlock)
      else if 80 <? clrEnd then (short, long, codes, lcl, EPanic)
      else
        let long := forN lcl clrEnd (fun x t => aset t x 0) long in
        let '(long, codes, panb) :=
          fold_left (gs_fill fuel hdr maxSymbol lcl grp) temp (long, codes, false) in
        let short := aset short firstBits
                       (u16 (N.lor (N.lor lcl (N.shiftl maxLength 11)) smallFlagBit)) in
        (short, long, codes, lcl + grp, if panb then EPanic else ENone).

Definition gs_long (fuel : nat) (hdr : bool) (short long codes cl : arr) (maxSymbol longCodeStart longCodeLength : N)
  : arr * arr * arr * N * ierr :=
  forN 0 longCodeLength (gs_long_step fuel hdr cl maxSymbol longCodeStart longCodeLength)
       (short, long, codes, 0, ENone).

Lemma gen_small_eq : forall hdr short long codes ncodes count maxSymbol,
  gen_small hdr short long codes ncodes count maxSymbol =
  let ct := gs_ct count in
  let codeListLen := aget ct 16 in
  if codeListLen =? 0 then (aempty, long, codes, ENone)
  else
    let '(cl, _, pan0) := gs_sort codes ncodes ct in
    if pan0 then (short, long, codes, EPanic)
    else
      let lastLength0 := hc_len (aget codes (aget cl 0)) in
      let lastLength := if 10 <? lastLength0 then 11 else lastLength0 in
      let copySize := if lastLength =? 0 then 0 else N.shiftl 1 (lastLength - 1) in
      let short := forN 0 copySize (fun i t => aset t i 0) short in
      let '(short, _) := gs_short hdr short codes cl ct maxSymbol lastLength copySize in
      let longCodeStart := aget ct 11 in
      let longCodeLength := sub32 codeListLen longCodeStart in
      let '(short, long, codes, _, pan) :=
        gs_long small_fuel hdr short long codes cl maxSymbol longCodeStart longCodeLength in
      (short, long, codes, pan).
Proof.
  intros. cbv beta delta [gen_small gs_ct gs_sort gs_short gs_long gs_long_step gs_group gs_fill gs_wr].
  reflexivity.
Qed.

(* ---------------------------------------------------------------- the start offsets ct *)
(* count[1] + ... + count[n] *)
Fixpoint psum (c : arr) (n : nat) : N :=
  match n with O => 0 | S k => psum c k + aget c (N.of_nat (S k)) end.
(* the value of ct[k]: count[1] + ... + count[k-1] *)
Definition ctv (c : arr) (k : N) : N := psum c (N.to_nat (k - 1)).

Lemma psum_mono : forall c n m, (n <= m)%nat -> psum c n <= psum c m.
Proof.
  intros c n m H. induction H as [|m H IH]; [lia|]. cbn [psum]. lia.
Qed.

Lemma psum_15 : forall c, psum c 15 = sum15 c.
Proof. intros c. unfold sum15. cbn [psum]. cbn [N.of_nat Pos.of_succ_nat Pos.succ]. lia. Qed.

Lemma ctv_0 : forall c, ctv c 0 = 0.
Proof. reflexivity. Qed.
Lemma ctv_1 : forall c, ctv c 1 = 0.
Proof. reflexivity. Qed.

Lemma ctv_step : forall c l, 1 <= l -> ctv c (l + 1) = ctv c l + aget c l.
Proof.
  intros c l Hl. unfold ctv.
  replace (N.to_nat (l + 1 - 1)) with (S (N.to_nat (l - 1))) by lia.
  cbn [psum]. replace (N.of_nat (S (N.to_nat (l - 1)))) with l by lia. reflexivity.
Qed.

Lemma ctv_mono : forall c a b, a <= b -> ctv c a <= ctv c b.
Proof. intros c a b H. unfold ctv. apply psum_mono. lia. Qed.

Lemma ctv_16 : forall c, ctv c 16 = sum15 c.
Proof. intros c. unfold ctv. change (N.to_nat (16 - 1)) with 15%nat. apply psum_15. Qed.

Lemma ctv_le_sum : forall c k, k <= 16 -> ctv c k <= sum15 c.
Proof. intros c k H. rewrite <- ctv_16. apply ctv_mono. exact H. Qed.

Lemma gs_ct_spec : forall count, sum15 count <= 30 ->
  forall k, k <= 16 -> aget (gs_ct count) k = ctv count k.
Proof.
  intros count Hs. unfold gs_ct.
  assert (H : forall k, k < 17 ->
     aget (forN 2 17 (fun i c => aset c i (u32 (aget c (i - 1) + aget count (i - 1)))) aempty) k
     = ctv count k).
  { apply (forN_ind arr (fun j c => forall k, k < j -> aget c k = ctv count k)); [lia| |].
    - intros k Hk. rewrite aget_empty. unfold ctv.
      replace (N.to_nat (k - 1)) with 0%nat by lia. reflexivity.
    - intros j c Hj IH k Hk. rewrite aget_aset.
      destruct (N.eqb_spec k j) as [->|Hne].
      + rewrite (IH (j - 1)) by lia.
        replace j with ((j - 1) + 1) at 3 by lia.
        rewrite ctv_step by lia.
        apply u32_small.
        pose proof (ctv_le_sum count (j - 1 + 1) ltac:(lia)) as Hb.
        rewrite ctv_step in Hb by lia. lia.
      + apply IH. lia. }
  intros k Hk. apply H. lia.
Qed.

(* ---------------------------------------------------------------- count_len *)
Lemma count_len_mono : forall h base n m l, (n <= m)%nat -> count_len h base n l <= count_len h base m l.
Proof.
  intros h base n m l H. induction H as [|m H IH]; [lia|]. cbn [count_len]. lia.
Qed.

Lemma count_len_ext : forall h h' base n l,
  (forall i, hc_len (aget h' i) = hc_len (aget h i)) ->
  count_len h' base n l = count_len h base n l.
Proof.
  intros h h' base n l H. induction n as [|k IH]; [reflexivity|].
  cbn [count_len]. rewrite IH, H. reflexivity.
Qed.

Lemma count_len_succ : forall h j l,
  count_len h 0 (N.to_nat (j + 1)) l =
  count_len h 0 (N.to_nat j) l + (if hc_len (aget h j) =? l then 1 else 0).
Proof.
  intros h j l. replace (N.to_nat (j + 1)) with (S (N.to_nat j)) by lia.
  cbn [count_len]. replace (0 + N.of_nat (N.to_nat j)) with j by lia. reflexivity.
Qed.

(* ---------------------------------------------------------------- the counting sort *)
(* every slot of the length-l segment of the code list holds a code of length l *)
Definition cl_ok (codes count cl : arr) (ncodes : N) : Prop :=
  forall l k, 1 <= l <= 15 -> ctv count l <= k < ctv count (l + 1) ->
    aget cl k < ncodes /\ hc_len (aget codes (aget cl k)) = l.

Lemma gs_sort_spec : forall codes count ncodes ct,
  small_pre codes count ncodes ->
  (forall k, k <= 16 -> aget ct k = ctv count k) ->
  exists cl ctt, gs_sort codes ncodes ct = (cl, ctt, false) /\ cl_ok codes count cl ncodes.
Proof.
  intros codes count ncodes ct (P1 & P2 & P3 & P4) Hct.
  unfold gs_sort.
  match goal with |- exists cl ctt, forN 0 ncodes ?f ?s = _ /\ _ =>
    pose proof (forN_ind _ (fun j (st : arr * arr * bool) =>
      let '(cl, ctt, pan) := st in
      pan = false /\
      (forall l, 1 <= l <= 15 -> aget ctt l = ctv count l + count_len codes 0 (N.to_nat j) l) /\
      (forall l k, 1 <= l <= 15 -> ctv count l <= k < aget ctt l ->
         aget cl k < j /\ hc_len (aget codes (aget cl k)) = l)) f 0 ncodes s) as HI;
    destruct (forN 0 ncodes f s) as [[cl ctt] pan]
  end.
  assert (Hbound : forall j l, j <= ncodes -> 1 <= l <= 15 ->
            ctv count l + count_len codes 0 (N.to_nat j) l <= ctv count (l + 1)).
  { intros j l Hj Hl. rewrite ctv_step by lia. rewrite (P3 l Hl).
    pose proof (count_len_mono codes 0 (N.to_nat j) (N.to_nat ncodes) l ltac:(lia)). lia. }
  destruct HI as (I1 & I2 & I3).
  - lia.
  - split; [reflexivity|]. split.
    + intros l Hl. change (N.to_nat 0) with 0%nat. cbn [count_len]. rewrite Hct by lia. lia.
    + intros l k Hl Hk. rewrite Hct in Hk by lia. lia.
  - intros j [[cl1 ctt1] pan1] Hj (J1 & J2 & J3).
    destruct (hc_len (aget codes j) =? 0) eqn:E0.
    + split; [exact J1|]. split.
      * intros l Hl. rewrite count_len_succ, (J2 l Hl).
        destruct (N.eqb_spec (hc_len (aget codes j)) l); lia.
      * intros l k Hl Hk. destruct (J3 l k Hl Hk) as [A B]. split; [lia|exact B].
    + set (len := hc_len (aget codes j)) in *.
      assert (Hlen : 1 <= len <= 15) by (pose proof (P1 j); fold len in H; lia).
      pose proof (J2 len Hlen) as Hins.
      pose proof (Hbound (j + 1) len ltac:(lia) Hlen) as Hb1.
      rewrite count_len_succ in Hb1. fold len in Hb1. rewrite N.eqb_refl in Hb1.
      pose proof (ctv_le_sum count (len + 1) ltac:(lia)) as Hb2.
      destruct (32 <=? aget ctt1 len) eqn:E32; [lia|].
      split; [exact J1|]. split.
      * intros l Hl. rewrite count_len_succ. fold len. rewrite aget_aset.
        destruct (N.eqb_spec l len) as [->|Hne].
        -- rewrite N.eqb_refl. lia.
        -- rewrite (J2 l Hl). destruct (N.eqb_spec len l); lia.
      * intros l k Hl Hk. rewrite aget_aset in Hk.
        destruct (N.eqb_spec l len) as [->|Hne].
        -- rewrite aget_aset. destruct (N.eqb_spec k (aget ctt1 len)) as [->|Hk2].
           ++ split; [lia|reflexivity].
           ++ destruct (J3 len k Hl ltac:(lia)) as [A B]. split; [lia|exact B].
        -- pose proof (Hbound j l ltac:(lia) Hl) as Hb3. rewrite <- (J2 l Hl) in Hb3.
           assert (Hk2 : k <> aget ctt1 len).
           { destruct (N.lt_ge_cases l len) as [Hlt|Hge].
             - pose proof (ctv_mono count (l + 1) len ltac:(lia)). lia.
             - pose proof (ctv_mono count (len + 1) l ltac:(lia)). lia. }
           rewrite aget_aset_other by exact Hk2.
           destruct (J3 l k Hl Hk) as [A B]. split; [lia|exact B].
  - exists cl, ctt. subst pan. split; [reflexivity|].
    intros l k Hl Hk. apply I3; [exact Hl|].
    rewrite (I2 l Hl), <- (P3 l Hl), <- ctv_step by lia. exact Hk.
Qed.

(* ---------------------------------------------------------------- the short table *)
Lemma gs_short_inv : forall (P : N -> Prop) hdr short codes cl ct maxSymbol lastLength copySize,
  all_entries P short ->
  (forall ll k t, ll < 11 -> aget ct ll <= k < aget ct (ll + 1) ->
     all_entries P t -> all_entries P (gs_wr hdr codes cl maxSymbol k t)) ->
  all_entries P (fst (gs_short hdr short codes cl ct maxSymbol lastLength copySize)).
Proof.
  intros P hdr short codes cl ct maxSymbol lastLength copySize Hs Hw.
  unfold gs_short.
  apply (forN_inv _ (fun st : arr * N => all_entries P (fst st))); [exact Hs|].
  intros ll [t cs] Hll Ht. cbn [fst] in *.
  apply (forN_inv _ (all_entries P)).
  - apply (forN_inv _ (all_entries P)); [exact Ht|].
    intros i x _ Hx. apply all_entries_aset; [exact Hx|apply Hx].
  - intros k x Hk Hx. apply (Hw ll); [lia|exact Hk|exact Hx].
Qed.

Lemma zero_fill_inv : forall (P : N -> Prop) lo hi t,
  P 0 -> all_entries P t -> all_entries P (forN lo hi (fun i t => aset t i 0) t).
Proof.
  intros P lo hi t H0 Ht. apply (forN_inv _ (all_entries P)); [exact Ht|].
  intros i x _ Hx. apply all_entries_aset; assumption.
Qed.

(* entries, checked exhaustively *)
Definition clc_entry_okb (e : N) : bool := (e <? 32768) && (N.land e 1024 =? 0).
Lemma clc_entry_okb_ok : forall e, clc_entry_okb e = true -> clc_entry_ok e.
Proof. intros e H. unfold clc_entry_okb in H. unfold clc_entry_ok. lia. Qed.

Lemma hdr_entry_ok : forall idx len, idx < 32 -> len <= 15 ->
  clc_entry_ok (u16 (N.lor idx (N.shiftl len 11))).
Proof.
  intros idx len Hi Hl. apply clc_entry_okb_ok.
  apply (allb2_spec 32 16 (fun idx len => clc_entry_okb (u16 (N.lor idx (N.shiftl len 11)))));
    [vm_compute; reflexivity| |]; cbn; lia.
Qed.

Lemma dist_entry_ok : forall idx len, idx < 30 -> 1 <= len <= 15 ->
  dist_short_ok (u16 (N.lor (N.lor idx (N.shiftl (aget rfc_dist_extra idx) 5)) (N.shiftl len 11))).
Proof.
  intros idx len Hi Hl. apply dist_short_okb_ok.
  pose proof (allb2_spec 30 16 (fun idx len => (len =? 0) || dist_short_okb
     (u16 (N.lor (N.lor idx (N.shiftl (aget rfc_dist_extra idx) 5)) (N.shiftl len 11))))
     ltac:(vm_compute; reflexivity) idx len ltac:(cbn; lia) ltac:(cbn; lia)) as H.
  cbv beta in H. apply orb_prop in H. destruct H as [H|H]; [lia|exact H].
Qed.

Lemma dist_small_ok : forall e, e <= 15 -> dist_short_ok (u16 e) /\ dist_long_ok (u16 e).
Proof.
  intros e He.
  pose proof (allb_spec 16 (fun e => dist_short_okb (u16 e) && dist_long_okb (u16 e))
                ltac:(vm_compute; reflexivity) e ltac:(cbn; lia)) as H.
  cbv beta in H. apply andb_prop in H. destruct H as [H1 H2].
  split; [apply dist_short_okb_ok|apply dist_long_okb_ok]; assumption.
Qed.

Lemma dist_long_entry_ok : forall sym len, sym < 30 -> 1 <= len <= 15 ->
  dist_long_ok (u16 (N.lor (N.lor sym (N.shiftl (aget rfc_dist_extra sym) 5)) (N.shiftl len 10))).
Proof.
  intros sym len Hi Hl. apply dist_long_okb_ok.
  pose proof (allb2_spec 30 16 (fun sym len => (len =? 0) || dist_long_okb
     (u16 (N.lor (N.lor sym (N.shiftl (aget rfc_dist_extra sym) 5)) (N.shiftl len 10))))
     ltac:(vm_compute; reflexivity) sym len ltac:(cbn; lia) ltac:(cbn; lia)) as H.
  cbv beta in H. apply orb_prop in H. destruct H as [H|H]; [lia|exact H].
Qed.

Lemma dist_pointer_ok : forall lcl ml, 11 <= ml <= 15 -> lcl + N.shiftl 1 (ml - 10) <= 80 ->
  dist_short_ok (u16 (N.lor (N.lor lcl (N.shiftl ml 11)) smallFlagBit)).
Proof.
  intros lcl ml Hm Hl. apply dist_short_okb_ok.
  pose proof (allb2_spec 81 16 (fun lcl ml =>
     negb ((11 <=? ml) && (lcl + N.shiftl 1 (ml - 10) <=? 80)) ||
     dist_short_okb (u16 (N.lor (N.lor lcl (N.shiftl ml 11)) smallFlagBit)))
     ltac:(vm_compute; reflexivity) lcl ml ltac:(cbn; lia) ltac:(cbn; lia)) as H.
  cbv beta in H. apply orb_prop in H. destruct H as [H|H]; [|exact H].
  apply negb_true_iff in H. apply andb_false_iff in H. destruct H as [H|H]; lia.
Qed.

(* ---------------------------------------------------------------- GenerateForHeader *)
Lemma sub32_same : forall x, sub32 x x = 0.
Proof. intros x. unfold sub32, subw. rewrite N.leb_refl. lia. Qed.

Theorem gen_small_hdr_safe : forall short long codes count sh lg cs e,
  gen_small true short long codes 19 count 19 = (sh, lg, cs, e) ->
  small_pre codes count 19 -> (forall l, 8 <= l <= 15 -> aget count l = 0) ->
  all_entries clc_entry_ok short ->
  e = ENone /\ all_entries clc_entry_ok sh.
Proof.
  intros short long codes count sh lg cs e H Hpre Hz Hshort.
  rewrite gen_small_eq in H.
  pose proof Hpre as (P1 & P2 & P3 & P4).
  pose proof (gs_ct_spec count P4) as Hct.
  set (ct := gs_ct count) in *. cbv zeta in H.
  destruct (aget ct 16 =? 0) eqn:E16.
  { inversion H; subst. split; [reflexivity|]. apply all_entries_empty. exact clc_entry_ok_0. }
  destruct (gs_sort_spec codes count 19 ct Hpre Hct) as (cl & ctt & Es & Hcl).
  rewrite Es in H. cbv beta iota in H.
  match type of H with (let '(_, _) := gs_short true ?s0 codes cl ct 19 ?ll ?cp in _) = _ =>
    pose proof (gs_short_inv clc_entry_ok true s0 codes cl ct 19 ll cp) as Hsh;
    destruct (gs_short true s0 codes cl ct 19 ll cp) as [sh1 cs1]
  end.
  cbn [fst] in Hsh.
  assert (E11 : aget ct 11 = aget ct 16).
  { rewrite !Hct by lia.
    change 16 with (15 + 1). rewrite ctv_step by lia.
    change 15 with (14 + 1) at 1. rewrite ctv_step by lia.
    change 14 with (13 + 1) at 1. rewrite ctv_step by lia.
    change 13 with (12 + 1) at 1. rewrite ctv_step by lia.
    change 12 with (11 + 1) at 1. rewrite ctv_step by lia.
    rewrite !Hz by lia. lia. }
  rewrite E11, sub32_same in H. unfold gs_long in H. rewrite forN_empty in H by lia.
  inversion H; subst. split; [reflexivity|].
  apply Hsh.
  - apply zero_fill_inv; [exact clc_entry_ok_0|exact Hshort].
  - intros ll k t Hll Hk Ht. rewrite !Hct in Hk by lia.
    assert (Hll1 : 1 <= ll).
    { destruct (N.eq_dec ll 0) as [->|Hne]; [|lia].
      change (0 + 1) with 1 in Hk. rewrite ctv_0, ctv_1 in Hk. lia. }
    destruct (Hcl ll k ltac:(lia) Hk) as [A B].
    unfold gs_wr. cbv zeta. destruct (19 <=? aget cl k); [exact Ht|].
    apply all_entries_aset; [exact Ht|]. apply hdr_entry_ok; [lia|apply P1].
Qed.

(* ---------------------------------------------------------------- genForDists: long codes *)
Lemma long_fill_spec : forall (P : N -> Prop) bound wrap base lim minInc entry fuel long longBits pan long' pan',
  base + lim <= bound -> all_entries P long -> P entry ->
  long_fill fuel bound wrap long base longBits lim minInc entry pan = (long', pan') ->
  all_entries P long' /\ pan' = pan.
Proof.
  intros P bound wrap base lim minInc entry. induction fuel as [|f IH];
    intros long longBits pan long' pan' Hb Hl He H; cbn [long_fill] in H.
  - inversion H; subst. split; [exact Hl|reflexivity].
  - destruct (longBits <? lim) eqn:E1.
    + destruct (bound <=? base + longBits) eqn:E2; [lia|].
      apply IH in H; [exact H|exact Hb| |exact He].
      apply all_entries_aset; assumption.
    + inversion H; subst. split; [exact Hl|reflexivity].
Qed.

Definition codes_ok (codes0 codes : arr) : Prop :=
  forall i, aget codes i < 4294967296 /\ hc_len (aget codes i) = hc_len (aget codes0 i).
Definition longsym (codes0 : arr) (sym : N) : Prop :=
  sym < 30 /\ 11 <= hc_len (aget codes0 sym) <= 15.

Lemma Forall_rev_append : forall (A : Type) (Q : A -> Prop) l acc,
  Forall Q l -> Forall Q acc -> Forall Q (rev_append l acc).
Proof.
  intros A Q l. induction l as [|x r IH]; intros acc Hl Ha; cbn [rev_append]; [exact Ha|].
  inversion Hl; subst. apply IH; [assumption|]. constructor; assumption.
Qed.

Lemma Forall_frev : forall (A : Type) (Q : A -> Prop) l, Forall Q l -> Forall Q (frev l).
Proof. intros A Q l H. unfold frev. apply Forall_rev_append; [exact H|constructor]. Qed.

Lemma gs_group_spec : forall cl codes codes0 lcs lcl i fb ml0 tl0 ml tl,
  codes_ok codes0 codes ->
  (forall j, i + 1 <= j < lcl -> longsym codes0 (aget cl (lcs + j))) ->
  11 <= ml0 <= 15 -> Forall (longsym codes0) tl0 ->
  gs_group false cl codes lcs lcl i fb (ml0, tl0) = (ml, tl) ->
  11 <= ml <= 15 /\ Forall (longsym codes0) tl.
Proof.
  intros cl codes codes0 lcs lcl i fb ml0 tl0 ml tl Hc Hj Hm Ht H.
  unfold gs_group in H.
  match type of H with forN _ _ ?f ?s = _ =>
    pose proof (forN_inv _ (fun a : N * list N =>
       11 <= fst a <= 15 /\ Forall (longsym codes0) (snd a)) f (i + 1) lcl s) as HI
  end.
  rewrite H in HI. cbn [fst snd] in HI. apply HI; clear HI.
  - split; assumption.
  - intros j [m t] Hjr [A B]. cbn [fst snd] in *.
    destruct (_ =? fb); cbn [fst snd]; [|split; assumption].
    pose proof (Hj j Hjr) as [Q1 Q2].
    split.
    + rewrite (proj2 (Hc _)). exact Q2.
    + constructor; [split; assumption|exact B].
Qed.

Lemma gs_fill_spec : forall fuel codes0 lcl grp long codes pan sym long' codes' pan',
  lcl + grp <= 80 ->
  all_entries dist_long_ok long -> codes_ok codes0 codes -> longsym codes0 sym ->
  gs_fill fuel false 30 lcl grp (long, codes, pan) sym = (long', codes', pan') ->
  all_entries dist_long_ok long' /\ codes_ok codes0 codes' /\ pan' = pan.
Proof.
  intros fuel codes0 lcl grp long codes pan sym long' codes' pan' Hg Hl Hc [Q1 Q2] H.
  unfold gs_fill in H. cbv zeta in H.
  destruct (30 <? sym) eqn:E30; [lia|].
  match type of H with (let '(_, _) := ?lf in _) = _ => destruct lf as [l2 p2] eqn:Elf end.
  inversion H; subst l2 codes' p2. clear H.
  apply (long_fill_spec dist_long_ok) in Elf; [|exact Hg|exact Hl|].
  - destruct Elf as [A B]. split; [exact A|]. split; [|exact B].
    intros x. rewrite aget_aset.
    destruct (N.eqb_spec x sym) as [->|Hne]; [|apply Hc].
    destruct (hc_setcode_spec (aget codes sym) 65535 (proj1 (Hc sym))) as [S1 S2].
    split; [exact S1|]. rewrite S2. apply Hc.
  - apply dist_long_entry_ok; [exact Q1|]. rewrite (proj2 (Hc sym)). lia.
Qed.

Lemma gs_fill_fold : forall fuel codes0 lcl grp temp long codes pan long' codes' pan',
  lcl + grp <= 80 -> Forall (longsym codes0) temp ->
  all_entries dist_long_ok long -> codes_ok codes0 codes ->
  fold_left (gs_fill fuel false 30 lcl grp) temp (long, codes, pan) = (long', codes', pan') ->
  all_entries dist_long_ok long' /\ codes_ok codes0 codes' /\ pan' = pan.
Proof.
  intros fuel codes0 lcl grp temp. induction temp as [|sym r IH];
    intros long codes pan long' codes' pan' Hg Ht Hl Hc H; cbn [fold_left] in H.
  - inversion H; subst. split; [exact Hl|]. split; [exact Hc|reflexivity].
  - inversion Ht as [|? ? Hs Hr]; subst.
    destruct (gs_fill fuel false 30 lcl grp (long, codes, pan) sym) as [[l1 c1] p1] eqn:E1.
    apply gs_fill_spec with (codes0 := codes0) in E1; [|assumption..].
    destruct E1 as (A & B & C). subst p1.
    apply IH in H; assumption.
Qed.

Definition long_inv (codes0 : arr) (st : arr * arr * arr * N * ierr) : Prop :=
  let '(short, long, codes, lcl, pan) := st in
  all_entries dist_short_ok short /\ all_entries dist_long_ok long /\ codes_ok codes0 codes /\
  (pan = ENone \/ pan = EInvalidBlock) /\ lcl <= 80.

Lemma gs_long_step_inv : forall fuel codes0 cl lcs n i st,
  lcs + n <= 30 -> i < n ->
  (forall j, j < n -> longsym codes0 (aget cl (lcs + j))) ->
  long_inv codes0 st ->
  long_inv codes0 (gs_long_step fuel false cl 30 lcs n i st).
Proof.
  intros fuel codes0 cl lcs n i [[[[short long] codes] lcl] pan] Hn Hi Hsym (I1 & I2 & I3 & I4 & I5).
  unfold gs_long_step.
  destruct I4 as [-> | ->]; cbn [ierr_eqb negb].
  2:{ unfold long_inv. split; [exact I1|]. split; [exact I2|]. split; [exact I3|].
      split; [right; reflexivity|exact I5]. }
  destruct (32 <=? lcs + i) eqn:E32; [lia|].
  set (li := aget cl (lcs + i)).
  assert (Hli : longsym codes0 li) by (apply Hsym; exact Hi).
  assert (Hkeep : long_inv codes0 (short, long, codes, lcl, ENone)).
  { unfold long_inv. split; [exact I1|]. split; [exact I2|]. split; [exact I3|].
    split; [left; reflexivity|exact I5]. }
  destruct (hc_code (aget codes li) =? 65535); [exact Hkeep|].
  destruct (gs_group false cl codes lcs n i (N.land (hc_code (aget codes li)) 1023)
              (hc_len (aget codes li), [li])) as [ml tempRev] eqn:Eg.
  apply (gs_group_spec cl codes codes0) in Eg; [|exact I3| | |].
  2:{ intros j Hj. apply Hsym. lia. }
  2:{ rewrite (proj2 (I3 li)). exact (proj2 Hli). }
  2:{ constructor; [exact Hli|constructor]. }
  destruct Eg as [Hml Htemp].
  cbv zeta. cbn [negb andb].
  destruct (80 <? lcl + N.shiftl 1 (ml - 10)) eqn:E80.
  { unfold long_inv. split; [exact I1|]. split; [exact I2|]. split; [exact I3|].
    split; [right; reflexivity|exact I5]. }
  match goal with |- context [fold_left ?f ?l ?a] =>
    destruct (fold_left f l a) as [[long2 codes2] panb] eqn:Ef
  end.
  apply (gs_fill_fold fuel codes0) in Ef; [|lia|apply Forall_frev; exact Htemp| |exact I3].
  2:{ apply zero_fill_inv; [exact dist_long_ok_0|exact I2]. }
  destruct Ef as (F1 & F2 & ->).
  unfold long_inv. split.
  - apply all_entries_aset; [exact I1|]. apply dist_pointer_ok; [exact Hml|lia].
  - split; [exact F1|]. split; [exact F2|]. split; [left; reflexivity|lia].
Qed.

Lemma ctv_segment : forall count k, ctv count 11 <= k < ctv count 16 ->
  exists l, 11 <= l <= 15 /\ ctv count l <= k < ctv count (l + 1).
Proof.
  intros count k Hk.
  destruct (N.lt_ge_cases k (ctv count 12)); [exists 11; change (11 + 1) with 12; lia|].
  destruct (N.lt_ge_cases k (ctv count 13)); [exists 12; change (12 + 1) with 13; lia|].
  destruct (N.lt_ge_cases k (ctv count 14)); [exists 13; change (13 + 1) with 14; lia|].
  destruct (N.lt_ge_cases k (ctv count 15)); [exists 14; change (14 + 1) with 15; lia|].
  exists 15. change (15 + 1) with 16. lia.
Qed.

(* ---------------------------------------------------------------- genForDists *)
Theorem gen_small_dist_safe : forall short long codes count sh lg cs e,
  gen_small false short long codes 30 count 30 = (sh, lg, cs, e) ->
  small_pre codes count 30 ->
  all_entries dist_short_ok short -> all_entries dist_long_ok long ->
  (e = ENone \/ e = EInvalidBlock) /\
  (e = ENone -> all_entries dist_short_ok sh /\ all_entries dist_long_ok lg) /\
  (forall i, aget cs i < 4294967296 /\ hc_len (aget cs i) = hc_len (aget codes i)).
Proof.
  intros short long codes count sh lg cs e H Hpre Hshort Hlong.
  rewrite gen_small_eq in H.
  pose proof Hpre as (P1 & P2 & P3 & P4).
  pose proof (gs_ct_spec count P4) as Hct.
  set (ct := gs_ct count) in *. cbv zeta in H.
  assert (Hcodes : codes_ok codes codes) by (intros x; split; [apply P2|reflexivity]).
  destruct (aget ct 16 =? 0) eqn:E16.
  { inversion H; subst. split; [left; reflexivity|]. split; [|exact Hcodes].
    intros _. split; [|exact Hlong]. apply all_entries_empty. exact dist_short_ok_0. }
  destruct (gs_sort_spec codes count 30 ct Hpre Hct) as (cl & ctt & Es & Hcl).
  rewrite Es in H. cbv beta iota in H.
  match type of H with (let '(_, _) := gs_short false ?s0 codes cl ct 30 ?ll ?cp in _) = _ =>
    pose proof (gs_short_inv dist_short_ok false s0 codes cl ct 30 ll cp) as Hsh;
    destruct (gs_short false s0 codes cl ct 30 ll cp) as [sh1 cs1]
  end.
  cbn [fst] in Hsh.
  assert (Hsh1 : all_entries dist_short_ok sh1).
  { apply Hsh.
    - apply zero_fill_inv; [exact dist_short_ok_0|exact Hshort].
    - intros ll k t Hll Hk Ht. rewrite !Hct in Hk by lia.
      assert (Hll1 : 1 <= ll).
      { destruct (N.eq_dec ll 0) as [->|Hne]; [|lia].
        change (0 + 1) with 1 in Hk. rewrite ctv_0, ctv_1 in Hk. lia. }
      destruct (Hcl ll k ltac:(lia) Hk) as [A B].
      unfold gs_wr. cbv zeta. destruct (30 <=? aget cl k) eqn:E30; [lia|].
      apply all_entries_aset; [exact Ht|]. apply dist_entry_ok; [exact A|lia]. }
  clear Hsh.
  pose proof (ctv_mono count 11 16 ltac:(lia)) as Hm.
  pose proof (ctv_le_sum count 16 ltac:(lia)) as Hm16.
  assert (Esub : sub32 (aget ct 16) (aget ct 11) = ctv count 16 - ctv count 11).
  { rewrite !Hct by lia. unfold sub32, subw.
    destruct (ctv count 11 <=? ctv count 16) eqn:El; [reflexivity|lia]. }
  rewrite Esub in H. rewrite (Hct 11) in H by lia.
  set (n := ctv count 16 - ctv count 11) in *.
  assert (Hsym : forall j, j < n -> longsym codes (aget cl (ctv count 11 + j))).
  { intros j Hj.
    destruct (ctv_segment count (ctv count 11 + j) ltac:(lia)) as (l & Hl & Hk).
    destruct (Hcl l _ ltac:(lia) Hk) as [A B]. split; [exact A|lia]. }
  unfold gs_long in H.
  match type of H with context [forN 0 n ?f ?s] =>
    pose proof (forN_inv _ (long_inv codes) f 0 n s) as HI;
    destruct (forN 0 n f s) as [[[[sh2 lg2] cs2] lcl2] e2]
  end.
  inversion H; subst sh2 lg2 cs2 e2. clear H.
  destruct HI as (I1 & I2 & I3 & I4 & I5).
  - unfold long_inv. split; [exact Hsh1|]. split; [exact Hlong|]. split; [exact Hcodes|].
    split; [left; reflexivity|lia].
  - intros j x Hj Hx. apply gs_long_step_inv; [lia|lia|exact Hsym|exact Hx].
  - split; [exact I4|]. split; [|exact I3]. intros _. split; assumption.
Qed.

(* ---------------------------------------------------------------- codeLenCodes *)
Lemma clo_lt : forall i, i < 19 -> aget codeLengthOrder i < 19.
Proof.
  intros i Hi.
  pose proof (allb_spec 19 (fun i => aget codeLengthOrder i <? 19) ltac:(vm_compute; reflexivity)
                i ltac:(cbn; lia)) as H.
  cbv beta in H. lia.
Qed.

Lemma clo_inj : forall i j, i < 19 -> j < 19 ->
  aget codeLengthOrder i = aget codeLengthOrder j -> i = j.
Proof.
  intros i j Hi Hj H.
  pose proof (allb2_spec 19 19
     (fun i j => negb (aget codeLengthOrder i =? aget codeLengthOrder j) || (i =? j))
     ltac:(vm_compute; reflexivity) i j ltac:(cbn; lia) ltac:(cbn; lia)) as H1.
  cbv beta in H1. rewrite H, N.eqb_refl in H1. cbn [negb orb] in H1. lia.
Qed.

Lemma count_len_aset : forall h p v n l,
  hc_len (aget h p) <> l ->
  count_len (aset h p v) 0 n l =
  count_len h 0 n l + (if (p <? N.of_nat n) && (hc_len v =? l) then 1 else 0).
Proof.
  intros h p v n l Hp. induction n as [|k IH].
  - cbn [count_len]. replace (p <? N.of_nat 0) with false by lia. reflexivity.
  - cbn [count_len]. rewrite IH. rewrite aget_aset.
    replace (0 + N.of_nat k) with (N.of_nat k) by lia.
    destruct (N.eqb_spec (N.of_nat k) p) as [E|E].
    + replace (p <? N.of_nat k) with false by lia.
      replace (p <? N.of_nat (S k)) with true by lia. rewrite E. cbn [andb].
      destruct (N.eqb_spec (hc_len (aget h p)) l) as [E2|E2]; [contradiction|].
      destruct (hc_len v =? l); lia.
    + replace (p <? N.of_nat (S k)) with (p <? N.of_nat k) by lia.
      destruct (N.eqb_spec (hc_len (aget h (N.of_nat k))) l) as [E2|E2];
        destruct ((p <? N.of_nat k) && (hc_len v =? l)); lia.
Qed.

Lemma ainc_delta : forall c k i, aget (ainc c k) i = aget c i + (if i =? k then 1 else 0).
Proof.
  intros c k i. unfold ainc. rewrite aget_aset.
  destruct (N.eqb_spec i k) as [->|Hne]; lia.
Qed.

Lemma sum15_ainc : forall c k, sum15 (ainc c k) <= sum15 c + 1.
Proof.
  intros c k. unfold sum15. rewrite !ainc_delta.
  repeat match goal with |- context [if ?a =? k then _ else _] =>
    destruct (N.eqb_spec a k); [try lia|] end.
  all: lia.
Qed.

Definition tab_inv (j : N) (h c : arr) : Prop :=
  (forall p, aget h p < 4294967296 /\ hc_len (aget h p) <= 7) /\
  (forall i, j <= i < 19 -> aget h (aget codeLengthOrder i) = 0) /\
  (forall l, 1 <= l -> aget c l = count_len h 0 19 l) /\
  (forall l, 8 <= l -> aget c l = 0) /\
  sum15 c <= j.

Lemma tab_inv_empty : tab_inv 0 aempty aempty.
Proof.
  unfold tab_inv. split; [|split; [|split; [|split]]].
  - intros p. rewrite aget_empty. change (hc_len 0) with 0. split; lia.
  - intros i _. apply aget_empty.
  - intros l Hl. rewrite aget_empty.
    assert (H : forall n, count_len aempty 0 n l = 0 \/ l = 0).
    { induction n as [|k IH]; [left; reflexivity|]. cbn [count_len]. rewrite aget_empty.
      change (hc_len 0) with 0. destruct (N.eqb_spec 0 l); [right; lia|]. destruct IH; [left; lia|right; assumption]. }
    destruct (H 19%nat); lia.
  - intros l _. apply aget_empty.
  - unfold sum15. rewrite !aget_empty. lia.
Qed.

Lemma clc_loop_spec : forall lo hi m b0 h0 c0 b h c,
  lo <= hi -> hi <= 19 ->
  forN lo hi clc_read3 (b0, h0, c0) = (b, h, c) ->
  br_ok m b0 -> (3 * Z.of_N (hi - lo) <= m)%Z -> tab_inv lo h0 c0 ->
  br_ok (m - 3 * Z.of_N (hi - lo)) b /\ avail b = (avail b0 - 3 * Z.of_N (hi - lo))%Z /\
  r_inlen b = r_inlen b0 /\ r_len b = (r_len b0 - 3 * Z.of_N (hi - lo))%Z /\ tab_inv hi h c.
Proof.
  intros lo hi m b0 h0 c0 b h c Hlo Hhi H Hb Hm Ht.
  pose proof (forN_ind _ (fun j (st : bitrd * arr * arr) =>
     let '(b, h, c) := st in
     br_ok (m - 3 * Z.of_N (j - lo)) b /\ avail b = (avail b0 - 3 * Z.of_N (j - lo))%Z /\
     r_inlen b = r_inlen b0 /\ r_len b = (r_len b0 - 3 * Z.of_N (j - lo))%Z /\ tab_inv j h c)
     clc_read3 lo hi (b0, h0, c0) Hlo) as HI.
  rewrite H in HI. apply HI; clear HI H.
  - replace (lo - lo) with 0 by lia.
    split; [apply (br_ok_weaken m); [lia|exact Hb]|]. split; [lia|]. split; [reflexivity|].
    split; [lia|exact Ht].
  - intros j [[b1 h1] c1] Hj (B1 & B2 & B3 & B4 & (T1 & T2 & T3 & T4 & T5)).
    unfold clc_read3, next_bits. cbv beta iota zeta.
    set (len := N.land (r_bits b1) (N.ones 3)).
    assert (Hlen : len < 8) by (apply (land_ones_lt (r_bits b1) 3)).
    destruct (br_drop_ok _ b1 3 B1 ltac:(lia)) as (D1 & D2 & D3 & D4 & D5).
    split; [apply (br_ok_weaken _ _ _ ltac:(lia) D1) || (eapply br_ok_weaken; [|exact D1]; lia)|].
    split; [lia|]. split; [lia|]. split; [lia|].
    set (p := aget codeLengthOrder j).
    assert (Hp : p < 19) by (apply clo_lt; lia).
    assert (Hp0 : aget h1 p = 0) by (apply T2; lia).
    assert (Hl : hc_len (hc_set 0 len) = len) by (apply hc_set_len; lia).
    unfold tab_inv. split; [|split; [|split; [|split]]].
    + intros q. rewrite aget_aset. destruct (q =? p); [|apply T1].
      split; [apply hc_set_lt|rewrite Hl; lia].
    + intros i Hi. rewrite aget_aset_other; [apply T2; lia|].
      intro E. apply clo_inj in E; lia.
    + intros l Hl1. rewrite ainc_delta, (T3 l Hl1).
      rewrite count_len_aset by (rewrite Hp0; change (hc_len 0) with 0; lia).
      rewrite Hl. replace (p <? N.of_nat 19) with true by lia. cbn [andb].
      destruct (N.eqb_spec l len); destruct (N.eqb_spec len l); lia.
    + intros l Hl8. rewrite ainc_delta, (T4 l Hl8). destruct (N.eqb_spec l len); lia.
    + pose proof (sum15_ainc c1 len). lia.
Qed.

(* the conclusion of codeLenCodes_spec, with the lower bound of bitsLen as a parameter *)
Definition clc_post (s s' : inflate) (e : ierr) (lb : Z) : Prop :=
  (e = ENone \/ e = EEndInput \/ e = EInvalidBlock) /\
  clc_ok (dyn s') /\ br_inv (rd s') /\
  (e = ENone -> br_ok 12 (rd s') /\ (0 <= r_len (rd s'))%Z) /\
  (e = EEndInput -> r_inlen (rd s') = 0) /\
  (avail (rd s') <= avail (rd s))%Z /\ r_inlen (rd s') <= r_inlen (rd s) /\
  (lb <= r_len (rd s'))%Z /\
  same_outer s s' /\
  litAndDistHuff (dyn s') = litAndDistHuff (dyn s) /\ codeList (dyn s') = codeList (dyn s) /\
  litCount (dyn s') = litCount (dyn s) /\ distCount (dyn s') = distCount (dyn s) /\
  litExpandCount (dyn s') = litExpandCount (dyn s) /\ nextCode (dyn s') = nextCode (dyn s) /\
  lenHuffCodes (dyn s') = lenHuffCodes (dyn s).

Lemma clc_finish : forall s b d e lb,
  br_ok 12 b ->
  (e = ENone -> (0 <= r_len b)%Z) -> (e = EEndInput -> (r_len b < 0)%Z) ->
  (e = ENone \/ e = EEndInput \/ e = EInvalidBlock) ->
  (avail b <= avail (rd s))%Z -> r_inlen b <= r_inlen (rd s) -> (lb <= r_len b)%Z ->
  all_entries clc_entry_ok (clcShort d) ->
  litAndDistHuff d = litAndDistHuff (dyn s) -> codeList d = codeList (dyn s) ->
  litCount d = litCount (dyn s) -> distCount d = distCount (dyn s) ->
  litExpandCount d = litExpandCount (dyn s) -> nextCode d = nextCode (dyn s) ->
  lenHuffCodes d = lenHuffCodes (dyn s) ->
  clc_post s (set_dyn (set_rd s b) d) e lb.
Proof.
  intros s b d e lb Hb H0 Hneg He Hav Hin Hlb Hclc F1 F2 F3 F4 F5 F6 F7.
  unfold clc_post. cbn [rd dyn set_dyn set_rd].
  split; [exact He|]. split; [exact Hclc|]. split; [exact (proj1 Hb)|].
  split; [intros E; split; [exact Hb|exact (H0 E)]|].
  split; [intros E; apply (proj1 Hb); apply Hneg; exact E|].
  split; [exact Hav|]. split; [exact Hin|]. split; [exact Hlb|].
  split; [unfold same_outer; cbn; repeat split; reflexivity|].
  split; [exact F1|]. split; [exact F2|]. split; [exact F3|]. split; [exact F4|].
  split; [exact F5|]. split; [exact F6|exact F7].
Qed.

Lemma codeLenCodes_core : forall s hclen s' e,
  codeLenCodes s hclen = (s', e) -> hclen <= 15 ->
  br_ok 43 (rd s) -> clc_ok (dyn s) ->
  clc_post s s' e (r_len (rd s) - 57).
Proof.
  intros s hclen s' e H Hh Hb Hclc. unfold codeLenCodes in H.
  destruct (forN 0 4 clc_read3 (rd s, aempty, aempty)) as [[b1 h1] c1] eqn:E1.
  apply (clc_loop_spec 0 4 43) in E1; [|lia|lia|exact Hb|lia|exact tab_inv_empty].
  destruct E1 as (A1 & A2 & A3 & A4 & A5).
  change (Z.of_N (4 - 0)) with 4%Z in *.
  destruct (load_lt57_spec b1 (proj1 A1)) as (b2 & L1 & L2 & L3 & L4 & L5).
  rewrite L1 in H.
  destruct (forN 4 (hclen + 4) clc_read3 (b2, h1, c1)) as [[b3 h3] c3] eqn:E3.
  apply (clc_loop_spec 4 (hclen + 4) 57) in E3; [|lia|lia|exact L2|lia|exact A5].
  destruct E3 as (B1 & B2 & B3 & B4 & (T1 & T2 & T3 & T4 & T5)).
  replace (hclen + 4 - 4) with hclen in * by lia.
  assert (Hb3 : br_ok 12 b3) by (apply (br_ok_weaken (57 - 3 * Z.of_N hclen)); [lia|exact B1]).
  cbv zeta in H.
  assert (Hfin : forall e0, (e0 = ENone -> (0 <= r_len b3)%Z) -> (e0 = EEndInput -> (r_len b3 < 0)%Z) ->
            (e0 = ENone \/ e0 = EEndInput \/ e0 = EInvalidBlock) ->
            clc_post s (set_rd s b3) e0 (r_len (rd s) - 57)).
  { intros e0 G1 G2 G3. change (set_rd s b3) with (set_dyn (set_rd s b3) (dyn s)).
    apply clc_finish; try reflexivity; try assumption; lia. }
  destruct (r_len b3 <? 0)%Z eqn:Eneg.
  { inversion H; subst s' e. apply Hfin; [discriminate|lia|right; left; reflexivity]. }
  destruct (setCodes h3 0 19 c3) as [h4 bad] eqn:Esc.
  assert (Hh3 : huff_ok h3).
  { intros i. destruct (T1 i) as [X Y]. split; [exact X|lia]. }
  destruct (setCodes_spec _ _ _ _ _ _ Esc Hh3) as [Hh4 Hlen].
  destruct bad.
  { inversion H; subst s' e. apply Hfin; [discriminate|discriminate|right; right; reflexivity]. }
  cbn [dyn set_rd] in H.
  destruct (gen_small true (clcShort (dyn s)) (clcLong (dyn s)) h4 19 c3 19) as [[[sh lg] cs] e2] eqn:Eg.
  apply gen_small_hdr_safe in Eg; [| |intros l Hl; apply T4; lia|exact Hclc].
  2:{ unfold small_pre. split; [intros i; apply Hh4|]. split; [intros i; apply Hh4|].
      split; [|lia].
      intros l Hl. change (N.to_nat 19) with 19%nat.
      rewrite (count_len_ext h3 h4 0 19 l Hlen). apply T3. lia. }
  destruct Eg as [-> Hsh].
  inversion H; subst s' e.
  apply clc_finish; try reflexivity; try assumption; try discriminate; try lia.
  left; reflexivity.
Qed.

(* The statement of codeLenCodes_spec as given (lower bound -64 <= r_len (rd s') from br_ok 43 (rd s)
   alone) is FALSE: br_ok 43 allows an exhausted input with an arbitrarily negative bitsLen, and
   codeLenCodes only subtracts from it.  Concretely, with r_len = -100 and no input: *)
Definition cex_state : inflate := set_rd inflate0 (mkBR 0 (-100)%Z [] 0).

Lemma codeLenCodes_spec_counterexample :
  exists s hclen s' e,
    codeLenCodes s hclen = (s', e) /\ hclen <= 15 /\ br_ok 43 (rd s) /\ clc_ok (dyn s) /\
    ~ (-64 <= r_len (rd s'))%Z.
Proof.
  exists cex_state, 0, (fst (codeLenCodes cex_state 0)), (snd (codeLenCodes cex_state 0)).
  split; [destruct (codeLenCodes cex_state 0); reflexivity|]. split; [lia|].
  split.
  - unfold br_ok, br_inv, cex_state. cbn. split; [|left; reflexivity].
    split; [reflexivity|]. split; [lia|]. intros _. reflexivity.
  - split.
    + unfold clc_ok, cex_state. cbn. apply all_entries_empty. exact clc_entry_ok_0.
    + assert (E : r_len (rd (fst (codeLenCodes cex_state 0))) = (-112)%Z) by (vm_compute; reflexivity).
      rewrite E. lia.
Qed.

(* codeLenCodes_spec with the additional hypothesis (0 <= r_len (rd s)) -- it holds at the call
   site (setupDynamicHeader has just read hlit/hdist/hclen and checked bitsLen >= 0); everything
   else is exactly the requested statement. *)
Theorem codeLenCodes_spec_v2 : forall s hclen s' e,
  codeLenCodes s hclen = (s', e) -> hclen <= 15 ->
  br_ok 43 (rd s) -> clc_ok (dyn s) -> (0 <= r_len (rd s))%Z ->
  (e = ENone \/ e = EEndInput \/ e = EInvalidBlock) /\
  clc_ok (dyn s') /\ br_inv (rd s') /\
  (e = ENone -> br_ok 12 (rd s') /\ (0 <= r_len (rd s'))%Z) /\
  (e = EEndInput -> r_inlen (rd s') = 0) /\
  (avail (rd s') <= avail (rd s))%Z /\ r_inlen (rd s') <= r_inlen (rd s) /\
  (-64 <= r_len (rd s'))%Z /\
  same_outer s s' /\
  litAndDistHuff (dyn s') = litAndDistHuff (dyn s) /\ codeList (dyn s') = codeList (dyn s) /\
  litCount (dyn s') = litCount (dyn s) /\ distCount (dyn s') = distCount (dyn s) /\
  litExpandCount (dyn s') = litExpandCount (dyn s) /\ nextCode (dyn s') = nextCode (dyn s) /\
  lenHuffCodes (dyn s') = lenHuffCodes (dyn s).
Proof.
  intros s hclen s' e H Hh Hb Hclc H0.
  pose proof (codeLenCodes_core s hclen s' e H Hh Hb Hclc) as HP. unfold clc_post in HP.
  destruct HP as (C1 & C2 & C3 & C4 & C5 & C6 & C7 & C8 & C9).
  split; [exact C1|]. split; [exact C2|]. split; [exact C3|]. split; [exact C4|].
  split; [exact C5|]. split; [exact C6|]. split; [exact C7|]. split; [lia|exact C9].
Qed.

Print Assumptions setCodes_spec.
Print Assumptions gen_small_hdr_safe.
Print Assumptions gen_small_dist_safe.
Print Assumptions codeLenCodes_core.
Print Assumptions codeLenCodes_spec_v2.
Print Assumptions codeLenCodes_spec_counterexample.
