(* EngineRefineFinal.v -- assembly: every component statement instantiated with its proof; the
   unconditional top-level theorems about the engine model (RModel/Engine.v after fix b29ee69)
   against the reference inflater (Spec/Inflate.v).

   Statements in RModel/EngineRefineSpec*.v that were REFUTED or superseded while proving
   (the Definitions are kept where they were; nothing depends on them being true):
   - EngineRefineSpecBlock.decodeHuffman_refine_statement, EngineRefineSpecBlock2.
     decodeHuffman_refine2_statement: false as written (conclusion `ov s2 = ov0` with only
     writeOverflowLen = 0 assumed; a stale writeOverflowLits survives): refuted in
     proofs/EngineRefineHuffCex.v; proved form: EngineRefineSpecBlock3.
     decodeHuffman_refine3_statement (extra hypothesis writeOverflowLits (ov s) = 0).
   - EngineRefineSpecHdr.readHeader_refine_statement: not derivable without the invariant
     hdr_ok_staged (stale bits of the bit buffer must not refer to input beyond the staged
     bytes); proved form: EngineRefineSpecTop.readHeader_refine_body.
   - EngineRefineSpecTop.decomp_refine_statement / step_refine_statement: premises phrased
     with the refuted decodeHuffman_refine2_statement; proved forms:
     EngineRefineSpecFinal.decomp_body / step_refine_final_statement.
   - "io.EOF is only reported at the end of the final block" was FALSE for the engine before
     fix b29ee69 (see EngineRefineSpecFinal.v): found by this proof; the model and the Go code
     were fixed and the statement is now proved unconditionally (erun_sound). *)
From Coq Require Import List NArith ZArith Bool.
From Verif Require Import Bits Huffman Inflate InflateSpec InflateMono.
From Verif Require Import Base EngineTables Engine.
From Verif Require Import EngineRefineSpec EngineRefineSpecBlock EngineRefineSpecBlock2
     EngineRefineSpecBlock3 EngineRefineSpecHdr EngineRefineSpecReach EngineRefineSpecBuf
     EngineRefineSpecNeed EngineRefineSpecTop EngineRefineSpecFinal.
From Verif Require EngineRefineBits EngineRefineSmallClc EngineRefineSmallDist EngineRefineLitLenMain EngineRefineStatic
     EngineRefineHeaderClc EngineRefineHeaderRL EngineRefineHeaderNeed
     EngineRefineGlue EngineRefineGlueNeed EngineRefineStoredMain EngineRefineStoredNeed
     EngineRefineRdHdrA EngineRefineRdHdr EngineRefineRdHdrNeed EngineRefineHBound
     EngineRefineHuffMain EngineRefineDecomp EngineRefineBuf EngineRefineReach
     EngineRefineTop EngineRefineRun.
Import ListNotations.
Open Scope N_scope.

(* ---------------------------------------------------------------- M2, M3: tables *)
Definition M2_gen_dist : gen_dist_statement := EngineRefineSmallDist.gen_dist.
Definition M2_gen_clc : gen_clc_statement := EngineRefineSmallClc.gen_clc.
Definition M3a_static_lit : static_lit_tab_ok_statement := EngineRefineStatic.static_lit_tab_ok.
Definition M3a_static_dist : static_dist_tab_ok_statement := EngineRefineStatic.static_dist_tab_ok.
Definition M3b_gen_litlen : gen_litlen_statement := EngineRefineLitLenMain.gen_litlen.

(* ---------------------------------------------------------------- M4: headers *)
Theorem codeLenCodes_refine_final :
  forall s hclen e p,
    br_wf (rd s) -> (0 <= r_len (rd s))%Z -> br_loaded 12 (rd s) -> hclen <= 15 ->
    let '(s', err) := codeLenCodes s hclen in
    br_wf (rd s') /\ same_frame s s' /\ tb s' = tb s /\ phase s' = phase s /\
    litAndDistHuff (dyn s') = litAndDistHuff (dyn s) /\ litCount (dyn s') = litCount (dyn s) /\
    distCount (dyn s') = distCount (dyn s) /\ litExpandCount (dyn s') = litExpandCount (dyn s) /\
    (err = ENone ->
       (0 <= r_len (rd s'))%Z /\
       exists cl,
         read_clens (N.to_nat hclen + 4) (mkbs (br_bits (rd s) ++ e) p)
         = HOk cl (mkbs (br_bits (rd s') ++ e) (p + 3 * (hclen + 4))) /\
         let clens := scatter clen_order cl (repeat 0%nat 19) in
         oversubscribed 7 clens = false /\
         clc_tab_ok clens (clcShort (dyn s')) (clcLong (dyn s'))).
Proof. exact (EngineRefineHeaderClc.codeLenCodes_refine M2_gen_clc). Qed.

Definition readLitDistLens_refine_final : readLitDistLens_refine_statement :=
  EngineRefineHeaderRL.readLitDistLens_refine.

Theorem setupDynamicHeader_refine : setupDynamicHeader_refine_body.
Proof.
  exact (EngineRefineGlue.setupDynamicHeader_glue M2_gen_clc M2_gen_dist M3b_gen_litlen
           EngineRefineHeaderClc.codeLenCodes_refine readLitDistLens_refine_final).
Qed.

Definition prepareForLitBlock_refine_final : prepareForLitBlock_refine_statement :=
  EngineRefineStoredMain.prepareForLitBlock_refine.
Definition decodeLiteralBlock_refine_final : decodeLiteralBlock_refine_statement :=
  EngineRefineStoredMain.decodeLiteralBlock_refine.

Definition header_bound_final : header_bound_statement := EngineRefineHBound.header_bound.

Theorem readHeader_refine : readHeader_refine_body.
Proof.
  exact (EngineRefineRdHdr.readHeader_refine_partial EngineRefineRdHdrA.tryDecodeHeader_refine
           header_bound_final setupDynamicHeader_refine prepareForLitBlock_refine_final
           M3a_static_lit M3a_static_dist).
Qed.

Theorem setupDynamicHeader_need_final : setupDynamicHeader_need_body.
Proof.
  exact (EngineRefineGlueNeed.setupDynamicHeader_need M2_gen_clc
           EngineRefineHeaderClc.codeLenCodes_refine
           EngineRefineHeaderNeed.codeLenCodes_need EngineRefineHeaderNeed.readLitDistLens_need).
Qed.

Theorem tryDecodeHeader_need_final : tryDecodeHeader_need_body.
Proof.
  exact (EngineRefineRdHdrNeed.tryDecodeHeader_need setupDynamicHeader_need_final
           EngineRefineStoredNeed.prepareForLitBlock_need).
Qed.

Theorem readHeader_need_final : readHeader_need_body.
Proof.
  exact (EngineRefineRdHdrNeed.readHeader_need tryDecodeHeader_need_final
           EngineRefineRdHdrA.tryDecodeHeader_refine header_bound_final setupDynamicHeader_refine
           prepareForLitBlock_refine_final M3a_static_lit M3a_static_dist).
Qed.

(* ---------------------------------------------------------------- M5: decodeHuffman *)
Definition decodeHuffman_refine_final : decodeHuffman_refine3_statement :=
  EngineRefineHuffMain.decodeHuffman_refine3.

(* ---------------------------------------------------------------- M6: blocks, step, Read, erun *)
Theorem decomp_refine_final : decomp_body.
Proof.
  exact (EngineRefineDecomp.decomp_refine_final readHeader_refine readHeader_need_final
           decodeHuffman_refine_final decodeLiteralBlock_refine_final EngineRefineReach.reach_inv).
Qed.

Theorem step_refine :
  forall data delivered f,
    Forall (fun x => x < 256) data ->
    dec_inv data delivered f -> readPos f = writePos f -> derr f = None ->
    let '(f', r) := step f in step_post data delivered f' r.
Proof.
  exact (EngineRefineTop.step_refine_final decomp_refine_final EngineRefineDecomp.decomperss_flush
           EngineRefineBuf.bPeek_spec EngineRefineBuf.bPeek_buffered EngineRefineBuf.bDiscard_spec
           EngineRefineReach.reach_inv).
Qed.

(* THE MAIN THEOREM (soundness of the engine against the reference inflater): for every byte
   list data (bytes < 256), every way of cutting it into non-empty chunks, every bufio size,
   either terminal condition of the source and every list of read sizes:
   - the concatenation of the bytes returned by the Read calls is a prefix of the reference
     output `out (inflate [] data)`;
   - if some Read returned io.EOF then the reference says Done, the bytes returned are exactly
     its output, and the number of source bytes consumed is (bitpos + 7) / 8;
   - if the reference does not say Done (NeedInput: truncated; Corrupt) no Read returns io.EOF. *)
Theorem erun_sound : erun_sound_statement.
Proof.
  exact (EngineRefineRun.erun_sound_from_step step_refine EngineRefineBuf.newbuf_ok
           EngineRefineReach.reach_out_prefix EngineRefineReach.reach_done).
Qed.

(* the stream that the engine reported as a clean EOF before fix b29ee69 *)
Theorem trunc_stream_regression : trunc_stream_regression_statement.
Proof. split; [vm_compute; intros r [H|[]]; subst r; discriminate | vm_compute; reflexivity]. Qed.

Print Assumptions setupDynamicHeader_refine.
Print Assumptions readHeader_refine.
Print Assumptions decodeHuffman_refine_final.
Print Assumptions decomp_refine_final.
Print Assumptions step_refine.
Print Assumptions erun_sound.
Print Assumptions trunc_stream_regression.
