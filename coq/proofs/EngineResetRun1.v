(* EngineResetRun1.v -- structural invariants needed by the Reset simulation (EngineResetRun.v):
   the cached input length of the bit reader never exceeds the real length of the input list,
   the same for the staged header bytes and for the bufio buffer.  These facts hold for every
   inflate state (whatever the tables and the scratch arrays contain). *)
From Verif Require Import Base Engine EngineReset EngineResetSpec EngineSafetyBase EngineResetDefs.
From Coq Require Import List NArith ZArith Bool Lia ZifyBool ZifyNat ZifyN.
Import ListNotations.
Open Scope N_scope.

Definition inlen_ok (b : bitrd) : Prop := r_inlen b <= N.of_nat (length (r_in b)).
Definition sinv (s : inflate) : Prop :=
  inlen_ok (rd s) /\ headerBuffered s <= N.of_nat (length (headerBuffer s)).
Definition binv (b : bufrd) : Prop := blen b <= N.of_nat (length (bbuf b)).
Definition dinv (f : decompressor) : Prop := sinv (state f) /\ binv (rBuf f).

(* injection / inversion can be very slow on equations between large terms: use these *)
Lemma Some_inj : forall (A : Type) (x y : A), Some x = Some y -> x = y.
Proof. intros A x y H. injection H as H. exact H. Qed.
Lemma pair_inj : forall (A B : Type) (a a' : A) (b b' : B), (a, b) = (a', b') -> a = a' /\ b = b'.
Proof. intros A B a a' b b' H. injection H as H1 H2. split; assumption. Qed.
Lemma Some2_inj : forall (A B : Type) (a a' : A) (b b' : B),
  Some (a, b) = Some (a', b') -> a = a' /\ b = b'.
Proof. intros A B a a' b b' H. apply Some_inj, pair_inj in H. exact H. Qed.
Lemma Some3_inj : forall (A B C : Type) (a a' : A) (b b' : B) (c c' : C),
  Some (a, b, c) = Some (a', b', c') -> a = a' /\ b = b' /\ c = c'.
Proof.
  intros A B C a a' b b' c c' H. apply Some_inj, pair_inj in H. destruct H as (H & H3).
  apply pair_inj in H. destruct H as (H1 & H2). repeat split; assumption.
Qed.

(* "same input": the bit reader b' reads the same input list as b *)
Definition same_in (b b' : bitrd) : Prop := r_in b' = r_in b /\ r_inlen b' = r_inlen b.

Lemma same_in_ok : forall b b', same_in b b' -> inlen_ok b -> inlen_ok b'.
Proof. intros b b' (H1 & H2) H. unfold inlen_ok in *. rewrite H1, H2. exact H. Qed.

Lemma same_in_refl : forall b, same_in b b.
Proof. intros b. split; reflexivity. Qed.

Lemma same_in_trans : forall a b c, same_in a b -> same_in b c -> same_in a c.
Proof. intros a b c (H1 & H2) (H3 & H4). split; congruence. Qed.

Lemma br_drop_same : forall b k, same_in b (br_drop b k).
Proof. intros b k. split; reflexivity. Qed.

Lemma br_drop_ok : forall b k, inlen_ok b -> inlen_ok (br_drop b k).
Proof. intros b k H. exact H. Qed.

Lemma next_bits_ok : forall b k, inlen_ok b -> inlen_ok (snd (next_bits b k)).
Proof. intros b k H. exact H. Qed.

Lemma load_bytes_ok : forall n b, inlen_ok b -> inlen_ok (load_bytes n b).
Proof.
  induction n as [|n IH]; intros b H; cbn [load_bytes]; [exact H|].
  destruct (r_in b) as [|x rest] eqn:E; [exact H|].
  apply IH. unfold inlen_ok in *. cbn [r_in r_inlen]. rewrite E in H. cbn [length] in H. lia.
Qed.

Lemma load_raw_ok : forall b b', load_raw b = Some b' -> inlen_ok b -> inlen_ok b'.
Proof.
  intros b b' H Hok. unfold load_raw in H.
  destruct (r_len b <? 0)%Z.
  { destruct (r_inlen b =? 0); [|discriminate]. inversion H; subst; exact Hok. }
  destruct (64 <? r_len b)%Z; [discriminate|].
  destruct (8 <=? r_inlen b).
  - destruct (r_in b) as [|a0 [|a1 [|a2 [|a3 [|a4 [|a5 [|a6 [|a7 l]]]]]]]] eqn:E; try discriminate.
    inversion H; subst b'; clear H. unfold inlen_ok in *. cbn [r_in r_inlen].
    rewrite skipn_length. rewrite E in Hok.
    set (L := a0 :: a1 :: a2 :: a3 :: a4 :: a5 :: a6 :: a7 :: l) in *. lia.
  - inversion H; subst b'. apply load_bytes_ok. exact Hok.
Qed.

Lemma load_lt57_ok : forall b b', load_lt57 b = Some b' -> inlen_ok b -> inlen_ok b'.
Proof.
  intros b b' H Hok. unfold load_lt57 in H. destruct (r_len b <? 57)%Z.
  - eapply load_raw_ok; eauto.
  - inversion H; subst; exact Hok.
Qed.

Lemma load_le15_ok : forall b b', load_le15 b = Some b' -> inlen_ok b -> inlen_ok b'.
Proof.
  intros b b' H Hok. unfold load_le15 in H. destruct (r_len b <=? 15)%Z.
  - eapply load_raw_ok; eauto.
  - inversion H; subst; exact Hok.
Qed.

Lemma dist_decode_same : forall t b n b', dist_decode t b = Some (n, b') -> same_in b b'.
Proof.
  intros t b n b' H. unfold dist_decode in H.
  destruct (N.land (aget (distShort t) (N.land (r_bits b) 1023)) smallFlagBit =? 0).
  - destruct (N.shiftr (aget (distShort t) (N.land (r_bits b) 1023)) 11 =? 0);
      apply Some2_inj in H; destruct H as (_ & H); subst b'; split; reflexivity.
  - match type of H with (if ?c then _ else _) = _ => destruct c; [discriminate|] end.
    match type of H with (if ?c then _ else _) = _ => destruct c end;
      apply Some2_inj in H; destruct H as (_ & H); subst b'; split; reflexivity.
Qed.

Lemma litlen_decode_same : forall t b b' sc nl, litlen_decode t b = Some (b', sc, nl) -> same_in b b'.
Proof.
  intros t b b' sc nl H. unfold litlen_decode in H.
  destruct (N.land (aget (litShort t) (N.land (r_bits b) 4095)) largeFlagBit =? 0).
  - apply Some3_inj in H; destruct H as (H & _ & _); subst b'; split; reflexivity.
  - match type of H with (if ?c then _ else _) = _ => destruct c; [discriminate|] end.
    apply Some3_inj in H; destruct H as (H & _ & _); subst b'; split; reflexivity.
Qed.

Lemma clc_decode_same : forall S L b n b', clc_decode S L b = Some (n, b') -> same_in b b'.
Proof.
  intros S L b n b' H. unfold clc_decode in H.
  destruct (N.land (aget S (N.land (r_bits b) 1023)) smallFlagBit =? 0).
  - apply Some2_inj in H; destruct H as (_ & H); subst b'; split; reflexivity.
  - match type of H with (if ?c then _ else _) = _ => destruct c; [discriminate|] end.
    apply Some2_inj in H; destruct H as (_ & H); subst b'; split; reflexivity.
Qed.

(* ---------------------------------------------------------------- decodeHuffman *)
(* the decomposition of one iteration of huff_inner *)
Definition step2_body (K : inflate -> bitrd -> arr -> N -> hres) (s : inflate) (bT : bitrd) (wT : N)
    (out : arr) (w rl : N) (b : bitrd) (lookBackDist : N) : hres :=
  if (r_len b <? 0)%Z then HFin (set_wov s 0 0) bT out wT EEndInput
  else if w <? lookBackDist then HFin s b out w EInvalidLookBack
  else
    let availOut := outLen - w in
    let '(s, repeatLength) :=
      if availOut <? rl then (set_cov s (rl - availOut) lookBackDist, availOut) else (s, rl) in
    let out := byteCopy out w lookBackDist repeatLength in
    let w := w + repeatLength in
    if 0 <? copyOverflowLength (ov s) then HFin s b out w EOutputOverflow
    else K s b out w.

Definition len_branch (K : inflate -> bitrd -> arr -> N -> hres) (s : inflate) (bT : bitrd) (wT : N)
    (out : arr) (w rl : N) (b : bitrd) : hres :=
  match load_le15 b with
  | None => HFin s b out w EPanic
  | Some b =>
    match dist_decode (tb s) b with
    | None => HFin s b out w EPanic
    | Some (nextDist, b) =>
      if (0 <=? r_len b)%Z then
        if distLen <=? nextDist then HFin s b out w EInvalidSymbol
        else
          match load_lt57 b with
          | None => HFin s b out w EPanic
          | Some b =>
            let '(extraBits, b) := next_bits b (aget rfc_dist_extra nextDist) in
            step2_body K s bT wT out w rl b (aget rfc_dist_start nextDist + extraBits)
          end
      else step2_body K s bT wT out w rl b 0
    end
  end.

Lemma huff_inner_S : forall f s b out w sc nl bT wT,
  huff_inner (S f) s b out w sc nl bT wT =
  if sc =? 0 then HCont s b out w
  else
    let nextLit := N.land nl 0xFFFF in
    if (nextLit <? 256) || (1 <? sc) then
      if w =? outLen then
        let s1 := set_wov s nl sc in
        let nl' := N.shiftr nl (8 * (sc - 1)) in
        if nl' <? 256 then HFin s1 b out w EOutputOverflow
        else
          let s2 := set_wov s1 (writeOverflowLits (ov s1)) (writeOverflowLen (ov s1) - 1) in
          if nl' =? 256 then HFin (end_of_block s2) b out w EOutputOverflow
          else huff_inner f s2 b out w 1 nl' bT wT
      else huff_inner f s b (aset out w (N.land nextLit 255)) (w + 1) (sc - 1) (N.shiftr nl 8) bT wT
    else if nextLit =? 256 then
      huff_inner f (end_of_block s) b out w (sc - 1) (N.shiftr nl 8) bT wT
    else if nextLit <=? maxLitLenSym then
      len_branch (fun s b out w => huff_inner f s b out w (sc - 1) (N.shiftr nl 8) bT wT)
                 s bT wT out w (nextLit - 254) b
    else HFin s b out w EInvalidSymbol.
Proof. reflexivity. Qed.

Lemma huff_outer_S : forall f s b out w,
  huff_outer (S f) s b out w =
  if phase s =? phaseHeaderDecoded then
    match load_lt57 b with
    | None => (s, b, out, w, EPanic)
    | Some b =>
      match load_le15 b with
      | None => (s, b, out, w, EPanic)
      | Some b1 =>
        match litlen_decode (tb s) b1 with
        | None => (s, b1, out, w, EPanic)
        | Some (b2, symCount, nextLits) =>
          if symCount =? 0 then (s, b2, out, w, EInvalidSymbol)
          else if (r_len b2 <? 0)%Z then (s, b, out, w, EEndInput)
          else
            match huff_inner 8 s b2 out w symCount nextLits b w with
            | HCont s b out w => huff_outer f s b out w
            | HFin s b out w e => (s, b, out, w, e)
            end
        end
      end
    end
  else (s, b, out, w, ENone).
Proof. reflexivity. Qed.

(* the staged-header fields *)
Definition hbp (s : inflate) : N * list N := (headerBuffered s, headerBuffer s).

Definition hres_inv (s : inflate) (r : hres) : Prop :=
  match r with
  | HCont s' b' _ _ => inlen_ok b' /\ hbp s' = hbp s
  | HFin s' b' _ _ _ => inlen_ok b' /\ hbp s' = hbp s
  end.

Lemma hres_inv_trans : forall s s1 r, hbp s1 = hbp s -> hres_inv s1 r -> hres_inv s r.
Proof. intros s s1 r H Hr. destruct r; cbn [hres_inv] in *; rewrite <- H; exact Hr. Qed.

Lemma step2_body_inv : forall K s bT wT out w rl b dist,
  (forall s' b' out' w', hbp s' = hbp s -> inlen_ok b' -> hres_inv s (K s' b' out' w')) ->
  inlen_ok b -> inlen_ok bT -> hres_inv s (step2_body K s bT wT out w rl b dist).
Proof.
  intros K s bT wT out w rl b dist HK Hb HbT. unfold step2_body.
  destruct (r_len b <? 0)%Z; [split; [exact HbT|reflexivity]|].
  destruct (w <? dist); [split; [exact Hb|reflexivity]|].
  destruct (outLen - w <? rl).
  - destruct (0 <? copyOverflowLength (ov (set_cov s (rl - (outLen - w)) dist))).
    + split; [exact Hb|reflexivity].
    + apply HK; [reflexivity|exact Hb].
  - destruct (0 <? copyOverflowLength (ov s)).
    + split; [exact Hb|reflexivity].
    + apply HK; [reflexivity|exact Hb].
Qed.

Lemma len_branch_inv : forall K s bT wT out w rl b,
  (forall s' b' out' w', hbp s' = hbp s -> inlen_ok b' -> hres_inv s (K s' b' out' w')) ->
  inlen_ok b -> inlen_ok bT -> hres_inv s (len_branch K s bT wT out w rl b).
Proof.
  intros K s bT wT out w rl b HK Hb HbT. unfold len_branch.
  destruct (load_le15 b) as [b1|] eqn:E1; [|split; [exact Hb|reflexivity]].
  assert (Hb1 : inlen_ok b1) by (eapply load_le15_ok; eauto).
  destruct (dist_decode (tb s) b1) as [[nd b2]|] eqn:E2; [|split; [exact Hb1|reflexivity]].
  assert (Hb2 : inlen_ok b2) by (eapply same_in_ok; [eapply dist_decode_same; eauto|exact Hb1]).
  destruct (0 <=? r_len b2)%Z.
  - destruct (distLen <=? nd); [split; [exact Hb2|reflexivity]|].
    destruct (load_lt57 b2) as [b3|] eqn:E3; [|split; [exact Hb2|reflexivity]].
    assert (Hb3 : inlen_ok b3) by (eapply load_lt57_ok; eauto).
    unfold next_bits. apply step2_body_inv; auto.
  - apply step2_body_inv; auto.
Qed.

Lemma huff_inner_inv : forall fuel s b out w sc nl bT wT,
  inlen_ok b -> inlen_ok bT -> hres_inv s (huff_inner fuel s b out w sc nl bT wT).
Proof.
  induction fuel as [|f IH]; intros s b out w sc nl bT wT Hb HbT.
  - cbn [huff_inner]. split; [exact Hb|reflexivity].
  - rewrite huff_inner_S. cbv zeta.
    destruct (sc =? 0); [split; [exact Hb|reflexivity]|].
    destruct ((N.land nl 65535 <? 256) || (1 <? sc)).
    + destruct (w =? outLen).
      * destruct (N.shiftr nl (8 * (sc - 1)) <? 256); [split; [exact Hb|reflexivity]|].
        destruct (N.shiftr nl (8 * (sc - 1)) =? 256); [split; [exact Hb|reflexivity]|].
        eapply hres_inv_trans; [|apply IH; assumption]. reflexivity.
      * apply IH; assumption.
    + destruct (N.land nl 65535 =? 256).
      * eapply hres_inv_trans; [|apply IH; assumption]. reflexivity.
      * destruct (N.land nl 65535 <=? maxLitLenSym); [|split; [exact Hb|reflexivity]].
        apply len_branch_inv; auto.
        intros s' b' out' w' Hs' Hb'. eapply hres_inv_trans; [exact Hs'|]. apply IH; assumption.
Qed.

Lemma huff_outer_inv : forall fuel s b out w s' b' out' w' e,
  inlen_ok b -> huff_outer fuel s b out w = (s', b', out', w', e) ->
  inlen_ok b' /\ hbp s' = hbp s.
Proof.
  induction fuel as [|f IH]; intros s b out w s' b' out' w' e Hb H.
  - cbn [huff_outer] in H. apply pair_inj in H. destruct H as (H & _).
    apply pair_inj in H. destruct H as (H & _). apply pair_inj in H. destruct H as (H & _).
    apply pair_inj in H. destruct H as (H1 & H2). subst. split; [exact Hb|reflexivity].
  - rewrite huff_outer_S in H.
    assert (Hret : forall bb, inlen_ok bb -> (s, bb, out, w, e) = (s', b', out', w', e) ->
                   inlen_ok b' /\ hbp s' = hbp s).
    { intros bb Hbb Heq. apply pair_inj in Heq. destruct Heq as (Heq & _).
      apply pair_inj in Heq. destruct Heq as (Heq & _). apply pair_inj in Heq. destruct Heq as (Heq & _).
      apply pair_inj in Heq. destruct Heq as (H1 & H2). subst. split; [exact Hbb|reflexivity]. }
    assert (Hret' : forall bb ee, inlen_ok bb -> (s, bb, out, w, ee) = (s', b', out', w', e) ->
                   inlen_ok b' /\ hbp s' = hbp s).
    { intros bb ee Hbb Heq. assert (ee = e) by (apply pair_inj in Heq; destruct Heq as (_ & Heq); exact Heq).
      subst ee. eapply Hret; eauto. }
    destruct (phase s =? phaseHeaderDecoded); [|refine (Hret' _ _ _ H); assumption].
    destruct (load_lt57 b) as [b0|] eqn:E0; [|refine (Hret' _ _ _ H); assumption].
    assert (Hb0 : inlen_ok b0) by (eapply load_lt57_ok; eauto).
    destruct (load_le15 b0) as [b1|] eqn:E1; [|refine (Hret' _ _ _ H); assumption].
    assert (Hb1 : inlen_ok b1) by (eapply load_le15_ok; eauto).
    destruct (litlen_decode (tb s) b1) as [[[b2 sc] nl]|] eqn:E2; [|refine (Hret' _ _ _ H); assumption].
    assert (Hb2 : inlen_ok b2) by (eapply same_in_ok; [eapply litlen_decode_same; eauto|exact Hb1]).
    destruct (sc =? 0); [refine (Hret' _ _ _ H); assumption|].
    destruct (r_len b2 <? 0)%Z; [refine (Hret' _ _ _ H); assumption|].
    pose proof (huff_inner_inv 8 s b2 out w sc nl b0 w Hb2 Hb0) as Hi.
    destruct (huff_inner 8 s b2 out w sc nl b0 w) as [s1 b3 o1 w1|s1 b3 o1 w1 e1];
      cbn [hres_inv] in Hi; destruct Hi as (Hi1 & Hi2).
    + apply IH in H; [|exact Hi1]. destruct H as (H1 & H2). split; [exact H1|congruence].
    + apply pair_inj in H. destruct H as (H & _).
      apply pair_inj in H. destruct H as (H & _). apply pair_inj in H. destruct H as (H & _).
      apply pair_inj in H. destruct H as (H1 & H2). subst. split; [exact Hi1|exact Hi2].
Qed.

(* decodeHuffman with the fuel as a parameter (big_fuel must never be evaluated) *)
Definition decodeHuffman_F (F : nat) (s : inflate) (out : arr) (written : N) : inflate * arr * N * ierr :=
  let s := set_cov s 0 0 in
  let '(s, b, out, w, err) := huff_outer F s (rd s) out written in
  if (r_len b <? 0)%Z then
    (set_rd s b, out, w, match err with EFuel => EFuel | _ => EPanic end)
  else
    let bl := Z.to_N (r_len b) in
    let bits := if bl <? N.size (r_bits b) then N.land (r_bits b) (ones64 bl) else r_bits b in
    (set_rd s (br_set_bits b bits), out, w, err).

Lemma decodeHuffman_eq : forall s out w, decodeHuffman s out w = decodeHuffman_F big_fuel s out w.
Proof. intros s out w. unfold decodeHuffman, decodeHuffman_F. reflexivity. Qed.

Lemma decodeHuffman_F_inv : forall F s out w s' out' w' e,
  sinv s -> decodeHuffman_F F s out w = (s', out', w', e) -> sinv s'.
Proof.
  intros F s out w s' out' w' e (H1 & H2) H. unfold decodeHuffman_F in H.
  destruct (huff_outer F (set_cov s 0 0) (rd (set_cov s 0 0)) out w) as [[[[s1 b1] o1] w1] e1] eqn:E.
  apply huff_outer_inv in E; [|exact H1]. destruct E as (E1 & E2).
  unfold hbp in E2. apply pair_inj in E2. cbn [set_cov set_ov headerBuffered headerBuffer] in E2.
  destruct E2 as (E2 & E3).
  destruct (r_len b1 <? 0)%Z.
  - apply pair_inj in H. destruct H as (H & _). apply pair_inj in H. destruct H as (H & _).
    apply pair_inj in H. destruct H as (H & _). subst s'. split.
    + exact E1.
    + cbn [set_rd headerBuffered headerBuffer]. rewrite E2, E3. exact H2.
  - apply pair_inj in H. destruct H as (H & _). apply pair_inj in H. destruct H as (H & _).
    apply pair_inj in H. destruct H as (H & _). subst s'. split.
    + exact E1.
    + cbn [set_rd headerBuffered headerBuffer]. rewrite E2, E3. exact H2.
Qed.

Lemma decodeHuffman_inv : forall s out w s' out' w' e,
  sinv s -> decodeHuffman s out w = (s', out', w', e) -> sinv s'.
Proof. intros s out w s' out' w' e Hs H. rewrite decodeHuffman_eq in H. eapply decodeHuffman_F_inv; eauto. Qed.

(* ---------------------------------------------------------------- decodeLiteralBlock *)
Lemma lit_drain_same : forall fuel b out w c len b' out' w' c' fl,
  lit_drain fuel b out w c len = Some (b', out', w', c', fl) -> same_in b b'.
Proof.
  induction fuel as [|f IH]; intros b out w c len b' out' w' c' fl H; cbn [lit_drain] in H.
  - discriminate.
  - destruct (r_len b =? 0)%Z.
    + apply Some_inj, pair_inj in H. destruct H as (H & _). apply pair_inj in H. destruct H as (H & _).
      apply pair_inj in H. destruct H as (H & _). apply pair_inj in H. destruct H as (H & _).
      subst b'. apply same_in_refl.
    + destruct (c + 1 =? len).
      * apply Some_inj, pair_inj in H. destruct H as (H & _). apply pair_inj in H. destruct H as (H & _).
        apply pair_inj in H. destruct H as (H & _). apply pair_inj in H. destruct H as (H & _).
        subst b'. apply br_drop_same.
      * apply IH in H. eapply same_in_trans; [apply br_drop_same|exact H].
Qed.

Lemma copy_list_rest_len : forall n l out pos,
  N.of_nat (length (snd (copy_list l n out pos))) =
  N.of_nat (length l) - N.min (N.of_nat n) (N.of_nat (length l)).
Proof.
  (* copy_list is structurally recursive on the list *)
  induction n as [|n IH]; intros l out pos.
  - destruct l as [|x r]; cbn [copy_list snd]; lia.
  - destruct l as [|x r]; cbn [copy_list]; [cbn [snd length]; lia|].
    rewrite IH. cbn [length]. lia.
Qed.

Definition res_s (r : inflate * arr * N * ierr) : inflate := fst (fst (fst r)).

Lemma decodeLiteralBlock_inv : forall s out w,
  sinv s -> sinv (res_s (decodeLiteralBlock s out w)).
Proof.
  intros s out w (H1 & H2).
  assert (Hgen : forall s0 b0, inlen_ok b0 -> hbp s0 = hbp s -> sinv (set_rd s0 b0)).
  { intros s0 b0 Hb Hh. unfold hbp in Hh. apply pair_inj in Hh. destruct Hh as (Hh1 & Hh2).
    split; cbn [set_rd rd headerBuffered headerBuffer]; [exact Hb|]. rewrite Hh1, Hh2. exact H2. }
  assert (Hsame : forall s0, rd s0 = rd s -> hbp s0 = hbp s -> sinv s0).
  { intros s0 Hr Hh. unfold hbp in Hh. apply pair_inj in Hh. destruct Hh as (Hh1 & Hh2).
    split; [rewrite Hr; exact H1|]. rewrite Hh1, Hh2. exact H2. }
  unfold decodeLiteralBlock, res_s. cbv zeta.
  set (s0 := set_phase s (if negb (bfinal s =? 0) then phaseStreamEnd else phaseNewBlock)).
  destruct (litBlockLength s0 =? 0); [cbn [fst]; apply Hsame; reflexivity|].
  assert (Hmid : forall (L : N) (s1 : inflate) (err : ierr), rd s1 = rd s -> hbp s1 = hbp s ->
    sinv (fst (fst (fst
      (if ierr_eqb err EOutputOverflow && (outLen - w =? 0) then (s1, out, w, err)
       else if (r_len (rd s1) <? 0)%Z then (s1, out, w, EPanic)
       else
         let '(length, s2, err0) :=
           if Z.to_N (r_len (rd s1)) / 8 + r_inlen (rd s1) <? L
           then (Z.to_N (r_len (rd s1)) / 8 + r_inlen (rd s1), set_phase s1 phaseLitBlock, EEndInput)
           else (L, s1, err) in
         match lit_drain 16 (rd s1) out w 0 length with
         | None => (set_litBlockLength s2 (litBlockLength s2 - length), out, w, EFuel)
         | Some (b, out0, written, count, true) =>
           (set_rd (set_litBlockLength s2 (litBlockLength s2 - length)) b, out0, written, err0)
         | Some (b, out0, written, count, false) =>
           let '(out1, inrest) := copy_list (r_in b) (N.to_nat (length - count)) out0 written in
           (set_rd (set_litBlockLength s2 (litBlockLength s2 - length))
                   (mkBR 0 (r_len b) inrest (r_inlen b - N.min (length - count) (r_inlen b))),
            out1, written + N.min (length - count) (r_inlen b), err0)
         end))))).
  { intros L s1 err Hr Hh.
    destruct (ierr_eqb err EOutputOverflow && (outLen - w =? 0)); [cbn [fst]; apply Hsame; assumption|].
    destruct (r_len (rd s1) <? 0)%Z; [cbn [fst]; apply Hsame; assumption|].
    assert (Htail : forall (length : N) (s2 : inflate) (err0 : ierr), hbp s2 = hbp s -> rd s2 = rd s ->
      sinv (fst (fst (fst
        match lit_drain 16 (rd s1) out w 0 length with
         | None => (set_litBlockLength s2 (litBlockLength s2 - length), out, w, EFuel)
         | Some (b, out0, written, count, true) =>
           (set_rd (set_litBlockLength s2 (litBlockLength s2 - length)) b, out0, written, err0)
         | Some (b, out0, written, count, false) =>
           let '(out1, inrest) := copy_list (r_in b) (N.to_nat (length - count)) out0 written in
           (set_rd (set_litBlockLength s2 (litBlockLength s2 - length))
                   (mkBR 0 (r_len b) inrest (r_inlen b - N.min (length - count) (r_inlen b))),
            out1, written + N.min (length - count) (r_inlen b), err0)
         end)))).
    { intros length s2 err0 Hh2 Hr2.
      destruct (lit_drain 16 (rd s1) out w 0 length) as [[[[[b1 o1] w1] c1] fl]|] eqn:Ed.
      - apply lit_drain_same in Ed. rewrite Hr in Ed.
        assert (Hb1 : inlen_ok b1) by (eapply same_in_ok; eauto).
        destruct fl.
        + cbn [fst]. apply Hgen; [exact Hb1|exact Hh2].
        + pose proof (copy_list_rest_len (N.to_nat (length - c1)) (r_in b1) o1 w1) as Hc.
          destruct (copy_list (r_in b1) (N.to_nat (length - c1)) o1 w1) as [o2 inrest].
          cbn [snd] in Hc. cbn [fst]. apply Hgen; [|exact Hh2].
          unfold inlen_ok in *. cbn [r_in r_inlen]. lia.
      - cbn [fst]. apply Hsame; [exact Hr2|exact Hh2]. }
    destruct (Z.to_N (r_len (rd s1)) / 8 + r_inlen (rd s1) <? L).
    - apply Htail; [exact Hh|exact Hr].
    - apply Htail; [exact Hh|exact Hr]. }
  destruct (outLen - w <? litBlockLength s0).
  - apply Hmid; reflexivity.
  - apply Hmid; reflexivity.
Qed.

(* ---------------------------------------------------------------- readHeader *)
Lemma loadBits_ok : forall s s', loadBits s = Some s' -> inlen_ok (rd s) -> inlen_ok (rd s').
Proof.
  intros s s' H Hok. unfold loadBits in H. destruct (load_lt57 (rd s)) as [b|] eqn:E; [|discriminate].
  apply Some_inj in H. subst s'. cbn [set_rd rd]. eapply load_lt57_ok; eauto.
Qed.

Lemma readBits_ok : forall s k v s', readBits s k = Some (v, s') -> inlen_ok (rd s) -> inlen_ok (rd s').
Proof.
  intros s k v s' H Hok. unfold readBits in H. destruct (loadBits s) as [s1|] eqn:E; [|discriminate].
  apply loadBits_ok in E; [|exact Hok]. unfold next_bits in H.
  apply Some2_inj in H. destruct H as (_ & H). subst s'. cbn [set_rd rd]. exact E.
Qed.

Lemma prepareForLitBlock_ok : forall s, inlen_ok (rd s) -> inlen_ok (rd (fst (prepareForLitBlock s))).
Proof.
  intros s Hok. unfold prepareForLitBlock.
  destruct (loadBits s) as [s1|] eqn:E; [|exact Hok].
  apply loadBits_ok in E; [|exact Hok]. cbv zeta.
  destruct (r_len (rd s1) <? 0)%Z; [exact E|].
  destruct (u8 (Z.to_N (r_len (rd s1)) / 8) <? 4); [exact E|].
  match goal with |- context [if negb ?c then _ else _] => destruct c end; cbn [negb]; [|exact E].
  match goal with |- context [if ?c =? 0 then _ else _] => destruct (c =? 0) end; exact E.
Qed.

Lemma clc_read3_ok : forall i st, inlen_ok (fst (fst st)) -> inlen_ok (fst (fst (clc_read3 i st))).
Proof. intros i [[b h] c] H. exact H. Qed.

Lemma codeLenCodes_ok : forall s hclen, inlen_ok (rd s) -> inlen_ok (rd (fst (codeLenCodes s hclen))).
Proof.
  intros s hclen Hok. unfold codeLenCodes.
  assert (H1 : inlen_ok (fst (fst (forN 0 4 clc_read3 (rd s, aempty, aempty))))).
  { apply (forN_inv _ (fun st => inlen_ok (fst (fst st)))); [exact Hok|].
    intros j x _ Hx. apply clc_read3_ok. exact Hx. }
  destruct (forN 0 4 clc_read3 (rd s, aempty, aempty)) as [[b h] c]. cbn [fst] in H1.
  destruct (load_lt57 b) as [b1|] eqn:E1; [|exact H1].
  assert (Hb1 : inlen_ok b1) by (eapply load_lt57_ok; eauto).
  assert (H2 : inlen_ok (fst (fst (forN 4 (hclen + 4) clc_read3 (b1, h, c))))).
  { apply (forN_inv _ (fun st => inlen_ok (fst (fst st)))); [exact Hb1|].
    intros j x _ Hx. apply clc_read3_ok. exact Hx. }
  destruct (forN 4 (hclen + 4) clc_read3 (b1, h, c)) as [[b2 h2] c2]. cbn [fst] in H2.
  destruct (r_len b2 <? 0)%Z; [exact H2|].
  destruct (setCodes h2 0 19 c2) as [ch bad]. destruct bad; [exact H2|].
  cbv zeta. cbn [dyn set_rd].
  destruct (gen_small true (clcShort (dyn s)) (clcLong (dyn s)) ch 19 c2 19) as [[[sh lg] cc] e].
  exact H2.
Qed.

Lemma rl_put_b : forall st split endv h st', rl_put st split endv h = Some st' -> rl_b st' = rl_b st.
Proof.
  intros st split endv h st' H. unfold rl_put in H.
  destruct (rl_curr st =? split)%Z.
  - destruct (endv <=? 286)%Z; [discriminate|].
    destruct (rl_count_inc st true (hc_len h)) as [lc dc]. apply Some_inj in H. subst st'. reflexivity.
  - destruct (endv <=? rl_curr st)%Z; [discriminate|].
    destruct (rl_count_inc st (rl_inDist st) (hc_len h)) as [lc dc]. apply Some_inj in H. subst st'.
    reflexivity.
Qed.

Lemma rl_rep_b : forall n st split endv h st', rl_rep n st split endv h = Some st' -> rl_b st' = rl_b st.
Proof.
  induction n as [|n IH]; intros st split endv h st' H; cbn [rl_rep] in H.
  - apply Some_inj in H. subst. reflexivity.
  - destruct (rl_put st split endv h) as [st1|] eqn:E; [|discriminate].
    apply rl_put_b in E. apply IH in H. congruence.
Qed.

Lemma rl_loop_ok : forall fuel S L split endv st,
  inlen_ok (rl_b st) -> inlen_ok (rl_b (fst (rl_loop fuel S L split endv st))).
Proof.
  induction fuel as [|f IH]; intros S L split endv st Hok; cbn [rl_loop]; [exact Hok|].
  destruct (rl_curr st <? endv)%Z.
  2: { destruct ((endv <? rl_curr st)%Z || (hc_len (aget (rl_h st) 256) =? 0)); exact Hok. }
  destruct (load_le15 (rl_b st)) as [b1|] eqn:E1; [|exact Hok].
  assert (Hb1 : inlen_ok b1) by (eapply load_le15_ok; eauto).
  destruct (clc_decode S L b1) as [[sym b2]|] eqn:E2; [|exact Hok].
  assert (Hb2 : inlen_ok b2) by (eapply same_in_ok; [eapply clc_decode_same; eauto|exact Hb1]).
  destruct (r_len b2 <? 0)%Z.
  { match goal with |- context [if ?c then _ else _] => destruct c end; exact Hb2. }
  destruct (sym <? 16).
  { destruct (rl_put (rl_set_b st b2) split endv (hc_set 0 sym)) as [st1|] eqn:E3; [|exact Hb2].
    apply IH. apply rl_put_b in E3. rewrite E3. exact Hb2. }
  destruct (sym =? 16) eqn:E16.
  { destruct (load_raw b2) as [b3|] eqn:E3; [|exact Hb2].
    assert (Hb3 : inlen_ok b3) by (eapply load_raw_ok; eauto).
    unfold next_bits. cbv zeta.
    match goal with |- context [if ?c then (_, EInvalidBlock) else _] => destruct c end; [exact Hb3|].
    match goal with |- context [match ?c with Some _ => _ | None => _ end] => destruct c as [st1|] eqn:E4 end;
      [|exact Hb3].
    apply IH. apply rl_rep_b in E4. rewrite E4. exact Hb3. }
  destruct ((sym =? 17) || (sym =? 18)); [|exact Hb2].
  destruct (load_raw b2) as [b3|] eqn:E3; [|exact Hb2].
  assert (Hb3 : inlen_ok b3) by (eapply load_raw_ok; eauto).
  unfold next_bits.
  destruct (sym =? 17).
  - match goal with |- context [if ?c then _ else _] => destruct c end; apply IH; exact Hb3.
  - match goal with |- context [if ?c then _ else _] => destruct c end; apply IH; exact Hb3.
Qed.

Lemma readLitDistLens_ok : forall s hdist hlit,
  inlen_ok (rd s) -> inlen_ok (rd (fst (readLitDistLens s hdist hlit))).
Proof.
  intros s hdist hlit Hok. unfold readLitDistLens. cbv zeta.
  match goal with |- context [rl_loop ?f ?S ?L ?sp ?en ?st] =>
    pose proof (rl_loop_ok f S L sp en st Hok) as H; destruct (rl_loop f S L sp en st) as [st1 e1] end.
  cbn [fst] in *. exact H.
Qed.

Ltac dm_goal :=
  match goal with
  | |- context [match ?c with _ => _ end] => destruct c
  end.

Lemma setupDynamicHeader_ok : forall s, inlen_ok (rd s) -> inlen_ok (rd (fst (setupDynamicHeader s))).
Proof.
  intros s Hok. unfold setupDynamicHeader. cbv zeta.
  match goal with |- context [loadBits ?x] => set (s0 := x) end.
  assert (H0 : inlen_ok (rd s0)) by exact Hok.
  clearbody s0.
  destruct (loadBits s0) as [s1|] eqn:E1; [|exact H0].
  apply loadBits_ok in E1; [|exact H0].
  destruct (r_len (rd s1) <? 14)%Z; [exact E1|].
  unfold next_bits. cbn [fst snd].
  match goal with |- context [codeLenCodes ?x ?h] => set (s2 := x); set (hc := h) end.
  assert (H2 : inlen_ok (rd s2)) by exact E1.
  clearbody s2 hc.
  match goal with |- context [if ?c then (s2, EInvalidBlock) else _] => destruct c end; [exact H2|].
  pose proof (codeLenCodes_ok s2 hc H2) as H3.
  destruct (codeLenCodes s2 hc) as [s3 e3]. cbn [fst] in H3.
  destruct e3; try exact H3.
  match goal with |- context [readLitDistLens s3 ?a ?b] =>
    pose proof (readLitDistLens_ok s3 a b H3) as H4; destruct (readLitDistLens s3 a b) as [s4 e4] end.
  cbn [fst] in H4.
  destruct e4; try exact H4.
  destruct (r_len (rd s4) <? 0)%Z; [exact H4|].
  repeat (dm_goal; try exact H4).
Qed.

Lemma tryDecodeHeader_ok : forall s, inlen_ok (rd s) -> inlen_ok (rd (fst (tryDecodeHeader s))).
Proof.
  intros s Hok. unfold tryDecodeHeader.
  destruct (readBits s 1) as [[bf s1]|] eqn:E1; [|exact Hok].
  apply readBits_ok in E1; [|exact Hok].
  destruct (readBits (set_bfinal s1 bf) 2) as [[bt s2]|] eqn:E2; [|exact E1].
  apply readBits_ok in E2; [|exact E1].
  destruct (r_len (rd s2) <? 0)%Z; [exact E2|].
  destruct (bt =? 0); [apply prepareForLitBlock_ok; exact E2|].
  destruct (bt =? 1); [exact E2|].
  destruct (bt =? 2); [apply setupDynamicHeader_ok; exact E2|exact E2].
Qed.

Lemma firstn_length_N : forall (l : list N) n,
  N.of_nat (length (firstn n l)) = N.min (N.of_nat n) (N.of_nat (length l)).
Proof. intros l n. rewrite firstn_length. lia. Qed.

Lemma readHeader_inv : forall s s' e,
  sinv s -> readHeader s = (s', e) -> e <> EPanic -> e <> EFuel -> sinv s'.
Proof.
  intros s s' e (H1 & H2) H Hp Hf. unfold readHeader in H. cbv zeta in H.
  unfold inlen_ok in H1.
  set (cs := N.min (maxHdrSize - headerBuffered s) (r_inlen (rd s))) in *.
  set (s1 := if phase s =? phaseDecodingHeader
             then set_rd s (br_set_in (rd s) (headerBuffer s ++ firstn (N.to_nat cs) (r_in (rd s)))
                                      (cs + headerBuffered s))
             else s) in *.
  assert (Hs1 : inlen_ok (rd s1)).
  { subst s1. destruct (phase s =? phaseDecodingHeader); [|exact H1].
    unfold inlen_ok. cbn [set_rd rd br_set_in r_in r_inlen]. rewrite app_length, Nat2N.inj_add.
    rewrite firstn_length_N. lia. }
  pose proof (tryDecodeHeader_ok s1 Hs1) as Hs2.
  destruct (tryDecodeHeader s1) as [s2 err]. cbn [fst] in Hs2.
  assert (Hfin : forall s3, inlen_ok (rd s3) ->
            sinv (set_header s3 0 [])).
  { intros s3 H3. split; [exact H3|]. cbn [set_header headerBuffered headerBuffer length]. lia. }
  assert (Hend : forall s3,
            sinv (set_phase (set_rd (set_header s3 (headerBuffered s + cs)
                                        (headerBuffer s ++ firstn (N.to_nat cs) (r_in (rd s))))
                                    (mkBR (r_bits (rd s)) (r_len (rd s)) [] 0)) phaseDecodingHeader)).
  { intros s3. split.
    - unfold inlen_ok. cbn. lia.
    - cbn [set_phase set_rd set_header headerBuffered headerBuffer].
      rewrite app_length, Nat2N.inj_add, firstn_length_N. lia. }
  assert (Hs3 : forall rdz : Z,
     inlen_ok (rd (if phase s =? phaseDecodingHeader
                   then set_rd s2 (br_set_in (rd s2) (skipn (Z.to_nat rdz) (r_in (rd s)))
                                             (r_inlen (rd s) - Z.to_N rdz))
                   else s2))).
  { intros rdz. destruct (phase s =? phaseDecodingHeader); [|exact Hs2].
    unfold inlen_ok. cbn [set_rd rd br_set_in r_in r_inlen]. rewrite skipn_length. lia. }
  destruct err;
    try (apply pair_inj in H; destruct H as (_ & H); subst e; congruence);
    match type of H with (if ?c then _ else _) = _ => destruct c end;
    try (apply pair_inj in H; destruct H as (_ & H); subst e; congruence);
    apply pair_inj in H; destruct H as (H & _); subst s'.
  - apply Hfin, Hs3.
  - apply Hend.
  - apply Hfin, Hs3.
  - apply Hfin, Hs3.
  - apply Hfin, Hs3.
  - apply Hfin, Hs3.
Qed.

(* ---------------------------------------------------------------- bufio *)
Lemma frev_length : forall A (l : list A), length (frev l) = length l.
Proof. intros A l. unfold frev. rewrite rev_append_rev, app_nil_r, rev_length. reflexivity. Qed.

Lemma take_upto_ok : forall l space acc cnt,
  cnt <= N.of_nat (length acc) ->
  snd (fst (take_upto l space acc cnt)) <= N.of_nat (length (fst (fst (take_upto l space acc cnt)))).
Proof.
  induction l as [|x r IH]; intros space acc cnt H; cbn [take_upto].
  - cbn [fst snd]. rewrite frev_length. exact H.
  - destruct (space =? 0).
    + cbn [fst snd]. rewrite frev_length. exact H.
    + apply IH. cbn [length]. lia.
Qed.

Lemma src_read_ok : forall cs t space,
  snd (fst (fst (src_read cs t space))) <= N.of_nat (length (fst (fst (fst (src_read cs t space))))).
Proof.
  intros cs t space. unfold src_read. destruct cs as [|c rest].
  - cbn [fst snd length]. lia.
  - pose proof (take_upto_ok c space [] 0) as H. cbn [length] in H.
    destruct (take_upto c space [] 0) as [[got n] lft]. cbn [fst snd] in *. apply H. lia.
Qed.

Lemma fill_loop_ok : forall i b, binv b -> binv (fill_loop i b).
Proof.
  induction i as [|i IH]; intros b Hb; cbn [fill_loop].
  - exact Hb.
  - pose proof (src_read_ok (chunks b) (term b) (bsize b - blen b)) as Hs.
    destruct (src_read (chunks b) (term b) (bsize b - blen b)) as [[[got n] err] cs].
    cbn [fst snd] in Hs.
    assert (Hb' : binv (mkBuf (bsize b) (bbuf b ++ got) (blen b + n) (berr b) cs (term b) (consumed b))).
    { unfold binv in *. cbn [blen bbuf]. rewrite app_length, Nat2N.inj_add. lia. }
    destruct err as [e|].
    + exact Hb'.
    + destruct (0 <? n); [exact Hb'|]. apply IH. exact Hb'.
Qed.

Lemma bfill_ok : forall b b', bfill b = Some b' -> binv b -> binv b'.
Proof.
  intros b b' H Hb. unfold bfill in H. destruct (bsize b <=? blen b); [discriminate|].
  apply Some_inj in H. subst b'. apply fill_loop_ok. exact Hb.
Qed.

Lemma peek_loop_ok : forall fuel b n b', peek_loop fuel b n = Some b' -> binv b -> binv b'.
Proof.
  induction fuel as [|f IH]; intros b n b' H Hb; cbn [peek_loop] in H; [discriminate|].
  match type of H with (if ?c then _ else _) = _ => destruct c end.
  - destruct (bfill b) as [b1|] eqn:E; [|discriminate]. eapply IH; [exact H|]. eapply bfill_ok; eauto.
  - apply Some_inj in H. subst b'. exact Hb.
Qed.

Definition bPeek_F (F : nat) (b : bufrd) (n : N) : option (list N * N * option berror * bufrd) :=
  match peek_loop F b n with
  | None => None
  | Some b =>
    if bsize b <? n then Some (bbuf b, blen b, Some BBufferFull, b)
    else if blen b <? n then
      let err := match berr b with Some e => Some e | None => Some BBufferFull end in
      Some (bbuf b, blen b, err,
            mkBuf (bsize b) (bbuf b) (blen b) None (chunks b) (term b) (consumed b))
    else Some (firstn (N.to_nat n) (bbuf b), n, None, b)
  end.

Lemma bPeek_eq : forall b n, bPeek b n = bPeek_F big_fuel b n.
Proof. intros b n. unfold bPeek, bPeek_F. reflexivity. Qed.

Lemma bPeek_F_ok : forall F b n bytes k e rb,
  bPeek_F F b n = Some (bytes, k, e, rb) -> binv b -> k <= N.of_nat (length bytes) /\ binv rb.
Proof.
  intros F b n bytes k e rb H Hb. unfold bPeek_F in H.
  destruct (peek_loop F b n) as [b1|] eqn:E; [|discriminate].
  apply peek_loop_ok in E; [|exact Hb]. unfold binv in E.
  destruct (bsize b1 <? n).
  { apply Some_inj, pair_inj in H. destruct H as (H & Hr). apply pair_inj in H. destruct H as (H & _).
    apply pair_inj in H. destruct H as (H1 & H2). subst. split; [exact E|exact E]. }
  destruct (blen b1 <? n) eqn:E2.
  { apply Some_inj, pair_inj in H. destruct H as (H & Hr). apply pair_inj in H. destruct H as (H & _).
    apply pair_inj in H. destruct H as (H1 & H2). subst. split; [exact E|exact E]. }
  apply Some_inj, pair_inj in H. destruct H as (H & Hr). apply pair_inj in H. destruct H as (H & _).
  apply pair_inj in H. destruct H as (H1 & H2). subst. split; [|exact E].
  rewrite firstn_length_N. lia.
Qed.

Lemma bPeek_ok : forall b n bytes k e rb,
  bPeek b n = Some (bytes, k, e, rb) -> binv b -> k <= N.of_nat (length bytes) /\ binv rb.
Proof. intros b n bytes k e rb H. rewrite bPeek_eq in H. eapply bPeek_F_ok; eauto. Qed.

Lemma discard_loop_ok : forall fuel b remain e rb,
  discard_loop fuel b remain = Some (e, rb) -> binv b -> binv rb.
Proof.
  induction fuel as [|f IH]; intros b remain e rb H Hb; cbn [discard_loop] in H; [discriminate|].
  cbv zeta in H.
  assert (Hob : forall b1, (if blen b =? 0 then bfill b else Some b) = Some b1 -> binv b1).
  { intros b1 H1. destruct (blen b =? 0); [eapply bfill_ok; eauto|]. apply Some_inj in H1. subst; exact Hb. }
  destruct (if blen b =? 0 then bfill b else Some b) as [b1|]; [|discriminate].
  specialize (Hob b1 eq_refl).
  set (skip := N.min (blen b1) remain) in *.
  assert (Hb2 : binv (mkBuf (bsize b1) (skipn (N.to_nat skip) (bbuf b1)) (blen b1 - skip) (berr b1)
                            (chunks b1) (term b1) (consumed b1 + skip))).
  { unfold binv in *. cbn [blen bbuf]. rewrite skipn_length. lia. }
  cbn [berr bsize bbuf blen chunks term consumed] in H.
  destruct (remain - skip =? 0).
  { apply Some2_inj in H. destruct H as (_ & H). subst rb. exact Hb2. }
  destruct (berr b1) as [e1|].
  { apply Some2_inj in H. destruct H as (_ & H). subst rb. exact Hb2. }
  eapply IH; [exact H|exact Hb2].
Qed.

Definition bDiscard_F (F : nat) (b : bufrd) (n : N) : option (option berror * bufrd) :=
  if n =? 0 then Some (None, b) else discard_loop F b n.

Lemma bDiscard_eq : forall b n, bDiscard b n = bDiscard_F big_fuel b n.
Proof. intros b n. unfold bDiscard, bDiscard_F. reflexivity. Qed.

Lemma bDiscard_ok : forall b n e rb, bDiscard b n = Some (e, rb) -> binv b -> binv rb.
Proof.
  intros b n e rb H Hb. rewrite bDiscard_eq in H. unfold bDiscard_F in H.
  destruct (n =? 0).
  - apply Some2_inj in H. destruct H as (_ & H). subst rb. exact Hb.
  - eapply discard_loop_ok; eauto.
Qed.

(* ---------------------------------------------------------------- decomperss / step *)
Lemma decomp_loop_inv : forall fuel s out idx s' out' idx' e,
  sinv s -> decomp_loop fuel s out idx = (s', out', idx', e) -> e <> EPanic -> e <> EFuel -> sinv s'.
Proof.
  induction fuel as [|f IH]; intros s out idx s' out' idx' e Hs H Hp Hf; cbn [decomp_loop] in H.
  - apply pair_inj in H. destruct H as (_ & H). congruence.
  - destruct (phase s =? phaseStreamEnd).
    { apply pair_inj in H. destruct H as (H & _). apply pair_inj in H. destruct H as (H & _).
      apply pair_inj in H. destruct H as (H & _). subst s'. exact Hs. }
    assert (Hhd : forall s1 err,
      (if (phase s =? phaseNewBlock) || (phase s =? phaseDecodingHeader) then readHeader s else (s, ENone))
        = (s1, err) -> err <> EPanic -> err <> EFuel -> sinv s1).
    { intros s1 err Hh Hp1 Hf1. destruct ((phase s =? phaseNewBlock) || (phase s =? phaseDecodingHeader)).
      - eapply readHeader_inv; eauto.
      - apply pair_inj in Hh. destruct Hh as (Hh & _). subst s1. exact Hs. }
    destruct (if (phase s =? phaseNewBlock) || (phase s =? phaseDecodingHeader) then readHeader s else (s, ENone))
      as [s1 err].
    specialize (Hhd s1 err eq_refl).
    assert (Hret : forall ee, ee <> EPanic -> ee <> EFuel -> sinv s1 -> (s1, out, idx, ee) = (s', out', idx', e) -> sinv s').
    { intros ee _ _ Hs1 Hq. apply pair_inj in Hq. destruct Hq as (Hq & _). apply pair_inj in Hq. destruct Hq as (Hq & _).
      apply pair_inj in Hq. destruct Hq as (Hq & _). subst s'. exact Hs1. }
    assert (Hee : forall ee, (s1, out, idx, ee) = (s', out', idx', e) -> ee = e).
    { intros ee Hq. apply pair_inj in Hq. destruct Hq as (_ & Hq). exact Hq. }
    destruct err;
      try (pose proof (Hee _ H) as Hq; subst e; eapply Hret; [| | |exact H]; try assumption;
           apply Hhd; assumption).
    assert (Hs1 : sinv s1) by (apply Hhd; discriminate).
    assert (Hdec : sinv (res_s (if phase s1 =? phaseLitBlock then decodeLiteralBlock s1 out idx
                                else decodeHuffman s1 out idx))).
    { destruct (phase s1 =? phaseLitBlock).
      - apply decodeLiteralBlock_inv. exact Hs1.
      - destruct (decodeHuffman s1 out idx) as [[[s2 o2] i2] e2] eqn:E.
        unfold res_s. cbn [fst]. eapply decodeHuffman_inv; eauto. }
    destruct (if phase s1 =? phaseLitBlock then decodeLiteralBlock s1 out idx else decodeHuffman s1 out idx)
      as [[[s2 o2] i2] e2].
    unfold res_s in Hdec. cbn [fst] in Hdec.
    destruct e2;
      try (apply pair_inj in H; destruct H as (H & _); apply pair_inj in H; destruct H as (H & _);
           apply pair_inj in H; destruct H as (H & _); subst s'; exact Hdec).
    eapply IH; eauto.
Qed.

Definition decomperss_F (F : nat) (f : decompressor) : decompressor * ierr :=
  let '(s, h, idx, err) := decomp_loop F (state f) (hist f) (writePos f) in
  let '(s, h, idx) :=
    if negb (writeOverflowLen (ov s) =? 0) then
      let v := u32 (writeOverflowLits (ov s)) in
      let h := aset (aset (aset (aset h idx (N.land v 255)) (idx + 1) (N.land (N.shiftr v 8) 255))
                          (idx + 2) (N.land (N.shiftr v 16) 255)) (idx + 3) (N.shiftr v 24) in
      (set_wov s 0 0, h, idx + writeOverflowLen (ov s))
    else (s, h, idx) in
  let '(s, h, idx) :=
    if negb (copyOverflowLength (ov s) =? 0) then
      (set_cov s 0 0, byteCopy h idx (copyOverflowDistance (ov s)) (copyOverflowLength (ov s)),
       idx + copyOverflowLength (ov s))
    else (s, h, idx) in
  (mkD s idx (readPos f) h (rBuf f) (derr f) (peekSize f) (eof f) (haveBits f), err).

Lemma decomperss_eq : forall f, decomperss f = decomperss_F big_fuel f.
Proof. intros f. unfold decomperss, decomperss_F. reflexivity. Qed.

Lemma decomperss_F_inv : forall F f f' e,
  dinv f -> decomperss_F F f = (f', e) -> e <> EPanic -> e <> EFuel -> dinv f'.
Proof.
  intros F f f' e (Hs & Hb) H Hp Hf. unfold decomperss_F in H.
  destruct (decomp_loop F (state f) (hist f) (writePos f)) as [[[s1 h1] i1] e1] eqn:E.
  assert (Hs1 : sinv s1).
  { eapply decomp_loop_inv; [exact Hs|exact E| |].
    - intros ->. destruct (negb (writeOverflowLen (ov s1) =? 0));
        match type of H with context [if ?c then _ else _] => destruct c end;
        apply pair_inj in H; destruct H as (_ & H); congruence.
    - intros ->. destruct (negb (writeOverflowLen (ov s1) =? 0));
        match type of H with context [if ?c then _ else _] => destruct c end;
        apply pair_inj in H; destruct H as (_ & H); congruence. }
  destruct Hs1 as (Q1 & Q2).
  destruct (negb (writeOverflowLen (ov s1) =? 0));
    match type of H with context [if ?c then _ else _] => destruct c end;
    apply pair_inj in H; destruct H as (H & _); subst f'; (split; [split; [exact Q1|exact Q2]|exact Hb]).
Qed.

Lemma decomperss_inv : forall f f' e,
  dinv f -> decomperss f = (f', e) -> e <> EPanic -> e <> EFuel -> dinv f'.
Proof. intros f f' e Hd H. rewrite decomperss_eq in H. eapply decomperss_F_inv; eauto. Qed.

(* the parts of step *)
Definition step_pre (f : decompressor) : decompressor * option rres :=
      if inputNil (state f) then
        if (r_len (rd (state f)) <? 0)%Z then (f, Some RPanic)
        else
          let held := Z.to_N (Z.quot (r_len (rd (state f))) 8) in
          let f := mkD (state f) (writePos f) (readPos f) (hist f) (rBuf f) (derr f) (peekSize f)
                       false (haveBits f) in
          let r0 : decompressor * option rres :=
            if (bBuffered (rBuf f) <=? held) && negb (haveBits f) then
              match bPeek (rBuf f) (held + 1) with
              | None => (f, Some RStuck)
              | Some (_, _, e, rb) =>
                let f := mkD (state f) (writePos f) (readPos f) (hist f) rb (derr f) (peekSize f)
                             (eof f) (haveBits f) in
                match e with
                | Some BSrc => (f, Some RSrcErr)
                | Some BNoProgress => (f, Some RNoProgress)
                | Some BEOF =>
                  (mkD (state f) (writePos f) (readPos f) (hist f) (rBuf f) (derr f) (peekSize f)
                       true (haveBits f), None)
                | _ => (f, None)
                end
              end
            else (f, None) in
          match r0 with
          | (f, Some e) => (f, Some e)
          | (f, None) =>
            match bPeek (rBuf f) (bBuffered (rBuf f)) with
            | None => (f, Some RStuck)
            | Some (bytes, n, _, rb) =>
              if n <? held then (f, Some RPanic)
              else
                let s := state f in
                let s := set_inputNil (set_rd s (br_set_in (rd s) (skipn (N.to_nat held) bytes)
                                                           (n - held))) false in
                (mkD s (writePos f) (readPos f) (hist f) rb (derr f) n (eof f) (haveBits f), None)
            end
          end
      else (f, None).

Definition slide (f : decompressor) : decompressor :=
      let readPos1 := writePos f in
      let '(h, readPos1, writePos1) :=
        if historySize * 2 <=? readPos1 then
          (forN 0 historySize (fun i h => aset h i (aget h (readPos1 - historySize + i))) (hist f),
           historySize, historySize)
        else (hist f, readPos1, writePos f) in
      mkD (state f) writePos1 readPos1 h (rBuf f) (derr f) (peekSize f) (eof f) (haveBits f).

Definition step_post (f : decompressor) (e : ierr) (startInputSize startBitsLen : Z)
  : decompressor * option rres :=
      let f := set_state f (rOffset (state f) startInputSize startBitsLen) in
      let f := mkD (state f) (writePos f) (readPos f) (hist f) (rBuf f) (derr f) (peekSize f) (eof f)
                   (negb (ierr_eqb e EEndInput)) in
      match e with
      | EPanic => (f, Some RPanic)
      | EFuel => (f, Some RStuck)
      | _ =>
        if isError e || (ierr_eqb e EEndInput && eof f) then
          match step_discard_at (held_nonneg f) f with
          | None => (f, Some RStuck)
          | Some (Some be, f) => (f, Some (rres_of_berror be))
          | Some (None, f) =>
            if ierr_eqb e EEndInput then (f, Some RUnexpectedEOF)
            else (f, Some (RCorrupt (roffset (state f))))
          end
        else
          let '(f, ret) :=
            if phase (state f) =? phaseStreamEnd
            then (set_state f (set_phase (state f) phaseFinish), Some REOF)
            else (f, None) in
          if (r_inlen (rd (state f)) =? 0) || (phase (state f) =? phaseFinish) then
            match step_discard f with
            | None => (f, Some RStuck)
            | Some (Some be, f) => (f, Some (rres_of_berror be))
            | Some (None, f) => (f, ret)
            end
          else (f, ret)
      end.

Definition step_D (f : decompressor) : decompressor * option rres :=
  if phase (state f) =? phaseFinish then (f, Some REOF)
  else
    match step_pre f with
    | (f, Some e) => (f, Some e)
    | (f, None) =>
      let f0 := slide f in
      let '(f1, e) := decomperss f0 in
      step_post f1 e (Z.of_N (r_inlen (rd (state f0)))) (r_len (rd (state f0)))
    end.

Lemma step_eq : forall f, step f = step_D f.
Proof.
  intros f. unfold step, step_D. destruct (phase (state f) =? phaseFinish); [reflexivity|].
  unfold step_pre.
  match goal with |- match ?r with _ => _ end = _ => destruct r as [f' [e|]] end; [reflexivity|].
  unfold slide.
  match goal with |- context [if ?c then (forN _ _ _ _, _, _) else _] => destruct c end; reflexivity.
Qed.

Lemma step_pre_inv : forall f, dinv f -> dinv (fst (step_pre f)).
Proof.
  intros f ((Hs1 & Hs2) & Hb). unfold step_pre.
  destruct (inputNil (state f)); [|split; [split|]; assumption].
  destruct (r_len (rd (state f)) <? 0)%Z; [split; [split|]; assumption|].
  cbv zeta. cbn [rBuf haveBits state writePos readPos hist derr peekSize eof].
  set (held := Z.to_N (r_len (rd (state f)) ÷ 8)).
  assert (Hsec : forall (f0 : decompressor), state f0 = state f -> binv (rBuf f0) ->
    dinv (fst (match bPeek (rBuf f0) (bBuffered (rBuf f0)) with
            | None => (f0, Some RStuck)
            | Some (bytes, n, _, rb) =>
              if n <? held then (f0, Some RPanic)
              else
                (mkD (set_inputNil (set_rd (state f0) (br_set_in (rd (state f0)) (skipn (N.to_nat held) bytes)
                                                           (n - held))) false)
                     (writePos f0) (readPos f0) (hist f0) rb (derr f0) n (eof f0) (haveBits f0), None)
            end))).
  { intros f0 Hst Hb0.
    destruct (bPeek (rBuf f0) (bBuffered (rBuf f0))) as [[[[bytes n] e] rb]|] eqn:E.
    - apply bPeek_ok in E; [|exact Hb0]. destruct E as (E1 & E2).
      destruct (n <? held).
      + cbn [fst]. rewrite <- Hst in Hs1, Hs2. split; [split|]; assumption.
      + cbn [fst]. split; [split|].
        * unfold inlen_ok. cbn [state set_inputNil set_rd rd br_set_in r_in r_inlen].
          rewrite skipn_length. lia.
        * cbn [state set_inputNil set_rd headerBuffered headerBuffer]. rewrite Hst. exact Hs2.
        * exact E2.
    - cbn [fst]. rewrite <- Hst in Hs1, Hs2. split; [split|]; assumption. }
  destruct ((bBuffered (rBuf f) <=? held) && negb (haveBits f)).
  - destruct (bPeek (rBuf f) (held + 1)) as [[[[bytes n] e] rb]|] eqn:E.
    + apply bPeek_ok in E; [|exact Hb]. destruct E as (_ & E2).
      destruct e as [[| | |]|];
        try (cbn [fst]; split; [split|]; assumption);
        match goal with |- dinv (fst (match bPeek (rBuf ?f0) _ with _ => _ end)) =>
          apply (Hsec f0); [reflexivity|exact E2] end.
    + cbn [fst]. split; [split|]; assumption.
  - match goal with |- dinv (fst (match bPeek (rBuf ?f0) _ with _ => _ end)) =>
      apply (Hsec f0); [reflexivity|exact Hb] end.
Qed.

Lemma slide_state : forall f, state (slide f) = state f /\ rBuf (slide f) = rBuf f.
Proof.
  intros f. unfold slide.
  match goal with |- context [if ?c then (forN _ _ _ _, _, _) else _] => destruct c end; split; reflexivity.
Qed.

Lemma step_discard_inv : forall f be f', step_discard f = Some (be, f') -> dinv f -> dinv f'.
Proof.
  intros f be f' H ((Hs1 & Hs2) & Hb). unfold step_discard in H. cbv zeta in H.
  match type of H with (if ?c then _ else _) = _ => destruct c end.
  - match type of H with match ?c with _ => _ end = _ => destruct c as [[[e|] rb]|] eqn:E end;
      [| |discriminate].
    + apply bDiscard_ok in E; [|exact Hb].
      apply Some2_inj in H. destruct H as (_ & H). subst f'. split; [split|]; assumption.
    + apply bDiscard_ok in E; [|exact Hb].
      apply Some2_inj in H. destruct H as (_ & H). subst f'. split; [split|].
      * unfold inlen_ok. cbn. lia.
      * exact Hs2.
      * exact E.
  - apply Some2_inj in H. destruct H as (_ & H). subst f'. split; [split|].
    * unfold inlen_ok. cbn. lia.
    * exact Hs2.
    * exact Hb.
Qed.

Lemma step_post_inv : forall f e a b f',
  dinv f -> step_post f e a b = (f', None) -> dinv f'.
Proof.
  intros f e a b f' ((Hs1 & Hs2) & Hb) H. unfold step_post in H. cbv zeta in H.
  set (f0 := mkD (state (set_state f (rOffset (state f) a b))) (writePos (set_state f (rOffset (state f) a b)))
                 (readPos (set_state f (rOffset (state f) a b))) (hist (set_state f (rOffset (state f) a b)))
                 (rBuf (set_state f (rOffset (state f) a b))) (derr (set_state f (rOffset (state f) a b)))
                 (peekSize (set_state f (rOffset (state f) a b))) (eof (set_state f (rOffset (state f) a b)))
                 (negb (ierr_eqb e EEndInput))) in *.
  assert (H0 : dinv f0) by (split; [split|]; assumption).
  clearbody f0.
  assert (Hmain :
    (if isError e || (ierr_eqb e EEndInput && eof f0) then
          match step_discard_at (held_nonneg f0) f0 with
          | None => (f0, Some RStuck)
          | Some (Some be, f) => (f, Some (rres_of_berror be))
          | Some (None, f) =>
            if ierr_eqb e EEndInput then (f, Some RUnexpectedEOF)
            else (f, Some (RCorrupt (roffset (state f))))
          end
        else
          let '(f, ret) :=
            if phase (state f0) =? phaseStreamEnd
            then (set_state f0 (set_phase (state f0) phaseFinish), Some REOF)
            else (f0, None) in
          if (r_inlen (rd (state f)) =? 0) || (phase (state f) =? phaseFinish) then
            match step_discard f with
            | None => (f, Some RStuck)
            | Some (Some be, f) => (f, Some (rres_of_berror be))
            | Some (None, f) => (f, ret)
            end
          else (f, ret)) = (f', None) -> dinv f').
  { clear H. intros H.
    destruct (isError e || (ierr_eqb e EEndInput && eof f0)).
    - destruct (step_discard_at (held_nonneg f0) f0) as [[[be|] f1]|] eqn:E.
      + apply pair_inj in H. destruct H as (_ & H). discriminate.
      + destruct (ierr_eqb e EEndInput); apply pair_inj in H; destruct H as (_ & H); discriminate.
      + apply pair_inj in H. destruct H as (_ & H). discriminate.
    - destruct (phase (state f0) =? phaseStreamEnd).
      + assert (H1 : dinv (set_state f0 (set_phase (state f0) phaseFinish))).
        { destruct H0 as ((A & B) & C). split; [split|]; assumption. }
        revert H. generalize (set_state f0 (set_phase (state f0) phaseFinish)) H1. intros f1 H1' H.
        destruct ((r_inlen (rd (state f1)) =? 0) || (phase (state f1) =? phaseFinish)).
        * destruct (step_discard f1) as [[[be|] f2]|] eqn:E.
          -- apply pair_inj in H. destruct H as (_ & H). discriminate.
          -- apply pair_inj in H. destruct H as (_ & H). discriminate.
          -- apply pair_inj in H. destruct H as (_ & H). discriminate.
        * apply pair_inj in H. destruct H as (_ & H). discriminate.
      + destruct ((r_inlen (rd (state f0)) =? 0) || (phase (state f0) =? phaseFinish)).
        * destruct (step_discard f0) as [[[be|] f2]|] eqn:E.
          -- apply pair_inj in H. destruct H as (_ & H). discriminate.
          -- apply pair_inj in H. destruct H as (H & _). subst f'. eapply step_discard_inv; eauto.
          -- apply pair_inj in H. destruct H as (_ & H). discriminate.
        * apply pair_inj in H. destruct H as (H & _). subst f'. exact H0. }
  destruct e; try (apply Hmain; exact H); apply pair_inj in H; destruct H as (_ & H); discriminate.
Qed.

Lemma step_inv : forall f f', dinv f -> step f = (f', None) -> dinv f'.
Proof.
  intros f f' Hd H. rewrite step_eq in H. unfold step_D in H.
  destruct (phase (state f) =? phaseFinish).
  { apply pair_inj in H. destruct H as (_ & H). discriminate. }
  pose proof (step_pre_inv f Hd) as Hp.
  destruct (step_pre f) as [f1 [e|]]; cbn [fst] in Hp.
  { apply pair_inj in H. destruct H as (_ & H). discriminate. }
  cbv zeta in H.
  assert (Hsl : dinv (slide f1)).
  { destruct (slide_state f1) as (A & B). destruct Hp as (P1 & P2). split; [rewrite A|rewrite B]; assumption. }
  destruct (decomperss (slide f1)) as [f2 e] eqn:E.
  destruct (ierr_eqb e EPanic) eqn:E1.
  { destruct e; try discriminate E1. unfold step_post in H. cbv zeta in H.
    apply pair_inj in H. destruct H as (_ & H). discriminate H. }
  destruct (ierr_eqb e EFuel) eqn:E2.
  { destruct e; try discriminate E2. unfold step_post in H. cbv zeta in H.
    apply pair_inj in H. destruct H as (_ & H). discriminate H. }
  eapply step_post_inv; [|exact H].
  eapply decomperss_inv; [exact Hsl|exact E| |]; intros ->; discriminate.
Qed.

Lemma dinv_new : forall bs cs t, dinv (newReader bs cs t).
Proof.
  intros bs cs t. unfold newReader, dinv, sinv, inlen_ok, binv. cbn. lia.
Qed.
