(* EngineSafetyBits.v -- item 2: the bit buffer of RModel/Engine.v.
   Invariant br_inv; load_raw / load_lt57 / load_le15 / loadBits / readBits never fail (no
   "shift by a negative count"), preserve the invariant and the number of available bits. *)
From Verif Require Import Engine EngineTables.
From Verif Require Import Base EngineSafetyBase.
From Coq Require Import List NArith ZArith Bool Lia ZifyBool ZifyNat ZifyN.
Import ListNotations.
Open Scope N_scope.

(* r_inlen caches the length; bitsLen never exceeds 64; bitsLen can only be negative once the
   input is exhausted *)
Definition br_inv (b : bitrd) : Prop :=
  r_inlen b = N.of_nat (length (r_in b)) /\ (r_len b <= 64)%Z /\
  ((r_len b < 0)%Z -> r_inlen b = 0).

(* ... and at least k bits are buffered unless the input is exhausted *)
Definition br_ok (k : Z) (b : bitrd) : Prop :=
  br_inv b /\ (r_inlen b = 0 \/ (k <= r_len b)%Z).

(* unread bits (negative: phantom bits were consumed) *)
Definition avail (b : bitrd) : Z := (8 * Z.of_N (r_inlen b) + r_len b)%Z.

Lemma br_ok_inv : forall k b, br_ok k b -> br_inv b.
Proof. intros k b H. exact (proj1 H). Qed.

Lemma br_ok_weaken : forall k k' b, (k' <= k)%Z -> br_ok k b -> br_ok k' b.
Proof. intros k k' b Hk (Hi & [H|H]); split; auto. right. lia. Qed.

Lemma br_inv_ok : forall b, br_inv b -> (0 <= r_len b)%Z -> br_ok 0 b.
Proof. intros b H H0. split; auto. Qed.

Lemma br_ok_nonneg_inv : forall k b, (0 <= k)%Z -> br_ok k b -> br_ok k b.
Proof. auto. Qed.

(* dropping k bits *)
Lemma br_drop_ok : forall m b k,
  br_ok m b -> (Z.of_N k <= m)%Z ->
  br_ok (m - Z.of_N k) (br_drop b k) /\ avail (br_drop b k) = (avail b - Z.of_N k)%Z /\
  r_inlen (br_drop b k) = r_inlen b /\ r_in (br_drop b k) = r_in b /\
  r_len (br_drop b k) = (r_len b - Z.of_N k)%Z.
Proof.
  intros m b k ((I1 & I2 & I3) & Hm) Hk. unfold br_drop, br_ok, br_inv, avail; cbn.
  split; [split; [split; [exact I1|split; [lia|]]|]|].
  - intros Hneg. destruct Hm as [Hm|Hm]; [exact Hm|]. lia.
  - destruct Hm as [Hm|Hm]; [left; exact Hm|right; lia].
  - repeat split; lia.
Qed.

Lemma next_bits_eq : forall b k, next_bits b k = (N.land (r_bits b) (N.ones k), br_drop b k).
Proof. reflexivity. Qed.

Lemma next_bits_lt : forall b k, fst (next_bits b k) < 2 ^ k.
Proof. intros b k. cbn. apply land_ones_lt. Qed.

(* byte-wise loading *)
Lemma load_bytes_spec : forall n b,
  r_inlen b = N.of_nat (length (r_in b)) ->
  let m := N.min (N.of_nat n) (r_inlen b) in
  let b' := load_bytes n b in
  r_inlen b' = N.of_nat (length (r_in b')) /\ r_inlen b' = r_inlen b - m /\
  r_len b' = (r_len b + 8 * Z.of_N m)%Z.
Proof.
  induction n as [|k IH]; intros b Hl; cbn [load_bytes].
  - split; [exact Hl|]. split; lia.
  - destruct (r_in b) as [|x rest] eqn:Ein.
    + cbn [length] in Hl. rewrite Ein. cbn [length].
      split; [lia|]. split; lia.
    + cbn [length] in Hl.
      set (b1 := mkBR (N.lor (r_bits b) (shl64 x (Z.to_N (r_len b)))) (r_len b + 8)%Z rest (r_inlen b - 1)).
      assert (Hl1 : r_inlen b1 = N.of_nat (length (r_in b1))) by (unfold b1; cbn; lia).
      specialize (IH b1 Hl1). cbn zeta in IH. destruct IH as (A1 & A2 & A3).
      split; [exact A1|]. split.
      * rewrite A2. unfold b1; cbn [r_inlen]. lia.
      * rewrite A3. unfold b1; cbn [r_inlen r_len]. lia.
Qed.

Lemma skipn_length_N : forall (l : list N) n, N.of_nat (length (skipn n l)) = N.of_nat (length l) - N.of_nat n.
Proof. intros l n. rewrite skipn_length. lia. Qed.

(* load_raw never fails under the invariant; afterwards >= 57 bits are buffered or the input is
   exhausted; nothing is lost *)
Theorem load_raw_spec : forall b,
  br_inv b ->
  exists b', load_raw b = Some b' /\ br_ok 57 b' /\ avail b' = avail b /\
             (r_len b <= r_len b')%Z /\ r_inlen b' <= r_inlen b.
Proof.
  intros b (I1 & I2 & I3). unfold load_raw.
  destruct (r_len b <? 0)%Z eqn:Eneg.
  - assert (Hz : r_inlen b = 0) by (apply I3; lia).
    rewrite Hz. cbn. exists b. split; [reflexivity|].
    split; [split; [split; [exact I1|split; [exact I2|exact I3]]|left; exact Hz]|].
    split; [reflexivity|]. split; lia.
  - destruct (64 <? r_len b)%Z eqn:E64; [lia|].
    destruct (8 <=? r_inlen b) eqn:E8.
    + destruct (r_in b) as [|a0 [|a1 [|a2 [|a3 [|a4 [|a5 [|a6 [|a7 rest]]]]]]]] eqn:Ein;
        cbn [length] in I1; try lia.
      eexists. split; [reflexivity|].
      set (n := Z.to_N (r_len b)).
      assert (Hn : Z.of_N n = r_len b) by (unfold n; lia).
      assert (Hc : (n + 7) / 8 < 9).
      { apply N.div_lt_upper_bound; lia. }
      assert (Hc2 : 8 * ((n + 7) / 8) <= n + 7) by (apply N.mul_div_le; lia).
      assert (Hc3 : n + 7 < 8 * ((n + 7) / 8) + 8).
      { pose proof (N.div_mod (n + 7) 8 ltac:(lia)). pose proof (N.mod_lt (n + 7) 8 ltac:(lia)). lia. }
      unfold br_ok, br_inv, avail; cbn [r_inlen r_in r_len r_bits].
      rewrite skipn_length_N. cbn [length].
      fold n. set (c := 8 - (n + 7) / 8).
      assert (Hcv : c + (n + 7) / 8 = 8) by (unfold c; lia).
      split; [split; [split; [lia|split; [lia|intros; lia]]|right; lia]|].
      split; [lia|]. split; lia.
    + eexists. split; [reflexivity|].
      set (n := Z.to_N (r_len b)).
      assert (Hn : Z.of_N n = r_len b) by (unfold n; lia).
      set (size := N.min ((64 - n) / 8) (r_inlen b)).
      pose proof (load_bytes_spec (N.to_nat size) b I1) as H. cbn zeta in H.
      destruct H as (A1 & A2 & A3).
      assert (Hmin : N.min (N.of_nat (N.to_nat size)) (r_inlen b) = size) by (unfold size; lia).
      rewrite Hmin in A2, A3.
      assert (Hd : 8 * ((64 - n) / 8) <= 64 - n) by (apply N.mul_div_le; lia).
      assert (Hd2 : 64 - n < 8 * ((64 - n) / 8) + 8).
      { pose proof (N.div_mod (64 - n) 8 ltac:(lia)). pose proof (N.mod_lt (64 - n) 8 ltac:(lia)). lia. }
      unfold br_ok, br_inv, avail. rewrite A2, A3.
      assert (Hs1 : size <= (64 - n) / 8) by (unfold size; lia).
      assert (Hs2 : size <= r_inlen b) by (unfold size; lia).
      assert (Hs3 : size = r_inlen b \/ size = (64 - n) / 8) by (unfold size; lia).
      split; [split; [split; [rewrite <- A2; exact A1|split; [lia|intros; lia]]|]|].
      { destruct Hs3 as [Hs3|Hs3]; [left; lia|right; lia]. }
      split; [lia|]. split; lia.
Qed.

Theorem load_lt57_spec : forall b,
  br_inv b ->
  exists b', load_lt57 b = Some b' /\ br_ok 57 b' /\ avail b' = avail b /\
             (r_len b <= r_len b')%Z /\ r_inlen b' <= r_inlen b.
Proof.
  intros b Hi. unfold load_lt57. destruct (r_len b <? 57)%Z eqn:E.
  - apply load_raw_spec; exact Hi.
  - exists b. split; [reflexivity|]. split; [split; [exact Hi|right; lia]|]. split; [reflexivity|]. split; lia.
Qed.

Theorem load_le15_spec : forall b,
  br_inv b ->
  exists b', load_le15 b = Some b' /\ br_ok 16 b' /\ avail b' = avail b /\
             (r_len b <= r_len b')%Z /\ r_inlen b' <= r_inlen b.
Proof.
  intros b Hi. unfold load_le15. destruct (r_len b <=? 15)%Z eqn:E.
  - destruct (load_raw_spec b Hi) as (b' & L1 & L2 & L3 & L4 & L5).
    exists b'. split; [exact L1|]. split; [apply (br_ok_weaken 57); [lia|exact L2]|]. auto.
  - exists b. split; [reflexivity|]. split; [split; [exact Hi|right; lia]|]. split; [reflexivity|]. split; lia.
Qed.

(* the loads keep a stronger lower bound when there is one *)
Lemma load_le15_keeps : forall b b' k, br_ok k b -> load_le15 b = Some b' -> (k <= 57)%Z -> br_ok k b'.
Proof.
  intros b b' k Hk Hl Hk57. unfold load_le15 in Hl. destruct (r_len b <=? 15)%Z.
  - destruct (load_raw_spec b (proj1 Hk)) as (b2 & L1 & L2 & _). rewrite L1 in Hl. inversion Hl; subst.
    apply (br_ok_weaken 57); auto.
  - inversion Hl; subst; exact Hk.
Qed.

Lemma load_lt57_keeps : forall b b' k, br_ok k b -> load_lt57 b = Some b' -> (k <= 57)%Z -> br_ok k b'.
Proof.
  intros b b' k Hk Hl Hk57. unfold load_lt57 in Hl. destruct (r_len b <? 57)%Z.
  - destruct (load_raw_spec b (proj1 Hk)) as (b2 & L1 & L2 & _). rewrite L1 in Hl. inversion Hl; subst.
    apply (br_ok_weaken 57); auto.
  - inversion Hl; subst; exact Hk.
Qed.
