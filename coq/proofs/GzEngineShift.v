(* GzEngineShift.v -- GzEngineSpec section A: Engine.dRead never looks at the book-keeping counter
   `consumed` of the bufio model (shift invariance).  Commutation lemmas bottom-up:
   fill_loop, bfill, peek_loop, bPeek, discard_loop, bDiscard, decomperss, step_discard(_at),
   the pieces of step (EngineRefineTopBase.step_eq), step, read_loop, dRead. *)
From Coq Require Import List NArith ZArith Bool Lia.
From Verif Require Import Bits Huffman Inflate InflateSpec.
From Verif Require Import Base Engine GzEngine GzEngineSpec EngineRefineTopBase.
Import ListNotations.
Open Scope N_scope.

(* ---------------------------------------------------------------- projections *)
Lemma bsize_shift : forall k b, bsize (bshift k b) = bsize b. Proof. reflexivity. Qed.
Lemma bbuf_shift : forall k b, bbuf (bshift k b) = bbuf b. Proof. reflexivity. Qed.
Lemma blen_shift : forall k b, blen (bshift k b) = blen b. Proof. reflexivity. Qed.
Lemma berr_shift : forall k b, berr (bshift k b) = berr b. Proof. reflexivity. Qed.
Lemma chunks_shift : forall k b, chunks (bshift k b) = chunks b. Proof. reflexivity. Qed.
Lemma term_shift : forall k b, term (bshift k b) = term b. Proof. reflexivity. Qed.
Lemma consumed_shift : forall k b, consumed (bshift k b) = consumed b + k. Proof. reflexivity. Qed.
Lemma bBuffered_shift : forall k b, bBuffered (bshift k b) = bBuffered b. Proof. reflexivity. Qed.

Lemma state_dshift : forall k f, state (dshift k f) = state f. Proof. reflexivity. Qed.
Lemma writePos_dshift : forall k f, writePos (dshift k f) = writePos f. Proof. reflexivity. Qed.
Lemma readPos_dshift : forall k f, readPos (dshift k f) = readPos f. Proof. reflexivity. Qed.
Lemma hist_dshift : forall k f, hist (dshift k f) = hist f. Proof. reflexivity. Qed.
Lemma rBuf_dshift : forall k f, rBuf (dshift k f) = bshift k (rBuf f). Proof. reflexivity. Qed.
Lemma derr_dshift : forall k f, derr (dshift k f) = derr f. Proof. reflexivity. Qed.
Lemma peekSize_dshift : forall k f, peekSize (dshift k f) = peekSize f. Proof. reflexivity. Qed.
Lemma eof_dshift : forall k f, eof (dshift k f) = eof f. Proof. reflexivity. Qed.
Lemma haveBits_dshift : forall k f, haveBits (dshift k f) = haveBits f. Proof. reflexivity. Qed.

Ltac bproj := rewrite ?bsize_shift, ?bbuf_shift, ?blen_shift, ?berr_shift, ?chunks_shift, ?term_shift,
                      ?bBuffered_shift.
Ltac dproj := rewrite ?state_dshift, ?writePos_dshift, ?readPos_dshift, ?hist_dshift, ?derr_dshift,
                      ?peekSize_dshift, ?eof_dshift, ?haveBits_dshift, ?rBuf_dshift.

Lemma dshift_mkD : forall k s w r h b e ps eo hb,
  dshift k (mkD s w r h b e ps eo hb) = mkD s w r h (bshift k b) e ps eo hb.
Proof. reflexivity. Qed.

(* ---------------------------------------------------------------- bufio *)
Lemma fill_loop_shift : forall k i b, fill_loop i (bshift k b) = bshift k (fill_loop i b).
Proof.
  intros k. induction i as [|i IH]; intros b.
  - reflexivity.
  - cbn [fill_loop]. bproj.
    destruct (src_read (chunks b) (term b) (bsize b - blen b)) as [[[got n] err] cs].
    destruct err as [e|]; [reflexivity|].
    destruct (0 <? n); [reflexivity|].
    rewrite <- IH. reflexivity.
Qed.

Lemma bfill_shift : forall k b, bfill (bshift k b) = option_map (bshift k) (bfill b).
Proof.
  intros k b. unfold bfill. rewrite fill_loop_shift. bproj.
  destruct (bsize b <=? blen b); reflexivity.
Qed.

Lemma peek_loop_shift : forall k fuel b n,
  peek_loop fuel (bshift k b) n = option_map (bshift k) (peek_loop fuel b n).
Proof.
  intros k. induction fuel as [|fuel IH]; intros b n.
  - reflexivity.
  - cbn [peek_loop]. rewrite bfill_shift. bproj.
    destruct ((blen b <? n) && (blen b <? bsize b) && match berr b with None => true | Some _ => false end).
    + destruct (bfill b) as [b1|]; cbn [option_map]; [apply IH|reflexivity].
    + reflexivity.
Qed.

Definition bPeek_lift (k : N) (r : option (list N * N * option berror * bufrd)) :=
  match r with
  | None => None
  | Some (bytes, m, e, b') => Some (bytes, m, e, bshift k b')
  end.

Lemma bPeek_shift : forall k b n, bPeek (bshift k b) n = bPeek_lift k (bPeek b n).
Proof.
  intros k b n. unfold bPeek. rewrite peek_loop_shift.
  destruct (peek_loop big_fuel b n) as [b1|]; cbn [option_map bPeek_lift]; [|reflexivity].
  bproj.
  destruct (bsize b1 <? n); [reflexivity|].
  destruct (blen b1 <? n); reflexivity.
Qed.

Definition bskip (b : bufrd) (skip : N) : bufrd :=
  mkBuf (bsize b) (skipn (N.to_nat skip) (bbuf b)) (blen b - skip) (berr b)
        (chunks b) (term b) (consumed b + skip).
Definition bclr (b : bufrd) : bufrd :=
  mkBuf (bsize b) (bbuf b) (blen b) None (chunks b) (term b) (consumed b).

Lemma discard_loop_S : forall f b remain,
  discard_loop (S f) b remain =
  match (if blen b =? 0 then bfill b else Some b) with
  | None => None
  | Some b1 =>
    let skip := N.min (blen b1) remain in
    if remain - skip =? 0 then Some (None, bskip b1 skip)
    else match berr b1 with
         | Some e => Some (Some e, bclr (bskip b1 skip))
         | None => discard_loop f (bskip b1 skip) (remain - skip)
         end
  end.
Proof. reflexivity. Qed.

Lemma bskip_shift : forall k b s, bskip (bshift k b) s = bshift k (bskip b s).
Proof. intros k b s. unfold bskip, bshift. cbn [bsize bbuf blen berr chunks term consumed]. f_equal. lia. Qed.

Lemma bclr_shift : forall k b, bclr (bshift k b) = bshift k (bclr b).
Proof. reflexivity. Qed.

Definition bDiscard_lift (k : N) (r : option (option berror * bufrd)) :=
  match r with
  | None => None
  | Some (e, b') => Some (e, bshift k b')
  end.

Lemma discard_loop_shift : forall k fuel b r,
  discard_loop fuel (bshift k b) r = bDiscard_lift k (discard_loop fuel b r).
Proof.
  intros k. induction fuel as [|fuel IH]; intros b r.
  - reflexivity.
  - rewrite !discard_loop_S. rewrite bfill_shift. bproj.
    assert (E : (if blen b =? 0 then option_map (bshift k) (bfill b) else Some (bshift k b))
                = option_map (bshift k) (if blen b =? 0 then bfill b else Some b)).
    { destruct (blen b =? 0); reflexivity. }
    rewrite E. clear E.
    destruct (if blen b =? 0 then bfill b else Some b) as [b1|]; cbn [option_map]; [|reflexivity].
    cbv zeta. bproj. rewrite bskip_shift.
    destruct (r - N.min (blen b1) r =? 0); [reflexivity|].
    destruct (berr b1) as [e|].
    + rewrite bclr_shift. reflexivity.
    + apply IH.
Qed.

Lemma bDiscard_shift : forall k b n, bDiscard (bshift k b) n = bDiscard_lift k (bDiscard b n).
Proof.
  intros k b n. unfold bDiscard. destruct (n =? 0); [reflexivity|]. apply discard_loop_shift.
Qed.

(* ---------------------------------------------------------------- the decompressor *)
Lemma decomperss_shift : forall k f,
  decomperss (dshift k f) = let '(f', e) := decomperss f in (dshift k f', e).
Proof.
  intros k f. unfold decomperss. dproj.
  destruct (decomp_loop big_fuel (state f) (hist f) (writePos f)) as [[[s h] idx] err].
  destruct (negb (writeOverflowLen (ov s) =? 0));
    match goal with |- context [if ?c then _ else _] => destruct c end; reflexivity.
Qed.

Definition sd_lift (k : N) (r : option (option berror * decompressor)) :=
  match r with
  | None => None
  | Some (e, f') => Some (e, dshift k f')
  end.

Lemma step_discard_at_shift : forall k held f,
  step_discard_at held (dshift k f) = sd_lift k (step_discard_at held f).
Proof.
  intros k held f. unfold step_discard_at. dproj.
  destruct (0 <? Z.of_N (peekSize f) - Z.of_N (r_inlen (rd (state f))) - held)%Z; [|reflexivity].
  rewrite bDiscard_shift.
  destruct (bDiscard (rBuf f) _) as [[[e|] rb]|]; reflexivity.
Qed.

Lemma step_discard_shift : forall k f,
  step_discard (dshift k f) = sd_lift k (step_discard f).
Proof.
  intros k f. unfold step_discard. dproj.
  destruct (0 <? Z.of_N (peekSize f) - Z.of_N (r_inlen (rd (state f))) - Z.quot (r_len (rd (state f))) 8)%Z;
    [|reflexivity].
  rewrite bDiscard_shift.
  destruct (bDiscard (rBuf f) _) as [[[e|] rb]|]; reflexivity.
Qed.

Lemma held_nonneg_shift : forall k f, held_nonneg (dshift k f) = held_nonneg f.
Proof. reflexivity. Qed.

Definition dr_lift {A : Type} (k : N) (r : decompressor * A) : decompressor * A :=
  let '(f', a) := r in (dshift k f', a).

Lemma step_attach_shift : forall k f,
  step_attach (dshift k f) = dr_lift k (step_attach f).
Proof.
  intros k f. unfold step_attach, bBuffered. dproj.
  destruct (r_len (rd (state f)) <? 0)%Z; [reflexivity|].
  cbv zeta. cbn [rBuf haveBits state writePos readPos hist derr peekSize eof]. bproj.
  match goal with |- context [if ?c then _ else _] => destruct c end.
  - rewrite bPeek_shift.
    destruct (bPeek (rBuf f) _) as [[[[bytes m] e] rb]|]; cbn [bPeek_lift]; [|reflexivity].
    destruct e as [[]|]; try reflexivity;
      cbn [rBuf haveBits state writePos readPos hist derr peekSize eof]; bproj; rewrite bPeek_shift;
      (destruct (bPeek rb _) as [[[[bytes2 m2] e2] rb2]|]; cbn [bPeek_lift]; [|reflexivity]);
      (destruct (m2 <? _); reflexivity).
  - cbn [rBuf haveBits state writePos readPos hist derr peekSize eof]. bproj. rewrite bPeek_shift.
    destruct (bPeek (rBuf f) _) as [[[[bytes2 m2] e2] rb2]|]; cbn [bPeek_lift]; [|reflexivity].
    destruct (m2 <? _); reflexivity.
Qed.

Ltac dnorm := unfold dr_lift, dshift, set_rBuf, set_state, set_err;
              cbn [state writePos readPos hist derr peekSize eof haveBits rBuf].

Lemma step_slide_shift : forall k f, step_slide (dshift k f) = dshift k (step_slide f).
Proof.
  intros k f. unfold step_slide. dproj.
  destruct (historySize * 2 <=? writePos f); cbv beta iota zeta; dnorm; reflexivity.
Qed.

Lemma step_decode_shift : forall k f,
  step_decode (dshift k f) = dr_lift k (step_decode f).
Proof.
  intros k f. unfold step_decode. rewrite decomperss_shift. dproj.
  destruct (decomperss f) as [f1 e]. dnorm. reflexivity.
Qed.

Lemma step_tail_shift : forall k f e,
  step_tail (dshift k f) e = dr_lift k (step_tail f e).
Proof.
  intros k f e. unfold step_tail.
  rewrite held_nonneg_shift, step_discard_at_shift. dproj.
  assert (T : forall g ret,
    (if (r_inlen (rd (state g)) =? 0) || (phase (state g) =? phaseFinish)
     then match step_discard (dshift k g) with
          | None => (dshift k g, Some RStuck)
          | Some (Some be, f0) => (f0, Some (rres_of_berror be))
          | Some (None, f0) => (f0, ret)
          end
     else (dshift k g, ret)) =
    dr_lift k
    (if (r_inlen (rd (state g)) =? 0) || (phase (state g) =? phaseFinish)
     then match step_discard g with
          | None => (g, Some RStuck)
          | Some (Some be, f0) => (f0, Some (rres_of_berror be))
          | Some (None, f0) => (f0, ret)
          end
     else (g, ret))).
  { intros g ret. destruct ((r_inlen (rd (state g)) =? 0) || (phase (state g) =? phaseFinish)); [|reflexivity].
    rewrite step_discard_shift. destruct (step_discard g) as [[[be|] f0]|]; reflexivity. }
  assert (M : dr_lift k
    match step_discard_at (held_nonneg f) f with
    | None => (f, Some RStuck)
    | Some (Some be, f0) => (f0, Some (rres_of_berror be))
    | Some (None, f0) =>
      if ierr_eqb e EEndInput then (f0, Some RUnexpectedEOF) else (f0, Some (RCorrupt (roffset (state f0))))
    end =
    match sd_lift k (step_discard_at (held_nonneg f) f) with
    | None => (dshift k f, Some RStuck)
    | Some (Some be, f0) => (f0, Some (rres_of_berror be))
    | Some (None, f0) =>
      if ierr_eqb e EEndInput then (f0, Some RUnexpectedEOF) else (f0, Some (RCorrupt (roffset (state f0))))
    end).
  { destruct (step_discard_at (held_nonneg f) f) as [[[be|] f0]|]; cbn [sd_lift dr_lift]; try reflexivity.
    destruct (ierr_eqb e EEndInput); reflexivity. }
  assert (R : forall (c : bool),
    (if c
     then match sd_lift k (step_discard_at (held_nonneg f) f) with
          | None => (dshift k f, Some RStuck)
          | Some (Some be, f0) => (f0, Some (rres_of_berror be))
          | Some (None, f0) =>
            if ierr_eqb e EEndInput then (f0, Some RUnexpectedEOF)
            else (f0, Some (RCorrupt (roffset (state f0))))
          end
     else
       let '(f0, ret) :=
         if phase (state f) =? phaseStreamEnd
         then (set_state (dshift k f) (set_phase (state f) phaseFinish), Some REOF)
         else (dshift k f, None) in
       if (r_inlen (rd (state f0)) =? 0) || (phase (state f0) =? phaseFinish)
       then match step_discard f0 with
            | None => (f0, Some RStuck)
            | Some (Some be, f1) => (f1, Some (rres_of_berror be))
            | Some (None, f1) => (f1, ret)
            end
       else (f0, ret)) =
    dr_lift k
    (if c
     then match step_discard_at (held_nonneg f) f with
          | None => (f, Some RStuck)
          | Some (Some be, f0) => (f0, Some (rres_of_berror be))
          | Some (None, f0) =>
            if ierr_eqb e EEndInput then (f0, Some RUnexpectedEOF)
            else (f0, Some (RCorrupt (roffset (state f0))))
          end
     else
       let '(f0, ret) :=
         if phase (state f) =? phaseStreamEnd
         then (set_state f (set_phase (state f) phaseFinish), Some REOF)
         else (f, None) in
       if (r_inlen (rd (state f0)) =? 0) || (phase (state f0) =? phaseFinish)
       then match step_discard f0 with
            | None => (f0, Some RStuck)
            | Some (Some be, f1) => (f1, Some (rres_of_berror be))
            | Some (None, f1) => (f1, ret)
            end
       else (f0, ret))).
  { intros c. destruct c.
    - symmetry. exact M.
    - destruct (phase (state f) =? phaseStreamEnd).
      + exact (T (set_state f (set_phase (state f) phaseFinish)) (Some REOF)).
      + exact (T f None). }
  destruct e; try reflexivity; apply R.
Qed.

Lemma step_shift : forall k f, step (dshift k f) = dr_lift k (step f).
Proof.
  intros k f. rewrite !step_eq. dproj.
  destruct (phase (state f) =? phaseFinish); [reflexivity|].
  assert (E : (if inputNil (state f) then step_attach (dshift k f) else (dshift k f, None))
              = dr_lift k (if inputNil (state f) then step_attach f else (f, None))).
  { destruct (inputNil (state f)); [apply step_attach_shift|reflexivity]. }
  rewrite E. clear E.
  destruct (if inputNil (state f) then step_attach f else (f, None)) as [f1 [e1|]]; cbn [dr_lift];
    [reflexivity|].
  rewrite step_slide_shift, step_decode_shift.
  destruct (step_decode (step_slide f1)) as [f2 e2]. cbn [dr_lift].
  apply step_tail_shift.
Qed.

Lemma read_loop_shift : forall k fuel f p,
  read_loop fuel (dshift k f) p = let '(f', bytes, r) := read_loop fuel f p in (dshift k f', bytes, r).
Proof.
  intros k. induction fuel as [|fuel IH]; intros f p.
  - reflexivity.
  - cbn [read_loop]. dproj.
    destruct (readPos f <? writePos f).
    + cbv zeta. cbn [writePos readPos derr].
      destruct (writePos f =? readPos f + N.min p (writePos f - readPos f)); reflexivity.
    + destruct (derr f) as [e|]; [reflexivity|].
      rewrite step_shift. destruct (step f) as [f1 e1]. cbn [dr_lift].
      change (set_err (dshift k f1) e1) with (dshift k (set_err f1 e1)).
      destruct e1 as [e'|].
      * dproj. destruct (writePos (set_err f1 (Some e')) <=? readPos (set_err f1 (Some e')));
          [reflexivity|apply IH].
      * apply IH.
Qed.

Theorem dRead_shift : dRead_shift_statement.
Proof.
  intros k f p. unfold dRead. apply read_loop_shift.
Qed.

Print Assumptions dRead_shift.
