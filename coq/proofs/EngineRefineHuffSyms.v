(* EngineRefineHuffSyms.v -- M5, layer A: the pending symbols of a literal/length table entry
   as words of the bit stream (xseq -> pend_ok), and what the reference decoder (sym1) does on
   the extended code word of an engine symbol. *)
From Coq Require Import List NArith ZArith Bool Lia ZifyBool ZifyNat ZifyN.
From Verif Require Import Bits Huffman HuffmanSpec Inflate InflateSpec InflateMono.
From Verif Require Import Base EngineTables Engine EngineRefineSpec EngineRefineSpecBlock
                          EngineRefineBits EngineRefineBridge.
From Verif Require HuffmanProofs SymbolsProofs EngineFacts.
From Verif Require Import EngineRefineHuffBase.
Import ListNotations.
Open Scope N_scope.

(* ---------------------------------------------------------------- bits *)
Lemma bits_of_N_of_bits : forall l, bits_of_N (length l) (N_of_bits l) = l.
Proof.
  intros l. apply N_of_bits_inj; [apply bits_of_N_length|].
  apply N_of_bits_of_N. apply N_of_bits_lt.
Qed.

Lemma hs_br_drop_0 : forall b, br_drop b 0 = b.
Proof. intros [bits len i il]. unfold br_drop; cbn [r_bits r_len r_in r_inlen]. f_equal. lia. Qed.

Lemma br_drop_drop : forall b a c, br_drop (br_drop b a) c = br_drop b (a + c).
Proof.
  intros [bits len i il] a c. unfold br_drop; cbn [r_bits r_len r_in r_inlen]. f_equal.
  - apply N.shiftr_shiftr.
  - lia.
Qed.

(* the first k buffered bits as a word *)
Lemma stream_head : forall b k, br_wf b -> (Z.of_nat k <= r_len b)%Z ->
  br_bits b = bits_of_N k (N.land (r_bits b) (N.ones (N.of_nat k))) ++ br_bits (br_drop b (N.of_nat k)).
Proof.
  intros b k Hwf Hk.
  destruct (br_drop_bits b (N.of_nat k) Hwf ltac:(lia)) as (D1 & D2 & D3).
  rewrite Nat2N.id in D2, D3.
  assert (Hld : br_loaded (Z.of_N (N.of_nat k)) b) by (right; lia).
  rewrite (peek_bits b (N.of_nat k) Hwf Hld), Nat2N.id, padded_enough by exact D3.
  rewrite D2.
  assert (Hl : length (firstn k (br_bits b)) = k) by (rewrite firstn_length; lia).
  rewrite <- Hl at 1. rewrite bits_of_N_of_bits. symmetry. apply firstn_skipn.
Qed.

(* ---------------------------------------------------------------- pending symbols on the stream *)
Fixpoint pend_ok (xc : list (N * nat * N)) (l : list bool) (pend : list (N * nat)) (rest : list bool) : Prop :=
  match pend with
  | [] => l = rest
  | (s, len) :: r =>
    exists val l', In (s, len, val) xc /\ l = bits_of_N len val ++ l' /\ pend_ok xc l' r rest
  end.

Lemma xseq_pend : forall xc e syms b,
  br_wf b -> (Z.of_nat (syms_bits syms) <= r_len b)%Z -> xseq xc (r_bits b) syms ->
  pend_ok xc (br_bits b ++ e) syms (br_bits (br_drop b (N.of_nat (syms_bits syms))) ++ e).
Proof.
  intros xc e. induction syms as [|[s len] r IH]; intros b Hwf Hk Hx.
  - cbn [syms_bits fold_right pend_ok]. change (N.of_nat 0) with 0. rewrite hs_br_drop_0. reflexivity.
  - cbn [xseq] in Hx. destruct Hx as [(val & Hin & Hm) Hr].
    change (syms_bits ((s, len) :: r)) with (len + syms_bits r)%nat in *.
    cbn [pend_ok]. exists val, (br_bits (br_drop b (N.of_nat len)) ++ e).
    split; [exact Hin|]. unfold xmatch in Hm.
    split.
    + rewrite (stream_head b len Hwf ltac:(lia)), Hm, app_assoc. reflexivity.
    + destruct (br_drop_bits b (N.of_nat len) Hwf ltac:(lia)) as (D1 & _ & _).
      replace (N.of_nat (len + syms_bits r)) with (N.of_nat len + N.of_nat (syms_bits r)) by lia.
      rewrite <- br_drop_drop. apply IH.
      * exact D1.
      * unfold br_drop; cbn [r_len]. lia.
      * unfold br_drop; cbn [r_bits]. exact Hr.
Qed.

Lemma pend_ok_app : forall xc a t l rest, pend_ok xc l (a ++ t) rest ->
  exists m, pend_ok xc l a m /\ pend_ok xc m t rest.
Proof.
  intros xc. induction a as [|[s len] r IH]; intros t l rest H.
  - exists l. split; [reflexivity|exact H].
  - cbn [app pend_ok] in H. destruct H as (val & l' & Hin & El & H).
    destruct (IH _ _ _ H) as (m & H1 & H2).
    exists m. split; [|exact H2]. cbn [pend_ok]. exists val, l'. auto.
Qed.

(* ---------------------------------------------------------------- xcodes *)
Lemma hs_seqN_In : forall n a v, In v (seqN a n) <-> a <= v < a + N.of_nat n.
Proof.
  induction n as [|n IH]; intros a v; cbn [seqN In].
  - lia.
  - rewrite IH. lia.
Qed.

Lemma xcodes_inv : forall ll s len val, In (s, len, val) (xcodes ll) ->
  exists s0 len0 c, In (s0, len0, c) (canon ll) /\
    (((s0 <= 256)%nat /\ s = N.of_nat s0 /\ len = len0 /\ val = rcode len0 c) \/
     ((256 < s0)%nat /\ exists base eb x,
        nth_error len_table (s0 - 257) = Some (base, eb) /\ x < 2 ^ eb /\
        s = base + x + 254 /\ len = (len0 + N.to_nat eb)%nat /\
        val = rcode len0 c + x * 2 ^ N.of_nat len0)).
Proof.
  intros ll s len val H. unfold xcodes in H. apply in_flat_map in H.
  destruct H as ([[s0 len0] c] & Hin & H). exists s0, len0, c. split; [exact Hin|].
  destruct (s0 <=? 256)%nat eqn:E.
  - left. destruct H as [H|[]]. injection H as <- <- <-.
    apply Nat.leb_le in E. auto.
  - right. apply Nat.leb_gt in E. split; [lia|].
    destruct (nth_error len_table (s0 - 257)) as [[base eb]|] eqn:En; [|destruct H].
    apply in_map_iff in H. destruct H as (x & Hx & Hi). injection Hx as <- <- <-.
    apply hs_seqN_In in Hi. exists base, eb, x. split; [reflexivity|].
    split; [lia|]. auto.
Qed.

Lemma len_table_bounds : forall k base eb, nth_error len_table k = Some (base, eb) ->
  3 <= base /\ base + 2 ^ eb <= 259 /\ eb <= 5.
Proof.
  intros k base eb H. unfold len_table in H.
  do 29 (destruct k as [|k]; [cbn [nth_error] in H; injection H as <- <-; cbn; lia|]).
  cbn [nth_error] in H. destruct k; discriminate.
Qed.

Lemma dist_table_entry : forall d, (d < 30)%nat ->
  nth_error dist_table d = Some (aget rfc_dist_start (N.of_nat d), aget rfc_dist_extra (N.of_nat d)).
Proof.
  intros d H. do 30 (destruct d as [|d]; [vm_compute; reflexivity|]). lia.
Qed.

Lemma dist_table_bounds : forall k base eb, nth_error dist_table k = Some (base, eb) ->
  1 <= base /\ base + 2 ^ eb <= 32769 /\ eb <= 13.
Proof.
  intros k base eb H. unfold dist_table in H.
  do 30 (destruct k as [|k]; [cbn [nth_error] in H; injection H as <- <-; cbn; lia|]).
  cbn [nth_error] in H. destruct k; discriminate.
Qed.

(* the word of an extended code: code word, then the extra bits *)
Lemma rcode_word : forall len c, bits_of_N len (rcode len c) = code_bits len c.
Proof.
  intros len c. unfold rcode. rewrite <- (code_bits_length len c) at 1. apply bits_of_N_of_bits.
Qed.

Lemma rcode_lt : forall len c, rcode len c < 2 ^ N.of_nat len.
Proof.
  intros len c. unfold rcode. rewrite <- (code_bits_length len c) at 2. apply N_of_bits_lt.
Qed.

Lemma xword : forall len c eb x, x < 2 ^ N.of_nat eb ->
  bits_of_N (len + eb) (rcode len c + x * 2 ^ N.of_nat len) = code_bits len c ++ bits_of_N eb x.
Proof.
  intros len c eb x Hx. apply N_of_bits_inj.
  - rewrite bits_of_N_length, app_length, code_bits_length, bits_of_N_length. reflexivity.
  - rewrite N_of_bits_app, code_bits_length, (N_of_bits_of_N eb x Hx).
    rewrite N_of_bits_of_N; [unfold rcode; lia|].
    pose proof (rcode_lt len c) as Hr.
    rewrite Nat2N.inj_add, N.pow_add_r. nia.
Qed.

(* ---------------------------------------------------------------- the reference on a word *)
(* the part of sym1 after the length (with its extra bits) has been read *)
Definition dist_part (dt : trie) (st : ostate) (s0 : bs) (len : N) (s2 : bs) : sres :=
  match decode_sym dt s2 with
  | DNeed => SStop st s0 NeedInput
  | DBad => SStop st s0 Corrupt
  | DOk dsym s3 =>
    match nth_error dist_table dsym with
    | None => SStop st s0 Corrupt
    | Some (dbase, dextra) =>
      match take (N.to_nat dextra) s3 with
      | None => SStop st s0 NeedInput
      | Some (de, s4) =>
        if oavail st <? dbase + de then SStop st s0 Corrupt
        else SCont (copy_match len (dbase + de) st) s4
      end
    end
  end.

Lemma xcode_sem : forall ll lt dt s len val l' p st,
  mktrie 15 ll = Some lt -> In (s, len, val) (xcodes ll) ->
  let bs0 := mkbs (bits_of_N len val ++ l') p in
  let bs1 := mkbs l' (p + N.of_nat len) in
  s <= 512 /\
  (s < 256 -> sym1 lt dt st bs0 = SCont (push s st) bs1) /\
  (s = 256 -> sym1 lt dt st bs0 = SEnd st bs1) /\
  (256 < s -> sym1 lt dt st bs0 = dist_part dt st bs0 (s - 254) bs1).
Proof.
  intros ll lt dt s len val l' p st Hmk Hin bs0 bs1.
  destruct (xcodes_inv _ _ _ _ Hin) as (s0 & len0 & c & Hc & [(H1 & -> & -> & ->)|(H1 & base & eb & x & Hn & Hx & -> & -> & ->)]).
  - assert (Hd : decode_sym lt bs0 = DOk s0 bs1).
    { unfold bs0, bs1. rewrite rcode_word.
      apply (HuffmanProofs.decode_encode 15%nat ll lt s0 len0 c l' p Hmk Hc). }
    split; [lia|]. split; [|split].
    + intros Hs. unfold sym1. rewrite Hd.
      destruct (Nat.ltb_spec s0 256) as [_|Hge]; [reflexivity|lia].
    + intros Hs. unfold sym1. rewrite Hd.
      destruct (Nat.ltb_spec s0 256) as [Hlt|_]; [lia|].
      destruct (Nat.eqb_spec s0 256) as [_|Hne]; [reflexivity|lia].
    + intros Hs. lia.
  - destruct (len_table_bounds _ _ _ Hn) as (B1 & B2 & B3).
    assert (Hw : bits_of_N (len0 + N.to_nat eb) (rcode len0 c + x * 2 ^ N.of_nat len0) ++ l'
                 = code_bits len0 c ++ (bits_of_N (N.to_nat eb) x ++ l')).
    { rewrite xword by (rewrite N2Nat.id; exact Hx). rewrite app_assoc. reflexivity. }
    assert (Hd : decode_sym lt bs0 = DOk s0 (mkbs (bits_of_N (N.to_nat eb) x ++ l') (p + N.of_nat len0))).
    { unfold bs0. rewrite Hw.
      apply (HuffmanProofs.decode_encode 15%nat ll lt s0 len0 c _ p Hmk Hc). }
    split; [lia|]. split; [intros; lia|]. split; [intros; lia|].
    intros _. unfold sym1. rewrite Hd.
    destruct (Nat.ltb_spec s0 256) as [Hlt|_]; [lia|].
    destruct (Nat.eqb_spec s0 256) as [He|_]; [lia|].
    rewrite Hn. rewrite (SymbolsProofs.take_bits eb x l' _ Hx).
    unfold dist_part, bs1.
    replace (p + N.of_nat len0 + eb) with (p + N.of_nat (len0 + N.to_nat eb)) by lia.
    replace (base + x + 254 - 254) with (base + x) by lia. reflexivity.
Qed.

(* a run of pending literals *)
Lemma run_lits : forall ll lt dt lits l rest p st,
  mktrie 15 ll = Some lt -> Forall lit_sym lits -> pend_ok (xcodes ll) l lits rest ->
  exists p', sym_run lt dt st (mkbs l p) (pushes lits st) (mkbs rest p') false.
Proof.
  intros ll lt dt. induction lits as [|[a la] r IH]; intros l rest p st Hmk F H.
  - cbn [pend_ok] in H. subst l. exists p. apply sr_refl.
  - cbn [pend_ok] in H. destruct H as (val & l' & Hin & -> & H).
    inversion F as [|x y Ha Fr]; subst. unfold lit_sym in Ha; cbn [fst] in Ha.
    destruct (xcode_sem ll lt dt a la val l' p st Hmk Hin) as (_ & S1 & _ & _).
    destruct (IH l' rest (p + N.of_nat la) (push a st) Hmk Fr H) as (p' & R).
    exists p'. eapply sr_step; [apply S1; exact Ha|]. exact R.
Qed.
